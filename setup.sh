#!/bin/bash
# Build the framework from files on disk only (offline): Lean model, proofs, driver, Rust harness.
set -e
cd "$(dirname "$0")"
export CARGO_NET_OFFLINE=true
mkdir -p .build/run evidence
[ -f harness/Cargo.lock ] || cp /repo/Cargo.lock harness/Cargo.lock
# translators first (Generated/*.lean are inputs of the Lean build)
for t in translators/ser_schema.py translators/par_sites.py; do
  [ -f "$t" ] && python3 "$t" || true
done
( cd lean/PCV && lake build PCV pcvdrv $(ls PCV/Props/C*.lean 2>/dev/null | sed 's#/#.#g; s#\.lean$##' ) ) 2>&1 | tail -5
( cd harness && cargo build --offline ) 2>&1 | tail -3
if [ -f lean/PCV/PCV/Props/C18.lean ]; then
  ( cd harness && cargo build --offline --no-default-features --target-dir /verif/.build/cargo-nopar ) 2>&1 | tail -3
fi
echo setup done
