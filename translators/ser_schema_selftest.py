#!/usr/bin/env python3
"""Self-test of T1 (ser_schema.py): deliberate edits on a scratch COPY of the crate sources
(never /repo) must make the generated obligation fail — either the `decide` of
`generated_schemas_ok` / `generated_schemas_validate_ok`, or the translator itself (fail closed) —
and harmless edits must not.

    python3 translators/ser_schema_selftest.py          (needs the Lean project built once)
"""
import os
import shutil
import subprocess
import sys
import tempfile

VERIF = os.path.dirname(os.path.dirname(os.path.abspath(__file__)))
LEAN = os.path.join(VERIF, "lean", "PCV")
SRC = os.environ.get("PCV_SER_SRC", "/repo/poly-commit/src")
T1 = os.path.join(VERIF, "translators", "ser_schema.py")

KZG = "kzg10/data_structures.rs"
SONIC = "sonic_pc/data_structures.rs"
PST = "marlin/marlin_pst13_pc/data_structures.rs"

G_READ = "let g = E::G1Affine::deserialize_with_mode(&mut reader, compress, Validate::No)?;"
GG_READ = "let gamma_g = E::G1Affine::deserialize_with_mode(&mut reader, compress, Validate::No)?;"


def swap(text, a, b, count_from=0):
    """swap the first occurrences (after count_from) of a and b, a before b"""
    i = text.index(a, count_from)
    j = text.index(b, i + len(a))
    return text[:i] + b + text[i + len(a):j] + a + text[j + len(b):]


def nth_index(text, needle, n):
    i = -1
    for _ in range(n):
        i = text.index(needle, i + 1)
    return i


# (name, file, edit function, expected)   expected in: ok | schema | validate | unparsable | fallback
CASES = [
    ("unmodified copy", None, None, "ok"),
    ("kzg10::VerifierKey: reads of g and gamma_g swapped", KZG,
     lambda t: swap(t, G_READ, GG_READ), "schema"),
    ("sonic_pc::VerifierKey: max_degree dropped from serialized_size", SONIC,
     lambda t: t.replace("            + self.max_degree.serialized_size(compress)\n", "", 1), "schema"),
    ("kzg10::UniversalParams: prepared_beta_h rebuilt from h", KZG,
     lambda t: t.replace("let prepared_beta_h = E::G2Prepared::from(beta_h.clone());",
                         "let prepared_beta_h = E::G2Prepared::from(h.clone());", 1), "schema"),
    ("marlin_pst13_pc::VerifierKey: prepared_h rebuilt from gamma_g", PST,
     lambda t: t[:nth_index(t, "prepared_h: h.into(),", 2)] + "prepared_h: gamma_g.into(),"
     + t[nth_index(t, "prepared_h: h.into(),", 2) + len("prepared_h: h.into(),"):], "schema"),
    ("kzg10::UniversalParams: h and beta_h written in the other order", KZG,
     lambda t: swap(t, "self.h.serialize_with_mode(&mut writer, compress)?;",
                    "self.beta_h.serialize_with_mode(&mut writer, compress)?;"), "schema"),
    ("marlin_pst13_pc::VerifierKey: struct literal crosses g and gamma_g", PST,
     lambda t: t[:nth_index(t, "let result = Self {\n            g,\n            gamma_g,", 1)]
     + "let result = Self {\n            g: gamma_g,\n            gamma_g: g,"
     + t[nth_index(t, "let result = Self {\n            g,\n            gamma_g,", 1)
         + len("let result = Self {\n            g,\n            gamma_g,"):], "schema"),
    ("sonic_pc::VerifierKey: supported_degree not written", SONIC,
     lambda t: t.replace("        self.supported_degree\n            .serialize_with_mode(&mut writer, compress)?;\n", "", 1),
     "schema"),
    ("kzg10::VerifierKey: beta_h no longer checked by Valid::check", KZG,
     lambda t: t.replace("        self.h.check()?;\n        self.beta_h.check()?;\n\n        Ok(())",
                         "        self.h.check()?;\n\n        Ok(())", 1), "validate"),
    ("kzg10::VerifierKey: Validate::Yes branch removed", KZG,
     lambda t: t[:nth_index(t, "        if let Validate::Yes = validate {\n            result.check()?;\n        }\n", 3)]
     + t[nth_index(t, "        if let Validate::Yes = validate {\n            result.check()?;\n        }\n", 3)
         + len("        if let Validate::Yes = validate {\n            result.check()?;\n        }\n"):], "validate"),
    ("sonic_pc::VerifierKey: serialized_size adds a constant", SONIC,
     lambda t: t.replace("            + self.max_degree.serialized_size(compress)\n",
                         "            + self.max_degree.serialized_size(compress)\n            + 8\n", 1),
     "fallback"),
    ("kzg10::Powers: extra statement in the deserializer", KZG,
     lambda t: t.replace("        let result = Self {\n            powers_of_g: Cow::Owned(powers_of_g),",
                         "        let _skip = u8::deserialize_compressed(&mut reader)?;\n"
                         "        let result = Self {\n            powers_of_g: Cow::Owned(powers_of_g),", 1),
     "fallback"),
    ("kzg10::VerifierKey: struct literal with ..Default::default()", KZG,
     lambda t: t.replace("            beta_h,\n            prepared_h,\n            prepared_beta_h,\n        };\n        if let Validate::Yes = validate {\n            result.check()?;\n        }\n\n        Ok(result)\n    }\n}\n\nimpl<E: Pairing> ToConstraintField",
                         "            beta_h,\n            ..Default::default()\n        };\n        if let Validate::Yes = validate {\n            result.check()?;\n        }\n\n        Ok(result)\n    }\n}\n\nimpl<E: Pairing> ToConstraintField", 1),
     "fallback"),
    ("harmless: local renamed (let g1 = ..; Self { g: g1, .. })", KZG,
     lambda t: t.replace(G_READ, G_READ.replace("let g =", "let g1 ="), 1)
     .replace("        let result = Self {\n            g,\n            gamma_g,\n            h,\n            beta_h,\n            prepared_h,",
              "        let result = Self {\n            g: g1,\n            gamma_g,\n            h,\n            beta_h,\n            prepared_h,", 1),
     "ok"),
    ("harmless: serialized_size summed in another order", KZG,
     lambda t: t.replace("        self.g.serialized_size(compress)\n            + self.gamma_g.serialized_size(compress)",
                         "        self.gamma_g.serialized_size(compress)\n            + self.g.serialized_size(compress)", 1),
     "ok"),
]


def run_case(name, rel, edit, expected, tmp):
    src = os.path.join(tmp, "src")
    if os.path.exists(src):
        shutil.rmtree(src)
    shutil.copytree(SRC, src)
    if rel is not None:
        p = os.path.join(src, rel)
        before = open(p).read()
        after = edit(before)
        if after == before:
            return "SELFTEST-BROKEN (edit did not apply)"
        open(p, "w").write(after)
    out = os.path.join(tmp, "Mut.lean")
    for f in (out,):
        if os.path.exists(f):
            os.remove(f)
    r = subprocess.run([sys.executable, T1, "--src", src, "--out", out, "--json", os.path.join(tmp, "mut.json"), "--txt", os.path.join(tmp, "mut.txt"),
                        "--namespace", "PCV.Generated.Mut", "--quiet"],
                       stdout=subprocess.PIPE, stderr=subprocess.STDOUT, text=True)
    if r.returncode != 0:
        got = "unparsable"
        detail = r.stdout.strip()[:160]
        if os.path.exists(out):
            return "translator failed but wrote its output"
    elif "NOTE" in r.stdout and "baseline schema emitted" in r.stdout:
        # an impl shape T1 does not cover: the baseline schema is emitted and the tie for that type is the
        # correspondence run (harness `layout` + round trips), see ser_schema.py
        got = "fallback"
        detail = r.stdout.strip()[:160]
    else:
        body = open(out).read()

        def lean(pred):
            test = os.path.join(tmp, "MutTest.lean")
            open(test, "w").write(body + "\nexample : ∀ s ∈ PCV.Generated.Mut.all, s.2.%s = true := by decide\n" % pred)
            rr = subprocess.run(["lake", "env", "lean", test], cwd=LEAN, stdout=subprocess.PIPE,
                                stderr=subprocess.STDOUT, text=True)
            return rr.returncode == 0, rr.stdout.strip()[:160]
        ok_s, d1 = lean("SchemaOK")
        ok_v, d2 = lean("ValidateOK")
        got = "ok" if ok_s and ok_v else ("schema" if not ok_s else "validate")
        detail = (d1 if not ok_s else d2).replace("\n", " ")
    status = "pass" if got == expected else "FAIL"
    return "%s: expected %s, got %s%s" % (status, expected, got, (" — " + detail) if got != "ok" else "")


def main():
    tmp = tempfile.mkdtemp(prefix="pcv-t1-")
    bad = 0
    try:
        for name, rel, edit, expected in CASES:
            res = run_case(name, rel, edit, expected, tmp)
            print("%-78s %s" % (name, res))
            if not res.startswith("pass"):
                bad += 1
    finally:
        shutil.rmtree(tmp, ignore_errors=True)
    print("ser_schema_selftest: %d/%d as expected" % (len(CASES) - bad, len(CASES)))
    return 1 if bad else 0


if __name__ == "__main__":
    sys.exit(main())
