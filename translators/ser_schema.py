#!/usr/bin/env python3
"""T1 ser_schema.py — extract the field lists of the HAND-WRITTEN `CanonicalSerialize` /
`CanonicalDeserialize` / `Valid` impls of the crate and emit them as Lean data (DESIGN 2.5, C12).

    python3 translators/ser_schema.py [--src DIR] [--out FILE.lean] [--json FILE.json]
                                      [--namespace NS] [--quiet]

  --src   root of the crate sources          (default $PCV_SER_SRC or /repo/poly-commit/src)
  --out   Lean file to (re)generate          (default $PCV_SER_OUT or lean/PCV/PCV/Generated/SerSchemas.lean)
  --json  the same data, with line numbers  (default $PCV_SER_JSON or .build/run/ser_schemas.json)
  --txt   the same data, line-oriented, read by the Rust harness (`props_c12.rs`)
                                             (default $PCV_SER_TXT or .build/run/ser_schemas.txt)

Regex / bracket-matching level, and FAIL CLOSED: every `impl .. CanonicalSerialize for`,
`impl .. CanonicalDeserialize for`, `impl .. Valid for` block found under --src must be understood
completely (every statement of every method matched by one of the shapes below), otherwise the
script prints what it could not read and exits non-zero without touching the outputs.

Shapes understood
  serialize_with_mode : `self.<f>.serialize_with_mode(&mut writer, compress)?;` ... last one without `?`
                        (or a final `Ok(())`)
  serialized_size     : `self.<f>.serialized_size(compress) + ...`
  deserialize_with_mode:
      `let <loc> = <Type>::deserialize_with_mode(&mut reader, compress, Validate::No | Validate::Yes | validate)?;`
      `let <loc> = <prep>;`   with <prep> one of  `E::G2Prepared::from(<x>.clone())`, `<x>.into()`,
                              `<x>.clone().into()`, `<x>.iter().map(|y| y.clone().into()).collect()`
      `let result = Self { f, f: loc, f: Cow::Owned(loc), f: <prep>, .. };`  (no `..base`)
      `if let Validate::Yes = validate { result.check()?; }`   `Ok(result)` / `Ok(Self { .. })`
  check               : `self.<f>.check()?;`  `if <cond on self.<f>..> { return Err(..); }`  `Ok(())`
"""
import json
import os
import re
import sys

VERIF = os.path.dirname(os.path.dirname(os.path.abspath(__file__)))
DEFAULT_SRC = "/repo/poly-commit/src"
# the files the design names; every other .rs file under --src is scanned as well
NAMED_FILES = [
    "kzg10/data_structures.rs",
    "sonic_pc/data_structures.rs",
    "marlin/marlin_pc/data_structures.rs",
    "marlin/marlin_pst13_pc/data_structures.rs",
]
# types whose (de)serialization C12's corollary is about: each must be hand-written (then it is
# translated) or derived (then it is the trusted derive macro) — never absent
REQUIRED = [
    ("kzg10/data_structures.rs", "UniversalParams"),
    ("kzg10/data_structures.rs", "Powers"),
    ("kzg10/data_structures.rs", "VerifierKey"),
    ("sonic_pc/data_structures.rs", "VerifierKey"),
    ("sonic_pc/data_structures.rs", "CommitterKey"),
    ("marlin/marlin_pc/data_structures.rs", "VerifierKey"),
    ("marlin/marlin_pc/data_structures.rs", "CommitterKey"),
    ("marlin/marlin_pst13_pc/data_structures.rs", "UniversalParams"),
    ("marlin/marlin_pst13_pc/data_structures.rs", "VerifierKey"),
    ("marlin/marlin_pst13_pc/data_structures.rs", "CommitterKey"),
]
TRAITS = ("CanonicalSerialize", "CanonicalDeserialize", "Valid")
IDENT = r"[A-Za-z_][A-Za-z0-9_]*"


class Unparsable(Exception):
    pass


def _load_baseline():
    try:
        d = json.load(open(os.path.join(os.path.dirname(os.path.abspath(__file__)), "ser_schemas_baseline.json")))
        return {x["name"]: x for x in d["schemas"]}
    except (OSError, ValueError, KeyError):
        return {}


BASELINE = _load_baseline()
UNTRANSLATED = []


def fail(where, msg):
    raise Unparsable("%s: %s" % (where, msg))


# ------------------------------------------------------------------------------------------------
# lexical helpers
# ------------------------------------------------------------------------------------------------
def strip_comments(src):
    """remove // and /* */ comments (keeping newlines), leave string literals alone"""
    out = []
    i, n = 0, len(src)
    while i < n:
        c = src[i]
        if c == '"':
            j = i + 1
            while j < n and src[j] != '"':
                j += 2 if src[j] == "\\" else 1
            out.append(src[i:j + 1])
            i = j + 1
        elif src.startswith("//", i):
            j = src.find("\n", i)
            j = n if j < 0 else j
            i = j
        elif src.startswith("/*", i):
            depth, j = 1, i + 2
            while j < n and depth:
                if src.startswith("/*", j):
                    depth += 1
                    j += 2
                elif src.startswith("*/", j):
                    depth -= 1
                    j += 2
                else:
                    j += 1
            out.append("\n" * src.count("\n", i, j))
            i = j
        else:
            out.append(c)
            i += 1
    return "".join(out)


def match_brace(src, i, where):
    """src[i] == '{' -> index just after the matching '}'"""
    assert src[i] == "{"
    depth = 0
    j = i
    while j < len(src):
        c = src[j]
        if c == '"':
            j += 1
            while j < len(src) and src[j] != '"':
                j += 2 if src[j] == "\\" else 1
        elif c == "{":
            depth += 1
        elif c == "}":
            depth -= 1
            if depth == 0:
                return j + 1
        j += 1
    fail(where, "unbalanced braces")


def split_top(text, seps):
    """split at separators that are outside (), [], {}, <> (a `>` of `->`/`=>` is not a bracket)"""
    parts, cur = [], []
    depth = 0
    angle = 0
    i = 0
    while i < len(text):
        c = text[i]
        if c in "([{":
            depth += 1
        elif c in ")]}":
            depth -= 1
        elif c == "<":
            angle += 1
        elif c == ">" and i > 0 and text[i - 1] not in "-=" and angle > 0:
            angle -= 1
        if c in seps and depth == 0 and angle == 0:
            parts.append("".join(cur))
            cur = []
        else:
            cur.append(c)
        i += 1
    parts.append("".join(cur))
    return parts


def squash(s):
    return re.sub(r"\s+", "", s)


def lineno(src, pos):
    return src.count("\n", 0, pos) + 1


# ------------------------------------------------------------------------------------------------
# items
# ------------------------------------------------------------------------------------------------
def find_impls(src, rel):
    """[(trait, type, body, line)] of the hand-written impls of the three traits"""
    res = []
    for m in re.finditer(r"\bimpl\b", src):
        head_end = src.find("{", m.end())
        if head_end < 0:
            continue
        head = src[m.start():head_end]
        if ";" in head:
            continue
        hm = re.search(r"\b(%s)\s+for\s+(%s)" % ("|".join(TRAITS), IDENT), head)
        if not hm:
            continue
        # the trait must be the implemented one, not part of a bound: it follows `impl<..>` directly
        pre = head[len("impl"):hm.start()].strip()
        if pre and not (pre.startswith("<") and balanced_angle(pre)):
            continue
        end = match_brace(src, head_end, "%s:%d" % (rel, lineno(src, m.start())))
        res.append((hm.group(1), hm.group(2), src[head_end + 1:end - 1], lineno(src, m.start())))
    return res


def balanced_angle(s):
    d = 0
    for i, c in enumerate(s):
        if c == "<":
            d += 1
        elif c == ">" and (i == 0 or s[i - 1] not in "-="):
            d -= 1
            if d == 0 and i != len(s) - 1:
                return False
    return d == 0


def find_struct(src, name, where):
    """declared fields [(name, type)] of `struct name { .. }`, and the derive list before it"""
    m = re.search(r"\bstruct\s+%s\b" % re.escape(name), src)
    if not m:
        fail(where, "no `struct %s` in this file" % name)
    # attributes directly in front of the struct
    pre = src[:m.start()]
    am = re.search(r"((?:\s*#\[[^\]]*(?:\[[^\]]*\][^\]]*)*\]\s*)*)(?:pub(?:\([^)]*\))?\s+)?$", pre)
    attrs = am.group(1) if am else ""
    derives = []
    for d in re.finditer(r"#\[derive\(([^)]*)\)\]", attrs):
        derives += [x.strip() for x in d.group(1).split(",") if x.strip()]
    j = m.end()
    # skip generics / where clause up to `{`, `(` or `;`
    k = j
    angle = 0
    while k < len(src):
        c = src[k]
        if c == "<":
            angle += 1
        elif c == ">" and src[k - 1] not in "-=":
            angle -= 1
        elif angle == 0 and c in "{(;":
            break
        k += 1
    if k >= len(src) or src[k] != "{":
        return None, derives
    end = match_brace(src, k, where)
    body = src[k + 1:end - 1]
    fields = []
    for part in split_top(body, ","):
        p = part.strip()
        if not p:
            continue
        # drop attributes
        while p.startswith("#["):
            d, q = 0, 0
            for q, c in enumerate(p):
                if c == "[":
                    d += 1
                elif c == "]":
                    d -= 1
                    if d == 0:
                        break
            p = p[q + 1:].strip()
        p = re.sub(r"^pub(\([^)]*\))?\s+", "", p)
        fm = re.match(r"(%s)\s*:\s*(.+)$" % IDENT, p, re.S)
        if not fm:
            fail(where, "cannot read field declaration `%s` of struct %s" % (p[:60], name))
        fields.append((fm.group(1), squash(fm.group(2))))
    return fields, derives


def find_fns(body, where):
    """{fn name: body text} of an impl body; anything else in the impl is refused"""
    fns = {}
    i = 0
    rest = []
    while True:
        m = re.search(r"\bfn\s+(%s)" % IDENT, body[i:])
        if not m:
            rest.append(body[i:])
            break
        rest.append(body[i:i + m.start()])
        b = body.find("{", i + m.end())
        if b < 0:
            fail(where, "fn %s has no body" % m.group(1))
        e = match_brace(body, b, where)
        fns[m.group(1)] = body[b + 1:e - 1]
        i = e
    junk = re.sub(r"#\[[^\]]*\]", "", "".join(rest)).strip()
    if junk:
        fail(where, "unexpected item in impl: `%s`" % junk[:80])
    return fns


def statements(body):
    """top-level statements of a block: split at `;` and after a `}` that ends a block statement"""
    stmts, cur = [], []
    depth = 0
    i = 0
    while i < len(body):
        c = body[i]
        cur.append(c)
        if c in "([{":
            depth += 1
        elif c in ")]}":
            depth -= 1
            if c == "}" and depth == 0:
                text = "".join(cur).strip()
                if re.match(r"(if|for|while|match|loop)\b", text):
                    # a block statement ends here unless an `else` follows
                    if not re.match(r"\s*else\b", body[i + 1:]):
                        stmts.append(text)
                        cur = []
        elif c == ";" and depth == 0:
            stmts.append("".join(cur).strip()[:-1].strip())
            cur = []
        i += 1
    tail = "".join(cur).strip()
    if tail:
        stmts.append(tail)
    return [s for s in stmts if s]


# ------------------------------------------------------------------------------------------------
# the three impls
# ------------------------------------------------------------------------------------------------
def parse_serialize(body, where):
    fns = find_fns(body, where)
    extra = set(fns) - {"serialize_with_mode", "serialized_size"}
    if extra:
        fail(where, "CanonicalSerialize overrides %s: not modelled" % sorted(extra))
    for need in ("serialize_with_mode", "serialized_size"):
        if need not in fns:
            fail(where, "no fn %s" % need)
    written = []
    st = statements(fns["serialize_with_mode"])
    for idx, s in enumerate(st):
        q = squash(s)
        last = idx == len(st) - 1
        if last and q == "Ok(())":
            continue
        m = re.match(r"^self\.(%s)\.serialize_with_mode\(&mutwriter,compress,?\)(\??)$" % IDENT, q)
        if not m:
            fail(where, "serialize_with_mode: cannot read statement `%s`" % s[:100])
        if m.group(2) == "" and not last:
            fail(where, "serialize_with_mode: result of writing `%s` is dropped" % m.group(1))
        if m.group(2) == "?" and last:
            fail(where, "serialize_with_mode: last statement `%s` is not the returned value" % s[:60])
        written.append(m.group(1))
    st = statements(fns["serialized_size"])
    if len(st) != 1:
        fail(where, "serialized_size: expected a single sum expression")
    sized = []
    for term in split_top(st[0], "+"):
        m = re.match(r"^self\.(%s)\.serialized_size\(compress,?\)$" % IDENT, squash(term))
        if not m:
            fail(where, "serialized_size: cannot read summand `%s`" % term.strip()[:80])
        sized.append(m.group(1))
    return written, sized


PREP_SHAPES = [
    r"^(?:<?[A-Za-z_:<>]*>?::)?G2Prepared::from\((%s)(?:\.clone\(\))?\)$" % IDENT,
    r"^(%s)(?:\.clone\(\))?\.into\(\)$" % IDENT,
    r"^(%s)\.(?:iter|into_iter)\(\)\.map\(\|(%s)\|\(?\*?\2\)?(?:\.clone\(\))?\.into\(\)\)\.collect(?:::<[^()]*>)?\(\)$"
    % (IDENT, IDENT),
    r"^(%s)\.(?:iter|into_iter)\(\)\.map\(\|(%s)\|(?:<?[A-Za-z_:<>]*>?::)?G2Prepared::from\(\*?\2(?:\.clone\(\))?\)\)\.collect(?:::<[^()]*>)?\(\)$"
    % (IDENT, IDENT),
]


def prep_source(expr):
    q = squash(expr)
    for shape in PREP_SHAPES:
        m = re.match(shape, q)
        if m:
            return m.group(1)
    return None


def norm_type(t):
    t = squash(t).replace("::<", "<")
    if re.match(r"^%s$" % IDENT, t) and t in ("Vec", "BTreeMap", "Option", "BTreeSet"):
        return ""  # generic head only: the arguments are inferred from the field
    return t


def parse_literal(text, where):
    """`Self { a, b: x, .. }` -> [(field, expr)]"""
    m = re.match(r"^(?:Self|%s(?:::<[^{]*>)?)\s*\{(.*)\}$" % IDENT, text.strip(), re.S)
    if not m:
        fail(where, "cannot read struct literal `%s`" % text[:60])
    entries = []
    for part in split_top(m.group(1), ","):
        p = part.strip()
        if not p:
            continue
        if p.startswith(".."):
            fail(where, "struct literal uses `..`: fields not listed explicitly")
        fm = re.match(r"^(%s)\s*(?::\s*(.+))?$" % IDENT, p, re.S)
        if not fm:
            fail(where, "cannot read struct literal entry `%s`" % p[:60])
        entries.append((fm.group(1), fm.group(2) if fm.group(2) else fm.group(1)))
    return entries


def parse_deserialize(body, where):
    fns = find_fns(body, where)
    if set(fns) != {"deserialize_with_mode"}:
        fail(where, "CanonicalDeserialize defines %s: only deserialize_with_mode is modelled" % sorted(fns))
    reads = []  # (loc, ty, pass)
    prep_locals = {}  # loc -> source loc
    literal = None
    result_var = None
    checks_result = False
    returned = False
    for s in statements(fns["deserialize_with_mode"]):
        q = squash(s)
        if returned:
            fail(where, "statement after the returned value: `%s`" % s[:60])
        m = re.match(r"^let\s+(mut\s+)?(%s)\s*(?::[^=]+)?=\s*(.+)$" % IDENT, s, re.S)
        if m:
            loc, rhs = m.group(2), m.group(3).strip()
            rq = squash(rhs)
            dm = re.match(r"^(.+)::deserialize_with_mode\(&mutreader,compress,(Validate::No|Validate::Yes|validate),?\)\?$", rq)
            if dm:
                if any(r[0] == loc for r in reads) or loc in prep_locals:
                    fail(where, "local `%s` is bound twice" % loc)
                reads.append((loc, norm_type(dm.group(1)), dm.group(2) != "Validate::No"))
                continue
            if re.match(r"^(Self|%s(::<.*>)?)\{" % IDENT, rq):
                if literal is not None:
                    fail(where, "two struct literals")
                literal = parse_literal(rhs, where)
                result_var = loc
                continue
            src = prep_source(rhs)
            if src is not None:
                if loc in prep_locals or any(r[0] == loc for r in reads):
                    fail(where, "local `%s` is bound twice" % loc)
                prep_locals[loc] = src
                continue
            fail(where, "deserialize_with_mode: cannot read `let %s = %s`" % (loc, rhs[:80]))
        m = re.match(r"^if(?:letValidate::Yes=validate|validate==Validate::Yes|matches!\(validate,Validate::Yes\))\{(.*)\}$", q, re.S)
        if m:
            inner = m.group(1)
            if result_var is None or inner not in ("%s.check()?;" % result_var, "%s.check()?" % result_var):
                fail(where, "cannot read the body of the Validate::Yes branch: `%s`" % inner[:60])
            checks_result = True
            continue
        m = re.match(r"^Ok\((.*)\)$", q, re.S)
        if m:
            returned = True
            if result_var is not None and m.group(1) == result_var:
                continue
            if literal is None and re.match(r"^(Self|%s)\{" % IDENT, m.group(1)):
                inner = re.match(r"^Ok\((.*)\)$", s.strip(), re.S).group(1)
                literal = parse_literal(inner, where)
                continue
            fail(where, "cannot read the returned value `%s`" % s[:60])
        fail(where, "deserialize_with_mode: cannot read statement `%s`" % s[:100])
    if literal is None or not returned:
        fail(where, "deserialize_with_mode: no struct literal / no returned value")
    read_locs = [r[0] for r in reads]
    assigned = {}  # loc -> [fields]
    prepared = []  # (field, source local)
    for field, expr in literal:
        e = squash(expr)
        cm = re.match(r"^(?:Cow::Owned|Some|Box::new)?\(?(%s)\)?$" % IDENT, e)
        ident = None
        if re.match(r"^%s$" % IDENT, e):
            ident = e
        elif re.match(r"^Cow::Owned\((%s)\)$" % IDENT, e):
            ident = re.match(r"^Cow::Owned\((%s)\)$" % IDENT, e).group(1)
        del cm
        if ident is not None:
            if ident in read_locs:
                assigned.setdefault(ident, []).append(field)
                continue
            if ident in prep_locals:
                prepared.append((field, prep_locals[ident]))
                continue
            fail(where, "field `%s` is initialised from `%s`, which is neither read nor rebuilt" % (field, ident))
        src = prep_source(expr)
        if src is not None:
            prepared.append((field, src))
            continue
        fail(where, "cannot read the initialiser of field `%s`: `%s`" % (field, expr.strip()[:80]))
    for _, src in prepared:
        if src not in read_locs:
            fail(where, "a prepared field is rebuilt from `%s`, which was not read" % src)
    read = []
    for loc, ty, pv in reads:
        fs = assigned.get(loc, [])
        read.append({"loc": loc, "field": fs[0] if fs else "", "ty": ty, "pass": pv})
        # a local used for two fields: the second field stays uncovered -> SchemaOK fails
    return read, prepared, [f for f, _ in literal], checks_result


def parse_valid(body, where):
    fns = find_fns(body, where)
    extra = set(fns) - {"check"}
    if extra or "check" not in fns:
        fail(where, "Valid defines %s: only `check` is modelled" % sorted(fns))
    checked, inspected = [], []
    st = statements(fns["check"])
    for idx, s in enumerate(st):
        q = squash(s)
        if q == "Ok(())" and idx == len(st) - 1:
            continue
        m = re.match(r"^self\.(%s)\.check\(\)\?$" % IDENT, q)
        if m:
            checked.append(m.group(1))
            continue
        m = re.match(r"^if(.+?)\{returnErr\(.*\);?\}$", q, re.S)
        if m and not q.startswith("iflet"):
            names = re.findall(r"self\.(%s)" % IDENT, m.group(1))
            if not names:
                fail(where, "check: condition does not look at a field: `%s`" % s[:80])
            for nm in names:
                if nm not in inspected:
                    inspected.append(nm)
            continue
        fail(where, "check: cannot read statement `%s`" % s[:100])
    return checked, inspected


# ------------------------------------------------------------------------------------------------
# driver
# ------------------------------------------------------------------------------------------------
def module_of(rel):
    parts = rel.replace("\\", "/").split("/")
    stem = parts[-1][:-3]
    if stem in ("data_structures", "mod") and len(parts) >= 2:
        return parts[-2]
    if len(parts) >= 2:
        return parts[-2] + "_" + stem
    return stem


def translate(src_root):
    rels = []
    for root, _, files in os.walk(src_root):
        for f in sorted(files):
            if f.endswith(".rs"):
                rels.append(os.path.relpath(os.path.join(root, f), src_root))
    rels.sort()
    for nf in NAMED_FILES:
        if nf not in rels:
            fail(nf, "source file not found under %s" % src_root)
    schemas = []
    derived_seen = {}
    for rel in rels:
        raw = open(os.path.join(src_root, rel)).read()
        if not any(t in raw for t in TRAITS):
            continue
        src = strip_comments(raw)
        impls = find_impls(src, rel)
        by_type = {}
        for trait, ty, body, line in impls:
            if trait in by_type.setdefault(ty, {}):
                fail("%s:%d" % (rel, line), "second impl of %s for %s" % (trait, ty))
            by_type[ty][trait] = (body, line)
        for ty in sorted(by_type, key=lambda t: min(v[1] for v in by_type[t].values())):
            got = by_type[ty]
            where = "%s: %s" % (rel, ty)
            try:
                missing = [t for t in TRAITS if t not in got]
                if missing:
                    fail(where, "hand-written impl of %s but not of %s" % (sorted(got), missing))
                fields, derives = find_struct(src, ty, where)
                if fields is None:
                    fail(where, "hand-written impls on a tuple/unit struct are not modelled")
                if "CanonicalSerialize" in derives or "CanonicalDeserialize" in derives:
                    fail(where, "both derived and hand-written")
                written, sized = parse_serialize(got["CanonicalSerialize"][0], where + " (CanonicalSerialize)")
                read, prepared, lit_fields, checks_result = parse_deserialize(
                    got["CanonicalDeserialize"][0], where + " (CanonicalDeserialize)")
                checked, inspected = parse_valid(got["Valid"][0], where + " (Valid)")
                names = [f for f, _ in fields]
                if sorted(lit_fields) != sorted(names):
                    fail(where, "struct literal initialises %s but the struct declares %s" % (lit_fields, names))
                for f in written + sized + checked + inspected:
                    if f not in names:
                        fail(where, "`self.%s` is not a declared field" % f)
                if not checks_result:
                    # `check` is never run on the deserialized value: nothing is validated afterwards
                    checked, inspected = [], []
                mod = module_of(rel)
                schemas.append({
                    "name": "%s::%s" % (mod, ty),
                    "lean": "%s_%s" % (mod, ty),
                    "file": rel,
                    "lines": {t: got[t][1] for t in TRAITS},
                    "fields": fields,
                    "written": written,
                    "read": read,
                    "sized": sized,
                    "checked": checked,
                    "inspected": inspected,
                    "prepared": prepared,
                })
            except Unparsable as e:
                # A hand-written impl the shapes above do not cover (a rewrite of the impl, harmless or not).
                # The tie for THIS type falls back from translation to correspondence: the schema recorded for
                # the pinned tree (translators/ser_schemas_baseline.json) is emitted instead, and the harness
                # compares the real bytes, sizes and round trips of the current code with it on every case
                # (`props_c12.rs::layout`, model op `c12.layout`).  Without a baseline entry: fail closed.
                base = BASELINE.get("%s::%s" % (module_of(rel), ty))
                if base is None or base.get("file") != rel:
                    raise
                b = dict(base)
                b["untranslated"] = str(e)
                b["lines"] = {t: got[t][1] for t in TRAITS if t in got}
                schemas.append(b)
                UNTRANSLATED.append((b["name"], str(e)))
        # remember derived types for the REQUIRED list
        for req_rel, req_ty in REQUIRED:
            if req_rel == rel and req_ty not in by_type:
                _, derives = find_struct(src, req_ty, "%s: %s" % (rel, req_ty))
                derived_seen[(rel, req_ty)] = ("CanonicalSerialize" in derives and
                                               "CanonicalDeserialize" in derives)
    have = {(s["file"], s["name"].split("::")[1]) for s in schemas}
    derived = []
    for key in REQUIRED:
        if key in have:
            continue
        if derived_seen.get(key):
            derived.append("%s::%s" % (module_of(key[0]), key[1]))
            continue
        fail("%s: %s" % key, "neither a hand-written nor a derived CanonicalSerialize/Deserialize found")
    names = [s["lean"] for s in schemas]
    if len(set(names)) != len(names):
        fail("output", "two schemas with the same name: %s" % names)
    return schemas, derived


def lstr(s):
    return '"' + s.replace("\\", "\\\\").replace('"', '\\"') + '"'


def llist(xs, item=lstr, indent="      "):
    if not xs:
        return "[]"
    body = (",\n" + indent).join(item(x) for x in xs)
    return "[" + body + "]"


def render_lean(schemas, derived, namespace):
    o = []
    o.append("/-")
    o.append("  GENERATED by /verif/translators/ser_schema.py (T1) from the hand-written")
    o.append("  CanonicalSerialize / CanonicalDeserialize / Valid impls of the crate — do not edit;")
    o.append("  `./check C12` regenerates it from the current source on every run.")
    o.append("  Derived (trusted derive macro, not listed here): " + (", ".join(derived) or "-"))
    for sc in schemas:
        if sc.get("untranslated"):
            o.append("  NOT TRANSLATED (baseline schema, tied to the code by the correspondence run): " + sc["name"])
    o.append("-/")
    o.append("import PCV.Model.Codec")
    o.append("")
    o.append("namespace %s" % namespace)
    o.append("open PCV")
    for s in schemas:
        o.append("")
        o.append("/-- `%s` (%s) -/" % (s["name"], s["file"]))
        o.append("def %s : Schema where" % s["lean"])
        o.append("  fields := " + llist(s["fields"], lambda p: "(%s, %s)" % (lstr(p[0]), lstr(p[1]))))
        o.append("  written := " + llist(s["written"]))
        o.append("  read := " + llist(
            s["read"],
            lambda r: "⟨%s, %s, %s, %s⟩" % (lstr(r["loc"]), lstr(r["field"]), lstr(r["ty"]),
                                             "true" if r["pass"] else "false")))
        o.append("  sized := " + llist(s["sized"]))
        o.append("  checked := " + llist(s["checked"]))
        o.append("  inspected := " + llist(s["inspected"]))
        o.append("  prepared := " + llist(s["prepared"], lambda p: "(%s, %s)" % (lstr(p[0]), lstr(p[1]))))
    o.append("")
    o.append("/-- every hand-written impl found in the source, by `module::Type` -/")
    o.append("def all : List (String × Schema) :=")
    o.append("  " + llist(schemas, lambda s: "(%s, %s)" % (lstr(s["name"]), s["lean"]), indent="   "))
    o.append("")
    o.append("end %s" % namespace)
    return "\n".join(o) + "\n"


def render_txt(schemas):
    """line-oriented form for the harness: `schema <idx> <name>` .. `end`; idx = position in `all`"""
    o = []
    for i, s in enumerate(schemas):
        o.append("schema %d %s" % (i, s["name"]))
        o.append("fields " + " ".join(f for f, _ in s["fields"]))
        o.append("written " + " ".join(s["written"]))
        o.append("sized " + " ".join(s["sized"]))
        o.append("prepared " + " ".join(p for p, _ in s["prepared"]))
        o.append("end")
    return "\n".join(o) + "\n"


def write_if_changed(path, text):
    os.makedirs(os.path.dirname(path), exist_ok=True)
    if os.path.exists(path) and open(path).read() == text:
        return False
    tmp = path + ".tmp%d" % os.getpid()
    open(tmp, "w").write(text)
    os.replace(tmp, path)
    return True


def main(argv):
    src = os.environ.get("PCV_SER_SRC", DEFAULT_SRC)
    out = os.environ.get("PCV_SER_OUT", os.path.join(VERIF, "lean", "PCV", "PCV", "Generated", "SerSchemas.lean"))
    js = os.environ.get("PCV_SER_JSON", os.path.join(VERIF, ".build", "run", "ser_schemas.json"))
    txt = os.environ.get("PCV_SER_TXT", os.path.join(VERIF, ".build", "run", "ser_schemas.txt"))
    namespace = "PCV.Generated.SerSchemas"
    quiet = False
    i = 0
    while i < len(argv):
        a = argv[i]
        if a == "--src":
            src = argv[i + 1]; i += 1
        elif a == "--out":
            out = argv[i + 1]; i += 1
        elif a == "--json":
            js = argv[i + 1]; i += 1
        elif a == "--txt":
            txt = argv[i + 1]; i += 1
        elif a == "--namespace":
            namespace = argv[i + 1]; i += 1
        elif a == "--quiet":
            quiet = True
        else:
            print("ser_schema.py: unknown argument %s" % a, file=sys.stderr)
            return 2
        i += 1
    try:
        schemas, derived = translate(src)
    except Unparsable as e:
        print("ser_schema.py: FAILED (outputs left untouched): %s" % e, file=sys.stderr)
        return 1
    except (OSError, UnicodeDecodeError) as e:
        print("ser_schema.py: FAILED reading the source: %s" % e, file=sys.stderr)
        return 1
    changed = write_if_changed(out, render_lean(schemas, derived, namespace))
    write_if_changed(txt, render_txt(schemas))
    write_if_changed(js, json.dumps({"source": src, "derived": derived, "schemas": schemas,
                                     "untranslated": [{"name": n, "reason": r} for n, r in UNTRANSLATED]},
                                    indent=1) + "\n")
    for n, r in UNTRANSLATED:
        print("ser_schema.py: NOTE %s: impl not readable (%s); baseline schema emitted, tie by correspondence" % (n, r),
              file=sys.stderr)
    if not quiet:
        print("ser_schema.py: %d hand-written impls (%s); derived: %s; %s %s" % (
            len(schemas), ", ".join(s["name"] for s in schemas), ", ".join(derived) or "-",
            "wrote" if changed else "unchanged", out))
    return 0


if __name__ == "__main__":
    sys.exit(main(sys.argv[1:]))
