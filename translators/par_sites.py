#!/usr/bin/env python3
"""T2 par_sites.py — enumerate the parallel-iterator sites of the crate (DESIGN §2.5, property C18).

Scans every *.rs under the crate's src/ for
  * `cfg_iter!`, `cfg_into_iter!`, `cfg_iter_mut!`, `cfg_chunks!`, `cfg_chunks_mut!`,
    `.par_iter()`, `.into_par_iter()`, `.par_iter_mut()`, `.par_chunks*()`, any other `.par_*()`
    method, and any `rayon::` path outside a `use` item;
  * every `#[cfg(... feature = "parallel" ...)]` attribute and the item it gates;
  * RNG-producing expressions (`thread_rng`, `test_rng`, `rand::`, `OsRng`, `from_entropy`, ...)
    inside an item gated on the `parallel` feature, and ambient-entropy RNGs (`thread_rng`, `OsRng`,
    `from_entropy`, `getrandom`) anywhere in non-test code.
For each iterator site the method chain is followed to the end of the expression and the first
non-adapter method is the site's *terminal*.  The result is written to
  lean/PCV/PCV/Generated/ParSites.lean   (data for the `decide` obligations of Props/C18.lean)
  .build/run/par_sites.json              (the same data with the chain / closure text, for evidence)

Regex / bracket-matching level, and FAIL CLOSED: whatever is not recognised becomes
`Terminal.other <code>` (which is not on C18's allow-list, so the Lean obligation breaks) and
anything that cannot be parsed at all makes the script exit non-zero.

  par_sites.py [--src DIR] [--lean-out FILE] [--json-out FILE]
"""
import json
import os
import re
import sys

VERIF = os.path.dirname(os.path.dirname(os.path.abspath(__file__)))
SRC = "/repo/poly-commit/src"
LEAN_OUT = os.path.join(VERIF, "lean", "PCV", "PCV", "Generated", "ParSites.lean")
JSON_OUT = os.path.join(VERIF, ".build", "run", "par_sites.json")

# codes of Terminal.other
OTHER = {
    "reduce": 1,            # reduce / reduce_with whose operator is not literally a + b or a * b
    "fold": 2,              # rayon fold/fold_with (per-split partial results)
    "search": 3,            # find_any, find_first, position_any, any, all ...
    "for_each_shared": 4,   # for_each that is not provably confined to its own iter_mut element
    "unknown_adapter": 5,   # a method of the chain that is neither a known adapter nor a known terminal
    "no_terminal": 6,       # the chain ends in an adapter and is not an argument of zip/chain of another site
    "rayon_path": 7,        # rayon:: used outside a `use` item (join, scope, spawn, ThreadPoolBuilder ...)
    "unknown_par_method": 8,  # .par_sort(), .par_bridge(), .par_extend() ...
    "order_stat": 9,        # min/max/count/try_* ...
}

ADAPTERS = {"map", "zip", "zip_eq", "enumerate", "chain", "cloned", "copied", "with_min_len",
            "with_max_len"}
TERMINAL_SIMPLE = {"collect": "collect", "collect_into_vec": "collect", "sum": "sum",
                   "product": "product", "unzip": "unzip", "unzip_into_vecs": "unzip"}
SEARCH = {"find_any", "find_first", "find_last", "find_map_any", "find_map_first",
          "position_any", "position_first", "position_last", "any", "all"}
ORDER_STAT = {"min", "max", "min_by", "max_by", "min_by_key", "max_by_key", "count",
              "try_for_each", "try_reduce", "try_fold", "try_for_each_with", "try_for_each_init",
              "try_reduce_with", "try_fold_with"}
FOR_EACH_SHARED = {"for_each_with", "for_each_init"}

MACRO_SOURCES = {"cfg_iter": "cfgIter", "cfg_into_iter": "cfgIntoIter", "cfg_iter_mut": "cfgIterMut",
                 "cfg_chunks": "cfgChunks", "cfg_chunks_mut": "cfgChunksMut"}
METHOD_SOURCES = {"par_iter": "parIter", "into_par_iter": "intoParIter", "par_iter_mut": "parIterMut",
                  "par_chunks": "parChunks", "par_chunks_mut": "parChunksMut",
                  "par_chunks_exact": "parChunks", "par_chunks_exact_mut": "parChunksMut"}
MUT_SOURCES = {"cfgIterMut", "cfgChunksMut", "parIterMut", "parChunksMut"}

MUTATING_METHODS = (
    "push|push_str|push_back|push_front|extend|extend_from_slice|insert|remove|append|clear|truncate|"
    "pop|pop_back|pop_front|swap|swap_remove|sort|sort_by|sort_by_key|sort_unstable|dedup|resize|"
    "drain|fill|retain|reverse|add_assign|sub_assign|mul_assign|div_assign|neg_in_place|"
    "double_in_place|square_in_place|inverse_in_place|frobenius_map_in_place|set|store|swap_with_slice|"
    "fetch_add|fetch_sub|fetch_or|fetch_and|fetch_xor|lock|write|borrow_mut|get_mut|iter_mut|as_mut|"
    "as_mut_slice|entry|send|replace|take|copy_from_slice|clone_from_slice|clone_from|absorb|update|"
    "next|next_u32|next_u64|fill_bytes|split_off|rotate_left|rotate_right|par_iter_mut"
)

RNG_GATED = re.compile(r"\b(thread_rng|test_rng|OsRng|from_entropy|getrandom|StdRng|SmallRng|from_rng|"
                       r"seed_from_u64|from_seed)\b|\brand\s*::")
RNG_AMBIENT = re.compile(r"\b(thread_rng|OsRng|from_entropy|getrandom)\b")


class ParseFailure(Exception):
    pass


# --------------------------------------------------------------------------------------------------
# lexical cleaning: same length as the input, newlines preserved
# --------------------------------------------------------------------------------------------------
def clean_source(text):
    """returns (nocomment, clean): comments blanked / comments and string+char literal contents blanked"""
    n = len(text)
    a = list(text)  # comments blanked
    b = list(text)  # comments and literal contents blanked
    i = 0

    def blank(arr, s, e):
        for k in range(s, e):
            if arr[k] != "\n":
                arr[k] = " "

    while i < n:
        c = text[i]
        if text.startswith("//", i):
            j = text.find("\n", i)
            j = n if j < 0 else j
            blank(a, i, j)
            blank(b, i, j)
            i = j
        elif text.startswith("/*", i):
            depth = 1
            j = i + 2
            while j < n and depth > 0:
                if text.startswith("/*", j):
                    depth += 1
                    j += 2
                elif text.startswith("*/", j):
                    depth -= 1
                    j += 2
                else:
                    j += 1
            if depth != 0:
                raise ParseFailure("unterminated block comment")
            blank(a, i, j)
            blank(b, i, j)
            i = j
        elif c == '"' or (c == "r" and re.match(r'r#*"', text[i:i + 8]) and
                          not (i > 0 and (text[i - 1].isalnum() or text[i - 1] == "_"))) or \
                (c == "b" and re.match(r'b(r#*)?"', text[i:i + 9]) and
                 not (i > 0 and (text[i - 1].isalnum() or text[i - 1] == "_"))):
            m = re.match(r'b?r(#*)"', text[i:i + 12])
            if m:  # raw string
                hashes = m.group(1)
                start = i + m.end()
                endtok = '"' + hashes
                j = text.find(endtok, start)
                if j < 0:
                    raise ParseFailure("unterminated raw string")
                blank(b, start, j)
                i = j + len(endtok)
            else:
                start = i + (2 if c == "b" else 1)
                j = start
                while j < n and text[j] != '"':
                    j += 2 if text[j] == "\\" else 1
                if j >= n:
                    raise ParseFailure("unterminated string literal")
                blank(b, start, j)
                i = j + 1
        elif c == "'":
            m = re.match(r"'(\\x[0-9a-fA-F]{2}|\\u\{[0-9a-fA-F_]+\}|\\.|[^\\'\n])'", text[i:i + 14])
            if m:
                blank(b, i + 1, i + m.end() - 1)
                i += m.end()
            else:
                i += 1  # lifetime
        else:
            i += 1
    return "".join(a), "".join(b)


OPEN = {"(": ")", "[": "]", "{": "}"}
CLOSE = {")", "]", "}"}


def match_bracket(s, i):
    """s[i] is an opening bracket; index just past its matching closer"""
    stack = []
    j = i
    n = len(s)
    while j < n:
        ch = s[j]
        if ch in OPEN:
            stack.append(OPEN[ch])
        elif ch in CLOSE:
            if not stack or stack[-1] != ch:
                raise ParseFailure("mismatched bracket at offset %d" % j)
            stack.pop()
            if not stack:
                return j + 1
        j += 1
    raise ParseFailure("unbalanced bracket starting at offset %d" % i)


def match_angle(s, i):
    """s[i] == '<' of a turbofish; index past the matching '>'"""
    depth = 0
    j = i
    while j < len(s):
        if s[j] == "<":
            depth += 1
        elif s[j] == ">" and s[j - 1] != "-":
            depth -= 1
            if depth == 0:
                return j + 1
        elif s[j] in ";{}":
            break
        j += 1
    raise ParseFailure("unbalanced turbofish at offset %d" % i)


def skip_ws(s, i):
    while i < len(s) and s[i].isspace():
        i += 1
    return i


def line_of(text, off):
    return text.count("\n", 0, off) + 1


def parse_chain(clean, i):
    """parse `.name::<..>(args)` repeatedly from offset i; returns (list of (name, args, start, end), end)"""
    chain = []
    while True:
        j = skip_ws(clean, i)
        if j < len(clean) and clean[j] == "?":
            i = j + 1
            continue
        if j >= len(clean) or clean[j] != "." or clean.startswith("..", j):
            return chain, i
        j = skip_ws(clean, j + 1)
        m = re.match(r"[A-Za-z_]\w*|\d+", clean[j:])
        if not m:
            raise ParseFailure("method name expected at offset %d" % j)
        name = m.group(0)
        k = j + m.end()
        k2 = skip_ws(clean, k)
        if clean.startswith("::", k2):
            k3 = skip_ws(clean, k2 + 2)
            if k3 < len(clean) and clean[k3] == "<":
                k = match_angle(clean, k3)
                k2 = skip_ws(clean, k)
        if k2 < len(clean) and clean[k2] == "(":
            e = match_bracket(clean, k2)
            chain.append((name, clean[k2 + 1:e - 1], j, e))
            i = e
        else:
            chain.append((name, None, j, k))  # field access
            i = k


# --------------------------------------------------------------------------------------------------
# closures
# --------------------------------------------------------------------------------------------------
def split_closure(args):
    """`|params| body` -> (params, body) or None"""
    m = re.match(r"\s*(?:move\s+)?\|", args)
    if not m:
        return None
    i = m.end()
    depth = 0
    j = i
    while j < len(args):
        ch = args[j]
        if ch in "([{<":
            depth += 1
        elif ch in ")]}>":
            depth -= 1
        elif ch == "|" and depth == 0:
            return args[i:j], args[j + 1:]
        j += 1
    return None


def parse_pattern(p):
    """closure parameter pattern -> nested list / identifier string; None if not understood"""
    p = p.strip()
    # drop a type annotation at top level
    depth = 0
    for k, ch in enumerate(p):
        if ch in "([{<":
            depth += 1
        elif ch in ")]}>":
            depth -= 1
        elif ch == ":" and depth == 0:
            p = p[:k].strip()
            break
    while p.startswith("&"):
        p = p[1:].strip()
    p = re.sub(r"^(mut|ref)\s+", "", p)
    p = re.sub(r"^(mut|ref)\s+", "", p)
    if p.startswith("(") and p.endswith(")"):
        inner = p[1:-1]
        parts = []
        depth = 0
        cur = ""
        for ch in inner:
            if ch in "([{<":
                depth += 1
            elif ch in ")]}>":
                depth -= 1
            if ch == "," and depth == 0:
                parts.append(cur)
                cur = ""
            else:
                cur += ch
        if cur.strip():
            parts.append(cur)
        out = [parse_pattern(x) for x in parts]
        if any(x is None for x in out):
            return None
        return out
    if re.fullmatch(r"[A-Za-z_]\w*", p):
        return p
    return None


def idents_of(pat):
    if isinstance(pat, str):
        return [] if pat == "_" else [pat]
    out = []
    for x in pat:
        out += idents_of(x)
    return out


def element_name(pattern, adapters):
    """name bound to the iter_mut element, given the adapters applied before for_each"""
    # structure: E; zip -> [prev, other]; enumerate -> [index, prev]
    struct = "E"
    for a in adapters:
        if a in ("zip", "zip_eq"):
            struct = [struct, "O"]
        elif a == "enumerate":
            struct = ["I", struct]
        elif a in ("with_min_len", "with_max_len"):
            pass
        else:
            return None

    def walk(st, pat):
        if st == "E":
            return pat if isinstance(pat, str) and pat != "_" else None
        if isinstance(st, list):
            if not isinstance(pat, list) or len(pat) != len(st):
                return None
            for s2, p2 in zip(st, pat):
                r = walk(s2, p2)
                if r:
                    return r
        return None

    return walk(struct, pattern)


POSTFIX = r"(?:\s*(?:\.\s*\w+(?:\s*::\s*<[^<>;{}]*>)?|\[[^\[\]]*\]|\([^()]*\)))*"


def check_for_each_body(params, body, adapters):
    """(ok, reason).  ok iff every write in the closure body goes to the closure's own iter_mut
    element or to a variable declared by `let` inside the body."""
    pattern = parse_pattern(params)
    if pattern is None:
        return False, "closure parameter pattern not understood: |%s|" % params.strip()
    elem = element_name(pattern, adapters)
    if elem is None:
        return False, "cannot locate the iter_mut element in |%s| after adapters %s" % (params.strip(), adapters)
    body = re.sub(r"#\s*!?\s*\[[^\]]*\]", lambda m: " " * len(m.group(0)), body)
    locals_ = set()
    for m in re.finditer(r"\blet\s+(?:mut\s+)?([A-Za-z_]\w*|\([^()=]*\))", body):
        for x in re.findall(r"[A-Za-z_]\w*", m.group(1)):
            if x not in ("mut", "ref"):
                locals_.add(x)
    for m in re.finditer(r"\bfor\s+(.+?)\s+in\b", body):
        for x in re.findall(r"[A-Za-z_]\w*", m.group(1)):
            if x not in ("mut", "ref", "_"):
                locals_.add(x)
    # inner closure parameters are locals of that closure (shadowing is resolved conservatively:
    # they may not carry the name of anything captured because Rust would shadow it anyway)
    for m in re.finditer(r"\|([^|]*)\|", body):
        for x in re.findall(r"[A-Za-z_]\w*", m.group(1)):
            if x not in ("mut", "ref", "_"):
                locals_.add(x)
    allowed = locals_ | {elem}
    writes = []
    # assignment operators
    for m in re.finditer(r"=", body):
        k = m.start()
        nxt = body[k + 1] if k + 1 < len(body) else ""
        prv = body[k - 1] if k > 0 else ""
        prv2 = body[k - 2:k] if k > 1 else ""
        if nxt in "=>":
            continue
        if prv in "=!":
            continue
        if prv == "." and prv2 == "..":
            continue  # ..= range
        if prv in "<>" and prv2 not in ("<<", ">>"):
            continue  # <= >=
        # left-hand side: back to the previous statement boundary
        oplen = 1
        if prv in "+-*/%&|^":
            oplen = 2
        elif prv2 in ("<<", ">>"):
            oplen = 3
        e = k - (oplen - 1)
        s = e
        while s > 0 and body[s - 1] not in ";{}":
            s -= 1
        lhs = body[s:e].strip()
        if re.match(r"let\b", lhs):
            continue
        mm = re.fullmatch(r"[*(\s]*([A-Za-z_]\w*)" + POSTFIX + r"[\s)]*", lhs)
        if not mm:
            return False, "assignment with an unrecognised left-hand side: `%s`" % lhs[:80]
        writes.append(mm.group(1))
        if mm.group(1) not in allowed:
            return False, "assignment to `%s`, which is neither the closure's element `%s` nor a local" % (
                mm.group(1), elem)
    # mutating method calls
    for m in re.finditer(r"([A-Za-z_]\w*)" + POSTFIX + r"\s*\.\s*(" + MUTATING_METHODS + r")\s*(?:::\s*<[^<>;{}]*>)?\s*\(",
                         body):
        base = m.group(1)
        if base in ("self", "Self"):
            return False, "mutating call on self: `%s`" % m.group(0)[:80]
        if base not in allowed:
            # `Type::f(..).push(..)` style: an upper-case path segment is a constructor, not a place
            if re.match(r"[A-Z]", base):
                continue
            return False, "mutating call `.%s(` on `%s`, which is neither the closure's element `%s` nor a local" % (
                m.group(2), base, elem)
    for m in re.finditer(r"&\s*mut\s+[*(\s]*([A-Za-z_]\w*)", body):
        if m.group(1) not in allowed:
            return False, "`&mut %s` taken of a captured variable" % m.group(1)
    if re.search(r"\b(unsafe|static\s+mut|UnsafeCell|AtomicU|AtomicI|AtomicBool|Mutex|RwLock|RefCell)\b", body):
        return False, "closure uses unsafe / interior mutability"
    if elem not in writes and not re.search(r"\b%s\b" % re.escape(elem), body):
        return False, "closure never touches its element"
    return True, "writes only to element `%s` / locals %s" % (elem, sorted(locals_))


# --------------------------------------------------------------------------------------------------
# per-file scan
# --------------------------------------------------------------------------------------------------
def item_extent(clean, i):
    """extent [s, e) of the item/statement that starts at or after offset i (after attributes)"""
    j = skip_ws(clean, i)
    while clean.startswith("#", j):
        k = skip_ws(clean, j + 1)
        if k < len(clean) and clean[k] == "!":
            k = skip_ws(clean, k + 1)
        if k < len(clean) and clean[k] == "[":
            j = skip_ws(clean, match_bracket(clean, k))
        else:
            break
    s = j
    head = re.match(r"(pub(\s*\([^)]*\))?\s+)?(fn|mod|impl|struct|enum|trait|unsafe|const|static|type|extern|async|macro_rules)\b",
                    clean[s:s + 80])
    depth = 0
    k = s
    n = len(clean)
    while k < n:
        ch = clean[k]
        if ch in OPEN:
            if head and ch == "{" and depth == 0:
                return s, match_bracket(clean, k)
            depth += 1
        elif ch in CLOSE:
            depth -= 1
            if depth < 0:
                return s, k
        elif ch == ";" and depth == 0:
            return s, k + 1
        k += 1
    raise ParseFailure("item after attribute at offset %d does not end" % i)


def scan_file(rel, text):
    nocomment, clean = clean_source(text)
    sites, gates, rng = [], [], []
    is_test_file = os.path.basename(rel) in ("tests.rs", "test.rs") or "/tests/" in "/" + rel

    # ---- cfg attributes that mention the parallel feature -------------------------------------------
    gated_regions = []  # (s, e, polarity)
    test_regions = []
    for m in re.finditer(r"#\s*!?\s*\[", clean):
        ob = m.end() - 1
        ce = match_bracket(clean, ob)
        inner = nocomment[ob + 1:ce - 1]
        flat = re.sub(r"\s+", "", inner)
        if re.fullmatch(r"cfg\(test\)", flat):
            s, e = item_extent(clean, ce)
            test_regions.append((s, e))
            continue
        if '"parallel"' not in flat:
            continue
        if flat == 'cfg(feature="parallel")':
            pol = "par"
        elif flat == 'cfg(not(feature="parallel"))':
            pol = "notPar"
        else:
            pol = "mixed"
        s, e = item_extent(clean, ce)
        item = nocomment[s:e]
        kind = "useRayon" if re.match(r"use\s+rayon\b", clean[s:e]) and pol == "par" else "stmt"
        gates.append({"file": rel, "line": line_of(text, m.start()), "polarity": pol, "kind": kind,
                      "item": re.sub(r"\s+", " ", item)[:200]})
        gated_regions.append((s, e, pol))
    # cfg!(feature = "parallel") / cfg_attr / cfg_if mentions outside attributes
    for m in re.finditer(r'feature\s*=\s*"parallel"', nocomment):
        inside_attr = False
        # is this occurrence inside some attribute bracket we already handled?
        k = nocomment.rfind("#", 0, m.start())
        if k >= 0:
            k2 = skip_ws(clean, k + 1)
            if k2 < len(clean) and clean[k2] == "!":
                k2 = skip_ws(clean, k2 + 1)
            if k2 < len(clean) and clean[k2] == "[":
                try:
                    if match_bracket(clean, k2) > m.start():
                        inside_attr = True
                except ParseFailure:
                    pass
        if not inside_attr:
            gates.append({"file": rel, "line": line_of(text, m.start()), "polarity": "mixed", "kind": "stmt",
                          "item": "feature test outside an attribute (cfg! / cfg_if)"})

    def in_test(off):
        return is_test_file or any(s <= off < e for s, e in test_regions)

    # ---- RNG expressions -----------------------------------------------------------------------------
    seen_rng = set()
    for s, e, pol in gated_regions:
        if pol == "notPar":
            continue
        for m in RNG_GATED.finditer(clean[s:e]):
            ln = line_of(text, s + m.start())
            if (ln,) not in seen_rng:
                seen_rng.add((ln,))
                rng.append({"file": rel, "line": ln, "gated": True,
                            "expr": re.sub(r"\s+", " ", nocomment[s:e])[:160]})
    for m in RNG_AMBIENT.finditer(clean):
        if in_test(m.start()):
            continue
        ln = line_of(text, m.start())
        if (ln,) not in seen_rng:
            seen_rng.add((ln,))
            ls = text.rfind("\n", 0, m.start()) + 1
            le = text.find("\n", m.start())
            rng.append({"file": rel, "line": ln, "gated": False, "expr": text[ls:le].strip()[:160]})

    # ---- iterator sites ------------------------------------------------------------------------------
    found = []  # (offset, source, chain_start)
    for m in re.finditer(r"\b(?:ark_std\s*::\s*)?(cfg_\w+)\s*!\s*([(\[{])", clean):
        name = m.group(1)
        if name in ("cfg_if", "cfg_attr", "cfg_match"):
            continue
        ob = m.end() - 1
        found.append((m.start(), MACRO_SOURCES.get(name, "otherPar"), name + "!", match_bracket(clean, ob),
                      clean[ob + 1:match_bracket(clean, ob) - 1]))
    for m in re.finditer(r"\b(into_par_iter|par_[a-z_0-9]+)\b", clean):
        name = m.group(1)
        k = skip_ws(clean, m.end())
        if clean.startswith("::", k):
            k3 = skip_ws(clean, k + 2)
            if k3 < len(clean) and clean[k3] == "<":
                k = skip_ws(clean, match_angle(clean, k3))
        before = clean[:m.start()].rstrip()
        if k < len(clean) and clean[k] == "(" and before.endswith("."):
            found.append((m.start(), METHOD_SOURCES.get(name, "otherPar"), "." + name + "()",
                          match_bracket(clean, k), ""))
        else:
            found.append((m.start(), "otherPar", name, None, ""))
    for m in re.finditer(r"\brayon\s*::", clean):
        s = m.start()
        while s > 0 and clean[s - 1] not in ";{}":
            s -= 1
        stmt = clean[s:m.start()]
        stmt = re.sub(r"#\s*\[[^\]]*\]", " ", stmt).strip()
        if re.match(r"(pub(\s*\([^)]*\))?\s+)?use\b", stmt):
            gated = any(gs <= m.start() < ge and pol == "par" for gs, ge, pol in gated_regions)
            if not gated:
                found.append((m.start(), "rayonPath", "use rayon (not gated on the parallel feature)", None, ""))
            continue
        found.append((m.start(), "rayonPath", "rayon::", None, ""))
    found.sort()

    spans = []  # (site index, chain span start, chain span end)
    for off, source, label, chain_start, macro_arg in found:
        site = {"file": rel, "line": line_of(text, off), "source": source, "macro": label,
                "chain": [], "terminal": None, "other_code": None, "why": "", "closure": None,
                "in_test": in_test(off), "_off": off}
        if source == "rayonPath":
            site["terminal"], site["other_code"], site["why"] = "other", OTHER["rayon_path"], label
            sites.append(site)
            continue
        if chain_start is None or source == "otherPar":
            site["terminal"], site["other_code"] = "other", OTHER["unknown_par_method"]
            site["why"] = "unrecognised parallel construct `%s`" % label
            sites.append(site)
            continue
        chain, end = parse_chain(clean, chain_start)
        site["chain"] = [c[0] for c in chain]
        site["_span"] = (off, end)
        adapters = []
        term = None
        for name, args, s, e in chain:
            if args is None:
                term = (name, None)
                site["terminal"], site["other_code"] = "other", OTHER["unknown_adapter"]
                site["why"] = "field access `.%s` inside a parallel chain" % name
                break
            if name in ADAPTERS:
                adapters.append(name)
                continue
            term = (name, args)
            if name in TERMINAL_SIMPLE:
                site["terminal"] = TERMINAL_SIMPLE[name]
            elif name == "for_each":
                site["closure"] = re.sub(r"\s+", " ", nocomment[s:e])[:600]
                if source not in MUT_SOURCES:
                    site["terminal"], site["other_code"] = "other", OTHER["for_each_shared"]
                    site["why"] = "for_each over a non-mutable parallel iterator can only act through shared state"
                else:
                    cl = split_closure(args)
                    if cl is None:
                        ok, why = False, "for_each argument is not a closure literal"
                    else:
                        ok, why = check_for_each_body(cl[0], cl[1], adapters)
                    site["why"] = why
                    if ok:
                        site["terminal"] = "forEachMut"
                    else:
                        site["terminal"], site["other_code"] = "other", OTHER["for_each_shared"]
            elif name in FOR_EACH_SHARED:
                site["terminal"], site["other_code"] = "other", OTHER["for_each_shared"]
                site["why"] = "`%s` threads mutable state through the workers" % name
            elif name in ("reduce", "reduce_with"):
                body = args.split("|")[-1].strip() if "|" in args else ""
                mm = re.fullmatch(r"\{?\s*([A-Za-z_]\w*)\s*([+*])\s*&?\s*([A-Za-z_]\w*)\s*\}?", body)
                pm = re.search(r"\|\s*(?:mut\s+)?([A-Za-z_]\w*)\s*,\s*(?:mut\s+)?([A-Za-z_]\w*)\s*\|\s*[^|]*$", args)
                if mm and pm and (mm.group(1), mm.group(3)) == (pm.group(1), pm.group(2)):
                    site["terminal"] = "sum" if mm.group(2) == "+" else "product"
                    site["why"] = "reduce with operator `%s`" % body
                else:
                    site["terminal"], site["other_code"] = "other", OTHER["reduce"]
                    site["why"] = "reduce whose operator is not literally `a + b` / `a * b`: associativity unknown"
                    site["closure"] = re.sub(r"\s+", " ", nocomment[s:e])[:600]
            elif name in ("fold", "fold_with", "fold_chunks", "fold_chunks_with"):
                site["terminal"], site["other_code"] = "other", OTHER["fold"]
                site["why"] = "rayon `%s` exposes the split structure" % name
            elif name in SEARCH:
                site["terminal"], site["other_code"] = "other", OTHER["search"]
                site["why"] = "`%s` may return any match" % name
            elif name in ORDER_STAT:
                site["terminal"], site["other_code"] = "other", OTHER["order_stat"]
                site["why"] = "`%s` is not covered by a theorem" % name
            else:
                site["terminal"], site["other_code"] = "other", OTHER["unknown_adapter"]
                site["why"] = "method `%s` is neither a known adapter nor a known terminal" % name
            break
        if term is None:
            site["_pending"] = True
        site["_adapters"] = adapters
        sites.append(site)

    # chains that end in an adapter: allowed only as the argument of zip/chain of an enclosing site
    for site in sites:
        if not site.get("_pending"):
            continue
        off = site["_off"]
        outer = None
        for other in sites:
            if other is site or "_span" not in other:
                continue
            s, e = other["_span"]
            if s < off < e and (outer is None or s > outer["_span"][0]):
                outer = other
        ok = False
        if outer is not None:
            # the text between the enclosing adapter's '(' and this site must be empty or '&'
            k = off
            pre = clean[outer["_span"][0]:k].rstrip()
            pre = re.sub(r"&\s*$", "", pre).rstrip()
            if re.search(r"\.\s*(chain|zip|zip_eq)\s*\($", pre):
                ok = True
        if ok and outer.get("terminal"):
            site["terminal"], site["other_code"] = outer["terminal"], outer["other_code"]
            site["why"] = "argument of `%s` of the site at line %d; inherits its terminal" % (
                "zip/chain", outer["line"])
        else:
            site["terminal"], site["other_code"] = "other", OTHER["no_terminal"]
            site["why"] = "the chain ends in an adapter and is not a zip/chain argument of another site"
    for site in sites:
        for k in [k for k in site if k.startswith("_")]:
            del site[k]
        if site["terminal"] is None:
            raise ParseFailure("%s:%d: site left unclassified" % (rel, site["line"]))

    # cross-check: every textual occurrence of a parallel token has produced a site
    tokens = len(re.findall(r"\bcfg_(?:into_)?iter(?:_mut)?\s*!|\bcfg_chunks(?:_mut)?\s*!|\binto_par_iter\b|\bpar_[a-z_0-9]+\b",
                            clean))
    nsites = len([s for s in sites if s["source"] != "rayonPath"])
    if tokens != nsites:
        raise ParseFailure("%s: %d parallel tokens but %d sites" % (rel, tokens, nsites))
    return sites, gates, rng


# --------------------------------------------------------------------------------------------------
# output
# --------------------------------------------------------------------------------------------------
def lean_str(s):
    return '"' + s.replace("\\", "\\\\").replace('"', '\\"') + '"'


def emit_lean(sites, gates, rng):
    o = []
    o.append("/-")
    o.append("  GENERATED by /verif/translators/par_sites.py from /repo/poly-commit/src — do not edit.")
    o.append("  Every parallel-iterator site of the crate with its terminal operation, every item gated on")
    o.append("  the `parallel` feature, and every RNG expression that is gated on it or draws ambient entropy.")
    o.append("  The obligations over this data are in PCV/Props/C18.lean.")
    o.append("-/")
    o.append("namespace PCV")
    o.append("namespace Generated")
    o.append("")
    o.append("/-- terminal operation of a parallel iterator chain; `other c`: not recognised (code `c`, see")
    o.append("par_sites.py: 1 reduce, 2 fold, 3 search, 4 for_each on shared state, 5 unknown adapter,")
    o.append("6 no terminal, 7 rayon path, 8 unknown par_ method, 9 order statistic / try_) -/")
    o.append("inductive Terminal where")
    o.append("  | collect | sum | product | unzip | forEachMut")
    o.append("  | other (code : Nat)")
    o.append("  deriving DecidableEq, Repr")
    o.append("")
    o.append("inductive Source where")
    o.append("  | cfgIter | cfgIntoIter | cfgIterMut | cfgChunks | cfgChunksMut")
    o.append("  | parIter | intoParIter | parIterMut | parChunks | parChunksMut")
    o.append("  | rayonPath | otherPar")
    o.append("  deriving DecidableEq, Repr")
    o.append("")
    o.append("structure Site where")
    o.append("  file : String")
    o.append("  line : Nat")
    o.append("  source : Source")
    o.append("  terminal : Terminal")
    o.append("  deriving DecidableEq, Repr")
    o.append("")
    o.append("inductive Polarity where")
    o.append("  | par | notPar | mixed")
    o.append("  deriving DecidableEq, Repr")
    o.append("")
    o.append("inductive GateKind where")
    o.append("  | useRayon | stmt")
    o.append("  deriving DecidableEq, Repr")
    o.append("")
    o.append("/-- an item under `#[cfg(feature = \"parallel\")]` (`par`), `#[cfg(not(feature = \"parallel\"))]`")
    o.append("(`notPar`) or a compound predicate mentioning the feature (`mixed`) -/")
    o.append("structure Gate where")
    o.append("  file : String")
    o.append("  line : Nat")
    o.append("  polarity : Polarity")
    o.append("  kind : GateKind")
    o.append("  deriving DecidableEq, Repr")
    o.append("")
    o.append("/-- an RNG-producing expression that is compiled only with the `parallel` feature (`gated`)")
    o.append("or that draws ambient entropy in non-test code -/")
    o.append("structure RngSite where")
    o.append("  file : String")
    o.append("  line : Nat")
    o.append("  gated : Bool")
    o.append("  deriving DecidableEq, Repr")
    o.append("")
    o.append("def sites : List Site := [")
    rows = []
    for s in sites:
        t = s["terminal"] if s["terminal"] != "other" else "other %d" % s["other_code"]
        rows.append("  ⟨%s, %d, .%s, .%s⟩" % (lean_str(s["file"]), s["line"], s["source"], t))
    o.append(",\n".join(rows))
    o.append("]")
    o.append("")
    o.append("def gates : List Gate := [")
    o.append(",\n".join("  ⟨%s, %d, .%s, .%s⟩" % (lean_str(g["file"]), g["line"], g["polarity"], g["kind"])
                        for g in gates))
    o.append("]")
    o.append("")
    o.append("def rngSites : List RngSite := [")
    o.append(",\n".join("  ⟨%s, %d, %s⟩" % (lean_str(r["file"]), r["line"], "true" if r["gated"] else "false")
                        for r in rng))
    o.append("]")
    o.append("")
    o.append("end Generated")
    o.append("end PCV")
    return "\n".join(o) + "\n"


def main():
    src, lean_out, json_out = SRC, LEAN_OUT, JSON_OUT
    args = sys.argv[1:]
    i = 0
    while i < len(args):
        if args[i] == "--src":
            src = args[i + 1]; i += 1
        elif args[i] == "--lean-out":
            lean_out = args[i + 1]; i += 1
        elif args[i] == "--json-out":
            json_out = args[i + 1]; i += 1
        else:
            print(__doc__)
            return 2
        i += 1
    if not os.path.isdir(src):
        print("par_sites: source directory %s not found" % src)
        return 2
    files = []
    for root, dirs, fs in os.walk(src):
        dirs.sort()
        for f in sorted(fs):
            if f.endswith(".rs"):
                files.append(os.path.join(root, f))
    files.sort()
    if not files:
        print("par_sites: no .rs files under %s" % src)
        return 2
    sites, gates, rng = [], [], []
    for path in files:
        rel = os.path.relpath(path, src)
        try:
            s, g, r = scan_file(rel, open(path, encoding="utf-8").read())
        except ParseFailure as e:
            print("par_sites: cannot parse %s: %s" % (rel, e))
            return 1
        sites += s
        gates += g
        rng += r
    if not sites:
        print("par_sites: found no parallel site at all under %s — wrong tree?" % src)
        return 1
    text = emit_lean(sites, gates, rng)
    os.makedirs(os.path.dirname(lean_out), exist_ok=True)
    if not os.path.exists(lean_out) or open(lean_out, encoding="utf-8").read() != text:
        open(lean_out, "w", encoding="utf-8").write(text)
    counts = {}
    for s in sites:
        k = s["terminal"] if s["terminal"] != "other" else "other(%d)" % s["other_code"]
        counts[k] = counts.get(k, 0) + 1
    os.makedirs(os.path.dirname(json_out), exist_ok=True)
    json.dump({"source": src, "files_scanned": len(files), "sites": sites, "gates": gates, "rng_sites": rng,
               "terminal_counts": counts}, open(json_out, "w"), indent=1)
    print("par_sites: %d files, %d sites %s, %d gates, %d rng sites -> %s" % (
        len(files), len(sites), json.dumps(counts, sort_keys=True), len(gates), len(rng), lean_out))
    return 0


if __name__ == "__main__":
    sys.exit(main())
