//! demo4: multilinear Brakedown, polynomial with FEWER variables than the parameters were made for.
//! `compute_dimensions` is fixed by the parameters and `compute_matrices` pads the evaluation table
//! with zeros (`Vec::resize`), so `commit` answers — with the commitment of a DIFFERENT polynomial, the
//! 6-variate one whose table is the 4-variate table followed by zeros, p(x0..x3)·(1-x4)(1-x5).  The
//! committed 4-variate polynomial cannot be opened at any of its own points (`open` aborts).
//! (The repair of D21, 6d794df, refuses only polynomials with MORE coefficients than the matrix holds.)
use ark_bls12_381::Fr;
use ark_crypto_primitives::{
    crh::{sha256::Sha256, CRHScheme, TwoToOneCRHScheme},
    merkle_tree::{ByteDigestConverter, Config},
    sponge::{poseidon::{PoseidonConfig, PoseidonSponge}, CryptographicSponge},
};
use ark_ff::{One, UniformRand, Zero};
use ark_pcs_bench_templates::{FieldToBytesColHasher, LeafIdentityHasher};
use ark_poly::{DenseMultilinearExtension, Polynomial};
use ark_poly_commit::{
    linear_codes::{LinearCodePCS, MultilinearBrakedown},
    LabeledPolynomial, PolynomialCommitment,
};
use ark_serialize::CanonicalSerialize;
use ark_std::test_rng;
use blake2::Blake2s256;
use std::panic::{catch_unwind, AssertUnwindSafe};

type LeafH = LeafIdentityHasher;
type CompressH = Sha256;
type ColHasher = FieldToBytesColHasher<Fr, Blake2s256>;
struct MT;
impl Config for MT {
    type Leaf = Vec<u8>;
    type LeafDigest = <LeafH as CRHScheme>::Output;
    type LeafInnerDigestConverter = ByteDigestConverter<Self::LeafDigest>;
    type InnerDigest = <CompressH as TwoToOneCRHScheme>::Output;
    type LeafHash = LeafH;
    type TwoToOneHash = CompressH;
}
type ML = DenseMultilinearExtension<Fr>;
type Brk = LinearCodePCS<MultilinearBrakedown<Fr, MT, ML, ColHasher>, Fr, ML, MT, ColHasher>;

fn sp() -> PoseidonSponge<Fr> {
    let (f, p, alpha) = (8, 31, 17);
    let mds = vec![vec![Fr::one(), Fr::zero(), Fr::one()], vec![Fr::one(), Fr::one(), Fr::zero()], vec![Fr::zero(), Fr::one(), Fr::one()]];
    let mut v = Vec::new(); let mut rng = test_rng();
    for _ in 0..(f + p) { v.push((0..3).map(|_| Fr::rand(&mut rng)).collect::<Vec<_>>()); }
    PoseidonSponge::new(&PoseidonConfig::new(f, p, alpha, mds, v, 2, 1))
}

#[test]
fn brakedown_commits_a_polynomial_with_fewer_variables_as_another_polynomial() {
    let rng = &mut test_rng();
    let pp = Brk::setup(0, Some(6), rng).unwrap(); // parameters for 6 variables
    let (ck, vk) = Brk::trim(&pp, 0, 0, None).unwrap();
    let table: Vec<Fr> = (0..16).map(|_| Fr::rand(rng)).collect();
    let p4 = LabeledPolynomial::new("p".into(), ML::from_evaluations_vec(4, table.clone()), None, None);
    let mut padded = table.clone(); padded.resize(64, Fr::zero());
    let p6 = LabeledPolynomial::new("p".into(), ML::from_evaluations_vec(6, padded), None, None);

    let (c4, st4) = Brk::commit(&ck, &[p4.clone()], None).unwrap(); // out-of-domain request answered
    let (c6, _) = Brk::commit(&ck, &[p6.clone()], None).unwrap();
    let (mut b4, mut b6) = (vec![], vec![]);
    c4[0].commitment().serialize_compressed(&mut b4).unwrap();
    c6[0].commitment().serialize_compressed(&mut b6).unwrap();
    assert_eq!(b4, b6);
    println!("Brakedown(6 variables): commit(4-variate p) == commit(6-variate p·(1-x4)(1-x5)): true");

    // the committed polynomial cannot be opened at a point of its own domain
    let z4: Vec<Fr> = (0..4).map(|_| Fr::rand(rng)).collect();
    let r = catch_unwind(AssertUnwindSafe(|| Brk::open(&ck, &[p4.clone()], &c4, &z4, &mut sp(), &st4, None)));
    assert!(r.is_err());
    println!("open(p, 4-coordinate point): panics");
    // what the commitment opens to is the other polynomial
    let z6: Vec<Fr> = (0..6).map(|_| Fr::rand(rng)).collect();
    let pr = Brk::open(&ck, &[p4.clone()], &c4, &z6, &mut sp(), &st4, None).unwrap();
    assert!(Brk::check(&vk, &c4, &z6, [p6.evaluate(&z6)], &pr, &mut sp(), None).unwrap());
    assert_ne!(p6.evaluate(&z6), p4.evaluate(&z6[..4].to_vec()));
    println!("open(p, 6-coordinate point) verifies for p(z0..z3)·(1-z4)(1-z5), not for p(z0..z3)");
}
