//! demo1: streaming_kzg::CommitterKey::commit (time-efficient) hands the coefficient slice to an MSM
//! that silently truncates to the key length: a polynomial with more coefficients than the key has
//! powers is answered with the commitment of its truncation (two polynomials, one commitment), and
//! `open` / `open_multi_points` return "proofs" that do not verify.  The space-efficient committer
//! asserts `powers_of_g.len() >= polynomial.len()` and aborts on the same request.
use ark_bls12_381::{Bls12_381, Fr};
use ark_poly_commit::streaming_kzg::{CommitterKey, CommitterKeyStream, VerifierKey};
use ark_std::iterable::Reverse;
use ark_std::{One, UniformRand, Zero};
use std::panic::{catch_unwind, AssertUnwindSafe};

fn evalp(p: &[Fr], x: &Fr) -> Fr { p.iter().rev().fold(Fr::zero(), |a, c| a * x + c) }

#[test]
fn time_commit_answers_an_oversize_polynomial_with_the_commitment_of_its_truncation() {
    let rng = &mut ark_std::test_rng();
    let d = 4; // key for degree <= 4: five G1 powers
    let ck = CommitterKey::<Bls12_381>::new(d, 2, rng);
    let vk = VerifierKey::from(&ck);
    let p: Vec<Fr> = (0..9).map(|_| Fr::rand(rng)).collect(); // degree 8
    let trunc = p[..d + 1].to_vec();
    assert_ne!(p, trunc);

    // out-of-domain request answered, and with the commitment of ANOTHER polynomial
    let c_full = ck.commit(&p);
    assert_eq!(c_full, ck.commit(&trunc));
    println!("CommitterKey::new(4, 2).commit(degree-8 polynomial) == commit(its first 5 coefficients): true");
    assert_eq!(ck.batch_commit(&[p.clone()])[0], c_full);

    // the streaming committer refuses the same request
    let sk = CommitterKeyStream::from(&ck);
    let r = catch_unwind(AssertUnwindSafe(|| sk.commit(&Reverse(p.as_slice()))));
    assert!(r.is_err());
    println!("CommitterKeyStream::commit(same polynomial): panics (assert powers_of_g.len() >= polynomial.len())");

    // the honest opening of that commitment is rejected; the commitment opens to the truncation only
    let alpha = Fr::rand(rng);
    let (ev, pf) = ck.open(&p, &alpha);
    assert_eq!(ev, evalp(&p, &alpha));
    assert!(vk.verify(&c_full, &alpha, &ev, &pf).is_err());
    let (ev_t, pf_t) = ck.open(&trunc, &alpha);
    assert!(vk.verify(&c_full, &alpha, &ev_t, &pf_t).is_ok());
    println!("open(p, alpha) -> (p(alpha), proof): verify = Err;  open(trunc, alpha) verifies against commit(p)");
    let pts = vec![Fr::rand(rng), Fr::rand(rng)];
    let pfm = ck.open_multi_points(&p, &pts);
    let evs: Vec<Fr> = pts.iter().map(|z| evalp(&p, z)).collect();
    assert!(vk.verify_multi_points(&[c_full], &pts, &[evs], &pfm, &Fr::one()).is_err());
    println!("open_multi_points(p, 2 points) with the true evaluations: verify_multi_points = Err");
}
