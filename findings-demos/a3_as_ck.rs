//! streaming_kzg: `CommitterKeyStream::as_committer_key(max_degree)` returns a key with
//! `max_degree` G1 powers (degree max_degree - 1), whereas `CommitterKey::new(max_degree, ..)`
//! makes `max_degree + 1` powers. Going key -> stream -> key with the same `max_degree` loses
//! the highest power, and (because `commit`/`open` truncate silently) the round-tripped key
//! commits to a *different* polynomial and produces proofs that do not verify.
use ark_bls12_381::{Bls12_381, Fr};
use ark_ff::Zero;
use ark_poly_commit::streaming_kzg::{CommitterKey, CommitterKeyStream, VerifierKey};
use ark_std::iterable::Reverse;
use ark_std::UniformRand;

fn eval(p: &[Fr], x: &Fr) -> Fr {
    p.iter().rev().fold(Fr::zero(), |a, c| a * x + c)
}

#[test]
fn as_committer_key_drops_the_top_power() {
    let rng = &mut ark_std::test_rng();
    let max_degree = 7;
    let ck = CommitterKey::<Bls12_381>::new(max_degree, 2, rng);
    let vk = VerifierKey::from(&ck);
    let sck = CommitterKeyStream::from(&ck);
    let ck2 = sck.as_committer_key(max_degree);

    // a polynomial of degree exactly max_degree: in the domain of `ck` and of the stream
    let f: Vec<Fr> = (0..max_degree + 1).map(|_| Fr::rand(rng)).collect();
    let fs = Reverse(f.as_slice());
    let c = ck.commit(&f);
    assert_eq!(sck.commit(&fs), c);

    let c2 = ck2.commit(&f);
    println!("in-memory key == stream commitment: true");
    println!("key rebuilt by as_committer_key({}) gives the same commitment: {}", max_degree, c2 == c);
    assert_ne!(c2, c);
    // it is the commitment of f without its leading coefficient
    assert_eq!(c2, ck.commit(&f[..max_degree]));
    println!("... it equals the commitment of f without its leading coefficient");

    let alpha = Fr::rand(rng);
    let (v2, pi2) = ck2.open(&f, &alpha);
    assert_eq!(v2, eval(&f, &alpha));
    let ok = vk.verify(&c2, &alpha, &v2, &pi2).is_ok();
    println!("honest commit+open with the rebuilt key verifies: {}", ok);
    assert!(!ok);
    // while the three provers agree on everything when the key is not round-tripped
    let (v, pi) = ck.open(&f, &alpha);
    let (vs, pis) = sck.open(&fs, &alpha, 1 << 10);
    assert_eq!((v, pi.clone()), (vs, pis));
    assert!(vk.verify(&c, &alpha, &v, &pi).is_ok());
}
