//! Finding 2 (IPA): check_combinations pairs combined commitments with the wrong equations when a
//! commitment without degree bound carries a stray `shifted_comm`; a false value for an honestly
//! committed polynomial is then accepted.
use ark_crypto_primitives::sponge::{
    poseidon::{PoseidonConfig, PoseidonSponge},
    CryptographicSponge,
};
use ark_ed_on_bls12_381::{EdwardsAffine, Fr};
use ark_ff::{Field, One, PrimeField, UniformRand, Zero};
use ark_poly::{univariate::DensePolynomial, DenseUVPolynomial, Polynomial};
use ark_poly_commit::{
    ipa_pc::InnerProductArgPC, LabeledPolynomial, PolynomialCommitment, CHALLENGE_SIZE,
};
use ark_std::test_rng;
use blake2::Blake2s256;

type Poly = DensePolynomial<Fr>;
type PC = InnerProductArgPC<EdwardsAffine, Blake2s256, Poly>;

fn poseidon_parameters_for_test<F: PrimeField>() -> PoseidonConfig<F> {
    let full_rounds = 8;
    let partial_rounds = 31;
    let alpha = 17;
    let mds = vec![
        vec![F::one(), F::zero(), F::one()],
        vec![F::one(), F::one(), F::zero()],
        vec![F::zero(), F::one(), F::one()],
    ];
    let mut ark = Vec::new();
    let mut ark_rng = test_rng();
    for _ in 0..(full_rounds + partial_rounds) {
        let mut res = Vec::new();
        for _ in 0..3 {
            res.push(F::rand(&mut ark_rng));
        }
        ark.push(res);
    }
    PoseidonConfig::new(full_rounds, partial_rounds, alpha, mds, ark, 2, 1)
}

fn sponge() -> PoseidonSponge<Fr> {
    PoseidonSponge::new(&poseidon_parameters_for_test())
}

use ark_poly_commit::{
    ipa_pc::Commitment, Evaluations, LabeledCommitment, LinearCombination, QuerySet,
};

#[test]
fn ipa_check_combinations_misaligned_by_stray_shifted_comm() {
    let rng = &mut test_rng();
    let pp = PC::setup(15, None, rng).unwrap();
    let (ck, vk) = PC::trim(&pp, 15, 0, None).unwrap();

    // Two honestly committed polynomials, no degree bounds, no hiding.
    let p1 = LabeledPolynomial::new("p1".into(), Poly::rand(15, rng), None, None);
    let p2 = LabeledPolynomial::new("p2".into(), Poly::rand(15, rng), None, None);
    let polys = vec![p1.clone(), p2.clone()];
    let (comms, _states) = PC::commit(&ck, &polys, None).unwrap();

    let z = Fr::rand(rng);
    let lc1 = LinearCombination::new("lc1", vec![(Fr::one(), "p1")]);
    let lc2 = LinearCombination::new("lc2", vec![(Fr::one(), "p2")]);
    let lcs = vec![lc1, lc2];
    let mut qs = QuerySet::new();
    qs.insert(("lc1".to_string(), ("z".to_string(), z)));
    qs.insert(("lc2".to_string(), ("z".to_string(), z)));

    // The adversary wants lc2 = p2 to "evaluate" to q(z) for a polynomial q of his choice.
    let q = LabeledPolynomial::new("p2".into(), Poly::rand(15, rng), None, None);
    let true_v2 = p2.evaluate(&z);
    let fake_v2 = q.evaluate(&z);
    assert_ne!(true_v2, fake_v2);

    // He runs the library's prover on (p1, q) ...
    let adv_polys = vec![p1.clone(), q.clone()];
    let (adv_comms, adv_states) = PC::commit(&ck, &adv_polys, None).unwrap();
    assert_eq!(adv_comms[0].commitment(), comms[0].commitment());
    let x = adv_comms[1].commitment().comm; // commitment to q
    let proof = PC::open_combinations(
        &ck, &lcs, &adv_polys, &adv_comms, &qs, &mut sponge(), &adv_states, None,
    )
    .unwrap();

    // ... and hands the verifier the HONEST commitment of p2 and the honest `comm` of p1, to
    // which he attaches a stray `shifted_comm = commit(q)`.  p1 has no degree bound, so
    // the verifier labels it with degree bound None.
    let c1_bad = LabeledCommitment::new(
        "p1".to_string(),
        Commitment { comm: comms[0].commitment().comm, shifted_comm: Some(x) },
        None,
    );
    let verifier_comms = vec![c1_bad, comms[1].clone()];
    assert_eq!(verifier_comms[1].commitment(), comms[1].commitment()); // p2's commitment is honest

    let mut evals = Evaluations::new();
    evals.insert(("lc1".to_string(), z), p1.evaluate(&z));
    evals.insert(("lc2".to_string(), z), fake_v2);

    let res = PC::check_combinations(
        &vk, &lcs, &verifier_comms, &qs, &evals, &proof, &mut sponge(), rng,
    );
    println!("p2(z) = {true_v2}");
    println!("claimed lc2(z) = p2(z) = {fake_v2}");
    println!("check_combinations with a stray shifted_comm on p1 -> {res:?}");

    // sanity: with the well-formed commitment list the same false claim is rejected
    let sane = PC::check_combinations(
        &vk, &lcs, &comms, &qs, &evals, &proof, &mut sponge(), rng,
    );
    println!("check_combinations with the well-formed commitments -> {sane:?}");
    assert_eq!(sane.unwrap(), false);
    // and the plain verifier refuses (aborts on) the malformed commitment
    let plain = std::panic::catch_unwind(|| {
        let mut qs1 = QuerySet::new();
        qs1.insert(("p1".to_string(), ("z".to_string(), z)));
        let mut ev1 = Evaluations::new();
        ev1.insert(("p1".to_string(), z), p1.evaluate(&z));
        PC::batch_check(&vk, &verifier_comms, &qs1, &ev1, &proof.proof, &mut sponge(), &mut test_rng())
    });
    println!("batch_check on the malformed commitment aborts: {}", plain.is_err());

    // DEFECT: a false value for the honestly committed p2 is accepted
    assert_eq!(res.unwrap(), true);
}
