//! Finding 4 (IPA helper): `SuccinctCheckPolynomial::evaluate` is wrong for 32 (or more) challenges:
//! the exponent `1 << (log_d - i)` is computed in `i32` and then cast to `u64`.
use ark_ed_on_bls12_381::Fr;
use ark_ff::{Field, One, UniformRand};
use ark_poly_commit::ipa_pc::SuccinctCheckPolynomial;
use ark_std::test_rng;

/// The defining product  h(X) = prod_{i=1..k} (1 + ch_i * X^(2^(k-i))).
fn reference(ch: &[Fr], x: Fr) -> Fr {
    let k = ch.len();
    let mut acc = Fr::one();
    for (i, c) in ch.iter().enumerate() {
        // x^(2^(k-i-1)) by repeated squaring
        let mut xp = x;
        for _ in 0..(k - i - 1) {
            xp.square_in_place();
        }
        acc *= Fr::one() + xp * c;
    }
    acc
}

/// Horner evaluation of the expanded coefficient vector.
fn horner(coeffs: &[Fr], x: Fr) -> Fr {
    coeffs.iter().rev().fold(Fr::from(0u64), |acc, c| acc * x + c)
}

#[test]
fn succinct_check_polynomial_evaluate_wrong_for_32_challenges() {
    let rng = &mut test_rng();
    let x = Fr::rand(rng);

    // the reference agrees with the expanded coefficient vector (small sizes) ...
    for k in [0usize, 1, 2, 5, 10] {
        let ch: Vec<Fr> = (0..k).map(|_| Fr::rand(rng)).collect();
        let s = SuccinctCheckPolynomial(ch.clone());
        assert_eq!(horner(&s.compute_coeffs(), x), reference(&ch, x));
        assert_eq!(s.evaluate(x), reference(&ch, x));
    }
    // ... and with `evaluate` up to 31 challenges
    for k in [20usize, 30, 31] {
        let ch: Vec<Fr> = (0..k).map(|_| Fr::rand(rng)).collect();
        let ok = SuccinctCheckPolynomial(ch.clone()).evaluate(x) == reference(&ch, x);
        println!("{k} challenges: evaluate == defining product: {ok}");
        assert!(ok);
    }
    // 32 challenges: the first factor uses x^(0xFFFF_FFFF_8000_0000) instead of x^(2^31)
    let k = 32usize;
    let ch: Vec<Fr> = (0..k).map(|_| Fr::rand(rng)).collect();
    let got = SuccinctCheckPolynomial(ch.clone()).evaluate(x);
    let want = reference(&ch, x);
    println!("{k} challenges: evaluate == defining product: {}", got == want);
    // what the code actually computes
    let mut buggy = Fr::one() + x.pow([0xFFFF_FFFF_8000_0000u64]) * ch[0];
    buggy *= reference(&ch[1..], x);
    println!("{k} challenges: evaluate == product with exponent (1i32 << 31) as u64: {}", got == buggy);
    assert_eq!(got, buggy);
    // DEFECT
    assert_ne!(got, want);
}
