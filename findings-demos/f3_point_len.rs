//! demo3: LinearCodePCS::check (multilinear Ligero / Brakedown) never compares the number of
//! coordinates of the query point with the commitment's matrix shape. `tensor` splits the point at
//! log2(n_cols); the row tensor `b` then has 2^(len - log2 n_cols) entries instead of n_rows, and
//! `inner_product(b, column)` silently zips to the shorter operand.  The library's prover refuses
//! such a point (Matrix::row_mul asserts), the verifier answers Ok(true) for a proof assembled from
//! honest openings: evaluation claims at points with too few / too many coordinates are accepted.
use ark_bls12_377::Fr;
use ark_crypto_primitives::{
    crh::{sha256::Sha256, CRHScheme, TwoToOneCRHScheme},
    merkle_tree::{ByteDigestConverter, Config, Path},
    sponge::{
        poseidon::{PoseidonConfig, PoseidonSponge},
        Absorb, CryptographicSponge, FieldElementSize,
    },
};
use ark_ff::{One, PrimeField, UniformRand, Zero};
use ark_pcs_bench_templates::{FieldToBytesColHasher, LeafIdentityHasher};
use ark_poly::{DenseMultilinearExtension, Polynomial};
use ark_poly_commit::{
    linear_codes::{LigeroPCParams, LinearCodePCS, MultilinearLigero},
    LabeledPolynomial, PolynomialCommitment,
};
use ark_serialize::{CanonicalDeserialize, CanonicalSerialize};
use ark_std::test_rng;
use blake2::Blake2s256;
use std::collections::BTreeMap;

type LeafH = LeafIdentityHasher;
type CompressH = Sha256;
type ColHasher = FieldToBytesColHasher<Fr, Blake2s256>;
struct MT;
impl Config for MT {
    type Leaf = Vec<u8>;
    type LeafDigest = <LeafH as CRHScheme>::Output;
    type LeafInnerDigestConverter = ByteDigestConverter<Self::LeafDigest>;
    type InnerDigest = <CompressH as TwoToOneCRHScheme>::Output;
    type LeafHash = LeafH;
    type TwoToOneHash = CompressH;
}
type ML = DenseMultilinearExtension<Fr>;
type PCS = LinearCodePCS<MultilinearLigero<Fr, MT, ML, ColHasher>, Fr, ML, MT, ColHasher>;

// mirrors of the crate-private proof layout (same field order => same canonical serialization)
#[derive(Clone, CanonicalSerialize, CanonicalDeserialize)]
struct MSingle { paths: Vec<Path<MT>>, v: Vec<Fr>, columns: Vec<Vec<Fr>> }
#[derive(Clone, CanonicalSerialize, CanonicalDeserialize)]
struct MProof { opening: MSingle, well_formedness: Option<Vec<Fr>> }

fn poseidon_config() -> PoseidonConfig<Fr> {
    let (full_rounds, partial_rounds, alpha) = (8, 31, 17);
    let mds = vec![
        vec![Fr::one(), Fr::zero(), Fr::one()],
        vec![Fr::one(), Fr::one(), Fr::zero()],
        vec![Fr::zero(), Fr::one(), Fr::one()],
    ];
    let mut v = Vec::new();
    let mut rng = test_rng();
    for _ in 0..(full_rounds + partial_rounds) {
        v.push((0..3).map(|_| Fr::rand(&mut rng)).collect::<Vec<_>>());
    }
    PoseidonConfig::new(full_rounds, partial_rounds, alpha, mds, v, 2, 1)
}

/// Poseidon sponge that remembers the bytes it squeezed (to read off the verifier's column indices).
#[derive(Clone)]
struct Rec { inner: PoseidonSponge<Fr>, bytes: Vec<Vec<u8>> }
impl CryptographicSponge for Rec {
    type Config = PoseidonConfig<Fr>;
    fn new(p: &Self::Config) -> Self { Rec { inner: PoseidonSponge::new(p), bytes: vec![] } }
    fn absorb(&mut self, input: &impl Absorb) { self.inner.absorb(input) }
    fn squeeze_bytes(&mut self, n: usize) -> Vec<u8> {
        let o = self.inner.squeeze_bytes(n); self.bytes.push(o.clone()); o
    }
    fn squeeze_bits(&mut self, n: usize) -> Vec<bool> { self.inner.squeeze_bits(n) }
    fn squeeze_field_elements_with_sizes<F: PrimeField>(&mut self, s: &[FieldElementSize]) -> Vec<F> {
        self.inner.squeeze_field_elements_with_sizes(s)
    }
    fn squeeze_field_elements<F: PrimeField>(&mut self, n: usize) -> Vec<F> {
        self.inner.squeeze_field_elements(n)
    }
}

fn decode(p: &<PCS as PolynomialCommitment<Fr, ML>>::Proof) -> Vec<MProof> {
    let mut b = vec![]; p.serialize_compressed(&mut b).unwrap();
    Vec::<MProof>::deserialize_compressed(&b[..]).unwrap()
}
fn encode(p: &Vec<MProof>) -> <PCS as PolynomialCommitment<Fr, ML>>::Proof {
    let mut b = vec![]; p.serialize_compressed(&mut b).unwrap();
    CanonicalDeserialize::deserialize_compressed(&b[..]).unwrap()
}

#[test]
fn verifier_accepts_points_with_the_wrong_number_of_coordinates() {
    let rng = &mut test_rng();
    let nv = 4usize;
    let pp: LigeroPCParams<Fr, MT, ColHasher> = LigeroPCParams::new(
        128, 2, true,
        <LeafH as CRHScheme>::setup(rng).unwrap(),
        <CompressH as TwoToOneCRHScheme>::setup(rng).unwrap(),
        <ColHasher as CRHScheme>::setup(rng).unwrap(),
    );
    let (ck, vk) = <PCS as PolynomialCommitment<Fr, ML>>::trim(&pp, 0, 0, None).unwrap();
    let poly = ML::from_evaluations_vec(nv, (0..1 << nv).map(|_| Fr::rand(rng)).collect());
    let lp = LabeledPolynomial::new("p".to_string(), poly.clone(), None, None);
    let (c, st) = <PCS as PolynomialCommitment<Fr, ML>>::commit(&ck, &[lp.clone()], None).unwrap();
    let cfg = poseidon_config();

    // the library's prover refuses a point with 3 or 5 coordinates
    for len in [3usize, 5] {
        let pt: Vec<Fr> = (0..len).map(|_| Fr::rand(rng)).collect();
        let r = std::panic::catch_unwind(std::panic::AssertUnwindSafe(|| {
            PCS::open(&ck, &[lp.clone()], &c, &pt, &mut PoseidonSponge::new(&cfg), &st, None)
        }));
        println!("honest open at a point with {} coordinates: {}", len,
            match r { Err(_) => "panics".to_string(), Ok(x) => format!("{:?}", x.map(|_| "a proof")) });
    }

    // honest openings at proper points reveal columns + paths of the encoded matrix
    let honest = |pt: &Vec<Fr>| {
        let pr = PCS::open(&ck, &[lp.clone()], &c, pt, &mut PoseidonSponge::new(&cfg), &st, None).unwrap();
        assert!(PCS::check(&vk, &c, pt, [poly.evaluate(pt)], &pr, &mut PoseidonSponge::new(&cfg), None).unwrap());
        decode(&pr)
    };
    let mut cols: BTreeMap<usize, (Vec<Fr>, Path<MT>)> = BTreeMap::new();
    let mut n_ext = 0usize;
    for _ in 0..400 {
        let pt: Vec<Fr> = (0..nv).map(|_| Fr::rand(rng)).collect();
        let m = honest(&pt);
        for (col, path) in m[0].opening.columns.iter().zip(m[0].opening.paths.iter()) {
            cols.insert(path.leaf_index, (col.clone(), path.clone()));
        }
        n_ext = n_ext.max(cols.len());
    }
    println!("collected {} distinct columns of the encoded matrix ({} rows each), t = {}", cols.len(),
        cols.values().next().unwrap().0.len(), honest(&vec![Fr::zero(); nv])[0].opening.columns.len());

    let z: Vec<Fr> = (0..nv).map(|_| Fr::rand(rng)).collect();
    let z4 = Fr::rand(rng);
    // assemble a proof for `bad_pt`, whose row combination equals `scale` times the one of `proper_pt`
    let forge = |bad_pt: &Vec<Fr>, proper_pt: &Vec<Fr>, scale: Fr| -> Option<_> {
        let base = honest(proper_pt);
        let mut m = base[0].clone();
        m.opening.v = m.opening.v.iter().map(|x| *x * scale).collect();
        // first pass: let the verifier derive its column positions for this transcript
        let mut rec = Rec::new(&cfg);
        let _ = PCS::check(&vk, &c, bad_pt, [Fr::zero()], &encode(&vec![m.clone()]), &mut rec, None);
        let n_cols_ext = 1usize << (usize::BITS - (cols.keys().max().unwrap()).leading_zeros());
        let idx: Vec<usize> = rec.bytes.iter()
            .map(|b| b.iter().fold(0usize, |a, &x| (a << 8) + x as usize) % n_cols_ext).collect();
        let mut columns = vec![]; let mut paths = vec![];
        for i in &idx { let (cl, p) = cols.get(i)?; columns.push(cl.clone()); paths.push(p.clone()); }
        m.opening.columns = columns; m.opening.paths = paths;
        Some(encode(&vec![m]))
    };

    // (a) a point with too FEW coordinates: (z0,z1,z2); row combination of (z0,z1,z2,0)
    let short: Vec<Fr> = z[..3].to_vec();
    let mut padded = short.clone(); padded.push(Fr::zero());
    let pr = forge(&short, &padded, Fr::one()).expect("columns collected");
    let v_short = poly.evaluate(&padded);
    let r = PCS::check(&vk, &c, &short, [v_short], &pr, &mut PoseidonSponge::new(&cfg), None);
    println!("check(4-variate commitment, point with 3 coordinates, p(z0,z1,z2,0)) = {:?}", r);
    assert!(matches!(r, Ok(true)));

    // (b) a point with too MANY coordinates: (z0..z3, z4): accepted value (1 - z4) * p(z0..z3)
    let mut long = z.clone(); long.push(z4);
    let pr = forge(&long, &z, Fr::one() - z4).expect("columns collected");
    let v_long = (Fr::one() - z4) * poly.evaluate(&z);
    let r = PCS::check(&vk, &c, &long, [v_long], &pr, &mut PoseidonSponge::new(&cfg), None);
    println!("check(4-variate commitment, point with 5 coordinates, (1-z4)*p(z0..z3)) = {:?}", r);
    assert!(matches!(r, Ok(true)));
    // ... in particular the value 0 at z4 = 1, whatever the polynomial is
    let mut long1 = z.clone(); long1.push(Fr::one());
    let pr = forge(&long1, &z, Fr::zero()).expect("columns collected");
    let r = PCS::check(&vk, &c, &long1, [Fr::zero()], &pr, &mut PoseidonSponge::new(&cfg), None);
    println!("check(4-variate commitment, (z0..z3, 1), value 0) = {:?}   [p(z0..z3) = 0 is {}]", r, poly.evaluate(&z).is_zero());
    assert!(matches!(r, Ok(true)));
}
