#!/usr/bin/env python3
"""Rewrite the table of DESIGN.md §11.4 (between the SEEDED-TABLE markers) from seeded/*/{meta,result}.json."""
import json, os, glob, re
V = os.path.dirname(os.path.dirname(os.path.abspath(__file__)))
rows = []
for d in sorted(glob.glob(os.path.join(V, "seeded", "*", ""))):
    sid = os.path.basename(d.rstrip("/"))
    mp, rp = os.path.join(d, "meta.json"), os.path.join(d, "result.json")
    if not os.path.exists(mp):
        continue
    m = json.load(open(mp))
    res = json.load(open(rp)) if os.path.exists(rp) else {}
    caught, concrete, missed_primary = [], [], False
    for tier, r in res.items():
        for p, x in r.items():
            if x.get("violations"):
                tag = p + ("" if tier == "quick" else "(" + tier + ")")
                caught.append(tag)
                if x.get("concrete"):
                    concrete.append(tag)
    prim = m.get("property", "?")
    q = res.get("quick", {})
    if prim in q and not q[prim].get("violations"):
        missed_primary = True
    why = ""
    for tier, r in res.items():
        x = r.get(prim)
        if x and x.get("why"):
            why = x["why"][0].lstrip("# ")[:110]
            break
    if not why:
        for tier, r in res.items():
            for p, x in r.items():
                if x.get("why") and x.get("violations"):
                    why = p + ": " + x["why"][0].lstrip("# ")[:100]
                    break
    files = ", ".join(os.path.basename(f) if not f.endswith("mod.rs") else "/".join(f.split("/")[-2:]) for f in m.get("files", []))
    rows.append((sid, prim, files, ", ".join(sorted(set(caught))) or ("not run" if not res else "**none**"),
                 "yes" if concrete else ("—" if not caught else "no (proof/correspondence only)"), why))
out = ["| seeded change | aimed at | file | checks reporting a violation | concrete failing input | first reason reported |",
       "|---|---|---|---|---|---|"]
for r in rows:
    out.append("| " + " | ".join(x.replace("|", "\\|") for x in r) + " |")
table = "\n".join(out)
p = os.path.join(V, "DESIGN.md")
s = open(p).read()
b, e = "<!-- SEEDED-TABLE-BEGIN -->", "<!-- SEEDED-TABLE-END -->"
if b in s:
    s = re.sub(re.escape(b) + r".*?" + re.escape(e), lambda _: b + "\n" + table + "\n" + e, s, flags=re.S)
    open(p, "w").write(s)
print(table)
