#!/bin/bash
# One-off analysis (not a check): line coverage of /repo/poly-commit/src under the quick tier of all 19 harness runs.
# Needs the nightly toolchain's llvm-tools. Output: /verif/.build/coverage/report.txt (+ per-file uncovered lines).
set -e
cd /verif/harness
export CARGO_NET_OFFLINE=true
TOOLS=$(dirname $(find ~/.rustup/toolchains/nightly-x86_64-unknown-linux-gnu -name llvm-profdata | head -1))
OUT=/verif/.build/coverage; rm -rf $OUT; mkdir -p $OUT/prof
flock -s /verif/.build/repo.lock true
LLVM_PROFILE_FILE=/verif/.build/coverage/build-%p-%m.profraw RUSTFLAGS="-C instrument-coverage" CARGO_TARGET_DIR=/verif/.build/cargo-cov cargo +nightly build --offline 2>&1 | tail -2
BIN=/verif/.build/cargo-cov/debug/pcv-harness
cd /verif/lean/PCV && flock /verif/.build/lake.lock lake build pcvdrv >/dev/null 2>&1; cp .lake/build/bin/pcvdrv $OUT/pcvdrv
for p in C01 C02 C03 C04 C05 C06 C07 C08 C09 C10 C11 C12 C13 C14 C15 C16 C17 C19; do
  mkdir -p $OUT/w-$p
  RAYON_NUM_THREADS=2 LLVM_PROFILE_FILE="$OUT/prof/$p-%p-%m.profraw" $BIN $p --tier quick --seed 1 --out $OUT/$p.json --drv $OUT/pcvdrv --workdir $OUT/w-$p >/dev/null 2>&1 || echo "$p exited non-zero"
done
$TOOLS/llvm-profdata merge -sparse $OUT/prof/*.profraw -o $OUT/all.profdata
$TOOLS/llvm-cov report $BIN -instr-profile=$OUT/all.profdata --ignore-filename-regex='(registry|rustc|harness/src|bench-templates)' > $OUT/report.txt 2>&1
$TOOLS/llvm-cov show $BIN -instr-profile=$OUT/all.profdata --ignore-filename-regex='(registry|rustc|harness/src|bench-templates)' --show-line-counts-or-regions > $OUT/show.txt 2>&1
tail -40 $OUT/report.txt
