#!/usr/bin/env python3
"""Regenerates /verif/MANIFEST.json from the table below (keep `claimed` / `not_yet` current)."""
import json, os
V = os.path.dirname(os.path.dirname(os.path.abspath(__file__)))

SCHEMES_MODEL = "KZG10"  # schemes whose Lean model + theorems back the run (others: expectation-only)

claimed = {
 "C01": ("Lean proof + differential correspondence",
   "Completeness is proved in Lean for the exact exponent-form models of every scheme (all polynomials, bounds, hiding, RNG streams, points), single AND batched over arbitrary query lists (marlin_batch_complete, sonic/ipa/default batch theorems), with order-independence of the label-matched batch forms; "
   "the model is tied to /repo by running the real committer/prover/verifier on trapdoor keys and comparing every output with the model; "
   "all ten scheme instances are additionally driven through the trait API with honest batches and permuted lists (must-accept)."),
 "C02": ("Lean proof (exact acceptance condition) + differential correspondence",
   "check accepts iff an explicit defect vanishes; wrong value / point / commitment corollaries; every mutated claim is decided by implementation and model and must agree; "
   "trait-level runs perturb every position of batches of all schemes (must-refuse)."),
 "C03": ("Lean proof per attack class + differential correspondence",
   "Exact defects for the catalogue's attacks (other polynomial, other point, component replacement, shape) for every scheme; reductions for algebraic forgers (extraction polynomial with the trapdoor as root: KZG10, Marlin, Sonic, multilinear PST, PST13, streaming KZG; for the inner-product argument, single/batched/hiding/any statement list: acceptance is one linear relation between the generators, and the zero relation forces the claim unless a round or hiding challenge hits a root fixed before it was drawn) and special soundness of Hyrax's dot-product argument; what remains assumed is only the hardness of finding the trapdoor / a discrete-log relation. "
   "Trait-level runs apply proof-list shape mutations to all schemes."),
 "C05": ("Lean proof (batch defect = randomizer-weighted sum) + differential correspondence",
   "batch accepts iff sum r_i*Delta_i = 0; all-true accepted for every randomizer list; single false claim rejected; at most ONE value of a randomizer accepts a batch with a false claim however errors were planted; trait-default batch_check = conjunction of group checks (generic model, ToyPC correspondence); implementation batch decision == AND of individual decisions == model with replayed randomizers."),
 "C07": ("Lean proof (structure of hiding commitments) + RNG-replay correspondence",
   "commitment = plain + gamma*blind(beta) with h+2 coefficients taken from the caller's draws (KZG10, Marlin incl. independent shifted blinding, Sonic, PST13); IPA Pedersen blinder and fresh hiding polynomial in open; Hyrax per-row blinders and per-polynomial fresh nonces (never shared), perfectly masked response; missing RNG refused; non-hiding deterministic; the RNG stream is replayed and fed to the model."),
 "C08": ("Lean proof (commit = key-defined linear map) + naive-sum correspondence",
   "commit = <p, key>, additive, homogeneous, zero -> identity, representation independent; implementation compared with a naive double-and-add sum over the published key points and with the model."),
 "C10": ("Lean proof (check <-> relation) + single-fault differential correspondence",
   "check = true iff the paper's pairing relation holds, for arbitrary keys and transcripts; each component matters; the single-fault neighbourhood of honest transcripts is decided by implementation and model."),
 "C17": ("Lean proof (refusal outside / answer inside the domain) + boundary correspondence",
   "explicit decidable InDomain predicate; outside -> error, inside -> ok (no abort); refusal theorems for every excluded region found by the hypothesis audit (oversize / undersize polynomials for fixed-shape codes and streaming keys, points of the wrong length, keys without tau*g2, malformed commitments in combinations); boundary generator around every request kind for all schemes (outcome class) plus constructive forgeries at the excluded points."),
 "C16": ("Lean proof (operator laws, op sequences by induction, evaluate = Horner(compute_coeffs)) + differential correspondence",
   "every LinearCombination operator preserves value under every assignment, lifted to arbitrary op sequences; evaluate_query_set keys/values; SuccinctCheckPolynomial evaluate = Horner over compute_coeffs = product form, length 2^k (harness: up to 10 challenges expanded, 11..64 challenges against the product form); random op sequences through the public operators compared term by term with the model."),
 "C18": ("Lean proof (any reduction tree = sequential fold; index-preserving map/unzip; disjoint for_each) + generated parallel-site inventory (T2) + digest comparison across thread counts and feature sets",
   "parReduce over any split tree equals foldl for associative operators with identity; the translator regenerates the list of every cfg_iter!/rayon site and RNG-under-parallel site from /repo on each run and `decide` checks them against the allow-list the theorems cover; serialized outputs of all schemes are hashed in child processes under RAYON_NUM_THREADS in {1,2,3,8,16} and in a build without the parallel feature. Partial: what rayon does at run time is outside the model."),
 "C12": ("Lean proof (codec combinators preserve round-trip/size/prefix-failure; schema agreement => struct codec Good) + serializer schemas regenerated from source (T1) + real round-trips",
   "codec library with round-trip, size and prefix-failure preserved by seq/vec/option/map/btreemap; roundtrip_of_schema_agree instantiated by `decide` on the field lists the translator extracts from the hand-written CanonicalSerialize/Deserialize/Valid impls on every run (an impl T1 cannot read falls back, per type, to the schema of the pinned tree and is tied by the byte-layout correspondence); every artefact of every scheme is round-tripped (compress x validate), sizes, all proper prefixes, decisions with deserialized artefacts, byte layout = model order. Partial: primitive point/field encodings and the derive macro are trusted."),
 "C04": ("Lean proof (admission refusals, bounded completeness, exact mislabel condition) + boundary / mutation correspondence",
   "commit/open refuse a bound that is not enforced, below the degree or above the maximum; honest use with any admissible bound is accepted (C01 theorem with bounds); a commitment accepted under d' is accepted under d iff h*xi'*v*(shift(d')-shift(d)) = 0; dropped/added shifted parts abort; degree-bound soundness against algebraic forgers (Marlin, Sonic, IPA: a polynomial exceeding the bound is accepted only for few evaluation points / one challenge ratio / a revealed trapdoor or discrete-log relation); boundary generator and relabel/drop/swap mutations on trapdoor keys decided by implementation and model."),
 "C09": ("Lean proof (trim of trapdoor-made parameters yields exactly the stated sub-keys) + real-setup correspondence",
   "trim_wf: prefix powers, gamma powers, shifted window, shift elements for sort(dedup(bounds)), truthful reports, interoperable verifier core, out-of-range refused; real setup: trapdoor recovered by RNG replay and verified on every element plus pairing identities; transparent generators valid, distinct, deterministic, prefix-stable."),
 "C06": ("Lean proof (a combination of honest commitments is an honest commitment of the combined polynomial; value split; bound policy) + perturbation correspondence on all schemes",
   "combineLC of honestly committed unbounded polynomials is Honest, so the completeness theorem applies to combination openings; the combined polynomial evaluates to LC.value minus constants; a bounded polynomial mixed with other terms is refused; harness: arbitrary coefficient classes, repeated labels, constants, several combinations per point, labels sharing a point value, and the four perturbation kinds (value, coefficient, constant, transmitted evaluations) on all eight trait schemes."),
 "C11": ("Lean proof (lock-step over any history by induction; exact displaced-proof condition) + LogSponge event comparison on histories",
   "prover and verifier consume the same challenges and leave the same remainder after every prefix of any operation history, and every check accepts; a proof verified under another challenge is accepted iff h*g*(xi'-xi)*(p(beta)-p(z)) = 0; harness: histories of open/batch_open/open_combinations on one pre-seeded logging sponge, event lists and end states compared after every prefix, perturbed pre-states and displaced proofs must be refused (all schemes)."),
 "C14": ("Lean proof (space = time outputs for every coefficient list; verify iff; fold iterators enumerate the foldings for every length) + exhaustive iterator correspondence",
   "27 theorems: algebraic-forger reductions for verify and verify_multi_points (any claimed table, any proof element over the key), Space.open = Time.open, commit, multi-point quotient/remainder, verify/verify_multi_points completeness and exact acceptance, FoldedPolynomialTree/Stream = naive fold for all lengths, commit_folding/open_folding offsets; harness: time vs space vs model for degrees 0..256, 1..8 points, 1..8 polynomials, six buffer sizes, both verifier keys; all lengths 1..130 x depths 0..7."),
 "C15": ("Lean proof (divideAtPoint exact for every sparse polynomial; Combinations iterator sound and complete for all inputs; setup enumerates exactly the C(n+D,D) monomials for all n, D; PST13 completeness) + real-setup correspondence",
   "19 theorems incl. combinations_complete, setupTerms_complete (all n, D: no duplicates, exactly the monomials of degree <= D, C(n+D,D) of them; order additionally kernel-decided on the 6x6 grid), pst13_complete(_list), pst13_end_to_end, trim keeps exactly degree <= s. Harness: Combinations hook vs model, real setup on the grid (key set = all exponent vectors, every element = m(beta)*g, pairing relations), trapdoor-mode commit/open/check with mutations."),
 "C19": ("Lean proof (shape theorems of the prover models, batch proof count, linear-code dimension inequalities) + measured serialized sizes against each scheme's law",
   "KZG/Marlin/Sonic proof = 1 element (+1 scalar iff hiding), commitment +1 element iff bound, one proof per distinct point label; PST13 nv elements; IPA 2*log2(d+1); Hyrax 2^(n/2); linear codes: constant commitment, proof within 4x of the best power-of-two matrix shape once t < codeword length. Partial: the full-ceiling inequality and the f64 sqrt are tied by correspondence."),
 "C13": ("Lean proof (exact integer form of the soundness bound, tSpec least, index range, RS and Brakedown encoders linear) + calculate_t vs exact bound on a grid",
   "19 theorems: the cleared-denominator bound is equivalent to 2(1-d/2)^t + n/q <= 2^-lambda over Q, monotone, tSpec is the least t (capped at n), the search cap is justified, indices < n, Reed-Solomon and Brakedown encoders are linear of the declared length. Partial: calculate_t is f64 code and is tied to tSpec by the correspondence run (238K grid points quick, 3.96M thorough, with an independent big-integer evaluation of the bound at t and t-1); known finding D16 at relative distance exactly 1."),
}
# properties whose machinery is not built yet (listed under not_applicable with that reason, as the brief asks)
not_yet = {
}

def load_extra():
    p = os.path.join(V, "tools", "manifest_extra.json")
    return json.load(open(p)) if os.path.exists(p) else {}

def main():
    extra = load_extra()
    for k, v in extra.get("claimed", {}).items():
        claimed[k] = tuple(v)
    props = [json.loads(l)["id"] for l in open(os.path.join(V, "properties.jsonl"))]
    checks = []
    for pid in props:
        if pid not in claimed:
            continue
        tech, text = claimed[pid]
        checks.append({
            "property_id": pid,
            "quick_cmd": "./check %s --tier quick" % pid,
            "thorough_cmd": "./check %s --tier thorough" % pid,
            "evidence_file": "/verif/evidence/%s.json" % pid,
            "replay_cmd_template": "./check %s --replay {path}" % pid,
            "engine": "lean4-proof+pcv-harness",
            "level_claimed": {"category": "proof", "text": text, "design_ref": "DESIGN.md §5 " + pid},
            "level_note": "Trusted: Lean 4.33 kernel, axioms propext/Classical.choice/Quot.sound only (audited per theorem on every run); "
                          "hand-written model tied to /repo by the differential harness (as good as its generators, measured in the evidence); "
                          "exponent representation of prime-order groups; crypto hardness only as hypotheses; ark-* crates modelled not verified.",
            "technique": tech,
        })
    na = []
    for pid in props:
        if pid not in claimed:
            na.append({"property_id": pid, "reason": not_yet.get(pid, "machinery under construction in this session; not claimed until its theorems and correspondence run exist")})
    m = {
        "version": 1,
        "setup_cmd": "./setup.sh",
        "hooks": {
            "guard": "verif-hooks",
            "enable": "cargo feature `verif-hooks` of ark-poly-commit (the harness depends on /repo/poly-commit with features = [\"std\", \"verif-hooks\"])",
            "baseline_off_cmd": "cd /repo && cargo test --workspace --no-fail-fast --offline",
            "source_commits": ["bd6a2ce"],
            "add_only": True,
        },
        "engines": [
            {"name": "lean4-proof+pcv-harness", "path": "/verif/check",
             "serves_properties": [c["property_id"] for c in checks],
             "kind_free_text": "Lean 4 theorems about a hand-written exponent-form model (lean/PCV) + Rust differential harness (harness/) driving the real crate and the native model driver pcvdrv over a line protocol"},
        ],
        "checks": checks,
        "not_applicable": na,
        "notes": "See DESIGN.md. Known findings and fix: commits are listed in known_findings.json.",
    }
    json.dump(m, open(os.path.join(V, "MANIFEST.json"), "w"), indent=1)
    print("claimed:", [c["property_id"] for c in checks])
    print("not claimed:", [n["property_id"] for n in na])

if __name__ == "__main__":
    main()
