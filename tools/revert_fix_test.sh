#!/bin/bash
# For a fix: commit <sha> and a property: reverse-apply the fix on /repo's working tree, run the check,
# restore. Shows that the defect is reported again if it ever returns.
sha=$1; shift
cd /repo || exit 2
if [ -n "$(git status --porcelain --untracked-files=no)" ]; then echo "repo dirty"; exit 2; fi
git show $sha -- poly-commit/src | git apply -R || { echo "cannot reverse-apply $sha"; exit 2; }
cd /verif
for p in "$@"; do
  out=$(./check $p 2>&1 | grep -E "^(VIOLATION|OK|# )" | head -4)
  echo "[$sha reverted] $p: $out"
done
git -C /repo checkout -- .
