#!/usr/bin/env python3
"""Run the checks against the seeded changes kept under /verif/seeded/<id>/.

  tools/seeded.py <id> [--props C01,C02 | --all] [--tier quick|thorough]

Applies seeded/<id>/patch.diff to /repo (git apply), runs ./check for the property named in meta.json
(or the given list / all claimed properties), records which checks report a VIOLATION into
seeded/<id>/result.json, and ALWAYS restores /repo (git checkout -- .) afterwards.
"""
import json
import os
import subprocess
import sys
import time

V = os.path.dirname(os.path.dirname(os.path.abspath(__file__)))


def sh(cmd, cwd=None):
    os.environ.setdefault("CARGO_NET_OFFLINE", "true")
    p = subprocess.run(cmd, cwd=cwd, stdout=subprocess.PIPE, stderr=subprocess.STDOUT, text=True)
    return p.returncode, p.stdout


def main():
    sid = sys.argv[1]
    # --root benign: behaviour-preserving changes kept under /verif/benign/<id>/; every check must stay quiet
    root = sys.argv[sys.argv.index("--root") + 1] if "--root" in sys.argv else "seeded"
    d = os.path.join(V, root, sid)
    meta = json.load(open(os.path.join(d, "meta.json")))
    tier = "quick"
    jobs = 6
    allp = [c["property_id"] for c in json.load(open(os.path.join(V, "MANIFEST.json")))["checks"]]
    props = [meta["property"]] if "property" in meta else allp
    a = sys.argv[2:]
    i = 0
    while i < len(a):
        if a[i] == "--props":
            props = a[i + 1].split(","); i += 1
        elif a[i] == "--all":
            props = [c["property_id"] for c in json.load(open(os.path.join(V, "MANIFEST.json")))["checks"]]
        elif a[i] == "--root":
            i += 1
        elif a[i] == "--jobs":
            jobs = int(a[i + 1]); i += 1
        elif a[i] == "--tier":
            tier = a[i + 1]; i += 1
        i += 1
    import fcntl
    os.makedirs(os.path.join(V, ".build"), exist_ok=True)
    lock = open(os.path.join(V, ".build", "repo.lock"), "w")
    waitflag = os.path.join(V, ".build", "repo.wait")
    open(waitflag, "w").write(str(os.getpid()))
    try:
        fcntl.flock(lock, fcntl.LOCK_EX)  # wait for running checks; new ones queue behind the flag
    finally:
        try:
            os.remove(waitflag)
        except OSError:
            pass
    os.environ["PCV_SEEDED"] = "1"
    rc, out = sh(["git", "-C", "/repo", "status", "--porcelain", "--untracked-files=no"])
    if out.strip():
        print("refusing: /repo has local modifications:\n" + out)
        return 2
    # the harness is edited by several hands: make sure it builds against the CLEAN tree first, so that a
    # build failure with the patch applied is the patch's doing
    rc, out = sh(["cargo", "build", "--offline"], cwd=os.path.join(V, "harness"))
    if rc != 0:
        print("harness does not build on the clean tree (someone is editing it) - retry later")
        return 3
    rc, out = sh(["git", "-C", "/repo", "apply", os.path.join(d, "patch.diff")])
    if rc != 0:
        print("patch does not apply:", out)
        return 2
    results = {}

    def one(p):
        t0 = time.time()
        rc, out = sh([os.path.join(V, "check"), p, "--tier", tier], cwd=V)
        viol = [l for l in out.split("\n") if l.startswith("VIOLATION")]
        desc = [l for l in out.split("\n") if l.startswith("# ")][:3]
        r = {"exit": rc, "violations": viol[:5], "why": desc, "wall_s": round(time.time() - t0, 1),
             "concrete": any("no-failing-input-found" not in v for v in viol)}
        print(p, "->", ("ALARM" if root == "benign" else "DETECTED") if viol else ("quiet" if root == "benign" else "missed"), "(concrete input)" if r["concrete"] else "", desc[:1], flush=True)
        return p, r

    try:
        # the first check builds the harness against the patched tree; the others then run side by side
        from concurrent.futures import ThreadPoolExecutor
        first = one(props[0])
        results[first[0]] = first[1]
        with ThreadPoolExecutor(max_workers=jobs) as ex:
            for p, r in ex.map(one, props[1:]):
                results[p] = r
        # the harness is edited by several hands: a harness build failure may be a half-saved edit, not the patch;
        # re-run those properties once after a pause before believing it
        bad = [p for p, r in results.items() if any("cargo build of the harness" in w for w in r["why"])]
        if bad:
            print("harness build failed for", bad, "- retrying once in 150 s", flush=True)
            time.sleep(150)
            for p in bad:
                q, r = one(p)
                results[q] = r
    finally:
        sh(["git", "-C", "/repo", "checkout", "--", "."])
    rp = os.path.join(d, "result.json")
    old = json.load(open(rp)) if os.path.exists(rp) else {}
    old.setdefault(tier, {}).update(results)
    json.dump(old, open(rp, "w"), indent=1)
    return 0


if __name__ == "__main__":
    sys.exit(main())
