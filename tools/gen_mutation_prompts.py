#!/usr/bin/env python3
"""Write mutation-agent prompts (one per property) to <outdir>/prompt_Cxx.txt.

  tools/gen_mutation_prompts.py <outdir> <id-prefix> [--avoid]

The prompt is tools/prompts/mutation_template.txt with the property text filled in; with --avoid the ideas of
all changes already kept under /verif/seeded are listed so that a later round produces different ones.
The agents get ONLY this prompt (nothing from /verif) and work in <outdir>/<id-prefix><cxx>/.
"""
import glob, json, os, sys
V = os.path.dirname(os.path.dirname(os.path.abspath(__file__)))
out, prefix = sys.argv[1], sys.argv[2]
avoid = "--avoid" in sys.argv
tmpl = open(os.path.join(V, "tools/prompts/mutation_template.txt")).read()
props = {json.loads(l)["id"]: json.loads(l) for l in open(os.path.join(V, "properties.jsonl"))}
ideas = []
for d in sorted(glob.glob(os.path.join(V, "seeded/*/meta.json"))):
    m = json.load(open(d))
    ideas.append("- [%s] (%s) %s" % (d.split("/")[-2], ", ".join(m.get("files", [])), m["what_it_breaks"][:300]))
os.makedirs(out, exist_ok=True)
for pid, pr in props.items():
    text = pr.get("statement") or pr.get("description") or ""
    t = (tmpl.replace("__ID__", prefix + pid.lower()).replace("__PROPERTY__", pr.get("title", "") + "\n\n" + text)
         .replace("__N__", "2").replace("__PID__", pid).replace("/tmp/mutwt/", out.rstrip("/") + "/"))
    if avoid:
        t += ("\n\nIMPORTANT — later round: the following changes were already produced by others (for this and other "
              "properties). Yours must be DIFFERENT in idea and location from all of them — a different function or a "
              "different kind of slip, preferably in a scheme/file that is not in this list for your property, and "
              "preferably exercising a different clause of the property text:\n" + "\n".join(ideas) + "\n")
    open(os.path.join(out, "prompt_%s.txt" % pid), "w").write(t)
print("wrote", len(props), "prompts to", out)
