#!/bin/bash
# confirm_seeded.sh <srcdir> <i> <name>: confirm a proposed seeded change in a scratch worktree:
#  (1) demo passes on HEAD, (2) patch applies + compiles, demo FAILS with it, (3) the full existing suite passes with it.
# On success copy patch/demo/meta to /verif/seeded/<name>/ . The worktree and its build output are removed.
src=$1; i=$2; name=$3
wt=/tmp/confirm/$name
export CARGO_NET_OFFLINE=true
mkdir -p /tmp/confirm
git -C /repo worktree add -f $wt HEAD >/dev/null 2>&1 || { echo "$name: cannot create worktree"; exit 2; }
cd $wt
mkdir -p poly-commit/tests; cp $src/demo$i.rs poly-commit/tests/demo_$name.rs
r1=$(cargo test --offline -p ark-poly-commit --test demo_$name 2>&1 | grep -E "^test result|error(\[|:)" | head -3)
git apply $src/patch$i.diff || { echo "$name: patch does not apply"; cd /; git -C /repo worktree remove --force $wt; exit 2; }
r2=$(cargo test --offline -p ark-poly-commit --test demo_$name 2>&1 | grep -E "^test result|error(\[|:)|panicked" | head -3)
rm poly-commit/tests/demo_$name.rs
r3=$(cargo test --workspace --offline 2>&1 | grep -E "^test result" | head -2 | tr '\n' ' ')
cd /
rm -rf $wt/target
git -C /repo worktree remove --force $wt
echo "$name: demo@HEAD=[$r1] demo@patch=[$r2] suite@patch=[$r3]"
ok1=$(echo "$r1" | grep -c "test result: ok")
fail2=$(echo "$r2" | grep -c "FAILED\|panicked")
ok3=$(echo "$r3" | grep -c "113 passed; 0 failed")
if [ "$ok1" -ge 1 ] && [ "$fail2" -ge 1 ] && [ "$ok3" -ge 1 ]; then
  mkdir -p /verif/seeded/$name
  cp $src/patch$i.diff /verif/seeded/$name/patch.diff
  cp $src/demo$i.rs /verif/seeded/$name/demo.rs
  python3 - "$src/meta$i.json" "/verif/seeded/$name/meta.json" "$r1" "$r2" "$r3" <<'PY'
import json,sys
m=json.load(open(sys.argv[1]))
m["confirmed"]={"demo_at_head":sys.argv[3],"demo_with_patch":sys.argv[4],"suite_with_patch":sys.argv[5],
  "how":"tools/confirm_seeded.sh: scratch worktree of /repo HEAD; demo copied to poly-commit/tests/, run before and after `git apply`; full `cargo test --workspace --offline` with the patch"}
json.dump(m,open(sys.argv[2],"w"),indent=1)
PY
  echo "$name: CONFIRMED"
else
  echo "$name: NOT confirmed"
fi
