#!/bin/bash
# run every registered check against each behaviour-preserving change under /verif/benign/<id>/ (no result yet);
# any VIOLATION is a false alarm of the machinery
cd /verif
for d in benign/*/; do
  id=$(basename $d)
  [ -f $d/patch.diff ] || continue
  if [ "$1" != "--force" ] && [ "$1" != "--all" ] && [ -f $d/result.json ]; then continue; fi
  echo "== $id"
  python3 tools/seeded.py $id --root benign $(echo "$@" | sed "s/--force//") || echo "   (skipped: rc=$?)"
done
