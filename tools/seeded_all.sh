#!/bin/bash
# run tools/seeded.py for every confirmed seeded change that has no result for the given tier/property set yet
# usage: tools/seeded_all.sh [extra args for seeded.py, e.g. --all]
cd /verif
for d in seeded/*/; do
  id=$(basename $d)
  [ -f $d/patch.diff ] || continue
  if [ "$1" != "--force" ] && [ "$1" != "--all" ] && [ -f $d/result.json ]; then continue; fi
  echo "== $id"
  python3 tools/seeded.py $id "$@" || echo "   (skipped: rc=$?)"
done
