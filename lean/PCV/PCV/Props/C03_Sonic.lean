/-
  Property C03 (SonicKZG10) — crafted proofs on the exact model: at most one witness element is
  accepted for a statement; a forged value needs a compensating `random_v`; and the reduction for
  algebraic forgers (the extraction polynomial of `Proofs/KZG10Extract.lean`).
-/
import PCV.Proofs.SonicExamples
import PCV.Proofs.SonicBound
set_option linter.unusedSectionVars false

namespace PCV.C03
open PCV PCV.Sonic
variable {F : Type} [Field F] [DecidableEq F]

/-- **The defect is affine in the witness element** with coefficient `(z − β)·h`, and in `random_v`
with coefficient `−γ·h`, for ANY statement (any number of commitments, bounds, challenges). -/
theorem sonic_defect_proof_affine (vk : VK F) (cs : List (LComm F)) (z : F) (vs ξs : List F)
    (w w' : F) (rv rv' : Option F) :
    defect vk cs z vs ⟨w', rv'⟩ ξs - defect vk cs z vs ⟨w, rv⟩ ξs
      = (w' - w) * (z * vk.h - vk.betaH) - (KZG.rvVal rv' - KZG.rvVal rv) * vk.gammaG * vk.h := by
  unfold defect; ring

/-- **Single-component replacement (witness).** On a key with `βH = β·h`, `h ≠ 0` and `z ≠ β`: two
proofs that differ only in the witness element and are both accepted for the same statement are
equal — from an accepted proof every other witness is rejected, and for a false claim at most one
(trapdoor-dependent) witness is accepted. -/
theorem sonic_witness_unique (vk : VK F) (β : F) (hbh : vk.betaH = β * vk.h) (hh : vk.h ≠ 0)
    (cs : List (LComm F)) (z : F) (hz : z ≠ β) (vs ξs r₁ r₂ : List F) (w₁ w₂ : F) (rv : Option F)
    (h₁ : check vk cs z vs ⟨w₁, rv⟩ ξs = .ok (true, r₁))
    (h₂ : check vk cs z vs ⟨w₂, rv⟩ ξs = .ok (true, r₂)) : w₁ = w₂ := by
  obtain ⟨_, _, d₁⟩ := (check_true_iff vk cs z vs _ ξs r₁).1 h₁
  obtain ⟨_, _, d₂⟩ := (check_true_iff vk cs z vs _ ξs r₂).1 h₂
  have := sonic_defect_proof_affine vk cs z vs ξs w₁ w₂ rv rv
  rw [d₁, d₂, hbh] at this
  have h0 : (w₂ - w₁) * ((z - β) * vk.h) = 0 := by linear_combination -this
  rcases mul_eq_zero.1 h0 with h | h
  · exact (sub_eq_zero.1 h).symm
  · rcases mul_eq_zero.1 h with h | h
    · exact absurd (sub_eq_zero.1 h) hz
    · exact absurd h hh

/-- **Forged value with the honest witness** (single unbounded hiding commitment): a false value
`v + dv` is accepted only with a `random_v` changed to compensate exactly, `ξ·dv·g + drv·γ = 0`. -/
theorem sonic_value_and_rv (vk : VK F) (hh : vk.h ≠ 0) (l : Marlin.Label) (c z v w rv dv drv ξ : F)
    (ξs r : List F)
    (h₁ : check vk [⟨l, c, none⟩] z [v] ⟨w, some rv⟩ (ξ :: ξs) = .ok (true, r)) :
    check vk [⟨l, c, none⟩] z [v + dv] ⟨w, some (rv + drv)⟩ (ξ :: ξs) = .ok (true, r)
      ↔ ξ * dv * vk.g + drv * vk.gammaG = 0 := by
  obtain ⟨a1, a2, d₁⟩ := (check_true_iff vk _ z _ _ _ r).1 h₁
  rw [check_true_iff]
  have e : defect vk [⟨l, c, none⟩] z [v + dv] ⟨w, some (rv + drv)⟩ (ξ :: ξs)
      = defect vk [⟨l, c, none⟩] z [v] ⟨w, some rv⟩ (ξ :: ξs)
        - (ξ * dv * vk.g + drv * vk.gammaG) * vk.h := by
    unfold defect; simp only [linC, linV, KZG.rvVal]; ring
  constructor
  · rintro ⟨_, _, d₂⟩
    rw [e, d₁] at d₂
    have : (ξ * dv * vk.g + drv * vk.gammaG) * vk.h = 0 := by linear_combination -d₂
    rcases mul_eq_zero.1 this with h | h
    · exact h
    · exact absurd h hh
  · intro h0
    refine ⟨a1, a2, ?_⟩
    rw [e, d₁, h0]; ring

/-- **Any algebraic forger solves the hardness problem (Sonic, unbounded commitment).**  Key from a
trapdoor; commitment `g·p(β)`; witness `g·a(β)` for ANY forger-chosen coefficients `a`; if the value
`v` is accepted at `z` under the challenge `ξ`, the trapdoor is a root of
`ξ·p − ξ·v − a·(X − z)`, whose value at `z` is `ξ·(p(z) − v)`: non-zero for a false claim and `ξ ≠ 0`. -/
theorem sonic_algebraic_forgery_reveals_trapdoor (vk : VK F) (g β h : F)
    (hg : vk.g = g) (hh : vk.h = h) (hbh : vk.betaH = β * h) (hg0 : g ≠ 0) (hh0 : h ≠ 0)
    (l : Marlin.Label) (p a : List F) (z v ξ : F) (ξs r : List F) (hξ : ξ ≠ 0)
    (hv : v ≠ evalPoly p z)
    (hacc : check vk [⟨l, g * evalPoly p β, none⟩] z [v] ⟨g * evalPoly a β, none⟩ (ξ :: ξs)
      = .ok (true, r)) :
    evalPoly (KZG.extractPoly (pscale ξ p) a z (ξ * v)) β = 0 ∧
      evalPoly (KZG.extractPoly (pscale ξ p) a z (ξ * v)) z ≠ 0 := by
  obtain ⟨_, _, hdef⟩ := (check_true_iff vk _ z _ _ _ r).1 hacc
  unfold defect at hdef
  simp only [linC, linV, VK.shiftD, VK.shiftOf, Option.getD_some, KZG.rvVal, hg, hh, hbh, add_zero,
    zero_mul] at hdef
  constructor
  · rw [KZG.eval_extractPoly, eval_pscale]
    have : g * h * (ξ * evalPoly p β - ξ * v - evalPoly a β * (β - z)) = 0 := by
      linear_combination hdef
    rcases mul_eq_zero.1 this with h2 | h2
    · rcases mul_eq_zero.1 h2 with h3 | h3
      · exact absurd h3 hg0
      · exact absurd h3 hh0
    · exact h2
  · rw [KZG.eval_extractPoly, eval_pscale]
    simp only [sub_self, mul_zero, sub_zero]
    intro h0
    have : ξ * (evalPoly p z - v) = 0 := by linear_combination h0
    rcases mul_eq_zero.1 this with h1 | h1
    · exact hξ h1
    · exact hv (sub_eq_zero.1 h1).symm

/-! non-vacuity on the worked example of `SonicExamples` (bounded hiding, unbounded, bounded) -/
example : check Ex.vk Ex.comms 5 Ex.vals Ex.proof Ex.xis = .ok (true, [23]) ∧
    check Ex.vk Ex.comms 5 Ex.vals ⟨Ex.proof.w + 1, Ex.proof.rv⟩ Ex.xis = .ok (false, [23]) ∧
    Ex.vk.betaH = 2 * Ex.vk.h ∧ Ex.vk.h ≠ 0 ∧ (5 : K) ≠ 2 := by decide

end PCV.C03
