/-
  Property C02 — evaluation binding: a false claim with an honest proof is never accepted.
-/
import PCV.Proofs.KZG10
import PCV.Proofs.Roots
import PCV.Props.Examples

namespace PCV.C02
open PCV
variable {F : Type} [Field F] [DecidableEq F]

/-- **KZG10, exact acceptance condition.** For an honest commitment `c = g·p(β)+γ·r(β)` and the
honest proof `π` for `(p, r, z)`, the verifier accepts the statement
`(c + dc, z + dz, p(z) + dv)` iff `h·(dc − dv·g + W·dz) = 0` (`W` the witness scalar). -/
theorem kzg10_check_iff (g γ β h : F) (n m : Nat) (p r : List F) (z : F) (π : KZG.Proof F)
    (hr : (pnorm r).length ≤ m)
    (ho : KZG.open (KZG.wfPowers g γ β n m) p z r = .ok π) (dc dz dv : F) :
    KZG.check (KZG.wfVK g γ β h) (g * evalPoly p β + γ * evalPoly r β + dc) (z + dz)
        (evalPoly p z + dv) π = true
      ↔ h * (dc - dv * g + π.w * dz) = 0 := by
  rw [KZG.check_iff_defect, KZG.honest_defect g γ β h n m p r z π hr ho]

/-- **KZG10, wrong value.** Any claimed value other than `p(z)` is rejected (given `g, h ≠ 0`). -/
theorem kzg10_wrong_value_rejected (g γ β h : F) (n m : Nat) (p r : List F) (z : F)
    (π : KZG.Proof F) (hr : (pnorm r).length ≤ m)
    (ho : KZG.open (KZG.wfPowers g γ β n m) p z r = .ok π) (dv : F)
    (hdv : dv ≠ 0) (hg : g ≠ 0) (hh : h ≠ 0) :
    KZG.check (KZG.wfVK g γ β h) (g * evalPoly p β + γ * evalPoly r β) z (evalPoly p z + dv) π
      = false := by
  have := kzg10_check_iff g γ β h n m p r z π hr ho 0 0 dv
  simp only [add_zero] at this
  rw [Bool.eq_false_iff]
  intro hc
  have h0 := this.1 hc
  simp only [mul_zero, add_zero, zero_sub, mul_eq_zero, neg_eq_zero] at h0
  rcases h0 with h0 | h0 | h0 <;> contradiction

/-- **KZG10, wrong point.** The proof for `z` is rejected at `z + dz` (same value, same
commitment) unless `dz = 0` or the witness commitment is the identity. -/
theorem kzg10_wrong_point_rejected (g γ β h : F) (n m : Nat) (p r : List F) (z : F)
    (π : KZG.Proof F) (hr : (pnorm r).length ≤ m)
    (ho : KZG.open (KZG.wfPowers g γ β n m) p z r = .ok π) (dz : F)
    (hdz : dz ≠ 0) (hw : π.w ≠ 0) (hh : h ≠ 0) :
    KZG.check (KZG.wfVK g γ β h) (g * evalPoly p β + γ * evalPoly r β) (z + dz) (evalPoly p z) π
      = false := by
  have := kzg10_check_iff g γ β h n m p r z π hr ho 0 dz 0
  simp only [add_zero] at this
  rw [Bool.eq_false_iff]
  intro hc
  have h0 := this.1 hc
  simp only [zero_mul, sub_zero, zero_add, mul_eq_zero] at h0
  rcases h0 with h0 | h0 | h0 <;> contradiction

/-- **KZG10, wrong point: the exceptional trapdoors are few.** For a non-hiding opening of `p` at
`z` whose quotient is not identically zero (i.e. `p` is not constant), there is a set `S` of at most
`|p| − 1` field elements such that for *every* trapdoor `β ∉ S` the proof is rejected at every
other point — the degenerate case "the witness vanishes" is confined to the roots of the quotient. -/
theorem kzg10_wrong_point_exceptional_set (p : List F) (z : F)
    (hnc : ∃ x, evalPoly (divLin p z).1 x ≠ 0) :
    ∃ S : Finset F, S.card ≤ p.length - 1 ∧
      ∀ (g γ β h : F) (n m : Nat) (π : KZG.Proof F) (dz : F), β ∉ S → g ≠ 0 → h ≠ 0 → dz ≠ 0 →
        KZG.open (KZG.wfPowers g γ β n m) p z [] = .ok π →
        KZG.check (KZG.wfVK g γ β h) (g * evalPoly p β + γ * evalPoly [] β) (z + dz)
          (evalPoly p z) π = false := by
  obtain ⟨S, hcard, hS⟩ := Roots.zeros_bounded (divLin p z).1 hnc
  refine ⟨S, by rw [divLin_len] at hcard; exact hcard, ?_⟩
  intro g γ β h n m π dz hβ hg hh hdz ho
  have hr : (pnorm ([] : List F)).length ≤ m := by simp [pnorm]
  apply kzg10_wrong_point_rejected g γ β h n m p [] z π hr ho dz hdz ?_ hh
  obtain ⟨hw, _⟩ := KZG.open_spec g γ β n m p [] z π hr ho
  rw [hw]
  simp only [divLin, evalPoly_nil, mul_zero, add_zero]
  intro h0
  rcases mul_eq_zero.1 h0 with h1 | h1
  · exact hg h1
  · exact hβ (hS β h1)

/-- **KZG10, wrong commitment.** Any other commitment `c + dc`, `dc ≠ 0`, is rejected. In
particular a commitment to `q` with `q(β) ≠ p(β)`. -/
theorem kzg10_wrong_commitment_rejected (g γ β h : F) (n m : Nat) (p r : List F) (z : F)
    (π : KZG.Proof F) (hr : (pnorm r).length ≤ m)
    (ho : KZG.open (KZG.wfPowers g γ β n m) p z r = .ok π) (dc : F)
    (hdc : dc ≠ 0) (hh : h ≠ 0) :
    KZG.check (KZG.wfVK g γ β h) (g * evalPoly p β + γ * evalPoly r β + dc) z (evalPoly p z) π
      = false := by
  have := kzg10_check_iff g γ β h n m p r z π hr ho dc 0 0
  simp only [add_zero] at this
  rw [Bool.eq_false_iff]
  intro hc
  have h0 := this.1 hc
  simp only [zero_mul, sub_zero, mul_zero, add_zero, mul_eq_zero] at h0
  rcases h0 with h0 | h0 <;> contradiction

/-- **KZG10 batch, one false claim.** If exactly one position of a batch has a non-zero defect and
its randomizer is non-zero, `batch_check` rejects. -/
theorem kzg10_batch_single_false_rejected (vk : KZG.VK F) (cs zs vs : List F)
    (πs : List (KZG.Proof F)) (rs : List F) (j : Nat)
    (hj : j < (KZG.defects vk cs zs vs πs).length)
    (hz : ∀ i (hi : i < (KZG.defects vk cs zs vs πs).length), i ≠ j →
      (KZG.defects vk cs zs vs πs)[i] = 0)
    (hne : (KZG.defects vk cs zs vs πs)[j] ≠ 0)
    (hr : ((1 : F) :: rs).getD j 0 ≠ 0) :
    KZG.batchCheck vk cs zs vs πs rs ≠ .ok true := by
  unfold KZG.batchCheck
  split
  · simp
  · intro hc
    injection hc with hc
    rw [decide_eq_true_iff, KZG.batchDefect_eq] at hc
    exact KZG.wsum_single 1 rs _ j hj hz hne hr hc

/-- non-vacuity: the honest transcript of C01's example, with value + 1, is rejected in the model -/
example : KZG.check (KZG.wfVK (3 : K) 5 2 1) 64 5 (evalPoly [1, 2, 3] 5 + 1) ⟨81, some 30⟩ = false := by
  decide
example : KZG.open (KZG.wfPowers (3 : K) 5 2 3 4) [1, 2, 3] 5 [7, 0, 9] = .ok ⟨81, some 30⟩ ∧
    (pnorm ([7, 0, 9] : List K)).length ≤ 4 ∧ (81 : K) ≠ 0 := by decide

end PCV.C02
