/-
  Property C02 (a false claim with an honest proof is never accepted) — what the trait-default
  `batch_check` / `check_combinations` of `poly-commit/src/lib.rs` add to the scheme's own `check`:
  every claim of the batch reaches that `check` at its own position, so the binding of `check` is the
  binding of the batch; and the equation stage of `check_combinations` rejects every wrong claimed value.
  Only property theorems live here; lemmas are in PCV/Proofs/TraitDefault*.lean.
-/
import PCV.Proofs.TraitDefaultLC
import PCV.Proofs.TraitDefaultToy
set_option linter.unusedSectionVars false

namespace PCV.C02
open PCV TraitDefault
variable {Pt : Type} [DecidableEq Pt] {C V PF σ : Type}

/-- **Binding at every position of a default batch.** Let `trueVal c z` be the value the scheme's `check`
is bound to for commitment `c` at `z`: it accepts only value lists that are the true ones
(`hbind` — the scheme's own C02 statement).  If the default `batch_check` accepts, then for every
point-label group and every polynomial label queried in it there is a commitment under that label and
the claimed evaluation at the group's point IS the true value.  Contrapositive: one changed value, at
whatever position of whatever group, and the batch is not accepted. -/
theorem default_batch_binding (ltP : Pt → Pt → Bool) (lblC : C → Label)
    (checkF : List C → Pt → List V → PF → σ → Except Err (Bool × σ)) (trueVal : C → Pt → V)
    (hbind : ∀ cs z vs π s s', checkF cs z vs π s = .ok (true, s') → vs = cs.map (trueVal · z))
    (comms : List C) (qs : List (Query Pt)) (evals : List ((Label × Pt) × V)) (πs : List PF) (s s' : σ)
    (hacc : batchCheck ltP lblC checkF comms qs evals πs s = .ok (true, s')) :
    ∀ g ∈ groups (querySet ltP qs), ∀ l ∈ g.2.2, ∃ c, Marlin.lookupLast lblC l comms = some c ∧
      QS.lastWith (l, g.2.1) evals = some (trueVal c g.2.1) := by
  obtain ⟨_, bs, hch, hr⟩ := (batchCheckSet_ok_iff lblC checkF comms _ evals πs s true s').1 hacc
  have hall := (chain_all_true bs).1 hr.symm
  intro g hg
  obtain ⟨cs, vs, π, s1, s2, _, hgc, hck⟩ :=
    chain_all_true_groups lblC checkF comms evals _ πs bs s s' hch hall g hg
  exact gatherCheck_forall lblC comms evals g.2.1 (trueVal · g.2.1) g.2.2 cs vs hgc
    (hbind cs g.2.1 vs π s1 s2 hck)

/-- **A false claim in a default batch is not accepted**, the scheme's `check` being binding: if the
claimed evaluation of a queried label at its group's point is not the true value of the commitment
listed (last) under that label, `batch_check` does not return success — it answers `false` or refuses. -/
theorem default_batch_false_claim_not_accepted (ltP : Pt → Pt → Bool) (lblC : C → Label)
    (checkF : List C → Pt → List V → PF → σ → Except Err (Bool × σ)) (trueVal : C → Pt → V)
    (hbind : ∀ cs z vs π s s', checkF cs z vs π s = .ok (true, s') → vs = cs.map (trueVal · z))
    (comms : List C) (qs : List (Query Pt)) (evals : List ((Label × Pt) × V)) (πs : List PF) (s : σ)
    (g : TraitDefault.Group Pt) (hg : g ∈ groups (querySet ltP qs)) (l : Label) (hl : l ∈ g.2.2) (c : C)
    (hc : Marlin.lookupLast lblC l comms = some c)
    (hfalse : QS.lastWith (l, g.2.1) evals ≠ some (trueVal c g.2.1)) (s' : σ) :
    batchCheck ltP lblC checkF comms qs evals πs s ≠ .ok (true, s') := by
  intro hacc
  obtain ⟨c', hc', hv⟩ :=
    default_batch_binding ltP lblC checkF trueVal hbind comms qs evals πs s s' hacc g hg l hl
  rw [hc] at hc'
  injection hc' with hc'
  subst hc'
  exact hfalse hv

variable {F : Type} [Field F] [DecidableEq F]

/-- **A wrong claimed value of an equation is not accepted** by the default `check_combinations`,
at every position of the equation query set (also when one equation is queried at several points, and
when several point labels share a point): if the claimed value of a queried equation differs from
`Σ coeff·eval + constants` over the transmitted evaluations, the method does not return success,
whatever the inner proofs are. -/
theorem default_lc_false_claim_not_accepted (ltP : Pt → Pt → Bool) (lblC : C → Label)
    (checkF : List C → Pt → List F → PF → σ → Except Err (Bool × σ))
    (lcs : List (LC.LinComb F)) (comms : List C) (qs : List (Query Pt))
    (ee : List ((Label × Pt) × F)) (πs : List PF) (evs : List F) (s s' : σ)
    (q : Query Pt) (hq : q ∈ qs) (lc : LC.LinComb F) (hlc : lcGet lcs q.1 = some lc)
    (hwrong : QS.lastWith (q.1, q.2.2) ee ≠
      some (LC.termsValue (assign (polyEvals ltP (verifierPolyQuerySet ltP lcs qs) evs) q.2.2) lc.terms)) :
    checkCombinations ltP lblC checkF lcs comms qs ee πs (some evs) s ≠ .ok (true, s') := by
  intro hacc
  obtain ⟨evs', he, hall, _⟩ :=
    (checkCombinations_true_iff ltP lblC checkF lcs comms qs ee πs (some evs) s s').1 hacc
  injection he with he
  subst he
  obtain ⟨lc', h1, _, h3⟩ := hall q hq
  rw [hlc] at h1
  injection h1 with h1
  subst h1
  exact hwrong h3

/-! non-vacuity over `ZMod 101` (`PCV.TraitDefault.Toy`, whose `check` is binding to `a·z`): the honest
batch is accepted, a changed value at the first group is not; the honest combination proof is accepted,
the value of `e` at the second of its two points changed is not -/
example : ∀ cs z vs π s s', Toy.checkF cs z vs π s = .ok (true, s') → vs = cs.map (Toy.evalP · z) := by
  intro cs z vs π s s' h
  simp only [Toy.checkF, Except.ok.injEq, Prod.mk.injEq, Bool.and_eq_true, decide_eq_true_eq] at h
  exact h.1.1
example : batchCheck Toy.ltK Toy.lbl Toy.checkF Toy.polys Toy.qs Toy.evals [0, 1, 2] 0 = .ok (true, 3) := by
  decide
example : batchCheck Toy.ltK Toy.lbl Toy.checkF Toy.polys Toy.qs
    [(([97], 4), 9), (([98], 4), 12), (([99], 4), 20), (([98], 7), 21)] [0, 1, 2] 0 = .ok (false, 3) := by
  decide
example : checkCombinations Toy.ltK Toy.lbl Toy.checkF Toy.lcs Toy.polys Toy.eqs Toy.eqEvals [0, 1]
    (some [8, 14, 12, 21, 20]) 0 = .ok (true, 2) := by decide
example : checkCombinations Toy.ltK Toy.lbl Toy.checkF Toy.lcs Toy.polys Toy.eqs
    [(([101], 4), 9), (([101], 7), 13), (([102], 4), 8)] [0, 1] (some [8, 14, 12, 21, 20]) 0 = .ok (false, 0) := by
  decide

end PCV.C02
