/-
  Property C17 (MarlinKZG10) — requests outside the domain are refused.
-/
import PCV.Proofs.MarlinMore
import PCV.Props.C01_Marlin
set_option linter.unusedSectionVars false

namespace PCV.C17
open PCV Marlin
variable {F : Type} [Field F] [DecidableEq F]

/-- a query for a polynomial that was not supplied is refused by the batch prover -/
theorem marlin_batch_open_unknown_label (ck : CK F) (polys : List (LPoly F)) (sts : List (Rand F))
    (g : Label × (F × List Label)) (gs : List (Label × (F × List Label))) (ξs : List F)
    (l : Label) (ls : List Label) (hg : g.2.2 = l :: ls)
    (hl : lookupLast (fun (x : LPoly F × Rand F) => x.1.label) l (polys.zip sts) = none) :
    batchOpenGroups ck polys sts (g :: gs) ξs = .error .missingPolynomial := by
  simp only [batchOpenGroups, hg, gatherPolys, hl]

/-- a query for a commitment that was not supplied is refused by the batch verifier -/
theorem marlin_batch_check_unknown_label (vk : VK F) (comms : List (LComm F))
    (evals : List ((Label × F) × F)) (g : Label × (F × List Label))
    (gs : List (Label × (F × List Label))) (ξs : List F) (l : Label) (ls : List Label)
    (hg : g.2.2 = l :: ls) (hl : lookupLast (fun (c : LComm F) => c.label) l comms = none) :
    combineGroups vk comms evals (g :: gs) ξs = .error .missingPolynomial := by
  simp only [combineGroups, hg, gatherComms, hl]

/-- a missing evaluation is refused by the batch verifier -/
theorem marlin_batch_check_missing_evaluation (vk : VK F) (comms : List (LComm F))
    (evals : List ((Label × F) × F)) (g : Label × (F × List Label))
    (gs : List (Label × (F × List Label))) (ξs : List F) (l : Label) (ls : List Label) (c : LComm F)
    (hg : g.2.2 = l :: ls) (hl : lookupLast (fun (c : LComm F) => c.label) l comms = some c)
    (hb : c.bound.isSome = c.comm.shifted.isSome)
    (he : lookupEval evals l g.2.1 = none) :
    combineGroups vk comms evals (g :: gs) ξs = .error .missingEvaluation := by
  simp only [combineGroups, hg, gatherComms, hl, he]
  rw [if_neg (by simpa using hb)]

/-- a hiding bound without an RNG never yields a commitment -/
theorem marlin_hiding_without_rng (ck : CK F) (p : LPoly F) (draws : List F) (h : Nat)
    (hh : p.hb = some h) : ∃ e, commitOne ck p false draws = .error e := by
  unfold commitOne
  split
  · exact ⟨_, rfl⟩
  · rw [if_pos (by simp [hh])]; exact ⟨_, rfl⟩

/-- trimming beyond the parameters is refused -/
theorem marlin_trim_too_large (pp : UParams F) (s hb : Nat) (bounds : Option (List Nat))
    (h : s > pp.powers.length - 1) : ∃ e, trim pp s hb bounds = .error e := by
  unfold trim
  split
  · exact ⟨_, rfl⟩
  · exact ⟨_, rfl⟩
  · rw [if_pos h]; exact ⟨_, rfl⟩

example : commitOne C01.exCK ⟨[112], [1, 2, 3], none, some 1⟩ false [7, 8, 9] = .error .abort := by
  decide

end PCV.C17
