/-
  PCV.Props.Examples — a small concrete field for the non-vacuity examples that accompany the
  property theorems (`ZMod 101`; `decide` evaluates the model there).
-/
import Mathlib.Algebra.Field.ZMod
import Mathlib.Tactic.NormNum.Prime

namespace PCV
instance fact_prime_101 : Fact (Nat.Prime 101) := ⟨by norm_num⟩
/-- the example field -/
abbrev K := ZMod 101
end PCV
