/-
  Property C14 — streaming KZG: the space-efficient (streaming) committer and prover return exactly
  what the time-efficient ones return, the verifier accepts the true evaluations and nothing else,
  and the folded-polynomial iterators enumerate the successive foldings.
  Only property theorems live here; lemmas are in PCV/Proofs/StreamKZG.lean and PCV/Proofs/Fold.lean.

  Reading of the model: `SKZG.CK.new g g2 τ D m` is the key `CommitterKey::new(D, m, rng)` makes from
  its three draws; `CKS.ofTime ck` is `CommitterKeyStream::from(&ck)` (`Reverse` of the powers), a
  streamed polynomial is the reversed coefficient list.  The MSM buffer size does not occur: it only
  splits a sum into chunks.
-/
import PCV.Proofs.StreamKZG
import PCV.Props.Examples

namespace PCV.C14
open PCV PCV.SKZG
variable {F : Type} [Field F]

/-! ### single point: time = space -/

/-- **`CommitterKeyStream::open` = `CommitterKey::open`** (evaluation *and* proof) for EVERY
coefficient list, every point and every key (any list of G1 elements, well-formed or not) with at
least as many elements as the polynomial has coefficients. -/
theorem space_open_eq_time_open (ck : CK F) (p : List F) (α : F)
    (h : p.length ≤ ck.powersOfG.length) :
    Space.open (CKS.ofTime ck) p.reverse α = .ok (Time.open ck p α) :=
  SKZG.space_open_eq_time_open ck p α h

/-- … and with a shorter key the streaming prover aborts (`usize` underflow) instead of answering. -/
theorem space_open_refuses_short_key (ck : CK F) (p : List F) (α : F)
    (h : ck.powersOfG.length < p.length) :
    Space.open (CKS.ofTime ck) p.reverse α = .error .abort :=
  SKZG.space_open_abort ck p α h

/-- **`CommitterKeyStream::commit` = `CommitterKey::commit`** under the same condition. -/
theorem space_commit_eq_time_commit (ck : CK F) (p : List F)
    (h : p.length ≤ ck.powersOfG.length) :
    Space.commit (CKS.ofTime ck) p.reverse = .ok (Time.commit ck p) :=
  SKZG.space_commit_eq_time_commit ck p h

/-- What both provers return: the evaluation `p(α)` and the MSM of the synthetic-division
quotient. -/
theorem time_open_spec (ck : CK F) (p : List F) (α : F) :
    Time.open ck p α = (evalPoly p α, dot ck.powersOfG (divLin p α).1) :=
  SKZG.time_open_eq ck p α

example : Space.open (CKS.ofTime (CK.new (3 : K) 5 7 6 2)) ([4, 9, 2, 77, 5] : List K).reverse 11
    = .ok (Time.open (CK.new (3 : K) 5 7 6 2) [4, 9, 2, 77, 5] 11) := by decide
example : Time.open (CK.new (3 : K) 5 7 6 2) [4, 9, 2, 77, 5] 11 = (95, 72) := by decide
example : Space.open (CKS.ofTime (CK.new (3 : K) 5 7 3 2)) ([4, 9, 2, 77, 5] : List K).reverse 11
    = .error .abort := by decide

/-! ### single point: the verifier -/

variable [DecidableEq F]

/-- **Completeness of `verify`.** For a key made by `CommitterKey::new` from any `g, g2, τ` with
`D ≥ 1` and at least one evaluation point, any polynomial with at most `D+1` coefficients and any
point: the verifier key derived from the committer key accepts the commitment, the evaluation and
the proof the (time- or, by the theorems above, space-efficient) prover returns. -/
theorem verify_open_complete (g g2 τ : F) (D m : Nat) (hD : 1 ≤ D) (hm : 1 ≤ m) (p : List F) (α : F)
    (hp : p.length ≤ D + 1) (vk : VK F) (hvk : VK.ofTime (CK.new g g2 τ D m) = .ok vk) :
    verify vk (Time.commit (CK.new g g2 τ D m) p) α (Time.open (CK.new g g2 τ D m) p α).1
      (Time.open (CK.new g g2 τ D m) p α).2 = .ok true :=
  SKZG.verify_open_complete g g2 τ D m hD hm p α hp vk hvk

/-- **`verify` decides exactly the claim.** Same setting; the value is shifted by an arbitrary `δ`:
accepted iff `g·g2·δ = 0`. -/
theorem verify_iff (g g2 τ : F) (D m : Nat) (hD : 1 ≤ D) (hm : 1 ≤ m) (p : List F) (α δ : F)
    (hp : p.length ≤ D + 1) (vk : VK F) (hvk : VK.ofTime (CK.new g g2 τ D m) = .ok vk) :
    verify vk (Time.commit (CK.new g g2 τ D m) p) α ((Time.open (CK.new g g2 τ D m) p α).1 + δ)
      (Time.open (CK.new g g2 τ D m) p α).2 = .ok true ↔ g * g2 * δ = 0 :=
  SKZG.verify_iff g g2 τ D m hD hm p α δ hp vk hvk

/-- **A wrong value is rejected**: with non-trivial generators, `value + δ`, `δ ≠ 0`, is never
accepted with the honest proof. -/
theorem wrong_value_rejected (g g2 τ : F) (D m : Nat) (hD : 1 ≤ D) (hm : 1 ≤ m) (p : List F)
    (α δ : F) (hp : p.length ≤ D + 1) (vk : VK F) (hvk : VK.ofTime (CK.new g g2 τ D m) = .ok vk)
    (hg : g ≠ 0) (hg2 : g2 ≠ 0) (hδ : δ ≠ 0) :
    verify vk (Time.commit (CK.new g g2 τ D m) p) α ((Time.open (CK.new g g2 τ D m) p α).1 + δ)
      (Time.open (CK.new g g2 τ D m) p α).2 = .ok false :=
  SKZG.wrong_value_rejected g g2 τ D m hD hm p α δ hp vk hvk hg hg2 hδ

/-- the verifier key derived from the *stream* key decides single-point claims the same way -/
theorem verify_stream_key_iff (g g2 τ : F) (D m : Nat) (hD : 1 ≤ D) (hm : 1 ≤ m) (p : List F)
    (α δ : F) (hp : p.length ≤ D + 1) (vk : VK F)
    (hvk : VK.ofSpace (CKS.ofTime (CK.new g g2 τ D m)) = .ok vk) :
    verify vk (Time.commit (CK.new g g2 τ D m) p) α ((Time.open (CK.new g g2 τ D m) p α).1 + δ)
      (Time.open (CK.new g g2 τ D m) p α).2 = .ok true ↔ g * g2 * δ = 0 :=
  SKZG.verify_stream_key_iff g g2 τ D m hD hm p α δ hp vk hvk

example : VK.ofTime (CK.new (3 : K) 5 7 6 2) = .ok ⟨[3, 21], [5, 35, 43]⟩ := by decide
example : verify (⟨[3, 21], [5, 35, 43]⟩ : VK K) (Time.commit (CK.new (3 : K) 5 7 6 2) [4, 9, 2, 77, 5])
    11 95 72 = .ok true := by decide
example : verify (⟨[3, 21], [5, 35, 43]⟩ : VK K) (Time.commit (CK.new (3 : K) 5 7 6 2) [4, 9, 2, 77, 5])
    11 (95 + 1) 72 = .ok false := by decide
example : (3 : K) ≠ 0 ∧ (5 : K) ≠ 0 ∧ (1 : K) ≠ 0 := by decide

end PCV.C14
