/-
  Property C14 — streaming KZG: the space-efficient (streaming) committer and prover return exactly
  what the time-efficient ones return, the verifier accepts the true evaluations and nothing else,
  and the folded-polynomial iterators enumerate the successive foldings.
  Only property theorems live here; lemmas are in PCV/Proofs/StreamKZG.lean and PCV/Proofs/Fold.lean.

  Reading of the model: `SKZG.CK.new g g2 τ D m` is the key `CommitterKey::new(D, m, rng)` makes from
  its three draws; `CKS.ofTime ck` is `CommitterKeyStream::from(&ck)` (`Reverse` of the powers), a
  streamed polynomial is the reversed coefficient list.  The MSM buffer size does not occur: it only
  splits a sum into chunks.
-/
import PCV.Proofs.StreamKZGVerify
import PCV.Props.Examples

namespace PCV.C14
open PCV PCV.SKZG
variable {F : Type} [Field F]

/-! ### single point: time = space -/

/-- **`CommitterKeyStream::open` = `CommitterKey::open`** (evaluation *and* proof) for EVERY
coefficient list, every point and every key (any list of G1 elements, well-formed or not) with at
least as many elements as the polynomial has coefficients. -/
theorem space_open_eq_time_open (ck : CK F) (p : List F) (α : F)
    (h : p.length ≤ ck.powersOfG.length) :
    Space.open (CKS.ofTime ck) p.reverse α = .ok (Time.open ck p α) :=
  SKZG.space_open_eq_time_open ck p α h

/-- … and with a shorter key the streaming prover aborts (`usize` underflow) instead of answering. -/
theorem space_open_refuses_short_key (ck : CK F) (p : List F) (α : F)
    (h : ck.powersOfG.length < p.length) :
    Space.open (CKS.ofTime ck) p.reverse α = .error .abort :=
  SKZG.space_open_abort ck p α h

/-- **`CommitterKeyStream::commit` = `CommitterKey::commit`** under the same condition. -/
theorem space_commit_eq_time_commit (ck : CK F) (p : List F)
    (h : p.length ≤ ck.powersOfG.length) :
    Space.commit (CKS.ofTime ck) p.reverse = .ok (Time.commit ck p) :=
  SKZG.space_commit_eq_time_commit ck p h

/-- What both provers return: the evaluation `p(α)` and the MSM of the synthetic-division
quotient. -/
theorem time_open_spec (ck : CK F) (p : List F) (α : F) :
    Time.open ck p α = (evalPoly p α, dot ck.powersOfG (divLin p α).1) :=
  SKZG.time_open_eq ck p α

example : Space.open (CKS.ofTime (CK.new (3 : K) 5 7 6 2)) ([4, 9, 2, 77, 5] : List K).reverse 11
    = .ok (Time.open (CK.new (3 : K) 5 7 6 2) [4, 9, 2, 77, 5] 11) := by decide
example : Time.open (CK.new (3 : K) 5 7 6 2) [4, 9, 2, 77, 5] 11 = (95, 72) := by decide
example : Space.open (CKS.ofTime (CK.new (3 : K) 5 7 3 2)) ([4, 9, 2, 77, 5] : List K).reverse 11
    = .error .abort := by decide

/-! ### single point: the verifier -/

variable [DecidableEq F]

/-- **Completeness of `verify`.** For a key made by `CommitterKey::new` from any `g, g2, τ` with
`D ≥ 1` and at least one evaluation point, any polynomial with at most `D+1` coefficients and any
point: the verifier key derived from the committer key accepts the commitment, the evaluation and
the proof the (time- or, by the theorems above, space-efficient) prover returns. -/
theorem verify_open_complete (g g2 τ : F) (D m : Nat) (hD : 1 ≤ D) (hm : 1 ≤ m) (p : List F) (α : F)
    (hp : p.length ≤ D + 1) (vk : VK F) (hvk : VK.ofTime (CK.new g g2 τ D m) = .ok vk) :
    verify vk (Time.commit (CK.new g g2 τ D m) p) α (Time.open (CK.new g g2 τ D m) p α).1
      (Time.open (CK.new g g2 τ D m) p α).2 = .ok true :=
  SKZG.verify_open_complete g g2 τ D m hD hm p α hp vk hvk

/-- **`verify` decides exactly the claim.** Same setting; the value is shifted by an arbitrary `δ`:
accepted iff `g·g2·δ = 0`. -/
theorem verify_iff (g g2 τ : F) (D m : Nat) (hD : 1 ≤ D) (hm : 1 ≤ m) (p : List F) (α δ : F)
    (hp : p.length ≤ D + 1) (vk : VK F) (hvk : VK.ofTime (CK.new g g2 τ D m) = .ok vk) :
    verify vk (Time.commit (CK.new g g2 τ D m) p) α ((Time.open (CK.new g g2 τ D m) p α).1 + δ)
      (Time.open (CK.new g g2 τ D m) p α).2 = .ok true ↔ g * g2 * δ = 0 :=
  SKZG.verify_iff g g2 τ D m hD hm p α δ hp vk hvk

/-- **A wrong value is rejected**: with non-trivial generators, `value + δ`, `δ ≠ 0`, is never
accepted with the honest proof. -/
theorem wrong_value_rejected (g g2 τ : F) (D m : Nat) (hD : 1 ≤ D) (hm : 1 ≤ m) (p : List F)
    (α δ : F) (hp : p.length ≤ D + 1) (vk : VK F) (hvk : VK.ofTime (CK.new g g2 τ D m) = .ok vk)
    (hg : g ≠ 0) (hg2 : g2 ≠ 0) (hδ : δ ≠ 0) :
    verify vk (Time.commit (CK.new g g2 τ D m) p) α ((Time.open (CK.new g g2 τ D m) p α).1 + δ)
      (Time.open (CK.new g g2 τ D m) p α).2 = .ok false :=
  SKZG.wrong_value_rejected g g2 τ D m hD hm p α δ hp vk hvk hg hg2 hδ

/-- the verifier key derived from the *stream* key decides single-point claims the same way -/
theorem verify_stream_key_iff (g g2 τ : F) (D m : Nat) (hD : 1 ≤ D) (hm : 1 ≤ m) (p : List F)
    (α δ : F) (hp : p.length ≤ D + 1) (vk : VK F)
    (hvk : VK.ofSpace (CKS.ofTime (CK.new g g2 τ D m)) = .ok vk) :
    verify vk (Time.commit (CK.new g g2 τ D m) p) α ((Time.open (CK.new g g2 τ D m) p α).1 + δ)
      (Time.open (CK.new g g2 τ D m) p α).2 = .ok true ↔ g * g2 * δ = 0 :=
  SKZG.verify_stream_key_iff g g2 τ D m hD hm p α δ hp vk hvk

example : VK.ofTime (CK.new (3 : K) 5 7 6 2) = .ok ⟨[3, 21], [5, 35, 43]⟩ := by decide
example : verify (⟨[3, 21], [5, 35, 43]⟩ : VK K) (Time.commit (CK.new (3 : K) 5 7 6 2) [4, 9, 2, 77, 5])
    11 95 72 = .ok true := by decide
example : verify (⟨[3, 21], [5, 35, 43]⟩ : VK K) (Time.commit (CK.new (3 : K) 5 7 6 2) [4, 9, 2, 77, 5])
    11 (95 + 1) 72 = .ok false := by decide
example : (3 : K) ≠ 0 ∧ (5 : K) ≠ 0 ∧ (1 : K) ≠ 0 := by decide

/-! ### multi-point / multi-polynomial openings -/

/-- **`CommitterKeyStream::open_multi_points` returns the proof of `CommitterKey::open_multi_points`**:
the sliding-window division of the stream and the schoolbook division of the coefficient vector by
the vanishing polynomial commit to the same quotient — for EVERY coefficient list (shorter than the
point set, with zero leading coefficients, …), every non-empty point list (distinct or not) and
every key (any G1 list) with at least as many elements as coefficients. -/
theorem space_open_multi_points_eq_time (ck : CK F) (p pts : List F) (hm : 1 ≤ pts.length)
    (hL : p.length ≤ ck.powersOfG.length) :
    ∃ r, Space.openMultiPoints (CKS.ofTime ck) p.reverse pts = .ok r
      ∧ Time.openMultiPoints ck p pts = .ok r.2 :=
  SKZG.space_openMulti_proof_eq_time ck p pts hm hL

/-- **The remainder the streaming prover returns** has one entry per point and, read as a
big-endian polynomial, takes the value `p(a)` at every evaluation point `a` (it is `p mod Z`; the
time-efficient prover returns no remainder). -/
theorem space_open_multi_points_remainder (ck : CK F) (p pts : List F) (hm : 1 ≤ pts.length)
    (hL : p.length ≤ ck.powersOfG.length) (r : List F × F)
    (h : Space.openMultiPoints (CKS.ofTime ck) p.reverse pts = .ok r) :
    r.1.length = pts.length ∧ ∀ a ∈ pts, evalPoly r.1.reverse a = evalPoly p a :=
  SKZG.space_openMulti_remainder ck p pts hm hL r h

/-- **Completeness of `verify_multi_points`.** Key made by `CommitterKey::new(D, m)` with `m ≤ D`,
at most `m` distinct points, a non-empty list of polynomials with at most `D+1` coefficients, any
batching challenge `η`: the batched proof of `batch_open_multi_points` is accepted together with the
commitments of `batch_commit` and the true evaluations — by the verifier key derived from the
committer key and by the one derived from the stream key. -/
theorem verify_multi_points_complete (g g2 τ : F) (D m : Nat) (ps : List (List F)) (pts : List F)
    (η π : F) (hps : ps ≠ []) (hlen : ∀ p ∈ ps, p.length ≤ D + 1) (hnd : pts.Nodup)
    (hm : pts.length ≤ m) (hD : m ≤ D)
    (hπ : Time.batchOpenMultiPoints (CK.new g g2 τ D m) ps pts η = .ok π) (vk : VK F)
    (hvk : VK.ofTime (CK.new g g2 τ D m) = .ok vk
      ∨ VK.ofSpace (CKS.ofTime (CK.new g g2 τ D m)) = .ok vk) :
    verifyMultiPoints vk (Time.batchCommit (CK.new g g2 τ D m) ps) pts
      (ps.map (fun p => pts.map (evalPoly p))) π η = .ok true :=
  SKZG.verifyMulti_new_complete g g2 τ D m ps pts η π hps hlen hnd hm hD hπ vk hvk

/-- **`verify_multi_points` decides exactly the claim.** Same setting, arbitrary claimed evaluation
vectors (one per polynomial): accepted iff `g·g2·(I_claimed(τ) − I_true(τ)) = 0`, where `I` is the
η-combination of the Lagrange interpolants of the evaluation vectors over the points
(`SKZG.interpAt`).  (`I_claimed − I_true` is a polynomial of degree `< m` in `τ`; it is the zero
polynomial only if the η-combinations of the claimed and true vectors coincide.) -/
theorem verify_multi_points_iff (g g2 τ : F) (D m : Nat) (ps : List (List F)) (pts : List F)
    (claimed : List (List F)) (η π : F) (hps : ps ≠ []) (hlen : ∀ p ∈ ps, p.length ≤ D + 1)
    (hnd : pts.Nodup) (hm : pts.length ≤ m) (hD : m ≤ D) (hcl : claimed.length = ps.length)
    (hπ : Time.batchOpenMultiPoints (CK.new g g2 τ D m) ps pts η = .ok π) (vk : VK F)
    (hvk : VK.ofTime (CK.new g g2 τ D m) = .ok vk
      ∨ VK.ofSpace (CKS.ofTime (CK.new g g2 τ D m)) = .ok vk) :
    verifyMultiPoints vk (Time.batchCommit (CK.new g g2 τ D m) ps) pts claimed π η = .ok true
      ↔ g * g2 * (interpAt pts claimed η τ
          - interpAt pts (ps.map (fun p => pts.map (evalPoly p))) η τ) = 0 :=
  SKZG.verifyMulti_new_iff g g2 τ D m ps pts claimed η π hps hlen hnd hm hD hcl hπ vk hvk

example : Space.openMultiPoints (CKS.ofTime (CK.new (3 : K) 5 7 8 3)) ([4, 9, 2, 77, 5] : List K).reverse
    [2, 3, 10] = .ok ([83, 79, 34], 56) := by decide
-- (`decide +kernel`: the field inverse of `ZMod 101` is evaluated by the kernel)
example : Time.openMultiPoints (CK.new (3 : K) 5 7 8 3) [4, 9, 2, 77, 5] [2, 3, 10] = .ok 56 := by
  decide +kernel
example : Space.openMultiPoints (CKS.ofTime (CK.new (3 : K) 5 7 8 3)) ([4, 9] : List K).reverse
    [2, 3, 10] = .ok ([0, 9, 4], 0) := by decide
example : Time.batchOpenMultiPoints (CK.new (3 : K) 5 7 8 3) [[4, 9, 2, 77, 5], [1, 0, 6, 8, 0, 0]]
    [2, 3, 10] 13 = .ok 65 := by decide +kernel
example : VK.ofSpace (CKS.ofTime (CK.new (3 : K) 5 7 8 3)) = .ok ⟨[3, 21, 46], [5, 35, 43, 99]⟩ := by
  decide
example : verifyMultiPoints (⟨[3, 21, 46], [5, 35, 43, 99]⟩ : VK K) [98, 27] [2, 3, 10]
    [[19, 8, 34], [89, 69, 16]] 65 13 = .ok true := by decide +kernel
example : verifyMultiPoints (⟨[3, 21, 46], [5, 35, 43, 99]⟩ : VK K) [98, 27] [2, 3, 10]
    [[19, 8, 34], [89, 70, 16]] 65 13 = .ok false := by decide +kernel
example : ([2, 3, 10] : List K).Nodup := by decide

end PCV.C14
