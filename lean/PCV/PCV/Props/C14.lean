/-
  Property C14 — streaming KZG: the space-efficient (streaming) committer and prover return exactly
  what the time-efficient ones return, a polynomial with more coefficients than the key has powers is
  refused by all of them (fix D24: never committed or opened as its truncation), the verifier accepts
  the true evaluations and nothing else, and the folded-polynomial iterators enumerate the successive
  foldings.
  Only property theorems live here; lemmas are in PCV/Proofs/StreamKZG{,Multi,Verify}.lean and
  PCV/Proofs/Fold{,Commit}.lean.

  Reading of the model: `SKZG.CK.new g g2 τ D m` is the key `CommitterKey::new(D, m, rng)` makes from
  its three draws; `CKS.ofTime ck` is `CommitterKeyStream::from(&ck)` (`Reverse` of the powers), a
  streamed polynomial is the reversed coefficient list.  The MSM buffer size does not occur: it only
  splits a sum into chunks.
-/
import PCV.Proofs.StreamKZGVerify
import PCV.Proofs.StreamKZGExtract
import PCV.Proofs.FoldCommit
import PCV.Props.Examples

namespace PCV.C14
open PCV PCV.SKZG
variable {F : Type} [Field F]

/-! ### single point: time = space -/

/-- **`CommitterKeyStream::open` = `CommitterKey::open`** (evaluation *and* proof) for EVERY
coefficient list, every point and every key (any list of G1 elements, well-formed or not) with at
least as many elements as the polynomial has coefficients: both answer, and the same. -/
theorem space_open_eq_time_open (ck : CK F) (p : List F) (α : F)
    (h : p.length ≤ ck.powersOfG.length) :
    ∃ o, Space.open (CKS.ofTime ck) p.reverse α = .ok o ∧ Time.open ck p α = .ok o :=
  ⟨_, (SKZG.space_open_eq_time_open ck p α h).trans (SKZG.time_open_eq ck p α h),
    SKZG.time_open_eq ck p α h⟩

/-- … and with a shorter key the streaming prover aborts (an assertion since fix D24, the `usize`
underflow of the skip before it) instead of answering. -/
theorem space_open_refuses_short_key (ck : CK F) (p : List F) (α : F)
    (h : ck.powersOfG.length < p.length) :
    Space.open (CKS.ofTime ck) p.reverse α = .error .abort :=
  SKZG.space_open_abort ck p α h

/-- **`CommitterKeyStream::commit` = `CommitterKey::commit`** under the same condition: both answer,
and the same. -/
theorem space_commit_eq_time_commit (ck : CK F) (p : List F)
    (h : p.length ≤ ck.powersOfG.length) :
    ∃ c, Space.commit (CKS.ofTime ck) p.reverse = .ok c ∧ Time.commit ck p = .ok c :=
  ⟨_, (SKZG.space_commit_eq_time_commit ck p h).trans (SKZG.time_commit_eq ck p h),
    SKZG.time_commit_eq ck p h⟩

/-- What both provers return: the evaluation `p(α)` and the MSM of the synthetic-division
quotient. -/
theorem time_open_spec (ck : CK F) (p : List F) (α : F) (h : p.length ≤ ck.powersOfG.length) :
    Time.open ck p α = .ok (evalPoly p α, dot ck.powersOfG (divLin p α).1) :=
  SKZG.time_open_eq ck p α h

/-- What both committers return: the MSM of the coefficients with the key. -/
theorem time_commit_spec (ck : CK F) (p : List F) (h : p.length ≤ ck.powersOfG.length) :
    Time.commit ck p = .ok (dot ck.powersOfG p) :=
  SKZG.time_commit_eq ck p h

/-- `batch_commit` is `commit` on every polynomial, when none is oversize. -/
theorem time_batch_commit_spec (ck : CK F) (ps : List (List F))
    (h : ∀ p ∈ ps, p.length ≤ ck.powersOfG.length) :
    Time.batchCommit ck ps = .ok (ps.map (dot ck.powersOfG)) :=
  SKZG.time_batchCommit_eq ck ps h

example : Space.open (CKS.ofTime (CK.new (3 : K) 5 7 6 2)) ([4, 9, 2, 77, 5] : List K).reverse 11
    = Time.open (CK.new (3 : K) 5 7 6 2) [4, 9, 2, 77, 5] 11 := by decide
example : Time.open (CK.new (3 : K) 5 7 6 2) [4, 9, 2, 77, 5] 11 = .ok (95, 72) := by decide
example : Time.commit (CK.new (3 : K) 5 7 6 2) [4, 9, 2, 77, 5] = .ok 98 := by decide
example : Time.batchCommit (CK.new (3 : K) 5 7 8 3) [[4, 9, 2, 77, 5], [1, 0, 6, 8, 0, 0]]
    = .ok [98, 27] := by decide
example : Space.open (CKS.ofTime (CK.new (3 : K) 5 7 3 2)) ([4, 9, 2, 77, 5] : List K).reverse 11
    = .error .abort := by decide

/-! ### an oversize polynomial is refused, never truncated (fix D24) -/

/-- **`CommitterKey::commit` refuses a polynomial longer than the key** (before the fix the MSM dropped
the coefficients without a power and the commitment was the one of the truncated polynomial, which
opens to the truncation's evaluations, not the polynomial's). -/
theorem time_commit_refuses_oversize (ck : CK F) (p : List F)
    (h : ck.powersOfG.length < p.length) :
    Time.commit ck p = .error .abort :=
  SKZG.time_commit_abort ck p h

/-- … and `batch_commit` refuses the whole batch when one of its polynomials is. -/
theorem time_batch_commit_refuses_oversize (ck : CK F) (ps : List (List F))
    (h : ∃ p ∈ ps, ck.powersOfG.length < p.length) :
    Time.batchCommit ck ps = .error .abort :=
  SKZG.time_batchCommit_abort ck ps h

/-- **`CommitterKey::open` refuses a polynomial longer than the key** (before the fix the evaluation was
the polynomial's and the proof the commitment of the truncated quotient). -/
theorem time_open_refuses_oversize (ck : CK F) (p : List F) (α : F)
    (h : ck.powersOfG.length < p.length) :
    Time.open ck p α = .error .abort :=
  SKZG.time_open_abort ck p α h

/-- since the fix the time- and the space-efficient committer and single-point prover agree on EVERY
input, the refused ones included -/
theorem space_eq_time_everywhere (ck : CK F) (p : List F) (α : F) :
    Space.commit (CKS.ofTime ck) p.reverse = Time.commit ck p
      ∧ Space.open (CKS.ofTime ck) p.reverse α = Time.open ck p α :=
  ⟨SKZG.space_commit_eq_time_commit_all ck p, SKZG.space_open_eq_time_open_all ck p α⟩

-- a key for degree 3 (four powers) and a polynomial with five coefficients
example : (CK.new (3 : K) 5 7 3 2).powersOfG.length < ([4, 9, 2, 77, 5] : List K).length := by decide
example : Time.commit (CK.new (3 : K) 5 7 3 2) [4, 9, 2, 77, 5] = .error .abort := by decide
example : Time.batchCommit (CK.new (3 : K) 5 7 3 2) [[4, 9], [4, 9, 2, 77, 5]] = .error .abort := by
  decide
example : Time.open (CK.new (3 : K) 5 7 3 2) [4, 9, 2, 77, 5] 11 = .error .abort := by decide
-- high-order zeros count: the assertion is on the length of the slice
example : Time.commit (CK.new (3 : K) 5 7 3 2) [4, 9, 2, 77, 0] = .error .abort := by decide

/-! ### single point: the verifier -/

variable [DecidableEq F]

/-- **Completeness of `verify`.** For a key made by `CommitterKey::new` from any `g, g2, τ` with
`D ≥ 1` and at least one evaluation point, any polynomial with at most `D+1` coefficients and any
point: the verifier key derived from the committer key accepts the commitment, the evaluation and
the proof the (time- or, by the theorems above, space-efficient) prover returns. -/
theorem verify_open_complete (g g2 τ : F) (D m : Nat) (hD : 1 ≤ D) (hm : 1 ≤ m) (p : List F) (α : F)
    (hp : p.length ≤ D + 1) (vk : VK F) (hvk : VK.ofTime (CK.new g g2 τ D m) = .ok vk) :
    ∃ c o, Time.commit (CK.new g g2 τ D m) p = .ok c ∧ Time.open (CK.new g g2 τ D m) p α = .ok o
      ∧ verify vk c α o.1 o.2 = .ok true :=
  ⟨_, _, SKZG.time_commit_new g g2 τ D m p hp, SKZG.time_open_new g g2 τ D m p α hp,
    SKZG.verify_open_complete g g2 τ D m hD hm p α hp vk hvk _ _
      (SKZG.time_commit_new g g2 τ D m p hp) (SKZG.time_open_new g g2 τ D m p α hp)⟩

/-- **`verify` decides exactly the claim.** Same setting; the value is shifted by an arbitrary `δ`:
accepted iff `g·g2·δ = 0`. -/
theorem verify_iff (g g2 τ : F) (D m : Nat) (hD : 1 ≤ D) (hm : 1 ≤ m) (p : List F) (α δ : F)
    (hp : p.length ≤ D + 1) (vk : VK F) (hvk : VK.ofTime (CK.new g g2 τ D m) = .ok vk)
    (c : F) (o : F × F) (hc : Time.commit (CK.new g g2 τ D m) p = .ok c)
    (ho : Time.open (CK.new g g2 τ D m) p α = .ok o) :
    verify vk c α (o.1 + δ) o.2 = .ok true ↔ g * g2 * δ = 0 :=
  SKZG.verify_iff g g2 τ D m hD hm p α δ hp vk hvk c o hc ho

/-- **A wrong value is rejected**: with non-trivial generators, `value + δ`, `δ ≠ 0`, is never
accepted with the honest proof. -/
theorem wrong_value_rejected (g g2 τ : F) (D m : Nat) (hD : 1 ≤ D) (hm : 1 ≤ m) (p : List F)
    (α δ : F) (hp : p.length ≤ D + 1) (vk : VK F) (hvk : VK.ofTime (CK.new g g2 τ D m) = .ok vk)
    (hg : g ≠ 0) (hg2 : g2 ≠ 0) (hδ : δ ≠ 0)
    (c : F) (o : F × F) (hc : Time.commit (CK.new g g2 τ D m) p = .ok c)
    (ho : Time.open (CK.new g g2 τ D m) p α = .ok o) :
    verify vk c α (o.1 + δ) o.2 = .ok false :=
  SKZG.wrong_value_rejected g g2 τ D m hD hm p α δ hp vk hvk hg hg2 hδ c o hc ho

/-- **A key without `τ·g2` verifies nothing** (fix D22): with fewer than two G2 powers — a key made for zero
evaluation points — or without a G1 power, `verify` rejects every claim, true or false, whatever the proof
(before the fix the truncated MSM left `−α·g2` and `π = −(C − v·g)/α` proved any value `v`). -/
theorem verify_degenerate_key_rejects (vk : VK F) (c α v π : F)
    (h : vk.powersOfG2.length < 2 ∨ vk.powersOfG.length = 0) :
    verify vk c α v π = .ok false := by
  unfold verify
  rw [if_pos h]

example : verify (⟨[3], [5]⟩ : VK K) 7 2 9 11 = .ok false := by decide

/-- the verifier key derived from the *stream* key decides single-point claims the same way -/
theorem verify_stream_key_iff (g g2 τ : F) (D m : Nat) (hD : 1 ≤ D) (hm : 1 ≤ m) (p : List F)
    (α δ : F) (hp : p.length ≤ D + 1) (vk : VK F)
    (hvk : VK.ofSpace (CKS.ofTime (CK.new g g2 τ D m)) = .ok vk)
    (c : F) (o : F × F) (hc : Time.commit (CK.new g g2 τ D m) p = .ok c)
    (ho : Time.open (CK.new g g2 τ D m) p α = .ok o) :
    verify vk c α (o.1 + δ) o.2 = .ok true ↔ g * g2 * δ = 0 :=
  SKZG.verify_stream_key_iff g g2 τ D m hD hm p α δ hp vk hvk c o hc ho

example : VK.ofTime (CK.new (3 : K) 5 7 6 2) = .ok ⟨[3, 21], [5, 35, 43]⟩ := by decide
-- (the commitment `98` and the opening `(95, 72)` are the ones of the examples above)
example : verify (⟨[3, 21], [5, 35, 43]⟩ : VK K) 98 11 95 72 = .ok true := by decide
example : verify (⟨[3, 21], [5, 35, 43]⟩ : VK K) 98 11 (95 + 1) 72 = .ok false := by decide
example : (3 : K) ≠ 0 ∧ (5 : K) ≠ 0 ∧ (1 : K) ≠ 0 := by decide

/-! ### multi-point / multi-polynomial openings -/

/-- **`CommitterKeyStream::open_multi_points` returns the proof of `CommitterKey::open_multi_points`**:
the sliding-window division of the stream and the schoolbook division of the coefficient vector by
the vanishing polynomial commit to the same quotient — for EVERY coefficient list (shorter than the
point set, with zero leading coefficients, …), every non-empty point list (distinct or not) and
every key (any G1 list) with at least as many elements as coefficients. -/
theorem space_open_multi_points_eq_time (ck : CK F) (p pts : List F) (hm : 1 ≤ pts.length)
    (hL : p.length ≤ ck.powersOfG.length) :
    ∃ r, Space.openMultiPoints (CKS.ofTime ck) p.reverse pts = .ok r
      ∧ Time.openMultiPoints ck p pts = .ok r.2 :=
  SKZG.space_openMulti_proof_eq_time ck p pts hm hL

/-- **`CommitterKey::open_multi_points` refuses a polynomial longer than the key** (fix D24; before it
the quotient was committed as its truncation), whatever the points. -/
theorem time_open_multi_points_refuses_oversize (ck : CK F) (p pts : List F)
    (h : ck.powersOfG.length < p.length) :
    Time.openMultiPoints ck p pts = .error .abort :=
  SKZG.time_openMulti_abort ck p pts h

/-- … and `batch_open_multi_points` through it, when the η-combination of the polynomials — as the
`DensePolynomial` the code forms, i.e. without high-order zero coefficients — is longer than the key. -/
theorem time_batch_open_multi_points_refuses_oversize (ck : CK F) (ps : List (List F))
    (pts b : List F) (η : F) (hb : linearCombination ps (powersOf η ps.length) = some b)
    (h : ck.powersOfG.length < (pnorm b).length) :
    Time.batchOpenMultiPoints ck ps pts η = .error .abort :=
  SKZG.time_batchOpenMulti_abort ck ps pts b η hb h

example : Time.openMultiPoints (CK.new (3 : K) 5 7 3 3) [4, 9, 2, 77, 5] [2, 3, 10] = .error .abort := by
  decide
example : linearCombination ([[4, 9, 2, 77, 5], [1, 0, 6]] : List (List K)) (powersOf 13 2)
    = some [17, 9, 80, 77, 5] := by decide
example : (CK.new (3 : K) 5 7 3 3).powersOfG.length < (pnorm ([17, 9, 80, 77, 5] : List K)).length := by
  decide
example : Time.batchOpenMultiPoints (CK.new (3 : K) 5 7 3 3) [[4, 9, 2, 77, 5], [1, 0, 6]] [2, 3, 10] 13
    = .error .abort := by decide
-- high-order zeros of the combination do not count (the `DensePolynomial` drops them) …
example : Time.batchOpenMultiPoints (CK.new (3 : K) 5 7 3 3) [[4, 9, 2, 77, 0, 0]] [2, 3, 10] 13
    = .ok 29 := by decide +kernel
-- … but those of the slice handed to `open_multi_points` itself do
example : Time.openMultiPoints (CK.new (3 : K) 5 7 3 3) [4, 9, 2, 77, 0, 0] [2, 3, 10] = .error .abort := by
  decide

omit [DecidableEq F] in
/-- **The remainder the streaming prover returns** has one entry per point and, read as a
big-endian polynomial, takes the value `p(a)` at every evaluation point `a` (it is `p mod Z`; the
time-efficient prover returns no remainder). -/
theorem space_open_multi_points_remainder (ck : CK F) (p pts : List F) (hm : 1 ≤ pts.length)
    (hL : p.length ≤ ck.powersOfG.length) (r : List F × F)
    (h : Space.openMultiPoints (CKS.ofTime ck) p.reverse pts = .ok r) :
    r.1.length = pts.length ∧ ∀ a ∈ pts, evalPoly r.1.reverse a = evalPoly p a :=
  SKZG.space_openMulti_remainder ck p pts hm hL r h

/-- **Completeness of `verify_multi_points`.** Key made by `CommitterKey::new(D, m)` with `m ≤ D`,
at most `m` distinct points, a non-empty list of polynomials with at most `D+1` coefficients, any
batching challenge `η`: the batched proof of `batch_open_multi_points` is accepted together with the
commitments of `batch_commit` and the true evaluations — by the verifier key derived from the
committer key and by the one derived from the stream key. -/
theorem verify_multi_points_complete (g g2 τ : F) (D m : Nat) (ps : List (List F)) (pts : List F)
    (η π : F) (hps : ps ≠ []) (hlen : ∀ p ∈ ps, p.length ≤ D + 1) (hnd : pts.Nodup)
    (hm : pts.length ≤ m) (hD : m ≤ D)
    (hπ : Time.batchOpenMultiPoints (CK.new g g2 τ D m) ps pts η = .ok π) (vk : VK F)
    (hvk : VK.ofTime (CK.new g g2 τ D m) = .ok vk
      ∨ VK.ofSpace (CKS.ofTime (CK.new g g2 τ D m)) = .ok vk) :
    ∃ cs, Time.batchCommit (CK.new g g2 τ D m) ps = .ok cs
      ∧ verifyMultiPoints vk cs pts (ps.map (fun p => pts.map (evalPoly p))) π η = .ok true :=
  ⟨_, SKZG.time_batchCommit_new g g2 τ D m ps hlen,
    SKZG.verifyMulti_new_complete g g2 τ D m ps pts η π hps hlen hnd hm hD hπ vk hvk _
      (SKZG.time_batchCommit_new g g2 τ D m ps hlen)⟩

/-- **`verify_multi_points` decides exactly the claim.** Same setting, arbitrary claimed evaluation
vectors (one per polynomial): accepted iff `g·g2·(I_claimed(τ) − I_true(τ)) = 0`, where `I` is the
η-combination of the Lagrange interpolants of the evaluation vectors over the points
(`SKZG.interpAt`).  (`I_claimed − I_true` is a polynomial of degree `< m` in `τ`; it is the zero
polynomial only if the η-combinations of the claimed and true vectors coincide.) -/
theorem verify_multi_points_iff (g g2 τ : F) (D m : Nat) (ps : List (List F)) (pts : List F)
    (claimed : List (List F)) (η π : F) (hps : ps ≠ []) (hlen : ∀ p ∈ ps, p.length ≤ D + 1)
    (hnd : pts.Nodup) (hm : pts.length ≤ m) (hD : m ≤ D) (hcl : claimed.length = ps.length)
    (hrows : ∀ e ∈ claimed, e.length = pts.length)
    (hπ : Time.batchOpenMultiPoints (CK.new g g2 τ D m) ps pts η = .ok π) (vk : VK F)
    (hvk : VK.ofTime (CK.new g g2 τ D m) = .ok vk
      ∨ VK.ofSpace (CKS.ofTime (CK.new g g2 τ D m)) = .ok vk)
    (cs : List F) (hcs : Time.batchCommit (CK.new g g2 τ D m) ps = .ok cs) :
    verifyMultiPoints vk cs pts claimed π η = .ok true
      ↔ g * g2 * (interpAt pts claimed η τ
          - interpAt pts (ps.map (fun p => pts.map (evalPoly p))) η τ) = 0 :=
  SKZG.verifyMulti_new_iff g g2 τ D m ps pts claimed η π hps hlen hnd hm hD hcl hrows hπ vk hvk cs hcs

/-- **Out of the verifier key's domain: refused.** More evaluation points than the key was made for,
or an evaluation table that does not have one row per commitment and one entry per point, is rejected
whatever proof and values are presented (the repair of D20: the multi-scalar multiplications would
otherwise truncate the vanishing polynomial and the interpolant, and the truncated equation can be
satisfied with false evaluations computed from public data). -/
theorem verify_multi_points_out_of_shape (vk : VK F) (comms pts : List F) (evals : List (List F))
    (π η : F)
    (h : pts.length ≥ vk.powersOfG2.length ∨ pts.length > vk.powersOfG.length ∨
      comms.length ≠ evals.length ∨ ∃ e ∈ evals, e.length ≠ pts.length) :
    verifyMultiPoints vk comms pts evals π η = .ok false :=
  SKZG.verifyMulti_out_of_shape_refused vk comms pts evals π η h

/-- non-vacuity: a key for one point (two G2 powers) presented with two points -/
example : verifyMultiPoints (⟨[3], [5, 10]⟩ : VK K) [7] [4, 9] [[1, 2]] 6 1 = .ok false := by decide

/-- **A changed evaluation is rejected by `verify_multi_points`**: the value of polynomial `a` at
point `b` shifted by `δ ≠ 0` (`SKZG.bumpAt`), non-trivial generators, batching challenge `η ≠ 0`
and a trapdoor outside the point set (`τ ∈ pts` would make the Lagrange basis polynomial of another
point vanish at `τ`): the honest batched proof is not accepted, with either verifier key. -/
theorem wrong_multi_value_rejected (g g2 τ : F) (D m : Nat) (ps : List (List F)) (pts : List F)
    (η π δ : F) (a b : Nat) (hps : ps ≠ []) (hlen : ∀ p ∈ ps, p.length ≤ D + 1) (hnd : pts.Nodup)
    (hm : pts.length ≤ m) (hD : m ≤ D)
    (hπ : Time.batchOpenMultiPoints (CK.new g g2 τ D m) ps pts η = .ok π) (vk : VK F)
    (hvk : VK.ofTime (CK.new g g2 τ D m) = .ok vk
      ∨ VK.ofSpace (CKS.ofTime (CK.new g g2 τ D m)) = .ok vk)
    (ha : a < ps.length) (hb : b < pts.length) (hg : g ≠ 0) (hg2 : g2 ≠ 0) (hη : η ≠ 0)
    (hδ : δ ≠ 0) (hτ : τ ∉ pts)
    (cs : List F) (hcs : Time.batchCommit (CK.new g g2 τ D m) ps = .ok cs) :
    verifyMultiPoints vk cs pts
      (bumpAt (ps.map (fun p => pts.map (evalPoly p))) a b δ) π η = .ok false :=
  SKZG.verifyMulti_new_reject g g2 τ D m ps pts η π δ a b hps hlen hnd hm hD hπ vk hvk ha hb hg hg2
    hη hδ hτ cs hcs

example : bumpAt ([[19, 8, 34], [89, 69, 16]] : List (List K)) 1 1 1 = [[19, 8, 34], [89, 70, 16]] := by
  decide
example : (7 : K) ∉ ([2, 3, 10] : List K) ∧ (13 : K) ≠ 0 := by decide

example : Space.openMultiPoints (CKS.ofTime (CK.new (3 : K) 5 7 8 3)) ([4, 9, 2, 77, 5] : List K).reverse
    [2, 3, 10] = .ok ([83, 79, 34], 56) := by decide
-- (`decide +kernel`: the field inverse of `ZMod 101` is evaluated by the kernel)
example : Time.openMultiPoints (CK.new (3 : K) 5 7 8 3) [4, 9, 2, 77, 5] [2, 3, 10] = .ok 56 := by
  decide +kernel
example : Space.openMultiPoints (CKS.ofTime (CK.new (3 : K) 5 7 8 3)) ([4, 9] : List K).reverse
    [2, 3, 10] = .ok ([0, 9, 4], 0) := by decide
example : Time.batchOpenMultiPoints (CK.new (3 : K) 5 7 8 3) [[4, 9, 2, 77, 5], [1, 0, 6, 8, 0, 0]]
    [2, 3, 10] 13 = .ok 65 := by decide +kernel
example : VK.ofSpace (CKS.ofTime (CK.new (3 : K) 5 7 8 3)) = .ok ⟨[3, 21, 46], [5, 35, 43, 99]⟩ := by
  decide
example : verifyMultiPoints (⟨[3, 21, 46], [5, 35, 43, 99]⟩ : VK K) [98, 27] [2, 3, 10]
    [[19, 8, 34], [89, 69, 16]] 65 13 = .ok true := by decide +kernel
example : verifyMultiPoints (⟨[3, 21, 46], [5, 35, 43, 99]⟩ : VK K) [98, 27] [2, 3, 10]
    [[19, 8, 34], [89, 70, 16]] 65 13 = .ok false := by decide +kernel
example : ([2, 3, 10] : List K).Nodup := by decide

/-- **Streaming KZG, algebraic forger against `verify`.**  `C = g·p(τ)`, any proof element built from the
published powers, `π = Σ aᵢ·(τⁱg)`, any claimed value: acceptance is exactly "the trapdoor is a root of
`p − v − a·(X − α)`", which for a false value is a non-zero polynomial (value `p(α) − v` at `α`). -/
theorem single_point_algebraic_forgery_reveals_trapdoor (g g2 τ : F) (a' b : Nat) (ha : 1 ≤ a')
    (hb : 2 ≤ b) (p a : List F) (α v : F) (hg : g ≠ 0) (hg2 : g2 ≠ 0) (hv : v ≠ evalPoly p α)
    (hacc : verify ⟨PCV.powers g τ a', PCV.powers g2 τ b⟩ (g * evalPoly p τ) α v (g * evalPoly a τ)
      = .ok true) :
    evalPoly (KZG.extractPoly p a α v) τ = 0 ∧ evalPoly (KZG.extractPoly p a α v) α ≠ 0 := by
  refine ⟨(SKZG.single_forgery_root g g2 τ a' b ha hb p a α v hg hg2).1 hacc, ?_⟩
  rw [KZG.eval_extractPoly]
  simp only [sub_self, mul_zero, sub_zero]
  exact fun h0 => hv (sub_eq_zero.1 h0).symm

/-- … counted: all but at most `max(|p|, |a|+1) − 1` trapdoors refuse a false value -/
theorem single_point_algebraic_forgery_exceptional_set (p a : List F) (α v : F) (hv : v ≠ evalPoly p α) :
    ∃ S : Finset F, S.card ≤ max (max p.length 1) (a.length + 1) - 1 ∧
      ∀ (g g2 τ : F) (a' b : Nat), g ≠ 0 → g2 ≠ 0 → 1 ≤ a' → 2 ≤ b → τ ∉ S →
        verify ⟨PCV.powers g τ a', PCV.powers g2 τ b⟩ (g * evalPoly p τ) α v (g * evalPoly a τ)
          ≠ .ok true :=
  SKZG.single_forgery_exceptional_set p a α v hv

/-! ### multi-point verifier against ANY proof element an algebraic prover can form -/

/-- **Streaming KZG, algebraic forger against `verify_multi_points`.**  Honest commitments, a well-formed
key, distinct points, ANY claimed table of the right shape, and ANY proof element of the form
`π = Σ aᵢ·(τⁱg)` (every element a prover can build from the published key): acceptance is the single
relation `Σ ηⁱpᵢ(τ) − I_η(τ) − a(τ)·Z(τ) = 0`, whose left-hand side, as a polynomial in the trapdoor, takes
at the `j`-th evaluation point the η-combination of the errors of column `j` of the claimed table.  So if
that combined error is non-zero, the accepted forgery exhibits a non-zero polynomial of known coefficients
with the trapdoor as a root. -/
theorem multi_points_algebraic_forgery_reveals_trapdoor (g g2 τ : F) (a' b : Nat) (ps : List (List F))
    (pts : List F) (evals : List (List F)) (a : List F) (η : F) (hg : g ≠ 0) (hg2 : g2 ≠ 0)
    (hnd : pts.Nodup) (ha : pts.length ≤ a') (hb : pts.length + 1 ≤ b) (hev : evals ≠ [])
    (hcl : ps.length = evals.length) (hrows : ∀ e ∈ evals, e.length = pts.length)
    (hacc : verifyMultiPoints ⟨PCV.powers g τ a', PCV.powers g2 τ b⟩
      (ps.map (fun p => g * evalPoly p τ)) pts evals (g * evalPoly a τ) η = .ok true) :
    forgeFun ps pts evals a η τ = 0 ∧
      ∀ j (hj : j < pts.length), forgeFun ps pts evals a η pts[j] = colErr ps evals η pts[j] j :=
  ⟨(SKZG.multi_forgery_root g g2 τ a' b ps pts evals a η hg hg2 hnd ha hb hev hcl hrows).1 hacc,
   fun j hj => SKZG.forgeFun_at_point ps pts evals a η hnd hrows j hj⟩

/-- … counted over trapdoors: for fixed polynomials (length ≤ `n`), points, table, challenge and forger
coefficients with a non-zero combined error in some column, all but at most
`max(n, m, |a| + m + 1) − 1` trapdoors refuse the forgery (`m` points). -/
theorem multi_points_algebraic_forgery_exceptional_set (ps : List (List F)) (pts : List F)
    (evals : List (List F)) (a : List F) (η : F) (n : Nat) (hps : ∀ p ∈ ps, p.length ≤ n)
    (hnd : pts.Nodup) (hev : evals ≠ []) (hcl : ps.length = evals.length)
    (hrows : ∀ e ∈ evals, e.length = pts.length) (j : Nat) (hj : j < pts.length)
    (herr : colErr ps evals η pts[j] j ≠ 0) :
    ∃ S : Finset F, S.card ≤ max (max n pts.length) (a.length + (pts.length + 1)) - 1 ∧
      ∀ (g g2 τ : F) (a' b : Nat), g ≠ 0 → g2 ≠ 0 → pts.length ≤ a' → pts.length + 1 ≤ b → τ ∉ S →
        verifyMultiPoints ⟨PCV.powers g τ a', PCV.powers g2 τ b⟩ (ps.map (fun p => g * evalPoly p τ))
          pts evals (g * evalPoly a τ) η ≠ .ok true :=
  SKZG.multi_forgery_exceptional_set ps pts evals a η n hps hnd hev hcl hrows j hj herr

/-- … and counted over batching challenges: ONE false entry (polynomial `i`, column `j`) makes the combined
error of that column non-zero for all but at most `(number of polynomials) − 1` values of `η`, however the
other entries of the table were chosen (errors planted to cancel included). -/
theorem multi_points_false_entry_survives_batching (ps : List (List F)) (evals : List (List F)) (z : F)
    (j : Nat) (hcl : ps.length = evals.length) (i : Nat) (hi : i < ps.length)
    (hfalse : evalPoly (ps.getD i []) z ≠ (evals.getD i []).getD j 0) :
    ∃ S : Finset F, S.card ≤ ps.length - 1 ∧ ∀ η, η ∉ S → colErr ps evals η z j ≠ 0 :=
  SKZG.colErr_exceptional_eta ps evals z j hcl i hi hfalse

-- non-vacuity: two polynomials, the table of the example above with one entry moved, η = 13:
-- the combined error of column 1 is non-zero
example : colErr ([[4, 9, 2, 77, 5], [1, 0, 6, 8, 0, 0]] : List (List K)) [[19, 8, 34], [89, 70, 16]] 13 3 1
    = 88 := by decide
example : evalPoly (([[4, 9, 2, 77, 5], [1, 0, 6, 8, 0, 0]] : List (List K)).getD 1 []) 3
    ≠ (([[19, 8, 34], [89, 70, 16]] : List (List K)).getD 1 []).getD 1 0 := by decide

/-! ### folded-polynomial iterators -/

open PCV.Fold

omit [DecidableEq F] in
/-- **`FoldedPolynomialTree` enumerates the successive foldings, for every length.**  For every
coefficient vector `cs` (little-endian; the iterator reads `cs.reverse`), every challenge list and
every level `1 ≤ i ≤ depth`: the items of level `i`, in the order the iterator yields them, are the
coefficients of `fold (… (fold cs u₀) …) u_{i-1}`, highest degree first — whether or not the length
is a multiple of `2^depth` (`init_stack` = zero padding). -/
theorem folded_tree_enumerates_fold (chal cs : List F) (i : Nat) (h1 : 1 ≤ i)
    (h2 : i ≤ chal.length) :
    Tree.level (Tree.toList cs.reverse chal) i = (foldAll cs (chal.take i)).reverse :=
  Fold.tree_level_eq_fold chal cs i h1 h2

omit [DecidableEq F] in
/-- … and the tree iterator yields nothing else: every item has a level in `1..depth` (so the base
polynomial is skipped and `challenges[level]` is always in range). -/
theorem folded_tree_levels_in_range (chal csBE : List F) :
    ∀ item ∈ Tree.toList csBE chal, 1 ≤ item.1 ∧ item.1 ≤ chal.length :=
  Fold.tree_items_levels chal csBE

omit [DecidableEq F] in
/-- **`FoldedPolynomialStream` enumerates the full folding, for every length** (depth 0: the
stream itself). -/
theorem folded_stream_enumerates_fold (chal cs : List F) :
    Stream.toList cs.reverse chal = (foldAll cs chal).reverse :=
  Fold.stream_eq_fold chal cs

omit [DecidableEq F] in
/-- **`commit_folding`** (the per-level skip `len(srs) − ⌈n/2ⁱ⌉` aligns level `i` with the SRS): the
commitments are the time-efficient commitments of the explicitly folded polynomials, for every
length, every depth and every key (any G1 list) at least as long as the input. -/
theorem commit_folding_eq_time (ck : CK F) (cs chal : List F) (h : cs.length ≤ ck.powersOfG.length) :
    ∃ cms, commitFolding (CKS.ofTime ck) cs.reverse chal = .ok cms
      ∧ Time.batchCommit ck (foldings cs chal) = .ok cms :=
  Fold.commitFolding_eq ck cs chal h

/-- **`open_folding`**: there are per-level results `R[j]` = what the streaming `open_multi_points`
returns on the `(j+1)`-fold folding (whose proof component is the time-efficient
`open_multi_points` proof) such that `open_folding` returns their remainders and the single proof
`Σⱼ etas[j]·R[j].proof`. -/
theorem open_folding_consistent (ck : CK F) (cs chal pts etas : List F) (hm : 1 ≤ pts.length)
    (hL : cs.length ≤ ck.powersOfG.length) (he : chal.length ≤ etas.length) :
    ∃ R : List (List F × F), R.length = chal.length ∧
      (∀ j (hj : j < R.length),
        Space.openMultiPoints (CKS.ofTime ck) (foldAll cs (chal.take (j + 1))).reverse pts = .ok R[j]
        ∧ Time.openMultiPoints ck (foldAll cs (chal.take (j + 1))) pts = .ok R[j].2) ∧
      openFolding (CKS.ofTime ck) cs.reverse chal pts etas
        = .ok (R.map (·.1),
            lsum ((List.range chal.length).map (fun j => etas.getD j 0 * (R.getD j ([], 0)).2))) :=
  Fold.openFolding_consistent ck cs chal pts etas hm hL he

example : Tree.toList ([1, 2, 3, 4, 5, 6, 7] : List K).reverse [2, 3]
    = [(1, 7), (1, 17), (2, 38), (1, 11), (1, 5), (2, 38)] := by decide
example : foldings ([1, 2, 3, 4, 5, 6, 7] : List K) [2, 3] = [[5, 11, 17, 7], [38, 38]] := by decide
example : Stream.toList ([1, 2, 3, 4, 5, 6, 7] : List K).reverse [2, 3] = [38, 38] := by decide
example : (initStack 5 3 : List (Nat × K)) = [(0, 0), (1, 0)] := by decide
example : commitFolding (CKS.ofTime (CK.new (3 : K) 5 7 8 3)) ([1, 2, 3, 4, 5, 6, 7] : List K).reverse [2, 3]
    = .ok [50, 3] := by decide
example : Time.batchCommit (CK.new (3 : K) 5 7 8 3) (foldings ([1, 2, 3, 4, 5, 6, 7] : List K) [2, 3])
    = .ok [50, 3] := by decide
example : openFolding (CKS.ofTime (CK.new (3 : K) 5 7 8 3)) ([1, 2, 3, 4, 5, 6, 7] : List K).reverse [2, 3]
    [2, 3, 10] [1, 13] = .ok ([[21, 23, 21], [0, 38, 38]], 21) := by decide

end PCV.C14
