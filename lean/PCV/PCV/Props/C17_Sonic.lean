/-
  Property C17 — out-of-domain requests are refused, never answered with a wrong result; in-domain
  requests never abort.  SonicKZG10: `trim`, `commit`, `open`, `check`, `batch_check`.
-/
import PCV.Proofs.SonicExamples

namespace PCV.C17
open PCV PCV.Sonic
open PCV.Marlin (Label LPoly Query groupQueries lookupLast lookupEval checkDegreesAndBounds)
variable {F : Type} [Field F] [DecidableEq F]

/-- **trim, outside the domain**: empty parameters; supported degree above `max_degree`; a bound
above the supported degree; a hiding bound beyond the γ-powers — each ends in an error. -/
theorem sonic_trim_refuses (pp : UParams F) (s shb : Nat) (bounds : Option (List Nat)) :
    (pp.powers = [] → trim pp s shb bounds = .error .abort) ∧
    (pp.powers ≠ [] → s > pp.powers.length - 1 → trim pp s shb bounds = .error .trimTooLarge) ∧
    (pp.powers ≠ [] → s ≤ pp.powers.length - 1 → (∃ l d, bounds = some l ∧ d ∈ l ∧ d > s) →
      trim pp s shb bounds = .error .unsupportedBound) ∧
    (shb + 2 > pp.gammaPowers.length → ∃ e, trim pp s shb bounds = .error e) := by
  refine ⟨fun h => trim_refuses_empty pp s shb bounds h,
    fun hp hs => trim_refuses_too_large pp s shb bounds hp hs, ?_,
    fun h => trim_refuses_hiding pp s shb bounds h⟩
  intro hp hs ⟨l, d, hb, hd, hds⟩
  rw [hb]; exact trim_refuses_bound pp s shb l d hp hs hd hds

/-- **trim, inside the domain** (trapdoor-made parameters): answered, no abort. -/
theorem sonic_trim_ok (g γ β bi h : F) (D s shb : Nat) (bounds : Option (List Nat))
    (hs : s ≤ D) (hshb : shb ≤ D) (hb : ∀ l, bounds = some l → ∀ d ∈ l, d ≤ s) :
    ∃ ck vk, trim (wfPP g γ β bi h D) s shb bounds = .ok (ck, vk) :=
  trim_ok g γ β bi h D s shb bounds hs hshb hb

/-- **commit, outside the domain**: an unannounced bound, a degree above the bound, an unbounded
polynomial above the supported degree, a hiding bound without an RNG — refused for the first
offending polynomial of the list, whatever follows it. -/
theorem sonic_commit_refuses (ck : CK F) (p : LPoly F) (ps : List (LPoly F)) (rng : Bool)
    (draws : List F) :
    (∀ d, p.bound = some d → (∀ bs, ck.bounds = some bs → d ∉ bs) →
      commit ck (p :: ps) rng draws = .error .unsupportedBound) ∧
    (∀ d bs, p.bound = some d → ck.bounds = some bs → d ∈ bs → d < pdeg p.poly →
      commit ck (p :: ps) rng draws = .error .incorrectBound) ∧
    (p.bound = none → pdeg p.poly + 1 > ck.powers.length →
      commit ck (p :: ps) rng draws = .error .tooManyCoefficients) ∧
    (p.bound = none → ¬ (pdeg p.poly + 1 > ck.powers.length) → p.hb.isSome = true → rng = false →
      commit ck (p :: ps) rng draws = .error .abort) := by
  refine ⟨?_, ?_, ?_, ?_⟩
  · intro d hb h
    exact commit_refuses_head ck p ps rng draws _
      (commitOne_refuses_bound ck p rng draws d hb _ (checkDB_unsupported _ _ _ _ h))
  · intro d bs hb hbs hd hdeg
    exact commit_refuses_head ck p ps rng draws _
      (commitOne_refuses_bound ck p rng draws d hb _
        (by rw [hbs]; exact checkDB_incorrect _ _ _ _ hd (Or.inl hdeg)))
  · intro hb hd
    exact commit_refuses_head ck p ps rng draws _ (commitOne_refuses_degree ck p rng draws hb hd)
  · intro hb hd hh hr
    subst hr
    exact commit_refuses_head ck p ps false draws _ (commitOne_refuses_no_rng ck p draws hb hd hh)

/-- **open, outside the domain**: the same admission test as `commit`. -/
theorem sonic_open_refuses (ck : CK F) (p : LPoly F) (ps : List (LPoly F)) (st : List F)
    (sts : List (List F)) (z ξ : F) (ξs : List F) (e : Err)
    (h : checkDegreesAndBounds ck.maxDegree ck.bounds p.poly p.bound = .error e) :
    Sonic.open ck (p :: ps) z (st :: sts) (ξ :: ξs) = .error e :=
  open_refuses_bound ck p ps st sts z ξ ξs e h

/-- **open, inside the domain**: everything `commit` accepted is opened (no error, no abort). -/
theorem sonic_open_ok (g γ β bi h : F) (hb : β * bi = 1) (D s shb : Nat)
    (bounds : Option (List Nat)) (ck : CK F) (vk : VK F)
    (ht : trim (wfPP g γ β bi h D) s shb bounds = .ok (ck, vk))
    (ps : List (LPoly F)) (rng : Bool) (draws : List F) (cs : List (LComm F)) (rs : List (List F))
    (drest : List F) (hc : commit ck ps rng draws = .ok (cs, rs, drest))
    (z : F) (ξs : List F) (hξ : ps.length < ξs.length) :
    ∃ π rest, Sonic.open ck ps z rs ξs = .ok (π, rest) :=
  open_ok_of_honest g γ β bi h hb D s shb bounds ck vk ht cs ps rs
    (commit_honest g γ β bi h hb D s shb bounds ck vk ht ps rng draws cs rs drest hc) z ξs hξ

/-- **check**: total on every input (given the sponge's `1 + n` challenges) — it either decides or
refuses with `UnsupportedDegreeBound`; and a label without a G2 element is always refused. -/
theorem sonic_check_total (vk : VK F) (cs : List (LComm F)) (z : F) (vs : List F) (π : KZG.Proof F)
    (ξs : List F) (hξ : min cs.length vs.length < ξs.length) :
    ((∃ b r, check vk cs z vs π ξs = .ok (b, r)) ∨ check vk cs z vs π ξs = .error .unsupportedBound) ∧
    (boundsOk vk.shiftOf cs vs ξs = false → check vk cs z vs π ξs = .error .unsupportedBound) :=
  ⟨check_total vk cs z vs π ξs (restOf_isSome cs vs ξs hξ),
   fun hb => check_unsupported vk cs z vs π ξs (restOf_isSome cs vs ξs hξ) hb⟩

/-- **batch_check, outside the domain**: a proof list of the wrong length; a queried label without a
commitment; a queried label without an evaluation. -/
theorem sonic_batch_check_refuses (vk : VK F) (comms : List (LComm F)) (qs : List (Query F))
    (evals : List ((Label × F) × F)) (πs : List (KZG.Proof F)) (ξs rs : List F) :
    (πs.length ≠ (groupQueries qs).length → batchCheck vk comms qs evals πs ξs rs = .error .abort) ∧
    (∀ gr gs l ls, groupQueries qs = gr :: gs → gr.2.2 = l :: ls →
      lookupLast (fun (c : LComm F) => c.label) l comms = none →
      ∃ e, batchCheck vk comms qs evals πs ξs rs = .error e) ∧
    (∀ gr gs l ls c, groupQueries qs = gr :: gs → gr.2.2 = l :: ls →
      lookupLast (fun (c : LComm F) => c.label) l comms = some c → lookupEval evals l gr.2.1 = none →
      ∃ e, batchCheck vk comms qs evals πs ξs rs = .error e) := by
  refine ⟨fun hl => batchCheck_shape vk comms qs evals πs ξs rs hl, ?_, ?_⟩
  · intro gr gs l ls hg hl hlook
    apply batchCheck_refuses_gather vk comms qs evals πs ξs rs .missingPolynomial
    rw [hg]
    apply gatherGroups_refuses_head
    rw [hl]; exact gatherComms_missing_poly comms evals gr.2.1 l ls hlook
  · intro gr gs l ls c hg hl hlook hev
    apply batchCheck_refuses_gather vk comms qs evals πs ξs rs .missingEvaluation
    rw [hg]
    apply gatherGroups_refuses_head
    rw [hl]; exact gatherComms_missing_eval comms evals gr.2.1 l ls c hlook hev

/-- non-vacuity: both sides of each boundary are inhabited on the concrete key -/
example : trim Ex.pp 4 1 none ≠ .error .trimTooLarge ∧ trim Ex.pp 5 1 none = .error .trimTooLarge := by
  decide
example : commit Ex.ck [⟨[112], [1, 2, 3, 4], none, none⟩] false ([] : List K)
    = .ok ([⟨[112], 46, none⟩], [[]], []) := by decide
example : commit Ex.ck [⟨[112], [1, 2, 3, 4, 5], none, none⟩] false ([] : List K)
    = .error .tooManyCoefficients := by decide
example : commit Ex.ck [⟨[112], [1, 2, 3, 4], none, some 1⟩] false ([] : List K) = .error .abort := by
  decide
example : commit Ex.ck [⟨[112], [1, 2], some 3, some 2⟩] true ([1, 2, 3, 4] : List K)
    = .error .hidingBoundTooLarge := by decide
example : batchCheck Ex.vk Ex.comms [([112, 51], ([97], 5))] [(([112, 51], 5), 1)] [⟨1, none⟩] [1, 2, 3] ([] : List K)
    = .error .missingPolynomial := by decide

end PCV.C17
