/-
  Property C10 — verifiers decide exactly the scheme's published verification relation,
  inner-product-argument scheme (BCMS20, Fig. "PC_DL.Check", with the code's challenge derivation).
-/
import PCV.Proofs.IPAVerify
import PCV.Props.Examples

set_option linter.unusedSectionVars false

namespace PCV.C10
open PCV
variable {F : Type} [Field F] [DecidableEq F]

/-- The IPA verification relation, written from the paper.  With `Ĉ, v̂` the challenge-weighted
combination of the commitments (shifted parts included) and values (`v·z^{s−d}` for a bound `d`),
adjusted by the hiding commitment; `h′ = ξ₀·h`; `u₁..u_k` the round challenges, `k = log₂(s+1)`;
`h_u(X) = ∏ᵢ (1 + uᵢ·X^{2^{k−i}})`:
`Ĉ + v̂·h′ + Σᵢ (uᵢ⁻¹·Lᵢ + uᵢ·Rᵢ) = c·K + (c·h_u(z))·h′` and `K = ⟨coeffs(h_u), G⟩`. -/
def IPARelation (vk : IPA.VK F) (cs : List (IPA.LComm F)) (z : F) (vs : List F) (π : IPA.Proof F)
    (ξs ros : List F) : Prop :=
  π.lVec.length = π.rVec.length ∧ π.lVec.length = IPA.clog2 (IPA.supportedDegree vk + 1) ∧
  ∃ r ξr ror, IPA.succinctRun vk cs z vs π ξs ros = .ok (r, ξr, ror) ∧
    r.C + (vk.h * r.ξ₀) * r.V + r.lr
      = π.finalCommKey * π.c + (vk.h * r.ξ₀) * (π.c * Succinct.prodForm z r.us) ∧
    π.finalCommKey = dot vk.commKey (Succinct.computeCoeffs r.us)

/-- **IPA.** `check` returns success exactly when the relation holds — for every verifier key
and every transcript, honest or not, and all oracle outputs. -/
theorem ipa_check_iff_relation (vk : IPA.VK F) (cs : List (IPA.LComm F)) (z : F) (vs : List F)
    (π : IPA.Proof F) (ξs ros : List F) :
    IPA.check vk cs z vs π ξs ros = .ok true ↔ IPARelation vk cs z vs π ξs ros := by
  rw [IPA.check_iff]
  unfold IPARelation
  have hshape : IPA.badShape vk π = false ↔
      (π.lVec.length = π.rVec.length ∧ π.lVec.length = IPA.clog2 (IPA.supportedDegree vk + 1)) := by
    rw [← Bool.not_eq_true, IPA.badShape_iff]
    constructor
    · intro h; constructor <;> (by_contra hc; exact h (by simp [hc]))
    · rintro ⟨h1, h2⟩ h; rcases h with h | h <;> contradiction
  rw [hshape, and_assoc]
  apply and_congr Iff.rfl
  apply and_congr Iff.rfl
  constructor
  · rintro ⟨r, ξr, ror, hr, d1, d2⟩
    refine ⟨r, ξr, ror, hr, ?_, ?_⟩
    · unfold IPA.defect1 at d1
      rw [← Succinct.evaluate_eq_prodForm]
      linear_combination d1
    · unfold IPA.defect2 at d2; linear_combination -d2
  · rintro ⟨r, ξr, ror, hr, e1, e2⟩
    refine ⟨r, ξr, ror, hr, ?_, ?_⟩
    · unfold IPA.defect1
      rw [← Succinct.evaluate_eq_prodForm] at e1
      linear_combination e1
    · unfold IPA.defect2; linear_combination -e2

/-- honest proofs satisfy the relation -/
theorem ipa_honest_satisfies (ck : IPA.CK F) (k : Nat) (hk : ck.commKey.length = 2 ^ k)
    (polys : List (IPA.LPoly F)) (hnf : ∀ p ∈ polys, pnorm p.poly = p.poly)
    (rng : Bool) (draws : List F) (comms : List (IPA.LComm F)) (sts : List (IPA.Rand F))
    (rest : List F) (hc : IPA.commit ck polys rng draws = .ok (comms, sts, rest))
    (z : F) (ξs ros : List F) (rng' : Bool) (draws' : List F) (π : IPA.Proof F)
    (ξr ror dr : List F)
    (ho : IPA.open ck polys comms z sts ξs ros rng' draws' = .ok (π, ξr, ror, dr)) :
    IPARelation ck comms z (polys.map fun p => evalPoly p.poly z) π ξs ros :=
  (ipa_check_iff_relation _ _ _ _ _ _ _).1
    (IPA.open_check_complete ck k hk polys comms sts
      (IPA.commit_spec ck rng polys draws comms sts rest hc) hnf z ξs ros rng' draws' π ξr ror dr ho).1

/-- every other outcome (`Ok(false)`, an error, an abort) means the relation does not hold -/
theorem ipa_not_relation_of_not_accept (vk : IPA.VK F) (cs : List (IPA.LComm F)) (z : F)
    (vs : List F) (π : IPA.Proof F) (ξs ros : List F)
    (h : IPA.check vk cs z vs π ξs ros ≠ .ok true) : ¬ IPARelation vk cs z vs π ξs ros :=
  fun hr => h ((ipa_check_iff_relation _ _ _ _ _ _ _).2 hr)

/-- every component of the proof that is not hashed influences the decision: from an accepting
transcript, changing `final_comm_key` flips the decision unconditionally, changing `c` flips it
when `K + h′·h_u(z) ≠ 0` -/
theorem ipa_each_component_matters (vk : IPA.VK F) (cs : List (IPA.LComm F)) (z : F) (vs : List F)
    (π : IPA.Proof F) (ξs ros : List F) (d : F) (hd : d ≠ 0) (r : IPA.Run F) (ξr ror : List F)
    (hr : IPA.succinctRun vk cs z vs π ξs ros = .ok (r, ξr, ror))
    (hacc : IPA.check vk cs z vs π ξs ros = .ok true) :
    IPA.check vk cs z vs ⟨π.lVec, π.rVec, π.finalCommKey + d, π.c, π.hidingComm, π.rand⟩ ξs ros
      = .ok false ∧
    (π.finalCommKey + vk.h * r.ξ₀ * Succinct.evaluate r.us z ≠ 0 →
      IPA.check vk cs z vs ⟨π.lVec, π.rVec, π.finalCommKey, π.c + d, π.hidingComm, π.rand⟩ ξs ros
        = .ok false) := by
  obtain ⟨hb, r', _, _, hr', d1, d2⟩ := (IPA.check_iff _ _ _ _ _ _ _).1 hacc
  rw [hr] at hr'
  injection hr' with hr'; injection hr' with hr' _
  subst hr'
  have hb1 : IPA.badShape vk ⟨π.lVec, π.rVec, π.finalCommKey + d, π.c, π.hidingComm, π.rand⟩
      = false := hb
  have hb2 : IPA.badShape vk ⟨π.lVec, π.rVec, π.finalCommKey, π.c + d, π.hidingComm, π.rand⟩
      = false := hb
  constructor
  · rw [IPA.check_of_run vk cs z vs _ ξs ros r ξr ror hb1 (by rw [IPA.succinctRun_irrel]; exact hr)]
    have : IPA.defect2 vk ⟨π.lVec, π.rVec, π.finalCommKey + d, π.c, π.hidingComm, π.rand⟩ r.us
        ≠ 0 := by
      unfold IPA.defect2 at d2 ⊢
      simp only
      intro h0
      apply hd
      linear_combination d2 - h0
    simp [this]
  · intro hnd
    rw [IPA.check_of_run vk cs z vs _ ξs ros r ξr ror hb2 (by rw [IPA.succinctRun_irrel]; exact hr)]
    have : IPA.defect1 vk z ⟨π.lVec, π.rVec, π.finalCommKey, π.c + d, π.hidingComm, π.rand⟩ r
        ≠ 0 := by
      rw [IPA.defect1_c]
      have d1' := IPA.defect1_c vk z π r π.finalCommKey π.c
      have e : (⟨π.lVec, π.rVec, π.finalCommKey, π.c, π.hidingComm, π.rand⟩ : IPA.Proof F) = π := rfl
      rw [e, d1] at d1'
      intro h0
      have : d * (π.finalCommKey + vk.h * r.ξ₀ * Succinct.evaluate r.us z) = 0 := by
        linear_combination -d1' - h0
      rcases mul_eq_zero.1 this with h1 | h1
      · exact hd h1
      · exact hnd h1
    simp [this]

example : IPA.check (⟨[3, 5], 13, 17, 3⟩ : IPA.CK K) [⟨[1], ⟨57, none⟩, none⟩] 6 [58]
    ⟨[7], [83], 48, 10, none, none⟩ [2, 3, 4] [8, 9] = .ok true ∧
    (48 : K) + 13 * 8 * Succinct.evaluate [9] 6 ≠ 0 := by
  constructor
  · decide +kernel
  · decide

end PCV.C10
