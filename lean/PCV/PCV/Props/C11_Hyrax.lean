/-
  Property C11 — prover/verifier transcripts stay in lock-step; proofs are bound to them — Hyrax.
  Model: `PCV.Model.HyraxTranscript` (`HyraxPC::open` / `check` on a sponge that is its own event
  history; squeezes answered by a random oracle `ro`, an arbitrary function of the history), the
  trait defaults `batch_open` / `batch_check` / `open_combinations` / `check_combinations`
  (`PCV.Model.TraitDefault`) instantiated with them, histories in `PCV.Proofs.TranscriptHistory`.
  Only property theorems live here; lemmas are in PCV/Proofs/HyraxTranscript.lean, HyraxHistory.lean.
-/
import PCV.Proofs.HyraxHistory
import PCV.Props.C02_Hyrax

set_option linter.unusedSectionVars false
set_option linter.unusedVariables false

namespace PCV.C11
open PCV PCV.Hyrax
open PCV.TraitDefault (Label Query polyStComm)
variable {F : Type} [Field F] [DecidableEq F]

/-! ### (b) what is absorbed, when; what the challenges depend on -/

/-- **The event schedule of `open`.**  An answered `open` over `n` polynomials appends to the
sponge, per polynomial and in this order: `absorb key`, `absorb row_coms` (of THAT polynomial's
commitment), `absorb point`, `absorb com_eval`, `absorb com_d`, `absorb com_b`,
`squeeze_field_elements(1)` — `7·n` events, nothing else; it uses exactly `2^(ν/2) + 3` RNG draws
per polynomial. -/
theorem hyrax_open_schedule (ro : RO F) (ks : List F) (hh : F) (items : List (OpenItem F × List F))
    (point draws : List F) (s : Log F) (πs : List (Proof F)) (rest : List F) (s' : Log F)
    (h : openT ro ks hh items point draws s = .ok (πs, rest, s')) :
    s' = s ++ (((items.map (·.2)).zip (πs.map Proof.absorbed)).map
            fun x => iterEvents ks hh x.1 point x.2).flatten ∧
      s'.length = s.length + 7 * items.length ∧
      rest = draws.drop (items.length * (2 ^ (point.length / 2) + 3)) := by
  unfold openT at h
  simp only at h
  split at h
  · cases h
  · obtain ⟨_, h2, h3, h4⟩ := openLoopT_spec ro ks hh _ _ _ _ point items draws s πs rest s' h
    refine ⟨by rw [h2, runLog_eq_append], ?_, h3⟩
    rw [h2, runLog_length]
    simp [h4]

/-- **The verifier's decisions are `Hyrax.check` on the squeezed challenges**, and those challenges
are `runChallenges`: a function of the oracle, the prior history, the key, the commitments, the
point and the ABSORBED proof components `(com_eval, com_d, com_b)` — not of the responses
`z, z_d, z_b, r_eval`, not of the claimed values.  Every theorem of C02/C03/C10 about `Hyrax.check`
with an explicit challenge list applies with this list. -/
theorem hyrax_check_decides_on_squeezed (ro : RO F) (ks : List F) (hh : F) (coms : List (List F))
    (point vs : List F) (πs : List (Proof F)) (s : Log F) :
    (checkT ro ks hh coms point vs πs s).map (·.1)
      = check ks hh coms point vs πs
          (runChallenges ro ks hh point coms (πs.map Proof.absorbed) s) :=
  checkT_fst ro ks hh coms point vs πs s

/-- **Fiat–Shamir binding of the log.**  After ANY answered `check` (`Ok(true)` or `Ok(false)`)
the verifier's sponge is the run log of the first `k` (commitment, absorbed triple) pairs, `k` the
number of iterations that reached their squeeze; accepted: all of them. -/
theorem hyrax_check_log (ro : RO F) (ks : List F) (hh : F) (coms : List (List F))
    (point vs : List F) (πs : List (Proof F)) (s : Log F) (b : Bool) (s' : Log F)
    (h : checkT ro ks hh coms point vs πs s = .ok (b, s')) :
    (∃ k, k ≤ πs.length ∧
      s' = runLog ks hh point (coms.take k) ((πs.take k).map Proof.absorbed) s) ∧
    (b = true → s' = runLog ks hh point coms (πs.map Proof.absorbed) s) :=
  ⟨checkT_log ro ks hh coms point vs πs s b s' h,
   fun hb => checkT_accept_log ro ks hh coms point vs πs s s' (hb ▸ h)⟩

/-- **Which proof components influence later challenges.**  Two accepted checks of the same
commitments at the same point from the same history — with ANY values and ANY proofs that agree in
`(com_eval, com_d, com_b)` — end in the same sponge state: `z`, `z_d`, `z_b`, `r_eval` and the claimed
values never reach the transcript. -/
theorem hyrax_unabsorbed_components_do_not_matter (ro : RO F) (ks : List F) (hh : F)
    (coms : List (List F)) (point vs vs' : List F) (πs πs' : List (Proof F)) (s s1 s2 : Log F)
    (hab : πs.map Proof.absorbed = πs'.map Proof.absorbed)
    (h1 : checkT ro ks hh coms point vs πs s = .ok (true, s1))
    (h2 : checkT ro ks hh coms point vs' πs' s = .ok (true, s2)) : s1 = s2 := by
  rw [checkT_accept_log ro ks hh coms point vs πs s s1 h1,
    checkT_accept_log ro ks hh coms point vs' πs' s s2 h2, hab]

/-- … while each absorbed component does: run logs over the same commitments with different
absorbed triples (of the same length) differ, so the oracle is asked at another history. -/
theorem hyrax_absorbed_components_matter (ks : List F) (hh : F) (point : List F)
    (coms : List (List F)) (as as' : List (F × F × F)) (s : Log F)
    (hl : as.length = coms.length) (hl' : as'.length = coms.length) (hne : as ≠ as') :
    runLog ks hh point coms as s ≠ runLog ks hh point coms as' s := by
  induction coms generalizing as as' s with
  | nil =>
    have h1 : as = [] := List.length_eq_zero_iff.1 (by simpa using hl)
    have h2 : as' = [] := List.length_eq_zero_iff.1 (by simpa using hl')
    exact absurd (h1.trans h2.symm) hne
  | cons T Ts ih =>
    cases as with
    | nil => simp at hl
    | cons a as =>
      cases as' with
      | nil => simp at hl'
      | cons a' as' =>
        rw [runLog_cons, runLog_cons, runLog_eq_append, runLog_eq_append, List.append_assoc,
          List.append_assoc]
        intro h
        have h' := List.append_cancel_left h
        simp only [iterEvents, List.cons_append, List.nil_append, List.cons.injEq,
          SpongeEv.absorb.injEq, Item.comEval.injEq, Item.comD.injEq, Item.comB.injEq,
          true_and] at h'
        obtain ⟨e1, e2, e3, hrest⟩ := h'
        have ha : a = a' := by
          obtain ⟨a1, a2, a3⟩ := a
          obtain ⟨b1, b2, b3⟩ := a'
          simp only at e1 e2 e3
          rw [e1, e2, e3]
        subst ha
        have hne' : as ≠ as' := fun h => hne (by rw [h])
        refine ih as as' (s ++ iterEvents ks hh T point a) (by simpa using hl) (by simpa using hl')
          hne' ?_
        rw [runLog_eq_append, runLog_eq_append, List.append_assoc, List.append_assoc]
        simp only [iterEvents, List.cons_append, List.nil_append, List.append_cancel_left_eq,
          List.cons.injEq, true_and]
        exact hrest

/-! ### (a) lock-step -/

/-- **`open` / `check` in lock-step.**  For every key, every list of honest items (state and row
commitments made by `commit` for the polynomial, any labels), every point, all draws, every oracle
and every prior history: if `open` answers, `check` — run on the same prior history with the true
values — accepts and ends with EXACTLY the prover's event history (hence in the prover's sponge
state: every later squeeze agrees). -/
theorem hyrax_open_check_lockstep (ro : RO F) (ks : List F) (hh : F) (point : List F)
    (items : List (OpenItem F × List F)) (polys : List (MLPoly F))
    (hh' : List.Forall₂ (HonestItem ks hh) items polys)
    (draws : List F) (s : Log F) (πs : List (Proof F)) (rest : List F) (s' : Log F)
    (ho : openT ro ks hh items point draws s = .ok (πs, rest, s')) :
    checkT ro ks hh (items.map (·.2)) point (polys.map fun p => mleEval p.evals point) πs s
      = .ok (true, s') :=
  openT_checkT_lockstep ro ks hh point items polys hh' draws s πs rest s' ho

/-- **Lock-step over any history** of `open`, default `batch_open` and default
`open_combinations` calls on one sponge and one RNG.  Committed lists `polys / sts / comms` in
which every triple is honest; a verifier holding the same commitments (`hcm`); `ltP` the order of
the point type.  For every operation list with true claims (`Truthful`): if the prover answers all
of them, the verifier — performing the corresponding `check` / `batch_check` /
`check_combinations` in the same order from the same initial history — accepts every proof and ends
with exactly the prover's event history. -/
theorem hyrax_history_lockstep (ro : RO F) (ks : List F) (hh : F)
    (ltP : List F → List F → Bool) (hlt : QS.StrictTotal ltP) (hirr : ∀ a, ltP a a = false)
    (polys : List (LPoly F)) (sts : List (State F)) (comms vcomms : List (LComm F))
    (hlen1 : sts.length = polys.length) (hlen2 : comms.length = polys.length)
    (hhonest : GoodTrips ks hh (polyStComm polys sts comms))
    (hcm : ∀ l t, Marlin.lookupLast (fun (t : (LPoly F × State F) × LComm F) => t.1.1.label) l
        (polyStComm polys sts comms) = some t →
        Marlin.lookupLast (fun (c : LComm F) => c.label) l vcomms = some t.2)
    (ops : List (TrHistory.Op (List F) F (LPoly F) (State F) (LComm F)))
    (vops : List (TrHistory.VOp (List F) F (LComm F)))
    (ht : List.Forall₂ (TrHistory.Truthful ltP (fun (p : LPoly F) => p.label) evalLP (GoodTrips ks hh)
      polys sts comms) ops vops)
    (s : Log F) (draws : List F) (πs : List (TrHistory.OpProof F (List (Proof F))))
    (s' : Log F) (rest : List F)
    (hp : TrHistory.proverRun ltP (fun (p : LPoly F) => p.label) evalLP (openF ro ks hh) polys sts comms
      ops (s, draws) = .ok (πs, (s', rest))) :
    TrHistory.verifierRun ltP (fun (c : LComm F) => c.label) (checkF ro ks hh) vcomms vops πs s
      = .ok (true, s') := by
  obtain ⟨sv', hv, hR⟩ := TrHistory.history_lockstep ltP (fun (p : LPoly F) => p.label)
    (fun (c : LComm F) => c.label) evalLP (GoodTrips ks hh) polys sts comms vcomms hlt hirr
    (openF ro ks hh) (checkF ro ks hh) SameSponge (openF_checkF_complete ro ks hh)
    (TrHistory.htrip_of_length _ polys sts comms hlen1 hlen2)
    (fun ls ts h t ht => hhonest t (TrHistory.gatherOpen_mem _ _ ls ts h t ht))
    hcm ops vops ht (s, draws) s πs (s', rest) rfl hp
  unfold SameSponge at hR
  simp only at hR
  rw [hv, hR]

/-! ### (c) displaced proofs -/

/-- **The oracle is asked at another history.**  When the verifier's prior history differs from
the prover's, so does the history at which the challenge of the first polynomial is squeezed
(absorbing the same six items does not repair it) … -/
theorem hyrax_displaced_query_differs (ks : List F) (hh : F) (T point : List F) (ce cd cb : F)
    (s s₂ : Log F) (hne : s₂ ≠ s) :
    absorbIter s₂ ks hh T point ce cd cb ≠ absorbIter s ks hh T point ce cd cb := by
  rw [absorbIter_eq, absorbIter_eq]
  intro h
  exact hne (List.append_cancel_right h)

/-- … so under an oracle without collisions on that query the challenges differ. -/
theorem hyrax_displaced_challenge_differs (ro : RO F)
    (hro : ∀ h h' : Log F, h ≠ h' → ro.fe h 0 ≠ ro.fe h' 0)
    (ks : List F) (hh : F) (T point : List F) (ce cd cb : F) (s s₂ : Log F) (hne : s₂ ≠ s) :
    ro.fe (absorbIter s₂ ks hh T point ce cd cb) 0 ≠ ro.fe (absorbIter s ks hh T point ce cd cb) 0 :=
  hro _ _ (hyrax_displaced_query_differs ks hh T point ce cd cb s s₂ hne)

/-- **A displaced proof, exact condition (defect form).**  The honest proof of one polynomial made
at history `s` (challenge `ch`), verified — same commitment, same point, true value — at history
`s₂` (another prior transcript, or another position of a sequence), where the verifier squeezes
`c'`: accepted iff `com_eval·(c' − ch) = 0` and `⟨T,L⟩·c' = ⟨T,L⟩·ch` — this is `C02.hyrax_check_iff`
with the squeezed challenges. -/
theorem hyrax_displaced_iff (ro : RO F) (ks : List F) (hh k0 : F) (p : MLPoly F)
    (it : OpenItem F × List F) (hit : HonestItem ks hh it p) (hk : key0 ks = some k0)
    (point draws : List F) (s : Log F) (π : Proof F) (rest : List F) (s' : Log F)
    (ho : openT ro ks hh [it] point draws s = .ok ([π], rest, s')) (s₂ : Log F) :
    (∃ s₂', checkT ro ks hh [it.2] point [mleEval p.evals point] [π] s₂ = .ok (true, s₂')) ↔
      π.comEval * (ro.fe (absorbIter s₂ ks hh it.2 point π.comEval π.comD π.comB) 0
          - ro.fe (absorbIter s ks hh it.2 point π.comEval π.comD π.comB) 0) = 0 ∧
      dot it.2 (tensorL point) * ro.fe (absorbIter s₂ ks hh it.2 point π.comEval π.comD π.comB) 0
        = dot it.2 (tensorL point) * ro.fe (absorbIter s ks hh it.2 point π.comEval π.comD π.comB) 0 := by
  obtain ⟨hn, h1, _⟩ := openT_single_inv ro ks hh it point draws s π rest s' ho
  obtain ⟨ρs, hc⟩ := hit
  have hT := (honest_item_ok ks hh p ρs it.2 it.1.st point _ _ _ _ _ π hn hc h1).2.1
  rw [← except_map_fst_ok_true, checkT_single,
    C02.hyrax_check_iff ks hh k0 p ρs it.2 it.1.st point _ _ _ _ _ π hn hk hc h1 it.2 point _ _ hT rfl]
  constructor
  · rintro ⟨_, h2, h3⟩
    exact ⟨by rw [← h2]; ring, h3⟩
  · rintro ⟨h2, h3⟩
    exact ⟨by ring, by rw [h2]; ring, h3⟩

/-- **A displaced proof is rejected**: with different challenges (`hyrax_displaced_challenge_differs`)
the verifier does not accept unless BOTH the evaluation commitment `com_eval = p̃(z)·G₀ + r_eval·H`
and the combined row commitment `⟨T,L⟩` (a commitment to `Lᵀ·M`) are the identity — conditions on
the commitment randomness the prover does not control after the fact, and which hold for no
polynomial (constant or not) when the blinders are uniform, except with probability `2/|F|`. -/
theorem hyrax_displaced_rejected (ro : RO F) (ks : List F) (hh k0 : F) (p : MLPoly F)
    (it : OpenItem F × List F) (hit : HonestItem ks hh it p) (hk : key0 ks = some k0)
    (point draws : List F) (s : Log F) (π : Proof F) (rest : List F) (s' : Log F)
    (ho : openT ro ks hh [it] point draws s = .ok ([π], rest, s')) (s₂ : Log F)
    (hc : ro.fe (absorbIter s₂ ks hh it.2 point π.comEval π.comD π.comB) 0
        ≠ ro.fe (absorbIter s ks hh it.2 point π.comEval π.comD π.comB) 0)
    (hnz : π.comEval ≠ 0 ∨ dot it.2 (tensorL point) ≠ 0) (s₂' : Log F) :
    checkT ro ks hh [it.2] point [mleEval p.evals point] [π] s₂ ≠ .ok (true, s₂') := by
  intro h
  obtain ⟨h2, h3⟩ := (hyrax_displaced_iff ro ks hh k0 p it hit hk point draws s π rest s' ho s₂).1 ⟨s₂', h⟩
  rcases hnz with hz | hz
  · rcases mul_eq_zero.1 h2 with h0 | h0
    · exact hz h0
    · exact hc (sub_eq_zero.1 h0)
  · exact hc (mul_left_cancel₀ hz h3)

end PCV.C11
