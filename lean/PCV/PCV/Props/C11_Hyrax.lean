/-
  Property C11 — prover/verifier transcripts stay in lock-step; proofs are bound to them — Hyrax.
  Model: `PCV.Model.HyraxTranscript` (`HyraxPC::open` / `check` on a sponge that is its own event
  history; squeezes answered by a random oracle `ro`, an arbitrary function of the history), the
  trait defaults `batch_open` / `batch_check` / `open_combinations` / `check_combinations`
  (`PCV.Model.TraitDefault`) instantiated with them, histories in `PCV.Proofs.TranscriptHistory`.
  Only property theorems live here; lemmas are in PCV/Proofs/HyraxTranscript.lean, HyraxHistory.lean.
-/
import PCV.Proofs.HyraxHistory
import PCV.Proofs.HyraxTranscriptEx
import PCV.Props.C02_Hyrax

set_option linter.unusedSectionVars false
set_option linter.unusedVariables false

namespace PCV.C11
open PCV PCV.Hyrax
open PCV.TraitDefault (Label Query polyStComm)
variable {F : Type} [Field F] [DecidableEq F]

/-! ### (b) what is absorbed, when; what the challenges depend on -/

/-- **The event schedule of `open`.**  An answered `open` over `n` polynomials appends to the
sponge, per polynomial and in this order: `absorb key`, `absorb row_coms` (of THAT polynomial's
commitment), `absorb point`, `absorb com_eval`, `absorb com_d`, `absorb com_b`,
`squeeze_field_elements(1)` — `7·n` events, nothing else; it uses exactly `2^(ν/2) + 3` RNG draws
per polynomial. -/
theorem hyrax_open_schedule (ro : RO F) (ks : List F) (hh : F) (items : List (OpenItem F × List F))
    (point draws : List F) (s : Log F) (πs : List (Proof F)) (rest : List F) (s' : Log F)
    (h : openT ro ks hh items point draws s = .ok (πs, rest, s')) :
    s' = s ++ (((items.map (·.2)).zip (πs.map Proof.absorbed)).map
            fun x => iterEvents ks hh x.1 point x.2).flatten ∧
      s'.length = s.length + 7 * items.length ∧
      rest = draws.drop (items.length * (2 ^ (point.length / 2) + 3)) := by
  unfold openT at h
  simp only at h
  split at h
  · cases h
  · obtain ⟨_, h2, h3, h4⟩ := openLoopT_spec ro ks hh _ _ _ _ point items draws s πs rest s' h
    refine ⟨by rw [h2, runLog_eq_append], ?_, h3⟩
    rw [h2, runLog_length]
    simp [h4]

/-- **The verifier's decisions are `Hyrax.check` on the squeezed challenges**, and those challenges
are `runChallenges`: a function of the oracle, the prior history, the key, the commitments, the
point and the ABSORBED proof components `(com_eval, com_d, com_b)` — not of the responses
`z, z_d, z_b, r_eval`, not of the claimed values.  Every theorem of C02/C03/C10 about `Hyrax.check`
with an explicit challenge list applies with this list. -/
theorem hyrax_check_decides_on_squeezed (ro : RO F) (ks : List F) (hh : F) (coms : List (List F))
    (point vs : List F) (πs : List (Proof F)) (s : Log F) :
    (checkT ro ks hh coms point vs πs s).map (·.1)
      = check ks hh coms point vs πs
          (runChallenges ro ks hh point coms (πs.map Proof.absorbed) s) :=
  checkT_fst ro ks hh coms point vs πs s

/-- **Fiat–Shamir binding of the log.**  After ANY answered `check` (`Ok(true)` or `Ok(false)`)
the verifier's sponge is the run log of the first `k` (commitment, absorbed triple) pairs, `k` the
number of iterations that reached their squeeze; accepted: all of them. -/
theorem hyrax_check_log (ro : RO F) (ks : List F) (hh : F) (coms : List (List F))
    (point vs : List F) (πs : List (Proof F)) (s : Log F) (b : Bool) (s' : Log F)
    (h : checkT ro ks hh coms point vs πs s = .ok (b, s')) :
    (∃ k, k ≤ πs.length ∧
      s' = runLog ks hh point (coms.take k) ((πs.take k).map Proof.absorbed) s) ∧
    (b = true → s' = runLog ks hh point coms (πs.map Proof.absorbed) s) :=
  ⟨checkT_log ro ks hh coms point vs πs s b s' h,
   fun hb => checkT_accept_log ro ks hh coms point vs πs s s' (hb ▸ h)⟩

/-- **Which proof components influence later challenges.**  Two accepted checks of the same
commitments at the same point from the same history — with ANY values and ANY proofs that agree in
`(com_eval, com_d, com_b)` — end in the same sponge state: `z`, `z_d`, `z_b`, `r_eval` and the claimed
values never reach the transcript. -/
theorem hyrax_unabsorbed_components_do_not_matter (ro : RO F) (ks : List F) (hh : F)
    (coms : List (List F)) (point vs vs' : List F) (πs πs' : List (Proof F)) (s s1 s2 : Log F)
    (hab : πs.map Proof.absorbed = πs'.map Proof.absorbed)
    (h1 : checkT ro ks hh coms point vs πs s = .ok (true, s1))
    (h2 : checkT ro ks hh coms point vs' πs' s = .ok (true, s2)) : s1 = s2 := by
  rw [checkT_accept_log ro ks hh coms point vs πs s s1 h1,
    checkT_accept_log ro ks hh coms point vs' πs' s s2 h2, hab]

/-- … while each absorbed component does: run logs over the same commitments with different
absorbed triples (of the same length) differ, so the oracle is asked at another history. -/
theorem hyrax_absorbed_components_matter (ks : List F) (hh : F) (point : List F)
    (coms : List (List F)) (as as' : List (F × F × F)) (s : Log F)
    (hl : as.length = coms.length) (hl' : as'.length = coms.length) (hne : as ≠ as') :
    runLog ks hh point coms as s ≠ runLog ks hh point coms as' s := by
  induction coms generalizing as as' s with
  | nil =>
    have h1 : as = [] := List.length_eq_zero_iff.1 (by simpa using hl)
    have h2 : as' = [] := List.length_eq_zero_iff.1 (by simpa using hl')
    exact absurd (h1.trans h2.symm) hne
  | cons T Ts ih =>
    cases as with
    | nil => simp at hl
    | cons a as =>
      cases as' with
      | nil => simp at hl'
      | cons a' as' =>
        rw [runLog_cons, runLog_cons, runLog_eq_append, runLog_eq_append, List.append_assoc,
          List.append_assoc]
        intro h
        have h' := List.append_cancel_left h
        simp only [iterEvents, List.cons_append, List.nil_append, List.cons.injEq,
          SpongeEv.absorb.injEq, Item.comEval.injEq, Item.comD.injEq, Item.comB.injEq,
          true_and] at h'
        obtain ⟨e1, e2, e3, hrest⟩ := h'
        have ha : a = a' := by
          obtain ⟨a1, a2, a3⟩ := a
          obtain ⟨b1, b2, b3⟩ := a'
          simp only at e1 e2 e3
          rw [e1, e2, e3]
        subst ha
        have hne' : as ≠ as' := fun h => hne (by rw [h])
        refine ih as as' (s ++ iterEvents ks hh T point a) (by simpa using hl) (by simpa using hl')
          hne' ?_
        rw [runLog_eq_append, runLog_eq_append, List.append_assoc, List.append_assoc]
        simp only [iterEvents, List.cons_append, List.nil_append, List.append_cancel_left_eq,
          List.cons.injEq, true_and]
        exact hrest

/-! ### (a) lock-step -/

/-- **`open` / `check` in lock-step.**  For every key, every list of honest items (state and row
commitments made by `commit` for the polynomial, any labels), every point, all draws, every oracle
and every prior history: if `open` answers, `check` — run on the same prior history with the true
values — accepts and ends with EXACTLY the prover's event history (hence in the prover's sponge
state: every later squeeze agrees). -/
theorem hyrax_open_check_lockstep (ro : RO F) (ks : List F) (hh : F) (point : List F)
    (items : List (OpenItem F × List F)) (polys : List (MLPoly F))
    (hh' : List.Forall₂ (HonestItem ks hh) items polys)
    (draws : List F) (s : Log F) (πs : List (Proof F)) (rest : List F) (s' : Log F)
    (ho : openT ro ks hh items point draws s = .ok (πs, rest, s')) :
    checkT ro ks hh (items.map (·.2)) point (polys.map fun p => mleEval p.evals point) πs s
      = .ok (true, s') :=
  openT_checkT_lockstep ro ks hh point items polys hh' draws s πs rest s' ho

/-- **Lock-step over any history** of `open`, default `batch_open` and default
`open_combinations` calls on one sponge and one RNG.  Committed lists `polys / sts / comms` in
which every triple is honest; a verifier holding the same commitments (`hcm`); `ltP` the order of
the point type.  For every operation list with true claims (`Truthful`): if the prover answers all
of them, the verifier — performing the corresponding `check` / `batch_check` /
`check_combinations` in the same order from the same initial history — accepts every proof and ends
with exactly the prover's event history. -/
theorem hyrax_history_lockstep (ro : RO F) (ks : List F) (hh : F)
    (ltP : List F → List F → Bool) (hlt : QS.StrictTotal ltP) (hirr : ∀ a, ltP a a = false)
    (polys : List (LPoly F)) (sts : List (State F)) (comms vcomms : List (LComm F))
    (hlen1 : sts.length = polys.length) (hlen2 : comms.length = polys.length)
    (hhonest : GoodTrips ks hh (polyStComm polys sts comms))
    (hcm : ∀ l t, Marlin.lookupLast (fun (t : (LPoly F × State F) × LComm F) => t.1.1.label) l
        (polyStComm polys sts comms) = some t →
        Marlin.lookupLast (fun (c : LComm F) => c.label) l vcomms = some t.2)
    (ops : List (TrHistory.Op (List F) F (LPoly F) (State F) (LComm F)))
    (vops : List (TrHistory.VOp (List F) F (LComm F)))
    (ht : List.Forall₂ (TrHistory.Truthful ltP (fun (p : LPoly F) => p.label) evalLP (GoodTrips ks hh)
      polys sts comms) ops vops)
    (s : Log F) (draws : List F) (πs : List (TrHistory.OpProof F (List (Proof F))))
    (s' : Log F) (rest : List F)
    (hp : TrHistory.proverRun ltP (fun (p : LPoly F) => p.label) evalLP (openF ro ks hh) polys sts comms
      ops (s, draws) = .ok (πs, (s', rest))) :
    TrHistory.verifierRun ltP (fun (c : LComm F) => c.label) (checkF ro ks hh) vcomms vops πs s
      = .ok (true, s') := by
  obtain ⟨sv', hv, hR⟩ := TrHistory.history_lockstep ltP (fun (p : LPoly F) => p.label)
    (fun (c : LComm F) => c.label) evalLP (GoodTrips ks hh) polys sts comms vcomms hlt hirr
    (openF ro ks hh) (checkF ro ks hh) SameSponge (openF_checkF_complete ro ks hh)
    (TrHistory.htrip_of_length _ polys sts comms hlen1 hlen2)
    (fun ls ts h t ht => hhonest t (TrHistory.gatherOpen_mem _ _ ls ts h t ht))
    hcm ops vops ht (s, draws) s πs (s', rest) rfl hp
  unfold SameSponge at hR
  simp only at hR
  rw [hv, hR]

/-! ### (c) displaced proofs -/

/-- **The oracle is asked at another history.**  When the verifier's prior history differs from
the prover's, so does the history at which the challenge of the first polynomial is squeezed
(absorbing the same six items does not repair it) … -/
theorem hyrax_displaced_query_differs (ks : List F) (hh : F) (T point : List F) (ce cd cb : F)
    (s s₂ : Log F) (hne : s₂ ≠ s) :
    absorbIter s₂ ks hh T point ce cd cb ≠ absorbIter s ks hh T point ce cd cb := by
  rw [absorbIter_eq, absorbIter_eq]
  intro h
  exact hne (List.append_cancel_right h)

/-- … so under an oracle without collisions on that query the challenges differ. -/
theorem hyrax_displaced_challenge_differs (ro : RO F)
    (hro : ∀ h h' : Log F, h ≠ h' → ro.fe h 0 ≠ ro.fe h' 0)
    (ks : List F) (hh : F) (T point : List F) (ce cd cb : F) (s s₂ : Log F) (hne : s₂ ≠ s) :
    ro.fe (absorbIter s₂ ks hh T point ce cd cb) 0 ≠ ro.fe (absorbIter s ks hh T point ce cd cb) 0 :=
  hro _ _ (hyrax_displaced_query_differs ks hh T point ce cd cb s s₂ hne)

/-- **A displaced proof, exact condition (defect form).**  The honest proof of one polynomial made
at history `s` (challenge `ch`), verified — same commitment, same point, true value — at history
`s₂` (another prior transcript, or another position of a sequence), where the verifier squeezes
`c'`: accepted iff `com_eval·(c' − ch) = 0` and `⟨T,L⟩·c' = ⟨T,L⟩·ch` — this is `C02.hyrax_check_iff`
with the squeezed challenges. -/
theorem hyrax_displaced_iff (ro : RO F) (ks : List F) (hh k0 : F) (p : MLPoly F)
    (it : OpenItem F × List F) (hit : HonestItem ks hh it p) (hk : key0 ks = some k0)
    (point draws : List F) (s : Log F) (π : Proof F) (rest : List F) (s' : Log F)
    (ho : openT ro ks hh [it] point draws s = .ok ([π], rest, s')) (s₂ : Log F) :
    (∃ s₂', checkT ro ks hh [it.2] point [mleEval p.evals point] [π] s₂ = .ok (true, s₂')) ↔
      π.comEval * (ro.fe (absorbIter s₂ ks hh it.2 point π.comEval π.comD π.comB) 0
          - ro.fe (absorbIter s ks hh it.2 point π.comEval π.comD π.comB) 0) = 0 ∧
      dot it.2 (tensorL point) * ro.fe (absorbIter s₂ ks hh it.2 point π.comEval π.comD π.comB) 0
        = dot it.2 (tensorL point) * ro.fe (absorbIter s ks hh it.2 point π.comEval π.comD π.comB) 0 := by
  obtain ⟨hn, h1, _⟩ := openT_single_inv ro ks hh it point draws s π rest s' ho
  obtain ⟨ρs, hc⟩ := hit
  have hT := (honest_item_ok ks hh p ρs it.2 it.1.st point _ _ _ _ _ π hn hc h1).2.1
  rw [← except_map_fst_ok_true, checkT_single,
    C02.hyrax_check_iff ks hh k0 p ρs it.2 it.1.st point _ _ _ _ _ π hn hk hc h1 it.2 point _ _ hT rfl]
  constructor
  · rintro ⟨_, h2, h3⟩
    exact ⟨by rw [← h2]; ring, h3⟩
  · rintro ⟨h2, h3⟩
    exact ⟨by ring, by rw [h2]; ring, h3⟩

/-- **A displaced proof is rejected**: with different challenges (`hyrax_displaced_challenge_differs`)
the verifier does not accept unless BOTH the evaluation commitment `com_eval = p̃(z)·G₀ + r_eval·H`
and the combined row commitment `⟨T,L⟩` (a commitment to `Lᵀ·M`) are the identity — conditions on
the commitment randomness the prover does not control after the fact, and which hold for no
polynomial (constant or not) when the blinders are uniform, except with probability `2/|F|`. -/
theorem hyrax_displaced_rejected (ro : RO F) (ks : List F) (hh k0 : F) (p : MLPoly F)
    (it : OpenItem F × List F) (hit : HonestItem ks hh it p) (hk : key0 ks = some k0)
    (point draws : List F) (s : Log F) (π : Proof F) (rest : List F) (s' : Log F)
    (ho : openT ro ks hh [it] point draws s = .ok ([π], rest, s')) (s₂ : Log F)
    (hc : ro.fe (absorbIter s₂ ks hh it.2 point π.comEval π.comD π.comB) 0
        ≠ ro.fe (absorbIter s ks hh it.2 point π.comEval π.comD π.comB) 0)
    (hnz : π.comEval ≠ 0 ∨ dot it.2 (tensorL point) ≠ 0) (s₂' : Log F) :
    checkT ro ks hh [it.2] point [mleEval p.evals point] [π] s₂ ≠ .ok (true, s₂') := by
  intro h
  obtain ⟨h2, h3⟩ := (hyrax_displaced_iff ro ks hh k0 p it hit hk point draws s π rest s' ho s₂).1 ⟨s₂', h⟩
  rcases hnz with hz | hz
  · rcases mul_eq_zero.1 h2 with h0 | h0
    · exact hz h0
    · exact hc (sub_eq_zero.1 h0)
  · exact hc (mul_left_cancel₀ hz h3)

/-! ### non-vacuity (K = ZMod 101; data in `PCV.Proofs.HyraxTranscriptEx`) -/

/-- one `open` of two honest items and the `check` of its proofs: accepted, same 14 events -/
example : ∃ πs rest s', openT TEx.ro ([3, 5] : List K) 7 (toItems TEx.trips) [6, 17] TEx.draws [] = .ok (πs, rest, s') ∧
    checkT TEx.ro [3, 5] 7 ((toItems TEx.trips).map (·.2)) [6, 17]
      ((TEx.trips.map (·.1.1.poly)).map fun p => mleEval p.evals [6, 17]) πs [] = .ok (true, s') ∧
    s'.length = 14 := by
  have hok : (match openT TEx.ro ([3, 5] : List K) 7 (toItems TEx.trips) [6, 17] TEx.draws [] with
      | .ok _ => true | .error _ => false) = true := by decide
  cases h : openT TEx.ro ([3, 5] : List K) 7 (toItems TEx.trips) [6, 17] TEx.draws [] with
  | error e => simp [h] at hok
  | ok r =>
    obtain ⟨πs, rest, s'⟩ := r
    refine ⟨πs, rest, s', rfl, hyrax_open_check_lockstep _ _ _ _ _ _ (honest_toItems _ _ _ TEx.good) _ _ _ _ _ h, ?_⟩
    have := (hyrax_open_schedule _ _ _ _ _ _ _ _ _ _ h).2.1
    simpa [toItems, TEx.trips, TEx.polys, TEx.sts, TEx.comms, TraitDefault.polyStComm] using this
/-- the honest-items hypothesis on the example -/
example : List.Forall₂ (HonestItem ([3, 5] : List K) 7) (toItems TEx.trips) (TEx.trips.map (·.1.1.poly)) :=
  honest_toItems _ _ _ TEx.good

/-- a three-operation history (`open`, `batch_open` over two point labels, `open_combinations`) on
one sponge: the prover appends 42 events and uses 30 draws … -/
example : TEx.proverOut = .ok (TEx.histProofs, (TEx.histLog, TEx.draws.drop 30)) ∧ TEx.histLog.length = 42 :=
  ⟨TEx.prover_eq, TEx.histLog_length⟩
/-- … and the verifier accepts everything and ends with the same 42 events -/
example : TrHistory.verifierRun TEx.ltVec (fun (c : LComm K) => c.label) (checkF TEx.ro [3, 5] 7)
    TEx.comms TEx.vops TEx.histProofs [] = .ok (true, TEx.histLog) := TEx.verifier_eq
/-- the hypotheses of `hyrax_history_lockstep` on that history: order, honest triples, the verifier's
commitment list, and the three operations' claims are the true ones -/
example : QS.StrictTotal TEx.ltVec ∧ (∀ a, TEx.ltVec a a = false) ∧
    GoodTrips ([3, 5] : List K) 7 (polyStComm TEx.polys TEx.sts TEx.comms) :=
  ⟨TEx.ltVec_strict, TEx.ltVec_irrefl, TEx.good⟩
example : List.Forall₂ (TrHistory.Truthful TEx.ltVec (fun (p : LPoly K) => p.label) evalLP
    (GoodTrips ([3, 5] : List K) 7) TEx.polys TEx.sts TEx.comms) TEx.ops TEx.vops := by
  refine .cons ?_ (.cons ?_ (.cons ?_ .nil))
  · refine ⟨fun t ht => TEx.good t (List.mem_of_mem_take ht), by decide, rfl, by decide⟩
  · refine ⟨rfl, ?_⟩
    have key : ∀ g ∈ TraitDefault.groups (TraitDefault.querySet TEx.ltVec
          [([97], ([120], [6, 17])), ([98], ([120], [6, 17])), ([98], ([121], [2, 9]))]), ∀ l ∈ g.2.2,
        (Marlin.lookupLast (fun (t : (LPoly K × State K) × LComm K) => t.1.1.label) l
          (polyStComm TEx.polys TEx.sts TEx.comms)).all (fun t =>
            decide (QS.lastWith (l, g.2.1)
              [((([97] : Label), ([6, 17] : List K)), (41 : K)), (([98], [6, 17]), 43), (([98], [2, 9]), 20)]
              = some (evalLP t.1.1 g.2.1))) = true := by decide
    intro g hg l hl t ht
    have := key g hg l hl
    rw [ht] at this
    simpa using this
  · refine ⟨rfl, rfl, ?_, by decide, ?_⟩
    · intro q hq q' hq' _
      simp only [List.mem_cons, List.not_mem_nil, or_false] at hq hq'
      rw [hq, hq']
    intro q hq lc hlc
    simp only [List.mem_cons, List.not_mem_nil, or_false] at hq
    subst hq
    have : lc = ⟨[101], [(2, .poly [97]), (5, .poly [98]), (1, .one)]⟩ := by
      have h' : TraitDefault.lcGet [(⟨[101], [(2, .poly [97]), (5, .poly [98]), (1, .one)]⟩ : LC.LinComb K)] [101]
          = some ⟨[101], [(2, .poly [97]), (5, .poly [98]), (1, .one)]⟩ := by decide
      rw [h'] at hlc
      exact (Option.some.inj hlc).symm
    subst this
    decide

/-- a displaced proof: the first proof of the history (made at the empty history) verified after
one other event is rejected; the hypotheses of `hyrax_displaced_rejected` hold (`com_eval = 29 ≠ 0`,
the two challenges are `45` and `52`), while at its own position it is accepted -/
example : openT TEx.ro ([3, 5] : List K) 7 (toItems (TEx.trips.take 1)) [6, 17] TEx.draws []
      = .ok ([⟨29, 16, 54, [16, 8], 29, 58, 1⟩], TEx.draws.drop 5,
          absorbIter [] [3, 5] 7 [88, 65] [6, 17] 29 16 54 ++ [.squeezeField 1]) ∧
    key0 ([3, 5] : List K) = some 3 ∧
    TEx.ro.fe (absorbIter [.squeezeField 1] [3, 5] 7 [88, 65] [6, 17] 29 16 54) 0
      ≠ TEx.ro.fe (absorbIter [] [3, 5] 7 [88, 65] [6, 17] 29 16 54) 0 ∧ (29 : K) ≠ 0 ∧
    (checkT TEx.ro ([3, 5] : List K) 7 [[88, 65]] [6, 17] [41] [⟨29, 16, 54, [16, 8], 29, 58, 1⟩]
      [.squeezeField 1]).map (·.1) = .ok false ∧
    (checkT TEx.ro ([3, 5] : List K) 7 [[88, 65]] [6, 17] [41] [⟨29, 16, 54, [16, 8], 29, 58, 1⟩]
      []).map (·.1) = .ok true := by decide
/-- a proof rejected at the evaluation commitment leaves the verifier's sponge untouched (the
verifier then lags the prover by the whole opening) -/
example : checkT TEx.ro ([3, 5] : List K) 7 [[88, 65]] [6, 17] [42] [⟨29, 16, 54, [16, 8], 29, 58, 1⟩] []
    = .ok (false, []) := by decide

end PCV.C11
