/-
  Property C04 — degree bounds, SonicKZG10: admission errors at `trim` / `commit` / `open`, the table
  of per-bound G2 elements, and the exact acceptance condition of a mislabelled degree bound.
-/
import PCV.Proofs.SonicExamples

namespace PCV.C04
open PCV PCV.Sonic
open PCV.Marlin (Label LPoly Query checkDegreesAndBounds)
variable {F : Type} [Field F] [DecidableEq F]

/-- **trim**: a requested bound larger than the supported degree is refused
(`UnsupportedDegreeBound`) — for any parameter set. -/
theorem sonic_trim_refuses_bound_beyond_supported (pp : UParams F) (s shb : Nat) (l : List Nat)
    (d : Nat) (hp : pp.powers ≠ []) (hs : s ≤ pp.powers.length - 1) (hd : d ∈ l) (hds : d > s) :
    trim pp s shb (some l) = .error .unsupportedBound :=
  trim_refuses_bound pp s shb l d hp hs hd hds

/-- **commit**: a bound that was not announced to `trim` is refused. -/
theorem sonic_commit_refuses_unannounced_bound (ck : CK F) (p : LPoly F) (rng : Bool)
    (draws : List F) (d : Nat) (hb : p.bound = some d) (h : ∀ bs, ck.bounds = some bs → d ∉ bs) :
    commitOne ck p rng draws = .error .unsupportedBound :=
  commitOne_refuses_bound ck p rng draws d hb _ (checkDB_unsupported _ _ _ _ h)

/-- **commit**: a polynomial of degree above its claimed bound is refused. -/
theorem sonic_commit_refuses_degree_above_bound (ck : CK F) (p : LPoly F) (rng : Bool)
    (draws : List F) (d : Nat) (bs : List Nat) (hb : p.bound = some d) (hbs : ck.bounds = some bs)
    (hd : d ∈ bs) (hdeg : d < pdeg p.poly) :
    commitOne ck p rng draws = .error .incorrectBound :=
  commitOne_refuses_bound ck p rng draws d hb _ (by rw [hbs]; exact checkDB_incorrect _ _ _ _ hd (Or.inl hdeg))

/-- **commit**: an unbounded polynomial of degree above the supported degree is refused. -/
theorem sonic_commit_refuses_degree_above_supported (ck : CK F) (p : LPoly F) (rng : Bool)
    (draws : List F) (hb : p.bound = none) (hd : pdeg p.poly + 1 > ck.powers.length) :
    commitOne ck p rng draws = .error .tooManyCoefficients :=
  commitOne_refuses_degree ck p rng draws hb hd

/-- **open** applies the same admission test to every polynomial before using it. -/
theorem sonic_open_refuses_inadmissible (ck : CK F) (p : LPoly F) (ps : List (LPoly F)) (st : List F)
    (sts : List (List F)) (z ξ : F) (ξs : List F) (e : Err)
    (h : checkDegreesAndBounds ck.maxDegree ck.bounds p.poly p.bound = .error e) :
    Sonic.open ck (p :: ps) z (st :: sts) (ξ :: ξs) = .error e :=
  open_refuses_bound ck p ps st sts z ξ ξs e h

/-- **The table of shift elements**: for parameters made from a trapdoor, the verifier key pairs
exactly the bounds of `sort(dedup B)` with `β^{-(D-d)}·h`; every other bound has no entry. -/
theorem sonic_trim_shift_table (g γ β bi h : F) (D s shb : Nat) (l : List Nat) (ck : CK F) (vk : VK F)
    (ht : trim (wfPP g γ β bi h D) s shb (some l) = .ok (ck, vk)) (d : Nat) :
    (d ∈ l → vk.shiftPower d = some (fpow bi (D - d) * h) ∧ d ≤ s) ∧
    (d ∉ l → vk.shiftPower d = none) := by
  refine ⟨fun hd => ?_, fun hd => shiftPower_none _ s shb (some l) ck vk ht d
    (fun l' hl' => by injection hl' with e; subst e; exact hd)⟩
  obtain ⟨h1, h2, _⟩ := shiftOf_wf g γ β bi h D s shb l ck vk ht d hd
  exact ⟨h1, h2⟩

section
variable (g γ β bi h : F) (hb : β * bi = 1) (D s shb : Nat) (bounds : Option (List Nat))
  (ck : CK F) (vk : VK F) (ht : trim (wfPP g γ β bi h D) s shb bounds = .ok (ck, vk))
  (ps : List (LPoly F)) (rng : Bool) (draws : List F) (cs : List (LComm F)) (rs : List (List F))
  (drest : List F) (hc : commit ck ps rng draws = .ok (cs, rs, drest))
  (z : F) (ξs : List F) (π : KZG.Proof F) (rest : List F)
  (ho : Sonic.open ck ps z rs ξs = .ok (π, rest))
include hb ht hc ho

/-- **Mislabelled degree bound, any position.**  An honest transcript in which the `j`-th commitment
is presented under another bound label `b` of the key is accepted iff
`ξⱼ·Cⱼ·(σ(b) − σ(bⱼ)) = 0` (`σ` the G2 partner). -/
theorem sonic_mislabel_iff (b : Option Nat) (hbs : (vk.shiftOf b).isSome = true) (j : Nat) :
    check vk (relabelAt j b cs) z (ps.map fun p => evalPoly p.poly z) π ξs = .ok (true, rest) ↔
      relabelTerm vk.shiftD b j cs (ps.map fun p => evalPoly p.poly z) ξs = 0 :=
  honest_relabel_iff g γ β bi h hb D s shb bounds ck vk ht cs ps rs
    (commit_honest g γ β bi h hb D s shb bounds ck vk ht ps rng draws cs rs drest hc) z ξs π rest ho
    b hbs j

end

/-- a bound label the key has no G2 element for is refused (`UnsupportedDegreeBound`), not decided —
any key, any transcript -/
theorem sonic_unsupported_label_refused (vk : VK F) (cs : List (LComm F)) (z : F) (vs : List F)
    (π : KZG.Proof F) (ξs : List F)
    (hr : (restOf cs vs ξs).isSome = true) (hbad : boundsOk vk.shiftOf cs vs ξs = false) :
    check vk cs z vs π ξs = .error .unsupportedBound :=
  check_unsupported vk cs z vs π ξs hr hbad

/-- **Mislabelled degree bound, one polynomial, explicit.**  A commitment `C` made under the bound
`d'` and presented under the bound `d` (both enforced) is accepted iff
`ξ·C·(β^{-(D-d)} − β^{-(D-d')})·h = 0`. -/
theorem sonic_mislabel_single (g γ β bi h : F) (hb : β * bi = 1) (D s shb : Nat) (l : List Nat)
    (ck : CK F) (vk : VK F) (ht : trim (wfPP g γ β bi h D) s shb (some l) = .ok (ck, vk))
    (p : LPoly F) (d' d : Nat) (hp : p.bound = some d') (hd : d ∈ l)
    (rng : Bool) (draws : List F) (c : LComm F) (r : List F) (drest : List F)
    (hc : commit ck [p] rng draws = .ok ([c], [r], drest))
    (z ξ : F) (ξs : List F) (π : KZG.Proof F) (rest : List F)
    (ho : Sonic.open ck [p] z [r] (ξ :: ξs) = .ok (π, rest)) :
    check vk [⟨c.label, c.comm, some d⟩] z [evalPoly p.poly z] π (ξ :: ξs) = .ok (true, rest) ↔
      ξ * c.comm * (fpow bi (D - d) * h - fpow bi (D - d') * h) = 0 := by
  have hh := commit_honest g γ β bi h hb D s shb (some l) ck vk ht [p] rng draws [c] [r] drest hc
  obtain ⟨⟨hbd, _, _, _, hdb⟩, _⟩ := hh
  obtain ⟨_, _, _, hσ', hmem⟩ := powersFor_wf g γ β bi h D s shb (some l) ck vk ht p.poly p.bound hdb
  obtain ⟨hσ, _, _⟩ := shiftOf_wf g γ β bi h D s shb l ck vk ht d hd
  have := sonic_mislabel_iff g γ β bi h hb D s shb (some l) ck vk ht [p] rng draws [c] [r] drest hc z
    (ξ :: ξs) π rest ho (some d) (by rw [hσ]; rfl) 0
  simp only [relabelAt, List.map_cons, List.map_nil, relabelTerm] at this
  rw [this]
  rw [hp] at hσ' hbd
  simp only [VK.shiftD, hσ, hbd, hσ', kOf, Option.getD_some]

/-- … hence rejected whenever the commitment, the challenge and `h` are non-zero and the two shift
elements differ (`β^{-(D-d)} ≠ β^{-(D-d')}`). -/
theorem sonic_mislabel_single_rejected (g γ β bi h : F) (hb : β * bi = 1) (D s shb : Nat)
    (l : List Nat) (ck : CK F) (vk : VK F)
    (ht : trim (wfPP g γ β bi h D) s shb (some l) = .ok (ck, vk))
    (p : LPoly F) (d' d : Nat) (hp : p.bound = some d') (hd : d ∈ l)
    (rng : Bool) (draws : List F) (c : LComm F) (r : List F) (drest : List F)
    (hc : commit ck [p] rng draws = .ok ([c], [r], drest))
    (z ξ : F) (ξs : List F) (π : KZG.Proof F) (rest : List F)
    (ho : Sonic.open ck [p] z [r] (ξ :: ξs) = .ok (π, rest))
    (hξ : ξ ≠ 0) (hC : c.comm ≠ 0) (hh : h ≠ 0) (hne : fpow bi (D - d) ≠ fpow bi (D - d')) :
    check vk [⟨c.label, c.comm, some d⟩] z [evalPoly p.poly z] π (ξ :: ξs) ≠ .ok (true, rest) := by
  intro hacc
  have := (sonic_mislabel_single g γ β bi h hb D s shb l ck vk ht p d' d hp hd rng draws c r drest hc
    z ξ ξs π rest ho).1 hacc
  have e : ξ * c.comm * (fpow bi (D - d) * h - fpow bi (D - d') * h)
      = ξ * c.comm * ((fpow bi (D - d) - fpow bi (D - d')) * h) := by ring
  rw [e] at this
  rcases mul_eq_zero.1 this with h0 | h0
  · rcases mul_eq_zero.1 h0 with h1 | h1
    · exact hξ h1
    · exact hC h1
  · rcases mul_eq_zero.1 h0 with h1 | h1
    · exact hne (sub_eq_zero.1 h1)
    · exact hh h1

/-- non-vacuity: on the concrete key (enforced bounds {2, 3}, supported 3, D = 4): a bound 4 is refused
at trim, an unannounced bound and a too-small bound at commit; the first commitment (bound 3)
relabelled as bound 2 is rejected, relabelled as bound 1 refused -/
example : trim Ex.pp 3 1 (some [2, 4]) = .error .unsupportedBound := by decide
example : commitOne Ex.ck ⟨[112], [1, 2], some 1, none⟩ false ([] : List K) = .error .unsupportedBound := by
  decide
example : commitOne Ex.ck ⟨[112], [1, 2, 3, 4], some 2, none⟩ false ([] : List K) = .error .incorrectBound := by
  decide
example : commitOne Ex.ck ⟨[112], [1, 2, 3, 4, 5], none, none⟩ false ([] : List K)
    = .error .tooManyCoefficients := by decide
example : check Ex.vk (relabelAt 0 (some 2) Ex.comms) 5 Ex.vals Ex.proof Ex.xis = .ok (false, [23]) := by
  decide
example : relabelTerm Ex.vk.shiftD (some 2) 0 Ex.comms Ex.vals Ex.xis ≠ 0 ∧
    (Ex.vk.shiftOf (some 2)).isSome = true := by decide
example : check Ex.vk (relabelAt 0 (some 1) Ex.comms) 5 Ex.vals Ex.proof Ex.xis
    = .error .unsupportedBound := by decide
example : Ex.vk.shiftPower 3 = some (fpow (51 : K) (4 - 3) * 7) ∧ Ex.vk.shiftPower 1 = none := by decide

end PCV.C04
