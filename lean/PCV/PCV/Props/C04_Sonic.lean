/-
  Property C04 — degree bounds, SonicKZG10: admission errors at `trim` / `commit` / `open`, the table
  of per-bound G2 elements, and the exact acceptance condition of a mislabelled degree bound.
-/
import PCV.Proofs.SonicExamples
import PCV.Proofs.SonicBound

namespace PCV.C04
open PCV PCV.Sonic
open PCV.Marlin (Label LPoly Query checkDegreesAndBounds)
variable {F : Type} [Field F] [DecidableEq F]

/-- **trim**: a requested bound larger than the supported degree is refused
(`UnsupportedDegreeBound`) — for any parameter set. -/
theorem sonic_trim_refuses_bound_beyond_supported (pp : UParams F) (s shb : Nat) (l : List Nat)
    (d : Nat) (hp : pp.powers ≠ []) (hs : s ≤ pp.powers.length - 1) (hd : d ∈ l) (hds : d > s) :
    trim pp s shb (some l) = .error .unsupportedBound :=
  trim_refuses_bound pp s shb l d hp hs hd hds

/-- **commit**: a bound that was not announced to `trim` is refused. -/
theorem sonic_commit_refuses_unannounced_bound (ck : CK F) (p : LPoly F) (rng : Bool)
    (draws : List F) (d : Nat) (hb : p.bound = some d) (h : ∀ bs, ck.bounds = some bs → d ∉ bs) :
    commitOne ck p rng draws = .error .unsupportedBound :=
  commitOne_refuses_bound ck p rng draws d hb _ (checkDB_unsupported _ _ _ _ h)

/-- **commit**: a polynomial of degree above its claimed bound is refused. -/
theorem sonic_commit_refuses_degree_above_bound (ck : CK F) (p : LPoly F) (rng : Bool)
    (draws : List F) (d : Nat) (bs : List Nat) (hb : p.bound = some d) (hbs : ck.bounds = some bs)
    (hd : d ∈ bs) (hdeg : d < pdeg p.poly) :
    commitOne ck p rng draws = .error .incorrectBound :=
  commitOne_refuses_bound ck p rng draws d hb _ (by rw [hbs]; exact checkDB_incorrect _ _ _ _ hd (Or.inl hdeg))

/-- **commit**: an unbounded polynomial of degree above the supported degree is refused. -/
theorem sonic_commit_refuses_degree_above_supported (ck : CK F) (p : LPoly F) (rng : Bool)
    (draws : List F) (hb : p.bound = none) (hd : pdeg p.poly + 1 > ck.powers.length) :
    commitOne ck p rng draws = .error .tooManyCoefficients :=
  commitOne_refuses_degree ck p rng draws hb hd

/-- **open** applies the same admission test to every polynomial before using it. -/
theorem sonic_open_refuses_inadmissible (ck : CK F) (p : LPoly F) (ps : List (LPoly F)) (st : List F)
    (sts : List (List F)) (z ξ : F) (ξs : List F) (e : Err)
    (h : checkDegreesAndBounds ck.maxDegree ck.bounds p.poly p.bound = .error e) :
    Sonic.open ck (p :: ps) z (st :: sts) (ξ :: ξs) = .error e :=
  open_refuses_bound ck p ps st sts z ξ ξs e h

/-- **The table of shift elements**: for parameters made from a trapdoor, the verifier key pairs
exactly the bounds of `sort(dedup B)` with `β^{-(D-d)}·h`; every other bound has no entry. -/
theorem sonic_trim_shift_table (g γ β bi h : F) (D s shb : Nat) (l : List Nat) (ck : CK F) (vk : VK F)
    (ht : trim (wfPP g γ β bi h D) s shb (some l) = .ok (ck, vk)) (d : Nat) :
    (d ∈ l → vk.shiftPower d = some (fpow bi (D - d) * h) ∧ d ≤ s) ∧
    (d ∉ l → vk.shiftPower d = none) := by
  refine ⟨fun hd => ?_, fun hd => shiftPower_none _ s shb (some l) ck vk ht d
    (fun l' hl' => by injection hl' with e; subst e; exact hd)⟩
  obtain ⟨h1, h2, _⟩ := shiftOf_wf g γ β bi h D s shb l ck vk ht d hd
  exact ⟨h1, h2⟩

section
variable (g γ β bi h : F) (hb : β * bi = 1) (D s shb : Nat) (bounds : Option (List Nat))
  (ck : CK F) (vk : VK F) (ht : trim (wfPP g γ β bi h D) s shb bounds = .ok (ck, vk))
  (ps : List (LPoly F)) (rng : Bool) (draws : List F) (cs : List (LComm F)) (rs : List (List F))
  (drest : List F) (hc : commit ck ps rng draws = .ok (cs, rs, drest))
  (z : F) (ξs : List F) (π : KZG.Proof F) (rest : List F)
  (ho : Sonic.open ck ps z rs ξs = .ok (π, rest))
include hb ht hc ho

/-- **Mislabelled degree bound, any position.**  An honest transcript in which the `j`-th commitment
is presented under another bound label `b` of the key is accepted iff
`ξⱼ·Cⱼ·(σ(b) − σ(bⱼ)) = 0` (`σ` the G2 partner). -/
theorem sonic_mislabel_iff (b : Option Nat) (hbs : (vk.shiftOf b).isSome = true) (j : Nat) :
    check vk (relabelAt j b cs) z (ps.map fun p => evalPoly p.poly z) π ξs = .ok (true, rest) ↔
      relabelTerm vk.shiftD b j cs (ps.map fun p => evalPoly p.poly z) ξs = 0 :=
  honest_relabel_iff g γ β bi h hb D s shb bounds ck vk ht cs ps rs
    (commit_honest g γ β bi h hb D s shb bounds ck vk ht ps rng draws cs rs drest hc) z ξs π rest ho
    b hbs j

end

/-- a bound label the key has no G2 element for is refused (`UnsupportedDegreeBound`), not decided —
any key, any transcript -/
theorem sonic_unsupported_label_refused (vk : VK F) (cs : List (LComm F)) (z : F) (vs : List F)
    (π : KZG.Proof F) (ξs : List F)
    (hr : (restOf cs vs ξs).isSome = true) (hbad : boundsOk vk.shiftOf cs vs ξs = false) :
    check vk cs z vs π ξs = .error .unsupportedBound :=
  check_unsupported vk cs z vs π ξs hr hbad

/-- **Mislabelled degree bound, one polynomial, explicit.**  A commitment `C` made under the bound
`d'` and presented under the bound `d` (both enforced) is accepted iff
`ξ·C·(β^{-(D-d)} − β^{-(D-d')})·h = 0`. -/
theorem sonic_mislabel_single (g γ β bi h : F) (hb : β * bi = 1) (D s shb : Nat) (l : List Nat)
    (ck : CK F) (vk : VK F) (ht : trim (wfPP g γ β bi h D) s shb (some l) = .ok (ck, vk))
    (p : LPoly F) (d' d : Nat) (hp : p.bound = some d') (hd : d ∈ l)
    (rng : Bool) (draws : List F) (c : LComm F) (r : List F) (drest : List F)
    (hc : commit ck [p] rng draws = .ok ([c], [r], drest))
    (z ξ : F) (ξs : List F) (π : KZG.Proof F) (rest : List F)
    (ho : Sonic.open ck [p] z [r] (ξ :: ξs) = .ok (π, rest)) :
    check vk [⟨c.label, c.comm, some d⟩] z [evalPoly p.poly z] π (ξ :: ξs) = .ok (true, rest) ↔
      ξ * c.comm * (fpow bi (D - d) * h - fpow bi (D - d') * h) = 0 := by
  have hh := commit_honest g γ β bi h hb D s shb (some l) ck vk ht [p] rng draws [c] [r] drest hc
  obtain ⟨⟨hbd, _, _, _, hdb⟩, _⟩ := hh
  obtain ⟨_, _, _, hσ', hmem⟩ := powersFor_wf g γ β bi h D s shb (some l) ck vk ht p.poly p.bound hdb
  obtain ⟨hσ, _, _⟩ := shiftOf_wf g γ β bi h D s shb l ck vk ht d hd
  have := sonic_mislabel_iff g γ β bi h hb D s shb (some l) ck vk ht [p] rng draws [c] [r] drest hc z
    (ξ :: ξs) π rest ho (some d) (by rw [hσ]; rfl) 0
  simp only [relabelAt, List.map_cons, List.map_nil, relabelTerm] at this
  rw [this]
  rw [hp] at hσ' hbd
  simp only [VK.shiftD, hσ, hbd, hσ', kOf, Option.getD_some]

/-- … hence rejected whenever the commitment, the challenge and `h` are non-zero and the two shift
elements differ (`β^{-(D-d)} ≠ β^{-(D-d')}`). -/
theorem sonic_mislabel_single_rejected (g γ β bi h : F) (hb : β * bi = 1) (D s shb : Nat)
    (l : List Nat) (ck : CK F) (vk : VK F)
    (ht : trim (wfPP g γ β bi h D) s shb (some l) = .ok (ck, vk))
    (p : LPoly F) (d' d : Nat) (hp : p.bound = some d') (hd : d ∈ l)
    (rng : Bool) (draws : List F) (c : LComm F) (r : List F) (drest : List F)
    (hc : commit ck [p] rng draws = .ok ([c], [r], drest))
    (z ξ : F) (ξs : List F) (π : KZG.Proof F) (rest : List F)
    (ho : Sonic.open ck [p] z [r] (ξ :: ξs) = .ok (π, rest))
    (hξ : ξ ≠ 0) (hC : c.comm ≠ 0) (hh : h ≠ 0) (hne : fpow bi (D - d) ≠ fpow bi (D - d')) :
    check vk [⟨c.label, c.comm, some d⟩] z [evalPoly p.poly z] π (ξ :: ξs) ≠ .ok (true, rest) := by
  intro hacc
  have := (sonic_mislabel_single g γ β bi h hb D s shb l ck vk ht p d' d hp hd rng draws c r drest hc
    z ξ ξs π rest ho).1 hacc
  have e : ξ * c.comm * (fpow bi (D - d) * h - fpow bi (D - d') * h)
      = ξ * c.comm * ((fpow bi (D - d) - fpow bi (D - d')) * h) := by ring
  rw [e] at this
  rcases mul_eq_zero.1 this with h0 | h0
  · rcases mul_eq_zero.1 h0 with h1 | h1
    · exact hξ h1
    · exact hC h1
  · rcases mul_eq_zero.1 h0 with h1 | h1
    · exact hne (sub_eq_zero.1 h1)
    · exact hh h1

/-- non-vacuity: on the concrete key (enforced bounds {2, 3}, supported 3, D = 4): a bound 4 is refused
at trim, an unannounced bound and a too-small bound at commit; the first commitment (bound 3)
relabelled as bound 2 is rejected, relabelled as bound 1 refused -/
example : trim Ex.pp 3 1 (some [2, 4]) = .error .unsupportedBound := by decide
example : commitOne Ex.ck ⟨[112], [1, 2], some 1, none⟩ false ([] : List K) = .error .unsupportedBound := by
  decide
example : commitOne Ex.ck ⟨[112], [1, 2, 3, 4], some 2, none⟩ false ([] : List K) = .error .incorrectBound := by
  decide
example : commitOne Ex.ck ⟨[112], [1, 2, 3, 4, 5], none, none⟩ false ([] : List K)
    = .error .tooManyCoefficients := by decide
example : check Ex.vk (relabelAt 0 (some 2) Ex.comms) 5 Ex.vals Ex.proof Ex.xis = .ok (false, [23]) := by
  decide
example : relabelTerm Ex.vk.shiftD (some 2) 0 Ex.comms Ex.vals Ex.xis ≠ 0 ∧
    (Ex.vk.shiftOf (some 2)).isSome = true := by decide
example : check Ex.vk (relabelAt 0 (some 1) Ex.comms) 5 Ex.vals Ex.proof Ex.xis
    = .error .unsupportedBound := by decide
example : Ex.vk.shiftPower 3 = some (fpow (51 : K) (4 - 3) * 7) ∧ Ex.vk.shiftPower 1 = none := by decide

/-- **"Accepted only if produced for a polynomial of degree ≤ d" (Sonic), the reduction.**  Keys made
by `trim` from a trapdoor; an algebraic committer/prover: commitment `g·q(β)` for ANY coefficient list
`q` over the published powers, witness `g·a(β)`.  If the commitment is accepted under the bound `d`,
the trapdoor is a root of `ξ·q − X^{D−d}·(ξ·v + a·(X − z))`. -/
theorem sonic_bound_forgery_root (g γ β bi h : F) (hb : β * bi = 1) (D s shb : Nat) (l : List Nat)
    (ck : CK F) (vk : VK F) (ht : trim (wfPP g γ β bi h D) s shb (some l) = .ok (ck, vk))
    (d : Nat) (hd : d ∈ l) (hg : g ≠ 0) (hh : h ≠ 0)
    (lab : Marlin.Label) (q a : List F) (z v ξ : F) (ξs rest : List F)
    (hacc : check vk [⟨lab, g * evalPoly q β, some d⟩] z [v] ⟨g * evalPoly a β, none⟩ (ξ :: ξs)
      = .ok (true, rest)) :
    evalPoly (boundExtract q a z v ξ (D - d)) β = 0 := by
  obtain ⟨_, _, _, _, _, _, h7, _, h9, h10, _, _⟩ := trim_wf_basic g γ β bi h D s shb (some l) ck vk ht
  obtain ⟨hσ, _, _⟩ := shiftOf_wf g γ β bi h D s shb l ck vk ht d hd
  exact bounded_check_root vk g β bi h hb D d h7 h9 h10 hσ hg hh lab q a z v ξ ξs rest hacc

/-- … and that polynomial is not zero when `q` is not `X^{D−d}·(polynomial)`: a non-zero coefficient
of `q` below `X^{D−d}` (with `ξ ≠ 0`) is a non-zero coefficient of the extraction polynomial, whose
roots are few.  So a commitment accepted under the bound `d` commits to `X^{D−d}·p` with `p` of degree
at most `d` (it has at most `D+1` coefficients in all), unless the forger has found the trapdoor among
the roots of a polynomial it knows. -/
theorem sonic_degree_bound_sound (q a : List F) (z v ξ : F) (k : Nat) (hξ : ξ ≠ 0)
    (hlow : ∃ i, i < k ∧ coeff q i ≠ 0) :
    ∃ S : Finset F, S.card ≤ (boundExtract q a z v ξ k).length - 1 ∧
      ∀ β, evalPoly (boundExtract q a z v ξ k) β = 0 → β ∈ S :=
  bound_forgery_exceptional_set q a z v ξ k hξ hlow

/-- non-vacuity: `q = 1 + X³` under `k = D − d = 1` has the low coefficient `1` -/
example : coeff ([1, 0, 0, 1] : List K) 0 ≠ 0 ∧
    coeff (boundExtract ([1, 0, 0, 1] : List K) [2] 5 7 11 1) 0 = 11 := by decide

end PCV.C04
