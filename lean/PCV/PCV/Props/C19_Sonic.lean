/-
  Property C19 — succinctness, SonicKZG10: a commitment is ONE group element whether or not a degree
  bound is declared (the bound is carried by the label, not by a second element as in MarlinKZG10), an
  opening proof is one group element plus an optional field element whatever the number and degrees of
  the polynomials, and batch / combination proofs have exactly one such proof per point label.
  (`LComm.comm : F` and `KZG.Proof = ⟨w, rv⟩` have these shapes by construction; the theorems give the
  counts and say when the optional scalar is present.)
-/
import PCV.Proofs.SonicLCExamples
import PCV.Props.C19

set_option linter.unusedSectionVars false
set_option linter.unusedVariables false

namespace PCV.C19
open PCV PCV.Sonic
open PCV.Marlin (Label LPoly Query groupQueries)
variable {F : Type} [Field F] [DecidableEq F]

/-- number of group elements / field elements of an opening proof -/
def sonicProofSize (π : KZG.Proof F) : Nat × Nat := (1, if π.rv.isSome then 1 else 0)

/-- **Commitments**: `commit` returns exactly one labelled commitment — one group element — and one
state per polynomial, and the commitment's bound label is the polynomial's (no second element for a
degree bound). -/
theorem sonic_commitment_shape (ck : CK F) (ps : List (LPoly F)) (rng : Bool) (draws : List F)
    (cs : List (LComm F)) (rs : List (List F)) (rest : List F)
    (h : commit ck ps rng draws = .ok (cs, rs, rest)) :
    cs.length = ps.length ∧ rs.length = ps.length ∧ cs.map (·.bound) = ps.map (·.bound) := by
  induction ps generalizing draws cs rs rest with
  | nil =>
    simp only [commit] at h
    injection h with h; injection h with h1 h2; injection h2 with h2 _
    subst h1; subst h2; exact ⟨rfl, rfl, rfl⟩
  | cons p ps ih =>
    simp only [commit] at h
    split at h
    · cases h
    · split at h
      · cases h
      · rename_i hrest
        injection h with h; injection h with h1 h2; injection h2 with h2 _
        subst h1; subst h2
        obtain ⟨i1, i2, i3⟩ := ih _ _ _ _ hrest
        simp [i1, i2, i3]

/-- **Per-point proof**: one group element, and the optional scalar is present exactly when the
challenge-combined blinding polynomial is non-zero — independent of the number and the degrees of the
polynomials opened. -/
theorem sonic_proof_shape (ck : CK F) (ps : List (LPoly F)) (z : F) (sts : List (List F))
    (ξs : List F) (π : KZG.Proof F) (rest : List F)
    (h : Sonic.open ck ps z sts ξs = .ok (π, rest)) :
    ∃ P R, openLoop ck ps sts ξs ([], []) = .ok ((P, R), rest) ∧ π.rv.isSome = !isZeroPoly R ∧
      (sonicProofSize π).1 = 1 ∧ (sonicProofSize π).2 ≤ 1 := by
  unfold Sonic.open at h
  split at h
  · cases h
  · rename_i P R rest' hloop
    split at h
    · cases h
    · rename_i π' hk
      injection h with h; injection h with h1 h2
      subst h1; subst h2
      refine ⟨P, R, hloop, kzg10_proof_scalar_iff_hiding _ P z R π' hk, rfl, ?_⟩
      unfold sonicProofSize
      split <;> simp

/-- without hiding (every state is the empty blinding polynomial) the proof is the group element alone -/
theorem sonic_proof_nonhiding (ck : CK F) (ps : List (LPoly F)) (z : F) (sts : List (List F))
    (hst : ∀ st ∈ sts, st = []) (ξs : List F) (π : KZG.Proof F) (rest : List F)
    (h : Sonic.open ck ps z sts ξs = .ok (π, rest)) : π.rv = none := by
  obtain ⟨P, R, hloop, hrv, _⟩ := sonic_proof_shape ck ps z sts ξs π rest h
  have hR : ∀ (ps : List (LPoly F)) (sts : List (List F)) (ξs : List F) (acc : List F × List F)
      (P R rest : List F), (∀ st ∈ sts, st = []) → openLoop ck ps sts ξs acc = .ok ((P, R), rest) →
      R = acc.2 := by
    intro ps
    induction ps with
    | nil =>
      intro sts ξs acc P R rest _ hl
      cases ξs with
      | nil => cases sts <;> simp [openLoop] at hl
      | cons ξ ξs => cases sts <;> (simp only [openLoop] at hl; injection hl with hl; injection hl with hl _; rw [hl])
    | cons p ps ih =>
      intro sts ξs acc P R rest hst hl
      cases sts with
      | nil =>
        cases ξs with
        | nil => simp [openLoop] at hl
        | cons ξ ξs => simp only [openLoop] at hl; injection hl with hl; injection hl with hl _; rw [hl]
      | cons st sts =>
        cases ξs with
        | nil => simp [openLoop] at hl
        | cons ξ ξs =>
          simp only [openLoop] at hl
          split at hl
          · cases hl
          · have := ih sts ξs _ P R rest (fun s hs => hst s (List.mem_cons_of_mem _ hs)) hl
            rw [this, hst st (by simp)]
            simp only [pscale, List.map_nil]
            cases acc.2 <;> simp [padd]
  have : R = [] := hR ps sts ξs ([], []) P R rest hst hloop
  subst this
  cases hx : π.rv with
  | none => rfl
  | some _ => rw [hx] at hrv; simp [isZeroPoly, pnorm] at hrv

/-- **Batch proofs**: exactly one per-point proof per point label of the query set -/
theorem sonic_batch_proof_count (ck : CK F) (polys : List (LPoly F)) (sts : List (List F))
    (qs : List (Query F)) (ξs : List F) (πs : List (KZG.Proof F)) (rest : List F)
    (h : batchOpen ck polys sts qs ξs = .ok (πs, rest)) :
    πs.length = (groupQueries qs).length ∧ πs.length ≤ qs.length := by
  have hcount : ∀ (gs : List (Label × (F × List Label))) (ξs : List F) (πs : List (KZG.Proof F))
      (rest : List F), batchOpenGroups ck polys sts gs ξs = .ok (πs, rest) → πs.length = gs.length := by
    intro gs
    induction gs with
    | nil =>
      intro ξs πs rest h
      simp only [batchOpenGroups] at h
      injection h with h; injection h with h1 _; rw [← h1]; rfl
    | cons g gs ih =>
      intro ξs πs rest h
      simp only [batchOpenGroups] at h
      split at h
      · cases h
      · split at h
        · cases h
        · split at h
          · cases h
          · rename_i πs' rest' hrec
            injection h with h; injection h with h1 _
            rw [← h1]; simp [ih _ _ _ hrec]
  have h1 := hcount _ ξs πs rest h
  exact ⟨h1, by rw [h1]; exact group_count_le qs⟩

/-- **Combination proofs**: one per-point proof per point label, whatever the number of combinations
and of their terms; and the verifier refuses (aborts on) any other count. -/
theorem sonic_lc_proof_count (ck : CK F) (polys : List (LPoly F)) (sts : List (List F))
    (comms : List (LComm F)) (lcs : List (LC.LinComb F)) (qs : List (Query F)) (ξs : List F)
    (πs : List (KZG.Proof F)) (rest : List F)
    (h : openCombinations ck polys sts comms lcs qs ξs = .ok (πs, rest)) :
    πs.length = (groupQueries qs).length := by
  unfold openCombinations at h
  split at h
  · cases h
  · exact (sonic_batch_proof_count ck _ _ qs ξs πs rest h).1

theorem sonic_batch_check_count (vk : VK F) (comms : List (LComm F)) (qs : List (Query F))
    (evals : List ((Label × F) × F)) (πs : List (KZG.Proof F)) (ξs rs : List F) (b : Bool)
    (h : batchCheck vk comms qs evals πs ξs rs = .ok b) :
    πs.length = (groupQueries qs).length := by
  unfold batchCheck at h
  simp only at h
  split at h
  · cases h
  · rename_i hl; by_contra hne; exact hl hne

/-! ### non-vacuity -/

/-- three polynomials (two bounded, one hiding): three commitments of one element each; the proof for
all three at one point is `(w, some rv)`; the batch over two point labels has two proofs; the
combination batch over three point labels has three -/
example : commit Ex.ck Ex.polys true [7, 0, 9, 4] = .ok (Ex.comms, Ex.rands, [4]) ∧
    Ex.comms.length = 3 ∧ Sonic.open Ex.ck Ex.polys 5 Ex.rands Ex.xis = .ok (⟨3, some 27⟩, [23]) ∧
    sonicProofSize (⟨3, some 27⟩ : KZG.Proof K) = (1, 1) := by decide
example : (groupQueries ExLC.qs).length = 3 ∧ ExLC.proofs.length = 3 ∧
    openCombinations Ex.ck Ex.polys Ex.rands Ex.comms ExLC.lcs ExLC.qs ExLC.xis
      = .ok (ExLC.proofs, [41]) := by decide
/-- a non-hiding opening has no scalar -/
example : Sonic.open Ex.ck [⟨[112, 49], [4, 0, 1], none, none⟩] 5 [[]] [11, 13]
    = .ok (⟨29, none⟩, []) := by decide

end PCV.C19
