/-
  Property C10 (verifiers decide exactly the published relation; every component matters) — the
  trait-default `batch_check` / `check_combinations` of `poly-commit/src/lib.rs`.  The relation they
  decide is built from the scheme's own `check` (`checkF`): C05/C06 state it as an equivalence; here are
  the component-wise consequences.  Only property theorems live here; lemmas are in
  PCV/Proofs/TraitDefault*.lean.
-/
import PCV.Proofs.TraitDefaultLC
import PCV.Proofs.TraitDefaultToy
set_option linter.unusedSectionVars false

namespace PCV.C10
open PCV TraitDefault
variable {Pt : Type} [DecidableEq Pt] {C V PF σ : Type}

/-- **Every proof, commitment, value and point of an accepted default batch went through the scheme's
`check`.** If `batch_check` accepts, then for the `i`-th point-label group (map order) and the `i`-th
proof: the commitments and values gathered for the group's labels — the LAST commitment listed under
each label, the claimed evaluation stored under `(label, group point)` — exist, and the scheme's `check`
accepted exactly (those commitments, the group's point, those values, that proof). -/
theorem default_batch_components (ltP : Pt → Pt → Bool) (lblC : C → Label)
    (checkF : List C → Pt → List V → PF → σ → Except Err (Bool × σ))
    (comms : List C) (qs : List (Query Pt)) (evals : List ((Label × Pt) × V)) (πs : List PF) (s s' : σ)
    (hacc : batchCheck ltP lblC checkF comms qs evals πs s = .ok (true, s')) :
    πs.length = (groups (querySet ltP qs)).length ∧
    ∀ x ∈ (groups (querySet ltP qs)).zip πs, ∃ cs vs s1 s2,
      gatherCheck lblC comms evals x.1.2.1 x.1.2.2 = .ok (cs, vs) ∧
      cs.map lblC = x.1.2.2 ∧
      (∀ y ∈ x.1.2.2.zip (cs.zip vs), Marlin.lookupLast lblC y.1 comms = some y.2.1 ∧
        QS.lastWith (y.1, x.1.2.1) evals = some y.2.2) ∧
      checkF cs x.1.2.1 vs x.2 s1 = .ok (true, s2) := by
  obtain ⟨hl, bs, hch, hr⟩ := (batchCheckSet_ok_iff lblC checkF comms _ evals πs s true s').1 hacc
  refine ⟨hl, fun x hx => ?_⟩
  obtain ⟨cs, vs, s1, s2, hg, hc⟩ :=
    chain_all_true_zip lblC checkF comms evals _ πs bs s s' hch ((chain_all_true bs).1 hr.symm) x hx
  obtain ⟨h1, _, h3⟩ := gatherCheck_labels lblC comms evals x.1.2.1 x.1.2.2 cs vs hg
  exact ⟨cs, vs, s1, s2, hg, h1, h3, hc⟩

/-- **Every group's verdict matters**: if the per-group checks all answer (none refuses) and one of them,
anywhere — first, middle or last —, answers `false`, the batch answers `false`. -/
theorem default_batch_one_false_rejects (ltP : Pt → Pt → Bool) (lblC : C → Label)
    (checkF : List C → Pt → List V → PF → σ → Except Err (Bool × σ))
    (comms : List C) (qs : List (Query Pt)) (evals : List ((Label × Pt) × V)) (πs : List PF) (s s' : σ)
    (bs : List Bool) (hch : Chain lblC checkF comms evals (groups (querySet ltP qs)) πs bs s s')
    (hf : false ∈ bs) :
    batchCheck ltP lblC checkF comms qs evals πs s = .ok (false, s') := by
  refine (batchCheckSet_ok_iff lblC checkF comms _ evals πs s false s').2
    ⟨(chain_lengths lblC checkF comms evals _ πs bs s s' hch).1, bs, hch, ?_⟩
  exact ((chain_false_mem bs).2 hf).symm

variable {F : Type} [Field F] [DecidableEq F]

/-- **The default `check_combinations` decides its relation, both ways**: it answers `false` iff the
evaluations are there and either the first queried equation (set order) that does not hold is a wrong
VALUE — everything needed to evaluate it being present — or all hold and the inner batch answers
`false`. (Acceptance: `C06.default_check_combinations_accepts_iff`; everything else is a refusal.) -/
theorem default_check_combinations_rejects_iff (ltP : Pt → Pt → Bool) (lblC : C → Label)
    (checkF : List C → Pt → List F → PF → σ → Except Err (Bool × σ))
    (lcs : List (LC.LinComb F)) (comms : List C) (qs : List (Query Pt))
    (ee : List ((Label × Pt) × F)) (πs : List PF) (evals : Option (List F)) (s s' : σ) :
    checkCombinations ltP lblC checkF lcs comms qs ee πs evals s = .ok (false, s') ↔
      ∃ evs, evals = some evs ∧
        (((∃ pre q post, querySet ltP qs = pre ++ q :: post ∧
            (∀ q' ∈ pre, EqnHolds lcs ee (polyEvals ltP (verifierPolyQuerySet ltP lcs qs) evs) q') ∧
            EqnFails lcs ee (polyEvals ltP (verifierPolyQuerySet ltP lcs qs) evs) q) ∧ s' = s) ∨
         ((∀ q ∈ qs, EqnHolds lcs ee (polyEvals ltP (verifierPolyQuerySet ltP lcs qs) evs) q) ∧
          batchCheckSet lblC checkF comms (verifierPolyQuerySet ltP lcs qs)
            (polyEvals ltP (verifierPolyQuerySet ltP lcs qs) evs) πs s = .ok (false, s'))) := by
  rw [checkCombinations_false_iff]
  constructor
  · rintro ⟨evs, rfl, h⟩
    refine ⟨evs, rfl, ?_⟩
    rcases h with ⟨h1, h2⟩ | ⟨h1, h2⟩
    · exact Or.inl ⟨(eqnLoop_false_iff lcs ee _ _).1 h1, h2⟩
    · exact Or.inr ⟨fun q hq => (eqnLoop_true_iff lcs ee _ _).1 h1 q ((mem_querySet ltP q qs).2 hq), h2⟩
  · rintro ⟨evs, rfl, h⟩
    refine ⟨evs, rfl, ?_⟩
    rcases h with ⟨h1, h2⟩ | ⟨h1, h2⟩
    · exact Or.inl ⟨(eqnLoop_false_iff lcs ee _ _).2 h1, h2⟩
    · exact Or.inr ⟨(eqnLoop_true_iff lcs ee _ _).2
        (fun q hq => h1 q ((mem_querySet ltP q qs).1 hq)), h2⟩

/-- a proof without evaluations is refused (`evals.unwrap()`) -/
theorem default_check_combinations_no_evals (ltP : Pt → Pt → Bool) (lblC : C → Label)
    (checkF : List C → Pt → List F → PF → σ → Except Err (Bool × σ))
    (lcs : List (LC.LinComb F)) (comms : List C) (qs : List (Query Pt))
    (ee : List ((Label × Pt) × F)) (πs : List PF) (s : σ) :
    checkCombinations ltP lblC checkF lcs comms qs ee πs none s = .error .abort := rfl

/-! non-vacuity over `ZMod 101` (`PCV.TraitDefault.Toy`): accepted batch; a `false` verdict of the FIRST
group only (wrong value of `a` under point label `x`; the groups of `y`, `z` accept) rejects; a wrong
proof for the last group rejects; a combination proof without evaluations is refused -/
example : batchCheck Toy.ltK Toy.lbl Toy.checkF Toy.polys Toy.qs Toy.evals [0, 1, 2] 0 = .ok (true, 3) := by
  decide
example : batchCheck Toy.ltK Toy.lbl Toy.checkF Toy.polys
    [([97], ([120], 3)), ([99], ([121], 4)), ([98], ([122], 7))]
    [(([97], 3), 7), (([99], 4), 20), (([98], 7), 21)] [0, 1, 2] 0 = .ok (false, 3) := by decide
example : batchCheck Toy.ltK Toy.lbl Toy.checkF Toy.polys Toy.qs Toy.evals [0, 1, 5] 0 = .ok (false, 3) := by
  decide
example : checkCombinations Toy.ltK Toy.lbl Toy.checkF Toy.lcs Toy.polys Toy.eqs Toy.eqEvals [0, 1] none 0
    = .error .abort := by decide

end PCV.C10
