/-
  Property C03 (multilinear PST) — crafted or malformed proofs, on the exact model (arbitrary
  adversaries are the scheme's hardness assumption, DESIGN §3 — the *partial* part of C03):
  single proof element replaced, proof list of the wrong length, prover run on another polynomial,
  proof made for another point.
-/
import PCV.Proofs.MLPCProps
import PCV.Proofs.MLPCExtract
import PCV.Props.Examples

namespace PCV.C03
open PCV
set_option linter.unusedSectionVars false
variable {F : Type} [Field F] [DecidableEq F]

/-- **Single proof element replaced: the defect is affine.**  For any key, statement and proof list,
putting `x` at position `i` changes the defect by `−(g_mask[i] − zᵢ·g)·(x − πᵢ)`. -/
theorem mlpc_proof_element_affine (vk : MLPC.VK F) (c : MLPC.Commitment F) (z : List F) (v : F)
    (πs : List F) (i : Nat) (x : F) (hi : i < (MLPC.pairingLefts vk z).length) (hp : i < πs.length) :
    MLPC.defect vk c z v (πs.set i x)
      = MLPC.defect vk c z v πs - (MLPC.pairingLefts vk z)[i] * (x - πs[i]) :=
  MLPC.defect_set vk c z v πs i x hi hp

/-- on the key of trapdoor `t` the coefficient is `g·(tᵢ − zᵢ)` -/
theorem mlpc_proof_element_coeff (g h : F) (t z : List F) (i : Nat) (hi : i < t.length)
    (hz : i < z.length) (hl : i < (MLPC.pairingLefts (MLPC.wfVK g h t) z).length) :
    (MLPC.pairingLefts (MLPC.wfVK g h t) z)[i] = g * (t[i] - z[i]) := by
  rw [MLPC.pairingLefts_wf_getElem g h t z i hi hz hl]; ring

/-- **Single proof element replaced: at most one value is accepted.**  With `g ≠ 0` and `tᵢ ≠ zᵢ`,
two proof lists that differ only at position `i` and are both accepted for the same statement
are equal — so from an accepted (e.g. honest) proof, any other element at position `i` is rejected,
and for a false claim at most one (unknown, trapdoor-dependent) element per position is accepted. -/
theorem mlpc_proof_element_unique (g h : F) (t z : List F) (c : MLPC.Commitment F) (v : F)
    (πs : List F) (i : Nat) (x₁ x₂ : F) (hz : z.length = t.length) (hp : πs.length = t.length)
    (hi : i < t.length) (hg : g ≠ 0) (hne : t[i] ≠ z[i]'(by omega))
    (h₁ : MLPC.check (MLPC.wfVK g h t) c z v (πs.set i x₁) = .ok true)
    (h₂ : MLPC.check (MLPC.wfVK g h t) c z v (πs.set i x₂) = .ok true) : x₁ = x₂ := by
  have hl : (MLPC.pairingLefts (MLPC.wfVK g h t) z).length = t.length :=
    MLPC.pairingLefts_length _ z (by simp [MLPC.wfVK, hz]) (by simp [MLPC.wfVK])
  rw [MLPC.check_iff_defect _ _ _ _ _ (by simp [MLPC.wfVK, hz]) (by simp [MLPC.wfVK])
    (by simp [MLPC.wfVK, hp])] at h₁ h₂
  rw [MLPC.defect_set _ _ _ _ _ i _ (by omega) (by omega)] at h₁ h₂
  rw [mlpc_proof_element_coeff g h t z i hi (by omega) (by omega)] at h₁ h₂
  have : g * (t[i] - z[i]'(by omega)) * (x₁ - x₂) = 0 := by linear_combination h₂ - h₁
  rcases mul_eq_zero.1 this with h0 | h0
  · rcases mul_eq_zero.1 h0 with h0 | h0
    · exact absurd h0 hg
    · exact absurd (sub_eq_zero.1 h0) hne
  · exact sub_eq_zero.1 h0

/-- **Proof list shorter or longer than `nv`: refused.**  `check` hands `nv` G1 elements and the
proof list to `multi_pairing`, whose `zip_eq` panics on unequal lengths — no truncation, so an
empty, truncated or extended proof list never yields a decision, let alone an acceptance. -/
theorem mlpc_proof_length_refused (vk : MLPC.VK F) (c : MLPC.Commitment F) (z : List F) (v : F)
    (πs : List F) (h : πs.length ≠ vk.nv) : MLPC.check vk c z v πs = .error .abort :=
  MLPC.check_proof_length vk c z v πs h

/-- **Prover run on another polynomial.**  The honest prover run on `q` against the commitment of
`p`, claiming `q̃(z)`, is accepted iff `h·g·(p̃(t) − q̃(t)) = 0`: for `g, h ≠ 0` only when `q` agrees
with `p` at the trapdoor. -/
theorem mlpc_other_poly (g h : F) (t z p q : List F) (n' : Nat) (hz : z.length = t.length)
    (hq : q.length = 2 ^ t.length) :
    MLPC.check (MLPC.wfVK g h t) ⟨n', g * MLPC.mleEval p t⟩ z (MLPC.mleEval q z)
        (MLPC.proofSpec h t z q) = .ok true
      ↔ h * (g * (MLPC.mleEval p t - MLPC.mleEval q t)) = 0 := by
  have := MLPC.check_honest_iff g h t z (List.replicate z.length 0) q
    (g * (MLPC.mleEval p t - MLPC.mleEval q t)) 0 n' hz (by simp [hz]) hq
  simp only [add_zero, MLPC.zipWith_add_zero, MLPC.dot_replicate_zero, mul_zero, sub_zero] at this
  have e : g * MLPC.mleEval p t
      = g * MLPC.mleEval q t + g * (MLPC.mleEval p t - MLPC.mleEval q t) := by ring
  rw [e, this]

/-- **Proof made for another point.**  The honest proof for `(p, z')` presented at `z' + dz` with
the value `p̃(z')` is accepted iff `g·⟨dz, π⟩ = 0`. -/
theorem mlpc_other_point (g h : F) (t z' dz p : List F) (n' : Nat) (hz : z'.length = t.length)
    (hdz : dz.length = t.length) (hp : p.length = 2 ^ t.length) :
    MLPC.check (MLPC.wfVK g h t) ⟨n', g * MLPC.mleEval p t⟩ (List.zipWith (· + ·) z' dz)
        (MLPC.mleEval p z') (MLPC.proofSpec h t z' p) = .ok true
      ↔ g * dot dz (MLPC.proofSpec h t z' p) = 0 := by
  have := MLPC.check_honest_iff g h t z' dz p 0 0 n' hz hdz hp
  simp only [add_zero, mul_zero, sub_zero, zero_add] at this
  exact this

/-- non-vacuity: the honest transcript of C01's example satisfies the hypotheses of
`mlpc_proof_element_unique` at both positions; a replaced element, an empty, a truncated and an
extended proof list are not accepted. -/
example : MLPC.check (MLPC.wfVK (5 : K) 11 [7, 20]) ⟨2, 19⟩ [8, 13] 72 ([31, 30].set 0 31) = .ok true
    ∧ (5 : K) ≠ 0 ∧ (7 : K) ≠ 8 ∧ (20 : K) ≠ 13 := by decide
example : MLPC.check (MLPC.wfVK (5 : K) 11 [7, 20]) ⟨2, 19⟩ [8, 13] 72 [32, 30] = .ok false := by decide
example : MLPC.check (MLPC.wfVK (5 : K) 11 [7, 20]) ⟨2, 19⟩ [8, 13] 72 [] = .error .abort := by decide
example : MLPC.check (MLPC.wfVK (5 : K) 11 [7, 20]) ⟨2, 19⟩ [8, 13] 72 [31] = .error .abort := by decide
example : MLPC.check (MLPC.wfVK (5 : K) 11 [7, 20]) ⟨2, 19⟩ [8, 13] 72 [31, 30, 0] = .error .abort := by
  decide

/-- **Any algebraic forger solves the hardness problem (multilinear PST).**  Let `p` and the `aᵢ` be
ANY functions of the trapdoor the forger can evaluate "in the exponent" over the published keys
(multilinear polynomials with known coefficients): commitment `g·p(t)`, proof elements `h·aᵢ(t)`.
If the verifier accepts the value `v` at `z`, then `E(x) := p(x) − v − Σᵢ (xᵢ − zᵢ)·aᵢ(x)` vanishes at
the trapdoor, while `E(z) = p(z) − v`: for a false claim `E` is a non-zero polynomial the forger
knows, and the secret trapdoor is among its roots. -/
theorem mlpc_algebraic_forgery_reveals_trapdoor (g h : F) (t z : List F) (nv : Nat) (v : F)
    (p : List F → F) (a : List F → List F)
    (hz : z.length = t.length) (ha : ∀ x, (a x).length = t.length) (hg : g ≠ 0) (hh : h ≠ 0)
    (hv : v ≠ p z)
    (hacc : MLPC.check (MLPC.wfVK g h t) ⟨nv, g * p t⟩ z v ((a t).map (h * ·)) = .ok true) :
    (p t - v - MLPC.linSum t z (a t) = 0) ∧ (p z - v - MLPC.linSum z z (a z) ≠ 0) := by
  refine ⟨MLPC.forgery_identity g h t z (a t) nv (p t) v hz (ha t) hg hh hacc, ?_⟩
  rw [MLPC.linSum_self, sub_zero]
  exact fun h0 => hv (sub_eq_zero.1 h0).symm

/-- non-vacuity: on the key `g = 5, h = 11, t = (7, 20)` the forger functions
`p(x) = x₀ + x₁`, proof elements `h·1, h·a₁` with `a₁ = (p(t) − v − (t₀ − z₀))/(t₁ − z₁) = 15` get the
false value `v = p(z) + 3` accepted -/
example : MLPC.check (MLPC.wfVK (5 : K) 11 [7, 20]) ⟨2, 5 * (7 + 20)⟩ [8, 13] (8 + 13 + 3)
    ([1, 15].map ((11 : K) * ·)) = .ok true ∧
    (15 : K) * (20 - 13) = (7 + 20) - (8 + 13 + 3) - (7 - 8) := by decide

end PCV.C03
