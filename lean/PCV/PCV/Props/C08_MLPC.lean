/-
  Property C08 (multilinear PST) — the commitment is the key-defined linear map of the evaluation
  vector: `commit = ⟨evals, powers_of_g[0]⟩ = g·f̃(t)`, additive and homogeneous.
-/
import PCV.Proofs.MLPCProps
import PCV.Props.Examples

namespace PCV.C08
open PCV
set_option linter.unusedSectionVars false
variable {F : Type} [Field F] [DecidableEq F]

/-- **Arbitrary key.**  Whatever `commit` returns is the dot product of the evaluation vector with
the first table of the key, tagged with the number of variables (the key's) — for any key scalars. -/
theorem mlpc_commit_is_msm (ck : MLPC.CK F) (nv : Nat) (evals : List F) (c : MLPC.Commitment F)
    (h : MLPC.commit ck nv evals = .ok c) :
    c.gProduct = dot (ck.powersOfG.headD []) evals ∧ c.nv = nv ∧ nv = ck.nv := by
  unfold MLPC.commit at h
  split at h
  · cases h
  · rename_i hnv
    split at h
    · cases h
    · rename_i p0 rest hp
      cases h
      exact ⟨by simp [hp], rfl, Decidable.not_not.1 hnv⟩

/-- **Well-formed key.**  With the tables of trapdoor `t` (non-empty) and generator `g`, the
commitment of a polynomial with `2^|t|` evaluations is `g·f̃(t)`. -/
theorem mlpc_commit_spec (g h a : F) (ts : List F) (evals : List F)
    (he : evals.length = 2 ^ (ts.length + 1)) :
    MLPC.commit (MLPC.wfCK g h (a :: ts)) (ts.length + 1) evals
      = .ok ⟨ts.length + 1, g * MLPC.mleEval evals (a :: ts)⟩ :=
  MLPC.commit_wf g h a ts evals he

/-- the table `commit` uses is `g` times the `eq`-tensor of the trapdoor -/
theorem mlpc_commit_eq_tensor (g : F) (t evals : List F) (he : evals.length = 2 ^ t.length) :
    dot (MLPC.batchMul g (MLPC.eqTable t)) evals = g * MLPC.mleEval evals t := by
  rw [MLPC.dot_batchMul, MLPC.dot_eqTable t evals he]

/-- additivity of the commitment map, for an arbitrary key table -/
theorem mlpc_commit_add (b p q : List F) (h : p.length = q.length) :
    dot b (List.zipWith (· + ·) p q) = dot b p + dot b q := MLPC.dot_zipWith_add b p q h

/-- homogeneity of the commitment map, for an arbitrary key table -/
theorem mlpc_commit_scale (b p : List F) (c : F) : dot b (p.map (c * ·)) = c * dot b p :=
  MLPC.dot_map_mul b p c

/-- the zero polynomial commits to the identity -/
theorem mlpc_commit_zero (b : List F) (n : Nat) : dot b (List.replicate n (0 : F)) = 0 := by
  rw [dot_comm]; exact MLPC.dot_replicate_zero n b

example : MLPC.commit (MLPC.wfCK (5 : K) 11 [7, 20]) 2 [1, 2, 3, 50] = .ok ⟨2, 19⟩
    ∧ (5 : K) * MLPC.mleEval [1, 2, 3, 50] [7, 20] = 19 := by decide
example : MLPC.commit (MLPC.wfCK (5 : K) 11 [7, 20]) 2 [4, 0, 9, 1] = .ok ⟨2, 4⟩
    ∧ MLPC.commit (MLPC.wfCK (5 : K) 11 [7, 20]) 2 [1 + 4, 2 + 0, 3 + 9, 50 + 1] = .ok ⟨2, 19 + 4⟩ := by
  decide

end PCV.C08
