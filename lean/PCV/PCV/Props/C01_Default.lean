/-
  Property C01 (completeness, order independence) — the trait-default `batch_open` / `batch_check` of
  `poly-commit/src/lib.rs` (Hyrax, Ligero, Brakedown use them unchanged).  Model:
  `PCV.Model.TraitDefault`, generic in the scheme's `open` / `check`.
  Only property theorems live here; lemmas are in PCV/Proofs/TraitDefault*.lean.
-/
import PCV.Proofs.TraitDefaultBatch
import PCV.Proofs.TraitDefaultHyrax
import PCV.Proofs.TraitDefaultToy
set_option linter.unusedSectionVars false

namespace PCV.C01
open PCV TraitDefault
variable {Pt : Type} [DecidableEq Pt] {LP S C V PF σp σv : Type}

/-- **Completeness of the default batch, relative to the scheme.** Let the scheme's own `open`/`check`
pair be complete on the (polynomial, state, commitment) triples a group can consist of (`Good`), with
`R` relating the prover's and the verifier's sponge/RNG state: a proof that `open` makes from a state
related to the verifier's is accepted for the true evaluations, and the states stay related.  Then
whatever `batch_open` returns is accepted by `batch_check` — for ANY verifier-side commitment list and
evaluation map that agree with the prover's data on the queried labels (so in particular for every
reordering of the verifier's list), the proof count is right, and the final states are related. -/
theorem default_batch_complete (ltP : Pt → Pt → Bool) (lblP : LP → Label) (lblC : C → Label)
    (evalP : LP → Pt → V)
    (openF : List ((LP × S) × C) → Pt → σp → Except Err (PF × σp))
    (checkF : List C → Pt → List V → PF → σv → Except Err (Bool × σv))
    (R : σp → σv → Prop) (Good : List ((LP × S) × C) → Prop)
    (hcomplete : ∀ ts z π sp sp' sv, Good ts → R sp sv → openF ts z sp = .ok (π, sp') →
      ∃ sv', checkF (ts.map (·.2)) z (ts.map fun t => evalP t.1.1 z) π sv = .ok (true, sv') ∧ R sp' sv')
    (polys : List LP) (sts : List S) (comms vcomms : List C) (qs : List (Query Pt))
    (evals : List ((Label × Pt) × V))
    (hgood : ∀ g ∈ groups (querySet ltP qs), ∀ ts,
      gatherOpen lblP (polyStComm polys sts comms) g.2.2 = .ok ts → Good ts)
    (hcm : ∀ g ∈ groups (querySet ltP qs), ∀ l ∈ g.2.2, ∀ t,
      Marlin.lookupLast (fun (t : (LP × S) × C) => lblP t.1.1) l (polyStComm polys sts comms) = some t →
      Marlin.lookupLast lblC l vcomms = some t.2)
    (hev : ∀ g ∈ groups (querySet ltP qs), ∀ l ∈ g.2.2, ∀ t,
      Marlin.lookupLast (fun (t : (LP × S) × C) => lblP t.1.1) l (polyStComm polys sts comms) = some t →
      QS.lastWith (l, g.2.1) evals = some (evalP t.1.1 g.2.1))
    (sp : σp) (sv : σv) (πs : List PF) (sp' : σp) (h0 : R sp sv)
    (ho : batchOpen ltP lblP openF polys sts comms qs sp = .ok (πs, sp')) :
    ∃ sv', batchCheck ltP lblC checkF vcomms qs evals πs sv = .ok (true, sv') ∧ R sp' sv' := by
  unfold batchOpen batchOpenSet at ho
  unfold batchCheck batchCheckSet
  rw [if_neg (by
    have := batchOpenLoop_length lblP openF _ _ sp πs sp' ho
    simpa using this)]
  exact loops_complete lblP lblC evalP openF checkF R Good hcomplete _ vcomms evals _ hgood hcm hev
    sp sv πs sp' h0 ho

/-- **The prover's lists may come in any order**: a consistent permutation of the
(polynomial, state, commitment) lists — i.e. a permutation of the zipped triples — with pairwise distinct
polynomial labels does not change what `batch_open` does. -/
theorem default_batch_open_perm (ltP : Pt → Pt → Bool) (lblP : LP → Label)
    (openF : List ((LP × S) × C) → Pt → σp → Except Err (PF × σp))
    (polys polys' : List LP) (sts sts' : List S) (comms comms' : List C) (qs : List (Query Pt)) (s : σp)
    (hp : (polyStComm polys sts comms).Perm (polyStComm polys' sts' comms'))
    (hnd : ((polyStComm polys sts comms).map fun t => lblP t.1.1).Nodup) :
    batchOpen ltP lblP openF polys sts comms qs s = batchOpen ltP lblP openF polys' sts' comms' qs s := by
  unfold batchOpen batchOpenSet
  exact batchOpenLoop_congr lblP openF _ _ _
    (fun g _ l _ => lookupLast_perm (fun (t : (LP × S) × C) => lblP t.1.1) l _ _ hp hnd) s

/-- **The verifier's commitment list may come in any order** (independently of the prover's): with
pairwise distinct labels a permutation does not change what `batch_check` does. -/
theorem default_batch_check_perm (ltP : Pt → Pt → Bool) (lblC : C → Label)
    (checkF : List C → Pt → List V → PF → σv → Except Err (Bool × σv))
    (comms comms' : List C) (qs : List (Query Pt)) (evals : List ((Label × Pt) × V)) (πs : List PF)
    (s : σv) (hp : comms.Perm comms') (hnd : (comms.map lblC).Nodup) :
    batchCheck ltP lblC checkF comms qs evals πs s = batchCheck ltP lblC checkF comms' qs evals πs s := by
  unfold batchCheck batchCheckSet
  split
  · rfl
  · exact batchCheckLoop_congr lblC checkF comms comms' evals evals _
      (fun g _ l _ => lookupLast_perm lblC l comms comms' hp hnd) (fun _ _ _ _ => rfl) πs true s

/-- **The queries may be listed in any order and any number of times** (they go into a `BTreeSet`):
two lists with the same elements give the same `batch_open` and the same `batch_check`.  `ltP` is the
`Ord` of the point type — a strict total order. -/
theorem default_batch_query_order (ltP : Pt → Pt → Bool) (hlt : QS.StrictTotal ltP)
    (hirr : ∀ a, ltP a a = false) (lblP : LP → Label) (lblC : C → Label)
    (openF : List ((LP × S) × C) → Pt → σp → Except Err (PF × σp))
    (checkF : List C → Pt → List V → PF → σv → Except Err (Bool × σv))
    (polys : List LP) (sts : List S) (comms vcomms : List C) (qs qs' : List (Query Pt))
    (evals : List ((Label × Pt) × V)) (πs : List PF) (sp : σp) (sv : σv)
    (h : ∀ q, q ∈ qs ↔ q ∈ qs') :
    batchOpen ltP lblP openF polys sts comms qs sp = batchOpen ltP lblP openF polys sts comms qs' sp ∧
    batchCheck ltP lblC checkF vcomms qs evals πs sv = batchCheck ltP lblC checkF vcomms qs' evals πs sv := by
  unfold batchOpen batchCheck
  rw [querySet_congr ltP hlt hirr qs qs' h]
  exact ⟨rfl, rfl⟩

/-- the evaluation map is only ever read by key: two insertion lists with the same last value per key
(e.g. any order of distinct keys) are interchangeable -/
theorem default_batch_evals_order (ltP : Pt → Pt → Bool) (lblC : C → Label)
    (checkF : List C → Pt → List V → PF → σv → Except Err (Bool × σv))
    (comms : List C) (qs : List (Query Pt)) (evals evals' : List ((Label × Pt) × V)) (πs : List PF)
    (s : σv) (h : ∀ k, QS.lastWith k evals = QS.lastWith k evals') :
    batchCheck ltP lblC checkF comms qs evals πs s = batchCheck ltP lblC checkF comms qs evals' πs s := by
  unfold batchCheck batchCheckSet
  split
  · rfl
  · exact batchCheckLoop_congr lblC checkF comms comms evals evals' _
      (fun _ _ _ _ => rfl) (fun g _ l _ => h (l, g.2.1)) πs true s

/-- **Hyrax batches (Hyrax uses the default methods unchanged).** For every Pedersen key `ks, hh`, every
list of (labelled polynomial, state, labelled commitment) triples each of which is an output of
`HyraxPC::commit` for its polynomial (`HonestTriple`: some blinding draws), every query list (any order,
repetitions, several polynomials per point label, labels sharing a point, one polynomial at several
points), all RNG draws and all sponge challenges: if the default `batch_open` over `HyraxPC::open`
returns proofs, the default `batch_check` over `HyraxPC::check` accepts them for the true evaluations
(ark-poly's `evaluate` of the extensions) — with ANY verifier-side commitment list / evaluation map that
agrees with the prover's data on the queried labels — and the verifier has then consumed exactly the
challenges the prover consumed. -/
theorem hyrax_default_batch_complete {F : Type} [Field F] [DecidableEq F]
    (ltP : List F → List F → Bool) (ks : List F) (hh : F)
    (polys : List (HyraxInst.HP F)) (sts : List (Hyrax.State F)) (comms vcomms : List (HyraxInst.HC F))
    (qs : List (Query (List F))) (evals : List ((Label × List F) × F))
    (hhonest : ∀ t ∈ polyStComm polys sts comms, HyraxInst.HonestTriple ks hh t)
    (hcm : ∀ g ∈ groups (querySet ltP qs), ∀ l ∈ g.2.2, ∀ t,
      Marlin.lookupLast (fun (t : HyraxInst.HTrip F) => t.1.1.1) l (polyStComm polys sts comms) = some t →
      Marlin.lookupLast (fun (c : HyraxInst.HC F) => c.1) l vcomms = some t.2)
    (hev : ∀ g ∈ groups (querySet ltP qs), ∀ l ∈ g.2.2, ∀ t,
      Marlin.lookupLast (fun (t : HyraxInst.HTrip F) => t.1.1.1) l (polyStComm polys sts comms) = some t →
      QS.lastWith (l, g.2.1) evals = some (HyraxInst.evalP t.1.1 g.2.1))
    (draws cs : List F) (πs : List (List (Hyrax.Proof F))) (sp' : List F × List F)
    (ho : batchOpen ltP (fun (p : HyraxInst.HP F) => p.1) (HyraxInst.openF ks hh) polys sts comms qs
      (draws, cs) = .ok (πs, sp')) :
    ∃ sv', batchCheck ltP (fun (c : HyraxInst.HC F) => c.1) (HyraxInst.checkF ks hh) vcomms qs evals πs cs
      = .ok (true, sv') ∧ sp'.2 = sv' :=
  default_batch_complete ltP (fun (p : HyraxInst.HP F) => p.1) (fun (c : HyraxInst.HC F) => c.1)
    HyraxInst.evalP (HyraxInst.openF ks hh) (HyraxInst.checkF ks hh) (fun sp sv => sp.2 = sv)
    (fun ts => ∀ t ∈ ts, HyraxInst.HonestTriple ks hh t)
    (fun ts z π sp sp' sv hg hR ho => HyraxInst.pair_complete ks hh ts z π sp sp' sv hg hR ho)
    polys sts comms vcomms qs evals
    (fun g _ ts hgo t ht => hhonest t (HyraxInst.gatherOpen_subset _ _ g.2.2 ts hgo t ht))
    hcm hev (draws, cs) cs πs sp' rfl ho

/-! non-vacuity over `ZMod 101` (`PCV.TraitDefault.Toy`): an honest batch over three point labels (two
sharing a point value, one query listed twice) is opened and accepted; the reversed lists and the
reversed query list give the same results -/
example : batchOpen Toy.ltK Toy.lbl Toy.openF Toy.polys Toy.sts Toy.polys Toy.qs 0 = .ok ([0, 1, 2], 3) := by
  decide
example : batchCheck Toy.ltK Toy.lbl Toy.checkF Toy.polys Toy.qs Toy.evals [0, 1, 2] 0 = .ok (true, 3) := by
  decide
example : batchCheck Toy.ltK Toy.lbl Toy.checkF Toy.polys.reverse Toy.qs.reverse Toy.evals.reverse [0, 1, 2] 0
    = .ok (true, 3) := by decide
example : (polyStComm Toy.polys Toy.sts Toy.polys).Perm (polyStComm Toy.polys.reverse Toy.sts Toy.polys.reverse) ∧
    ((polyStComm Toy.polys Toy.sts Toy.polys).map fun t => Toy.lbl t.1.1).Nodup := by decide
example : ∀ q, q ∈ Toy.qs ↔ q ∈ Toy.qs.reverse := by simp

/-! non-vacuity of the Hyrax instance over `ZMod 101` (the data of `C01_Hyrax`: key `[3,5]`, `h = 7`, two
polynomials in 2 variables): both triples are honest, the batch over two point labels opens and is
accepted -/
def hyraxBatchPolys : List (HyraxInst.HP K) := [([97], ⟨2, [1, 2, 3, 4]⟩), ([98], ⟨2, [0, 0, 9, 0]⟩)]
def hyraxBatchStates : List (Hyrax.State K) :=
  [⟨[10, 20], ⟨2, 2, [[1, 3], [2, 4]]⟩⟩, ⟨[2, 4], ⟨2, 2, [[0, 9], [0, 0]]⟩⟩]
def hyraxBatchComms : List (HyraxInst.HC K) := [([97], [88, 65]), ([98], [59, 28])]
def hyraxBatchQs : List (Query (List K)) :=
  [([98], ([121], [6, 17])), ([97], ([120], [6, 17])), ([98], ([120], [6, 17]))]
def hyraxLtP (a b : List K) : Bool := decide (a.map ZMod.val < b.map ZMod.val)

example : Hyrax.commitOne ([3, 5] : List K) 7 ⟨2, [1, 2, 3, 4]⟩ [10, 20] = .ok ([88, 65], ⟨[10, 20], ⟨2, 2, [[1, 3], [2, 4]]⟩⟩) ∧
    Hyrax.commitOne ([3, 5] : List K) 7 ⟨2, [0, 0, 9, 0]⟩ [2, 4] = .ok ([59, 28], ⟨[2, 4], ⟨2, 2, [[0, 9], [0, 0]]⟩⟩) := by
  decide
def hyraxBatchProofs : List (List (Hyrax.Proof K)) :=
  match batchOpen hyraxLtP (fun (p : HyraxInst.HP K) => p.1) (HyraxInst.openF ([3, 5] : List K) 7)
      hyraxBatchPolys hyraxBatchStates hyraxBatchComms hyraxBatchQs
      ([1, 2, 3, 4, 5, 6, 7, 8, 9, 10, 11, 12, 13, 14, 15], [11, 13, 17]) with
  | .ok (πs, _) => πs
  | .error _ => []
example : hyraxBatchProofs.map List.length = [2, 1] ∧
    batchCheck hyraxLtP (fun (c : HyraxInst.HC K) => c.1) (HyraxInst.checkF ([3, 5] : List K) 7)
      hyraxBatchComms hyraxBatchQs
      [(([97], [6, 17]), Hyrax.mleEval [1, 2, 3, 4] [6, 17]), (([98], [6, 17]), Hyrax.mleEval [0, 0, 9, 0] [6, 17])]
      hyraxBatchProofs [11, 13, 17] = .ok (true, []) := by decide

end PCV.C01
