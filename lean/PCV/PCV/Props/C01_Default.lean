/-
  Property C01 (completeness, order independence) — the trait-default `batch_open` / `batch_check` of
  `poly-commit/src/lib.rs` (Hyrax, Ligero, Brakedown use them unchanged).  Model:
  `PCV.Model.TraitDefault`, generic in the scheme's `open` / `check`.
  Only property theorems live here; lemmas are in PCV/Proofs/TraitDefault*.lean.
-/
import PCV.Proofs.TraitDefaultBatch
import PCV.Proofs.TraitDefaultToy
set_option linter.unusedSectionVars false

namespace PCV.C01
open PCV TraitDefault
variable {Pt : Type} [DecidableEq Pt] {LP S C V PF σp σv : Type}

/-- **Completeness of the default batch, relative to the scheme.** Let the scheme's own `open`/`check`
pair be complete on the (polynomial, state, commitment) triples a group can consist of (`Good`), with
`R` relating the prover's and the verifier's sponge/RNG state: a proof that `open` makes from a state
related to the verifier's is accepted for the true evaluations, and the states stay related.  Then
whatever `batch_open` returns is accepted by `batch_check` — for ANY verifier-side commitment list and
evaluation map that agree with the prover's data on the queried labels (so in particular for every
reordering of the verifier's list), the proof count is right, and the final states are related. -/
theorem default_batch_complete (ltP : Pt → Pt → Bool) (lblP : LP → Label) (lblC : C → Label)
    (evalP : LP → Pt → V)
    (openF : List ((LP × S) × C) → Pt → σp → Except Err (PF × σp))
    (checkF : List C → Pt → List V → PF → σv → Except Err (Bool × σv))
    (R : σp → σv → Prop) (Good : List ((LP × S) × C) → Prop)
    (hcomplete : ∀ ts z π sp sp' sv, Good ts → R sp sv → openF ts z sp = .ok (π, sp') →
      ∃ sv', checkF (ts.map (·.2)) z (ts.map fun t => evalP t.1.1 z) π sv = .ok (true, sv') ∧ R sp' sv')
    (polys : List LP) (sts : List S) (comms vcomms : List C) (qs : List (Query Pt))
    (evals : List ((Label × Pt) × V))
    (hgood : ∀ g ∈ groups (querySet ltP qs), ∀ ts,
      gatherOpen lblP (polyStComm polys sts comms) g.2.2 = .ok ts → Good ts)
    (hcm : ∀ g ∈ groups (querySet ltP qs), ∀ l ∈ g.2.2, ∀ t,
      Marlin.lookupLast (fun (t : (LP × S) × C) => lblP t.1.1) l (polyStComm polys sts comms) = some t →
      Marlin.lookupLast lblC l vcomms = some t.2)
    (hev : ∀ g ∈ groups (querySet ltP qs), ∀ l ∈ g.2.2, ∀ t,
      Marlin.lookupLast (fun (t : (LP × S) × C) => lblP t.1.1) l (polyStComm polys sts comms) = some t →
      QS.lastWith (l, g.2.1) evals = some (evalP t.1.1 g.2.1))
    (sp : σp) (sv : σv) (πs : List PF) (sp' : σp) (h0 : R sp sv)
    (ho : batchOpen ltP lblP openF polys sts comms qs sp = .ok (πs, sp')) :
    ∃ sv', batchCheck ltP lblC checkF vcomms qs evals πs sv = .ok (true, sv') ∧ R sp' sv' := by
  unfold batchOpen batchOpenSet at ho
  unfold batchCheck batchCheckSet
  rw [if_neg (by
    have := batchOpenLoop_length lblP openF _ _ sp πs sp' ho
    simpa using this)]
  exact loops_complete lblP lblC evalP openF checkF R Good hcomplete _ vcomms evals _ hgood hcm hev
    sp sv πs sp' h0 ho

/-- **The prover's lists may come in any order**: a consistent permutation of the
(polynomial, state, commitment) lists — i.e. a permutation of the zipped triples — with pairwise distinct
polynomial labels does not change what `batch_open` does. -/
theorem default_batch_open_perm (ltP : Pt → Pt → Bool) (lblP : LP → Label)
    (openF : List ((LP × S) × C) → Pt → σp → Except Err (PF × σp))
    (polys polys' : List LP) (sts sts' : List S) (comms comms' : List C) (qs : List (Query Pt)) (s : σp)
    (hp : (polyStComm polys sts comms).Perm (polyStComm polys' sts' comms'))
    (hnd : ((polyStComm polys sts comms).map fun t => lblP t.1.1).Nodup) :
    batchOpen ltP lblP openF polys sts comms qs s = batchOpen ltP lblP openF polys' sts' comms' qs s := by
  unfold batchOpen batchOpenSet
  exact batchOpenLoop_congr lblP openF _ _ _
    (fun g _ l _ => lookupLast_perm (fun (t : (LP × S) × C) => lblP t.1.1) l _ _ hp hnd) s

/-- **The verifier's commitment list may come in any order** (independently of the prover's): with
pairwise distinct labels a permutation does not change what `batch_check` does. -/
theorem default_batch_check_perm (ltP : Pt → Pt → Bool) (lblC : C → Label)
    (checkF : List C → Pt → List V → PF → σv → Except Err (Bool × σv))
    (comms comms' : List C) (qs : List (Query Pt)) (evals : List ((Label × Pt) × V)) (πs : List PF)
    (s : σv) (hp : comms.Perm comms') (hnd : (comms.map lblC).Nodup) :
    batchCheck ltP lblC checkF comms qs evals πs s = batchCheck ltP lblC checkF comms' qs evals πs s := by
  unfold batchCheck batchCheckSet
  split
  · rfl
  · exact batchCheckLoop_congr lblC checkF comms comms' evals evals _
      (fun g _ l _ => lookupLast_perm lblC l comms comms' hp hnd) (fun _ _ _ _ => rfl) πs true s

/-- **The queries may be listed in any order and any number of times** (they go into a `BTreeSet`):
two lists with the same elements give the same `batch_open` and the same `batch_check`.  `ltP` is the
`Ord` of the point type — a strict total order. -/
theorem default_batch_query_order (ltP : Pt → Pt → Bool) (hlt : QS.StrictTotal ltP)
    (hirr : ∀ a, ltP a a = false) (lblP : LP → Label) (lblC : C → Label)
    (openF : List ((LP × S) × C) → Pt → σp → Except Err (PF × σp))
    (checkF : List C → Pt → List V → PF → σv → Except Err (Bool × σv))
    (polys : List LP) (sts : List S) (comms vcomms : List C) (qs qs' : List (Query Pt))
    (evals : List ((Label × Pt) × V)) (πs : List PF) (sp : σp) (sv : σv)
    (h : ∀ q, q ∈ qs ↔ q ∈ qs') :
    batchOpen ltP lblP openF polys sts comms qs sp = batchOpen ltP lblP openF polys sts comms qs' sp ∧
    batchCheck ltP lblC checkF vcomms qs evals πs sv = batchCheck ltP lblC checkF vcomms qs' evals πs sv := by
  unfold batchOpen batchCheck
  rw [querySet_congr ltP hlt hirr qs qs' h]
  exact ⟨rfl, rfl⟩

/-- the evaluation map is only ever read by key: two insertion lists with the same last value per key
(e.g. any order of distinct keys) are interchangeable -/
theorem default_batch_evals_order (ltP : Pt → Pt → Bool) (lblC : C → Label)
    (checkF : List C → Pt → List V → PF → σv → Except Err (Bool × σv))
    (comms : List C) (qs : List (Query Pt)) (evals evals' : List ((Label × Pt) × V)) (πs : List PF)
    (s : σv) (h : ∀ k, QS.lastWith k evals = QS.lastWith k evals') :
    batchCheck ltP lblC checkF comms qs evals πs s = batchCheck ltP lblC checkF comms qs evals' πs s := by
  unfold batchCheck batchCheckSet
  split
  · rfl
  · exact batchCheckLoop_congr lblC checkF comms comms evals evals' _
      (fun _ _ _ _ => rfl) (fun g _ l _ => h (l, g.2.1)) πs true s

/-! non-vacuity over `ZMod 101` (`PCV.TraitDefault.Toy`): an honest batch over three point labels (two
sharing a point value, one query listed twice) is opened and accepted; the reversed lists and the
reversed query list give the same results -/
example : batchOpen Toy.ltK Toy.lbl Toy.openF Toy.polys Toy.sts Toy.polys Toy.qs 0 = .ok ([0, 1, 2], 3) := by
  decide
example : batchCheck Toy.ltK Toy.lbl Toy.checkF Toy.polys Toy.qs Toy.evals [0, 1, 2] 0 = .ok (true, 3) := by
  decide
example : batchCheck Toy.ltK Toy.lbl Toy.checkF Toy.polys.reverse Toy.qs.reverse Toy.evals.reverse [0, 1, 2] 0
    = .ok (true, 3) := by decide
example : (polyStComm Toy.polys Toy.sts Toy.polys).Perm (polyStComm Toy.polys.reverse Toy.sts Toy.polys.reverse) ∧
    ((polyStComm Toy.polys Toy.sts Toy.polys).map fun t => Toy.lbl t.1.1).Nodup := by decide
example : ∀ q, q ∈ Toy.qs ↔ q ∈ Toy.qs.reverse := by simp

end PCV.C01
