/-
  Property C18 — thread count / `parallel` feature: every deterministic output is the same for
  every worker count and with or without the feature.

  The library's only sources of schedule dependence are its parallel iterator chains
  (`Generated.sites`, extracted from the source by translators/par_sites.py on every run) and RNGs
  that are not the caller's (`Generated.rngSites`).  A schedule is a work-splitting tree
  (`Par.Shape`, arbitrary split points) or, for `for_each` over `iter_mut`, an arbitrary global order
  of the closure calls; the sequential build is `Shape.leaf` / the order `0,1,…,n-1`.  The theorems
  below say that every terminal kind on the allow-list returns the sequential result for EVERY
  schedule, and the `generated_*` obligations say that the source contains nothing else.
  Only property theorems live here; lemmas are in PCV/Proofs/Par.lean.
  Not covered by any model: what rayon and the allocator do at run time (that the real scheduler
  implements `split_at`/`reduce` as modelled) — exercised by the harness run of `check C18`.
-/
import PCV.Proofs.Par
import PCV.Generated.ParSites
import PCV.Props.Examples

namespace PCV.C18
open PCV PCV.Par

variable {α β γ : Type}

/-- **sum / product / reduce.** For every splitting tree, every associative operation with a
two-sided identity: the parallel reduction is the sequential left fold. -/
theorem parReduce_eq_foldl (s : Shape) (f : α → α → α) (e : α)
    (assoc : ∀ a b c, f (f a b) c = f a (f b c)) (left_id : ∀ a, f e a = a)
    (right_id : ∀ a, f a e = a) (xs : List α) :
    parReduce s f e xs = xs.foldl f e :=
  Par.parReduce_eq_foldl s f e assoc left_id right_id xs

/-- **`.sum()`** of field elements (and of group elements in exponent form, DESIGN §2.1). -/
theorem parSum_field {F : Type} [Field F] (s : Shape) (xs : List F) :
    parReduce s (· + ·) 0 xs = xs.foldl (· + ·) 0 :=
  Par.parReduce_add s xs

/-- **`.product()`** of field elements. -/
theorem parProduct_field {F : Type} [Field F] (s : Shape) (xs : List F) :
    parReduce s (· * ·) 1 xs = xs.foldl (· * ·) 1 :=
  Par.parReduce_mul s xs

/-- **`.map(g).sum()`** with independent schedules for the map and the reduction
(`inner_product`, Hyrax `r_lt`, PST13 `batch_check`). -/
theorem parMap_sum_field {F : Type} [Field F] (s₁ s₂ : Shape) (g : α → F) (xs : List α) :
    parReduce s₂ (· + ·) 0 (parMap s₁ g xs) = (xs.map g).foldl (· + ·) 0 := by
  rw [Par.parMap_eq_map, Par.parReduce_add]

/-- **`.map(g).collect()`**: index-preserving for every splitting tree. -/
theorem parMap_eq_map (s : Shape) (g : α → β) (xs : List α) : parMap s g xs = xs.map g :=
  Par.parMap_eq_map s g xs

/-- **`.enumerate().map(g).collect()`**: every element sees its own global index. -/
theorem parMapIdx_eq_seq (s : Shape) (g : Nat → α → β) (xs : List α) :
    parMapIdx s g 0 xs = mapIdxFrom g 0 xs ∧
      ∀ j, (parMapIdx s g 0 xs)[j]? = (xs[j]?).map (g j) := by
  refine ⟨Par.parMapIdx_eq s g 0 xs, fun j => ?_⟩
  rw [Par.parMapIdx_eq, Par.mapIdxFrom_getElem?, Nat.zero_add]

/-- **`.map(g).unzip()`**. -/
theorem parUnzip_eq_unzip (s : Shape) (g : α → β × γ) (xs : List α) :
    parUnzip s g xs = (xs.map g).unzip :=
  Par.parUnzip_eq_unzip s g xs

/-- **`iter_mut().for_each(..)` over disjoint cells**: any order in which the closure calls for the
indices `0 … n-1` are executed yields the sequential result. -/
theorem forEachDisjoint_eq_seq (u : Nat → α → α) (order : List Nat) (v : List α)
    (hperm : order.Perm (List.range v.length)) :
    forEachDisjoint u order v = forEachSeq u v :=
  Par.forEachDisjoint_eq_seq u order v hperm

/-- two schedules of the same `for_each` commute -/
theorem forEachDisjoint_commutes (u : Nat → α → α) (o₁ o₂ : List Nat) (v : List α)
    (h₁ : o₁.Perm (List.range v.length)) (h₂ : o₂.Perm (List.range v.length)) :
    forEachDisjoint u o₁ v = forEachDisjoint u o₂ v :=
  Par.forEachDisjoint_order_irrelevant u o₁ o₂ v h₁ h₂

/-! ### the source contains nothing else -/

/-- terminal kinds covered by the theorems above -/
def allowed : List Generated.Terminal := [.collect, .sum, .product, .unzip, .forEachMut]

/-- Every parallel iterator site of the crate ends in an allow-listed terminal.  A new `reduce` with
an unknown closure, `fold`, `find_any`, a `for_each` that pushes into a shared vector, a bare
`rayon::join`, … is emitted as `Terminal.other _` and breaks this `decide`. -/
theorem generated_sites_allowed : ∀ s ∈ Generated.sites, s.terminal ∈ allowed := by decide

/-- No RNG expression is compiled in under the `parallel` feature and no library code draws ambient
entropy (`thread_rng`, `OsRng`, `from_entropy`, …): every random draw comes from the caller's RNG.
(The original tree had one such site, `rand::thread_rng()` in Hyrax `commit`; it was repaired by
`fix:` 661f8e6, see DESIGN §11.3 D18.  A new site anywhere breaks this obligation.) -/
theorem generated_rng_sites : Generated.rngSites = [] := by decide

/-- Every item gated on the feature is either a `use rayon::…` import or lies in Hyrax
(`hyrax/mod.rs`: the caller-RNG / thread-RNG alternative of `commit`); no compound predicates. -/
theorem generated_gates_allowed :
    ∀ g ∈ Generated.gates, g.polarity ≠ .mixed ∧ (g.kind = .useRayon ∨ g.file = "hyrax/mod.rs") := by
  decide

/-- the extraction is not empty (a vacuous `∀ s ∈ []` cannot discharge the obligation) and has
seen each kind of macro -/
theorem generated_sites_nonempty :
    (Generated.sites.filter (·.source = .cfgIter)).length ≥ 1 ∧
    (Generated.sites.filter (·.source = .cfgIntoIter)).length ≥ 1 ∧
    (Generated.sites.filter (·.source = .cfgIterMut)).length ≥ 1 ∧
    (Generated.sites.filter (·.terminal = .sum)).length ≥ 1 ∧
    (Generated.sites.filter (·.terminal = .unzip)).length ≥ 1 := by decide

/-! ### non-vacuity -/

/-- a three-level unbalanced tree with off-centre and out-of-range split points -/
def exShape : Shape := .node 3 (.node 1 .leaf (.node 1 .leaf .leaf)) (.node 9 (.node 0 .leaf .leaf) .leaf)

example : parReduce exShape (· + ·) (0 : K) [1, 2, 3, 4, 5, 6, 7] = 28 := by decide
example : parReduce exShape (· * ·) (1 : K) [1, 2, 3, 4, 5, 6, 7] = 91 := by decide
example : parMap exShape (fun x : K => x * x) [1, 2, 3, 4, 5] = [1, 4, 9, 16, 25] := by decide
example : parMapIdx exShape (fun i (x : K) => (i : K) + 10 * x) 0 [1, 2, 3, 4, 5]
    = [10, 21, 32, 43, 54] := by decide
example : parUnzip exShape (fun x : K => (x, x + 1)) [1, 2, 3, 4] = ([1, 2, 3, 4], [2, 3, 4, 5]) := by
  decide
/-- the hypothesis of `forEachDisjoint_eq_seq` is satisfiable by a non-sequential order -/
example : [2, 0, 3, 1].Perm (List.range ([5, 6, 7, 8] : List K).length) := by decide
example : forEachDisjoint (fun i (x : K) => x + (i : K) * 10) [2, 0, 3, 1] [5, 6, 7, 8]
    = [5, 16, 27, 38] := by decide
/-- the model does distinguish schedules: with a non-associative operation the tree matters, so the
theorems above are not true by construction of the model -/
example : parReduce (.node 1 .leaf .leaf) (· - ·) (0 : K) [1, 2] ≠ [1, 2].foldl (· - ·) (0 : K) := by
  decide
/-- … and a `for_each` whose order is not a permutation (an index run twice) differs -/
example : forEachDisjoint (fun _ (x : K) => x + 1) [0, 0] [5] ≠ forEachSeq (fun _ (x : K) => x + 1) [5] := by
  decide
/-- `other` is not on the allow-list -/
example : Generated.Terminal.other 4 ∉ allowed := by decide

end PCV.C18
