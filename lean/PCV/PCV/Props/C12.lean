/-
  Property C12 — serialization: every artefact round-trips through canonical serialization, the
  reported size is the number of bytes written, truncated input is an error.
  Only property theorems live here; the lemmas are in PCV/Proofs/Codec.lean, the model in
  PCV/Model/Codec.lean, the field lists of the hand-written impls in PCV/Generated/SerSchemas.lean
  (regenerated from the Rust source by translators/ser_schema.py on every `./check C12`).

  Trusted (hypotheses `Good (fc f) (fd f)` below): the primitive encodings of `ark-serialize`
  (curve points, field elements) and the derive macro (a derived impl is the `seq` of its fields in
  declaration order).  `usize`, tuples, `Vec`/`BTreeMap`, `Option` and the hand-written structs are
  proved.
-/
import PCV.Proofs.Codec
import PCV.Proofs.CodecExamples
import PCV.Generated.SerSchemas

namespace PCV.C12
open PCV PCV.Codec PCV.Schema

/-! ### What `Good` gives (the three clauses of the property, in its own words) -/

/-- `deser(ser x ‖ rest) = (x, rest)`: nothing is lost and exactly the bytes written are consumed. -/
theorem good_roundtrip {α : Type} {c : Codec α} {D : α → Prop} (h : Good c D) (a : α) (ha : D a)
    (rest : List Nat) : c.dec (c.enc a ++ rest) = some (a, rest) :=
  h.rt a ha rest

/-- `ser(deser(ser x)) = ser x`. -/
theorem good_reserialize {α : Type} {c : Codec α} {D : α → Prop} (h : Good c D) (a : α) (ha : D a)
    (y : α) (r : List Nat) (hy : c.dec (c.enc a) = some (y, r)) : c.enc y = c.enc a :=
  h.reser a ha y r hy

/-- `serialized_size` is the number of bytes written. -/
theorem good_size {α : Type} {c : Codec α} {D : α → Prop} (h : Good c D) (a : α) (ha : D a) :
    (c.enc a).length = c.size a :=
  h.len a ha

/-- every proper prefix of an encoding is refused -/
theorem good_prefix_fails {α : Type} {c : Codec α} {D : α → Prop} (h : Good c D) (a : α) (ha : D a)
    (l : List Nat) (hl : l <+: c.enc a) (hne : l ≠ c.enc a) : c.dec l = none :=
  h.prefix_fails a ha l hl hne

/-! ### The combinators preserve `Good` -/

/-- `usize` (8 bytes little endian) on values below `2^64` -/
theorem usize_good : Good usize (fun n => n < 2 ^ 64) := Codec.usize_good

/-- tuples / consecutive fields -/
theorem seq_good {α β : Type} {a : Codec α} {b : Codec β} {Da : α → Prop} {Db : β → Prop}
    (ha : Good a Da) (hb : Good b Db) : Good (seq a b) (fun x => Da x.1 ∧ Db x.2) :=
  Codec.seq_good ha hb

theorem pair_good {α β : Type} {a : Codec α} {b : Codec β} {Da : α → Prop} {Db : β → Prop}
    (ha : Good a Da) (hb : Good b Db) : Good (pair a b) (fun x => Da x.1 ∧ Db x.2) :=
  Codec.pair_good ha hb

/-- `Vec<T>` with its `u64` length prefix -/
theorem vec_good {α : Type} {c : Codec α} {D : α → Prop} (h : Good c D) :
    Good (vec c) (fun xs => xs.length < 2 ^ 64 ∧ ∀ x ∈ xs, D x) :=
  Codec.vec_good h

/-- `BTreeMap<K,V>` as the list of its entries -/
theorem btreeMap_good {κ ν : Type} {k : Codec κ} {v : Codec ν} {Dk : κ → Prop} {Dv : ν → Prop}
    (hk : Good k Dk) (hv : Good v Dv) :
    Good (btreeMap k v) (fun m => m.length < 2 ^ 64 ∧ ∀ e ∈ m, Dk e.1 ∧ Dv e.2) :=
  Codec.btreeMap_good hk hv

/-- `Option<T>` with its tag byte -/
theorem option_good {α : Type} {c : Codec α} {D : α → Prop} (h : Good c D) :
    Good (option c) (fun o => ∀ x, o = some x → D x) :=
  Codec.option_good h

/-- a struct serialized through an isomorphic tuple (derived impls) -/
theorem map_good {α β : Type} {c : Codec α} {D : α → Prop} (h : Good c D) (f : α → β) (g : β → α) :
    Good (map c f g) (fun b => D (g b) ∧ f (g b) = b) :=
  Codec.map_good h f g

/-- `Validate::Yes` keeps all three facts on the values that pass `check` … -/
theorem validated_good {α : Type} {c : Codec α} {D : α → Prop} (h : Good c D) (chk : α → Bool) :
    Good (guard c chk) (fun a => D a ∧ chk a = true) :=
  Codec.guard_good h chk

/-- … and whatever it accepts, `Validate::No` accepts with the same value. -/
theorem validated_agrees {α : Type} (c : Codec α) (chk : α → Bool) (l : List Nat) (a : α)
    (r : List Nat) (h : (guard c chk).dec l = some (a, r)) : c.dec l = some (a, r) ∧ chk a = true :=
  Codec.guard_dec_some c chk l a r h

/-- The one composite field type of the hand-written impls,
`sonic_pc::VerifierKey::degree_bounds_and_neg_powers_of_h : Option<Vec<(usize, G2Affine)>>`,
is good as soon as the point encoding is. -/
theorem sonic_bounds_field_good {G2 : Type} {g2 : Codec G2} {D : G2 → Prop} (h : Good g2 D) :
    Good (option (vec (pair usize g2)))
      (fun o => ∀ v, o = some v → v.length < 2 ^ 64 ∧ ∀ e ∈ v, e.1 < 2 ^ 64 ∧ D e.2) :=
  Codec.option_good (Codec.vec_good (Codec.pair_good Codec.usize_good h))

/-! ### Hand-written impls -/

/-- **Struct-level theorem.**  A hand-written impl is given by the fields `serialize_with_mode`
writes (in order), the locals `deserialize_with_mode` reads (in order) with the field each
initialises, the fields `serialized_size` sums, and for each prepared field the local it is rebuilt
from.  If these lists agree (`SchemaOK`, decidable) then for any good field codecs the impl's codec
round-trips, reports its length, and refuses proper prefixes, on every well-formed record (`WF`:
exactly the declared fields, field values in the domains of their codecs, `prepared_X = prep X`). -/
theorem roundtrip_of_schema_agree {V : Type} [Inhabited V] (s : Schema) (hok : s.SchemaOK = true)
    (fc : String → Codec V) (fd : String → V → Prop) (prep : String → V → V)
    (hfc : ∀ f ∈ s.written, Good (fc f) (fd f)) :
    Good (s.structCodec fc prep) (s.WF fd prep) :=
  Schema.good_of_schemaOK s hok fc fd prep hfc

/-- The lists extracted from the current Rust source satisfy the side condition.  (Swapping two
reads in a deserializer, dropping a summand of `serialized_size`, or rebuilding `prepared_beta_h`
from `h` makes this `decide` fail — see the mutants below.) -/
theorem generated_schemas_ok : ∀ s ∈ Generated.SerSchemas.all, s.2.SchemaOK = true := by decide

/-- **Corollary: every hand-written impl of the crate** (`kzg10::{UniversalParams, Powers,
VerifierKey}`, `sonic_pc::VerifierKey`, `marlin_pst13_pc::{UniversalParams, VerifierKey}` — whatever
T1 found) round-trips, reports its length and refuses truncated input, given that the encodings of
its fields do. -/
theorem generated_roundtrip {V : Type} [Inhabited V] (s : String × Schema)
    (hs : s ∈ Generated.SerSchemas.all) (fc : String → Codec V) (fd : String → V → Prop)
    (prep : String → V → V) (hfc : ∀ f ∈ s.2.written, Good (fc f) (fd f)) :
    Good (s.2.structCodec fc prep) (s.2.WF fd prep) :=
  Schema.good_of_schemaOK s.2 (generated_schemas_ok s hs) fc fd prep hfc

/-- … and with `Validate::Yes` on records whose checked fields pass. -/
theorem generated_roundtrip_validated {V : Type} [Inhabited V] (s : String × Schema)
    (hs : s ∈ Generated.SerSchemas.all) (fc : String → Codec V) (fd : String → V → Prop)
    (prep : String → V → V) (chk : String → V → Bool)
    (hfc : ∀ f ∈ s.2.written, Good (fc f) (fd f)) :
    Good (s.2.structCodecV fc prep chk)
      (fun x => s.2.WF fd prep x ∧ s.2.checkAll chk x = true) :=
  Schema.goodV_of_schemaOK s.2 (generated_schemas_ok s hs) fc fd prep chk hfc

/-! ### Non-vacuity: concrete instances, and mutants the side condition rejects
(the fixed example schema `Ex.vkSchema` and its mutants are in `PCV/Proofs/CodecExamples.lean`, so
that a legitimate change of the Rust structs does not disturb these examples) -/
section Examples
open Ex

-- the hypotheses of `roundtrip_of_schema_agree` are satisfiable: schema, field codecs, record
example : vkSchema.SchemaOK = true := by decide
example : vkSchema.ValidateOK = true := by decide
example : ∀ f ∈ vkSchema.written, Good (fc2 f) (fun v => v.length = 2) :=
  fun _ _ => raw_good 2
example : vkSchema.WF (fun _ v => v.length = 2) prep2 vk0 := vk0_wf
-- … and the conclusion evaluated on it
example : (vkSchema.structCodec fc2 prep2).enc vk0 = [1, 2, 3, 4, 5, 6, 7, 8] := by decide
example : (vkSchema.structCodec fc2 prep2).dec ([1, 2, 3, 4, 5, 6, 7, 8] ++ [9, 9])
    = some (vk0, [9, 9]) := by decide
example : (vkSchema.structCodec fc2 prep2).size vk0 = 8 := by decide
example : (vkSchema.structCodec fc2 prep2).dec [1, 2, 3, 4, 5, 6, 7] = none := by decide

-- mutant 1: the deserializer reads `gamma_g` before `g`
example : vkSwapped.SchemaOK = false := by decide
example : (vkSwapped.structCodec fc2 prep2).dec ((vkSwapped.structCodec fc2 prep2).enc vk0)
    ≠ some (vk0, []) := by decide
-- mutant 2: `serialized_size` forgets `beta_h`
example : vkShortSize.SchemaOK = false := by decide
example : ((vkShortSize.structCodec fc2 prep2).enc vk0).length
    ≠ (vkShortSize.structCodec fc2 prep2).size vk0 := by decide
-- mutant 3: `prepared_beta_h` is rebuilt from `h`
example : vkWrongPrep.SchemaOK = false := by decide
example : (vkWrongPrep.structCodec fc2 prep2).dec ((vkWrongPrep.structCodec fc2 prep2).enc vk0)
    ≠ some (vk0, []) := by decide
-- mutant 4: a field is not written at all; mutant 5: a checked field is no longer checked
example : vkDropped.SchemaOK = false := by decide
example : vkUnchecked.SchemaOK = true ∧ vkUnchecked.ValidateOK = false := by decide

-- the combinators on concrete values: `Option<Vec<(usize, u64)>>` as in the Sonic verifier key
example : (option (vec (pair usize usize))).enc (some [(2, 258)])
    = [1, 1, 0, 0, 0, 0, 0, 0, 0, 2, 0, 0, 0, 0, 0, 0, 0, 2, 1, 0, 0, 0, 0, 0, 0] := by decide
example : (option (vec (pair usize usize))).dec
    ([1, 1, 0, 0, 0, 0, 0, 0, 0, 2, 0, 0, 0, 0, 0, 0, 0, 2, 1, 0, 0, 0, 0, 0, 0] ++ [7])
    = some (some [(2, 258)], [7]) := by decide
example : (option (vec (pair usize usize))).dec
    [1, 1, 0, 0, 0, 0, 0, 0, 0, 2, 0, 0, 0, 0, 0, 0, 0, 2, 1, 0, 0, 0, 0, 0] = none := by decide
example : (option (vec (pair usize usize))).size (some [(2, 258)]) = 25 := by decide
example : (option usize).dec [2, 0, 0, 0, 0, 0, 0, 0, 0] = none := by decide
example : (vec usize).dec [] = none := by decide

end Examples
end PCV.C12
