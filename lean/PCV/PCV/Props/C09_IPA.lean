/-
  Property C09 — setup and trim, inner-product-argument scheme (`InnerProductArgPC::trim`; the
  transparent `setup` is hash-derived and is examined on the implementation by the harness:
  distinct, valid, non-identity generators recomputed from the protocol seed).
  `trim` returns two identical keys: the prefix of the parameters' generators whose length is the
  least power of two above the requested degree, the same `h`, `s`, truthful degree reports;
  requests beyond the parameters are refused.
-/
import PCV.Proofs.IPAVerify
import PCV.Props.Examples

set_option linter.unusedSectionVars false

namespace PCV.C09
open PCV
variable {F : Type} [Field F] [DecidableEq F]

theorem ipa_nextPow2Aux_le (n : Nat) :
    ∀ (fuel i j : Nat), i ≤ j → n ≤ 2 ^ j → IPA.nextPow2Aux n fuel (2 ^ i) ≤ 2 ^ j := by
  intro fuel
  induction fuel with
  | zero => intro i j hij _; exact Nat.pow_le_pow_right (by omega) hij
  | succ f ih =>
    intro i j hij hn
    simp only [IPA.nextPow2Aux]
    split
    · exact Nat.pow_le_pow_right (by omega) hij
    · rename_i hlt
      have hlt' : i < j := by
        by_contra hge
        have : j ≤ i := by omega
        have := Nat.pow_le_pow_right (show 0 < 2 by omega) this
        omega
      have h2 : 2 * 2 ^ i = 2 ^ (i + 1) := by rw [Nat.pow_succ]; omega
      rw [h2]
      exact ih (i + 1) j (by omega) hn

/-- `next_power_of_two` is the LEAST power of two that is large enough -/
theorem ipa_nextPow2_least (n j : Nat) (h : n ≤ 2 ^ j) : IPA.nextPow2 n ≤ 2 ^ j := by
  unfold IPA.nextPow2
  have := ipa_nextPow2Aux_le n n 0 j (by omega) h
  simpa using this

/-- **IPA trim, faithful sub-keys.** Whatever the parameters are (arbitrary generators — in
reality hash-derived ones of unknown discrete logarithm): an answered `trim(pp, supported)` returns
the same key twice (committer = verifier key); its generators are the first `n` generators of the
parameters with `n = next_power_of_two(supported + 1)`, the least power of two `≥ supported + 1`;
`h`, `s` are the parameters'; `supported_degree() = n − 1 ≥ supported` and
`max_degree() = |pp.comm_key| − 1` are truthful. -/
theorem ipa_trim_keys (pp : IPA.UParams F) (supported : Nat) (ck vk : IPA.CK F)
    (h : IPA.trim pp supported = .ok (ck, vk)) :
    vk = ck ∧ ck.commKey = pp.commKey.take ck.commKey.length ∧ ck.h = pp.h ∧ ck.s = pp.s ∧
    ck.commKey.length = IPA.nextPow2 (supported + 1) ∧ (∃ k, ck.commKey.length = 2 ^ k) ∧
    (∀ j, supported + 1 ≤ 2 ^ j → ck.commKey.length ≤ 2 ^ j) ∧
    IPA.supportedDegree ck + 1 = ck.commKey.length ∧ supported ≤ IPA.supportedDegree ck ∧
    ck.commKey.length ≤ pp.commKey.length ∧ ck.maxDegree = pp.commKey.length - 1 := by
  obtain ⟨h1, h2, h3, h4, h5, h6, h7⟩ := IPA.trim_spec pp supported ck vk h
  have hlen : ck.commKey.length = IPA.nextPow2 (supported + 1) := by
    unfold IPA.trim at h
    by_cases he : pp.commKey.isEmpty = true
    · rw [if_pos he] at h; cases h
    · rw [if_neg he] at h
      simp only at h
      by_cases hgt : IPA.nextPow2 (supported + 1) - 1 > pp.commKey.length - 1
      · rw [if_pos hgt] at h; cases h
      · rw [if_neg hgt] at h
        injection h with h; injection h with ha _
        rw [← ha]
        simp only [List.length_take]
        have := IPA.nextPow2_ge (supported + 1)
        have hpos : 0 < pp.commKey.length := by
          cases hk : pp.commKey with
          | nil => simp [hk] at he
          | cons a as => simp
        omega
  have hge := IPA.nextPow2_ge (supported + 1)
  refine ⟨h1, h3, h4, h5, hlen, h2, ?_, ?_, h6, ?_, h7⟩
  · intro j hj; rw [hlen]; exact ipa_nextPow2_least _ j hj
  · unfold IPA.supportedDegree; omega
  · have : (pp.commKey.take ck.commKey.length).length = ck.commKey.length := by rw [← h3]
    rw [List.length_take] at this
    omega

/-- **IPA trim, the boundary.** Empty parameters abort (`max_degree()` underflows); a request whose
rounded-up size exceeds the parameters is refused with `TrimmingDegreeTooLarge`; every other request
is answered. -/
theorem ipa_trim_domain (pp : IPA.UParams F) (supported : Nat) :
    (pp.commKey = [] → IPA.trim pp supported = .error .abort) ∧
    (pp.commKey ≠ [] → IPA.nextPow2 (supported + 1) > pp.commKey.length →
      IPA.trim pp supported = .error .trimTooLarge) ∧
    (pp.commKey ≠ [] → IPA.nextPow2 (supported + 1) ≤ pp.commKey.length →
      ∃ ck, IPA.trim pp supported = .ok (ck, ck)) := by
  refine ⟨?_, ?_, ?_⟩
  · intro h; unfold IPA.trim; simp [h]
  · intro hne hgt
    unfold IPA.trim
    have : pp.commKey.isEmpty = false := by cases h : pp.commKey <;> simp_all
    rw [this]
    simp only [Bool.false_eq_true, if_false]
    have hpos : 0 < pp.commKey.length := by
      cases hk : pp.commKey with
      | nil => exact absurd hk hne
      | cons a as => simp
    rw [if_pos (by omega)]
  · intro hne hle
    unfold IPA.trim
    have : pp.commKey.isEmpty = false := by cases h : pp.commKey <;> simp_all
    rw [this]
    simp only [Bool.false_eq_true, if_false]
    have := IPA.nextPow2_ge (supported + 1)
    have hpos : 0 < pp.commKey.length := by
      cases hk : pp.commKey with
      | nil => exact absurd hk hne
      | cons a as => simp
    rw [if_neg (by omega)]
    exact ⟨_, rfl⟩

/-- **Keys from the same parameters interoperate**: of two trims the smaller key is a prefix of the
larger one, with the same `h`, `s` and the same `max_degree` (so a commitment to a polynomial that
fits the smaller key is the same group element under both). -/
theorem ipa_trim_interoperate (pp : IPA.UParams F) (s1 s2 : Nat) (ck1 vk1 ck2 vk2 : IPA.CK F)
    (h1 : IPA.trim pp s1 = .ok (ck1, vk1)) (h2 : IPA.trim pp s2 = .ok (ck2, vk2))
    (hle : ck1.commKey.length ≤ ck2.commKey.length) :
    ck1.commKey = ck2.commKey.take ck1.commKey.length ∧ ck1.h = ck2.h ∧ ck1.s = ck2.s ∧
      ck1.maxDegree = ck2.maxDegree := by
  obtain ⟨_, a2, a3, a4, _, _, _, _, _, _, a11⟩ := ipa_trim_keys pp s1 ck1 vk1 h1
  obtain ⟨_, b2, b3, b4, _, _, _, _, _, _, b11⟩ := ipa_trim_keys pp s2 ck2 vk2 h2
  refine ⟨?_, by rw [a3, b3], by rw [a4, b4], by rw [a11, b11]⟩
  conv_lhs => rw [a2]
  conv_rhs => rw [b2]
  rw [List.take_take, Nat.min_eq_left hle]

/-- **The key supports exactly what it reports**: a polynomial of degree `≤ supported_degree()` is
accepted by `commit`/`open`, one of degree `supported_degree() + 1` (or more) is refused with
`TooManyCoefficients`. -/
theorem ipa_commit_boundary (ck : IPA.CK F) (p : List F) :
    (pdeg p ≤ IPA.supportedDegree ck → IPA.checkDegreesAndBounds (IPA.supportedDegree ck) p none = .ok ()) ∧
    (pdeg p > IPA.supportedDegree ck → ∀ b,
      IPA.checkDegreesAndBounds (IPA.supportedDegree ck) p b = .error .tooManyCoefficients) := by
  constructor
  · intro h; unfold IPA.checkDegreesAndBounds; rw [if_neg (by omega)]
  · intro h b; unfold IPA.checkDegreesAndBounds; rw [if_pos h]

/-! non-vacuity over `ZMod 101`: 8 generators; `trim(2)` rounds up to 4 and returns the 4-prefix
twice; `trim(4)` needs 8; `trim(8)` needs 16 and is refused; empty parameters abort; the boundary of
`commit` on the 4-element key -/
example : IPA.trim (⟨[3, 5, 7, 11, 2, 4, 6, 8], 13, 17⟩ : IPA.UParams K) 2
    = .ok (⟨[3, 5, 7, 11], 13, 17, 7⟩, ⟨[3, 5, 7, 11], 13, 17, 7⟩) := by decide
example : IPA.trim (⟨[3, 5, 7, 11, 2, 4, 6, 8], 13, 17⟩ : IPA.UParams K) 4
    = .ok (⟨[3, 5, 7, 11, 2, 4, 6, 8], 13, 17, 7⟩, ⟨[3, 5, 7, 11, 2, 4, 6, 8], 13, 17, 7⟩) := by decide
example : IPA.trim (⟨[3, 5, 7, 11, 2, 4, 6, 8], 13, 17⟩ : IPA.UParams K) 8 = .error .trimTooLarge := by
  decide
example : IPA.trim (⟨[], 13, 17⟩ : IPA.UParams K) 0 = .error .abort := by decide
example : IPA.nextPow2 (2 + 1) = 4 ∧ IPA.nextPow2 (8 + 1) > 8 ∧ (2 : Nat) + 1 ≤ 2 ^ 2 := by decide
example : IPA.commit (⟨[3, 5, 7, 11], 13, 17, 7⟩ : IPA.CK K) [⟨[1], [1, 2, 3, 4], none, none⟩] false []
    = .ok ([⟨[1], ⟨78, none⟩, none⟩], [⟨0, none⟩], []) := by decide
example : IPA.commit (⟨[3, 5, 7, 11], 13, 17, 7⟩ : IPA.CK K) [⟨[1], [1, 2, 3, 4, 5], none, none⟩] false []
    = .error .tooManyCoefficients := by decide

end PCV.C09
