/-
  Property C10 — verifiers decide exactly the scheme's published verification relation.
-/
import PCV.Proofs.KZG10
import PCV.Props.Examples

namespace PCV.C10
open PCV
variable {F : Type} [Field F] [DecidableEq F]

/-- The KZG10 verification relation, written from the paper:
`e(C − v·G − rv·γG, H) = e(W, βH − z·H)`, in exponent form. -/
def KZGRelation (vk : KZG.VK F) (c z v : F) (π : KZG.Proof F) : Prop :=
  (c - v * vk.g - KZG.rvVal π.rv * vk.gammaG) * vk.h = π.w * (vk.betaH - z * vk.h)

/-- **KZG10.** `check` returns success exactly when the relation holds — for every verifier key
and every transcript, honest or not. -/
theorem kzg10_check_iff_relation (vk : KZG.VK F) (c z v : F) (π : KZG.Proof F) :
    KZG.check vk c z v π = true ↔ KZGRelation vk c z v π := by
  rw [KZG.check_iff_defect]
  unfold KZG.defect KZGRelation
  exact sub_eq_zero

/-- honest proofs satisfy the relation -/
theorem kzg10_honest_satisfies (g γ β h : F) (n m : Nat) (p : List F) (hb : Option Nat)
    (rng : Bool) (draws : List F) (c : F) (r rest : List F) (z : F) (π : KZG.Proof F)
    (hc : KZG.commit (KZG.wfPowers g γ β n m) p hb rng draws = .ok (c, r, rest))
    (ho : KZG.open (KZG.wfPowers g γ β n m) p z r = .ok π) :
    KZGRelation (KZG.wfVK g γ β h) c z (evalPoly p z) π :=
  (kzg10_check_iff_relation _ _ _ _ _).1
    (KZG.commit_open_check_complete g γ β h n m p hb rng draws c r rest z π hc ho)

/-- every component the relation mentions influences the decision: from an accepting transcript,
changing exactly one of commitment / value / witness / `random_v` (with the stated non-degeneracy)
flips the decision -/
theorem kzg10_each_component_matters (vk : KZG.VK F) (c z v w rv d : F) (hd : d ≠ 0)
    (hh : vk.h ≠ 0) (hacc : KZG.check vk c z v ⟨w, some rv⟩ = true) :
    KZG.check vk (c + d) z v ⟨w, some rv⟩ = false ∧
    (vk.g ≠ 0 → KZG.check vk c z (v + d) ⟨w, some rv⟩ = false) ∧
    (vk.gammaG ≠ 0 → KZG.check vk c z v ⟨w, some (rv + d)⟩ = false) ∧
    (vk.betaH - z * vk.h ≠ 0 → KZG.check vk c z v ⟨w + d, some rv⟩ = false) ∧
    (w ≠ 0 → KZG.check vk c (z + d) v ⟨w, some rv⟩ = false) := by
  rw [KZG.check_iff_defect] at hacc
  unfold KZG.defect KZG.rvVal at hacc
  simp only at hacc
  refine ⟨?_, ?_, ?_, ?_, ?_⟩
  all_goals
    try intro hx
    rw [Bool.eq_false_iff]
    intro hc
    rw [KZG.check_iff_defect] at hc
    unfold KZG.defect KZG.rvVal at hc
    simp only at hc
  · have : d * vk.h = 0 := by linear_combination hc - hacc
    rcases mul_eq_zero.1 this with h0 | h0 <;> contradiction
  · have : d * vk.g * vk.h = 0 := by linear_combination hacc - hc
    rcases mul_eq_zero.1 this with h0 | h0
    · rcases mul_eq_zero.1 h0 with h1 | h1 <;> contradiction
    · contradiction
  · have : d * vk.gammaG * vk.h = 0 := by linear_combination hacc - hc
    rcases mul_eq_zero.1 this with h0 | h0
    · rcases mul_eq_zero.1 h0 with h1 | h1 <;> contradiction
    · contradiction
  · have : d * (vk.betaH - z * vk.h) = 0 := by linear_combination hacc - hc
    rcases mul_eq_zero.1 this with h0 | h0 <;> contradiction
  · have : w * d * vk.h = 0 := by linear_combination hc - hacc
    rcases mul_eq_zero.1 this with h0 | h0
    · rcases mul_eq_zero.1 h0 with h1 | h1 <;> contradiction
    · contradiction

example : KZG.check (KZG.wfVK (3 : K) 5 2 1) 64 5 (evalPoly [1, 2, 3] 5) ⟨81, some 30⟩ = true ∧
    (KZG.wfVK (3 : K) 5 2 1).h ≠ 0 := by decide

end PCV.C10
