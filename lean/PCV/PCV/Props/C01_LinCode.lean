/-
  Property C01 (completeness) — linear-code PCS (`linear_codes/mod.rs`: univariate / multilinear
  Ligero, Brakedown).  Only property theorems live here; lemmas are in PCV/Proofs/LinCode*.lean,
  PCV/Proofs/Merkle.lean.
-/
import PCV.Proofs.LinCodeProto
import PCV.Proofs.LinCodeRS
import PCV.Proofs.LinCodeToy
import PCV.Proofs.CalcT

namespace PCV.C01
open PCV PCV.LinCode PCV.Merkle
variable {F : Type} [Field F] [DecidableEq F] {D : Type} [DecidableEq D]
set_option linter.unusedSectionVars false

/-- **Linear codes, one polynomial.**  For every linear row encoder `E` (hypothesis `Encodes`: the
scheme's `encode` computes a linear map of codeword length `k ≥ 2` on rows), every matrix shape
`compute_dimensions` returns, every column hash and Merkle hashes, every point whose `tensor` has one
entry of `a` per column and one of `b` per row (`ha`, `hb`: a point with the right number of
coordinates — `ha` is needed since fix D23, `check` refuses a point of another length; both are
automatic for a univariate point, `lincode_tensor_univariate`, and for a multilinear point on a
power-of-two shape, `lincode_tensor_multilinear`), every sponge output (`n_rows` coefficients `r`, any number of positions
`< n_ext_cols`), with and without the well-formedness check: `commit` succeeds, `open` succeeds on
its outputs, and `check` accepts the value `⟨b·M, a⟩`. -/
theorem lincode_complete_one (pp : Params F D) (point : Point F) (coeffs : List F)
    (E : List F → List F) (k : Nat) (h : Encodes pp coeffs E k) (a b : List F) (o : Oracle F)
    (ht : tensor point (coeffMat pp.dims coeffs).m (coeffMat pp.dims coeffs).n = .ok (a, b))
    (ha : a.length = (coeffMat pp.dims coeffs).m) (hb : b.length = (coeffMat pp.dims coeffs).n)
    (hr : o.r.length = (coeffMat pp.dims coeffs).n) (hi : ∀ i ∈ o.indices, i < k) :
    ∃ c st π, commit pp coeffs = .ok (c, st) ∧ openOne pp point c st o = .ok π ∧
      checkOne pp point c
        (dot (vecMat b (coeffMat pp.dims coeffs).rows (coeffMat pp.dims coeffs).m) a) π o
        = .ok true :=
  ⟨_, _, _, commit_eq pp coeffs E k h, openOne_eq pp point coeffs E k h a b o _ ht hb hr hi,
    checkOne_honest pp point coeffs E k h a b o ht ha hb hi⟩

/-- **Linear codes, the whole run.**  For a list of polynomials, each in the domain (`HonestRun`:
linear encoder on its rows, `tensor` defined with vectors of the lengths of the matrix, oracle outputs
of the right size and range):
`commit` on all, `open` on the commitments and states, `check` on the claimed values
`⟨bᵢ·Mᵢ, aᵢ⟩` gives `Ok(true)`. -/
theorem lincode_complete (pp : Params F D) (point : Point F) (polys : List (List F))
    (os : List (Oracle F)) (h : List.Forall₂ (HonestRun pp point) polys os) :
    ∃ css πs, commitAll pp polys = .ok css ∧
      openAll pp point (css.map Prod.fst) (css.map Prod.snd) os = .ok πs ∧
      checkAll pp point (css.map Prod.fst) (polys.map (claimed pp point)) πs os = .ok true :=
  complete_all pp point polys os h

/-- **Univariate Ligero: the claimed value is `p(z)`**, for every coefficient list (the empty one
included: it is committed as `[0]`) whenever the matrix holds the coefficients (`len ≤ n·m`, which
`compute_dimensions` guarantees through `m = ⌈len/n⌉`). -/
theorem lincode_claimed_univariate (pp : Params F D) (z : F) (coeffs : List F)
    (h : (coeffsOrZero coeffs).length ≤
      (pp.dims (coeffsOrZero coeffs).length).1 * (pp.dims (coeffsOrZero coeffs).length).2) :
    claimed pp (.uni z) coeffs = evalPoly coeffs z := by
  unfold claimed
  simp only [tensor, coeffMat]
  have := univariate_tensor_eval (coeffsOrZero coeffs) _ _ z h
  rw [evalPoly_coeffsOrZero] at this
  exact this

/-- the univariate `tensor` never fails and has one entry of `b` per row -/
theorem lincode_tensor_univariate (z : F) (nCols nRows : Nat) :
    ∃ a b, tensor (Point.uni z) nCols nRows = .ok (a, b) ∧ b.length = nRows ∧ a.length = nCols :=
  ⟨_, _, rfl, powers_length _ _ _, powers_length _ _ _⟩

/-- **Multilinear Ligero / Brakedown: the claimed value is `f(point)`** for `2^nv` hypercube
evaluations arranged in `2^(nv−k)` rows of `2^k` entries and a point with `nv` coordinates. -/
theorem lincode_claimed_multilinear (pp : Params F D) (pt evals : List F) (k : Nat)
    (hk : k ≤ pt.length) (hl : evals.length = 2 ^ pt.length)
    (hd : pp.dims evals.length = (2 ^ (pt.length - k), 2 ^ k)) :
    claimed pp (.ml pt) evals = evalMLE evals pt := by
  have hne : coeffsOrZero evals = evals := by
    unfold coeffsOrZero
    cases evals with
    | nil =>
      have : 0 < 2 ^ pt.length := Nat.two_pow_pos _
      simp only [List.length_nil] at hl
      omega
    | cons x xs => rfl
  have hres : resize (2 ^ (pt.length - k) * 2 ^ k) evals = evals := by
    have : 2 ^ (pt.length - k) * 2 ^ k = evals.length := by
      rw [hl, ← Nat.pow_add]; congr 1; omega
    rw [this]; simp [resize]
  unfold claimed
  simp only [coeffMat, hne, hd, Mat.ofFlat, tensor, tensorML, ceilLog2_two_pow, hk, if_true, hres]
  exact multilinear_tensor_eval evals pt k hk hl

/-- the multilinear `tensor` for a power-of-two width has one entry of `b` per row -/
theorem lincode_tensor_multilinear (pt : List F) (k : Nat) (hk : k ≤ pt.length) :
    ∃ a b, tensor (Point.ml pt) (2 ^ k) (2 ^ (pt.length - k)) = .ok (a, b) ∧
      b.length = 2 ^ (pt.length - k) ∧ a.length = 2 ^ k := by
  refine ⟨tensorVec (pt.take k), tensorVec (pt.drop k), ?_, ?_, ?_⟩
  · simp [tensor, tensorML, ceilLog2_two_pow, hk]
  · simp [tensorVec_length]
  · simp [tensorVec_length, hk]

/-- the positions `get_indices_from_sponge` derives from any squeezed bytes are inside the codeword
(so the oracle hypothesis of the completeness theorems is met by every sponge output) -/
theorem lincode_indices_in_range (nExt : Nat) (h : 0 < nExt) (squeezes : List (List Nat)) :
    ∀ i ∈ getIndices nExt squeezes, i < nExt :=
  getIndices_lt nExt h squeezes

/-- the Reed–Solomon encoder of the Ligero schemes meets the encoder hypothesis on every length -/
theorem lincode_rs_is_linear (ω : F) (len m : Nat) : IsLinear (rsEncode ω len) m len :=
  rs_isLinear ω len m

/-- the Brakedown encoder (consistent tables) meets the encoder hypothesis on length `m` -/
theorem lincode_brakedown_is_linear (bp : BParams F) (h : shapeOk bp = true) :
    IsLinear (encodeCore bp) bp.m bp.mExt ∧
      (∀ x, x.length = bp.m → encode bp x = .ok (encodeCore bp x)) :=
  ⟨(brakedown_isLinear bp h).1, (brakedown_isLinear bp h).2.1⟩

/-! non-vacuity: the hypotheses hold on the toy instance (repetition code, `2 × 2` matrix over
`ZMod 101`), with and without well-formedness; the run evaluates to `Ok(true)` -/
example : HonestRun (toyPP true) (.uni 5) [1, 2, 3] ⟨[7, 9], [2, 0, 3]⟩ where
  enc := ⟨toyE, 4, toy_encodes true _ (by decide), by decide⟩
  tens := ⟨_, _, rfl, by decide, by decide⟩
  rlen := by decide
example : toyRun true (.uni 5) [1, 2, 3] ⟨[7, 9], [2, 0, 3]⟩ (evalPoly [1, 2, 3] 5) = .ok true := by
  decide
example : toyRun false (.uni 5) [1, 2, 3] ⟨[], [1, 1]⟩ (evalPoly [1, 2, 3] 5) = .ok true := by
  decide
/-- the zero polynomial with no coefficients is committed as `[0]` (a `2 × 1` matrix, codewords of
length 2) -/
example : toyRun true (.uni 5) [] ⟨[7, 9], [1]⟩ 0 = .ok true := by decide
example : toyRun true (.ml [3, 8]) [1, 2, 3, 4] ⟨[7, 9], [2, 0, 3]⟩ (evalMLE [1, 2, 3, 4] [3, 8])
    = .ok true := by decide
example : (2 : Nat) ≤ ([3, 8] : List K).length ∧ ([1, 2, 3, 4] : List K).length = 2 ^ 2 := by decide

end PCV.C01
