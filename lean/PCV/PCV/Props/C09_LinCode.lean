/-
  Property C09 (setup and trim produce well-formed, mutually consistent keys) — linear-code schemes.
  Model: `PCV.Model.LinCodeSetup`.  The linear-code "keys" are the parameter structs themselves; what
  there is to state is: the defaults `setup` installs, that the distance they report is usable by
  `calculate_t`, what degrees are reported and refused, and that `trim` hands out the parameters
  unchanged.  Matrix shapes (`compute_dimensions`), the number of opened columns (`calculate_t`) and
  the encoders are C13's (`Props/C13.lean`), not repeated here.
-/
import PCV.Model.LinCodeSetup
import PCV.Proofs.CalcT
import PCV.Props.Examples

set_option linter.unusedSectionVars false
set_option linter.unusedVariables false

namespace PCV.C09
open PCV PCV.LinCode

/-- **Ligero defaults**: security parameter 128, well-formedness check on; inverse rate 4
(univariate: reported distance `3/4`) and 2 (multilinear: distance `1/2`), both usable by
`calculate_t` (`0 < d0 < 2·d1`). -/
theorem lincode_ligero_defaults :
    ligeroSetup.secParam = 128 ∧ ligeroSetup.rhoInv = 4 ∧ ligeroSetup.checkWf = true ∧
      ligeroSetup.distance = (3, 4) ∧ distanceUsable 3 4 = true ∧
    ligeroSetupML.secParam = 128 ∧ ligeroSetupML.rhoInv = 2 ∧ ligeroSetupML.checkWf = true ∧
      ligeroSetupML.distance = (1, 2) ∧ distanceUsable 1 2 = true := by decide

/-- every inverse rate `≥ 2` reports a usable distance (`rho_inv = 1` reports distance `0`, with
which `calculate_t` — hence `compute_dimensions` — refuses: `C13.calcT_unusable`) -/
theorem lincode_distance_usable (pp : LigeroParams) (h : 2 ≤ pp.rhoInv) :
    distanceUsable pp.distance.1 pp.distance.2 = true := by
  unfold LigeroParams.distance distanceUsable
  have h1 : 0 < pp.rhoInv := by omega
  have h2 : 0 < pp.rhoInv - 1 := by omega
  have h3 : pp.rhoInv - 1 < 2 * pp.rhoInv := by omega
  simp [h1, h2, h3]

theorem lincode_distance_unusable (pp : LigeroParams) (h : pp.rhoInv ≤ 1) :
    distanceUsable pp.distance.1 pp.distance.2 = false := by
  simp only [LigeroParams.distance, distanceUsable]
  rcases Nat.le_one_iff_eq_zero_or_eq_one.1 h with h0 | h1
  · simp [h0]
  · simp [h1]

/-- **`setup` is truthful about the maximum**: it answers exactly when the requested degree is at
most the reported maximum and the field is suitable (`max ≠ 0`); everything beyond is
`InvalidParameters`. -/
theorem lincode_setup_iff (realMax maxDegree : Nat) :
    pcsSetup realMax maxDegree = .ok () ↔ maxDegree ≤ realMax ∧ realMax ≠ 0 := by
  unfold pcsSetup
  by_cases h : maxDegree > realMax ∨ realMax = 0
  · rw [if_pos h]
    constructor
    · intro h'; cases h'
    · rintro ⟨h1, h2⟩; rcases h with h | h <;> omega
  · rw [if_neg h]
    constructor
    · intro _; omega
    · intro _; rfl

theorem lincode_setup_refuses (realMax maxDegree : Nat) (h : realMax < maxDegree ∨ realMax = 0) :
    pcsSetup realMax maxDegree = .error .invalidParameters := by
  unfold pcsSetup
  rw [if_pos (by omega)]

/-- **`trim` hands out the parameters unchanged** as committer and verifier key (so the two keys
always interoperate) and refuses exactly when the field is unsuitable. -/
theorem lincode_trim_faithful {P : Type} (realMax : Nat) (pp : P) :
    (realMax ≠ 0 → pcsTrim realMax pp = .ok (pp, pp)) ∧
    (realMax = 0 → pcsTrim realMax pp = .error .invalidParameters) := by
  unfold pcsTrim
  constructor
  · intro h; rw [if_neg h]
  · intro h; rw [if_pos h]

/-- the Ligero degree report over a field of two-adicity `s`: unsuitable exactly when `s < rho_inv`;
otherwise positive, so `setup`/`trim` answer for every degree up to it -/
theorem lincode_ligero_max_degree_pos (s : Nat) (pp : LigeroParams) :
    ligeroMaxDegree s pp = 0 ↔ s < pp.rhoInv := by
  unfold ligeroMaxDegree
  by_cases h : s < pp.rhoInv
  · simp [h]
  · simp only [h, if_false, iff_false]
    split
    · exact Nat.pos_iff_ne_zero.1 (Nat.two_pow_pos _)
    · decide

/-- over the scalar field of BLS12-381 (two-adicity 32) the defaults report `2^56` (univariate) and
`2^60` (multilinear) -/
theorem lincode_ligero_bls_report :
    ligeroMaxDegree 32 ligeroSetup = 2 ^ 56 ∧ ligeroMaxDegree 32 ligeroSetupML = 2 ^ 60 := by decide

/-! non-vacuity -/
example : pcsSetup (2 ^ 56) 1000 = .ok () ∧ pcsSetup (2 ^ 56) (2 ^ 56 + 1) = .error .invalidParameters ∧
    pcsSetup 0 0 = .error .invalidParameters := by decide
example : pcsTrim (2 ^ 56) ligeroSetup = .ok (ligeroSetup, ligeroSetup) ∧
    pcsTrim 0 ligeroSetup = .error .invalidParameters := by decide
example : ligeroMaxDegree 3 ligeroSetup = 0 ∧ ligeroMaxDegree 40 ligeroSetup = usizeMax := by decide

end PCV.C09
