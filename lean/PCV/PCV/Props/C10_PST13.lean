/-
  Property C10 — the verifier decides exactly the published relation: MarlinPST13 `check`.
  Published relation (PST13 with the Marlin-style batching and hiding):
      e(Σⱼ ξⱼ·(Cⱼ − vⱼ·G) − rv·γG, H) = Πᵢ e(Wᵢ, βᵢH − zᵢ·H)
  in exponent form `(Σⱼ ξⱼ(cⱼ − vⱼ·g) − rv·γ)·h = Σᵢ wᵢ·(βᵢh − zᵢ·h)`.  `check` answers `true` exactly
  when it holds, and every component the relation mentions moves the defect (lhs − rhs) by an
  explicit amount — so none of them can be dropped from the decision.
-/
import PCV.Proofs.PST13More
import PCV.Props.Examples

set_option synthInstance.maxSize 512
set_option linter.unusedSectionVars false
set_option linter.unusedVariables false

namespace PCV.C10
open PCV PCV.MV
variable {F : Type} [Field F] [DecidableEq F]

/-- the two sides of the published relation for accumulated `(C, V)` -/
def pst13Lhs (vk : PST.VK F) (C V : F) (π : PST.Proof F) : F :=
  (C - vk.g * V - vk.gammaG * PST.rvVal π.rv) * vk.h
def pst13Rhs (vk : PST.VK F) (z : List F) (π : PST.Proof F) : F :=
  PST.rhsSum vk.h vk.betaH z 0 π.w

/-- **`check = ok true` ⇔ the published pairing relation.**  Arbitrary verifier key, commitments,
point, values, proof and challenges; whenever `check` answers at all (one witness per key variable,
enough challenges, key and point long enough) the answer is `lhs = rhs`, with `(C, V)` the
challenge-weighted sums of commitments and values. -/
theorem pst13_check_iff_relation (vk : PST.VK F) (cs z vs : List F) (π : PST.Proof F) (ξs : List F)
    (a : F × F × List F) (hacc : PST.accumulate 0 0 cs vs ξs = .ok a)
    (hnv : π.w.length = vk.numVars)
    (hlen : π.w.length ≤ vk.betaH.length ∧ π.w.length ≤ z.length) :
    PST.check vk cs z vs π ξs = .ok true ↔ pst13Lhs vk a.1 a.2.1 π = pst13Rhs vk z π := by
  rw [PST.check_iff_defect vk cs z vs π ξs a hacc hnv hlen]
  unfold PST.defect pst13Lhs pst13Rhs
  rw [hacc]
  simp only [PST.defectCombined]
  exact sub_eq_zero

/-- … and whenever `check` answers, those side conditions hold -/
theorem pst13_check_answer_is_relation (vk : PST.VK F) (cs z vs : List F) (π : PST.Proof F)
    (ξs : List F) (b : Bool) (h : PST.check vk cs z vs π ξs = .ok b) :
    ∃ a, PST.accumulate 0 0 cs vs ξs = .ok a
      ∧ b = decide (pst13Lhs vk a.1 a.2.1 π = pst13Rhs vk z π) := by
  obtain ⟨_, a, ha, _, _, hb⟩ := PST.check_ok_inv vk cs z vs π ξs b h
  refine ⟨a, ha, ?_⟩
  rw [hb]
  unfold pst13Lhs pst13Rhs PST.defectCombined
  exact decide_eq_decide.2 sub_eq_zero

/-- **The accumulated pair is linear in commitments and values** (every `Cⱼ`, `vⱼ` and `ξⱼ` enters):
moving them by `(dcs, dvs)` moves `(C, V)` by the accumulation of the differences under the same
challenges. -/
theorem pst13_accumulate_linear (cs vs dcs dvs ξs : List F)
    (hl1 : dcs.length = cs.length) (hl2 : dvs.length = vs.length)
    (out dout : F × F × List F) (h : PST.accumulate 0 0 cs vs ξs = .ok out)
    (hd : PST.accumulate 0 0 dcs dvs ξs = .ok dout) :
    PST.accumulate 0 0 (List.zipWith (· + ·) cs dcs) (List.zipWith (· + ·) vs dvs) ξs
      = .ok (out.1 + dout.1, out.2.1 + dout.2.1, out.2.2) := by
  have := (PST.accumulate_add 0 0 0 0 cs vs dcs dvs ξs hl1 hl2 out h dout hd).1
  simpa using this

/-- **Commitment and value** (through their accumulated sums): `(C + dC, V + dV)` moves the defect
by `(dC − g·dV)·h`. -/
theorem pst13_defect_claim (vk : PST.VK F) (C V dC dV : F) (z : List F) (π : PST.Proof F) :
    PST.defectCombined vk (C + dC) (V + dV) z π
      = PST.defectCombined vk C V z π + (dC - vk.g * dV) * vk.h :=
  PST.defectCombined_shift vk C V dC dV z π

/-- **Every proof element**: witness `Wⱼ + δ` moves the defect by `−δ·(βⱼh − zⱼ·h)`; `rv + δ` by
`−γ·δ·h`; a dropped `rv` by `+γ·rv·h`. -/
theorem pst13_defect_proof_elements (vk : PST.VK F) (C V : F) (z pre post w : List F) (x δ : F)
    (rv : Option F) :
    PST.defectCombined vk C V z ⟨pre ++ (x + δ) :: post, rv⟩
        = PST.defectCombined vk C V z ⟨pre ++ x :: post, rv⟩
          - δ * (getD' vk.betaH pre.length 0 - vk.h * getD' z pre.length 0)
      ∧ PST.defectCombined vk C V z ⟨w, some (x + δ)⟩
        = PST.defectCombined vk C V z ⟨w, some x⟩ - vk.gammaG * δ * vk.h
      ∧ PST.defectCombined vk C V z ⟨w, none⟩
        = PST.defectCombined vk C V z ⟨w, some x⟩ + vk.gammaG * x * vk.h :=
  ⟨PST.defect_witness_shift vk C V z pre post x δ rv, PST.defect_rv_shift vk C V z w x δ⟩

/-- **Every point coordinate**: `zⱼ + δ` moves the defect by `+Wⱼ·δ·h`. -/
theorem pst13_defect_point (vk : PST.VK F) (C V : F) (zpre zpost : List F) (a δ : F)
    (π : PST.Proof F) :
    PST.defectCombined vk C V (zpre ++ (a + δ) :: zpost) π
      = PST.defectCombined vk C V (zpre ++ a :: zpost) π + vk.h * δ * getD' π.w zpre.length 0 :=
  PST.defect_point_shift vk C V zpre zpost a δ π

/-- **Every verifier-key element**: `g + δ` moves the defect by `−δ·V·h`; `gamma_g + δ` by `−δ·rv·h`;
`h + δ` by `δ·(C − g·V − γ·rv + Σ Wᵢzᵢ)`; `beta_h[j] + δ` by `−δ·Wⱼ`. -/
theorem pst13_defect_key_elements (vk : PST.VK F) (C V δ : F) (z : List F) (π : PST.Proof F)
    (pre post : List F) (x : F) (hb : vk.betaH = pre ++ x :: post) :
    PST.defectCombined { vk with g := vk.g + δ } C V z π
        = PST.defectCombined vk C V z π - δ * V * vk.h
      ∧ PST.defectCombined { vk with gammaG := vk.gammaG + δ } C V z π
        = PST.defectCombined vk C V z π - δ * PST.rvVal π.rv * vk.h
      ∧ PST.defectCombined { vk with h := vk.h + δ } C V z π
        = PST.defectCombined vk C V z π
          + δ * (C - vk.g * V - vk.gammaG * PST.rvVal π.rv + PST.wz z 0 π.w)
      ∧ PST.defectCombined { vk with betaH := pre ++ (x + δ) :: post } C V z π
        = PST.defectCombined vk C V z π - δ * getD' π.w pre.length 0 :=
  ⟨PST.defect_key_g vk C V δ z π, PST.defect_key_gamma vk C V δ z π, PST.defect_key_h vk C V δ z π,
    PST.defect_key_betaH vk C V pre post x δ z π hb⟩

/-- **Hence every component matters**: a transcript whose defect vanishes, with one component
replaced so that the stated shift `s` is non-zero, has a non-vanishing defect — `check` answers
`false`. -/
theorem pst13_component_matters (D s : F) (h0 : D = 0) (hs : s ≠ 0) :
    decide (D + s = 0) = false :=
  PST.decide_shift_false D s h0 hs

/-- **The honest proof satisfies the relation** (restating C01): key of a trapdoor, one polynomial,
any hiding bound: the defect of the true claim vanishes. -/
theorem pst13_honest_satisfies_relation (g γ h : F) (β : List F) (ts : List Term)
    (nv s D m : Nat) (p : MVPoly F) (hb : Option Nat) (rng : Bool) (draws : List F) (c : F)
    (r : MVPoly F) (rest : List F) (z : List F) (ξ : F) (ξs : List F) (π : PST.Proof F)
    (hp : polyWf p = true) (hpv : polyVarsBelow nv p = true)
    (hβ : nv ≤ β.length) (hz : nv ≤ z.length)
    (hc : PST.commit (PST.wfCK g γ β ts nv s D m) p hb rng draws = .ok (c, r, rest))
    (ho : PST.open (PST.wfCK g γ β ts nv s D m) nv nv [p] z [r] (ξ :: ξs) = .ok π) :
    pst13Lhs (PST.wfVK g γ h β nv s D) (c * ξ) (evalMV p z * ξ) π
      = pst13Rhs (PST.wfVK g γ h β nv s D) z π := by
  have hrv := (PST.commit_spec g γ β ts nv s D m p hb rng draws c r rest hc).2.2.1
  have hchk := PST.single_check_eq g γ h β ts nv s D m nv nv p hb rng draws c r rest z ξ ξs π 0 0
    (Nat.le_refl _) (Nat.le_refl _) hp hpv hrv hβ hz hc ho
  simp only [add_zero] at hchk
  obtain ⟨a, ha, hb'⟩ := pst13_check_answer_is_relation _ _ _ _ _ _ _ hchk
  simp only [PST.accumulate, zero_add] at ha
  injection ha with ha
  subst ha
  simpa using hb'.symm

/-! ### non-vacuity over `ZMod 101`: the accepted transcript of the C01 example and each component
replaced -/

def exVK : PST.VK K := PST.wfVK (3 : K) 5 11 [2, 7] 2 2 2

example : PST.check exVK [27] [10, 20] [3] ⟨[10, 66], some 93⟩ [13] = .ok true := by decide
example : pst13Lhs exVK (27 * 13) (3 * 13) ⟨[10, 66], some 93⟩
    = pst13Rhs exVK [10, 20] ⟨[10, 66], some 93⟩ := by decide
example : PST.accumulate (0 : K) 0 [27] [3] [13] = .ok (48, 39, []) := by decide
/-- commitment, value, point coordinate, witness, `random_v`, challenge -/
example : PST.check exVK [28] [10, 20] [3] ⟨[10, 66], some 93⟩ [13] = .ok false := by decide
example : PST.check exVK [27] [10, 20] [4] ⟨[10, 66], some 93⟩ [13] = .ok false := by decide
example : PST.check exVK [27] [10, 21] [3] ⟨[10, 66], some 93⟩ [13] = .ok false := by decide
example : PST.check exVK [27] [10, 20] [3] ⟨[10, 67], some 93⟩ [13] = .ok false := by decide
example : PST.check exVK [27] [10, 20] [3] ⟨[10, 66], some 92⟩ [13] = .ok false := by decide
example : PST.check exVK [27] [10, 20] [3] ⟨[10, 66], some 93⟩ [14] = .ok false := by decide
/-- key elements `g`, `gamma_g`, `h`, `beta_h[1]` -/
example : PST.check { exVK with g := 4 } [27] [10, 20] [3] ⟨[10, 66], some 93⟩ [13] = .ok false := by
  decide
example : PST.check { exVK with gammaG := 6 } [27] [10, 20] [3] ⟨[10, 66], some 93⟩ [13] = .ok false := by
  decide
example : PST.check { exVK with h := 12 } [27] [10, 20] [3] ⟨[10, 66], some 93⟩ [13] = .ok false := by
  decide
example : PST.check { exVK with betaH := [22, 78] } [27] [10, 20] [3] ⟨[10, 66], some 93⟩ [13]
    = .ok false := by decide

/-- `pst13_accumulate_linear`: two commitments / values moved by `(1, 2)` / `(4, 7)` -/
example : PST.accumulate (0 : K) 0 [27, 13] [3, 62] [13, 17] = .ok (67, 83, [])
    ∧ PST.accumulate (0 : K) 0 [1, 2] [4, 7] [13, 17] = .ok (47, 70, [])
    ∧ PST.accumulate (0 : K) 0 [27 + 1, 13 + 2] [3 + 4, 62 + 7] [13, 17] = .ok (67 + 47, 83 + 70, []) := by
  decide

end PCV.C10
