/-
  Property C03 (Hyrax) — the reduction behind "no crafted proof proves a false claim": special
  soundness of the proof of dot product.  (Attack catalogue on the exact model: `Props/C03_Hyrax.lean`.)
-/
import PCV.Proofs.HyraxSound
import PCV.Props.C03_Hyrax
set_option linter.unusedSectionVars false

namespace PCV.C03
open PCV Hyrax
variable {F : Type} [Field F] [DecidableEq F]

/-- **Hyrax, special soundness on accepted transcripts.**  If the verifier accepts, for the same
commitment `T`, point and claimed value, two proofs with the same first message
`(com_eval, com_d, com_b)` under two different challenges `c ≠ c'` (a forger that can answer two
challenges — what rewinding a successful forger yields), then from the two responses one computes
`w = (z − z')/(c − c')` with
* `⟨L, T⟩ = ⟨com_key, w⟩ + ρ·h` — `w` opens the row combination of the commitment,
* `(⟨R, w⟩ − value)·com_key[0] + (σ − r_eval)·h = 0`,
so either `⟨R, w⟩ = value` — the claimed value IS the evaluation of the vector committed in `T` — or
the forger has produced a non-trivial discrete-log relation between `com_key[0]` and `h`. -/
theorem hyrax_special_soundness (ks : List F) (hh : F) (T point : List F) (v : F)
    (ce cd cb : F) (z z' : List F) (zd zd' zb zb' re re' c c' : F) (hc : c ≠ c')
    (h₁ : Hyrax.check ks hh [T] point [v] [⟨ce, cd, cb, z, zd, zb, re⟩] [c] = .ok true)
    (h₂ : Hyrax.check ks hh [T] point [v] [⟨ce, cd, cb, z', zd', zb', re'⟩] [c'] = .ok true) :
    ∃ k0 w ρ σ, Hyrax.key0 ks = some k0 ∧
      dot T (tensorL point) = dot ks w + hh * ρ ∧
      (dot (tensorR point) w - v) * k0 + (σ - re) * hh = 0 := by
  obtain ⟨k0, hk, e1, e14, e13⟩ := hyrax_single_accept ks hh T point v _ c h₁
  obtain ⟨k0', hk', _, e14', e13'⟩ := hyrax_single_accept ks hh T point v _ c' h₂
  rw [hk] at hk'; injection hk' with hk'; subst hk'
  have hz := (hyrax_accept_shapes ks hh [T] point [v] _ [c] h₁).2.1
    ⟨ce, cd, cb, z, zd, zb, re⟩ (List.mem_singleton.2 rfl)
  have hz' := (hyrax_accept_shapes ks hh [T] point [v] _ [c'] h₂).2.1
    ⟨ce, cd, cb, z', zd', zb', re'⟩ (List.mem_singleton.2 rfl)
  simp only at hz hz'
  obtain ⟨s1, s2⟩ := special_soundness ks k0 hh (tensorL point) (tensorR point) T ce cd cb z z'
    zd zd' zb zb' re re' c c' hc (by rw [hz, hz']) e13 e13' e14 e14'
  refine ⟨k0, vscale (c - c')⁻¹ (vsub z z'), (zd - zd') * (c - c')⁻¹, (zb - zb') * (c - c')⁻¹, hk, s1, ?_⟩
  exact value_or_relation k0 hh (tensorR point) _ ce _ v re s2 e1

/-! non-vacuity: the honest prover of `C01_Hyrax`'s first example polynomial, same draws, challenges
`11` and `13`: same first message, both accepted -/
example : Hyrax.check ([3, 5] : List K) 7 [[88, 65]] [6, 17] [41] [⟨29, 49, 92, [79, 1], 67, 16, 1⟩] [11]
      = .ok true ∧
    Hyrax.check ([3, 5] : List K) 7 [[88, 65]] [6, 17] [41] [⟨29, 49, 92, [93, 19], 5, 18, 1⟩] [13]
      = .ok true ∧ (11 : K) ≠ 13 := by decide

end PCV.C03
