/-
  Property C11 (prover / verifier transcripts stay in lock-step) — the trait-default `batch_open` /
  `batch_check` / `check_combinations` of `poly-commit/src/lib.rs`.  Model: `PCV.Model.TraitDefault`; the
  caller's sponge (and RNG) is the abstract state threaded through the scheme's `open` / `check`.
  Only property theorems live here; lemmas are in PCV/Proofs/TraitDefault*.lean.
-/
import PCV.Proofs.TraitDefaultLC
import PCV.Proofs.TraitDefaultToy
set_option linter.unusedSectionVars false

namespace PCV.C11
open PCV TraitDefault
variable {Pt : Type} [DecidableEq Pt] {LP S C V PF σp σv : Type}

/-- **Lock-step of the default batch.** Let `R` relate the prover's and the verifier's state (e.g.
"the two sponges are equal"), and let one `open` and the `check` of the same group — same labels in the
same order, same point, the proof that `open` made — keep `R` whenever both answer.  Then after
`batch_open` and `batch_check` over the same query list the states are again related, WHATEVER the
verdict: a `false` of one group does not end the verifier's loop, so even a rejected batch leaves the
verifier's sponge where the prover's is. -/
theorem default_batch_lockstep (ltP : Pt → Pt → Bool) (lblP : LP → Label) (lblC : C → Label)
    (openF : List ((LP × S) × C) → Pt → σp → Except Err (PF × σp))
    (checkF : List C → Pt → List V → PF → σv → Except Err (Bool × σv))
    (R : σp → σv → Prop)
    (hstep : ∀ ts cs z vs π sp sp' sv sv' b, R sp sv →
      ts.map (fun t => lblP t.1.1) = cs.map lblC →
      openF ts z sp = .ok (π, sp') → checkF cs z vs π sv = .ok (b, sv') → R sp' sv')
    (polys : List LP) (sts : List S) (comms vcomms : List C) (qs : List (Query Pt))
    (evals : List ((Label × Pt) × V)) (sp : σp) (sv : σv) (πs : List PF) (sp' : σp) (b : Bool)
    (sv' : σv) (h0 : R sp sv)
    (ho : batchOpen ltP lblP openF polys sts comms qs sp = .ok (πs, sp'))
    (hc : batchCheck ltP lblC checkF vcomms qs evals πs sv = .ok (b, sv')) : R sp' sv' := by
  unfold batchOpen batchOpenSet at ho
  unfold batchCheck batchCheckSet at hc
  split at hc
  · cases hc
  · exact loops_lockstep lblP lblC openF checkF R hstep _ vcomms evals _ sp sv πs sp' true b sv' h0 ho hc

/-- **Combination openings.** `check_combinations` touches the sponge only through its inner
`batch_check`: if it answers after the equation stage (in particular whenever it accepts) the state is
the one that inner batch leaves; if the equation stage finds a wrong claimed value it answers `false`
WITHOUT touching the sponge — the verifier's transcript then lags the prover's by the whole opening. -/
theorem default_combinations_state {F : Type} [Field F] [DecidableEq F]
    (ltP : Pt → Pt → Bool) (lblC : C → Label)
    (checkF : List C → Pt → List F → PF → σv → Except Err (Bool × σv))
    (lcs : List (LC.LinComb F)) (comms : List C) (qs : List (Query Pt))
    (ee : List ((Label × Pt) × F)) (πs : List PF) (evs : List F) (s : σv) (b : Bool) (s' : σv)
    (h : checkCombinations ltP lblC checkF lcs comms qs ee πs (some evs) s = .ok (b, s')) :
    (eqnLoop lcs ee (polyEvals ltP (verifierPolyQuerySet ltP lcs qs) evs) (querySet ltP qs) = .ok false ∧
      b = false ∧ s' = s) ∨
    (eqnLoop lcs ee (polyEvals ltP (verifierPolyQuerySet ltP lcs qs) evs) (querySet ltP qs) = .ok true ∧
      batchCheckSet lblC checkF comms (verifierPolyQuerySet ltP lcs qs)
        (polyEvals ltP (verifierPolyQuerySet ltP lcs qs) evs) πs s = .ok (b, s')) := by
  unfold checkCombinations at h
  unfold verifierPolyQuerySet
  simp only at h
  cases he : eqnLoop lcs ee (polyEvals ltP (lcToPolyQuerySet ltP (lcValues lcs) (querySet ltP qs)) evs)
      (querySet ltP qs) with
  | error e => rw [he] at h; cases h
  | ok r =>
    rw [he] at h
    cases r with
    | false =>
      simp only [Except.ok.injEq, Prod.mk.injEq] at h
      exact Or.inl ⟨rfl, h.1.symm, h.2.symm⟩
    | true => exact Or.inr ⟨rfl, h⟩

/-- **Lock-step of a default combination opening**: the prover's `open_combinations` and an ACCEPTING
`check_combinations` over the same equations keep `R`, under the same per-call hypothesis as above. -/
theorem default_combinations_lockstep {F : Type} [Field F] [DecidableEq F]
    (ltP : Pt → Pt → Bool) (lblP : LP → Label) (lblC : C → Label) (evalP : LP → Pt → F)
    (openF : List ((LP × S) × C) → Pt → σp → Except Err (PF × σp))
    (checkF : List C → Pt → List F → PF → σv → Except Err (Bool × σv))
    (R : σp → σv → Prop)
    (hstep : ∀ ts cs z vs π sp sp' sv sv' b, R sp sv →
      ts.map (fun t => lblP t.1.1) = cs.map lblC →
      openF ts z sp = .ok (π, sp') → checkF cs z vs π sv = .ok (b, sv') → R sp' sv')
    (lcs : List (LC.LinComb F)) (polys : List LP) (sts : List S) (comms vcomms : List C)
    (qs : List (Query Pt)) (ee : List ((Label × Pt) × F))
    (sp : σp) (sv : σv) (πs : List PF) (evals : Option (List F)) (sp' : σp) (sv' : σv) (h0 : R sp sv)
    (ho : openCombinations ltP lblP evalP openF lcs polys sts comms qs sp = .ok ((πs, evals), sp'))
    (hc : checkCombinations ltP lblC checkF lcs vcomms qs ee πs evals sv = .ok (true, sv')) :
    R sp' sv' := by
  obtain ⟨evs, rfl, _, hb⟩ := (checkCombinations_true_iff ltP lblC checkF lcs vcomms qs ee πs evals sv sv').1 hc
  unfold openCombinations at ho
  simp only at ho
  cases hev : QS.evaluateQuerySet QS.ltLabel (QS.ltKey ltP) evalP (polys.map fun p => (lblP p, p))
      (lcToPolyQuerySet ltP lcs (querySet ltP qs)) with
  | error e => rw [hev] at ho; cases ho
  | ok evs' =>
    rw [hev] at ho
    simp only at ho
    cases hbo : batchOpenSet lblP openF polys sts comms (lcToPolyQuerySet ltP lcs (querySet ltP qs)) sp with
    | error e => rw [hbo] at ho; cases ho
    | ok r =>
      obtain ⟨πs', sp1⟩ := r
      rw [hbo] at ho
      simp only [Except.ok.injEq, Prod.mk.injEq] at ho
      obtain ⟨⟨rfl, _⟩, rfl⟩ := ho
      rw [← verifierPolyQuerySet_eq ltP lcs qs] at hbo
      unfold batchOpenSet at hbo
      unfold batchCheckSet at hb
      split at hb
      · cases hb
      · exact loops_lockstep lblP lblC openF checkF R hstep _ vcomms _ _ sp sv πs' sp1 true true sv' h0 hbo hb

/-! non-vacuity over `ZMod 101` (`PCV.TraitDefault.Toy`, state = call counter, `R` = equality): prover and
verifier both end in state 3, also when a claim is false; a wrong equation value leaves the verifier at 0 -/
example : batchOpen Toy.ltK Toy.lbl Toy.openF Toy.polys Toy.sts Toy.polys Toy.qs 0 = .ok ([0, 1, 2], 3) ∧
    batchCheck Toy.ltK Toy.lbl Toy.checkF Toy.polys Toy.qs Toy.evals [0, 1, 2] 0 = .ok (true, 3) := by decide
example : batchCheck Toy.ltK Toy.lbl Toy.checkF Toy.polys Toy.qs
    [(([97], 4), 9), (([98], 4), 12), (([99], 4), 20), (([98], 7), 21)] [0, 1, 2] 0 = .ok (false, 3) := by
  decide
example : openCombinations Toy.ltK Toy.lbl Toy.evalP Toy.openF Toy.lcs Toy.polys Toy.sts Toy.polys Toy.eqs 0
      = .ok (([0, 1], some [8, 14, 12, 21, 20]), 2) ∧
    checkCombinations Toy.ltK Toy.lbl Toy.checkF Toy.lcs Toy.polys Toy.eqs Toy.eqEvals [0, 1]
      (some [8, 14, 12, 21, 20]) 0 = .ok (true, 2) := by decide
example : checkCombinations Toy.ltK Toy.lbl Toy.checkF Toy.lcs Toy.polys Toy.eqs
    [(([101], 4), 9), (([101], 7), 13), (([102], 4), 8)] [0, 1] (some [8, 14, 12, 21, 20]) 0 = .ok (false, 0) := by
  decide
example : lcToPolyQuerySet Toy.ltK Toy.lcs (querySet Toy.ltK Toy.eqs) = verifierPolyQuerySet Toy.ltK Toy.lcs Toy.eqs := by
  decide

end PCV.C11
