/-
  Property C08 (MarlinKZG10) — plain and shifted commitments are the key-defined linear maps.
-/
import PCV.Proofs.MarlinMore
import PCV.Props.C01_Marlin
import PCV.Props.C07_Marlin
set_option linter.unusedSectionVars false

namespace PCV.C08
open PCV Marlin
variable {F : Type} [Field F] [DecidableEq F]

/-- **Marlin commitments.** With keys trimmed from trapdoor-made parameters, whatever `commit`
returns for a polynomial is `g·p(β) + γ·r(β)` and, under a degree bound `d`,
`g·β^(D−d)·p(β) + γ·r_s(β)` for the shifted part (the γ-powers are not shifted); the blinding
polynomials fit the published γ-powers. -/
theorem marlin_commit_spec {ck : CK F} {vk : VK F} {g γ β h : F} {D n m : Nat}
    (hwf : WF ck vk g γ β h D n m) (p : LPoly F) (rng : Bool) (draws : List F)
    (c : Comm F) (r : Rand F) (rest : List F)
    (hc : commitOne ck p rng draws = .ok (c, r, rest)) :
    c.comm = g * evalPoly p.poly β + γ * evalPoly r.rand β ∧
    (∀ d rs s, p.bound = some d → r.shifted = some rs → c.shifted = some s →
      s = g * fpow β (D - d) * evalPoly p.poly β + γ * evalPoly rs β) ∧
    (c.shifted.isSome = p.bound.isSome) := by
  obtain ⟨⟨_, h2, _, h4, h5⟩, _⟩ := commitOne_honest hwf p rng draws c r rest hc
  exact ⟨h2, h5, h4.symm⟩

/-- the shifted window for bound `d` is `powers.drop (D − d)` of the universal parameters:
commitments under it are `β^(D−d)` times the plain map (stated on the dot product) -/
theorem marlin_shifted_window (g β : F) (D d : Nat) (p : List F) (hd : d ≤ D)
    (hp : (pnorm p).length ≤ d + 1) :
    dot p ((powers g β (D + 1)).drop (D - d)) = g * fpow β (D - d) * evalPoly p β := by
  rw [powers_drop]
  have : D + 1 - (D - d) = d + 1 := by omega
  rw [this]
  exact dot_powers_shift p g β (D - d) (d + 1) hp

/-- **Homomorphism (non-hiding, plain and shifted parts).** For keys from `trim`: if `p`, `q` and
`a·p + b·q` are committed without hiding under the same degree bound, then
`commit(a·p + b·q) = a·commit(p) + b·commit(q)` — for the plain part and for the shifted part. -/
theorem marlin_commit_homomorphic {ck : CK F} {vk : VK F} {g γ β h : F} {D n m : Nat}
    (hwf : WF ck vk g γ β h D n m) (lp lq ll : Label) (p q : List F) (a b : F) (bound : Option Nat)
    (rng : Bool) (dr₁ dr₂ dr₃ : List F) (cp cq cl : Comm F) (rp rq rl : Rand F) (r₁ r₂ r₃ : List F)
    (hp : commitOne ck ⟨lp, p, bound, none⟩ rng dr₁ = .ok (cp, rp, r₁))
    (hq : commitOne ck ⟨lq, q, bound, none⟩ rng dr₂ = .ok (cq, rq, r₂))
    (hl : commitOne ck ⟨ll, padd (pscale a p) (pscale b q), bound, none⟩ rng dr₃ = .ok (cl, rl, r₃)) :
    cl.comm = a * cp.comm + b * cq.comm ∧
    (∀ sp sq sl, cp.shifted = some sp → cq.shifted = some sq → cl.shifted = some sl →
      sl = a * sp + b * sq) := by
  obtain ⟨⟨_, p2, p3, p4, p5⟩, _⟩ := commitOne_honest hwf _ rng dr₁ cp rp r₁ hp
  obtain ⟨⟨_, q2, q3, q4, q5⟩, _⟩ := commitOne_honest hwf _ rng dr₂ cq rq r₂ hq
  obtain ⟨⟨_, l2, l3, l4, l5⟩, _⟩ := commitOne_honest hwf _ rng dr₃ cl rl r₃ hl
  obtain ⟨np1, np2, _⟩ := C07.marlin_nonhiding_no_blinding ck _ rng dr₁ cp rp r₁ rfl hp
  obtain ⟨nq1, nq2, _⟩ := C07.marlin_nonhiding_no_blinding ck _ rng dr₂ cq rq r₂ rfl hq
  obtain ⟨nl1, nl2, _⟩ := C07.marlin_nonhiding_no_blinding ck _ rng dr₃ cl rl r₃ rfl hl
  simp only at p2 q2 l2 p3 q3 l3 p5 q5 l5
  constructor
  · rw [l2, p2, q2, np1, nq1, nl1]
    simp only [eval_padd, eval_pscale, evalPoly_nil, mul_zero, add_zero]
    ring
  · intro sp sq sl hsp hsq hsl
    cases hb : bound with
    | none =>
      rw [hb] at p4; rw [hsp] at p4; simp at p4
    | some d =>
      rw [hb] at p3 q3 l3 p5 q5 l5
      cases hrp : rp.shifted with
      | none => rw [hrp] at p3; simp at p3
      | some rsp =>
        cases hrq : rq.shifted with
        | none => rw [hrq] at q3; simp at q3
        | some rsq =>
          cases hrl : rl.shifted with
          | none => rw [hrl] at l3; simp at l3
          | some rsl =>
            rw [p5 d rsp sp rfl hrp hsp, q5 d rsq sq rfl hrq hsq, l5 d rsl sl rfl hrl hsl,
              np2 rsp hrp, nq2 rsq hrq, nl2 rsl hrl]
            simp only [eval_padd, eval_pscale, evalPoly_nil, mul_zero, add_zero]
            ring

/-- the zero polynomial commits to the identity (plain part), whatever label and bound -/
theorem marlin_commit_zero {ck : CK F} {vk : VK F} {g γ β h : F} {D n m : Nat}
    (hwf : WF ck vk g γ β h D n m) (l : Label) (bound : Option Nat) (rng : Bool) (dr : List F)
    (c : Comm F) (r : Rand F) (rest : List F)
    (hc : commitOne ck ⟨l, [], bound, none⟩ rng dr = .ok (c, r, rest)) : c.comm = 0 := by
  obtain ⟨⟨_, h2, _, _, _⟩, _⟩ := commitOne_honest hwf _ rng dr c r rest hc
  obtain ⟨n1, _, _⟩ := C07.marlin_nonhiding_no_blinding ck _ rng dr c r rest rfl hc
  simp only at h2
  rw [h2, n1]; simp

example : commitOne C01.exCK C01.exPoly true [7, 8, 9, 4, 5, 6]
    = .ok (⟨43, some 90⟩, ⟨[7, 8, 9], some [4, 5, 6]⟩, []) := by decide

/-- non-vacuity of the homomorphism: `5·(1+2X) + 7·(3+X²)` under the bound 2 on the example key:
`5·15 + 7·21 = 20`, `5·30 + 7·42 = 40` in `ZMod 101` -/
example : commitOne C01.exCK ⟨[1], [1, 2], some 2, none⟩ false [] = .ok (⟨15, some 30⟩, ⟨[], some []⟩, []) ∧
    commitOne C01.exCK ⟨[2], [3, 0, 1], some 2, none⟩ false [] = .ok (⟨21, some 42⟩, ⟨[], some []⟩, []) ∧
    commitOne C01.exCK ⟨[3], padd (pscale 5 [1, 2]) (pscale 7 [3, 0, 1]), some 2, none⟩ false []
      = .ok (⟨20, some 40⟩, ⟨[], some []⟩, []) ∧
    (5 * 15 + 7 * 21 : K) = 20 ∧ (5 * 30 + 7 * 42 : K) = 40 := by decide

end PCV.C08
