/-
  Property C08 (MarlinKZG10) — plain and shifted commitments are the key-defined linear maps.
-/
import PCV.Proofs.MarlinMore
import PCV.Props.C01_Marlin
set_option linter.unusedSectionVars false

namespace PCV.C08
open PCV Marlin
variable {F : Type} [Field F] [DecidableEq F]

/-- **Marlin commitments.** With keys trimmed from trapdoor-made parameters, whatever `commit`
returns for a polynomial is `g·p(β) + γ·r(β)` and, under a degree bound `d`,
`g·β^(D−d)·p(β) + γ·r_s(β)` for the shifted part (the γ-powers are not shifted); the blinding
polynomials fit the published γ-powers. -/
theorem marlin_commit_spec {ck : CK F} {vk : VK F} {g γ β h : F} {D n m : Nat}
    (hwf : WF ck vk g γ β h D n m) (p : LPoly F) (rng : Bool) (draws : List F)
    (c : Comm F) (r : Rand F) (rest : List F)
    (hc : commitOne ck p rng draws = .ok (c, r, rest)) :
    c.comm = g * evalPoly p.poly β + γ * evalPoly r.rand β ∧
    (∀ d rs s, p.bound = some d → r.shifted = some rs → c.shifted = some s →
      s = g * fpow β (D - d) * evalPoly p.poly β + γ * evalPoly rs β) ∧
    (c.shifted.isSome = p.bound.isSome) := by
  obtain ⟨⟨_, h2, _, h4, h5⟩, _⟩ := commitOne_honest hwf p rng draws c r rest hc
  exact ⟨h2, h5, h4.symm⟩

/-- the shifted window for bound `d` is `powers.drop (D − d)` of the universal parameters:
commitments under it are `β^(D−d)` times the plain map (stated on the dot product) -/
theorem marlin_shifted_window (g β : F) (D d : Nat) (p : List F) (hd : d ≤ D)
    (hp : (pnorm p).length ≤ d + 1) :
    dot p ((powers g β (D + 1)).drop (D - d)) = g * fpow β (D - d) * evalPoly p β := by
  rw [powers_drop]
  have : D + 1 - (D - d) = d + 1 := by omega
  rw [this]
  exact dot_powers_shift p g β (D - d) (d + 1) hp

example : commitOne C01.exCK C01.exPoly true [7, 8, 9, 4, 5, 6]
    = .ok (⟨43, some 90⟩, ⟨[7, 8, 9], some [4, 5, 6]⟩, []) := by decide

end PCV.C08
