/-
  Property C05 (MarlinKZG10) — `batch_check` combines each point label's claims with the sponge
  challenges and hands the per-label triples to `KZG10::batch_check`.
-/
import PCV.Proofs.MarlinMore
import PCV.Proofs.KZG10Batch
import PCV.Props.Examples
import PCV.Props.C01_MarlinBatch
set_option linter.unusedSectionVars false

namespace PCV.C05
open PCV Marlin
variable {F : Type} [Field F] [DecidableEq F]

/-- **Marlin batch defect.** When the per-label accumulation succeeds and there is one proof per
point label, the batch decision is `Σ ρₖ·Δₖ = 0`, where `Δₖ` is the KZG defect of label `k`'s
combined commitment/value — i.e. exactly the defect of the individual `check` of that label. -/
theorem marlin_batch_defect (vk : VK F) (comms : List (LComm F)) (qs : List (Query F))
    (evals : List ((Label × F) × F)) (πs : List (KZG.Proof F)) (ξs rs : List F)
    (trip : List (F × F × F)) (rest : List F)
    (hc : combineGroups vk comms evals (groupQueries qs) ξs = .ok (trip, rest))
    (hlen : πs.length = trip.length) :
    batchCheck vk comms qs evals πs ξs rs
      = .ok (decide (KZG.wsum 1 rs (KZG.defects vk.vk (trip.map (·.1)) (trip.map (·.2.1))
          (trip.map (·.2.2)) πs) = 0)) := by
  unfold batchCheck
  rw [hc]
  simp only
  rw [if_neg (by simpa using hlen)]
  rw [KZG.batchCheck_ok _ _ _ _ _ _ (by simp [hlen]), KZG.batchDefect_eq]

/-- **Proof-count mismatch** (missing, surplus, empty proof lists) aborts. -/
theorem marlin_batch_count_mismatch (vk : VK F) (comms : List (LComm F)) (qs : List (Query F))
    (evals : List ((Label × F) × F)) (πs : List (KZG.Proof F)) (ξs rs : List F)
    (trip : List (F × F × F)) (rest : List F)
    (hc : combineGroups vk comms evals (groupQueries qs) ξs = .ok (trip, rest))
    (hlen : πs.length ≠ trip.length) :
    batchCheck vk comms qs evals πs ξs rs = .error .abort := by
  unfold batchCheck
  rw [hc]
  simp only
  rw [if_pos hlen]

/-- all labels verify individually ⇒ the batch accepts for every randomizer list -/
theorem marlin_batch_all_true (vk : VK F) (comms : List (LComm F)) (qs : List (Query F))
    (evals : List ((Label × F) × F)) (πs : List (KZG.Proof F)) (ξs rs : List F)
    (trip : List (F × F × F)) (rest : List F)
    (hc : combineGroups vk comms evals (groupQueries qs) ξs = .ok (trip, rest))
    (hlen : πs.length = trip.length)
    (hall : ∀ d ∈ KZG.defects vk.vk (trip.map (·.1)) (trip.map (·.2.1)) (trip.map (·.2.2)) πs, d = 0) :
    batchCheck vk comms qs evals πs ξs rs = .ok true := by
  rw [marlin_batch_defect vk comms qs evals πs ξs rs trip rest hc hlen, KZG.wsum_zero _ _ _ hall]
  simp

/-- exactly one failing label with a non-zero randomizer ⇒ the batch rejects -/
theorem marlin_batch_single_false (vk : VK F) (comms : List (LComm F)) (qs : List (Query F))
    (evals : List ((Label × F) × F)) (πs : List (KZG.Proof F)) (ξs rs : List F)
    (trip : List (F × F × F)) (rest : List F)
    (hc : combineGroups vk comms evals (groupQueries qs) ξs = .ok (trip, rest))
    (hlen : πs.length = trip.length) (j : Nat)
    (hj : j < (KZG.defects vk.vk (trip.map (·.1)) (trip.map (·.2.1)) (trip.map (·.2.2)) πs).length)
    (hz : ∀ i (hi : i < (KZG.defects vk.vk (trip.map (·.1)) (trip.map (·.2.1)) (trip.map (·.2.2)) πs).length),
      i ≠ j → (KZG.defects vk.vk (trip.map (·.1)) (trip.map (·.2.1)) (trip.map (·.2.2)) πs)[i] = 0)
    (hne : (KZG.defects vk.vk (trip.map (·.1)) (trip.map (·.2.1)) (trip.map (·.2.2)) πs)[j] ≠ 0)
    (hr : ((1 : F) :: rs).getD j 0 ≠ 0) :
    batchCheck vk comms qs evals πs ξs rs = .ok false := by
  rw [marlin_batch_defect vk comms qs evals πs ξs rs trip rest hc hlen]
  congr 1
  rw [decide_eq_false_iff_not]
  exact KZG.wsum_single 1 rs _ j hj hz hne hr

/-- **Planted cancellations need the verifier's cooperation (Marlin).** If the combined claim of point
label `j+1` is false then, whatever the other randomizers are, at most one value of the randomizer
`ρ_{j+1}` makes `batch_check` accept — however the errors were distributed over polynomials and
points. -/
theorem marlin_batch_exceptional_randomizer (vk : VK F) (comms : List (LComm F)) (qs : List (Query F))
    (evals : List ((Label × F) × F)) (πs : List (KZG.Proof F)) (ξs rs : List F)
    (trip : List (F × F × F)) (rest : List F)
    (hc : combineGroups vk comms evals (groupQueries qs) ξs = .ok (trip, rest))
    (hlen : πs.length = trip.length) (j : Nat) (hj : j < rs.length)
    (hd : (KZG.defects vk.vk (trip.map (·.1)) (trip.map (·.2.1)) (trip.map (·.2.2)) πs).getD (j + 1) 0 ≠ 0)
    (x y : F)
    (hx : batchCheck vk comms qs evals πs ξs (rs.set j x) = .ok true)
    (hy : batchCheck vk comms qs evals πs ξs (rs.set j y) = .ok true) : x = y := by
  rw [marlin_batch_defect vk comms qs evals πs ξs _ trip rest hc hlen] at hx hy
  injection hx with hx; injection hy with hy
  rw [decide_eq_true_iff] at hx hy
  exact KZG.wsum_zero_unique 1 rs _ j hj hd x y hx hy

/-! non-vacuity on the batch of `C01.exBatch` (two point labels): the honest batch is accepted for
every randomizer, a false claim at the second point label is rejected for every non-zero randomizer,
and `combineGroups` succeeds with one triple per point label -/
example : ∀ ρ : K, batchCheck C01.exVK (C01.exBatch.map (·.2.2)) C01.exQueries
    [(([97], 5), evalPoly [1, 2, 3] 5), (([98], 5), evalPoly [4, 0, 1] 5), (([98], 9), evalPoly [4, 0, 1] 9)]
    [⟨22, none⟩, ⟨56, none⟩] [11, 13, 17, 19] [ρ] = .ok true := by decide
example : ∀ ρ : K, ρ ≠ 0 → batchCheck C01.exVK (C01.exBatch.map (·.2.2)) C01.exQueries
    [(([97], 5), evalPoly [1, 2, 3] 5), (([98], 5), evalPoly [4, 0, 1] 5), (([98], 9), evalPoly [4, 0, 1] 9 + 1)]
    [⟨22, none⟩, ⟨56, none⟩] [11, 13, 17, 19] [ρ] = .ok false := by decide
example : (combineGroups C01.exVK (C01.exBatch.map (·.2.2))
    [(([97], 5), evalPoly [1, 2, 3] 5), (([98], 5), evalPoly [4, 0, 1] 5), (([98], 9), evalPoly [4, 0, 1] 9)]
    (groupQueries C01.exQueries) [11, 13, 17, 19]).map (fun x => (x.1.length, x.2)) = .ok (2, [19]) := by decide
example : batchCheck C01.exVK (C01.exBatch.map (·.2.2)) C01.exQueries
    [(([97], 5), evalPoly [1, 2, 3] 5), (([98], 5), evalPoly [4, 0, 1] 5), (([98], 9), evalPoly [4, 0, 1] 9)]
    [⟨22, none⟩] [11, 13, 17, 19] [7] = .error .abort := by decide

end PCV.C05
