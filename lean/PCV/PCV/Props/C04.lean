/-
  Property C04 — degree bounds are enforced by committer and verifier (MarlinKZG10 part; Sonic and
  IPA have their own files).
-/
import PCV.Proofs.MarlinMore
import PCV.Props.C01_Marlin

set_option linter.unusedSectionVars false

namespace PCV.C04
open PCV Marlin
variable {F : Type} [Field F] [DecidableEq F]

/-- **(a) admission, committer.** A polynomial whose declared bound the key does not enforce, which
is below the polynomial's degree or above the maximum degree, is refused. -/
theorem marlin_commit_refuses_bound (ck : CK F) (p : LPoly F) (rng : Bool) (draws : List F) (b : Nat)
    (hb : p.bound = some b)
    (hbad : ck.bounds = none ∨ (∃ bs, ck.bounds = some bs ∧ b ∉ bs) ∨ b < pdeg p.poly ∨
      b > ck.maxDegree) :
    ∃ e, commitOne ck p rng draws = .error e :=
  commitOne_refuses_bound ck p rng draws b hb hbad

/-- **(a) admission, prover.** -/
theorem marlin_open_refuses_bound (ck : CK F) (z : F) (p : LPoly F) (ps : List (LPoly F))
    (st : Rand F) (sts : List (Rand F)) (ξs : List F) (acc : OpenAcc F) (b : Nat)
    (hb : p.bound = some b)
    (hbad : ck.bounds = none ∨ (∃ bs, ck.bounds = some bs ∧ b ∉ bs) ∨ b < pdeg p.poly ∨
      b > ck.maxDegree) :
    ∃ e, openLoop ck z (p :: ps) (st :: sts) ξs acc = .error e :=
  openLoop_refuses_bound ck z p ps st sts ξs acc b hb hbad

/-- **(a) admission, degree.** A polynomial larger than the supported degree is refused. -/
theorem marlin_commit_refuses_degree (ck : CK F) (p : LPoly F) (rng : Bool) (draws : List F)
    (h : pdeg p.poly + 1 > ck.powers.length) : ∃ e, commitOne ck p rng draws = .error e :=
  commitOne_refuses_degree ck p rng draws h

/-- **(b) honest use** with any admissible bound is accepted: see `C01.marlin_complete`. -/
theorem marlin_bounded_complete {ck : CK F} {vk : VK F} {g γ β h : F} {D n m : Nat}
    (hwf : WF ck vk g γ β h D n m) (z : F) (l : List (Trip F))
    (hh : ∀ t ∈ l, Honest g γ β D t) (hl : ∀ t ∈ l, RandLen m t) (ξs : List F)
    (π : KZG.Proof F) (rest : List F)
    (ho : Marlin.open ck (l.map (·.1)) z (l.map (·.2.1)) ξs = .ok (π, rest))
    (hnd : ∀ acc r, openLoop ck z (l.map (·.1)) (l.map (·.2.1)) ξs ⟨[], [], [], [], [], false⟩
        = .ok (acc, r) → isZeroPoly acc.r = true → evalPoly acc.sr z = 0) :
    check vk (l.map (·.2.2)) z (l.map fun t => evalPoly t.1.poly z) π ξs = .ok (true, rest) :=
  open_check_complete hwf z l hh hl ξs π rest ho hnd

/-- **(c) mislabelling.** A commitment accepted under the bound `d′` it was made for is accepted
under another enforced bound `d` iff `h·ξ′·v·(shift(d′) − shift(d)) = 0`. -/
theorem marlin_mislabel_iff (vk : VK F) (l : Label) (c s z v ξ ξ' : F) (ξs : List F)
    (π : KZG.Proof F) (d d' : Nat) (sp sp' : F)
    (hsp : vk.shiftPower d = some sp) (hsp' : vk.shiftPower d' = some sp')
    (hacc : check vk [⟨l, ⟨c, some s⟩, some d'⟩] z [v] π (ξ :: ξ' :: ξs) = .ok (true, ξs)) :
    check vk [⟨l, ⟨c, some s⟩, some d⟩] z [v] π (ξ :: ξ' :: ξs) = .ok (true, ξs)
      ↔ vk.vk.h * (ξ' * v * (sp' - sp)) = 0 :=
  mislabel_iff vk l c s z v ξ ξ' ξs π d d' sp sp' hsp hsp' hacc

/-- with well-formed keys the two shift elements are `g·β^(D−d′)` and `g·β^(D−d)`: the
mislabelled commitment is rejected whenever `v ≠ 0`, `ξ′ ≠ 0` and the two powers differ -/
theorem marlin_mislabel_rejected {ck : CK F} {vk : VK F} {g γ β h : F} {D n m : Nat}
    (hwf : WF ck vk g γ β h D n m) (bs : List Nat) (hbs : ck.bounds = some bs)
    (l : Label) (c s z v ξ ξ' : F) (ξs : List F) (π : KZG.Proof F) (d d' : Nat)
    (hd : d ∈ bs) (hd' : d' ∈ bs)
    (hne : h * (ξ' * v * (g * fpow β (D - d') - g * fpow β (D - d))) ≠ 0)
    (hacc : check vk [⟨l, ⟨c, some s⟩, some d'⟩] z [v] π (ξ :: ξ' :: ξs) = .ok (true, ξs)) :
    check vk [⟨l, ⟨c, some s⟩, some d⟩] z [v] π (ξ :: ξ' :: ξs) ≠ .ok (true, ξs) := by
  intro hx
  have h1 := (mislabel_iff vk l c s z v ξ ξ' ξs π d d' _ _ (hwf.shifts bs hbs d hd)
    (hwf.shifts bs hbs d' hd') hacc).1 hx
  rw [hwf.vkeq] at h1
  exact hne h1

/-- **(c) dropped / added shifted part.** A degree-bound label without a shifted commitment, or a
shifted commitment without a label, aborts the verifier (`assert_eq!`). -/
theorem marlin_shifted_mismatch_aborts (vk : VK F) (c : LComm F) (cs : List (LComm F)) (v : F)
    (vs ξs : List F) (h : c.bound.isSome ≠ c.comm.shifted.isSome) :
    accumulate vk (c :: cs) (v :: vs) ξs = .error .abort := by
  simp only [accumulate, h, ne_eq, not_false_eq_true, if_true]

/-- **(d) algebraic core of bound soundness**: a shifted polynomial `X^k·p` of length ≤ `D+1`
forces `p` to have length ≤ `D+1−k`. -/
theorem shift_degree_core (k D : Nat) (p : List F) (h : (pshift k p).length ≤ D + 1) :
    p.length ≤ D + 1 - k := by
  unfold pshift at h; simp at h; omega

/-- non-vacuity for (a) and (c) on the example key of C01 (enforced bounds `[2]`) -/
example : commitOne C01.exCK ⟨[112], [1, 2, 3], some 1, none⟩ false [] = .error .unsupportedBound := by
  decide
example : accumulate C01.exVK [⟨[112], ⟨43, none⟩, some 2⟩] [(1 : K)] [11, 13] = .error .abort := by
  decide

end PCV.C04
