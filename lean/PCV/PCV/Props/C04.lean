/-
  Property C04 — degree bounds are enforced by committer and verifier (MarlinKZG10 part; Sonic and
  IPA have their own files).
-/
import PCV.Proofs.MarlinMore
import PCV.Proofs.MarlinBound
import PCV.Props.C01_Marlin

set_option linter.unusedSectionVars false

namespace PCV.C04
open PCV Marlin
variable {F : Type} [Field F] [DecidableEq F]

/-- **(a) admission, committer.** A polynomial whose declared bound the key does not enforce, which
is below the polynomial's degree or above the maximum degree, is refused. -/
theorem marlin_commit_refuses_bound (ck : CK F) (p : LPoly F) (rng : Bool) (draws : List F) (b : Nat)
    (hb : p.bound = some b)
    (hbad : ck.bounds = none ∨ (∃ bs, ck.bounds = some bs ∧ b ∉ bs) ∨ b < pdeg p.poly ∨
      b > ck.maxDegree) :
    ∃ e, commitOne ck p rng draws = .error e :=
  commitOne_refuses_bound ck p rng draws b hb hbad

/-- **(a) admission, prover.** -/
theorem marlin_open_refuses_bound (ck : CK F) (z : F) (p : LPoly F) (ps : List (LPoly F))
    (st : Rand F) (sts : List (Rand F)) (ξs : List F) (acc : OpenAcc F) (b : Nat)
    (hb : p.bound = some b)
    (hbad : ck.bounds = none ∨ (∃ bs, ck.bounds = some bs ∧ b ∉ bs) ∨ b < pdeg p.poly ∨
      b > ck.maxDegree) :
    ∃ e, openLoop ck z (p :: ps) (st :: sts) ξs acc = .error e :=
  openLoop_refuses_bound ck z p ps st sts ξs acc b hb hbad

/-- **(a) admission, degree.** A polynomial larger than the supported degree is refused. -/
theorem marlin_commit_refuses_degree (ck : CK F) (p : LPoly F) (rng : Bool) (draws : List F)
    (h : pdeg p.poly + 1 > ck.powers.length) : ∃ e, commitOne ck p rng draws = .error e :=
  commitOne_refuses_degree ck p rng draws h

/-- **(b) honest use** with any admissible bound is accepted: see `C01.marlin_complete`. -/
theorem marlin_bounded_complete {ck : CK F} {vk : VK F} {g γ β h : F} {D n m : Nat}
    (hwf : WF ck vk g γ β h D n m) (z : F) (l : List (Trip F))
    (hh : ∀ t ∈ l, Honest g γ β D t) (hl : ∀ t ∈ l, RandLen m t) (ξs : List F)
    (π : KZG.Proof F) (rest : List F)
    (ho : Marlin.open ck (l.map (·.1)) z (l.map (·.2.1)) ξs = .ok (π, rest))
    (hnd : ∀ acc r, openLoop ck z (l.map (·.1)) (l.map (·.2.1)) ξs ⟨[], [], [], [], [], false⟩
        = .ok (acc, r) → isZeroPoly acc.r = true → evalPoly acc.sr z = 0) :
    check vk (l.map (·.2.2)) z (l.map fun t => evalPoly t.1.poly z) π ξs = .ok (true, rest) :=
  open_check_complete hwf z l hh hl ξs π rest ho hnd

/-- **(c) mislabelling.** A commitment accepted under the bound `d′` it was made for is accepted
under another enforced bound `d` iff `h·ξ′·v·(shift(d′) − shift(d)) = 0`. -/
theorem marlin_mislabel_iff (vk : VK F) (l : Label) (c s z v ξ ξ' : F) (ξs : List F)
    (π : KZG.Proof F) (d d' : Nat) (sp sp' : F)
    (hsp : vk.shiftPower d = some sp) (hsp' : vk.shiftPower d' = some sp')
    (hacc : check vk [⟨l, ⟨c, some s⟩, some d'⟩] z [v] π (ξ :: ξ' :: ξs) = .ok (true, ξs)) :
    check vk [⟨l, ⟨c, some s⟩, some d⟩] z [v] π (ξ :: ξ' :: ξs) = .ok (true, ξs)
      ↔ vk.vk.h * (ξ' * v * (sp' - sp)) = 0 :=
  mislabel_iff vk l c s z v ξ ξ' ξs π d d' sp sp' hsp hsp' hacc

/-- with well-formed keys the two shift elements are `g·β^(D−d′)` and `g·β^(D−d)`: the
mislabelled commitment is rejected whenever `v ≠ 0`, `ξ′ ≠ 0` and the two powers differ -/
theorem marlin_mislabel_rejected {ck : CK F} {vk : VK F} {g γ β h : F} {D n m : Nat}
    (hwf : WF ck vk g γ β h D n m) (bs : List Nat) (hbs : ck.bounds = some bs)
    (l : Label) (c s z v ξ ξ' : F) (ξs : List F) (π : KZG.Proof F) (d d' : Nat)
    (hd : d ∈ bs) (hd' : d' ∈ bs)
    (hne : h * (ξ' * v * (g * fpow β (D - d') - g * fpow β (D - d))) ≠ 0)
    (hacc : check vk [⟨l, ⟨c, some s⟩, some d'⟩] z [v] π (ξ :: ξ' :: ξs) = .ok (true, ξs)) :
    check vk [⟨l, ⟨c, some s⟩, some d⟩] z [v] π (ξ :: ξ' :: ξs) ≠ .ok (true, ξs) := by
  intro hx
  have h1 := (mislabel_iff vk l c s z v ξ ξ' ξs π d d' _ _ (hwf.shifts bs hbs d hd)
    (hwf.shifts bs hbs d' hd') hacc).1 hx
  rw [hwf.vkeq] at h1
  exact hne h1

/-- **(c) dropped / added shifted part.** A degree-bound label without a shifted commitment, or a
shifted commitment without a label, aborts the verifier (`assert_eq!`). -/
theorem marlin_shifted_mismatch_aborts (vk : VK F) (c : LComm F) (cs : List (LComm F)) (v : F)
    (vs ξs : List F) (h : c.bound.isSome ≠ c.comm.shifted.isSome) :
    accumulate vk (c :: cs) (v :: vs) ξs = .error .abort := by
  simp only [accumulate, h, ne_eq, not_false_eq_true, if_true]

/-- **(d) algebraic core of bound soundness**: a shifted polynomial `X^k·p` of length ≤ `D+1`
forces `p` to have length ≤ `D+1−k`. -/
theorem shift_degree_core (k D : Nat) (p : List F) (h : (pshift k p).length ≤ D + 1) :
    p.length ≤ D + 1 - k := by
  unfold pshift at h; simp at h; omega

/-- non-vacuity for (a) and (c) on the example key of C01 (enforced bounds `[2]`) -/
example : commitOne C01.exCK ⟨[112], [1, 2, 3], some 1, none⟩ false [] = .error .unsupportedBound := by
  decide
example : accumulate C01.exVK [⟨[112], ⟨43, none⟩, some 2⟩] [(1 : K)] [11, 13] = .error .abort := by
  decide

/-- **"Accepted only if produced for a polynomial of degree ≤ d" — the reduction, step 1.**
An algebraic committer/prover (commitment `g·p(β)`, shifted part `g·q(β)`, witness `g·a(β)`, all
built from the published powers) whose degree-bounded commitment is accepted under the bound `d`
has made the trapdoor a root of the explicit polynomial
`ξ·(p − v) + ξ′·(q − v·X^(D−d)) − a·(X − z)`. -/
theorem marlin_bound_forgery_root {ck : CK F} {vk : VK F} {g γ β h : F} {D n m : Nat}
    (hwf : WF ck vk g γ β h D n m) (bs : List Nat) (hbs : ck.bounds = some bs) (d : Nat) (hd : d ∈ bs)
    (hg : g ≠ 0) (hh : h ≠ 0) (l : Label) (p q a : List F) (z v ξ ξ' : F) (ξs : List F)
    (hacc : check vk [⟨l, ⟨g * evalPoly p β, some (g * evalPoly q β)⟩, some d⟩] z [v]
      ⟨g * evalPoly a β, none⟩ (ξ :: ξ' :: ξs) = .ok (true, ξs)) :
    evalPoly (boundExtract p q a z v ξ ξ' (D - d)) β = 0 :=
  bounded_check_root vk g γ β h D d hwf.vkeq (hwf.shifts bs hbs d hd) hg hh l p q a z v ξ ξ' ξs hacc

/-- **Step 2: that polynomial is not zero.**  If `p` really exceeds the bound (a non-zero
coefficient above `d`) then — whatever `q` with at most `D+1` coefficients the committer chose
beforehand — for all but at most `max(|q|, D−d+|p|) − 1` challenge points `z`, and for every claimed
value `v`, the value of the extraction polynomial at `z` is `ξ·A + ξ′·B` with `(A, B) ≠ (0, 0)`: it
vanishes for at most one ratio of the two later challenges, otherwise the forger holds a non-zero
polynomial with the trapdoor as a root (the scheme's hardness problem).  Hence a commitment accepted
under the bound `d` was produced for a polynomial of degree at most `d`. -/
theorem marlin_degree_bound_sound (p q : List F) (D d : Nat) (hd : d ≤ D) (hq : q.length ≤ D + 1)
    (hp : ∃ i, d < i ∧ coeff p i ≠ 0) :
    ∃ S : Finset F, S.card ≤ max q.length (D - d + p.length) - 1 ∧
      ∀ z, z ∉ S → ∀ (v ξ ξ' : F) (a : List F),
        evalPoly (boundExtract p q a z v ξ ξ' (D - d)) z
          = ξ * (evalPoly p z - v) + ξ' * (evalPoly q z - v * fpow z (D - d)) ∧
        ¬ (evalPoly p z - v = 0 ∧ evalPoly q z - v * fpow z (D - d) = 0) := by
  obtain ⟨S, hcard, hS⟩ := DegreeBound.bound_violation_few_points q p D d hd hq hp
  refine ⟨S, hcard, ?_⟩
  intro z hz v ξ ξ' a
  refine ⟨by rw [eval_boundExtract]; ring, ?_⟩
  rintro ⟨h1, h2⟩
  apply hS z hz
  have hv : v = evalPoly p z := (sub_eq_zero.1 h1).symm
  rw [hv] at h2
  linear_combination h2

/-- non-vacuity: `p = 1 + 2X + 3X²` presented under the bound 1 with `D = 3` (`k = 2`): whatever
`q` of four coefficients is used, e.g. `q = X²·(1 + 2X)`, the relation `q(z) = z²·p(z)` fails at `z = 5` -/
example : evalPoly ([0, 0, 1, 2] : List K) 5 ≠ fpow 5 2 * evalPoly [1, 2, 3] 5 ∧
    coeff ([1, 2, 3] : List K) 2 ≠ 0 := by decide

end PCV.C04
