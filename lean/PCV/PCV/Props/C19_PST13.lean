/-
  Property C19 — succinctness: MarlinPST13.  A commitment is one group element (whatever the number
  of monomials); an evaluation proof is exactly `num_vars` group elements plus an optional field
  element (present iff the opening is hiding), whatever the degree, the number of polynomials opened
  together, or the point; a batch proof is one such proof per point label of the query set.
  Serialized: commitment `48 + 1` bytes (compressed G1 + the `None` flag of the shifted part), proof
  `8 + 48·num_vars + 1 (+ 32)` bytes — the harness compares these laws with the library's
  `compressed_size()`.
-/
import PCV.Proofs.PST13More
import PCV.Proofs.Combinations
import PCV.Props.Examples

set_option synthInstance.maxSize 512
set_option linter.unusedSectionVars false
set_option linter.unusedVariables false

namespace PCV.C19
open PCV PCV.MV PCV.C15Spec
variable {F : Type} [Field F] [DecidableEq F]

/-- the byte size of a serialized PST13 proof: length prefix, compressed G1 elements, option flag,
optional scalar -/
def pst13ProofBytes (π : PST.Proof F) : Nat :=
  8 + 48 * π.w.length + 1 + (if π.rv.isSome then 32 else 0)

/-- **One group element per commitment, one commitment and one state per polynomial.**  `commit`
returns, for each polynomial of the list, a single group element (the model's scalar) — never a
vector that grows with the polynomial. -/
theorem pst13_one_commitment_each (ck : PST.CK F) (phs : List (MVPoly F × Option Nat)) (rng : Bool)
    (draws : List F) (cs : List F) (rs : List (MVPoly F)) (rest : List F)
    (h : PST.commitList ck phs rng draws = .ok (cs, rs, rest)) :
    cs.length = phs.length ∧ rs.length = phs.length :=
  PST.commitList_lengths ck phs rng draws cs rs rest h

/-- **A proof is exactly `num_vars` witness elements plus an optional field element.**  Arbitrary
key, any number of polynomials of any degree opened together, any point: whenever `open` answers,
`w` has one element per key variable, and `random_v` is present exactly when the combined blinding
polynomial is non-zero. -/
theorem pst13_proof_shape (ck : PST.CK F) (nvp nvr : Nat) (p r : MVPoly F) (z : List F)
    (π : PST.Proof F) (h : PST.openCombined ck nvp nvr p r z = .ok π) :
    π.w.length = ck.numVars ∧ (π.rv.isSome = !isZeroMV r) :=
  PST.openCombined_shape ck nvp nvr p r z π h

theorem pst13_open_proof_length (ck : PST.CK F) (nvp nvr : Nat) (ps : List (MVPoly F)) (z : List F)
    (rs : List (MVPoly F)) (ξs : List F) (π : PST.Proof F)
    (h : PST.open ck nvp nvr ps z rs ξs = .ok π) : π.w.length = ck.numVars :=
  PST.open_shape ck nvp nvr ps z rs ξs π h

/-- **The proof size depends on the number of variables only**: `8 + 48·num_vars + 1` bytes,
plus `32` when hiding — not on the degree, the number of monomials or of polynomials. -/
theorem pst13_proof_bytes (ck : PST.CK F) (nvp nvr : Nat) (p r : MVPoly F) (z : List F)
    (π : PST.Proof F) (h : PST.openCombined ck nvp nvr p r z = .ok π) :
    pst13ProofBytes π = 8 + 48 * ck.numVars + 1 + (if isZeroMV r then 0 else 32) := by
  obtain ⟨h1, h2⟩ := PST.openCombined_shape ck nvp nvr p r z π h
  unfold pst13ProofBytes
  rw [h1, h2]
  cases isZeroMV r <;> simp

/-- **A batch proof is one proof per point label**: `batch_open` returns as many proofs as the
query set has distinct point labels — the groups are pairwise distinct and are exactly the point
labels that occur — each with `num_vars` witnesses, however many polynomials are queried under a
label. -/
theorem pst13_batch_one_proof_per_point_label (ck : PST.CK F) (trips : List (PST.Trip F))
    (qs : List (PST.Query F)) (ξs : List F) (πs : List (PST.Proof F)) (rest : List F)
    (h : PST.batchOpen ck trips qs ξs = .ok (πs, rest)) :
    πs.length = (PST.groupQueries qs).length
      ∧ ((PST.groupQueries qs).map (·.1)).Nodup
      ∧ (∀ pl, pl ∈ (PST.groupQueries qs).map (·.1) ↔ ∃ q ∈ qs, q.2.1 = pl)
      ∧ ∀ π ∈ πs, π.w.length = ck.numVars := by
  unfold PST.batchOpen at h
  obtain ⟨h1, h2⟩ := PST.batchOpenGroups_shape ck trips _ ξs πs rest h
  obtain ⟨_, g2, g3⟩ := PST.groupQueries_labels qs
  exact ⟨h1, g2, g3, h2⟩

/-- **The verifiers accept only proofs of that size** (C03): an answer of `check` implies
`num_vars` witnesses. -/
theorem pst13_checked_proof_length (vk : PST.VK F) (cs z vs : List F) (π : PST.Proof F)
    (ξs : List F) (b : Bool) (h : PST.check vk cs z vs π ξs = .ok b) : π.w.length = vk.numVars :=
  PST.check_ok_length vk cs z vs π ξs b h

/-! ### non-vacuity over `ZMod 101` -/

def exCK : PST.CK K := PST.wfCK (3 : K) 5 [2, 7] (specTerms 2 2) 2 2 2 3

/-- a degree-2 polynomial with four monomials and a constant: both proofs have two witnesses -/
example : PST.open exCK 2 0 [[(4, []), (6, [(1, 1)]), (9, [(0, 1), (1, 1)]), (2, [(0, 2)])]] [10, 20]
    [[]] [13] = .ok ⟨[60, 7], none⟩ := by decide
example : PST.open exCK 0 0 [[(4, [])]] [10, 20] [[]] [13] = .ok ⟨[0, 0], none⟩ := by decide
example : pst13ProofBytes (⟨[60, 7], none⟩ : PST.Proof K) = 8 + 48 * 2 + 1 := by decide
example : pst13ProofBytes (⟨[10, 66], some 93⟩ : PST.Proof K) = 8 + 48 * 2 + 1 + 32 := by decide
/-- three queries under two point labels: two groups -/
example : (PST.groupQueries ([([108], ([122], [10, 20])), ([109], ([122], [10, 20])),
      ([109], ([123], [10, 20]))] : List (PST.Query K))).map (·.1) = [[122], [123]] := by decide

/-- … and `batch_open` returns two proofs of two witnesses each for them -/
example : PST.batchOpen exCK
    [((⟨[108], [(4, []), (6, [(0, 1)])], 2, none, none⟩ : PST.LPoly K), ⟨[], 0⟩, ⟨[108], ⟨48, none⟩, none⟩),
     (⟨[109], [(4, []), (6, [(1, 1)]), (2, [(0, 2)])], 2, none, none⟩, ⟨[], 0⟩, ⟨[109], ⟨61, none⟩, none⟩)]
    [([108], ([122], [10, 20])), ([109], ([122], [10, 20])), ([109], ([123], [10, 20]))] [13, 17, 19]
    = .ok ([⟨[44, 3], none⟩, ⟨[55, 39], none⟩], []) := by decide

end PCV.C19
