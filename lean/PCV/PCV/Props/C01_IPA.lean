/-
  Property C01 — completeness, inner-product-argument scheme (`ipa_pc`).
  Model: PCV/Model/IPA.lean; lemmas: PCV/Proofs/IPA.lean.
-/
import PCV.Proofs.IPA
import PCV.Proofs.IPABatch
import PCV.Props.Examples

set_option linter.unusedSectionVars false

namespace PCV.C01
open PCV
variable {F : Type} [Field F] [DecidableEq F]

/-- **IPA.** For universal parameters made of arbitrary scalars (`comm_key`, `h`, `s`), any
requested degree (`trim` rounds it up to `2^k − 1`), any list of polynomials in `ark-poly`'s
normal form (no trailing zero coefficient) with any degree bounds and hiding bounds, any RNG
draws, any point, any sponge challenges `ξs` and any random-oracle outputs `ros`: if the
committer returns `(comms, sts)` and the prover returns `π`, then `check` accepts the true values.
Covers several polynomials per point, degree bounds (shifted commitments), hiding, the zero
polynomial and every power-of-two key size. -/
theorem ipa_complete (pp : IPA.UParams F) (supported : Nat) (ck vk : IPA.CK F)
    (ht : IPA.trim pp supported = .ok (ck, vk))
    (polys : List (IPA.LPoly F)) (hnf : ∀ p ∈ polys, pnorm p.poly = p.poly)
    (rng : Bool) (draws : List F) (comms : List (IPA.LComm F)) (sts : List (IPA.Rand F))
    (rest : List F) (hc : IPA.commit ck polys rng draws = .ok (comms, sts, rest))
    (z : F) (ξs ros : List F) (rng' : Bool) (draws' : List F) (π : IPA.Proof F)
    (ξr ror dr : List F)
    (ho : IPA.open ck polys comms z sts ξs ros rng' draws' = .ok (π, ξr, ror, dr)) :
    IPA.check vk comms z (polys.map fun p => evalPoly p.poly z) π ξs ros = .ok true := by
  obtain ⟨hvk, ⟨k, hk⟩, _⟩ := IPA.trim_spec pp supported ck vk ht
  subst hvk
  exact (IPA.open_check_complete vk k hk polys comms sts
    (IPA.commit_spec vk rng polys draws comms sts rest hc) hnf z ξs ros rng' draws' π ξr ror dr ho).1

/-- **IPA**, the same for a hand-made key of any power-of-two length. -/
theorem ipa_complete_key (ck : IPA.CK F) (k : Nat) (hk : ck.commKey.length = 2 ^ k)
    (polys : List (IPA.LPoly F)) (hnf : ∀ p ∈ polys, pnorm p.poly = p.poly)
    (rng : Bool) (draws : List F) (comms : List (IPA.LComm F)) (sts : List (IPA.Rand F))
    (rest : List F) (hc : IPA.commit ck polys rng draws = .ok (comms, sts, rest))
    (z : F) (ξs ros : List F) (rng' : Bool) (draws' : List F) (π : IPA.Proof F)
    (ξr ror dr : List F)
    (ho : IPA.open ck polys comms z sts ξs ros rng' draws' = .ok (π, ξr, ror, dr)) :
    IPA.check ck comms z (polys.map fun p => evalPoly p.poly z) π ξs ros = .ok true :=
  (IPA.open_check_complete ck k hk polys comms sts
    (IPA.commit_spec ck rng polys draws comms sts rest hc) hnf z ξs ros rng' draws' π ξr ror dr ho).1

/-- **IPA batch.** `batch_check` accepts the proofs of `batch_open` (the trait default: one `open`
per point label in sorted order on one sponge) for every query set — several polynomials per
point label, several labels sharing a point value, one polynomial at many points —, every list of
verifier randomizers and all oracle outputs, given the true evaluation of every queried
(polynomial, point).  Labels need not be distinct: prover and verifier both resolve a label to its
last occurrence. -/
theorem ipa_batch_complete (ck : IPA.CK F) (k : Nat) (hk : ck.commKey.length = 2 ^ k)
    (polys : List (IPA.LPoly F)) (hnf : ∀ p ∈ polys, pnorm p.poly = p.poly)
    (rng : Bool) (draws : List F) (comms : List (IPA.LComm F)) (sts : List (IPA.Rand F))
    (rest : List F) (hc : IPA.commit ck polys rng draws = .ok (comms, sts, rest))
    (qs : List (IPA.Query F)) (evals : List ((IPA.Label × F) × F))
    (hev : IPA.TrueEvals polys comms sts evals (Marlin.groupQueries qs))
    (ξs ros rs : List F) (rng' : Bool) (draws' : List F) (πs : List (IPA.Proof F))
    (ξr ror dr : List F)
    (ho : IPA.batchOpen ck polys comms sts qs ξs ros rng' draws' = .ok (πs, ξr, ror, dr)) :
    IPA.batchCheck ck comms qs evals πs ξs ros rs = .ok true :=
  IPA.batch_complete ck k hk polys comms sts (IPA.commit_spec ck rng polys draws comms sts rest hc)
    hnf qs evals hev ξs ros rs rng' draws' πs ξr ror dr ho

/-- **IPA, the folding invariant** behind completeness, for every power-of-two size: after the
`k` rounds on `(c, 𝐳, G)` with non-zero challenges `us`,
`⟨G,c⟩ + h′⟨c,𝐳⟩ + Σ(u⁻¹L + uR) = K·c_fin + h′·c_fin·z_fin` with `K = ⟨G, coeffs(h_us)⟩` and
`z_fin = ⟨𝐳, coeffs(h_us)⟩`. -/
theorem ipa_folding_invariant (h' : F) (k fuel : Nat) (cs zs key ros : List F) (hf : k ≤ fuel)
    (hcs : cs.length = 2 ^ k) (hzs : zs.length = 2 ^ k) (hkey : key.length = 2 ^ k)
    (out : (List F × List F) × (List F × List F × List F) × List F)
    (h : IPA.rounds h' fuel (2 ^ k) cs zs key ros = .ok out) :
    ∃ us c zf K, ros = us ++ out.2.2 ∧ us.length = k ∧ (∀ u ∈ us, u ≠ 0) ∧
      out.1.1.length = k ∧ out.1.2.length = k ∧ out.2.1 = ([c], [zf], [K]) ∧
      K = dot key (Succinct.computeCoeffs us) ∧ zf = dot zs (Succinct.computeCoeffs us) ∧
      dot key cs + h' * dot cs zs + IPA.lrSum out.1.1 out.1.2 us = K * c + h' * (c * zf) :=
  IPA.rounds_spec h' k fuel cs zs key ros hf hcs hzs hkey out h

/-! non-vacuity over `ZMod 101`: a 4-element key, two polynomials (one with degree bound 2 and
hiding, one plain), point 6 — the committer and the prover answer, the verifier accepts -/
example : IPA.trim (⟨[3, 5, 7, 11, 2, 4, 6, 8], 13, 17⟩ : IPA.UParams K) 2
    = .ok (⟨[3, 5, 7, 11], 13, 17, 7⟩, ⟨[3, 5, 7, 11], 13, 17, 7⟩) := by decide
example : IPA.commit (⟨[3, 5, 7, 11], 13, 17, 7⟩ : IPA.CK K)
      [⟨[1], [1, 2, 3], some 2, some 1⟩, ⟨[2], [4, 0, 0, 9], none, none⟩] true [21, 22, 23]
    = .ok ([⟨[1], ⟨88, some 22⟩, some 2⟩, ⟨[2], ⟨10, none⟩, none⟩],
           [⟨21, some 22⟩, ⟨0, none⟩], [23]) := by decide
example : IPA.open (⟨[3, 5, 7, 11], 13, 17, 7⟩ : IPA.CK K)
      [⟨[1], [1, 2, 3], some 2, some 1⟩, ⟨[2], [4, 0, 0, 9], none, none⟩]
      [⟨[1], ⟨88, some 22⟩, some 2⟩, ⟨[2], ⟨10, none⟩, none⟩] 6
      [⟨21, some 22⟩, ⟨0, none⟩] [2, 3, 4, 5, 6] [7, 8, 9, 10, 11] true [31, 32, 33, 34, 35, 36]
    = .ok (⟨[89, 67], [85, 95], 96, 5, some 34, some 50⟩, [], [11], [36]) := by decide +kernel
example : IPA.check (⟨[3, 5, 7, 11], 13, 17, 7⟩ : IPA.CK K)
      [⟨[1], ⟨88, some 22⟩, some 2⟩, ⟨[2], ⟨10, none⟩, none⟩] 6
      [evalPoly [1, 2, 3] 6, evalPoly [4, 0, 0, 9] 6]
      ⟨[89, 67], [85, 95], 96, 5, some 34, some 50⟩ [2, 3, 4, 5, 6] [7, 8, 9, 10, 11]
    = .ok true := by decide +kernel

example : IPA.batchOpen (⟨[3, 5], 13, 17, 3⟩ : IPA.CK K) [⟨[1], [4, 9], none, none⟩]
    [⟨[1], ⟨57, none⟩, none⟩] [⟨0, none⟩] [([1], ([9], 6)), ([1], ([10], 7))]
    [2, 3, 4, 5, 6, 7] [8, 9, 10, 4] false []
    = .ok ([⟨[7], [83], 48, 10, none, none⟩, ⟨[26], [19], 23, 6, none, none⟩], [], [], []) := by
  decide +kernel
example : IPA.batchCheck (⟨[3, 5], 13, 17, 3⟩ : IPA.CK K) [⟨[1], ⟨57, none⟩, none⟩]
    [([1], ([9], 6)), ([1], ([10], 7))] [(([1], 6), 58), (([1], 7), 67)]
    [⟨[7], [83], 48, 10, none, none⟩, ⟨[26], [19], 23, 6, none, none⟩]
    [2, 3, 4, 5, 6, 7] [8, 9, 10, 4] [5, 6] = .ok true := by decide +kernel

end PCV.C01
