/-
  Property C09 — setup and trim produce well-formed, mutually consistent keys: MarlinPST13.
  `setup` is modelled with its RNG draws given (the trapdoor `β⃗` and the scalars of `g`, `gamma_g`,
  `h`); the harness checks the library's real `setup` against this model element by element and,
  independently of any trapdoor, through pairings.  The enumeration of the monomials
  (`Combinations`) is property C15; here: what is published for each of them, what `trim` keeps,
  what is refused.
-/
import PCV.Proofs.PST13More
import PCV.Props.Examples

set_option synthInstance.maxSize 512
set_option linter.unusedSectionVars false
set_option linter.unusedVariables false

namespace PCV.C09
open PCV PCV.MV
variable {F : Type} [Field F] [DecidableEq F]

/-- **PST13 `setup`: every published element is the stated power of one trapdoor.**  Whenever
`setup` answers (`num_vars ≥ 1`, `max_degree ≥ 1`): `powers_of_g` is indexed by exactly the
monomials in `num_vars` variables of total degree `≤ max_degree`, and the element of the monomial
`t` is `g·t(β⃗)`; `beta_h[i] = βᵢ·h`; `powers_of_gamma_g[i] = (γ·βᵢ, …, γ·βᵢ^(D+1))`; `gamma_g`, `h`
and the reported sizes are as drawn / requested. -/
theorem pst13_setup_elements (D nv : Nat) (betas : List F) (g γ h : F) (pp : PST.UParams F)
    (hs : PST.setup D nv betas g γ h = .ok pp) :
    1 ≤ nv ∧ 1 ≤ D
    ∧ (∀ kv ∈ pp.powersOfG, kv.2 = g * evalTerm kv.1 betas)
    ∧ (∀ t, t ∈ pp.powersOfG.map (·.1)
        ↔ (Term.wf t = true ∧ Term.varsBelow nv t = true ∧ Term.degree t ≤ D))
    ∧ (∀ t, Term.wf t = true → Term.varsBelow nv t = true → Term.degree t ≤ D →
        PST.mapGet pp.powersOfG t = some (g * evalTerm t betas))
    ∧ pp.betaH = (betas.take nv).map (fun b => h * b)
    ∧ pp.powersOfGammaG
        = (List.range nv).map (fun i => PST.gammaRow γ (getD' betas i 0) (D + 1) 1)
    ∧ pp.gammaG = γ ∧ pp.h = h ∧ pp.numVars = nv ∧ pp.maxDegree = D :=
  PST.setup_spec D nv betas g γ h pp hs

/-- the `j`-th entry of a γ-row is `γ·βᵢ^(j+1)` -/
theorem pst13_gamma_row_entry (γ β : F) (n j : Nat) (b : F)
    (h : (PST.gammaRow γ β n 1)[j]? = some b) : b = γ * fpow β (j + 1) := by
  have := PST.gammaRow_get γ β n 1 j b h
  rw [this]; ring

/-- **`trim` returns faithful sub-keys**: exactly the monomials of degree `≤ supported_degree` with
their elements unchanged, the first `supported_degree + 1` entries of every γ-row; the verifier
key has the same `g` (the element of the constant monomial), `gamma_g`, `h`, `beta_h`; the degree
reports are truthful; only `supported_degree ≤ max_degree` is answered. -/
theorem pst13_trim_faithful (pp : PST.UParams F) (s : Nat) (ck : PST.CK F) (vk : PST.VK F)
    (h : PST.trim pp s = .ok (ck, vk)) :
    s ≤ pp.maxDegree
    ∧ ck.powersOfG = pp.powersOfG.filter (fun kv => decide (Term.degree kv.1 ≤ s))
    ∧ (∀ t, PST.mapGet ck.powersOfG t
          = if Term.degree t ≤ s then PST.mapGet pp.powersOfG t else none)
    ∧ PST.mapGet pp.powersOfG [] = some vk.g
    ∧ vk.betaH = pp.betaH ∧ vk.h = pp.h ∧ vk.gammaG = pp.gammaG ∧ ck.gammaG = pp.gammaG
    ∧ ck.supportedDegree = s ∧ ck.numVars = pp.numVars :=
  PST.trim_spec pp s ck vk h

/-- **Keys from one `setup` interoperate with the trapdoor relation**: after `setup` and `trim`
the committer key serves every monomial of degree `≤ s` with `g·t(β⃗)` and none above; the verifier
key has `g`, `beta_h[i] = βᵢ·h`; and a non-hiding commitment to any polynomial of degree `≤ s` is
`g·p(β⃗)` — the value the verifier's pairing relation (C10) is about. -/
theorem pst13_setup_trim_consistent (D nv s : Nat) (betas : List F) (g γ h : F)
    (pp : PST.UParams F) (ck : PST.CK F) (vk : PST.VK F)
    (hs : PST.setup D nv betas g γ h = .ok pp) (ht : PST.trim pp s = .ok (ck, vk)) :
    (∀ t, Term.wf t = true → Term.varsBelow nv t = true → Term.degree t ≤ s →
        PST.mapGet ck.powersOfG t = some (g * evalTerm t betas))
    ∧ (∀ t, s < Term.degree t → PST.mapGet ck.powersOfG t = none)
    ∧ vk.g = g ∧ vk.h = h ∧ vk.gammaG = γ ∧ ck.gammaG = γ
    ∧ vk.betaH = (betas.take nv).map (fun b => h * b)
    ∧ ∀ (p : MVPoly F) (rng : Bool) (draws : List F), polyWf p = true → polyVarsBelow nv p = true →
        degreeMV p ≤ s → PST.commit ck p none rng draws = .ok (g * evalMV p betas, [], draws) := by
  obtain ⟨_, _, _, _, hget, hbh, _, hγ, hh, _, hD⟩ := PST.setup_spec D nv betas g γ h pp hs
  obtain ⟨hsD, _, hck, hg, hvbh, hvh, hvγ, hcγ, hcs, _⟩ := PST.trim_spec pp s ck vk ht
  have hlook : ∀ t, Term.wf t = true → Term.varsBelow nv t = true → Term.degree t ≤ s →
      PST.mapGet ck.powersOfG t = some (g * evalTerm t betas) := by
    intro t h1 h2 h3
    rw [hck t, if_pos h3]
    exact hget t h1 h2 (by omega)
  refine ⟨hlook, ?_, ?_, by rw [hvh, hh], by rw [hvγ, hγ], by rw [hcγ, hγ], by rw [hvbh, hbh], ?_⟩
  · intro t ht'
    rw [hck t, if_neg (by omega)]
  · have := hget [] rfl (by simp [Term.varsBelow]) (Nat.zero_le _)
    rw [hg] at this
    injection this with this
    simpa using this
  · intro p rng draws hp hpv hd
    have hterms : ∀ t ∈ termsOf p, PST.mapGet ck.powersOfG t = some (g * evalTerm t betas) := by
      intro t htm
      exact hlook t ((polyWf_iff p).1 hp t htm) ((polyVarsBelow_iff nv p).1 hpv t htm)
        (Nat.le_trans (degree_le_degreeMV p t htm) hd)
    rw [PST.commit_plain_ok ck p rng draws (by rw [hcs]; exact hd)
      (fun t htm => by rw [hterms t htm]; rfl)]
    have hsum : PST.keySum (PST.keyOf ck) p = g * evalMV p betas := by
      rw [← PST.keySum_eval]
      clear hd hp hpv
      induction p with
      | nil => rfl
      | cons ct p ih =>
        simp only [PST.keySum_cons]
        rw [ih (fun t htm => hterms t (by
          simp only [termsOf, List.map_cons, List.mem_cons] at htm ⊢; exact Or.inr htm))]
        have := hterms ct.2 (by simp [termsOf])
        simp only [PST.keyOf, this, Option.getD_some]
    rw [hsum]

/-- **Requests beyond the parameters are refused**: zero variables, zero degree, a supported degree
above the maximum. -/
theorem pst13_out_of_range_refused (D nv : Nat) (betas : List F) (g γ h : F) (pp : PST.UParams F)
    (s : Nat) :
    (nv < 1 → PST.setup D nv betas g γ h = .error .invalidNumVars) ∧
    (1 ≤ nv → D < 1 → PST.setup D nv betas g γ h = .error .degreeIsZero) ∧
    (s > pp.maxDegree → PST.trim pp s = .error .trimTooLarge) :=
  ⟨(PST.setup_refuses D nv betas g γ h).1, (PST.setup_refuses D nv betas g γ h).2,
    PST.trim_refuses pp s⟩

/-! ### non-vacuity over `ZMod 101`: `setup(max_degree = 2, num_vars = 2)` with the draws
`β⃗ = (2, 7)`, `g = 3`, `γ = 5`, `h = 11` -/

example : PST.setup 2 2 ([2, 7] : List K) 3 5 11
    = .ok { powersOfG := [([], 3), ([(1, 1)], 21), ([(0, 1)], 6), ([(1, 2)], 46),
                          ([(0, 1), (1, 1)], 42), ([(0, 2)], 12)],
            gammaG := 5, powersOfGammaG := [[10, 20, 40], [35, 43, 99]], h := 11,
            betaH := [22, 77], numVars := 2, maxDegree := 2 } := by decide
/-- e.g. the element of `x₀x₁` is `3·2·7`, of `x₁²` is `3·7²`; `beta_h = (11·2, 11·7)`;
the γ-row of `x₁` is `5·7, 5·7², 5·7³` -/
example : (42 : K) = 3 * (2 * 7) ∧ (46 : K) = 3 * 7 ^ 2 ∧ (77 : K) = 11 * 7
    ∧ ([35, 43, 99] : List K) = [5 * 7, 5 * 7 ^ 2, 5 * 7 ^ 3] := by decide
example : (match PST.setup 2 2 ([2, 7] : List K) 3 5 11 with
    | .ok pp => (match PST.trim pp 1 with
      | .ok (ck, vk) => ck.powersOfG == [([], 3), ([(1, 1)], 21), ([(0, 1)], 6)]
          && ck.powersOfGammaG == [[10, 20], [35, 43]] && vk.betaH == [22, 77] && vk.g == 3
      | .error _ => false)
    | .error _ => false) = true := by decide
example : PST.setup 2 0 ([] : List K) 3 5 11 = .error .invalidNumVars := by decide
example : PST.setup 0 2 ([2, 7] : List K) 3 5 11 = .error .degreeIsZero := by decide
example : (match PST.setup 2 2 ([2, 7] : List K) 3 5 11 with
    | .ok pp => PST.trim pp 3 == .error .trimTooLarge
    | .error _ => false) = true := by decide

/-- `pst13_setup_trim_consistent`: under the keys of that `setup` trimmed to degree 2,
`4 + 6x₁ + 9x₀x₁ + 2x₀²` commits to `3·p(2, 7) = 3·(4 + 42 + 126 + 8)` -/
example : (match PST.setup 2 2 ([2, 7] : List K) 3 5 11 with
    | .ok pp => (match PST.trim pp 2 with
      | .ok (ck, _) => PST.commit ck [(4, []), (6, [(1, 1)]), (9, [(0, 1), (1, 1)]), (2, [(0, 2)])]
          none false [] == .ok (3 * (4 + 42 + 126 + 8), [], [])
      | .error _ => false)
    | .error _ => false) = true := by decide

end PCV.C09
