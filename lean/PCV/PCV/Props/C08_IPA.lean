/-
  Property C08 — commitments are the key-defined linear map of the polynomial, inner-product-argument
  scheme: Pedersen vector commitments under arbitrary key scalars.
-/
import PCV.Proofs.IPA
import PCV.Props.Examples

set_option linter.unusedSectionVars false

namespace PCV.C08
open PCV
variable {F : Type} [Field F] [DecidableEq F]

/-- **IPA.** For arbitrary key scalars `G`, `S`: whatever `commit` returns for a polynomial is
`⟨p, G⟩ + ρ·S` (restricting the key to `deg p + 1` elements loses nothing), the shifted part for
the bound `d` is `⟨p, G[s−d..]⟩ + ρ_s·S`; without a hiding bound `ρ = 0` and there is no `ρ_s`. -/
theorem ipa_commit_is_msm (ck : IPA.CK F) (p : IPA.LPoly F) (rng : Bool) (draws : List F)
    (c : IPA.Comm F) (st : IPA.Rand F) (rest : List F)
    (h : IPA.commitOne ck p rng draws = .ok (c, st, rest)) :
    c.comm = dot ck.commKey p.poly + ck.s * st.rand ∧
    c.shifted = p.bound.map (fun d =>
      dot (ck.commKey.drop (IPA.supportedDegree ck - d)) p.poly + ck.s * IPA.optVal st.shifted) ∧
    (p.hb = none → st.rand = 0 ∧ st.shifted = none ∧ rest = draws) := by
  obtain ⟨_, _, _, h4, h5, h6, _⟩ := IPA.commitOne_spec ck p rng draws c st rest h
  refine ⟨h4, ?_, ?_⟩
  · simp only at h5
    rw [h5]
    cases p.bound with
    | none => rfl
    | some d => simp only [Option.map_some]; rw [IPA.dot_drop_pshift]
  · intro hn
    have hs : p.hb.isSome = false := by rw [hn]; rfl
    obtain ⟨h7, h8⟩ := h6 hs
    refine ⟨h7, h8, ?_⟩
    unfold IPA.commitOne at h
    split at h
    · cases h
    · split at h
      · cases h
      · rename_i st' d' hd
        injection h with h; injection h with _ h; injection h with _ h
        unfold IPA.drawRand at hd
        rw [hs] at hd
        simp at hd
        rw [← h, hd.2]

/-- **IPA, non-hiding commitment** = the dot product with the published key, nothing else. -/
theorem ipa_commit_plain (ck : IPA.CK F) (p : List F) :
    IPA.plainComm ck p 0 = dot ck.commKey p := by
  rw [IPA.plainComm_eq]; ring

/-- **IPA, shifted window.** The shifted commitment is taken over `comm_key.drop (s − d)`; it
equals the plain commitment to `X^{s−d}·p`. -/
theorem ipa_shifted_window (ck : IPA.CK F) (p : List F) (d : Nat) :
    IPA.shiftedComm ck p d none = dot (ck.commKey.drop (IPA.supportedDegree ck - d)) p ∧
    IPA.shiftedComm ck p d none = dot ck.commKey (pshift (IPA.supportedDegree ck - d) p) := by
  constructor
  · unfold IPA.shiftedComm IPA.cmCommit; rfl
  · rw [IPA.shiftedComm_eq]; simp [IPA.optVal]

/-- **IPA, additivity and homogeneity** of the commitment map (plain and shifted), for an
arbitrary key. -/
theorem ipa_commit_add (G p q : List F) : dot G (padd p q) = dot G p + dot G q :=
  IPA.dot_padd_right G p q

theorem ipa_commit_scale (G p : List F) (c : F) : dot G (pscale c p) = c * dot G p :=
  IPA.dot_pscale_right G p c

theorem ipa_plainComm_add (ck : IPA.CK F) (p q : List F) (ρ σ : F) :
    IPA.plainComm ck (padd p q) (ρ + σ) = IPA.plainComm ck p ρ + IPA.plainComm ck q σ := by
  simp only [IPA.plainComm_eq, IPA.dot_padd_right]; ring

theorem ipa_shiftedComm_add (ck : IPA.CK F) (p q : List F) (d : Nat) (ρ σ : F) :
    IPA.shiftedComm ck (padd p q) d (some (ρ + σ))
      = IPA.shiftedComm ck p d (some ρ) + IPA.shiftedComm ck q d (some σ) := by
  unfold IPA.shiftedComm
  simp only [IPA.cmCommit_eq, IPA.dot_padd_right, IPA.optVal]; ring

/-- the zero polynomial (empty or all-zero coefficient vector) commits to the identity, and
high-order zero coefficients do not change a commitment -/
theorem ipa_commit_zero (G p : List F) (h : pnorm p = []) : dot G p = 0 := by
  rw [dot_comm, ← dot_pnorm, h]; simp

theorem ipa_commit_leading_zeros (G p : List F) : dot G (pnorm p) = dot G p := by
  rw [dot_comm, dot_pnorm, dot_comm]

example : IPA.commit (⟨[3, 5, 7, 11], 13, 17, 3⟩ : IPA.CK K)
    [⟨[1], [1, 2, 3], some 2, some 1⟩] true [21, 22]
    = .ok ([⟨[1], ⟨88, some 22⟩, some 2⟩], [⟨21, some 22⟩], []) ∧
    (88 : K) = dot [3, 5, 7, 11] [1, 2, 3] + 17 * 21 ∧
    (22 : K) = dot ([3, 5, 7, 11].drop (3 - 2)) [1, 2, 3] + 17 * 22 := by decide

end PCV.C08
