/-
  Property C03 — inner-product argument, ALGEBRAIC forger (the reduction evaluation binding rests on).
  Lemmas: PCV/Proofs/IPAExtract.lean.  Every element the prover sends is given by its representation over the
  committer key `G` and the round generator `h′ = ξ₀·h` — the only elements the library's own operations (MSMs
  over the key) can form.  An accepted FALSE claim then means: a non-trivial linear relation between the
  independently sampled generators with coefficients the prover knows (a discrete-log relation), or one of the
  at most `2·log₂ n` exceptional round-challenge values.
-/
import PCV.Proofs.IPAExtract
import PCV.Props.Examples

set_option linter.unusedSectionVars false

namespace PCV.C03
open PCV
variable {F : Type} [Field F] [DecidableEq F]

/-- **IPA, acceptance is one linear relation between the generators.** Whatever the statement: if the combined
commitment `Ĉ` and the sum `Σ(u⁻¹L + uR)` of an accepted run are represented over `(G, h′)`, the coefficient
vector `(rel_G, rel_h)` — computed from those representations, the proof's `c`, the round challenges and the
combined value — satisfies `⟨rel_G, G⟩ + rel_h·h′ = 0`. -/
theorem ipa_accept_is_linear_relation (vk : IPA.VK F) (z : F) (π : IPA.Proof F) (r : IPA.Run F)
    (P : List F × F) (Ls Rs : List (List F × F))
    (hC : r.C = IPA.repVal vk.commKey (vk.h * r.ξ₀) P)
    (hlr : r.lr = IPA.repVal vk.commKey (vk.h * r.ξ₀) (IPA.lrRep Ls Rs r.us))
    (h1 : IPA.defect1 vk z π r = 0) (h2 : IPA.defect2 vk π r.us = 0) :
    IPA.repVal vk.commKey (vk.h * r.ξ₀)
      (IPA.relG P Ls Rs r.us π.c, IPA.relH P r.V Ls Rs r.us π.c z) = 0 :=
  IPA.accept_relation vk z π r P Ls Rs hC hlr h1 h2

/-- **IPA, the round-by-round argument** (pure algebra, any field): a running error that starts non-zero,
receives `λᵢ·uᵢ⁻¹ + ρᵢ·uᵢ` in round `i` and ends at zero passes, at the first round where it vanishes, through
a root `uᵢ` of `ρᵢ·X² + Aᵢ·X + λᵢ` with `Aᵢ ≠ 0` the running error before that round. -/
theorem ipa_running_error_hits_root (ls rs us : List F) (A : F) (hu : ∀ u ∈ us, u ≠ 0)
    (hA : A ≠ 0) (hend : A + IPA.lrSum ls rs us = 0) :
    ∃ i, i < us.length ∧ i < ls.length ∧ i < rs.length ∧
      A + IPA.lrSum (ls.take i) (rs.take i) (us.take i) ≠ 0 ∧
      rs.getD i 0 * us.getD i 0 ^ 2
        + (A + IPA.lrSum (ls.take i) (rs.take i) (us.take i)) * us.getD i 0 + ls.getD i 0 = 0 :=
  IPA.running_error_hits_root ls rs us A hu hA hend

/-- **IPA, algebraic forger against `check`** (one commitment without degree bound, non-hiding proof).
The commitment is `⟨p, G⟩`; the proof's `L`s and `R`s are `⟨·, G⟩ + ·h′` with representations `Ls`, `Rs`.  If
`check` answers `Ok(true)` then, with `r` the verifier's run:

* the prover holds a non-trivial relation: some coefficient of `(rel_G, rel_h)` is non-zero and
  `⟨rel_G, G⟩ + rel_h·h′ = 0`;  or
* the claim is true up to the statement challenge: `ξ·p(z) = ξ·v`;  or
* some round challenge `uᵢ` is a root of `ρᵢ·X² + Aᵢ·X + λᵢ` with `Aᵢ ≠ 0`, where `λᵢ`, `ρᵢ` are the
  slacks `⟨Lᵢ.G, (1,z,z²,…)⟩ − Lᵢ.h` of the round's elements and `Aᵢ` the error accumulated before round `i`
  — all fixed before `uᵢ` is drawn (`L_i`, `R_i` are absorbed before the challenge is squeezed). -/
theorem ipa_algebraic_forgery_trichotomy (vk : IPA.VK F) (c : IPA.LComm F) (p : List F) (z v : F)
    (π : IPA.Proof F) (Ls Rs : List (List F × F)) (ξ ξ' ξ'' : F) (ξs ros : List F)
    (hbound : c.bound = none) (hshift : c.comm.shifted = none)
    (hcomm : c.comm.comm = dot vk.commKey p)
    (hhc : π.hidingComm = none) (hrand : π.rand = none)
    (hL : π.lVec = Ls.map (IPA.repVal vk.commKey (vk.h * ros.headD 0)))
    (hR : π.rVec = Rs.map (IPA.repVal vk.commKey (vk.h * ros.headD 0)))
    (hacc : IPA.check vk [c] z [v] π (ξ :: ξ' :: ξ'' :: ξs) ros = .ok true) :
    ∃ r ξr ror, IPA.succinctRun vk [c] z [v] π (ξ :: ξ' :: ξ'' :: ξs) ros = .ok (r, ξr, ror) ∧
      r.ξ₀ = ros.headD 0 ∧ r.V = ξ * v ∧
      (((∃ i, (IPA.relG (pscale ξ p, 0) Ls Rs r.us π.c).getD i 0 ≠ 0)
            ∨ IPA.relH (pscale ξ p, 0) r.V Ls Rs r.us π.c z ≠ 0) ∧
          IPA.repVal vk.commKey (vk.h * r.ξ₀)
            (IPA.relG (pscale ξ p, 0) Ls Rs r.us π.c, IPA.relH (pscale ξ p, 0) r.V Ls Rs r.us π.c z) = 0
        ∨ ξ * evalPoly p z = ξ * v
        ∨ ∃ i, i < r.us.length ∧ i < Ls.length ∧ i < Rs.length ∧
            (ξ * evalPoly p z - ξ * v)
              + IPA.lrSum ((Ls.map (IPA.slack z)).take i) ((Rs.map (IPA.slack z)).take i) (r.us.take i) ≠ 0 ∧
            (Rs.map (IPA.slack z)).getD i 0 * r.us.getD i 0 ^ 2
              + ((ξ * evalPoly p z - ξ * v)
                  + IPA.lrSum ((Ls.map (IPA.slack z)).take i) ((Rs.map (IPA.slack z)).take i) (r.us.take i))
                * r.us.getD i 0
              + (Ls.map (IPA.slack z)).getD i 0 = 0) := by
  obtain ⟨_, r, ξr, ror, hr, d1, d2⟩ := (IPA.check_iff _ _ _ _ _ _ _).1 hacc
  obtain ⟨C, ros2, hacc', hadj, hvr⟩ := IPA.succinctRun_parts vk [c] z [v] π ξ _ ros r ξr ror hr
  -- the combining loop on one unbounded commitment
  have hloop : IPA.accLoop vk z [c] [v] ξ (ξ' :: ξ'' :: ξs) 0 0
      = .ok ((0 + c.comm.comm * ξ, 0 + ξ * v), ξs) := by
    simp [IPA.accLoop, IPA.accStep, hbound, hshift]
  rw [hloop] at hacc'
  injection hacc' with hacc'
  injection hacc' with hCV _
  injection hCV with hCeq hVeq
  -- no hiding adjustment
  have hadj' : IPA.hidingAdjust vk π C ros = .ok (C, ros) := by
    simp [IPA.hidingAdjust, hhc, hrand]
  rw [hadj'] at hadj
  injection hadj with hadj
  injection hadj with hCr hros
  have hξ₀ : r.ξ₀ = ros.headD 0 := by rw [hros]; rfl
  have hV : r.V = ξ * v := by rw [← hVeq]; ring
  have hCrep : r.C = IPA.repVal vk.commKey (vk.h * r.ξ₀) (pscale ξ p, 0) := by
    rw [← hCr, ← hCeq, hcomm]
    unfold IPA.repVal
    rw [IPA.dot_pscale_right]
    ring
  obtain ⟨hlrsum, hus⟩ := IPA.verifyRounds_sound _ _ _ _ _ _ hvr
  have hlr : r.lr = IPA.repVal vk.commKey (vk.h * r.ξ₀) (IPA.lrRep Ls Rs r.us) := by
    rw [hlrsum, IPA.repVal_lrRep, hL, hR, hξ₀]
  have hslack : IPA.slack z (pscale ξ p, (0 : F)) = ξ * evalPoly p z := by
    unfold IPA.slack
    rw [eval_pscale]
    ring
  have := IPA.algebraic_trichotomy vk z π r (pscale ξ p, 0) Ls Rs hCrep hlr hus d1 d2
  rw [hslack, hV] at this
  refine ⟨r, ξr, ror, hr, hξ₀, hV, ?_⟩
  rw [hV]
  exact this

/-! non-vacuity over `ZMod 101`: the accepted transcript of `C03_IPA` (key `[3, 5]`, `h = 13`, commitment
`57 = ⟨[4, 9], G⟩`, `z = 6`, `v = 58 = p(6)`, `ξ = 2`, `ξ₀ = 8`, one round with `u = 9`) meets the hypotheses
with the honest representations `L = ⟨[18, 0], G⟩ + 18·h′`, `R = ⟨[0, 8], G⟩ + 48·h′`; its relation vector is
the zero vector and the claim is true. -/
example : (57 : K) = dot ([3, 5] : List K) [4, 9] := by decide
example : ([7] : List K) = [(([18, 0] : List K), (18 : K))].map (IPA.repVal [3, 5] (13 * 8)) := by decide
example : ([83] : List K) = [(([0, 8] : List K), (48 : K))].map (IPA.repVal [3, 5] (13 * 8)) := by decide
example : IPA.check (⟨[3, 5], 13, 17, 3⟩ : IPA.CK K) [⟨[1], ⟨57, none⟩, none⟩] 6 [58]
    ⟨[7], [83], 48, 10, none, none⟩ [2, 3, 4] [8, 9] = .ok true := by decide +kernel
example : IPA.relG ((pscale 2 [4, 9] : List K), 0) [([18, 0], 18)] [([0, 8], 48)] [9] 10 = [0, 0] := by
  decide +kernel
example : IPA.relH ((pscale 2 [4, 9] : List K), 0) (2 * 58) [([18, 0], 18)] [([0, 8], 48)] [9] 10 6 = 0 := by
  decide +kernel
-- a forged slack: `L` with a wrong `h′`-part moves the running error; the quadratic of the theorem
example : IPA.slack (6 : K) ([18, 0], 17) = 1 ∧ IPA.slack (6 : K) ([18, 0], 18) = 0 := by decide

end PCV.C03
