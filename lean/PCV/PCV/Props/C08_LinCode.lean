/-
  Property C08 (commitments are the key-defined map) — linear-code PCS: the commitment is a function
  of (polynomial, parameters) only and its root is the Merkle root over the column hashes of the
  row-wise encoded, row-major, zero-padded coefficient matrix.
-/
import PCV.Proofs.LinCodeProto
import PCV.Proofs.LinCodeToy

namespace PCV.C08
open PCV PCV.LinCode PCV.Merkle
variable {F : Type} [Field F] [DecidableEq F] {D : Type} [DecidableEq D]
set_option linter.unusedSectionVars false

/-- **What a commitment is** (any encoder, linear or not).  Whenever `commit` succeeds:
the state holds `M = coeffMat` (row-major `n × m`, zero padded, `[]` committed as `[0]`) and the
row-wise encoding of `M`; the metadata are `(n, m, codeword length)`; the leaves are the column
hashes of the encoded matrix and the root is their (power-of-two padded) Merkle root. -/
theorem lincode_commit_is_merkle_root (pp : Params F D) (coeffs : List F) (c : Comm D)
    (st : State F D) (h : commit pp coeffs = .ok (c, st)) :
    st.mat = coeffMat pp.dims coeffs ∧
    encodeRows pp.enc st.mat.rows = .ok st.extMat.rows ∧
    (c.nRows, c.nCols, c.nExtCols) = (st.mat.n, st.mat.m, st.extMat.m) ∧
    st.leaves = st.extMat.cols.map pp.colHash ∧
    c.root = merkleRoot pp.hs (st.extMat.cols.map pp.colHash) := by
  unfold commit at h
  cases hcm : computeMatrices pp coeffs with
  | error e => rw [hcm] at h; cases h
  | ok me =>
    obtain ⟨mat, ext⟩ := me
    rw [hcm] at h
    simp only at h
    split at h
    · cases h
    · cases h
      replace hcm := (computeMatrices_ok pp coeffs _ hcm).2
      unfold computeMatricesCore at hcm
      simp only at hcm
      cases her : encodeRows pp.enc (coeffMat pp.dims coeffs).rows with
      | error e => rw [her] at hcm; cases hcm
      | ok ws =>
        rw [her] at hcm
        simp only at hcm
        cases hor : Mat.ofRows ws with
        | error e => rw [hor] at hcm; cases hcm
        | ok ext' =>
          rw [hor] at hcm
          cases hcm
          have hrows : ext.rows = ws := by
            unfold Mat.ofRows at hor
            split at hor
            · cases hor
            · split at hor
              · cases hor; rfl
              · cases hor
          exact ⟨rfl, by rw [her, hrows], rfl, rfl, rfl⟩

/-- **Linear encoder: the commitment in closed form.**  `commit` returns
`(n, m, k, merkleRoot (H <$> columns (E <$> rows M)))`. -/
theorem lincode_commit_eq (pp : Params F D) (coeffs : List F) (E : List F → List F) (k : Nat)
    (h : Encodes pp coeffs E k) :
    commit pp coeffs = .ok
      (⟨(coeffMat pp.dims coeffs).n, (coeffMat pp.dims coeffs).m, k,
          merkleRoot pp.hs
            (((List.range k).map (colOf ((coeffMat pp.dims coeffs).rows.map E))).map pp.colHash)⟩,
       ⟨coeffMat pp.dims coeffs, extOf pp coeffs E k, leavesOf pp (extOf pp coeffs E k)⟩) :=
  commit_eq pp coeffs E k h

/-- **A function of (polynomial, parameters) only**: `commit` takes no randomness and no state;
polynomials with the same coefficient vector — and the empty vector and `[0]` (D8) — get the same
commitment and state. -/
theorem lincode_commit_empty_eq_zero (pp : Params F D) :
    commit pp ([] : List F) = commit pp [0] := by
  unfold commit computeMatrices computeMatricesCore fitsDims coeffMat coeffsOrZero
  rfl

/-- `commit` on a list is `commit` on each polynomial, in order, with nothing shared -/
theorem lincode_commitAll_pointwise (pp : Params F D) (polys : List (List F))
    (css : List (Comm D × State F D)) (h : commitAll pp polys = .ok css) :
    css.length = polys.length ∧
      ∀ (i : Nat) p, polys[i]? = some p → ∃ cs, css[i]? = some cs ∧ commit pp p = .ok cs := by
  induction polys generalizing css with
  | nil => simp [commitAll] at h; subst h; simp
  | cons p ps ih =>
    simp only [commitAll] at h
    cases h1 : commit pp p with
    | error e => rw [h1] at h; cases h
    | ok cs =>
      rw [h1] at h
      simp only at h
      cases h2 : commitAll pp ps with
      | error e => rw [h2] at h; cases h
      | ok rest =>
        rw [h2] at h
        cases h
        obtain ⟨hl, hrest⟩ := ih rest h2
        refine ⟨by simp [hl], ?_⟩
        intro i p' hp'
        cases i with
        | zero => simp at hp'; subst hp'; exact ⟨cs, rfl, h1⟩
        | succ i => simpa using hrest i p' (by simpa using hp')

/-- **Distinct encoded matrices give distinct leaf vectors** when the column hash is injective
(collision-freeness as a hypothesis): equal leaves force equal columns. -/
theorem lincode_leaves_injective (pp : Params F D) (ext ext' : Mat F)
    (hinj : ∀ x y, pp.colHash x = pp.colHash y → x = y)
    (h : leavesOf pp ext = leavesOf pp ext') : ext.cols = ext'.cols := by
  unfold leavesOf at h
  exact List.map_injective_iff.2 (fun x y hxy => hinj x y hxy) h

/-- … and distinct roots, when in addition the Merkle root is collision-free on the leaf vectors
compared (hypothesis `hroot`) -/
theorem lincode_roots_distinct (pp : Params F D) (ext ext' : Mat F)
    (hinj : ∀ x y, pp.colHash x = pp.colHash y → x = y)
    (hroot : merkleRoot pp.hs (leavesOf pp ext) = merkleRoot pp.hs (leavesOf pp ext') →
      leavesOf pp ext = leavesOf pp ext')
    (hne : ext.cols ≠ ext'.cols) :
    merkleRoot pp.hs (leavesOf pp ext) ≠ merkleRoot pp.hs (leavesOf pp ext') :=
  fun h => hne (lincode_leaves_injective pp ext ext' hinj (hroot h))

/-! non-vacuity: the toy commitment exists, equals the closed form, and two polynomials get
different roots -/
example : ∃ cs, commit (toyPP true) [1, 2, 3] = .ok cs := ⟨_, commit_eq _ _ toyE 4 (toy_encodes _ _ (by decide))⟩
example : (match commit (toyPP true) [1, 2, 3], commit (toyPP true) [1, 2, 4] with
    | .ok (c, _), .ok (c', _) => decide (c.root ≠ c'.root)
    | _, _ => false) = true := by decide
example : (match commit (toyPP true) [1, 2, 3] with
    | .ok (c, _) => decide (c.root = merkleRoot toyHashes
        (((List.range 4).map (colOf ([[1, 2], [3, 0]].map toyE))).map (toyPP true).colHash))
    | _ => false) = true := by decide

end PCV.C08
