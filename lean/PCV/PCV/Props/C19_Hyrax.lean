/-
  Property C19 (succinctness) — Hyrax shapes: a commitment consists of `2^(n/2)` row commitments and
  a proof of three group elements, a vector `z` of `2^(n/2)` scalars and three scalars — square-root
  size in the `2^n` evaluations, for every even `n`.
-/
import PCV.Proofs.Hyrax
import PCV.Props.Examples

namespace PCV.C19
open PCV
variable {F : Type} [Field F] [DecidableEq F]

omit [DecidableEq F] in
/-- **Hyrax, commitment shape.** A commitment to a polynomial in `nv` variables has exactly
`2^(nv/2)` row commitments; the state holds `2^(nv/2)` blinding scalars and the
`2^(nv/2) × 2^(nv/2)` matrix. -/
theorem hyrax_commit_shape (ks : List F) (hh : F) (p : Hyrax.MLPoly F) (ρs T : List F)
    (st : Hyrax.State F) (hc : Hyrax.commitOne ks hh p ρs = .ok (T, st)) :
    T.length = 2 ^ (p.nv / 2) ∧ st.randomness.length = 2 ^ (p.nv / 2) ∧
      st.mat.n = 2 ^ (p.nv / 2) ∧ st.mat.m = 2 ^ (p.nv / 2) ∧ st.mat.entries.length = 2 ^ (p.nv / 2) ∧
      T.length * T.length = p.evals.length := by
  obtain ⟨_, _, hlen, hρ, rfl, rfl⟩ := Hyrax.commitOne_inv ks hh p ρs T st hc
  have hl : (ρs.take (2 ^ (p.nv / 2))).length = 2 ^ (p.nv / 2) := by rw [List.length_take]; omega
  have hT : (Hyrax.rowCommits ks hh (Hyrax.rowsOf p.evals (2 ^ (p.nv / 2)) (2 ^ (p.nv / 2)))
      (ρs.take (2 ^ (p.nv / 2)))).length = 2 ^ (p.nv / 2) := by
    rw [Hyrax.rowCommits_length, Hyrax.rowsOf_length, hl, Nat.min_self]
  exact ⟨hT, hl, rfl, rfl, Hyrax.rowsOf_length _ _ _, by rw [hT, hlen]⟩

/-- **Hyrax, transcript shape.** For an honest run over any list of polynomials at a point with
`n` variables: one commitment and one proof per polynomial, every commitment has
`row_coms.length = 2^(n/2)` and every proof has `z.length = 2^(n/2)` (the rest of a proof is three
group elements and three scalars, by the type `Proof`). -/
theorem hyrax_shape (ks : List F) (hh : F) (polys : List (Hyrax.MLPoly F)) (point : List F)
    (ρdraws odraws cs : List F) (coms : List (List F)) (sts : List (Hyrax.State F)) (rest : List F)
    (items : List (Hyrax.OpenItem F)) (πs : List (Hyrax.Proof F))
    (hc : Hyrax.commit ks hh polys ρdraws = .ok (coms, sts, rest))
    (hst : items.map (·.st) = sts)
    (ho : Hyrax.open ks hh items point odraws cs = .ok πs) :
    coms.length = polys.length ∧ πs.length = polys.length ∧
      (∀ T ∈ coms, T.length = 2 ^ (point.length / 2)) ∧
      (∀ π ∈ πs, π.z.length = 2 ^ (point.length / 2)) := by
  unfold Hyrax.open at ho
  simp only at ho
  by_cases hn : point.length % 2 = 1
  · rw [if_pos hn] at ho; cases ho
  · rw [if_neg hn] at ho
    obtain ⟨_, h2, h3, h4, h5⟩ := Hyrax.loops_complete ks hh point (by omega) polys ρdraws odraws cs
      coms sts rest items πs hc hst ho
    exact ⟨h2, h3, h4, h5⟩

/-- what a verifier accepts has the same shapes (so no accepted proof is larger) -/
theorem hyrax_accepted_shape (ks : List F) (hh : F) (coms : List (List F)) (point vs : List F)
    (πs : List (Hyrax.Proof F)) (cs : List F)
    (h : Hyrax.check ks hh coms point vs πs cs = .ok true) :
    (∀ T ∈ coms, T.length = 2 ^ (point.length / 2)) ∧ (∀ π ∈ πs, π.z.length = ks.length) := by
  have a := (Hyrax.check_iff ks hh coms point vs πs cs).1 h
  have a' := (Hyrax.checkLoop_iff ks hh _ _ _ coms vs πs cs a.2.1 a.2.2.1).2 ⟨a.2.2.2.1, a.2.2.2.2⟩
  obtain ⟨s1, s2, _⟩ := Hyrax.checkLoop_shapes ks hh _ _ _ πs coms vs cs a.2.1 a.2.2.1 a'
  exact ⟨s1, s2⟩

/-! non-vacuity over `ZMod 101`: 4 variables, 16 evaluations, 4 row commitments, `z` of length 4 -/
example : ((Hyrax.commitOne ([3, 5, 8, 9] : List K) 7
      ⟨4, [1, 2, 3, 4, 5, 6, 7, 8, 9, 10, 11, 12, 13, 14, 15, 16]⟩ [10, 20, 30, 40]).toOption.map
        fun x => (x.1.length, x.2.randomness.length)) = some (4, 4) := by decide

end PCV.C19
