/-
  Property C11 — prover/verifier transcripts stay in lock-step; proofs are bound to them — the
  linear-code schemes (univariate / multilinear Ligero, Brakedown).
  Model: `PCV.Model.LinCodeTranscript` (`LinearCodePCS::open` / `generate_proof` / `check` and
  `get_indices_from_sponge` on a sponge that is its own event history; squeezes answered by a random
  oracle `ro`, an arbitrary function of the history), the trait defaults of `lib.rs`
  (`PCV.Model.TraitDefault`) instantiated with them, histories in `PCV.Proofs.TranscriptHistory`.
  Only property theorems live here; lemmas are in PCV/Proofs/LinCodeTranscript.lean, LinCodeHistory.lean.
-/
import PCV.Proofs.LinCodeHistory
import PCV.Proofs.LinCodeTranscriptEx
import PCV.Props.C02_LinCode
import PCV.Props.C10_LinCode

set_option linter.unusedSectionVars false
set_option linter.unusedVariables false

namespace PCV.C11
open PCV PCV.LinCode PCV.Merkle
open PCV.TraitDefault (Label Query polyStComm)
variable {F : Type} [Field F] [DecidableEq F] {D : Type} [DecidableEq D] {Pt : Type} [DecidableEq Pt]

/-! ### (b) what is absorbed, when; what the challenges depend on -/

/-- **The prover's transcript.**  An answered `open` of one polynomial ran `transcriptOne`: absorb
the root; [flag on: squeeze `n_rows` field elements `r`, absorb `r·M`]; absorb the point; absorb
`v = b·M`; `t = calculate_t(.., ext_mat.m)` times (squeeze `get_num_bytes` bytes, absorb them back).
The vectors it absorbed are the ones it SENDS (`π.wf`, `π.opening.v`), and the proof is
`LinCode.openOne` on the squeezed outputs. -/
theorem lincode_open_transcript (ro : TRO F D) (tp : TParams F D) (point : Point F) (c : Comm D)
    (st : State F D) (s : TLog F D) (π : Proof F D) (s' : TLog F D)
    (h : openOneT ro tp point c st s = .ok (π, s')) :
    ∃ t r idx, tp.tOf st.extMat.m = .ok t ∧ openOne tp.pp point c st ⟨r, idx⟩ = .ok π ∧
      transcriptOne ro c.nRows st.extMat.m t c.root π.wf point.toVec π.opening.v s
        = .ok (r, idx, s') :=
  openOneT_spec ro tp point c st s π s' h

/-- **The verifier's transcript and decision.**  `check` answers `b` and leaves the sponge `s'` iff
`transcriptOne` — run on the commitment's root / `n_rows` / `n_ext_cols`, the point, and the two
vectors READ in the proof (`wf` only when the flag is on) — yields outputs `(r, idx)` and `s'`, and
`LinCode.checkOne` answers `b` on `(r, idx)`.  Every theorem of C02/C03/C10 about `LinCode.checkOne`
with explicit oracle outputs applies with these. -/
theorem lincode_check_transcript (ro : TRO F D) (tp : TParams F D) (point : Point F) (c : Comm D)
    (value : F) (π : Proof F D) (s : TLog F D) (b : Bool) (s' : TLog F D) :
    checkOneT ro tp point c value π s = .ok (b, s') ↔
      ∃ t r idx, tp.tOf c.nExtCols = .ok t ∧
        transcriptOne ro c.nRows c.nExtCols t c.root (usedWf tp.pp.checkWf π.wf) point.toVec
          π.opening.v s = .ok (r, idx, s') ∧
        checkOne tp.pp point c value π ⟨r, idx⟩ = .ok b :=
  checkOneT_ok_iff ro tp point c value π s b s'

/-- **The event schedule of one opening**: `3 + 2·[flag] + 2·t` events, `t` positions, `n_rows`
coefficients when the flag is on. -/
theorem lincode_event_schedule (ro : TRO F D) (nRows nExt t : Nat) (root : D) (wf : Option (List F))
    (pointVec v : List F) (s : TLog F D) (r : List F) (idx : List Nat) (s' : TLog F D)
    (h : transcriptOne ro nRows nExt t root wf pointVec v s = .ok (r, idx, s')) :
    s'.length = s.length + 3 + (if wf.isSome then 2 else 0) + 2 * t ∧ idx.length = t ∧
      (wf.isSome = true → r.length = nRows) :=
  transcriptOne_length ro nRows nExt t root wf pointVec v s r idx s' h

/-- **Which proof components influence later challenges.**  Two answered checks of the same
commitment at the same point from the same history, with proofs that agree in `opening.v` and in
the well-formedness vector the verifier uses, end in the same sponge state — whatever their opened
columns, their Merkle paths, the claimed values and the verdicts.  (`v` and `wf` do influence it:
they are arguments of `transcriptOne`.) -/
theorem lincode_unabsorbed_components_do_not_matter (ro : TRO F D) (tp : TParams F D)
    (point : Point F) (c : Comm D) (value value' : F) (π π' : Proof F D) (s : TLog F D)
    (b b' : Bool) (s1 s2 : TLog F D) (hv : π.opening.v = π'.opening.v)
    (hw : usedWf tp.pp.checkWf π.wf = usedWf tp.pp.checkWf π'.wf)
    (h1 : checkOneT ro tp point c value π s = .ok (b, s1))
    (h2 : checkOneT ro tp point c value' π' s = .ok (b', s2)) : s1 = s2 :=
  checkOneT_log_congr ro tp point c value value' π π' s b b' s1 s2 hv hw h1 h2

/-! ### (a) lock-step -/

/-- **`open` / `check` in lock-step, one polynomial.**  For every linear row encoder, every shape,
every hash, every oracle and every prior history, with and without the well-formedness check, at a
point with the number of coordinates the matrix width asks for (`hfit`, `PointFits`: whenever
`tensor` answers its vector `a` has `n_cols` entries — every univariate point, `lincode_point_fits`;
needed since fix D23, because `open` answers without looking at `a` while `check` refuses an `a` of
another length, e.g. a multilinear point on a width that is not a power of two): if
`open` answers, `check` on the same prior history accepts the claimed value and ends with EXACTLY
the prover's event history. -/
theorem lincode_open_check_lockstep_one (ro : TRO F D) (tp : TParams F D) (point : Point F)
    (coeffs : List F) (E : List F → List F) (k : Nat) (h : Encodes tp.pp coeffs E k)
    (hfit : PointFits point (coeffMat tp.pp.dims coeffs).m (coeffMat tp.pp.dims coeffs).n)
    (s : TLog F D) (π : Proof F D) (s' : TLog F D)
    (ho : openOneT ro tp point (commitC tp.pp coeffs E k) (commitSt tp.pp coeffs E k) s = .ok (π, s')) :
    checkOneT ro tp point (commitC tp.pp coeffs E k) (claimed tp.pp point coeffs) π s
      = .ok (true, s') :=
  oneT_lockstep ro tp point coeffs E k h hfit s π s' ho

/-- which points fit: every univariate point, whatever the shape; a multilinear point exactly when the
width is a power of two (or the point has too few coordinates for `tensor` to answer, and then `open`
aborts); hence every point when the width is a power of two -/
theorem lincode_point_fits (nCols nRows : Nat) :
    (∀ z : F, PointFits (Point.uni z) nCols nRows) ∧
    (∀ pt : List F, PointFits (Point.ml pt) nCols nRows ↔
      pt.length < ceilLog2 nCols ∨ 2 ^ ceilLog2 nCols = nCols) ∧
    (2 ^ ceilLog2 nCols = nCols → ∀ point : Point F, PointFits point nCols nRows) :=
  ⟨fun z => pointFits_uni z nCols nRows, fun pt => pointFits_ml_iff pt nCols nRows,
    fun h point => pointFits_of_pow2 point nCols nRows h⟩

/-- the commitment and state of the lock-step theorems are what `commit` returns -/
theorem lincode_commit_is (pp : Params F D) (coeffs : List F) (E : List F → List F) (k : Nat)
    (h : Encodes pp coeffs E k) :
    commit pp coeffs = .ok (commitC pp coeffs E k, commitSt pp coeffs E k) :=
  commit_eq pp coeffs E k h

/-- **`open` / `check` in lock-step, a list of polynomials on one sponge** (`hfit`: the point fits
the width of every matrix, as in `lincode_open_check_lockstep_one`). -/
theorem lincode_open_check_lockstep (ro : TRO F D) (tp : TParams F D) (point : Point F)
    (ts : List (List F × Comm D × State F D))
    (hh : ∀ t ∈ ts, HonestTriple tp.pp t.1 t.2.1 t.2.2)
    (hfit : ∀ t ∈ ts, PointFits point (coeffMat tp.pp.dims t.1).m (coeffMat tp.pp.dims t.1).n)
    (s : TLog F D) (πs : List (Proof F D)) (s' : TLog F D)
    (ho : openAllT ro tp point (ts.map (·.2.1)) (ts.map (·.2.2)) s = .ok (πs, s')) :
    checkAllT ro tp point (ts.map (·.2.1)) (ts.map fun t => claimed tp.pp point t.1) πs s
      = .ok (true, s') :=
  allT_lockstep ro tp point ts hh hfit s πs s' ho

/-- **Lock-step over any history** of `open`, default `batch_open` and default
`open_combinations` calls on one sponge (committed lists in which every triple is honest; a verifier
holding the same commitments; `Pt` the point type of the scheme, embedded by `ι` — `Point.uni` for
univariate Ligero, `Point.ml` for the multilinear schemes, `id` for both kinds at once — and `ltP`
its order; `GoodTrips` also asks that every point of `Pt` fits the width of every committed matrix,
which is needed since fix D23, see `lincode_open_check_lockstep_one`: no condition for `ι = Point.uni`
(`goodTrips_uni`), power-of-two widths otherwise (`goodTrips_of_pow2`)): for every operation list with
true claims, if the prover answers all of them, the verifier — performing the corresponding
`check` / `batch_check` / `check_combinations` in the same order from the same initial history —
accepts every proof and ends with exactly the prover's event history. -/
theorem lincode_history_lockstep (ro : TRO F D) (tp : TParams F D) (ι : Pt → Point F)
    (ltP : Pt → Pt → Bool) (hlt : QS.StrictTotal ltP) (hirr : ∀ a, ltP a a = false)
    (polys : List (LPoly F)) (sts : List (State F D)) (comms vcomms : List (LComm D))
    (hlen1 : sts.length = polys.length) (hlen2 : comms.length = polys.length)
    (hhonest : GoodTrips tp.pp ι (polyStComm polys sts comms))
    (hcm : ∀ l t, Marlin.lookupLast (fun (t : (LPoly F × State F D) × LComm D) => t.1.1.label) l
        (polyStComm polys sts comms) = some t →
        Marlin.lookupLast (fun (c : LComm D) => c.label) l vcomms = some t.2)
    (ops : List (TrHistory.Op Pt F (LPoly F) (State F D) (LComm D)))
    (vops : List (TrHistory.VOp Pt F (LComm D)))
    (ht : List.Forall₂ (TrHistory.Truthful ltP (fun (p : LPoly F) => p.label)
      (fun lp z => evalLP tp.pp lp (ι z)) (GoodTrips tp.pp ι) polys sts comms) ops vops)
    (s : TLog F D) (πs : List (TrHistory.OpProof F (List (Proof F D)))) (s' : TLog F D)
    (hp : TrHistory.proverRun ltP (fun (p : LPoly F) => p.label) (fun lp z => evalLP tp.pp lp (ι z))
      (fun ts z => openF ro tp ts (ι z)) polys sts comms ops s = .ok (πs, s')) :
    TrHistory.verifierRun ltP (fun (c : LComm D) => c.label) (fun cs z => checkF ro tp cs (ι z))
      vcomms vops πs s = .ok (true, s') := by
  obtain ⟨sv', hv, hR⟩ := TrHistory.history_lockstep ltP (fun (p : LPoly F) => p.label)
    (fun (c : LComm D) => c.label) (fun lp z => evalLP tp.pp lp (ι z)) (GoodTrips tp.pp ι)
    polys sts comms vcomms hlt hirr
    (fun ts z => openF ro tp ts (ι z)) (fun cs z => checkF ro tp cs (ι z)) (fun sp sv => sp = sv)
    (openF_checkF_complete ro tp ι)
    (TrHistory.htrip_of_length _ polys sts comms hlen1 hlen2)
    (fun ls ts h t ht => hhonest t (TrHistory.gatherOpen_mem _ _ ls ts h t ht))
    hcm ops vops ht s s πs s' rfl hp
  rw [hv, hR]

/-! ### (c) displaced proofs -/

/-- **A proof checked at another history: the explicit condition.**  `check` accepts at history
`s₂` iff the transcript derived THERE — coefficients `r'` and column positions `idx'` — puts the
statement and the proof in the published relation of C10 (`C10.LinCodeRelation`). -/
theorem lincode_displaced_iff (ro : TRO F D) (tp : TParams F D) (point : Point F) (c : Comm D)
    (value : F) (π : Proof F D) (s₂ : TLog F D) :
    (∃ s₂', checkOneT ro tp point c value π s₂ = .ok (true, s₂')) ↔
      ∃ t r' idx' s₂', tp.tOf c.nExtCols = .ok t ∧
        transcriptOne ro c.nRows c.nExtCols t c.root (usedWf tp.pp.checkWf π.wf) point.toVec
          π.opening.v s₂ = .ok (r', idx', s₂') ∧
        C10.LinCodeRelation tp.pp point c value π ⟨r', idx'⟩ := by
  constructor
  · rintro ⟨s₂', h⟩
    obtain ⟨t, r, idx, h1, h2, h3⟩ := (checkOneT_ok_iff ro tp point c value π s₂ true s₂').1 h
    exact ⟨t, r, idx, s₂', h1, h2, (C10.lincode_check_one_iff_relation _ _ _ _ _ _).1 h3⟩
  · rintro ⟨t, r, idx, s₂', h1, h2, h3⟩
    exact ⟨s₂', (checkOneT_ok_iff ro tp point c value π s₂ true s₂').2
      ⟨t, r, idx, h1, h2, (C10.lincode_check_one_iff_relation _ _ _ _ _ _).2 h3⟩⟩

/-- **Displaced, other column positions ⇒ refused.**  The honest proof made at history `s` (column
positions `idx`) checked at a history `s₂` where the transcript yields positions `idx'` that differ
from `idx` at some place `j`: `check` returns an error — never a verdict, whatever the polynomial
(constant or not): the `j`-th Merkle path sits at position `idx[j]` (`C02.lincode_other_positions_refused`). -/
theorem lincode_displaced_positions_refused (ro : TRO F D) (tp : TParams F D) (point : Point F)
    (coeffs : List F) (E : List F → List F) (k : Nat) (s : TLog F D) (π : Proof F D) (s' : TLog F D)
    (ho : openOneT ro tp point (commitC tp.pp coeffs E k) (commitSt tp.pp coeffs E k) s = .ok (π, s'))
    (value : F) (s₂ : TLog F D) (t : Nat) (ht : tp.tOf k = .ok t)
    (r : List F) (idx : List Nat) (s1 : TLog F D)
    (h1 : transcriptOne ro (coeffMat tp.pp.dims coeffs).n k t
        (merkleRoot tp.pp.hs (leavesOf tp.pp (extOf tp.pp coeffs E k))) π.wf point.toVec
        π.opening.v s = .ok (r, idx, s1))
    (r' : List F) (idx' : List Nat) (s2 : TLog F D)
    (h2 : transcriptOne ro (coeffMat tp.pp.dims coeffs).n k t
        (merkleRoot tp.pp.hs (leavesOf tp.pp (extOf tp.pp coeffs E k))) π.wf point.toVec
        π.opening.v s₂ = .ok (r', idx', s2))
    (j q q' : Nat) (hq : idx[j]? = some q) (hq' : idx'[j]? = some q') (hne : q ≠ q')
    (b : Bool) (s₂' : TLog F D) :
    checkOneT ro tp point (commitC tp.pp coeffs E k) value π s₂ ≠ .ok (b, s₂') := by
  intro hc
  obtain ⟨t0, r0, idx0, ab, ht0, hten, hπ, hidx, htr, hu⟩ := openOneT_honest ro tp point coeffs E k s π s' ho
  rw [ht] at ht0
  cases ht0
  rw [h1] at htr
  simp only [Except.ok.injEq, Prod.mk.injEq] at htr
  obtain ⟨rfl, rfl, _⟩ := htr
  obtain ⟨t', r'', idx'', ht', htr', hck⟩ := (checkOneT_ok_iff ro tp point _ value π s₂ b s₂').1 hc
  simp only [commitC] at ht' htr'
  rw [ht] at ht'
  cases ht'
  rw [hu, h2] at htr'
  simp only [Except.ok.injEq, Prod.mk.injEq] at htr'
  obtain ⟨rfl, rfl, _⟩ := htr'
  rw [hπ] at hck
  obtain ⟨e, he⟩ := C02.lincode_other_positions_refused tp.pp point coeffs E k ab.2 ⟨r, idx⟩ ⟨r', idx'⟩
    value (commitC tp.pp coeffs E k) j q q' hq hq' hne
  rw [he] at hck
  cases hck

/-- **Displaced, same positions but other well-formedness coefficients: exact condition.**  When the
transcript at `s₂` happens to yield the same positions `idx` but coefficients `r'` (the squeeze of
`r` comes right after the root, so it changes with the prior history): accepted iff
`(r' − r)·M_ext[:, q] = 0` on every opened column `q` (flag on), the value is the claimed one, and
(fix D23) the vectors of `tensor` have the lengths of the matrix, i.e. the point has the right number
of coordinates.  With the flag off nothing but the positions binds the proof to the transcript. -/
theorem lincode_displaced_coefficients_iff (pp : Params F D) (point : Point F) (coeffs : List F)
    (E : List F → List F) (k : Nat) (h : Encodes pp coeffs E k) (a b r r' : List F) (idx : List Nat)
    (value : F)
    (ht : tensor point (coeffMat pp.dims coeffs).m (coeffMat pp.dims coeffs).n = .ok (a, b))
    (hi : ∀ i ∈ idx, i < k) :
    checkOne pp point (commitC pp coeffs E k) value (honestProof pp coeffs E k b ⟨r, idx⟩) ⟨r', idx⟩
        = .ok true ↔
      a.length = (coeffMat pp.dims coeffs).m ∧ b.length = (coeffMat pp.dims coeffs).n ∧
      (pp.checkWf = true → ∀ q ∈ idx, dot r' (colOf (extOf pp coeffs E k).rows q)
        = dot r (colOf (extOf pp coeffs E k).rows q)) ∧
      dot (vecMat b (coeffMat pp.dims coeffs).rows (coeffMat pp.dims coeffs).m) a = value :=
  honest_other_coefficients_iff pp point coeffs E k h a b r r' idx value ht hi

/-- **The oracle is asked at another history**: when the verifier's prior history differs from the
prover's, every query of the opening (`r`, each position) is made at a different history, since both
append the same events to different prefixes. -/
theorem lincode_displaced_query_differs (s s₂ : TLog F D) (evs : TLog F D) (hne : s₂ ≠ s) :
    s₂ ++ evs ≠ s ++ evs := fun h => hne (List.append_cancel_right h)

/-! ### non-vacuity (K = ZMod 101; data in `PCV.Proofs.LinCodeTranscriptEx`: toy code, `t = 3`) -/

/-- one opening with the well-formedness check: 11 events on both sides, accepted -/
example : ∃ π s', openOneT TEx.ro (TEx.tp true) (.uni 5) (commitC (toyPP true) [1, 2, 3] toyE 4)
      (commitSt (toyPP true) [1, 2, 3] toyE 4) [] = .ok (π, s') ∧
    checkOneT TEx.ro (TEx.tp true) (.uni 5) (commitC (toyPP true) [1, 2, 3] toyE 4)
      (claimed (toyPP true) (.uni 5) [1, 2, 3]) π [] = .ok (true, s') ∧ s'.length = 11 := by
  have hok : (match openOneT TEx.ro (TEx.tp true) (.uni 5) (commitC (toyPP true) [1, 2, 3] toyE 4)
      (commitSt (toyPP true) [1, 2, 3] toyE 4) [] with
      | .ok x => decide (x.2.length = 11) | .error _ => false) = true := by decide
  cases h : openOneT TEx.ro (TEx.tp true) (.uni 5) (commitC (toyPP true) [1, 2, 3] toyE 4)
      (commitSt (toyPP true) [1, 2, 3] toyE 4) [] with
  | error e => simp [h] at hok
  | ok r =>
    obtain ⟨π, s'⟩ := r
    simp only [h, decide_eq_true_eq] at hok
    exact ⟨π, s', rfl, lincode_open_check_lockstep_one _ _ _ _ toyE 4 (toy_encodes true _ (by decide))
      (pointFits_uni _ _ _) _ _ _ h, hok⟩
/-- … and without it: 9 events -/
example : (match openOneT TEx.ro (TEx.tp false) (.uni 5) (commitC (toyPP false) [1, 2, 3] toyE 4)
      (commitSt (toyPP false) [1, 2, 3] toyE 4) [] with
    | .ok (π, s') => decide (checkOneT TEx.ro (TEx.tp false) (.uni 5) (commitC (toyPP false) [1, 2, 3] toyE 4)
        (evalPoly [1, 2, 3] 5) π [] = .ok (true, s') ∧ s'.length = 9)
    | .error _ => false) = true := by decide
example : Encodes (toyPP true) [1, 2, 3] toyE 4 := toy_encodes true _ (by decide)

/-- a three-operation history (`open`, `batch_open` over two point labels, `open_combinations`) on
one sponge: six openings, 66 events … -/
example : TEx.proverOut = .ok (TEx.histProofs, TEx.histLog) ∧ TEx.histLog.length = 66 :=
  ⟨TEx.prover_eq, TEx.histLog_length⟩
/-- … and the verifier accepts everything and ends with the same 66 events -/
example : TrHistory.verifierRun TEx.ltPt (fun (c : LComm Nat) => c.label) (checkF TEx.ro (TEx.tp true))
    (TEx.comms true) TEx.vops TEx.histProofs [] = .ok (true, TEx.histLog) := TEx.verifier_eq
/-- the hypotheses of `lincode_history_lockstep` on that history (point type `Point K`, `ι = id`:
univariate and multilinear points alike fit the `2 × 2` matrices) -/
example : QS.StrictTotal TEx.ltPt ∧ (∀ a, TEx.ltPt a a = false) ∧
    GoodTrips (toyPP true) (id : Point K → Point K) (polyStComm TEx.polys (TEx.sts true) (TEx.comms true)) :=
  ⟨TEx.ltPt_strict, TEx.ltPt_irrefl, TEx.good true⟩
/-- a univariate point fits every width, a multilinear point does not fit a width of 3 -/
example : PointFits (Point.uni (5 : K)) 3 2 ∧ ¬ PointFits (Point.ml ([3, 8] : List K)) 3 2 :=
  ⟨pointFits_uni _ _ _, fun h => absurd ((pointFits_ml_iff _ _ _).1 h) (by decide)⟩
example : List.Forall₂ (TrHistory.Truthful TEx.ltPt (fun (p : LPoly K) => p.label) (evalLP (toyPP true))
    (GoodTrips (toyPP true) (id : Point K → Point K)) TEx.polys (TEx.sts true) (TEx.comms true)) TEx.ops TEx.vops := by
  refine .cons ?_ (.cons ?_ (.cons ?_ .nil))
  · refine ⟨fun t ht => TEx.good true t (List.mem_of_mem_take ht), by decide, rfl, by decide⟩
  · refine ⟨rfl, ?_⟩
    have key : ∀ g ∈ TraitDefault.groups (TraitDefault.querySet TEx.ltPt
          [([97], ([120], Point.uni (5 : K))), ([98], ([120], .uni 5)), ([98], ([121], .uni 6))]), ∀ l ∈ g.2.2,
        (Marlin.lookupLast (fun (t : (LPoly K × State K Nat) × LComm Nat) => t.1.1.label) l
          (polyStComm TEx.polys (TEx.sts true) (TEx.comms true))).all (fun t =>
            decide (QS.lastWith (l, g.2.1)
              [((([97] : Label), Point.uni (5 : K)), evalPoly ([1, 2, 3] : List K) 5),
               (([98], .uni 5), evalPoly [4, 0, 0, 5] 5), (([98], .uni 6), evalPoly [4, 0, 0, 5] 6)]
              = some (evalLP (toyPP true) t.1.1 g.2.1))) = true := by decide
    intro g hg l hl t ht
    have := key g hg l hl
    rw [ht] at this
    simpa using this
  · refine ⟨rfl, rfl, ?_, by decide, ?_⟩
    · intro q hq q' hq' _
      simp only [List.mem_cons, List.not_mem_nil, or_false] at hq hq'
      rw [hq, hq']
    · intro q hq lc hlc
      simp only [List.mem_cons, List.not_mem_nil, or_false] at hq
      subst hq
      have : lc = ⟨[101], [(2, .poly [97]), (5, .poly [98]), (1, .one)]⟩ := by
        have h' : TraitDefault.lcGet [(⟨[101], [(2, .poly [97]), (5, .poly [98]), (1, .one)]⟩ : LC.LinComb K)] [101]
            = some ⟨[101], [(2, .poly [97]), (5, .poly [98]), (1, .one)]⟩ := by decide
        rw [h'] at hlc
        exact (Option.some.inj hlc).symm
      subst this
      decide

/-- a displaced proof with the well-formedness check: the proof made at the empty history has
positions `[1, 3, 1]`; at a history with one more event the transcript gives `[2, 0, 2]` — the
hypotheses of `lincode_displaced_positions_refused` — and `check` refuses -/
example : (match openOneT TEx.ro (TEx.tp true) (.uni 5) (commitC (toyPP true) [1, 2, 3] toyE 4)
      (commitSt (toyPP true) [1, 2, 3] toyE 4) [] with
    | .ok (π, _) =>
      decide ((transcriptOne TEx.ro 2 4 3 (commitC (toyPP true) [1, 2, 3] toyE 4).root π.wf [5] π.opening.v []).map
          (·.2.1) = .ok [1, 3, 1] ∧
        (transcriptOne TEx.ro 2 4 3 (commitC (toyPP true) [1, 2, 3] toyE 4).root π.wf [5] π.opening.v
          [.squeezeField 1]).map (·.2.1) = .ok [2, 0, 2] ∧
        checkOneT TEx.ro (TEx.tp true) (.uni 5) (commitC (toyPP true) [1, 2, 3] toyE 4)
          (evalPoly [1, 2, 3] 5) π [.squeezeField 1] = .error .invalidCommitment)
    | .error _ => false) = true := by decide
/-- without the well-formedness check only the positions bind the proof: at a history where the
oracle happens to give the same positions `[3, 1, 3]` the displaced proof is accepted (consistent
with `lincode_displaced_coefficients_iff`), at another one it is refused -/
example : (match openOneT TEx.ro (TEx.tp false) (.uni 5) (commitC (toyPP false) [1, 2, 3] toyE 4)
      (commitSt (toyPP false) [1, 2, 3] toyE 4) [] with
    | .ok (π, _) =>
      decide ((checkOneT TEx.ro (TEx.tp false) (.uni 5) (commitC (toyPP false) [1, 2, 3] toyE 4)
          (evalPoly [1, 2, 3] 5) π [.squeezeField 1, .squeezeField 1, .squeezeField 1, .squeezeField 1]).map (·.1)
            = .ok true ∧
        checkOneT TEx.ro (TEx.tp false) (.uni 5) (commitC (toyPP false) [1, 2, 3] toyE 4)
          (evalPoly [1, 2, 3] 5) π [.squeezeField 1] = .error .invalidCommitment)
    | .error _ => false) = true := by decide
example : tensor (Point.uni (5 : K)) 2 2 = .ok (tensorUni 5 2 2) ∧ (∀ i ∈ [1, 3, 1], i < 4) := by decide

end PCV.C11
