/-
  Property C01 — completeness: honest proofs of true evaluation claims are always accepted.
  Only property theorems live here; lemmas are in PCV/Proofs.
-/
import PCV.Proofs.KZG10
import PCV.Props.Examples

namespace PCV.C01
open PCV
variable {F : Type} [Field F] [DecidableEq F]

/-- **KZG10.** For a key made from any trapdoor `β` and generators `g, γ, h` (any sizes `n, m`),
any polynomial `p`, hiding bound, RNG stream and point `z`: if the committer returns
`(c, r)` and the prover returns `π`, the verifier accepts the true value `p(z)`. -/
theorem kzg10_complete (g γ β h : F) (n m : Nat) (p : List F) (hb : Option Nat)
    (rng : Bool) (draws : List F) (c : F) (r rest : List F) (z : F) (π : KZG.Proof F)
    (hc : KZG.commit (KZG.wfPowers g γ β n m) p hb rng draws = .ok (c, r, rest))
    (ho : KZG.open (KZG.wfPowers g γ β n m) p z r = .ok π) :
    KZG.check (KZG.wfVK g γ β h) c z (evalPoly p z) π = true :=
  KZG.commit_open_check_complete g γ β h n m p hb rng draws c r rest z π hc ho

/-- **KZG10.** The prover never refuses or aborts on a polynomial the committer accepted. -/
theorem kzg10_open_total (pw : KZG.Powers F) (p : List F) (hb : Option Nat) (rng : Bool)
    (draws : List F) (x : F × List F × List F) (z : F)
    (hc : KZG.commit pw p hb rng draws = .ok x) : ∃ π, KZG.open pw p z x.2.1 = .ok π :=
  KZG.open_ok_of_commit pw p hb rng draws x z hc

/-- **KZG10 batch.** A batch in which every individual claim verifies is accepted by
`batch_check` for every list of verifier randomizers. -/
theorem kzg10_batch_complete (vk : KZG.VK F) (cs zs vs : List F) (πs : List (KZG.Proof F))
    (rs : List F) (hl : cs.length = zs.length ∧ cs.length = vs.length ∧ cs.length = πs.length)
    (h : ∀ d ∈ KZG.defects vk cs zs vs πs, d = 0) :
    KZG.batchCheck vk cs zs vs πs rs = .ok true :=
  KZG.batch_accepts_of_all vk cs zs vs πs rs hl h

/-- non-vacuity: a hiding commitment and its opening exist in the model (over `ZMod 101`) -/
example : KZG.commit (KZG.wfPowers (3 : K) 5 2 3 4) [1, 2, 3] (some 1) true [7, 0, 9, 4]
    = .ok (64, [7, 0, 9], [4]) := by decide
example : KZG.open (KZG.wfPowers (3 : K) 5 2 3 4) [1, 2, 3] 5 [7, 0, 9] = .ok ⟨81, some 30⟩ := by
  decide
example : KZG.check (KZG.wfVK (3 : K) 5 2 1) 64 5 (evalPoly [1, 2, 3] 5) ⟨81, some 30⟩ = true := by
  decide

end PCV.C01
