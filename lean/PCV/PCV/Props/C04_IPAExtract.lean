/-
  Property C04 — inner-product argument, degree bounds against an ALGEBRAIC forger.  Lemmas:
  PCV/Proofs/IPAExtract.lean, PCV/Proofs/DegreeBound.lean.  A commitment presented under the bound `b` consists of
  a plain part `⟨p, G⟩` and a shifted part `⟨q, G⟩`; the verifier combines them with two challenges `ξ`, `ξ′` and
  the values `v`, `v·z^{s−b}`.  The trichotomy of `C03_IPAExtract` then reads: a discrete-log relation between
  the generators, or `ξ·(p(z) − v) + ξ′·(q(z) − v·z^{s−b}) = 0`, or an exceptional round challenge.  For a `p`
  that really exceeds the bound, `(p(z) − v, q(z) − v·z^{s−b}) ≠ (0, 0)` for all but few evaluation points
  whatever `q` and `v` are, so the middle case pins the ratio `ξ′/ξ` to a single value.
-/
import PCV.Proofs.IPAExtract
import PCV.Proofs.DegreeBound
import PCV.Props.Examples

set_option linter.unusedSectionVars false

namespace PCV.C04
open PCV
variable {F : Type} [Field F] [DecidableEq F]

/-- **IPA, algebraic forger against `check`, one commitment under the degree bound `b`** (non-hiding proof).
Plain part `⟨p, G⟩`, shifted part `⟨q, G⟩`, the proof's `L`s and `R`s given by representations over
`(G, h′)`.  If `check` answers `Ok(true)`: a non-trivial linear relation between the generators, or
`ξ·p(z) + ξ′·q(z) = ξ·v + ξ′·v·z^{s−b}`, or a round challenge that is a root of a non-zero quadratic fixed
before it was drawn. -/
theorem ipa_bounded_algebraic_forgery_trichotomy (vk : IPA.VK F) (c : IPA.LComm F) (b : Nat) (sc : F)
    (p q : List F) (z v : F) (π : IPA.Proof F) (Ls Rs : List (List F × F)) (ξ ξ' ξ'' : F) (ξs ros : List F)
    (hbound : c.bound = some b) (hshift : c.comm.shifted = some sc) (hb : b ≤ IPA.supportedDegree vk)
    (hcomm : c.comm.comm = dot vk.commKey p) (hsc : sc = dot vk.commKey q)
    (hhc : π.hidingComm = none) (hrand : π.rand = none)
    (hL : π.lVec = Ls.map (IPA.repVal vk.commKey (vk.h * ros.headD 0)))
    (hR : π.rVec = Rs.map (IPA.repVal vk.commKey (vk.h * ros.headD 0)))
    (hacc : IPA.check vk [c] z [v] π (ξ :: ξ' :: ξ'' :: ξs) ros = .ok true) :
    ∃ r ξr ror, IPA.succinctRun vk [c] z [v] π (ξ :: ξ' :: ξ'' :: ξs) ros = .ok (r, ξr, ror) ∧
      r.ξ₀ = ros.headD 0 ∧
      r.V = ξ * v + ξ' * v * fpow z (IPA.supportedDegree vk - b) ∧
      (((∃ i, (IPA.relG (padd (pscale ξ p) (pscale ξ' q), 0) Ls Rs r.us π.c).getD i 0 ≠ 0)
            ∨ IPA.relH (padd (pscale ξ p) (pscale ξ' q), 0) r.V Ls Rs r.us π.c z ≠ 0) ∧
          IPA.repVal vk.commKey (vk.h * r.ξ₀)
            (IPA.relG (padd (pscale ξ p) (pscale ξ' q), 0) Ls Rs r.us π.c,
             IPA.relH (padd (pscale ξ p) (pscale ξ' q), 0) r.V Ls Rs r.us π.c z) = 0
        ∨ ξ * (evalPoly p z - v) + ξ' * (evalPoly q z - v * fpow z (IPA.supportedDegree vk - b)) = 0
        ∨ ∃ i, i < r.us.length ∧ i < Ls.length ∧ i < Rs.length ∧
            (IPA.slack z (padd (pscale ξ p) (pscale ξ' q), (0 : F)) - r.V)
              + IPA.lrSum ((Ls.map (IPA.slack z)).take i) ((Rs.map (IPA.slack z)).take i) (r.us.take i) ≠ 0 ∧
            (Rs.map (IPA.slack z)).getD i 0 * r.us.getD i 0 ^ 2
              + ((IPA.slack z (padd (pscale ξ p) (pscale ξ' q), (0 : F)) - r.V)
                  + IPA.lrSum ((Ls.map (IPA.slack z)).take i) ((Rs.map (IPA.slack z)).take i) (r.us.take i))
                * r.us.getD i 0
              + (Ls.map (IPA.slack z)).getD i 0 = 0) := by
  obtain ⟨_, r, ξr, ror, hr, d1, d2⟩ := (IPA.check_iff _ _ _ _ _ _ _).1 hacc
  obtain ⟨C, ros2, hacc', hadj, hvr⟩ := IPA.succinctRun_parts vk [c] z [v] π ξ _ ros r ξr ror hr
  have hloop : IPA.accLoop vk z [c] [v] ξ (ξ' :: ξ'' :: ξs) 0 0
      = .ok ((0 + c.comm.comm * ξ + sc * ξ',
              0 + ξ * v + ξ' * v * fpow z (IPA.supportedDegree vk - b)), ξs) := by
    simp [IPA.accLoop, IPA.accStep, hbound, hshift, Nat.not_lt.2 hb]
  rw [hloop] at hacc'
  injection hacc' with hacc'
  injection hacc' with hCV _
  injection hCV with hCeq hVeq
  have hadj' : IPA.hidingAdjust vk π C ros = .ok (C, ros) := by
    simp [IPA.hidingAdjust, hhc, hrand]
  rw [hadj'] at hadj
  injection hadj with hadj
  injection hadj with hCr hros
  have hξ₀ : r.ξ₀ = ros.headD 0 := by rw [hros]; rfl
  have hV : r.V = ξ * v + ξ' * v * fpow z (IPA.supportedDegree vk - b) := by rw [← hVeq]; ring
  have hCrep : r.C = IPA.repVal vk.commKey (vk.h * r.ξ₀) (padd (pscale ξ p) (pscale ξ' q), 0) := by
    rw [← hCr, ← hCeq, hcomm, hsc]
    unfold IPA.repVal
    rw [IPA.dot_padd_right, IPA.dot_pscale_right, IPA.dot_pscale_right]
    ring
  obtain ⟨hlrsum, hus⟩ := IPA.verifyRounds_sound _ _ _ _ _ _ hvr
  have hlr : r.lr = IPA.repVal vk.commKey (vk.h * r.ξ₀) (IPA.lrRep Ls Rs r.us) := by
    rw [hlrsum, IPA.repVal_lrRep, hL, hR, hξ₀]
  have hslack : IPA.slack z (padd (pscale ξ p) (pscale ξ' q), (0 : F))
      = ξ * evalPoly p z + ξ' * evalPoly q z := by
    unfold IPA.slack
    rw [eval_padd, eval_pscale, eval_pscale]
    ring
  have := IPA.algebraic_trichotomy vk z π r (padd (pscale ξ p) (pscale ξ' q), 0) Ls Rs hCrep hlr hus d1 d2
  refine ⟨r, ξr, ror, hr, hξ₀, hV, ?_⟩
  rcases this with h | h | h
  · exact Or.inl h
  · right; left
    rw [hslack, hV] at h
    linear_combination h
  · exact Or.inr (Or.inr h)

/-- **IPA, the bound is enforced.**  If `p` has a non-zero coefficient above `b`, then — whatever shifted
representation `q` with at most `s+1` coefficients the committer chose beforehand — for all but at most
`max(|q|, s−b+|p|) − 1` evaluation points `z` and for every claimed value `v`, the pair
`(p(z) − v, q(z) − v·z^{s−b})` is not `(0, 0)`: the middle case of the trichotomy then holds for at most one
ratio of the two statement challenges. -/
theorem ipa_degree_bound_sound (p q : List F) (s b : Nat) (hb : b ≤ s) (hq : q.length ≤ s + 1)
    (hp : ∃ i, b < i ∧ coeff p i ≠ 0) :
    ∃ S : Finset F, S.card ≤ max q.length (s - b + p.length) - 1 ∧
      ∀ z, z ∉ S → ∀ v : F, ¬ (evalPoly p z - v = 0 ∧ evalPoly q z - v * fpow z (s - b) = 0) := by
  obtain ⟨S, hcard, hS⟩ := DegreeBound.bound_violation_few_points q p s b hb hq hp
  refine ⟨S, hcard, ?_⟩
  intro z hz v
  rintro ⟨h1, h2⟩
  apply hS z hz
  have hv : v = evalPoly p z := (sub_eq_zero.1 h1).symm
  rw [hv] at h2
  linear_combination h2

/-- … and a non-zero pair pins the challenge ratio: `ξ·A + ξ′·B = 0` with `B ≠ 0` gives `ξ′ = −ξ·A/B`; with
`B = 0`, `A ≠ 0` it forces `ξ = 0`. -/
theorem ipa_bound_challenge_pinned (A B ξ ξ' : F) (hAB : ¬ (A = 0 ∧ B = 0)) (h : ξ * A + ξ' * B = 0) :
    (B ≠ 0 ∧ ξ' = -(ξ * A) / B) ∨ (B = 0 ∧ ξ = 0) := by
  by_cases hB : B = 0
  · right
    refine ⟨hB, ?_⟩
    rw [hB, mul_zero, add_zero] at h
    rcases mul_eq_zero.1 h with h1 | h1
    · exact h1
    · exact absurd ⟨h1, hB⟩ hAB
  · left
    refine ⟨hB, ?_⟩
    rw [eq_div_iff hB]
    linear_combination h

-- non-vacuity: `p = 1 + 2X + 3X²` under the bound 1 with `s = 3`
example : evalPoly ([0, 0, 1, 2] : List K) 5 ≠ fpow 5 2 * evalPoly [1, 2, 3] 5 ∧
    coeff ([1, 2, 3] : List K) 2 ≠ 0 := by decide

end PCV.C04
