/-
  Property C07 — hiding commitments and proofs are blinded with fresh, sufficient randomness:
  MarlinPST13.  The blinding polynomial is `SparsePolynomial::rand(hb + 1, num_vars, rng)`:
  a constant plus, per variable, the degrees `1..hb+1` — `1 + num_vars·(hb+1)` field draws taken
  from the caller's RNG, in that order.
-/
import PCV.Proofs.PST13
import PCV.Proofs.Combinations
import PCV.Props.Examples

set_option synthInstance.maxSize 512

namespace PCV.C07
open PCV PCV.MV PCV.C15Spec
variable {F : Type} [Field F] [DecidableEq F]

/-- **PST13, what a hiding `commit` draws and builds** (arbitrary committer key).  If `commit`
with hiding bound `hb` succeeds: an RNG was supplied; `1 ≤ hb ≤ supported_degree`; exactly
`1 + num_vars·(hb+1)` draws were consumed from the caller's stream and the remainder is handed
back untouched; the blinding polynomial is `from_coefficients_vec` of those draws, in order,
against the terms `1, x₀, …, x₀^(hb+1), x₁, …` (`randTerms`). -/
theorem pst13_blinding_draws (ck : PST.CK F) (p : MVPoly F) (hb : Nat) (rng : Bool)
    (draws : List F) (c : F) (r : MVPoly F) (rest : List F)
    (h : PST.commit ck p (some hb) rng draws = .ok (c, r, rest)) :
    rng = true ∧ 1 ≤ hb ∧ hb ≤ ck.supportedDegree ∧ 1 + ck.numVars * (hb + 1) ≤ draws.length ∧
      r = fromCoeffs (List.zip (draws.take (1 + ck.numVars * (hb + 1)))
            (PST.randTerms (hb + 1) ck.numVars)) ∧
      rest = draws.drop (1 + ck.numVars * (hb + 1)) :=
  PST.commit_some ck p hb rng draws c r rest h

/-- **The terms of the blinding polynomial**: the constant, and for each variable `v < num_vars`
the pure powers `x_v^j`, `1 ≤ j ≤ hb + 1` — `1 + num_vars·(hb+1)` of them, one per draw. -/
theorem pst13_blinding_terms (d l : Nat) :
    (PST.randTerms d l).length = 1 + l * d ∧
    ∀ t, t ∈ PST.randTerms d l ↔ (t = [] ∨ ∃ v j, v < l ∧ j < d ∧ t = [(v, j + 1)]) := by
  constructor
  · unfold PST.randTerms
    simp only [List.length_cons, List.length_flatMap, List.length_map, List.length_range]
    have : ((List.range l).map (fun _ => d)).sum = l * d := by
      induction l with
      | zero => simp
      | succ n ih => rw [List.range_succ, List.map_append, List.sum_append, ih]; simp [Nat.succ_mul]
    omega
  · intro t
    simp only [PST.randTerms, List.mem_cons, List.mem_flatMap, List.mem_range, List.mem_map]
    have hnew : ∀ v j : Nat, Term.new [(v, j + 1)] = [(v, j + 1)] := fun v j =>
      Term.new_of_wf (by simp [Term.wf])
    constructor
    · rintro (rfl | ⟨v, hv, j, hj, rfl⟩)
      · exact Or.inl rfl
      · exact Or.inr ⟨v, j, hv, hj, hnew v j⟩
    · rintro (rfl | ⟨v, j, hv, hj, rfl⟩)
      · exact Or.inl rfl
      · exact Or.inr ⟨v, hv, j, hj, (hnew v j)⟩

/-- **Commitment = plain part + γ-part.** Under a well-formed key the hiding commitment is the
non-hiding commitment of the same polynomial plus `γ·r(β⃗)`, `r` the blinding polynomial. -/
theorem pst13_commitment_split (g γ : F) (β : List F) (ts : List Term) (nv s D m : Nat)
    (p : MVPoly F) (hb : Option Nat) (rng rng' : Bool) (draws draws' : List F)
    (c c0 : F) (r r0 : MVPoly F) (rest rest0 : List F)
    (h : PST.commit (PST.wfCK g γ β ts nv s D m) p hb rng draws = .ok (c, r, rest))
    (h0 : PST.commit (PST.wfCK g γ β ts nv s D m) p none rng' draws' = .ok (c0, r0, rest0)) :
    c0 = g * evalMV p β ∧ c = c0 + γ * evalMV r β := by
  have e := (PST.commit_spec g γ β ts nv s D m p hb rng draws c r rest h).1
  have e0 := (PST.commit_spec g γ β ts nv s D m p none rng' draws' c0 r0 rest0 h0).1
  have hr0 := (PST.commit_none _ p rng' draws' c0 r0 rest0 h0).1
  subst hr0
  simp only [evalMV_nil, mul_zero, add_zero] at e0
  exact ⟨e0, by rw [e, e0]⟩

/-- **Hiding bound `0` is refused** (PST13 only), and so is any bound above the supported degree —
whatever polynomial, RNG and stream. -/
theorem pst13_hiding_zero_refused (ck : PST.CK F) (p : MVPoly F) (hb : Nat) (rng : Bool)
    (draws : List F) (hbad : hb = 0 ∨ ck.supportedDegree < hb) (out : F × MVPoly F × List F) :
    PST.commit ck p (some hb) rng draws ≠ .ok out :=
  PST.commit_hiding_refused ck p hb rng draws hbad out

/-- **No hiding ⇒ no blinding, RNG untouched, no `random_v`.** -/
theorem pst13_no_hiding (ck : PST.CK F) (p : MVPoly F) (rng : Bool) (draws : List F) (c : F)
    (r : MVPoly F) (rest : List F) (h : PST.commit ck p none rng draws = .ok (c, r, rest))
    (nvp nvr : Nat) (z : List F) (ξ : F) (ξs : List F) (π : PST.Proof F)
    (ho : PST.open ck nvp nvr [p] z [r] (ξ :: ξs) = .ok π) :
    r = [] ∧ rest = draws ∧ π.rv = none := by
  obtain ⟨hr, hrest⟩ := PST.commit_none ck p rng draws c r rest h
  subst hr
  refine ⟨rfl, hrest, ?_⟩
  have := (PST.open_random_v ck nvp nvr p [] z ξ ξs π (fun t ht => by simp [termsOf] at ht) ho).1
  rw [this, PST.addScaled_nil_nil]
  simp [isZeroMV]

/-- **`random_v` is the blinding polynomial's value at the point**: for the blinding polynomial `r`
of `commit` and challenge `ξ`, the proof carries `(ξ·r)(z) = ξ·r(z)` — `None` exactly when `ξ·r` is
the zero polynomial. -/
theorem pst13_random_v (g γ : F) (β : List F) (ts : List Term) (nv s D m : Nat) (p : MVPoly F)
    (hb : Option Nat) (rng : Bool) (draws : List F) (c : F) (r : MVPoly F) (rest : List F)
    (nvp nvr : Nat) (z : List F) (ξ : F) (ξs : List F) (π : PST.Proof F)
    (hc : PST.commit (PST.wfCK g γ β ts nv s D m) p hb rng draws = .ok (c, r, rest))
    (ho : PST.open (PST.wfCK g γ β ts nv s D m) nvp nvr [p] z [r] (ξ :: ξs) = .ok π) :
    π.rv = (if isZeroMV (addScaledMV [] ξ r) then none else some (evalMV (addScaledMV [] ξ r) z))
      ∧ PST.rvVal π.rv = ξ * evalMV r z := by
  have hw := (PST.commit_spec g γ β ts nv s D m p hb rng draws c r rest hc).2.1
  exact PST.open_random_v _ nvp nvr p r z ξ ξs π ((polyWf_iff r).1 hw) ho

/-- non-vacuity over `ZMod 101` (two variables, hiding bound 1 ⇒ `1 + 2·2 = 5` draws, the sixth is
handed back): the term order of `rand`, the blinding polynomial from the draws (sorted by
`from_coefficients_vec`), the hiding commitment `35 + 5·69` = plain `35` + γ-part (`r(β⃗) = 69`), and `random_v`;
hiding bound `0` refused; no hiding: nothing drawn, no `random_v` -/
example : PST.randTerms 2 2 = [[], [(0, 1)], [(0, 2)], [(1, 1)], [(1, 2)]] := by decide
example : PST.commit (PST.wfCK (3 : K) 5 [2, 7] (specTerms 2 2) 2 2 2 3)
    [(4, []), (6, [(1, 1)]), (9, [(0, 1), (1, 1)]), (2, [(0, 2)])] (some 1) true [7, 5, 9, 4, 8, 11]
    = .ok (35 + 5 * 69, [(7, []), (4, [(1, 1)]), (5, [(0, 1)]), (8, [(1, 2)]), (9, [(0, 2)])], [11]) := by
  decide
example : PST.commit (PST.wfCK (3 : K) 5 [2, 7] (specTerms 2 2) 2 2 2 3)
    [(4, []), (6, [(1, 1)]), (9, [(0, 1), (1, 1)]), (2, [(0, 2)])] none false [7, 5]
    = .ok (35, [], [7, 5]) := by decide
example : PST.commit (PST.wfCK (3 : K) 5 [2, 7] (specTerms 2 2) 2 2 2 3)
    [(4, []), (6, [(1, 1)])] (some 0) true [7, 5, 9, 4, 8, 11] = .error .hidingBoundZero := by decide
example : PST.open (PST.wfCK (3 : K) 5 [2, 7] (specTerms 2 2) 2 2 2 3) 2 0
    [[(4, []), (6, [(1, 1)]), (9, [(0, 1), (1, 1)]), (2, [(0, 2)])]] [10, 20] [[]] [13]
    = .ok ⟨[60, 7], none⟩ := by decide
example : PST.open (PST.wfCK (3 : K) 5 [2, 7] (specTerms 2 2) 2 2 2 3) 2 2
    [[(4, []), (6, [(1, 1)]), (9, [(0, 1), (1, 1)]), (2, [(0, 2)])]] [10, 20]
    [[(7, []), (4, [(1, 1)]), (5, [(0, 1)]), (8, [(1, 2)]), (9, [(0, 2)])]] [13]
    = .ok ⟨[32, 66], some 36⟩ := by decide
example : (13 : K) * evalMV ([(7, []), (4, [(1, 1)]), (5, [(0, 1)]), (8, [(1, 2)]), (9, [(0, 2)])] : MVPoly K)
    [10, 20] = 36 := by decide

end PCV.C07
