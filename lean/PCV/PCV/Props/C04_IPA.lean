/-
  Property C04 — degree bounds, inner-product-argument scheme: admission at `commit` and `open`
  (`check_degrees_and_bounds`), and the exact effect of presenting a commitment under another
  bound label.
-/
import PCV.Proofs.IPAVerify
import PCV.Props.Examples

set_option linter.unusedSectionVars false

namespace PCV.C04
open PCV
variable {F : Type} [Field F] [DecidableEq F]

/-- **IPA, admission test.** `check_degrees_and_bounds` passes exactly when
`deg p ≤ supported` and, for a bound `d`, `deg p ≤ d ≤ supported`. -/
theorem ipa_admissible_iff (s : Nat) (p : List F) (b : Option Nat) :
    IPA.checkDegreesAndBounds s p b = .ok () ↔
      pdeg p ≤ s ∧ ∀ d, b = some d → pdeg p ≤ d ∧ d ≤ s :=
  IPA.checkDegreesAndBounds_ok_iff s p b

/-- **IPA, inadmissible requests are refused** by the committer (with the admission error) and by
the prover's loop: `deg p > supported`, or a bound below the degree, or a bound above the
supported degree. -/
theorem ipa_inadmissible_refused (ck : IPA.CK F) (p : IPA.LPoly F)
    (h : pdeg p.poly > IPA.supportedDegree ck ∨
      ∃ d, p.bound = some d ∧ (d < pdeg p.poly ∨ d > IPA.supportedDegree ck)) :
    (∃ e, IPA.checkDegreesAndBounds (IPA.supportedDegree ck) p.poly p.bound = .error e ∧
      ∀ rng draws, IPA.commitOne ck p rng draws = .error e) ∧
    ∀ c st ξ ξ' acc, ∃ e, IPA.openStep ck p c st ξ ξ' acc = .error e := by
  have hne : IPA.checkDegreesAndBounds (IPA.supportedDegree ck) p.poly p.bound ≠ .ok () := by
    intro hok
    obtain ⟨h1, h2⟩ := (IPA.checkDegreesAndBounds_ok_iff _ _ _).1 hok
    rcases h with h | ⟨d, hd, h⟩
    · omega
    · obtain ⟨h3, h4⟩ := h2 d hd; omega
  cases hadm : IPA.checkDegreesAndBounds (IPA.supportedDegree ck) p.poly p.bound with
  | ok u => exact absurd hadm hne
  | error e =>
    exact ⟨⟨e, rfl, fun rng draws => IPA.commitOne_admission ck p rng draws e hadm⟩,
      fun c st ξ ξ' acc => IPA.openStep_admission ck p c st ξ ξ' acc e hadm⟩

/-- **IPA, `commit` answers only admissible lists.** -/
theorem ipa_commit_ok_admissible (ck : IPA.CK F) (polys : List (IPA.LPoly F)) (rng : Bool)
    (draws : List F) (x : List (IPA.LComm F) × List (IPA.Rand F) × List F)
    (h : IPA.commit ck polys rng draws = .ok x) :
    ∀ p ∈ polys, pdeg p.poly ≤ IPA.supportedDegree ck ∧
      ∀ d, p.bound = some d → pdeg p.poly ≤ d ∧ d ≤ IPA.supportedDegree ck := fun p hp =>
  (IPA.checkDegreesAndBounds_ok_iff _ _ _).1 (IPA.commit_admission ck rng polys draws x h p hp)

/-- **IPA, the prover's combining loop answers only admissible lists.** -/
theorem ipa_open_ok_admissible (ck : IPA.CK F) (polys : List (IPA.LPoly F))
    (comms : List (IPA.LComm F)) (sts : List (IPA.Rand F)) (cur : F) (ξs : List F)
    (acc : IPA.OpenAcc F) (x : IPA.OpenAcc F × List F)
    (hl1 : polys.length ≤ comms.length) (hl2 : polys.length ≤ sts.length)
    (h : IPA.openLoop ck polys comms sts cur ξs acc = .ok x) :
    ∀ p ∈ polys, pdeg p.poly ≤ IPA.supportedDegree ck ∧
      ∀ d, p.bound = some d → pdeg p.poly ≤ d ∧ d ≤ IPA.supportedDegree ck := fun p hp =>
  (IPA.checkDegreesAndBounds_ok_iff _ _ _).1
    (IPA.openLoop_admission ck polys comms sts cur ξs acc x hl1 hl2 h p hp)

/-- **IPA, mislabelled bound: exact defect.** A commitment made under the bound `d`, presented
under the label `d′` (both within the supported degree): with the oracle outputs held fixed the
combined commitment is unchanged and the combined value moves by `ξ′·v·(z^{s−d′} − z^{s−d})`, so
`defect1` moves by `h′·ξ′·v·(z^{s−d′} − z^{s−d})`, `h′ = ξ₀·h`. -/
theorem ipa_mislabel_defect (vk : IPA.VK F) (c : IPA.LComm F) (d d' : Nat) (sc z v : F)
    (π : IPA.Proof F) (ξ ξ' ξ'' : F) (ξs ros : List F) (r : IPA.Run F) (ξr ror : List F)
    (hb : c.bound = some d) (hs : c.comm.shifted = some sc)
    (hd : d ≤ IPA.supportedDegree vk) (hd' : d' ≤ IPA.supportedDegree vk)
    (hshape : IPA.badShape vk π = false)
    (hr : IPA.succinctRun vk [c] z [v] π (ξ :: ξ' :: ξ'' :: ξs) ros = .ok (r, ξr, ror)) :
    IPA.check vk [⟨c.label, c.comm, some d'⟩] z [v] π (ξ :: ξ' :: ξ'' :: ξs) ros
      = .ok (decide (IPA.defect1 vk z π r + vk.h * r.ξ₀ * (ξ' * v *
                (fpow z (IPA.supportedDegree vk - d') - fpow z (IPA.supportedDegree vk - d))) = 0)
             && decide (IPA.defect2 vk π r.us = 0)) := by
  obtain ⟨h1, h2⟩ := IPA.accStep_relabel vk z c d d' sc v ξ ξ' 0 0 hb hs hd hd'
  have hA : IPA.accLoop vk z [c] [v] ξ (ξ' :: ξ'' :: ξs) 0 0
      = .ok ((0 + c.comm.comm * ξ + sc * ξ',
          0 + ξ * v + ξ' * v * fpow z (IPA.supportedDegree vk - d)), ξs) := by
    rw [IPA.accLoop_single, h1]
  have hB : IPA.accLoop vk z [⟨c.label, c.comm, some d'⟩] [v] ξ (ξ' :: ξ'' :: ξs) 0 0
      = .ok ((0 + c.comm.comm * ξ + sc * ξ' + 0,
          0 + ξ * v + ξ' * v * fpow z (IPA.supportedDegree vk - d)
            + ξ' * v * (fpow z (IPA.supportedDegree vk - d') - fpow z (IPA.supportedDegree vk - d))),
          ξs) := by
    rw [IPA.accLoop_single, h2]; simp only; congr 3 <;> ring
  have hr' := IPA.succinctRun_congr vk [c] _ z [v] [v] π ξ _ ros _ _ 0 _ ξs hA hB r ξr ror hr
  rw [IPA.check_of_run vk _ z _ π _ ros _ ξr ror hshape hr', IPA.defect1_shift, zero_add]

/-- **IPA, mislabelled bound is rejected** whenever the value, the challenges and `h` are non-zero
and the two shifts differ at the point. -/
theorem ipa_mislabel_rejected (vk : IPA.VK F) (c : IPA.LComm F) (d d' : Nat) (sc z v : F)
    (π : IPA.Proof F) (ξ ξ' ξ'' : F) (ξs ros : List F) (r : IPA.Run F) (ξr ror : List F)
    (hb : c.bound = some d) (hs : c.comm.shifted = some sc)
    (hd : d ≤ IPA.supportedDegree vk) (hd' : d' ≤ IPA.supportedDegree vk)
    (hacc : IPA.check vk [c] z [v] π (ξ :: ξ' :: ξ'' :: ξs) ros = .ok true)
    (hr : IPA.succinctRun vk [c] z [v] π (ξ :: ξ' :: ξ'' :: ξs) ros = .ok (r, ξr, ror))
    (hv : v ≠ 0) (hξ' : ξ' ≠ 0) (hξ₀ : r.ξ₀ ≠ 0) (hh : vk.h ≠ 0)
    (hz : fpow z (IPA.supportedDegree vk - d') ≠ fpow z (IPA.supportedDegree vk - d)) :
    IPA.check vk [⟨c.label, c.comm, some d'⟩] z [v] π (ξ :: ξ' :: ξ'' :: ξs) ros = .ok false := by
  obtain ⟨hshape, r', _, _, hr', h1, _⟩ := (IPA.check_iff vk [c] z [v] π _ ros).1 hacc
  rw [hr] at hr'
  injection hr' with hr'; injection hr' with hr' _
  subst hr'
  rw [ipa_mislabel_defect vk c d d' sc z v π ξ ξ' ξ'' ξs ros r ξr ror hb hs hd hd' hshape hr, h1,
    zero_add]
  have : vk.h * r.ξ₀ * (ξ' * v * (fpow z (IPA.supportedDegree vk - d')
      - fpow z (IPA.supportedDegree vk - d))) ≠ 0 :=
    mul_ne_zero (mul_ne_zero hh hξ₀) (mul_ne_zero (mul_ne_zero hξ' hv) (sub_ne_zero.2 hz))
  simp [this]

/-- **IPA, dropped / added shifted part.** A bound label without a shifted commitment, or a
shifted commitment without a bound label, makes the verifier's loop abort (`assert_eq!`). -/
theorem ipa_bound_shifted_mismatch_aborts (vk : IPA.VK F) (c : IPA.LComm F) (cs : List (IPA.LComm F))
    (z v : F) (vs : List F) (π : IPA.Proof F) (ξ ξ' ξ'' : F) (ξs ros : List F)
    (h : c.bound.isSome ≠ c.comm.shifted.isSome) (hshape : IPA.badShape vk π = false) :
    IPA.check vk (c :: cs) z (v :: vs) π (ξ :: ξ' :: ξ'' :: ξs) ros = .error .abort := by
  unfold IPA.check IPA.succinctCheck IPA.succinctRun
  rw [hshape]
  simp only [Bool.false_eq_true, if_false, IPA.accLoop, IPA.accStep_mismatch vk z c v ξ ξ' 0 0 h]

/-- **IPA, the shifted window** (C09/C08): the shifted commitment for the bound `d` is taken over
`comm_key[(supported − d)..]`, i.e. it is the plain commitment to `X^{s−d}·p`. -/
theorem ipa_shifted_window (ck : IPA.CK F) (p : List F) (d : Nat) (ρs : Option F) :
    IPA.shiftedComm ck p d ρs
      = dot (ck.commKey.drop (IPA.supportedDegree ck - d)) p + ck.s * IPA.optVal ρs ∧
    IPA.shiftedComm ck p d ρs
      = dot ck.commKey (pshift (IPA.supportedDegree ck - d) p) + ck.s * IPA.optVal ρs := by
  refine ⟨?_, IPA.shiftedComm_eq ck p d ρs⟩
  unfold IPA.shiftedComm; rw [IPA.cmCommit_eq]

/-! non-vacuity over `ZMod 101` (4-element key): admission outcomes, an accepted bounded
transcript, and the same transcript presented under bound 3 instead of 2 -/
example : IPA.commit (⟨[3, 5, 7, 11], 13, 17, 3⟩ : IPA.CK K) [⟨[1], [1, 2, 3], some 1, none⟩]
    false [] = .error .incorrectBound := by decide
example : IPA.commit (⟨[3, 5, 7, 11], 13, 17, 3⟩ : IPA.CK K) [⟨[1], [1, 2, 3], some 4, none⟩]
    false [] = .error .incorrectBound := by decide
example : IPA.commit (⟨[3, 5, 7, 11], 13, 17, 3⟩ : IPA.CK K) [⟨[1], [1, 2, 3, 4, 5], none, none⟩]
    false [] = .error .tooManyCoefficients := by decide
example : IPA.commit (⟨[3, 5, 7, 11], 13, 17, 3⟩ : IPA.CK K) [⟨[1], [1, 2, 3], some 2, none⟩]
    false [] = .ok ([⟨[1], ⟨34, some 52⟩, some 2⟩], [⟨0, none⟩], []) := by decide
example : IPA.open (⟨[3, 5, 7, 11], 13, 17, 3⟩ : IPA.CK K) [⟨[1], [1, 2, 3], some 2, none⟩]
    [⟨[1], ⟨34, some 52⟩, some 2⟩] 6 [⟨0, none⟩] [2, 3, 4] [8, 9, 10] false []
    = .ok (⟨[77, 46], [96, 17], 96, 58, none, none⟩, [], [], []) := by decide +kernel
example : IPA.check (⟨[3, 5, 7, 11], 13, 17, 3⟩ : IPA.CK K) [⟨[1], ⟨34, some 52⟩, some 2⟩] 6
    [evalPoly [1, 2, 3] 6] ⟨[77, 46], [96, 17], 96, 58, none, none⟩ [2, 3, 4] [8, 9, 10]
    = .ok true := by decide +kernel
example : IPA.check (⟨[3, 5, 7, 11], 13, 17, 3⟩ : IPA.CK K) [⟨[1], ⟨34, some 52⟩, some 3⟩] 6
    [evalPoly [1, 2, 3] 6] ⟨[77, 46], [96, 17], 96, 58, none, none⟩ [2, 3, 4] [8, 9, 10]
    = .ok false := by decide +kernel
example : IPA.check (⟨[3, 5, 7, 11], 13, 17, 3⟩ : IPA.CK K) [⟨[1], ⟨34, some 52⟩, none⟩] 6
    [evalPoly [1, 2, 3] 6] ⟨[77, 46], [96, 17], 96, 58, none, none⟩ [2, 3, 4] [8, 9, 10]
    = .error .abort := by decide +kernel

end PCV.C04
