/-
  Property C02 (evaluation binding, honest proof) — Hyrax.
  `T` = row commitments, `L`/`R` = the tensors of the point, `c` = the sponge challenge.
-/
import PCV.Proofs.Hyrax
import PCV.Props.Examples

namespace PCV.C02
open PCV
variable {F : Type} [Field F] [DecidableEq F]

/-- **Hyrax, exact acceptance condition.** Let `(T, st)` be the commitment of `p` and `π` the honest
proof at `point` made with challenge `ch`. Present `π` for ANY statement: row commitments `T'`
(of the right length), point `point'` (same number of variables), value `v'`, and let the
verifier's sponge give the challenge `c'` (it differs from `ch` as soon as the absorbed statement
differs). `check` accepts iff
* `com_key[0]·(v' − p̃(point)) = 0`   (the evaluation commitment, after the D1 repair),
* `com_key[0]·(⟨R',z⟩ − ⟨R,z⟩) = com_eval·(c' − ch)`   (equation 14),
* `⟨T',L'⟩·c' = ⟨T,L⟩·ch`   (equation 13). -/
theorem hyrax_check_iff (ks : List F) (hh k0 : F) (p : Hyrax.MLPoly F) (ρs T : List F)
    (st : Hyrax.State F) (point : List F) (rEval : F) (d : List F) (rD rB ch : F)
    (π : Hyrax.Proof F) (hn : point.length % 2 = 0) (hk : Hyrax.key0 ks = some k0)
    (hc : Hyrax.commitOne ks hh p ρs = .ok (T, st))
    (ho : Hyrax.openOne ks hh (Hyrax.tensorL point) (Hyrax.tensorR point) st rEval d rD rB ch = .ok π)
    (T' point' : List F) (v' c' : F) (hT : T'.length = 2 ^ (point.length / 2))
    (hp : point'.length = point.length) :
    Hyrax.check ks hh [T'] point' [v'] [π] [c'] = .ok true
      ↔ k0 * (v' - Hyrax.mleEval p.evals point) = 0 ∧
        k0 * (dot (Hyrax.tensorR point') π.z - dot (Hyrax.tensorR point) π.z) = π.comEval * (c' - ch) ∧
        dot T' (Hyrax.tensorL point') * c' = dot T (Hyrax.tensorL point) * ch := by
  obtain ⟨⟨k1, hk1, _, hz, e1, e2, e3⟩, _, _, _⟩ :=
    Hyrax.honest_item_ok ks hh p ρs T st point rEval d rD rB ch π hn hc ho
  rw [hk] at hk1; cases hk1
  rw [Hyrax.check_iff]
  simp only [List.length_cons, List.length_nil, List.zip_cons_cons, List.zip_nil_right,
    List.forall_mem_cons, List.not_mem_nil, hp]
  unfold Hyrax.ItemOK
  simp only [hk, Option.some.injEq, exists_eq_left']
  unfold Hyrax.defectEval at e1 ⊢
  unfold Hyrax.defect14 Hyrax.innerProduct at e2 ⊢
  unfold Hyrax.defect13 at e3 ⊢
  constructor
  · rintro ⟨_, _, _, _, ⟨_, _, f1, f2, f3⟩, _⟩
    refine ⟨?_, ?_, ?_⟩
    · linear_combination e1 - f1
    · linear_combination f2 - e2
    · linear_combination e3 - f3
  · rintro ⟨g1, g2, g3⟩
    refine ⟨by omega, trivial, trivial, by omega, ⟨hT, hz, ?_, ?_, ?_⟩, by simp⟩
    · linear_combination e1 - g1
    · linear_combination e2 + g2
    · linear_combination e3 - g3

/-- **Hyrax, wrong value.** With the honest proof and the honest statement otherwise, the value
`p̃(point) + δ` is rejected (`Ok(false)`) whenever `δ ≠ 0` and `com_key[0]` is not the identity. -/
theorem hyrax_wrong_value_rejected (ks : List F) (hh k0 : F) (p : Hyrax.MLPoly F) (ρs T : List F)
    (st : Hyrax.State F) (point : List F) (rEval : F) (d : List F) (rD rB ch : F)
    (π : Hyrax.Proof F) (hn : point.length % 2 = 0) (hk : Hyrax.key0 ks = some k0)
    (hc : Hyrax.commitOne ks hh p ρs = .ok (T, st))
    (ho : Hyrax.openOne ks hh (Hyrax.tensorL point) (Hyrax.tensorR point) st rEval d rD rB ch = .ok π)
    (δ : F) (hδ : δ ≠ 0) (h0 : k0 ≠ 0) :
    Hyrax.check ks hh [T] point [Hyrax.mleEval p.evals point + δ] [π] [ch] = .ok false := by
  obtain ⟨⟨k1, hk1, _, _, e1, _, _⟩, _, _, _⟩ :=
    Hyrax.honest_item_ok ks hh p ρs T st point rEval d rD rB ch π hn hc ho
  rw [hk] at hk1; cases hk1
  have hne : Hyrax.defectEval k0 hh (Hyrax.mleEval p.evals point + δ) π ≠ 0 := by
    intro h
    unfold Hyrax.defectEval at e1 h
    have : k0 * δ = 0 := by linear_combination e1 - h
    rcases mul_eq_zero.1 this with h | h <;> contradiction
  unfold Hyrax.check
  simp only [List.length_cons, List.length_nil]
  rw [if_neg (by omega), if_neg (by simp)]
  unfold Hyrax.checkLoop Hyrax.preCheck
  simp [hk, hne]

/-- **Hyrax, wrong point: exact defect.** The honest proof for `point`, presented for `point'`
with the same commitment and the same value, is accepted iff
`com_key[0]·⟨R' − R, z⟩ = com_eval·(c' − ch)` and `⟨T,L'⟩·c' = ⟨T,L⟩·ch`. -/
theorem hyrax_wrong_point_iff (ks : List F) (hh k0 : F) (p : Hyrax.MLPoly F) (ρs T : List F)
    (st : Hyrax.State F) (point : List F) (rEval : F) (d : List F) (rD rB ch : F)
    (π : Hyrax.Proof F) (hn : point.length % 2 = 0) (hk : Hyrax.key0 ks = some k0)
    (hc : Hyrax.commitOne ks hh p ρs = .ok (T, st))
    (ho : Hyrax.openOne ks hh (Hyrax.tensorL point) (Hyrax.tensorR point) st rEval d rD rB ch = .ok π)
    (point' : List F) (c' : F) (hp : point'.length = point.length) :
    Hyrax.check ks hh [T] point' [Hyrax.mleEval p.evals point] [π] [c'] = .ok true
      ↔ k0 * (dot (Hyrax.tensorR point') π.z - dot (Hyrax.tensorR point) π.z) = π.comEval * (c' - ch) ∧
        dot T (Hyrax.tensorL point') * c' = dot T (Hyrax.tensorL point) * ch := by
  have hT := (Hyrax.honest_item_ok ks hh p ρs T st point rEval d rD rB ch π hn hc ho).2.1
  rw [hyrax_check_iff ks hh k0 p ρs T st point rEval d rD rB ch π hn hk hc ho T point' _ c' hT hp]
  simp

/-- **Hyrax, wrong commitment.** The honest proof presented with other row commitments `T'`
(e.g. the commitment of another polynomial) is accepted iff `⟨T',L⟩·c' = ⟨T,L⟩·ch`; with the same
challenge and `ch ≠ 0`: iff `⟨T' − T, L⟩ = 0`, a linear condition on the replaced commitments. -/
theorem hyrax_wrong_commitment_iff (ks : List F) (hh k0 : F) (p : Hyrax.MLPoly F) (ρs T : List F)
    (st : Hyrax.State F) (point : List F) (rEval : F) (d : List F) (rD rB ch : F)
    (π : Hyrax.Proof F) (hn : point.length % 2 = 0) (hk : Hyrax.key0 ks = some k0)
    (hc : Hyrax.commitOne ks hh p ρs = .ok (T, st))
    (ho : Hyrax.openOne ks hh (Hyrax.tensorL point) (Hyrax.tensorR point) st rEval d rD rB ch = .ok π)
    (T' : List F) (hT : T'.length = 2 ^ (point.length / 2)) (c' : F) (hcc : π.comEval * (c' - ch) = 0) :
    Hyrax.check ks hh [T'] point [Hyrax.mleEval p.evals point] [π] [c'] = .ok true
      ↔ dot T' (Hyrax.tensorL point) * c' = dot T (Hyrax.tensorL point) * ch := by
  rw [hyrax_check_iff ks hh k0 p ρs T st point rEval d rD rB ch π hn hk hc ho T' point _ c' hT rfl]
  simp [hcc]

/-- **Hyrax, every position of a multi-polynomial statement.** With a fixed list of proofs (in
particular the honest one) at most one vector of values is accepted: changing the claimed value
at ANY position of an accepted statement makes `check` not accept. -/
theorem hyrax_values_unique (ks : List F) (hh k0 : F) (hk : Hyrax.key0 ks = some k0) (h0 : k0 ≠ 0)
    (coms : List (List F)) (point vs vs' : List F) (πs : List (Hyrax.Proof F)) (cs : List F)
    (h1 : Hyrax.check ks hh coms point vs πs cs = .ok true)
    (h2 : Hyrax.check ks hh coms point vs' πs cs = .ok true) : vs = vs' := by
  have a := (Hyrax.check_iff ks hh coms point vs πs cs).1 h1
  have b := (Hyrax.check_iff ks hh coms point vs' πs cs).1 h2
  have a' := (Hyrax.checkLoop_iff ks hh _ _ _ coms vs πs cs a.2.1 a.2.2.1).2 ⟨a.2.2.2.1, a.2.2.2.2⟩
  have b' := (Hyrax.checkLoop_iff ks hh _ _ _ coms vs' πs cs b.2.1 b.2.2.1).2 ⟨b.2.2.2.1, b.2.2.2.2⟩
  exact Hyrax.checkLoop_values_unique ks hh _ _ _ k0 hk h0 πs coms vs vs' cs a.2.1 a.2.2.1 b.2.2.1 a' b'

/-! non-vacuity (over `ZMod 101`): the honest transcript of C01's example, first polynomial -/

example : Hyrax.commitOne ([3, 5] : List K) 7 ⟨2, [1, 2, 3, 4]⟩ [10, 20]
    = .ok ([88, 65], ⟨[10, 20], ⟨2, 2, [[1, 3], [2, 4]]⟩⟩) := by decide
example : Hyrax.openOne ([3, 5] : List K) 7 (Hyrax.tensorL [6, 17]) (Hyrax.tensorR [6, 17])
    ⟨[10, 20], ⟨2, 2, [[1, 3], [2, 4]]⟩⟩ 1 [2, 3] 4 5 11 = .ok ⟨29, 49, 92, [79, 1], 67, 16, 1⟩ := by
  decide
example : Hyrax.check ([3, 5] : List K) 7 [[88, 65]] [6, 17] [Hyrax.mleEval [1, 2, 3, 4] [6, 17] + 1]
    [⟨29, 49, 92, [79, 1], 67, 16, 1⟩] [11] = .ok false := by decide
example : Hyrax.check ([3, 5] : List K) 7 [[88, 65]] [6, 18] [Hyrax.mleEval [1, 2, 3, 4] [6, 17]]
    [⟨29, 49, 92, [79, 1], 67, 16, 1⟩] [11] = .ok false := by decide
example : Hyrax.check ([3, 5] : List K) 7 [[88, 65]] [6, 17] [Hyrax.mleEval [1, 2, 3, 4] [6, 17]]
    [⟨29, 49, 92, [79, 1], 67, 16, 1⟩] [11] = .ok true ∧ Hyrax.key0 ([3, 5] : List K) = some 3 ∧
    (3 : K) ≠ 0 := by decide

end PCV.C02
