/-
  Property C06 (MarlinKZG10) — end to end: `open_combinations` followed by `check_combinations` over an
  arbitrary list of labelled linear combinations and an arbitrary query list is accepted for the true
  combination values.  (Per-combination laws: `Props/C06.lean`.)
-/
import PCV.Proofs.MarlinLCComplete
import PCV.Proofs.MarlinLCShift
import PCV.Props.C01_MarlinBatch
set_option linter.unusedSectionVars false

namespace PCV.C06
open PCV Marlin
variable {F : Type} [Field F] [DecidableEq F]

/-- **Combination openings are complete.**  Keys as `trim` makes them; any honest unbounded triples;
ANY list of combinations with pairwise distinct labels — arbitrary coefficients (zero, negative),
repeated polynomial labels, constant terms, unknown labels excluded by the success of the prover;
ANY query list over the combination labels (several equations per point, one equation at several
points, point labels sharing a point value); claimed values = polynomial part + constants.  Then
whatever `open_combinations` returns is accepted by `check_combinations` for every list of verifier
randomizers — hiding or not: combinations of unbounded polynomials carry no shifted blinding, so the
side condition of `C01.marlin_batch_complete` is vacuous here.  A degree-bounded polynomial
can only appear alone with coefficient one (`marlin_lc_bound_policy`); that combination is the
polynomial itself and `C01.marlin_batch_complete` covers it. -/
theorem marlin_lc_complete {ck : CK F} {vk : VK F} {g γ β h : F} {D n m : Nat}
    (hwf : WF ck vk g γ β h D n m) (l : List (Trip' F))
    (hH : ∀ t ∈ l, Honest g γ β D t ∧ t.1.bound = none) (hL : ∀ t ∈ l, RandLen m t)
    (hlab : ∀ t ∈ l, t.2.2.label = t.1.label)
    (lcs : List (LC.LinComb F)) (hnodup : (lcs.map (·.label)).Nodup)
    (qs : List (Query F)) (evals : List ((Label × F) × F))
    (hev : ∀ gr ∈ groupQueries qs, ∀ lc ∈ lcs, lc.label ∈ gr.2.2 →
      lookupEval evals lc.label gr.2.1
        = some (lcPolyValue l gr.2.1 lc.terms + lcConstant lc))
    (ξs : List F) (πs : List (KZG.Proof F)) (rest : List F)
    (ho : openCombinations ck (l.map (·.1)) (l.map (·.2.1)) (l.map (·.2.2)) lcs qs ξs = .ok (πs, rest))
    (rs : List F) :
    checkCombinations vk (l.map (·.2.2)) lcs qs evals πs ξs rs = .ok true :=
  lc_complete hwf l hH hL hlab lcs hnodup qs evals hev ξs πs rest ho rs

/-- the claimed value in `marlin_lc_complete` is the value of the `LinearCombination` under the
assignment "label ↦ evaluation of the committed polynomial" whenever every label it names is known -/
theorem marlin_lc_claimed_value (trips : List (Trip' F)) (z : F) (lc : LC.LinComb F)
    (hall : ∀ t ∈ lc.terms, ∀ l, t.2 = .poly l →
      (lookupLast (fun (t : Trip' F) => t.1.label) l trips).isSome) :
    lcPolyValue trips z lc.terms + lcConstant lc = LC.value lc (evalAssign trips z) :=
  (lc_value_split trips z lc hall).symm

/-- **A changed claimed value — anywhere, any number of them — is not accepted** except on the explicit
exceptional set: from an accepted combination opening, the claimed values shifted by ANY function `δ`
of (equation label, point) are accepted iff `h · Σₖ ρₖ · ⟨κₖ, dsₖ⟩ = 0` (point labels `k`, verifier
randomizers `ρₖ`, challenge weights `κₖ`, shifts `dsₖ` of the equations queried under label `k`).  A
changed coefficient, constant term or underlying evaluation changes the TRUE value of the equation, i.e.
it is a shift of the claimed value relative to the truth (`marlin_lc_claimed_value`), so all four kinds of
change of the property are instances. -/
theorem marlin_lc_values_iff (vk : VK F) (comms : List (LComm F)) (lcs : List (LC.LinComb F))
    (qs : List (Query F)) (evals : List ((Label × F) × F)) (δ : Label × F → F)
    (πs : List (KZG.Proof F)) (ξs rs : List F) (lcComms : List (LComm F))
    (trip : List (F × F × F)) (rest : List F)
    (hcc : combineAllComm comms lcs = .ok lcComms)
    (hc : combineGroups vk lcComms (adjustEvals lcs evals) (groupQueries qs) ξs = .ok (trip, rest))
    (hlen : πs.length = trip.length)
    (hacc : checkCombinations vk comms lcs qs evals πs ξs rs = .ok true) :
    checkCombinations vk comms lcs qs (shiftEvals δ evals) πs ξs rs = .ok true ↔
      vk.vk.h * KZG.wsum 1 rs
        (groupShifts vk lcComms (adjustEvals lcs evals) δ (groupQueries qs) ξs) = 0 :=
  checkCombinations_shift_iff vk comms lcs qs evals δ πs ξs rs lcComms trip rest hcc hc hlen hacc

/-! non-vacuity over `ZMod 101`: the two polynomials of `C01.exBatch`, the combinations
`a = 2·p₁ − p₂ + 5` and `b = 0·p₁ + p₂`, `a` queried at two points, `b` at one of them -/
def exLCs : List (LC.LinComb K) :=
  [⟨[108, 97], [(2, .poly [97]), (-1, .poly [98]), (5, .one)]⟩,
   ⟨[108, 98], [(0, .poly [97]), (1, .poly [98])]⟩]
def exLCQueries : List (Query K) :=
  [([108, 97], ([112, 48], 5)), ([108, 98], ([112, 48], 5)), ([108, 97], ([112, 49], 9))]
def exLCEvals : List ((Label × K) × K) :=
  [(([108, 97], 5), 2 * evalPoly [1, 2, 3] 5 - evalPoly [4, 0, 1] 5 + 5),
   (([108, 98], 5), evalPoly [4, 0, 1] 5),
   (([108, 97], 9), 2 * evalPoly [1, 2, 3] 9 - evalPoly [4, 0, 1] 9 + 5)]
def exLCProofs : List (KZG.Proof K) :=
  match openCombinations C01.exCK (C01.exBatch.map (·.1)) (C01.exBatch.map (·.2.1))
      (C01.exBatch.map (·.2.2)) exLCs exLCQueries [11, 13, 17, 19] with
  | .ok (πs, _) => πs
  | .error _ => []
example : exLCProofs.length = 2 := by decide
example : checkCombinations C01.exVK (C01.exBatch.map (·.2.2)) exLCs exLCQueries exLCEvals exLCProofs
    [11, 13, 17, 19] [29] = .ok true := by decide
/-- and a wrong claimed value at the second point of `a` is not accepted -/
example : checkCombinations C01.exVK (C01.exBatch.map (·.2.2)) exLCs exLCQueries
    (exLCEvals.map fun e => if e.1 = ([108, 97], 9) then (e.1, e.2 + 1) else e) exLCProofs
    [11, 13, 17, 19] [29] = .ok false := by decide

end PCV.C06
