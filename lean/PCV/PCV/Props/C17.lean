/-
  Property C17 — out-of-domain requests are refused, never answered with a wrong result;
  in-domain requests never abort.
-/
import PCV.Proofs.KZG10Domain
import PCV.Props.Examples

namespace PCV.C17
open PCV
variable {F : Type} [Field F] [DecidableEq F]

/-- **KZG10 commit, outside the domain.** A polynomial larger than the key, a hiding bound without
an RNG, or a hiding bound beyond the published γ-powers ends in an error, never in a commitment. -/
theorem kzg10_commit_refuses (pw : KZG.Powers F) (p : List F) (hb : Option Nat) (rng : Bool)
    (draws : List F) (h : ¬ KZG.InDomainCommit pw p hb rng) :
    ∃ e, KZG.commit pw p hb rng draws = .error e :=
  KZG.commit_refuses pw p hb rng draws h

/-- **KZG10 commit, inside the domain.** The request is answered — no error, no abort
(`hrng`: the caller's RNG eventually yields a non-zero field element). -/
theorem kzg10_commit_ok (pw : KZG.Powers F) (p : List F) (hb : Option Nat) (rng : Bool)
    (draws : List F) (h : KZG.InDomainCommit pw p hb rng)
    (hrng : ∀ hh, hb = some hh → (KZG.randPoly (hh + 1) draws).isSome) :
    ∃ x, KZG.commit pw p hb rng draws = .ok x :=
  KZG.commit_ok pw p hb rng draws h hrng

/-- **KZG10 open.** Refused beyond the key, answered within it. -/
theorem kzg10_open_refuses (pw : KZG.Powers F) (p r : List F) (z : F)
    (h : pdeg p + 1 > pw.g.length) : KZG.open pw p z r = .error .tooManyCoefficients :=
  KZG.open_refuses pw p r z h

theorem kzg10_open_ok (pw : KZG.Powers F) (p r : List F) (z : F)
    (h : ¬ (pdeg p + 1 > pw.g.length)) : ∃ π, KZG.open pw p z r = .ok π :=
  KZG.open_ok pw p r z h

/-- **KZG10 batch_check.** Slices of different lengths are refused. -/
theorem kzg10_batch_shape_refused (vk : KZG.VK F) (cs zs vs : List F) (πs : List (KZG.Proof F))
    (rs : List F)
    (hl : ¬ (cs.length = zs.length ∧ cs.length = vs.length ∧ cs.length = πs.length)) :
    KZG.batchCheck vk cs zs vs πs rs = .error .incorrectInputLength :=
  KZG.batchCheck_shape vk cs zs vs πs rs hl

/-- non-vacuity: both sides of the boundary are inhabited -/
example : KZG.InDomainCommit (KZG.wfPowers (3 : K) 5 2 3 4) [1, 2, 3] (some 1) true := by decide
example : ¬ KZG.InDomainCommit (KZG.wfPowers (3 : K) 5 2 3 4) [1, 2, 3, 4] none true := by decide
example : ¬ KZG.InDomainCommit (KZG.wfPowers (3 : K) 5 2 3 4) [1, 2, 3] (some 3) true := by decide
example : ¬ KZG.InDomainCommit (KZG.wfPowers (3 : K) 5 2 3 4) [1, 2, 3] (some 1) false := by decide

end PCV.C17
