/-
  Property C06 (linear-combination openings prove exactly the stated combinations) — the trait-default
  `check_combinations` of `poly-commit/src/lib.rs` (Hyrax, Ligero, Brakedown).  Model:
  `PCV.Model.TraitDefault`.  Only property theorems live here; lemmas are in PCV/Proofs/TraitDefault*.lean.
-/
import PCV.Proofs.TraitDefaultComplete
import PCV.Proofs.TraitDefaultToy
set_option linter.unusedSectionVars false

namespace PCV.C06
open PCV TraitDefault
variable {Pt : Type} [DecidableEq Pt] {F : Type} [Field F] [DecidableEq F] {C PF σ : Type}

/-- **The default `check_combinations` accepts iff** the proof carries evaluations and, with `pe` the
pairing of those evaluations with the sorted `(polynomial, point)` keys of the derived polynomial query
set: (1) for EVERY queried equation the equation is supplied, each of its polynomial terms has a
transmitted evaluation at the query's point, and the claimed value equals
`Σ coeff·eval + Σ constants` (`LC.termsValue`: arbitrary coefficients, repeated labels, `LCTerm::One`
terms); and (2) the inner `batch_check` of the polynomial queries, claiming exactly those transmitted
evaluations, accepts. -/
theorem default_check_combinations_accepts_iff (ltP : Pt → Pt → Bool) (lblC : C → Label)
    (checkF : List C → Pt → List F → PF → σ → Except Err (Bool × σ))
    (lcs : List (LC.LinComb F)) (comms : List C) (qs : List (Query Pt))
    (ee : List ((Label × Pt) × F)) (πs : List PF) (evals : Option (List F)) (s s' : σ) :
    checkCombinations ltP lblC checkF lcs comms qs ee πs evals s = .ok (true, s') ↔
      ∃ evs, evals = some evs ∧
        (∀ q ∈ qs, EqnHolds lcs ee (polyEvals ltP (verifierPolyQuerySet ltP lcs qs) evs) q) ∧
        batchCheckSet lblC checkF comms (verifierPolyQuerySet ltP lcs qs)
          (polyEvals ltP (verifierPolyQuerySet ltP lcs qs) evs) πs s = .ok (true, s') :=
  checkCombinations_true_iff ltP lblC checkF lcs comms qs ee πs evals s s'

omit [DecidableEq F] in
/-- prover and verifier derive the same polynomial query set from the same equations (the verifier goes
through `lc_s.values()`, the prover through the list: later duplicates of a label win on both sides) -/
theorem default_poly_query_set_agrees (ltP : Pt → Pt → Bool) (lcs : List (LC.LinComb F))
    (qs : List (Query Pt)) :
    verifierPolyQuerySet ltP lcs qs = lcToPolyQuerySet ltP lcs (querySet ltP qs) :=
  verifierPolyQuerySet_eq ltP lcs qs

/-- **The accepted claimed values are determined** by the equations and the transmitted evaluations: two
accepting runs that differ only in the claimed-value map claim the same value for every queried
(equation, point). A changed claimed value is therefore not accepted. -/
theorem default_lc_claimed_values_unique (ltP : Pt → Pt → Bool) (lblC : C → Label)
    (checkF : List C → Pt → List F → PF → σ → Except Err (Bool × σ))
    (lcs : List (LC.LinComb F)) (comms : List C) (qs : List (Query Pt))
    (ee ee' : List ((Label × Pt) × F)) (πs : List PF) (evals : Option (List F)) (s s₁ s₂ : σ)
    (h₁ : checkCombinations ltP lblC checkF lcs comms qs ee πs evals s = .ok (true, s₁))
    (h₂ : checkCombinations ltP lblC checkF lcs comms qs ee' πs evals s = .ok (true, s₂)) :
    ∀ q ∈ qs, QS.lastWith (q.1, q.2.2) ee = QS.lastWith (q.1, q.2.2) ee' := by
  obtain ⟨evs, rfl, ha, _⟩ := (checkCombinations_true_iff ltP lblC checkF lcs comms qs ee πs evals s s₁).1 h₁
  obtain ⟨evs', he, hb, _⟩ := (checkCombinations_true_iff ltP lblC checkF lcs comms qs ee' πs _ s s₂).1 h₂
  injection he with he
  subst he
  intro q hq
  obtain ⟨lc, h1, _, h3⟩ := ha q hq
  obtain ⟨lc', h1', _, h3'⟩ := hb q hq
  rw [h1] at h1'
  injection h1' with h1'
  subst h1'
  rw [h3, h3']

/-- **A changed coefficient or constant is not accepted.** Let the verifier's equation list be changed
in ONE term of ONE equation — the coefficient `c` of the term `t` (a polynomial label, or `One` for a
constant) replaced by `c'` — everything else (the other equations, the label and the other terms of this
one) as before.  If that equation is queried at a point where the change moves its value,
`(c' − c)·(value of t) ≠ 0` — for a constant: `c' ≠ c` —, then the two equation lists are not both
accepted with the same claimed values, transmitted evaluations and proofs. -/
theorem default_lc_changed_coefficient_rejected (ltP : Pt → Pt → Bool) (lblC : C → Label)
    (checkF : List C → Pt → List F → PF → σ → Except Err (Bool × σ))
    (lcs lcs' : List (LC.LinComb F)) (lc lc' : LC.LinComb F)
    (pre post : List (F × LC.LCTerm)) (c c' : F) (t : LC.LCTerm)
    (hterms : lc.terms = pre ++ (c, t) :: post) (hterms' : lc'.terms = pre ++ (c', t) :: post)
    (hget : lcGet lcs lc.label = some lc) (hget' : lcGet lcs' lc.label = some lc')
    (hother : ∀ l, l ≠ lc.label → lcGet lcs' l = lcGet lcs l)
    (comms : List C) (qs : List (Query Pt)) (ee : List ((Label × Pt) × F)) (πs : List PF)
    (evs : List F) (s s₁ s₂ : σ) (q : Query Pt) (hq : q ∈ qs) (hql : q.1 = lc.label)
    (hmoves : (c' - c) * LC.termVal
      (assign (polyEvals ltP (verifierPolyQuerySet ltP lcs qs) evs) q.2.2) t ≠ 0)
    (h₁ : checkCombinations ltP lblC checkF lcs comms qs ee πs (some evs) s = .ok (true, s₁)) :
    checkCombinations ltP lblC checkF lcs' comms qs ee πs (some evs) s ≠ .ok (true, s₂) := by
  intro h₂
  have hlabels : lcPolyLabels lc' = lcPolyLabels lc := by
    unfold lcPolyLabels
    rw [hterms, hterms']
    simp [List.filterMap_append, List.filterMap_cons]
  have hpqs : verifierPolyQuerySet ltP lcs' qs = verifierPolyQuerySet ltP lcs qs := by
    rw [verifierPolyQuerySet_eq, verifierPolyQuerySet_eq]
    apply lcToPolyQuerySet_congr
    intro l
    by_cases hl : l = lc.label
    · subst hl; rw [hget, hget']; simp [hlabels]
    · rw [hother l hl]
  obtain ⟨evs₁, he₁, ha, _⟩ := (checkCombinations_true_iff ltP lblC checkF lcs comms qs ee πs _ s s₁).1 h₁
  obtain ⟨evs₂, he₂, hb, _⟩ := (checkCombinations_true_iff ltP lblC checkF lcs' comms qs ee πs _ s s₂).1 h₂
  injection he₁ with he₁
  injection he₂ with he₂
  subst he₁ he₂
  rw [hpqs] at hb
  obtain ⟨x, h1, _, h3⟩ := ha q hq
  obtain ⟨x', h1', _, h3'⟩ := hb q hq
  rw [hql, hget] at h1
  rw [hql, hget'] at h1'
  injection h1 with h1
  injection h1' with h1'
  subst h1 h1'
  rw [h3] at h3'
  injection h3' with h3'
  rw [hterms, hterms', termsValue_replace _ pre post c c' t] at h3'
  exact hmoves (by linear_combination -h3')

/-- **The honest default combination proof is accepted, the scheme's own pair being complete.**
Hypotheses: `ltP` is a strict total order; the scheme's `open`/`check` pair is complete on the triples a
group can consist of (`Good`) and keeps the relation `R` between prover and verifier state (as in
`C01.default_batch_complete`); no point label is used with two points; every queried equation is
supplied; the claimed values are the true combination values `Σ coeff·pᵢ(z) + constants`
(`trueEval`: the polynomial listed last under each label); the three prover lists are aligned so that the
triple found under a label holds the polynomial found under it (`htrip` — true for lists of equal length
with distinct labels; with a longer polynomial list `evaluate_query_set` and `batch_open` can read
different polynomials); the verifier lists the prover's commitments under the same labels.
Then whatever `open_combinations` returns — equations with zero, negative, repeated coefficients and
constants, several equations per point, one equation at several points, point labels sharing a point
value — `check_combinations` accepts, and the final states are related. -/
theorem default_combinations_complete {LP S σp σv : Type}
    (ltP : Pt → Pt → Bool) (hlt : QS.StrictTotal ltP) (hirr : ∀ a, ltP a a = false)
    (lblP : LP → Label) (lblC : C → Label) (evalP : LP → Pt → F)
    (openF : List ((LP × S) × C) → Pt → σp → Except Err (PF × σp))
    (checkF : List C → Pt → List F → PF → σv → Except Err (Bool × σv))
    (R : σp → σv → Prop) (Good : List ((LP × S) × C) → Prop)
    (hcomplete : ∀ ts z π sp sp' sv, Good ts → R sp sv → openF ts z sp = .ok (π, sp') →
      ∃ sv', checkF (ts.map (·.2)) z (ts.map fun t => evalP t.1.1 z) π sv = .ok (true, sv') ∧ R sp' sv')
    (lcs : List (LC.LinComb F)) (polys : List LP) (sts : List S) (comms vcomms : List C)
    (qs : List (Query Pt)) (ee : List ((Label × Pt) × F))
    (hpts : ConsistentPoints qs)
    (hsupplied : ∀ q ∈ qs, (lcGet lcs q.1).isSome = true)
    (hclaims : ∀ q ∈ qs, ∀ lc, lcGet lcs q.1 = some lc →
      QS.lastWith (q.1, q.2.2) ee = some (LC.termsValue (trueEval lblP evalP polys q.2.2) lc.terms))
    (htrip : ∀ l t, Marlin.lookupLast (fun (t : (LP × S) × C) => lblP t.1.1) l
        (polyStComm polys sts comms) = some t → Marlin.lookupLast lblP l polys = some t.1.1)
    (hgood : ∀ ls ts, gatherOpen lblP (polyStComm polys sts comms) ls = .ok ts → Good ts)
    (hcm : ∀ l t, Marlin.lookupLast (fun (t : (LP × S) × C) => lblP t.1.1) l
        (polyStComm polys sts comms) = some t → Marlin.lookupLast lblC l vcomms = some t.2)
    (sp : σp) (sv : σv) (πs : List PF) (evals : Option (List F)) (sp' : σp) (h0 : R sp sv)
    (ho : openCombinations ltP lblP evalP openF lcs polys sts comms qs sp = .ok ((πs, evals), sp')) :
    ∃ sv', checkCombinations ltP lblC checkF lcs vcomms qs ee πs evals sv = .ok (true, sv') ∧
      R sp' sv' :=
  combinations_complete ltP hlt hirr lblP lblC evalP openF checkF R Good hcomplete lcs polys sts comms
    vcomms qs ee hpts hsupplied hclaims htrip hgood hcm sp sv πs evals sp' h0 ho

/-- the toy scheme of the examples satisfies the completeness hypothesis (with `R` = equal counters,
`Good` = every commitment is the commitment of its polynomial) -/
example : ∀ (ts : List ((Toy.TC × Unit) × Toy.TC)) z π sp sp' sv, (∀ t ∈ ts, t.2 = t.1.1) → sp = sv →
    Toy.openF ts z sp = .ok (π, sp') →
    ∃ sv', Toy.checkF (ts.map (·.2)) z (ts.map fun t => Toy.evalP t.1.1 z) π sv = .ok (true, sv') ∧
      sp' = sv' := by
  intro ts z π sp sp' sv hg hs ho
  simp only [Toy.openF, Except.ok.injEq, Prod.mk.injEq] at ho
  obtain ⟨rfl, rfl⟩ := ho
  subst hs
  refine ⟨sp + 1, ?_, rfl⟩
  have : (ts.map fun t => Toy.evalP t.1.1 z) = (ts.map (·.2)).map fun c => Toy.evalP c z := by
    rw [List.map_map]
    exact List.map_congr_left fun t ht => by simp [hg t ht]
  simp [Toy.checkF, this]
example : ConsistentPoints Toy.eqs := by unfold ConsistentPoints; decide

/-! non-vacuity over `ZMod 101` (`PCV.TraitDefault.Toy`): `e = 2a − b + 5` (negative coefficient,
constant) at two points, `f = 0·c + a` (zero coefficient: `c` is still opened); the honest proof is
accepted; the constant `5 ↦ 6` and the coefficient `2 ↦ 3` are rejected -/
example : openCombinations Toy.ltK Toy.lbl Toy.evalP Toy.openF Toy.lcs Toy.polys Toy.sts Toy.polys Toy.eqs 0
    = .ok (([0, 1], some [8, 14, 12, 21, 20]), 2) := by decide
example : lcToPolyQuerySet Toy.ltK Toy.lcs (querySet Toy.ltK Toy.eqs) =
    [([97], [120], 4), ([97], [122], 7), ([98], [120], 4), ([98], [122], 7), ([99], [120], 4)] := by decide
example : checkCombinations Toy.ltK Toy.lbl Toy.checkF Toy.lcs Toy.polys Toy.eqs Toy.eqEvals [0, 1]
    (some [8, 14, 12, 21, 20]) 0 = .ok (true, 2) := by decide
example : checkCombinations Toy.ltK Toy.lbl Toy.checkF
    [⟨[101], [(2, .poly [97]), (-1, .poly [98]), (6, .one)]⟩, ⟨[102], [(0, .poly [99]), (1, .poly [97])]⟩]
    Toy.polys Toy.eqs Toy.eqEvals [0, 1] (some [8, 14, 12, 21, 20]) 0 = .ok (false, 0) := by decide
example : checkCombinations Toy.ltK Toy.lbl Toy.checkF
    [⟨[101], [(3, .poly [97]), (-1, .poly [98]), (5, .one)]⟩, ⟨[102], [(0, .poly [99]), (1, .poly [97])]⟩]
    Toy.polys Toy.eqs Toy.eqEvals [0, 1] (some [8, 14, 12, 21, 20]) 0 = .ok (false, 0) := by decide

end PCV.C06
