/-
  Property C10 (MarlinKZG10) — the verifier decides exactly the published relation.
-/
import PCV.Proofs.MarlinMore
import PCV.Props.C01_Marlin
set_option linter.unusedSectionVars false

namespace PCV.C10
open PCV Marlin
variable {F : Type} [Field F] [DecidableEq F]

/-- The Marlin verification relation written from the paper: with per-polynomial challenges
`ξⱼ` (and `ξ′ⱼ` for degree-bounded ones) derived from the transcript,
`e(Σ ξⱼCⱼ + ξ′ⱼ(Sⱼ − vⱼ·shift(dⱼ)) − (Σ ξⱼvⱼ)·G − rv·γG, H) = e(W, βH − zH)`. -/
def MarlinRelation (vk : VK F) (cs : List (LComm F)) (z : F) (vs : List F) (π : KZG.Proof F)
    (ξs : List F) : Prop :=
  ∃ C V rest, accumulate vk cs vs ξs = .ok ((C, V), rest) ∧
    (C - V * vk.vk.g - KZG.rvVal π.rv * vk.vk.gammaG) * vk.vk.h = π.w * (vk.vk.betaH - z * vk.vk.h)

/-- **`check` returns success exactly when the relation holds**, for every key and transcript. -/
theorem marlin_check_iff_relation (vk : VK F) (cs : List (LComm F)) (z : F) (vs : List F)
    (π : KZG.Proof F) (ξs : List F) :
    (∃ rest, check vk cs z vs π ξs = .ok (true, rest)) ↔ MarlinRelation vk cs z vs π ξs := by
  unfold check MarlinRelation
  constructor
  · rintro ⟨rest, h⟩
    split at h
    · cases h
    · rename_i C V rest' ha
      injection h with h; injection h with h1 _
      rw [KZG.check_iff_defect] at h1
      exact ⟨C, V, rest', ha, by unfold KZG.defect at h1; linear_combination h1⟩
  · rintro ⟨C, V, rest, ha, hrel⟩
    refine ⟨rest, ?_⟩
    rw [ha]
    simp only
    have : KZG.check vk.vk C z V π = true := by
      rw [KZG.check_iff_defect]; unfold KZG.defect; linear_combination hrel
    rw [this]

/-- honest proofs satisfy the relation (C01) -/
theorem marlin_honest_satisfies {ck : CK F} {vk : VK F} {g γ β h : F} {D n m : Nat}
    (hwf : WF ck vk g γ β h D n m) (z : F) (l : List (Trip F))
    (hh : ∀ t ∈ l, Honest g γ β D t) (hl : ∀ t ∈ l, RandLen m t) (ξs : List F)
    (π : KZG.Proof F) (rest : List F)
    (ho : Marlin.open ck (l.map (·.1)) z (l.map (·.2.1)) ξs = .ok (π, rest))
    (hnd : ∀ acc r, openLoop ck z (l.map (·.1)) (l.map (·.2.1)) ξs ⟨[], [], [], [], [], false⟩
        = .ok (acc, r) → isZeroPoly acc.r = true → evalPoly acc.sr z = 0) :
    MarlinRelation vk (l.map (·.2.2)) z (l.map fun t => evalPoly t.1.poly z) π ξs :=
  (marlin_check_iff_relation _ _ _ _ _ _).1
    ⟨rest, open_check_complete hwf z l hh hl ξs π rest ho hnd⟩

/-- every claimed value influences the decision with its explicit weight `κⱼ` -/
theorem marlin_value_matters (vk : VK F) (cs : List (LComm F)) (z : F) (vs ds ξs : List F)
    (π : KZG.Proof F) (rest : List F) (hlen : ds.length = vs.length)
    (hacc : check vk cs z vs π ξs = .ok (true, rest))
    (hne : vk.vk.h * dot (kappa vk cs ξs) ds ≠ 0) :
    check vk cs z (List.zipWith (· + ·) vs ds) π ξs ≠ .ok (true, rest) := by
  intro hx
  exact hne ((check_perturbed_iff vk cs z vs ds ξs π rest hlen hacc).1 hx)

example : MarlinRelation C01.exVK [⟨[112], ⟨43, some 90⟩, some 2⟩] 10 [evalPoly [1, 2, 3] 10]
    ⟨49, some 68⟩ [11, 13] :=
  (marlin_check_iff_relation _ _ _ _ _ _).1 ⟨[], by decide⟩

end PCV.C10
