/-
  Property C09 (multilinear PST) — `setup` publishes the `eq`-tensor tables of one trapdoor, and
  `trim` returns the sub-tables.
-/
import PCV.Proofs.MLPCProps
import PCV.Props.Examples

namespace PCV.C09
open PCV
set_option linter.unusedSectionVars false
variable {F : Type} [Field F] [DecidableEq F]

/-- **`setup` is well-formed.**  For every `nv ≥ 1`, generators `g, h`, trapdoor `t ∈ F^nv` the model
of `MultilinearPC::setup` (rows of `eq_extension`, reversed product loop, `remove_dummy_variable`,
flatten / `batch_mul` / re-slice) returns `powers_of_g[i] = g·eqTable(t[i..])`,
`powers_of_h[i] = h·eqTable(t[i..])`, `g_mask[i] = g·tᵢ`, `num_vars = nv`. -/
theorem mlpc_setup_wellformed (nv : Nat) (g h : F) (t : List F) (hnv : nv ≠ 0) (ht : t.length = nv) :
    MLPC.setup nv g h t = .ok (MLPC.wfParams g h t) := MLPC.setup_eq nv g h t hnv ht

/-- **Table recursion.**  Consecutive tables are tied by one trapdoor coordinate:
`powers[i][2b] = (1 − tᵢ)·powers[i+1][b]`, `powers[i][2b+1] = tᵢ·powers[i+1][b]` (`weave`), the last
table is `[(1 − t)·c, t·c]`. -/
theorem mlpc_tables_recursion (c a b : F) (ts : List F) :
    MLPC.tables c (a :: b :: ts)
        = MLPC.weave a ((MLPC.tables c (b :: ts)).headD []) :: MLPC.tables c (b :: ts)
    ∧ MLPC.tables c [a] = [[(1 - a) * c, a * c]] := by
  constructor
  · simp only [MLPC.tables, List.headD_cons, MLPC.eqTable]
    congr 1
    generalize MLPC.weave b (MLPC.eqTable ts) = E
    induction E with
    | nil => rfl
    | cons e es ih =>
      simp only [MLPC.weave, MLPC.batchMul, List.map_cons] at ih ⊢
      rw [ih]
      congr 1
      · ring
      · congr 1; ring
  · simp only [MLPC.tables, MLPC.eqTable, MLPC.weave, MLPC.batchMul, List.map_cons, List.map_nil]
    have e1 : c * ((1 - a) * 1) = (1 - a) * c := by ring
    have e2 : c * (a * 1) = a * c := by ring
    rw [e1, e2]

/-- every table has `2^(nv − i)` entries and there are `nv` of them -/
theorem mlpc_tables_shape (c : F) (t : List F) :
    (MLPC.tables c t).length = t.length
    ∧ ∀ i (hi : i < (MLPC.tables c t).length), ((MLPC.tables c t)[i]).length = 2 ^ (t.length - i) := by
  refine ⟨MLPC.tables_length c t, ?_⟩
  induction t with
  | nil => intro i hi; simp [MLPC.tables] at hi
  | cons a ts ih =>
    intro i hi
    cases i with
    | zero => simp [MLPC.tables]
    | succ i =>
      simp only [MLPC.tables, List.getElem_cons_succ, List.length_cons]
      rw [ih i (by simpa [MLPC.tables] using hi)]
      congr 1
      omega

/-- **Pairing relations** the published elements satisfy (what the harness checks on the real
`setup` output): `e(P_g[x], h) = e(g, P_h[x])` entrywise, `e(g_mask[i], h) = e(g, h)^{tᵢ}`. -/
theorem mlpc_pairing_relations (g h : F) (E t : List F) :
    (MLPC.batchMul g E).map (· * h) = (MLPC.batchMul h E).map (g * ·)
    ∧ (MLPC.batchMul g t).map (· * h) = t.map (· * (g * h)) := by
  constructor
  · simp only [MLPC.batchMul, List.map_map]
    apply List.map_congr_left; intro x _; simp only [Function.comp]; ring
  · simp only [MLPC.batchMul, List.map_map]
    apply List.map_congr_left; intro x _; simp only [Function.comp]; ring

/-- **`trim` returns the sub-tables** (any parameters): the last `s` tables of both groups, the last
`s` mask elements, the same generators, `nv = s`. -/
theorem mlpc_trim_subtables (pp : MLPC.UParams F) (s : Nat) (ck : MLPC.CK F) (vk : MLPC.VK F)
    (h : MLPC.trim pp s = .ok (ck, vk)) :
    s ≤ pp.numVars
    ∧ ck = ⟨s, pp.powersOfG.drop (pp.numVars - s), pp.powersOfH.drop (pp.numVars - s), pp.g, pp.h⟩
    ∧ vk = ⟨s, pp.g, pp.h, pp.gMask.drop (pp.numVars - s)⟩ := by
  unfold MLPC.trim at h
  split at h
  · cases h
  · rename_i hs
    dsimp only at h
    split at h
    · cases h
    · cases h
      exact ⟨by omega, rfl, rfl⟩

/-- **`trim` of well-formed parameters** is the well-formed key pair of the trapdoor suffix
`t[nv−s..]` — the keys a `setup` with `s` variables and that trapdoor would give. -/
theorem mlpc_trim_wellformed (g h : F) (t : List F) (s : Nat) (hs : s ≤ t.length) :
    MLPC.trim (MLPC.wfParams g h t) s
      = .ok (MLPC.wfCK g h (t.drop (t.length - s)), MLPC.wfVK g h (t.drop (t.length - s))) :=
  MLPC.trim_wf g h t s hs

/-- **Out-of-range `trim` is refused** (`assert!(supported_num_vars <= params.num_vars)`). -/
theorem mlpc_trim_out_of_range (pp : MLPC.UParams F) (s : Nat) (hs : pp.numVars < s) :
    MLPC.trim pp s = .error .abort := MLPC.trim_refuses pp s hs

example : MLPC.setup 3 (5 : K) 11 [3, 7, 20] = .ok (MLPC.wfParams 5 11 [3, 7, 20])
    ∧ (MLPC.wfParams (5 : K) 11 [3, 7, 20]).powersOfG
        = [[72, 94, 17, 25, 89, 18, 14, 80], [65, 42, 6, 94], [6, 100]] := by decide
example : MLPC.trim (MLPC.wfParams (5 : K) 11 [3, 7, 20]) 4 = .error .abort := by decide
example : MLPC.trim (MLPC.wfParams (5 : K) 11 [3, 7, 20]) 1
    = .ok (⟨1, [[6, 100]], [[94, 18]], 5, 11⟩, ⟨1, 5, 11, [100]⟩) := by decide

end PCV.C09
