/-
  Property C15 — PST13 parameters cover every monomial; any multivariate polynomial opens.
  Only property theorems live here; lemmas are in PCV/Proofs (MVPoly, Combinations, PST13), the
  36 kernel-decided grid points in PCV/Props/C15Grid.

  Terms are the `(variable, power)` lists of `SparseTerm`; `Term.wf` (variables strictly
  increasing, powers positive) is the invariant of every `SparseTerm::new` result, so "every
  polynomial" below means every polynomial that can be built through the library's constructors.
-/
import PCV.Proofs.PST13
import PCV.Proofs.Combinations
import PCV.Proofs.CombInv
import PCV.Proofs.CombCompleteSetup
import PCV.Proofs.CombCompleteCount
import PCV.Props.C15Grid
import PCV.Props.Examples

-- the `DecidableEq` instances of the nested result tuples in the `decide` examples are large
set_option synthInstance.maxSize 512

namespace PCV.C15
open PCV PCV.MV PCV.C15Spec
variable {F : Type} [Field F] [DecidableEq F]

/-! ### (a) the quotient decomposition of `divide_at_point` is exact -/

/-- **Exact division.** For every sparse polynomial `p` over `nv` variables (mixed monomials of
any shape), every point `z` and every `x`:
`p(x) − p(z) = Σᵢ (xᵢ − zᵢ)·wᵢ(x)` with `w = divide_at_point(p, z)`; there are `nv` quotients. -/
theorem divideAtPoint_exact (nv : Nat) (p : MVPoly F) (z x : List F)
    (hwf : polyWf p = true) (hv : polyVarsBelow nv p = true) :
    evalMV p x - evalMV p z = PST.quotSum x z 0 (PST.divideAtPoint nv p z)
      ∧ (PST.divideAtPoint nv p z).length = nv :=
  ⟨PST.divideAtPoint_exact nv p z x hwf hv, PST.divideAtPoint_length nv p z⟩

/-- non-vacuity: a polynomial with mixed monomials `4 + 6x₁ + 9x₀x₁ + 2x₀²` over `ZMod 101`, its
quotients at `(10, 20)`, and the identity at `x = (5, 7)` -/
example : polyWf ([(4, []), (6, [(1, 1)]), (9, [(0, 1), (1, 1)]), (2, [(0, 2)])] : MVPoly K) = true
    ∧ polyVarsBelow 2 ([(4, []), (6, [(1, 1)]), (9, [(0, 1), (1, 1)]), (2, [(0, 2)])] : MVPoly K) = true := by
  decide
example : PST.divideAtPoint 2 ([(4, []), (6, [(1, 1)]), (9, [(0, 1), (1, 1)]), (2, [(0, 2)])] : MVPoly K)
    [10, 20] = [[(20, []), (9, [(1, 1)]), (2, [(0, 1)])], [(96, [])]] := by decide
example : PST.quotSum ([5, 7] : List K) [10, 20] 0
    [[(20, []), (9, [(1, 1)]), (2, [(0, 1)])], [(96, [])]] ≠ 0 := by decide

/-! ### (b) the `Combinations` iterator -/

/-- **The multiset iterator, every input.** Whenever `Combinations::new(original, k)` does not
panic (`|original| > k ≥ 1`), the collected outputs are strictly increasing in the lexicographic
order — so no vector is produced twice — and each output consists of the entries of the sorted
input at `k` strictly increasing in-range positions (a sub-multiset of the input; in particular no
index of the iterator is ever out of bounds), is itself sorted and has length `k`. -/
theorem combinations_sorted_distinct (original : List Nat) (k : Nat) (outs : List (List Nat))
    (h : combinations original k = .ok outs) :
    outs.Pairwise (· < ·) ∧ outs.Nodup ∧
      ∀ v ∈ outs, Comb.Good (sortNat original) k v ∧ v.Pairwise (· ≤ ·) ∧ v.length = k ∧
        ∀ x ∈ v, x ∈ original :=
  Comb.combinations_spec original k outs h

/-- **The multiset iterator is complete, every input.** Whenever `Combinations::new(original, k)`
does not panic, EVERY sorted length-`k` sub-multiset of the input (every length-`k` sublist of the
sorted input) is among the outputs — each `next` moves to the lexicographic successor, the first
output is the minimum, `None` is returned only at the maximum, and the `2^|original|` collection
bound is never reached.  With `combinations_sorted_distinct`: the outputs are exactly the distinct
sorted sub-multisets, each once. -/
theorem combinations_complete (original : List Nat) (k : Nat) (outs : List (List Nat))
    (h : combinations original k = .ok outs) :
    ∀ w, List.Sublist w (sortNat original) → w.length = k → w ∈ outs :=
  Comb.combinations_complete original k outs h

/-- non-vacuity: the crate's own `complicated` unit test, with the input unsorted -/
example : combinations [4, 2, 1, 3, 2] 3
    = .ok [[1, 2, 2], [1, 2, 3], [1, 2, 4], [1, 3, 4], [2, 2, 3], [2, 2, 4], [2, 3, 4]] := by decide

/-! ### (c) the enumeration behind `setup` -/

/-- **The specification list, all `(n, D)`.** `specTerms n D` contains exactly the monomials
(`SparseTerm::new` results) in variables `< n` of total degree `≤ D`, each once. -/
theorem specTerms_exact (n D : Nat) :
    (specTerms n D).Nodup ∧
    ∀ t, t ∈ specTerms n D ↔ (Term.wf t = true ∧ Term.varsBelow n t = true ∧ Term.degree t ≤ D) :=
  ⟨nodup_specTerms n D, mem_specTerms n D⟩

/-- **Completeness of the enumeration, ALL `num_vars ≥ 1`, `max_degree ≥ 1`.** `setup` succeeds,
and the term list it builds has `C(n+D, D)` entries, no duplicates, consists exactly of the
monomials of total degree `≤ D` in `n` variables, and is a permutation of the specification list.
(Through `combinations_complete` for the iterator and the bijection multiset ↔ monomial; no
restriction to the grid.) -/
theorem setupTerms_complete (n D : Nat) (hn : 1 ≤ n) (hD : 1 ≤ D) :
    ∃ l, setupTerms n D = .ok l ∧ l.length = Nat.choose (n + D) D ∧ l.Nodup ∧
      (∀ t, t ∈ l ↔ (Term.wf t = true ∧ Term.varsBelow n t = true ∧ Term.degree t ≤ D)) ∧
      l.Perm (specTerms n D) := by
  obtain ⟨l, hl, hnd, hmem⟩ := Comb.setupTerms_general n D hn hD
  have hperm : l.Perm (specTerms n D) :=
    (List.perm_ext_iff_of_nodup hnd (nodup_specTerms n D)).2
      (fun t => by rw [hmem t, mem_specTerms n D t])
  exact ⟨l, hl, by rw [hperm.length_eq, specTerms_length], hnd, hmem, hperm⟩

/-- **The grid, including the order** (`num_vars, max_degree ∈ 1..6`, each point decided by kernel
evaluation of the faithful `Combinations` model — independent evidence for the general theorem):
the list `setup` builds IS the specification list, in the code's order. -/
theorem setupTerms_grid_order (n D : Nat) (hn1 : 1 ≤ n) (hn6 : n ≤ 6) (hD1 : 1 ≤ D) (hD6 : D ≤ 6) :
    setupTerms n D = .ok (specTerms n D) ∧ (specTerms n D).length = Nat.choose (n + D) D :=
  C15Grid.grid n D hn1 hn6 hD1 hD6

/-- non-vacuity / shape: the list for two variables, degree two, in the code's order -/
example : setupTerms 2 2 = .ok [[(0, 1)], [(1, 1)], [(0, 2)], [(0, 1), (1, 1)], [(1, 2)], []] := by
  decide

/-! ### (d) trim -/

/-- **Trim keeps exactly the monomials of degree `≤ supported_degree`**, with unchanged
elements (as a list and as a lookup table), refuses only `supported_degree > max_degree`-shaped
requests, and gives the verifier `g = powers_of_g[1]`, `beta_h`, `h`, `gamma_g` unchanged. -/
theorem trim_keeps_exactly (pp : PST.UParams F) (s : Nat) (ck : PST.CK F) (vk : PST.VK F)
    (h : PST.trim pp s = .ok (ck, vk)) :
    s ≤ pp.maxDegree
    ∧ ck.powersOfG = pp.powersOfG.filter (fun kv => decide (Term.degree kv.1 ≤ s))
    ∧ (∀ t, PST.mapGet ck.powersOfG t
          = if Term.degree t ≤ s then PST.mapGet pp.powersOfG t else none)
    ∧ PST.mapGet pp.powersOfG [] = some vk.g
    ∧ vk.betaH = pp.betaH ∧ vk.h = pp.h ∧ vk.gammaG = pp.gammaG ∧ ck.gammaG = pp.gammaG
    ∧ ck.supportedDegree = s ∧ ck.numVars = pp.numVars :=
  PST.trim_spec pp s ck vk h

/-- non-vacuity: the model's own `setup` followed by `trim` to degree 1 (trapdoor `(2,7)`) -/
example : (match PST.setup 2 2 ([2, 7] : List K) 3 5 11 with
    | .ok pp => (match PST.trim pp 1 with
      | .ok (ck, vk) => ck.powersOfG == [([], 3), ([(1, 1)], 21), ([(0, 1)], 6)] && vk.betaH == [22, 77]
      | .error _ => false)
    | .error _ => false) = true := by decide

/-- **Trimming a well-formed key** (the one `setup` publishes for a trapdoor `β⃗` over the monomial
list `ts`) gives the well-formed committer key over exactly the monomials of degree `≤ s`, with
`s + 1` γ-powers per variable, and the matching verifier key. -/
theorem trim_wellformed_key (g γ h : F) (β : List F) (ts : List Term) (nv D s : Nat) (hs : s ≤ D)
    (h0 : [] ∈ ts) :
    PST.trim (PST.wfUP g γ h β ts nv D) s
      = .ok (PST.wfCK g γ β (ts.filter (fun t => decide (Term.degree t ≤ s))) nv s D (s + 1),
             PST.wfVK g γ h β nv s D) :=
  PST.trim_wfUP g γ h β ts nv D s hs h0

/-- **The trimmed specification list covers every monomial of degree `≤ s`** (all `n`, `D ≥ s`). -/
theorem trimmed_key_covers (n D s : Nat) (hs : s ≤ D) :
    ∀ t, PST.Covered n s t → t ∈ (specTerms n D).filter (fun t => decide (Term.degree t ≤ s)) :=
  PST.covered_mem_filter n s (specTerms n D) (fun t ht =>
    (mem_specTerms n D t).2 ⟨ht.1, ht.2.1, Nat.le_trans ht.2.2 hs⟩)

/-! ### (e) completeness -/

/-- **Nothing within the supported degree is refused by `commit`.** Key well-formed over a
monomial list containing every monomial of degree `≤ s` in `nv` variables: any polynomial of
degree `≤ s` — arbitrary mixed monomials — is committed, without hiding or with any hiding bound
`1 ≤ hb ≤ s` (given an RNG with enough draws). -/
theorem pst13_commit_total (g γ : F) (β : List F) (ts : List Term) (nv s D : Nat)
    (hcov : ∀ t, PST.Covered nv s t → t ∈ ts) (p : MVPoly F)
    (hp : polyWf p = true) (hpv : polyVarsBelow nv p = true) (hd : degreeMV p ≤ s)
    (hb : Option Nat) (draws : List F)
    (hhb : ∀ b, hb = some b → 1 ≤ b ∧ b ≤ s ∧ 1 + nv * (b + 1) ≤ draws.length) :
    ∃ out, PST.commit (PST.wfCK g γ β ts nv s D (s + 1)) p hb true draws = .ok out :=
  PST.commit_ok g γ β ts nv s D hcov p hp hpv hd hb draws hhb

/-- **Nothing committed is refused by `open`**, at any point: polynomials of degree `≤ s`, blinding
polynomials of the shape `commit` draws (univariate terms of degree `≤ m`, the number of γ-powers
per variable), enough challenges; whatever numbers of variables `nvp`, `nvr ≤ nv` the combined
polynomials are declared over. -/
theorem pst13_open_total (g γ : F) (β : List F) (ts : List Term) (nv s D m : Nat)
    (hcov : ∀ t, PST.Covered nv s t → t ∈ ts)
    (nvp nvr : Nat) (hnvr : nvr ≤ nv) (ps rs : List (MVPoly F)) (z ξs : List F)
    (hps : ∀ p ∈ ps, polyWf p = true ∧ polyVarsBelow nv p = true ∧ degreeMV p ≤ s)
    (hrs : ∀ r ∈ rs, ∀ t ∈ termsOf r, PST.UniCovered nv m t)
    (hξ : ps.length ≤ ξs.length) (hz : nv ≤ z.length) :
    ∃ π, PST.open (PST.wfCK g γ β ts nv s D m) nvp nvr ps z rs ξs = .ok π :=
  PST.open_ok g γ β ts nv s D m hcov nvp nvr hnvr ps rs z ξs hps hrs hξ hz

/-- **Completeness, one polynomial, declared over any number `nvp ≤ nv` of variables** (`nvr ≤ nv`
the declared variable count of the blinding polynomial: `nv` when hiding, `0` for the empty one).
Key well-formed for an arbitrary trapdoor `β⃗` (`powers_of_g[t] = g·t(β⃗)` over any monomial list
`ts`, `powers_of_gamma_g[i][j] = γ·βᵢ^(j+1)`, `beta_h[i] = βᵢ·h`), any hiding bound, RNG stream,
point and challenge: if the committer returns `(c, r)` and the prover returns `π`, the verifier
accepts the true value `p(z)`.  `open` returns one witness per variable of the key, so this
includes polynomials declared over fewer variables than the key (the zero polynomial declared over
`0` variables among them). -/
theorem pst13_complete_fewer_vars (g γ h : F) (β : List F) (ts : List Term) (nv s D m nvp nvr : Nat)
    (p : MVPoly F)
    (hb : Option Nat) (rng : Bool) (draws : List F) (c : F) (r : MVPoly F) (rest : List F)
    (z : List F) (ξ : F) (ξs : List F) (π : PST.Proof F)
    (hnvp : nvp ≤ nv) (hnvr : nvr ≤ nv)
    (hp : polyWf p = true) (hpv : polyVarsBelow nvp p = true) (hrv : polyVarsBelow nvr r = true)
    (hβ : nv ≤ β.length) (hz : nv ≤ z.length)
    (hc : PST.commit (PST.wfCK g γ β ts nv s D m) p hb rng draws = .ok (c, r, rest))
    (ho : PST.open (PST.wfCK g γ β ts nv s D m) nvp nvr [p] z [r] (ξ :: ξs) = .ok π) :
    PST.check (PST.wfVK g γ h β nv s D) [c] z [evalMV p z] π (ξ :: ξs) = .ok true
      ∧ π.w.length = nv := by
  have := PST.single_check_eq g γ h β ts nv s D m nvp nvr p hb rng draws c r rest z ξ ξs π 0 0
    hnvp hnvr hp hpv hrv hβ hz hc ho
  refine ⟨by simpa using this, ?_⟩
  obtain ⟨hcs, hrw, _, hru, _⟩ := PST.commit_spec g γ β ts nv s D m p hb rng draws c r rest hc
  unfold PST.open at ho
  split at ho
  · cases ho
  · rename_i cc hcc
    simp only [PST.combine] at hcc
    split at hcc
    · cases hcc
    · injection hcc with hcc
      subst hcc
      have hnil : ∀ t ∈ termsOf ([] : MVPoly F), Term.wf t = true := by
        intro t ht; simp [termsOf] at ht
      have w1 : ∀ t ∈ termsOf (addScaledMV ([] : MVPoly F) ξ p), Term.wf t = true ∧ Term.varsBelow nvp t = true := by
        intro t ht
        rcases mem_addScaledMV_term _ _ _ t ht with ht | ht
        · simp [termsOf] at ht
        · exact ⟨(polyWf_iff p).1 hp t ht, (polyVarsBelow_iff nvp p).1 hpv t ht⟩
      have w2 : ∀ t ∈ termsOf (addScaledMV ([] : MVPoly F) ξ r),
          Term.wf t = true ∧ Term.varsBelow nvr t = true ∧ PST.isUni t = true := by
        intro t ht
        rcases mem_addScaledMV_term _ _ _ t ht with ht | ht
        · simp [termsOf] at ht
        · exact ⟨(polyWf_iff r).1 hrw t ht, (polyVarsBelow_iff nvr r).1 hrv t ht, hru t ht⟩
      exact (PST.openCombined_defect g γ h β ts nv s D m nvp nvr _ _ z π hnvp hnvr
        ((polyWf_iff _).2 (fun t ht => (w1 t ht).1)) ((polyVarsBelow_iff nvp _).2 (fun t ht => (w1 t ht).2))
        ((polyWf_iff _).2 (fun t ht => (w2 t ht).1)) ((polyVarsBelow_iff nvr _).2 (fun t ht => (w2 t ht).2.1))
        (fun t ht => (w2 t ht).2.2) ho).2

/-- non-vacuity: `4 + 6x₀ + 2x₀²` declared over ONE variable under the two-variable key, hiding
bound 1 (blinding polynomial over both variables); the proof has two witnesses and is accepted.
And the zero polynomial declared over zero variables. -/
example : polyVarsBelow 1 ([(4, []), (6, [(0, 1)]), (2, [(0, 2)])] : MVPoly K) = true := by decide
example : PST.commit (PST.wfCK (3 : K) 5 [2, 7] (specTerms 2 2) 2 2 2 3)
    [(4, []), (6, [(0, 1)]), (2, [(0, 2)])] (some 1) true [7, 5, 9, 4, 8, 11]
    = .ok (13, [(7, []), (4, [(1, 1)]), (5, [(0, 1)]), (8, [(1, 2)]), (9, [(0, 2)])], [11]) := by decide
example : PST.open (PST.wfCK (3 : K) 5 [2, 7] (specTerms 2 2) 2 2 2 3) 1 2
    [[(4, []), (6, [(0, 1)]), (2, [(0, 2)])]] [10, 20]
    [[(7, []), (4, [(1, 1)]), (5, [(0, 1)]), (8, [(1, 2)]), (9, [(0, 2)])]] [13]
    = .ok ⟨[31, 59], some 36⟩ := by decide
example : PST.check (PST.wfVK (3 : K) 5 11 [2, 7] 2 2 2) [13] [10, 20] [62] ⟨[31, 59], some 36⟩ [13]
    = .ok true := by decide
example : PST.open (PST.wfCK (3 : K) 5 [2, 7] (specTerms 2 2) 2 2 2 3) 0 0 [[]] [10, 20] [[]] [13]
    = .ok ⟨[0, 0], none⟩ := by decide

/-- **Completeness, one polynomial** declared over the key's `nv` variables (the common case of
`pst13_complete_fewer_vars`). -/
theorem pst13_complete (g γ h : F) (β : List F) (ts : List Term) (nv s D m : Nat) (p : MVPoly F)
    (hb : Option Nat) (rng : Bool) (draws : List F) (c : F) (r : MVPoly F) (rest : List F)
    (z : List F) (ξ : F) (ξs : List F) (π : PST.Proof F)
    (hp : polyWf p = true) (hpv : polyVarsBelow nv p = true)
    (hβ : nv ≤ β.length) (hz : nv ≤ z.length)
    (hc : PST.commit (PST.wfCK g γ β ts nv s D m) p hb rng draws = .ok (c, r, rest))
    (ho : PST.open (PST.wfCK g γ β ts nv s D m) nv nv [p] z [r] (ξ :: ξs) = .ok π) :
    PST.check (PST.wfVK g γ h β nv s D) [c] z [evalMV p z] π (ξ :: ξs) = .ok true :=
  (pst13_complete_fewer_vars g γ h β ts nv s D m nv nv p hb rng draws c r rest z ξ ξs π
    (Nat.le_refl _) (Nat.le_refl _) hp hpv
    (PST.commit_spec g γ β ts nv s D m p hb rng draws c r rest hc).2.2.1 hβ hz hc ho).1

/-- **Completeness, challenge-combined list.** Any number of polynomials `ps` with blinding
polynomials `rs` (of the shape `commit` produces: univariate terms), opened together at `z` under
the challenges `ξs` (`nvp`, `nvr ≤ nv`: the numbers of variables the combined polynomial and
blinding polynomial are declared over): whenever the prover returns a proof, the verifier —
consuming the same challenges — accepts the commitments `g·pⱼ(β⃗) + γ·rⱼ(β⃗)` with the true values. -/
theorem pst13_complete_list (g γ h : F) (β : List F) (ts : List Term) (nv s D m nvp nvr : Nat)
    (ps rs : List (MVPoly F)) (z ξs : List F) (π : PST.Proof F)
    (hnvp : nvp ≤ nv) (hnvr : nvr ≤ nv)
    (hlen : ps.length = rs.length)
    (hps : ∀ p ∈ ps, polyWf p = true ∧ polyVarsBelow nvp p = true)
    (hrs : ∀ r ∈ rs, polyWf r = true ∧ polyVarsBelow nvr r = true ∧
      ∀ t ∈ termsOf r, PST.isUni t = true)
    (hβ : nv ≤ β.length) (hz : nv ≤ z.length)
    (ho : PST.open (PST.wfCK g γ β ts nv s D m) nvp nvr ps z rs ξs = .ok π) :
    PST.check (PST.wfVK g γ h β nv s D) (PST.comms g γ β ps rs) z
      (ps.map (fun p => evalMV p z)) π ξs = .ok true :=
  PST.open_check_complete g γ h β ts nv s D m nvp nvr ps rs z ξs π hnvp hnvr hlen hps hrs hβ hz ho

/-- **What `commit` returns** under a well-formed key: the key-defined value
`g·p(β⃗) + γ·r(β⃗)`, a blinding polynomial of the shape the prover's γ-table lookup assumes, and
only for polynomials within the supported degree. -/
theorem pst13_commit_spec (g γ : F) (β : List F) (ts : List Term) (nv s D m : Nat) (p : MVPoly F)
    (hb : Option Nat) (rng : Bool) (draws : List F) (c : F) (r : MVPoly F) (rest : List F)
    (h : PST.commit (PST.wfCK g γ β ts nv s D m) p hb rng draws = .ok (c, r, rest)) :
    c = g * evalMV p β + γ * evalMV r β ∧ polyWf r = true ∧ polyVarsBelow nv r = true
      ∧ (∀ t ∈ termsOf r, PST.isUni t = true) ∧ degreeMV p ≤ s :=
  PST.commit_spec g γ β ts nv s D m p hb rng draws c r rest h

/-- non-vacuity over `ZMod 101`: key for trapdoor `(2,7)` over the grid-checked monomial list of
`(2,2)`; a hiding commitment to a mixed-monomial polynomial (one blinding draw is `0`, its term is
dropped), its opening at `(10,20)` under challenge `13`, and the accepted check -/
example : PST.commit (PST.wfCK (3 : K) 5 [2, 7] (specTerms 2 2) 2 2 2 3)
    [(4, []), (6, [(1, 1)]), (9, [(0, 1), (1, 1)]), (2, [(0, 2)])] (some 1) true [7, 0, 9, 4, 8, 11]
    = .ok (27, [(7, []), (4, [(1, 1)]), (8, [(1, 2)]), (9, [(0, 2)])], [11]) := by decide
example : PST.open (PST.wfCK (3 : K) 5 [2, 7] (specTerms 2 2) 2 2 2 3) 2 2
    [[(4, []), (6, [(1, 1)]), (9, [(0, 1), (1, 1)]), (2, [(0, 2)])]] [10, 20]
    [[(7, []), (4, [(1, 1)]), (8, [(1, 2)]), (9, [(0, 2)])]] [13] = .ok ⟨[10, 66], some 93⟩ := by
  decide
example : PST.check (PST.wfVK (3 : K) 5 11 [2, 7] 2 2 2) [27] [10, 20] [3] ⟨[10, 66], some 93⟩ [13]
    = .ok true := by decide
example : PST.check (PST.wfVK (3 : K) 5 11 [2, 7] 2 2 2) [27] [10, 20] [4] ⟨[10, 66], some 93⟩ [13]
    = .ok false := by decide

/-- **End to end, ALL `n ≥ 1`, `D ≥ 1`, `s ≤ D`.** `setup`'s term list exists; the key published
for any trapdoor over that list trims to degree `s`; and then every polynomial `p` of degree `≤ s`
in `n` variables — arbitrary mixed monomials — is committed, opened at every point `z`, and the
opening is accepted.  (Stated without hiding; the hiding case is `pst13_commit_total` +
`pst13_open_total` + `pst13_complete` with the same covering key.) -/
theorem pst13_end_to_end (n D s : Nat) (hn : 1 ≤ n) (hD : 1 ≤ D) (hs : s ≤ D) (g γ h : F)
    (β z : List F) (hβ : n ≤ β.length) (hz : n ≤ z.length)
    (p : MVPoly F) (hp : polyWf p = true) (hpv : polyVarsBelow n p = true) (hd : degreeMV p ≤ s)
    (ξ : F) :
    ∃ l ck vk c π, setupTerms n D = .ok l ∧ PST.trim (PST.wfUP g γ h β l n D) s = .ok (ck, vk)
      ∧ PST.commit ck p none true [] = .ok (c, [], [])
      ∧ PST.open ck n n [p] z [[]] [ξ] = .ok π
      ∧ PST.check vk [c] z [evalMV p z] π [ξ] = .ok true := by
  obtain ⟨l, hl, _, hmem⟩ := Comb.setupTerms_general n D hn hD
  have h0 : ([] : Term) ∈ l := (hmem []).2 ⟨rfl, rfl, Nat.zero_le _⟩
  have htrim := PST.trim_wfUP g γ h β l n D s hs h0
  have hcov := PST.covered_mem_filter n s l (fun t ht =>
    (hmem t).2 ⟨ht.1, ht.2.1, Nat.le_trans ht.2.2 hs⟩)
  obtain ⟨⟨c, r, rest⟩, hc⟩ := PST.commit_ok g γ β _ n s D hcov p hp hpv hd none []
    (fun b hb => by cases hb)
  obtain ⟨hr, hrest⟩ := PST.commit_none _ p true [] c r rest hc
  subst hr; subst hrest
  obtain ⟨π, ho⟩ := PST.open_ok g γ β _ n s D (s + 1) hcov n n (Nat.le_refl _) [p] [[]] z [ξ]
    (fun q hq => by simp only [List.mem_singleton] at hq; subst hq; exact ⟨hp, hpv, hd⟩)
    (fun r hr t ht => by simp only [List.mem_singleton] at hr; subst hr; simp [termsOf] at ht)
    (by simp) hz
  refine ⟨l, _, _, c, π, hl, htrim, hc, ho, ?_⟩
  exact pst13_complete g γ h β _ n s D (s + 1) p none true [] c [] [] z ξ [] π hp hpv hβ hz hc ho

/-- non-vacuity of the end-to-end hypotheses: the example polynomial has degree `2 ≤ s = D = 2`
in `n = 2` variables -/
example : degreeMV ([(4, []), (6, [(1, 1)]), (9, [(0, 1), (1, 1)]), (2, [(0, 2)])] : MVPoly K) ≤ 2 := by
  decide

/-! ### (f) the verifier decides exactly `defect = 0`; changed claims are refused -/

/-- **`check` is the published relation.** Whenever the accumulation does not run out of
challenges, the proof has exactly one witness per key variable (otherwise the code returns
`IncorrectInputLength`) and no more witnesses than the key has `beta_h` / the point has
coordinates (otherwise the code panics), `check` accepts iff the explicit defect
`(Σξⱼ(Cⱼ − vⱼ·g) − rv·γ)·h − Σᵢ Wᵢ·(βᵢh − zᵢ·h)` is zero — for an arbitrary verifier key. -/
theorem check_iff_defect (vk : PST.VK F) (cs z vs : List F) (π : PST.Proof F) (ξs : List F)
    (a : F × F × List F) (hacc : PST.accumulate 0 0 cs vs ξs = .ok a)
    (hnv : π.w.length = vk.numVars)
    (hlen : π.w.length ≤ vk.betaH.length ∧ π.w.length ≤ z.length) :
    PST.check vk cs z vs π ξs = .ok true ↔ PST.defect vk cs z vs π ξs = 0 :=
  PST.check_iff_defect vk cs z vs π ξs a hacc hnv hlen

/-- non-vacuity: the accumulation of the example claim succeeds (`27·13`, `3·13` in `ZMod 101`) -/
example : PST.accumulate (0 : K) 0 [27] [3] [13] = .ok (48, 39, []) := by decide

/-- **Wrong value refused.** The honest proof for `(p, z)` against the claim `p(z) + δ`:
rejected whenever `δ·ξ·g·h ≠ 0`. -/
theorem wrong_value_rejected (g γ h : F) (β : List F) (ts : List Term) (nv s D m : Nat)
    (p : MVPoly F) (hb : Option Nat) (rng : Bool) (draws : List F) (c : F) (r : MVPoly F)
    (rest : List F) (z : List F) (ξ : F) (ξs : List F) (π : PST.Proof F) (δ : F)
    (hp : polyWf p = true) (hpv : polyVarsBelow nv p = true)
    (hβ : nv ≤ β.length) (hz : nv ≤ z.length)
    (hc : PST.commit (PST.wfCK g γ β ts nv s D m) p hb rng draws = .ok (c, r, rest))
    (ho : PST.open (PST.wfCK g γ β ts nv s D m) nv nv [p] z [r] (ξ :: ξs) = .ok π)
    (hne : δ * ξ * g * h ≠ 0) :
    PST.check (PST.wfVK g γ h β nv s D) [c] z [evalMV p z + δ] π (ξ :: ξs) = .ok false := by
  have := PST.single_check_eq g γ h β ts nv s D m nv nv p hb rng draws c r rest z ξ ξs π 0 δ
    (Nat.le_refl _) (Nat.le_refl _) hp hpv
    (PST.commit_spec g γ β ts nv s D m p hb rng draws c r rest hc).2.2.1 hβ hz hc ho
  simp only [add_zero] at this
  rw [this]
  congr 1
  rw [decide_eq_false_iff_not]
  intro h0
  apply hne
  linear_combination -h0

/-- **Other commitment refused.** The honest proof against a commitment moved by `dc`
(a commitment to another polynomial, or any other group element): rejected whenever `dc·ξ·h ≠ 0`. -/
theorem other_commitment_rejected (g γ h : F) (β : List F) (ts : List Term) (nv s D m : Nat)
    (p : MVPoly F) (hb : Option Nat) (rng : Bool) (draws : List F) (c : F) (r : MVPoly F)
    (rest : List F) (z : List F) (ξ : F) (ξs : List F) (π : PST.Proof F) (dc : F)
    (hp : polyWf p = true) (hpv : polyVarsBelow nv p = true)
    (hβ : nv ≤ β.length) (hz : nv ≤ z.length)
    (hc : PST.commit (PST.wfCK g γ β ts nv s D m) p hb rng draws = .ok (c, r, rest))
    (ho : PST.open (PST.wfCK g γ β ts nv s D m) nv nv [p] z [r] (ξ :: ξs) = .ok π)
    (hne : dc * ξ * h ≠ 0) :
    PST.check (PST.wfVK g γ h β nv s D) [c + dc] z [evalMV p z] π (ξ :: ξs) = .ok false := by
  have := PST.single_check_eq g γ h β ts nv s D m nv nv p hb rng draws c r rest z ξ ξs π dc 0
    (Nat.le_refl _) (Nat.le_refl _) hp hpv
    (PST.commit_spec g γ β ts nv s D m p hb rng draws c r rest hc).2.2.1 hβ hz hc ho
  simp only [add_zero] at this
  rw [this]
  congr 1
  rw [decide_eq_false_iff_not]
  intro h0
  apply hne
  linear_combination h0

/-- non-vacuity of the rejection hypotheses on the example above: `δ = 1`, `ξ = 13`, `g = 3`,
`h = 11` -/
example : (1 : K) * 13 * 3 * 11 ≠ 0 := by decide

end PCV.C15
