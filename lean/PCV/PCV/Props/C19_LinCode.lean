/-
  Property C19 (succinctness) — linear-code PCS: shape of opening proofs and commitments.
  (The dimension-balancing inequality is in Props/C19Dim.lean.)
-/
import PCV.Proofs.LinCodeProto
import PCV.Proofs.LinCodeToy

namespace PCV.C19
open PCV PCV.LinCode PCV.Merkle
variable {F : Type} [Field F] [DecidableEq F] {D : Type} [DecidableEq D]
set_option linter.unusedSectionVars false

/-- **Shape of one opening proof** (any state `open` accepts): with `t` transcript positions,
`columns.length = paths.length = t`; `v` has `n_cols` entries; the well-formedness vector is present
exactly when the flag is on and then has `n_cols` entries; every column has one entry per row of the
encoded matrix; every Merkle path carries `⌈log₂ #leaves⌉` hashes (leaf sibling + inner siblings). -/
theorem lincode_proof_shape (pp : Params F D) (point : Point F) (c : Comm D) (st : State F D)
    (o : Oracle F) (π : Proof F D) (h : openOne pp point c st o = .ok π) :
    π.opening.columns.length = o.indices.length ∧
    π.opening.paths.length = o.indices.length ∧
    π.opening.v.length = st.mat.m ∧
    (∀ col ∈ π.opening.columns, col.length = st.extMat.rows.length) ∧
    (∀ p ∈ π.opening.paths, p.authPath.length + 1 = ceilLog2 st.leaves.length) ∧
    π.wf.isSome = pp.checkWf ∧ (∀ w, π.wf = some w → w.length = st.mat.m) :=
  openOne_shape pp point c st o π h

/-- **Shape in terms of the commitment's metadata**, for the state `commit` returns:
`v.length = n_cols`, columns `n_rows` long, paths `⌈log₂ n_ext_cols⌉` deep. -/
theorem lincode_proof_shape_committed (pp : Params F D) (point : Point F) (coeffs : List F)
    (E : List F → List F) (k : Nat) (h : Encodes pp coeffs E k) (c : Comm D) (st : State F D)
    (o : Oracle F) (π : Proof F D) (hc : commit pp coeffs = .ok (c, st))
    (ho : openOne pp point c st o = .ok π) :
    π.opening.columns.length = o.indices.length ∧
    π.opening.paths.length = o.indices.length ∧
    π.opening.v.length = c.nCols ∧
    (∀ col ∈ π.opening.columns, col.length = c.nRows) ∧
    (∀ p ∈ π.opening.paths, p.authPath.length + 1 = ceilLog2 c.nExtCols) ∧
    (∀ w, π.wf = some w → w.length = c.nCols) := by
  rw [commit_eq pp coeffs E k h] at hc
  cases hc
  obtain ⟨h1, h2, h3, h4, h5, _, h7⟩ := openOne_shape pp point _ _ o π ho
  refine ⟨h1, h2, h3, ?_, ?_, h7⟩
  · intro col hcol
    rw [h4 col hcol]
    simp [extOf, coeffMat_rows_length]
  · intro p hp
    rw [h5 p hp, leavesOf_length]
    rfl

/-- one proof per zipped (commitment, state) pair -/
theorem lincode_proof_count (pp : Params F D) (point : Point F) (cs : List (Comm D))
    (sts : List (State F D)) (os : List (Oracle F)) (πs : List (Proof F D))
    (hlen : min cs.length sts.length ≤ os.length)
    (h : openAll pp point cs sts os = .ok πs) : πs.length = min cs.length sts.length := by
  induction cs generalizing sts os πs with
  | nil => simp [openAll] at h; subst h; simp
  | cons c cs ih =>
    cases sts with
    | nil => simp [openAll] at h; subst h; simp
    | cons st sts =>
      cases os with
      | nil => simp at hlen
      | cons o os =>
        simp only [openAll] at h
        cases h1 : openOne pp point c st o with
        | error e => rw [h1] at h; cases h
        | ok π =>
          rw [h1] at h
          simp only at h
          cases h2 : openAll pp point cs sts os with
          | error e => rw [h2] at h; cases h
          | ok rest =>
            rw [h2] at h
            cases h
            have := ih sts os rest (by simp at hlen; omega) h2
            simp [this]

/-- the commitment is three machine words and one digest, whatever the polynomial -/
theorem lincode_commitment_constant (pp : Params F D) (coeffs : List F) (c : Comm D) (st : State F D)
    (_h : commit pp coeffs = .ok (c, st)) : c = ⟨c.nRows, c.nCols, c.nExtCols, c.root⟩ := rfl

/-! non-vacuity: the toy proof has 3 columns of 2 entries, 3 paths of depth 2, `v` of 2 entries -/
example : (match commit (toyPP true) [1, 2, 3] with
    | .ok (c, st) =>
      match openOne (toyPP true) (.uni 5) c st ⟨[7, 9], [2, 0, 3]⟩ with
      | .ok π => decide (π.opening.columns.map List.length = [2, 2, 2] ∧
          π.opening.paths.map (fun p => p.authPath.length + 1) = [2, 2, 2] ∧
          π.opening.v.length = 2 ∧ π.wf.map List.length = some 2)
      | .error _ => false
    | .error _ => false) = true := by decide

end PCV.C19
