/-
  Property C03 (no crafted or malformed proof proves a false claim) — linear-code PCS, the shape and
  single-component classes of the catalogue, on the exact model of `LinearCodePCS::check` after the
  fixes D5 (the bool of `Path::verify` is tested) and D6 (`v` and the well-formedness vector must have
  `n_cols` entries).  "Refuses" = the verifier returns `Err(..)` / aborts; it never answers `Ok(_)`.
-/
import PCV.Proofs.LinCodeProto
import PCV.Proofs.LinCodeToy

namespace PCV.C03
open PCV PCV.LinCode PCV.Merkle
variable {F : Type} [Field F] [DecidableEq F] {D : Type} [DecidableEq D]
set_option linter.unusedSectionVars false

/-- `v` of length `≠ n_cols` ⇒ `Err(InvalidCommitment)`, whatever the rest of the proof and the
claimed value. -/
theorem lincode_v_length_refused (pp : Params F D) (point : Point F) (c : Comm D) (value : F)
    (π : Proof F D) (o : Oracle F) (h : π.opening.v.length ≠ c.nCols) :
    checkOne pp point c value π o = .error .invalidCommitment := by
  simp [checkOne, checkPre, h]

/-- well-formedness required but absent ⇒ `Err(InvalidCommitment)` -/
theorem lincode_wf_missing_refused (pp : Params F D) (point : Point F) (c : Comm D) (value : F)
    (π : Proof F D) (o : Oracle F) (hwf : pp.checkWf = true) (h : π.wf = none) :
    checkOne pp point c value π o = .error .invalidCommitment := by
  have hr : readWf pp.checkWf c.nCols π.wf = .error .invalidCommitment := by
    simp [readWf, hwf, h]
  unfold checkOne checkPre
  by_cases hv : π.opening.v.length ≠ c.nCols
  · simp [hv]
  · simp [hv, hr]

/-- well-formedness vector of length `≠ n_cols` ⇒ `Err(InvalidCommitment)` -/
theorem lincode_wf_length_refused (pp : Params F D) (point : Point F) (c : Comm D) (value : F)
    (π : Proof F D) (o : Oracle F) (w : List F) (hwf : pp.checkWf = true) (h : π.wf = some w)
    (hl : w.length ≠ c.nCols) :
    checkOne pp point c value π o = .error .invalidCommitment := by
  have hr : readWf pp.checkWf c.nCols π.wf = .error .invalidCommitment := by
    simp [readWf, hwf, h, hl]
  unfold checkOne checkPre
  by_cases hv : π.opening.v.length ≠ c.nCols
  · simp [hv]
  · simp [hv, hr]

/-- **The stretched-vector forgery of D6 is refused**: an opening vector (or a well-formedness
vector) with `2·n_cols` entries — e.g. `v'[2i] = vᵢ, v'[2i+1] = 0`, which re-encodes over the doubled
FFT domain to the same column entries — never passes, whatever columns and (valid) paths come with
it. -/
theorem lincode_stretched_refused (pp : Params F D) (point : Point F) (c : Comm D) (value : F)
    (π : Proof F D) (o : Oracle F) (hn : 0 < c.nCols)
    (h : π.opening.v.length = 2 * c.nCols ∨
      (pp.checkWf = true ∧ ∃ w, π.wf = some w ∧ w.length = 2 * c.nCols)) :
    checkOne pp point c value π o = .error .invalidCommitment := by
  rcases h with h | ⟨hwf, w, hw, hl⟩
  · exact lincode_v_length_refused pp point c value π o (by omega)
  · exact lincode_wf_length_refused pp point c value π o w hwf hw (by omega)

/-- no path for an opened column (fewer paths than columns) ⇒ refuse -/
theorem lincode_path_missing_refused (pp : Params F D) (point : Point F) (c : Comm D) (value : F)
    (π : Proof F D) (o : Oracle F) (j : Nat) (col : List F) (q : Nat)
    (hc : π.opening.columns[j]? = some col) (hq : o.indices[j]? = some q)
    (hp : π.opening.paths[j]? = none) :
    ∃ e, checkOne pp point c value π o = .error e := by
  apply checkOne_error_of_not_pre
  rintro a ⟨_, _, hpaths, _⟩
  obtain ⟨p, hp', _⟩ := hpaths j col q hc hq
  rw [hp] at hp'; cases hp'

/-- a path whose leaf position is not the transcript-derived position ⇒ refuse -/
theorem lincode_leaf_index_refused (pp : Params F D) (point : Point F) (c : Comm D) (value : F)
    (π : Proof F D) (o : Oracle F) (j : Nat) (col : List F) (q : Nat) (p : Path D)
    (hc : π.opening.columns[j]? = some col) (hq : o.indices[j]? = some q)
    (hp : π.opening.paths[j]? = some p) (hne : p.leafIndex ≠ q) :
    ∃ e, checkOne pp point c value π o = .error e := by
  apply checkOne_error_of_not_pre
  rintro a ⟨_, _, hpaths, _⟩
  obtain ⟨p', hp', hl, _⟩ := hpaths j col q hc hq
  rw [hp] at hp'; cases hp'
  exact hne hl

/-- **D5**: a path that does not recompute the root (sibling changed, path of another leaf, path
from another tree, …) ⇒ refuse.  No collision assumption is needed for this direction. -/
theorem lincode_bad_path_refused (pp : Params F D) (point : Point F) (c : Comm D) (value : F)
    (π : Proof F D) (o : Oracle F) (j : Nat) (col : List F) (q : Nat) (p : Path D)
    (hc : π.opening.columns[j]? = some col) (hq : o.indices[j]? = some q)
    (hp : π.opening.paths[j]? = some p)
    (hne : recomputeRoot pp.hs (pp.colHash col) p ≠ c.root) :
    ∃ e, checkOne pp point c value π o = .error e := by
  apply checkOne_error_of_not_pre
  rintro a ⟨_, _, hpaths, _⟩
  obtain ⟨p', hp', _, hr⟩ := hpaths j col q hc hq
  rw [hp] at hp'; cases hp'
  exact hne hr

/-- fewer columns than transcript positions ⇒ refuse (index panic) -/
theorem lincode_column_missing_refused (pp : Params F D) (point : Point F) (c : Comm D) (value : F)
    (π : Proof F D) (o : Oracle F) (j q : Nat) (hq : o.indices[j]? = some q)
    (hc : π.opening.columns[j]? = none) :
    ∃ e, checkOne pp point c value π o = .error e := by
  apply checkOne_error_of_not_pre
  rintro a ⟨_, _, _, w, b, _, _, _, _, _, hcols, _⟩
  obtain ⟨col, x, hc', _⟩ := hcols j q hq
  rw [hc] at hc'; cases hc'

/-- an opened column that does not match `E(v)` at its position ⇒ refuse -/
theorem lincode_column_mismatch_refused (pp : Params F D) (point : Point F) (c : Comm D) (value : F)
    (π : Proof F D) (o : Oracle F) (j q : Nat) (col w a b : List F) (x : F)
    (hq : o.indices[j]? = some q) (hc : π.opening.columns[j]? = some col)
    (hw : pp.enc π.opening.v = .ok w) (ht : tensor point c.nCols c.nRows = .ok (a, b))
    (hx : w[q]? = some x) (hne : dot b col ≠ x) :
    ∃ e, checkOne pp point c value π o = .error e := by
  apply checkOne_error_of_not_pre
  rintro a' ⟨_, _, _, w', b', hw', _, ht', _, _, hcols, _⟩
  rw [hw] at hw'; cases hw'
  rw [ht] at ht'; cases ht'
  obtain ⟨col', x', hc', hx', hd⟩ := hcols j q hq
  rw [hc] at hc'; cases hc'
  rw [hx] at hx'; cases hx'
  exact hne hd

/-- an opened column that does not match `E(wf)` under the coefficients `r` ⇒ refuse -/
theorem lincode_wf_column_mismatch_refused (pp : Params F D) (point : Point F) (c : Comm D)
    (value : F) (π : Proof F D) (o : Oracle F) (j q : Nat) (col wf ww : List F) (y : F)
    (hflag : pp.checkWf = true) (hq : o.indices[j]? = some q)
    (hc : π.opening.columns[j]? = some col) (hwf : π.wf = some wf) (hw : pp.enc wf = .ok ww)
    (hy : ww[q]? = some y) (hne : dot o.r col ≠ y) :
    ∃ e, checkOne pp point c value π o = .error e := by
  apply checkOne_error_of_not_pre
  rintro a' ⟨_, _, _, w', b', _, _, _, _, _, _, hwfc⟩
  obtain ⟨wf', ww', h1, h2, h3⟩ := hwfc hflag
  rw [hwf] at h1; cases h1
  rw [hw] at h2; cases h2
  obtain ⟨col', y', hc', hy', hd⟩ := h3 j q hq
  rw [hc] at hc'; cases hc'
  rw [hy] at hy'; cases hy'
  exact hne hd

/-- a position outside the encoding of `v` (inconsistent metadata) ⇒ refuse (index panic) -/
theorem lincode_position_out_of_range_refused (pp : Params F D) (point : Point F) (c : Comm D)
    (value : F) (π : Proof F D) (o : Oracle F) (j q : Nat) (w : List F)
    (hq : o.indices[j]? = some q) (hw : pp.enc π.opening.v = .ok w) (hx : w[q]? = none) :
    ∃ e, checkOne pp point c value π o = .error e := by
  apply checkOne_error_of_not_pre
  rintro a' ⟨_, _, _, w', b', hw', _, _, _, _, hcols, _⟩
  rw [hw] at hw'; cases hw'
  obtain ⟨col', x', _, hx', _⟩ := hcols j q hq
  rw [hx] at hx'; cases hx'

/-- **Tampered metadata**: the codeword length `n_ext_cols` announced by the commitment fixes how
many columns are opened and where; if it is not the length of `E(v)` the verifier refuses — so a
commitment that publishes the honest root with a smaller `n_ext_cols` (opened at a prefix of the
positions only, where `v + δ·(X−1)(X−ω)` encodes like `v`) opens to nothing. -/
theorem lincode_ext_cols_mismatch_refused (pp : Params F D) (point : Point F) (c : Comm D)
    (value : F) (π : Proof F D) (o : Oracle F) (w : List F)
    (hw : pp.enc π.opening.v = .ok w) (hne : w.length ≠ c.nExtCols) :
    ∃ e, checkOne pp point c value π o = .error e := by
  apply checkOne_error_of_not_pre
  rintro a' ⟨_, _, _, w', b', hw', hl, _⟩
  rw [hw] at hw'; cases hw'
  exact hne hl

/-- the encoder refuses `v` (Brakedown, wrong length) ⇒ `check` refuses -/
theorem lincode_encode_refused (pp : Params F D) (point : Point F) (c : Comm D) (value : F)
    (π : Proof F D) (o : Oracle F) (e : Err) (hw : pp.enc π.opening.v = .error e) :
    ∃ e', checkOne pp point c value π o = .error e' := by
  apply checkOne_error_of_not_pre
  rintro a' ⟨_, _, _, w', b', hw', _⟩
  rw [hw] at hw'; cases hw'

/-- **Fewer proofs than checked claims ⇒ refuse**; a refusal or `Ok(false)` at any checked position
makes the whole `check` not accept: `check = Ok(true)` needs every zipped position to pass. -/
theorem lincode_check_needs_every_position (pp : Params F D) (point : Point F)
    (cs : List (Comm D)) (vals : List F) (πs : List (Proof F D)) (os : List (Oracle F))
    (h : checkAll pp point cs vals πs os = .ok true) (i : Nat) (c : Comm D) (val : F)
    (hc : cs[i]? = some c) (hv : vals[i]? = some val) :
    ∃ π o, πs[i]? = some π ∧ os[i]? = some o ∧ checkOne pp point c val π o = .ok true :=
  (checkAll_ok_true_iff pp point cs vals πs os).1 h i c val hc hv

/-! non-vacuity on the toy instance: each mutation of an honest proof is refused by the model -/
example : toyRunWith true (.uni 5) [1, 2, 3] ⟨[7, 9], [2, 0, 3]⟩ 9
    (fun π => { π with opening := { π.opening with v := [π.opening.v.getD 0 0, 0, π.opening.v.getD 1 0, 0] } })
    = .error .invalidCommitment := by decide
example : toyRunWith true (.uni 5) [1, 2, 3] ⟨[7, 9], [2, 0, 3]⟩ (evalPoly [1, 2, 3] 5)
    (fun π => { π with wf := none }) = .error .invalidCommitment := by decide
example : toyRunWith true (.uni 5) [1, 2, 3] ⟨[7, 9], [2, 0, 3]⟩ (evalPoly [1, 2, 3] 5)
    (fun π => { π with opening := { π.opening with
      paths := π.opening.paths.map (fun p => { p with leafSibling := p.leafSibling + 1 }) } })
    = .error .invalidCommitment := by decide
example : toyRunWith true (.uni 5) [1, 2, 3] ⟨[7, 9], [2, 0, 3]⟩ (evalPoly [1, 2, 3] 5)
    (fun π => { π with opening := { π.opening with
      paths := π.opening.paths.map (fun p => { p with leafIndex := p.leafIndex + 1 }) } })
    = .error .invalidCommitment := by decide
example : toyRunWith true (.uni 5) [1, 2, 3] ⟨[7, 9], [2, 0, 3]⟩ (evalPoly [1, 2, 3] 5)
    (fun π => { π with opening := { π.opening with paths := π.opening.paths.take 2 } })
    = .error .abort := by decide
example : toyRunWith true (.uni 5) [1, 2, 3] ⟨[7, 9], [2, 0, 3]⟩ (evalPoly [1, 2, 3] 5)
    (fun π => { π with opening := { π.opening with columns := π.opening.columns.take 2 } })
    = .error .abort := by decide
example : toyRunWith true (.uni 5) [1, 2, 3] ⟨[7, 9], [2, 0, 3]⟩ (evalPoly [1, 2, 3] 5) id
    = .ok true := by decide
/-- the honest toy proof against the honest root published with `n_ext_cols = 2` (positions 0, 1) -/
example : (match commit (toyPP true) [1, 2, 3] with
    | .ok (c, st) =>
      match openOne (toyPP true) (.uni 5) c st ⟨[7, 9], [1, 0]⟩ with
      | .ok π => checkOne (toyPP true) (.uni 5) { c with nExtCols := 2 } (evalPoly [1, 2, 3] 5) π
          ⟨[7, 9], [1, 0]⟩
      | .error e => .error e
    | .error e => .error e) = .error .invalidCommitment := by decide

end PCV.C03
