/-
  Property C01 (MarlinKZG10) — completeness with degree bounds and hiding, any number of polynomials.
-/
import PCV.Proofs.MarlinMore
import PCV.Props.Examples

namespace PCV.C01
open PCV Marlin
variable {F : Type} [Field F] [DecidableEq F]

/-- **MarlinKZG10, single point.** Keys trimmed from parameters with trapdoor `β`; any list of
polynomials with any mix of degree bounds and hiding bounds, committed by the library's committer
(`hcommit`: each commitment/state comes from `commitOne`); any point; any challenge list: if the
prover answers, the verifier accepts the true values and consumes exactly the same challenges.
`hnd` is the non-degeneracy condition under which the *code* keeps the shifted blinding value (the
combined blinding polynomial is not identically zero while a shifted one is non-zero at `z`); it
holds trivially without hiding and fails only on a proper algebraic set of challenge values. -/
theorem marlin_complete (g γ β h : F) (D s hb : Nat) (bounds : Option (List Nat))
    (ck : CK F) (vk : VK F)
    (ht : trim (wfParams g γ β h D) s hb bounds = .ok (ck, vk))
    (z : F) (l : List (Trip F))
    (hcommit : ∀ t ∈ l, ∃ rng draws rest, commitOne ck t.1 rng draws = .ok (t.2.2.comm, t.2.1, rest)
      ∧ t.2.2.label = t.1.label ∧ t.2.2.bound = t.1.bound)
    (ξs : List F) (π : KZG.Proof F) (rest : List F)
    (ho : Marlin.open ck (l.map (·.1)) z (l.map (·.2.1)) ξs = .ok (π, rest))
    (hnd : ∀ acc r, openLoop ck z (l.map (·.1)) (l.map (·.2.1)) ξs ⟨[], [], [], [], [], false⟩
        = .ok (acc, r) → isZeroPoly acc.r = true → evalPoly acc.sr z = 0) :
    check vk (l.map (·.2.2)) z (l.map fun t => evalPoly t.1.poly z) π ξs = .ok (true, rest) := by
  obtain ⟨hwf, _⟩ := trim_wf g γ β h D s hb bounds ck vk ht
  have hboth : ∀ t ∈ l, Honest g γ β D t ∧ RandLen (hb + 2) t := by
    intro t ht'
    obtain ⟨rng, draws, rest', hc, hl1, hl2⟩ := hcommit t ht'
    have := commitOne_honest hwf t.1 rng draws t.2.2.comm t.2.1 rest' hc
    obtain ⟨⟨a1, a2, a3, a4, a5⟩, b1, b2⟩ := this
    exact ⟨⟨hl2, a2, a3, a4, a5⟩, b1, b2⟩
  exact open_check_complete hwf z l (fun t ht' => (hboth t ht').1) (fun t ht' => (hboth t ht').2)
    ξs π rest ho hnd

/-- **MarlinKZG10 without hiding**: the non-degeneracy side condition disappears. -/
theorem marlin_complete_nonhiding {ck : CK F} {vk : VK F} {g γ β h : F} {D n m : Nat}
    (hwf : WF ck vk g γ β h D n m) (z : F) (l : List (Trip F))
    (hh : ∀ t ∈ l, Honest g γ β D t)
    (hnh : ∀ t ∈ l, t.2.1.rand = [] ∧ ∀ rs, t.2.1.shifted = some rs → rs = [])
    (ξs : List F) (π : KZG.Proof F) (rest : List F)
    (ho : Marlin.open ck (l.map (·.1)) z (l.map (·.2.1)) ξs = .ok (π, rest))
    (hsr : ∀ acc r, openLoop ck z (l.map (·.1)) (l.map (·.2.1)) ξs ⟨[], [], [], [], [], false⟩
        = .ok (acc, r) → evalPoly acc.sr z = 0) :
    check vk (l.map (·.2.2)) z (l.map fun t => evalPoly t.1.poly z) π ξs = .ok (true, rest) :=
  open_check_complete hwf z l hh
    (fun t ht' => ⟨by rw [(hnh t ht').1]; exact pnorm_nil_le m,
      fun rs hrs => by rw [(hnh t ht').2 rs hrs]; exact pnorm_nil_le m⟩)
    ξs π rest ho (fun acc r hl _ => hsr acc r hl)

/-- non-vacuity: a bounded, hiding Marlin transcript exists in the model and is accepted
(`D = 3`, bound 2, hiding 1 over `ZMod 101`) -/
def exCK : CK K := ⟨[3, 6, 12, 24], some [6, 12, 24], [5, 10, 20], some [2], 3⟩
def exVK : VK K := ⟨⟨3, 5, 7, 14⟩, some [(2, 6)], 3, 3⟩
def exPoly : LPoly K := ⟨[112], [1, 2, 3], some 2, some 1⟩
example : trim (wfParams (3 : K) 5 2 7 3) 3 1 (some [2]) = .ok (exCK, exVK) := by decide
example : commitOne exCK exPoly true [7, 8, 9, 4, 5, 6]
    = .ok (⟨43, some 90⟩, ⟨[7, 8, 9], some [4, 5, 6]⟩, []) := by decide
example : Marlin.open exCK [exPoly] 10 [⟨[7, 8, 9], some [4, 5, 6]⟩] [11, 13]
    = .ok (⟨49, some 68⟩, []) := by decide
example : check exVK [⟨[112], ⟨43, some 90⟩, some 2⟩] 10 [evalPoly [1, 2, 3] 10] ⟨49, some 68⟩ [11, 13]
    = .ok (true, []) := by decide

end PCV.C01
