/-
  Property C02 — evaluation binding against the honest proof, MarlinPST13.  Restatements of the
  PST13 theorems of `PCV/Props/C15.lean` for the C02 check.
-/
import PCV.Props.C15

namespace PCV.C02
open PCV PCV.MV PCV.C15Spec
variable {F : Type} [Field F] [DecidableEq F]

/-- **PST13 `check` decides exactly `defect = 0`** (arbitrary verifier key; whenever it does not
refuse: one witness per key variable, key and point long enough). -/
theorem pst13_check_iff_defect (vk : PST.VK F) (cs z vs : List F) (π : PST.Proof F) (ξs : List F)
    (a : F × F × List F) (hacc : PST.accumulate 0 0 cs vs ξs = .ok a)
    (hnv : π.w.length = vk.numVars)
    (hlen : π.w.length ≤ vk.betaH.length ∧ π.w.length ≤ z.length) :
    PST.check vk cs z vs π ξs = .ok true ↔ PST.defect vk cs z vs π ξs = 0 :=
  C15.check_iff_defect vk cs z vs π ξs a hacc hnv hlen

/-- **PST13: the verifier's decision on an arbitrary changed claim** against the honest proof:
`check [c + dc] z [p(z) + dv] π` decides `(dc − g·dv)·ξ·h = 0`. -/
theorem pst13_honest_defect (g γ h : F) (β : List F) (ts : List Term) (nv s D m nvp nvr : Nat)
    (p : MVPoly F)
    (hb : Option Nat) (rng : Bool) (draws : List F) (c : F) (r : MVPoly F) (rest : List F)
    (z : List F) (ξ : F) (ξs : List F) (π : PST.Proof F) (dc dv : F)
    (hnvp : nvp ≤ nv) (hnvr : nvr ≤ nv)
    (hp : polyWf p = true) (hpv : polyVarsBelow nvp p = true) (hrv : polyVarsBelow nvr r = true)
    (hβ : nv ≤ β.length) (hz : nv ≤ z.length)
    (hc : PST.commit (PST.wfCK g γ β ts nv s D m) p hb rng draws = .ok (c, r, rest))
    (ho : PST.open (PST.wfCK g γ β ts nv s D m) nvp nvr [p] z [r] (ξ :: ξs) = .ok π) :
    PST.check (PST.wfVK g γ h β nv s D) [c + dc] z [evalMV p z + dv] π (ξ :: ξs)
      = .ok (decide ((dc - g * dv) * ξ * h = 0)) :=
  PST.single_check_eq g γ h β ts nv s D m nvp nvr p hb rng draws c r rest z ξ ξs π dc dv hnvp hnvr
    hp hpv hrv hβ hz hc ho

/-- **PST13: wrong value refused** whenever `δ·ξ·g·h ≠ 0`. -/
theorem pst13_wrong_value_rejected (g γ h : F) (β : List F) (ts : List Term) (nv s D m : Nat)
    (p : MVPoly F) (hb : Option Nat) (rng : Bool) (draws : List F) (c : F) (r : MVPoly F)
    (rest : List F) (z : List F) (ξ : F) (ξs : List F) (π : PST.Proof F) (δ : F)
    (hp : polyWf p = true) (hpv : polyVarsBelow nv p = true)
    (hβ : nv ≤ β.length) (hz : nv ≤ z.length)
    (hc : PST.commit (PST.wfCK g γ β ts nv s D m) p hb rng draws = .ok (c, r, rest))
    (ho : PST.open (PST.wfCK g γ β ts nv s D m) nv nv [p] z [r] (ξ :: ξs) = .ok π)
    (hne : δ * ξ * g * h ≠ 0) :
    PST.check (PST.wfVK g γ h β nv s D) [c] z [evalMV p z + δ] π (ξ :: ξs) = .ok false :=
  C15.wrong_value_rejected g γ h β ts nv s D m p hb rng draws c r rest z ξ ξs π δ hp hpv hβ hz hc ho
    hne

/-- **PST13: another commitment refused** whenever `dc·ξ·h ≠ 0`. -/
theorem pst13_other_commitment_rejected (g γ h : F) (β : List F) (ts : List Term) (nv s D m : Nat)
    (p : MVPoly F) (hb : Option Nat) (rng : Bool) (draws : List F) (c : F) (r : MVPoly F)
    (rest : List F) (z : List F) (ξ : F) (ξs : List F) (π : PST.Proof F) (dc : F)
    (hp : polyWf p = true) (hpv : polyVarsBelow nv p = true)
    (hβ : nv ≤ β.length) (hz : nv ≤ z.length)
    (hc : PST.commit (PST.wfCK g γ β ts nv s D m) p hb rng draws = .ok (c, r, rest))
    (ho : PST.open (PST.wfCK g γ β ts nv s D m) nv nv [p] z [r] (ξ :: ξs) = .ok π)
    (hne : dc * ξ * h ≠ 0) :
    PST.check (PST.wfVK g γ h β nv s D) [c + dc] z [evalMV p z] π (ξ :: ξs) = .ok false :=
  C15.other_commitment_rejected g γ h β ts nv s D m p hb rng draws c r rest z ξ ξs π dc hp hpv hβ hz
    hc ho hne

/-- non-vacuity (over `ZMod 101`): the honest proof of the C01 example against the true value and
against value + 1; the rejection hypothesis `δ·ξ·g·h ≠ 0` at `δ = 1, ξ = 13, g = 3, h = 11` -/
example : PST.check (PST.wfVK (3 : K) 5 11 [2, 7] 2 2 2) [27] [10, 20] [3] ⟨[10, 66], some 93⟩ [13]
    = .ok true := by decide
example : PST.check (PST.wfVK (3 : K) 5 11 [2, 7] 2 2 2) [27] [10, 20] [4] ⟨[10, 66], some 93⟩ [13]
    = .ok false := by decide
example : (1 : K) * 13 * 3 * 11 ≠ 0 := by decide
example : PST.accumulate (0 : K) 0 [27] [3] [13] = .ok (48, 39, []) := by decide

end PCV.C02
