/-
  Property C09 — setup and trim, SonicKZG10: the committer / verifier keys are exactly the stated
  sub-lists, windows and per-bound G2 elements of the parameters for `sort(dedup B)`; degree reports
  are truthful; out-of-range requests are refused, in-range requests answered.
-/
import PCV.Proofs.SonicExamples

namespace PCV.C09
open PCV PCV.Sonic
open PCV.Marlin (Label LPoly Query sortDedup)
variable {F : Type} [Field F] [DecidableEq F]

/-- **The plain parts of the keys** (any parameter set): `powers_of_g[..=s]`, the first `shb+2`
γ-powers, the sorted de-duplicated bound list, and `g, γg, h, βh` copied from the parameters. -/
theorem sonic_trim_sublists (pp : UParams F) (s shb : Nat) (bounds : Option (List Nat)) (ck : CK F)
    (vk : VK F) (ht : trim pp s shb bounds = .ok (ck, vk)) :
    ck.powers = pp.powers.take (s + 1) ∧ ck.gammaPowers = pp.gammaPowers.take (shb + 2) ∧
    ck.bounds = bounds.map sortDedup ∧ pp.powers.head? = some vk.g ∧
    vk.gammaG = getD' pp.gammaPowers 0 0 ∧ vk.h = pp.h ∧ vk.betaH = pp.betaH := by
  obtain ⟨_, _, h3, h4, h5, h6, _, h8, h9, h10, _⟩ := trim_inv pp s shb bounds ck vk ht
  exact ⟨h4, h5, h6, h3, h8, h9, h10⟩

/-- `sort(dedup B)` is strictly ascending and has exactly the elements of `B` -/
theorem sonic_trim_bounds_sorted (l : List Nat) :
    (sortDedup l).Pairwise (· < ·) ∧ ∀ d, d ∈ sortDedup l ↔ d ∈ l :=
  ⟨sortDedup_sorted l, fun d => mem_sortDedup d l⟩

/-- **The degree-bound parts** for a non-empty bound list `B` with largest element `b`:
`shifted_powers_of_g = powers_of_g[D-b ..]`; for each `d ∈ sort(dedup B)` the γ-window
`powers_of_gamma_g[D-d ..]` truncated to `min(shb+2, d+2)` entries and the G2 element
`neg_powers_of_h[D-d]`, in ascending order of `d`; and `b ≤ s`. -/
theorem sonic_trim_shifted (pp : UParams F) (s shb : Nat) (l : List Nat) (ck : CK F) (vk : VK F)
    (hne : sortDedup l ≠ []) (ht : trim pp s shb (some l) = .ok (ck, vk)) :
    let D := pp.powers.length - 1
    let b := (sortDedup l).getLastD 0
    b ≤ s ∧ ck.shiftedPowers = some (pp.powers.drop (D - b)) ∧
    ck.shiftedGamma = some ((sortDedup l).map fun d =>
      (d, (pp.gammaPowers.drop (D - d)).take (min (shb + 2) (d + 2)))) ∧
    vk.negH = some ((sortDedup l).map fun d => (d, getD' pp.negPowersH (D - d) 0)) := by
  obtain ⟨_, _, _, _, _, _, _, _, _, _, _, _, hsh⟩ := trim_inv pp s shb (some l) ck vk ht
  obtain ⟨hcase, _⟩ := trimShifted_inv _ _ _ _ _ _ _ _ hsh
  obtain ⟨h1, h2, h3, h4, _⟩ := hcase _ rfl hne
  exact ⟨h1, h2, h3, h4⟩

/-- without enforced bounds (`None` or an empty list) the keys carry no shifted parts -/
theorem sonic_trim_no_bounds (pp : UParams F) (s shb : Nat) (bounds : Option (List Nat)) (ck : CK F)
    (vk : VK F) (hb : bounds = none ∨ bounds = some []) (ht : trim pp s shb bounds = .ok (ck, vk)) :
    ck.shiftedPowers = none ∧ ck.shiftedGamma = none ∧ vk.negH = none := by
  obtain ⟨_, _, _, _, _, _, _, _, _, _, _, _, hsh⟩ := trim_inv pp s shb bounds ck vk ht
  obtain ⟨_, hnone⟩ := trimShifted_inv _ _ _ _ _ _ _ _ hsh
  apply hnone
  rcases hb with hb | hb
  · left; rw [hb]; rfl
  · right; rw [hb]; rfl

/-- **What a bounded polynomial is committed under / verified against**: the `d+1` powers
`powers_of_g[D-d ..= D]`, the truncated γ-window, and `get_shift_power(d) = neg_powers_of_h[D-d]`;
bounds outside `B` have no shift element. -/
theorem sonic_trim_per_bound (pp : UParams F) (s shb : Nat) (l : List Nat) (ck : CK F) (vk : VK F)
    (ht : trim pp s shb (some l) = .ok (ck, vk)) (d : Nat) :
    (d ∈ l → powersFor ck (some d)
        = .ok ⟨pp.powers.drop (pp.powers.length - 1 - d),
               gammaWindow pp.gammaPowers (pp.powers.length - 1) shb d⟩ ∧
      vk.shiftPower d = some (getD' pp.negPowersH (pp.powers.length - 1 - d) 0) ∧ d ≤ s) ∧
    (d ∉ l → vk.shiftPower d = none) :=
  ⟨fun hd => powersFor_general pp s shb l ck vk ht d hd,
   fun hd => shiftPower_none pp s shb (some l) ck vk ht d
     (fun l' hl' => by injection hl' with e; subst e; exact hd)⟩

/-- **Parameters made by `setup` from a trapdoor** (`powers[i] = βⁱ·g`, `gamma[i] = βⁱ·γ`,
`neg_powers_of_h[i] = β^{-i}·h`): the trimmed keys are power lists again, and the G2 element of the
bound `d` is `β^{-(D-d)}·h`. -/
theorem sonic_trim_wf (g γ β bi h : F) (D s shb : Nat) (l : List Nat) (ck : CK F) (vk : VK F)
    (ht : trim (wfPP g γ β bi h D) s shb (some l) = .ok (ck, vk)) (d : Nat) (hd : d ∈ l) :
    ck.powers = powers g β (s + 1) ∧ ck.gammaPowers = powers γ β (shb + 2) ∧
    powersFor ck (some d) = .ok (KZG.wfPowers (fpow β (D - d) * g) (fpow β (D - d) * γ) β (d + 1)
      (min (shb + 2) (d + 2))) ∧
    vk.shiftPower d = some (fpow bi (D - d) * h) := by
  obtain ⟨_, _, h3, h4, _⟩ := trim_wf_basic g γ β bi h D s shb (some l) ck vk ht
  obtain ⟨h5, _, _⟩ := shiftOf_wf g γ β bi h D s shb l ck vk ht d hd
  obtain ⟨h6, _, _⟩ := powersFor_general _ s shb l ck vk ht d hd
  refine ⟨h3, h4, ?_, h5⟩
  obtain ⟨_, hds, hsD⟩ := shiftOf_wf g γ β bi h D s shb l ck vk ht d hd
  rw [h6]
  simp only [wfPP, powers_length, Nat.add_sub_cancel, gammaWindow, KZG.wfPowers]
  congr 2
  · rw [powers_drop]; congr 1; omega
  · rw [powers_drop, powers_take]; congr 1; omega

/-- **Truthful degree reports**: `supported_degree()` of both keys is the requested degree,
`max_degree()` is the size of the parameters. -/
theorem sonic_trim_degree_reports (pp : UParams F) (s shb : Nat) (bounds : Option (List Nat))
    (ck : CK F) (vk : VK F) (ht : trim pp s shb bounds = .ok (ck, vk)) :
    ck.supportedDegree = s ∧ vk.supported = s ∧ ck.maxDegree = pp.powers.length - 1 ∧
      vk.maxDegree = pp.powers.length - 1 ∧ s ≤ pp.powers.length - 1 :=
  trim_degree_reports pp s shb bounds ck vk ht

/-- **Interoperability**: the pairing core `(g, γg, h, βh)` of the verifier key does not depend on
the trim arguments. -/
theorem sonic_trim_vk_interop (pp : UParams F) (s₁ s₂ shb₁ shb₂ : Nat) (b₁ b₂ : Option (List Nat))
    (ck₁ ck₂ : CK F) (vk₁ vk₂ : VK F) (h₁ : trim pp s₁ shb₁ b₁ = .ok (ck₁, vk₁))
    (h₂ : trim pp s₂ shb₂ b₂ = .ok (ck₂, vk₂)) :
    vk₁.g = vk₂.g ∧ vk₁.gammaG = vk₂.gammaG ∧ vk₁.h = vk₂.h ∧ vk₁.betaH = vk₂.betaH := by
  obtain ⟨_, _, a3, _, _, _, _, a8, a9, a10, _⟩ := trim_inv pp s₁ shb₁ b₁ ck₁ vk₁ h₁
  obtain ⟨_, _, b3, _, _, _, _, b8, b9, b10, _⟩ := trim_inv pp s₂ shb₂ b₂ ck₂ vk₂ h₂
  refine ⟨?_, by rw [a8, b8], by rw [a9, b9], by rw [a10, b10]⟩
  rw [a3] at b3; exact Option.some.inj b3

/-- **Out-of-range requests are refused**: supported degree above the parameters; a bound above the
supported degree; a hiding bound the γ-powers cannot serve. -/
theorem sonic_trim_refuses (pp : UParams F) (s shb : Nat) (bounds : Option (List Nat))
    (hp : pp.powers ≠ []) :
    (s > pp.powers.length - 1 → trim pp s shb bounds = .error .trimTooLarge) ∧
    (s ≤ pp.powers.length - 1 → (∃ l d, bounds = some l ∧ d ∈ l ∧ d > s) →
      trim pp s shb bounds = .error .unsupportedBound) ∧
    (shb + 2 > pp.gammaPowers.length → ∃ e, trim pp s shb bounds = .error e) := by
  refine ⟨fun hs => trim_refuses_too_large pp s shb bounds hp hs, ?_,
    fun h => trim_refuses_hiding pp s shb bounds h⟩
  intro hs ⟨l, d, hb, hd, hds⟩
  rw [hb]; exact trim_refuses_bound pp s shb l d hp hs hd hds

/-- **In-range requests are answered** on trapdoor-made parameters (no error, no abort). -/
theorem sonic_trim_ok (g γ β bi h : F) (D s shb : Nat) (bounds : Option (List Nat))
    (hs : s ≤ D) (hshb : shb ≤ D) (hb : ∀ l, bounds = some l → ∀ d ∈ l, d ≤ s) :
    ∃ ck vk, trim (wfPP g γ β bi h D) s shb bounds = .ok (ck, vk) :=
  trim_ok g γ β bi h D s shb bounds hs hshb hb

/-- non-vacuity: the concrete key of the examples (bounds given unsorted with a duplicate), a refusal
on each boundary, and the empty / `None` bound lists -/
example : trim Ex.pp 3 1 (some [3, 2, 3]) = .ok (Ex.ck, Ex.vk) ∧ sortDedup [3, 2, 3] = [2, 3] := by
  decide
example : trim Ex.pp 5 1 none = .error .trimTooLarge ∧
    trim Ex.pp 3 1 (some [4]) = .error .unsupportedBound ∧
    trim Ex.pp 3 5 none = .error .abort := by decide
example : trim Ex.pp 4 4 (some []) = .ok (⟨[3, 6, 12, 24, 48], [5, 10, 20, 40, 80, 59], none, none, some [], 4⟩,
    ⟨3, 5, 7, 14, none, 4, 4⟩) := by decide

end PCV.C09
