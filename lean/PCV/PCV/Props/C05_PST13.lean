/-
  Property C05 — batched verification = conjunction of individual checks, MarlinPST13
  `batch_check` (per point label: accumulate, then one pairing product weighted by the verifier's
  128-bit randomizers).
-/
import PCV.Props.C15

namespace PCV.C05
open PCV PCV.MV PCV.C15Spec
variable {F : Type} [Field F] [DecidableEq F]

/-- **Batch defect = Σ ρₖ·Δₖ (PST13).** For an arbitrary verifier key and arbitrary combined claims
`(cₖ, zₖ, vₖ, πₖ)`: whenever `batch_check` does not abort — one proof per point, every proof with
one witness per key variable (what `open` returns), points and `beta_h` with at least that many
entries — its pairing product is `Σₖ ρₖ·Δₖ` with `ρ₀ = 1`, `ρₖ` the verifier's randomizers and
`Δₖ` the defect of the individual `check` of claim `k`. -/
theorem pst13_batch_defect (vk : PST.VK F) (cs : List F) (zs : List (List F)) (vs : List F)
    (πs : List (PST.Proof F)) (rs : List F) (hlen : πs.length = zs.length)
    (hbh : vk.numVars ≤ vk.betaH.length) (hπ : ∀ π ∈ πs, π.w.length = vk.numVars)
    (hz : ∀ z ∈ zs, vk.numVars ≤ z.length) :
    PST.batchDefect vk cs zs vs πs rs = .ok (PST.wsum 1 rs (PST.defectsC vk cs zs vs πs)) :=
  PST.batchDefect_eq vk cs zs vs πs rs hlen hbh hπ hz

/-- **All individual defects vanish ⇒ the batch is accepted for every randomizer list.** -/
theorem pst13_batch_all_true_accepted (vk : PST.VK F) (cs : List F) (zs : List (List F))
    (vs : List F) (πs : List (PST.Proof F)) (rs : List F) (hlen : πs.length = zs.length)
    (hbh : vk.numVars ≤ vk.betaH.length) (hπ : ∀ π ∈ πs, π.w.length = vk.numVars)
    (hz : ∀ z ∈ zs, vk.numVars ≤ z.length)
    (h : ∀ d ∈ PST.defectsC vk cs zs vs πs, d = 0) :
    PST.batchCheck vk cs zs vs πs rs = .ok true := by
  unfold PST.batchCheck
  rw [PST.batchDefect_eq vk cs zs vs πs rs hlen hbh hπ hz, PST.wsum_zero _ _ _ h]
  simp

/-- **Exactly one failing claim with a non-zero randomizer at its position ⇒ rejected.** -/
theorem pst13_batch_single_false_rejected (vk : PST.VK F) (cs : List F) (zs : List (List F))
    (vs : List F) (πs : List (PST.Proof F)) (rs : List F) (hlen : πs.length = zs.length)
    (hbh : vk.numVars ≤ vk.betaH.length) (hπ : ∀ π ∈ πs, π.w.length = vk.numVars)
    (hz : ∀ z ∈ zs, vk.numVars ≤ z.length)
    (pre post : List F) (d : F) (hsplit : PST.defectsC vk cs zs vs πs = pre ++ d :: post)
    (hpre : ∀ x ∈ pre, x = 0) (hpost : ∀ x ∈ post, x = 0) (hd : d ≠ 0)
    (hr : getD' ((1 : F) :: rs) pre.length 0 ≠ 0) :
    PST.batchCheck vk cs zs vs πs rs = .ok false := by
  unfold PST.batchCheck
  rw [PST.batchDefect_eq vk cs zs vs πs rs hlen hbh hπ hz, hsplit,
    PST.wsum_single _ _ _ _ _ hpre hpost]
  simp [hd, hr]

/-- **The individual check of a combined claim** decides `Δₖ = 0`: `check` on commitments / values
whose accumulation is `(C, V)` is `defectCombined vk C V z π = 0`, the summand of the batch. -/
theorem pst13_check_is_summand (vk : PST.VK F) (cs z vs : List F) (π : PST.Proof F) (ξs : List F)
    (a : F × F × List F) (hacc : PST.accumulate 0 0 cs vs ξs = .ok a)
    (hnv : π.w.length = vk.numVars)
    (hlen : π.w.length ≤ vk.betaH.length ∧ π.w.length ≤ z.length) :
    PST.check vk cs z vs π ξs = .ok (decide (PST.defectCombined vk a.1 a.2.1 z π = 0)) := by
  unfold PST.check
  rw [if_neg (not_not.mpr hnv), hacc]
  simp only
  rw [if_neg (by omega)]

/-- non-vacuity (over `ZMod 101`): two honest claims of the C01 examples (combined with challenge
13 each) batched under randomizer 5: accepted; with the second value off by one: rejected -/
example : PST.batchCheck (PST.wfVK (3 : K) 5 11 [2, 7] 2 2 2) [48, 68] [[10, 20], [10, 20]] [39, 99]
    [⟨[10, 66], some 93⟩, ⟨[31, 59], some 36⟩] [5] = .ok true := by decide
example : PST.batchCheck (PST.wfVK (3 : K) 5 11 [2, 7] 2 2 2) [48, 68] [[10, 20], [10, 20]] [39, 100]
    [⟨[10, 66], some 93⟩, ⟨[31, 59], some 36⟩] [5] = .ok false := by decide
example : PST.batchCheckGroups (PST.wfVK (3 : K) 5 11 [2, 7] 2 2 2) [([27], [3]), ([13], [62])]
    [[10, 20], [10, 20]] [⟨[10, 66], some 93⟩, ⟨[31, 59], some 36⟩] [13, 13] [5] = .ok true := by
  decide

end PCV.C05
