/-
  Property C05 — batched verification is as strict as verifying every query on its own.
-/
import PCV.Proofs.KZG10
import PCV.Proofs.KZG10Batch
import PCV.Props.Examples

namespace PCV.C05
open PCV
variable {F : Type} [Field F] [DecidableEq F]

/-- **KZG10.** For an arbitrary verifier key and arbitrary (even malformed) inputs, the batch
verifier's pairing defect is `Σ ρᵢ·Δᵢ` with `ρ₀ = 1`, `ρᵢ` the verifier's randomizers and `Δᵢ` the
defect of the individual check of claim `i`. -/
theorem kzg10_batch_defect (vk : KZG.VK F) (cs zs vs : List F) (πs : List (KZG.Proof F))
    (rs : List F) :
    KZG.batchDefect vk cs zs vs πs rs = KZG.wsum 1 rs (KZG.defects vk cs zs vs πs) :=
  KZG.batchDefect_eq vk cs zs vs πs rs

/-- individual check accepts iff its defect vanishes -/
theorem kzg10_check_iff_defect (vk : KZG.VK F) (c z v : F) (π : KZG.Proof F) :
    KZG.check vk c z v π = true ↔ KZG.defect vk c z v π = 0 :=
  KZG.check_iff_defect vk c z v π

/-- all individual checks accept ⇒ the batch accepts **for every randomizer list**
(the outcome on true batches does not depend on the verifier's randomness) -/
theorem kzg10_all_true_accepted (vk : KZG.VK F) (cs zs vs : List F) (πs : List (KZG.Proof F))
    (rs : List F) (hl : cs.length = zs.length ∧ cs.length = vs.length ∧ cs.length = πs.length)
    (h : ∀ d ∈ KZG.defects vk cs zs vs πs, d = 0) :
    KZG.batchCheck vk cs zs vs πs rs = .ok true :=
  KZG.batch_accepts_of_all vk cs zs vs πs rs hl h

/-- exactly one failing claim, non-zero randomizer at its position ⇒ the batch rejects -/
theorem kzg10_single_false_rejected (vk : KZG.VK F) (cs zs vs : List F)
    (πs : List (KZG.Proof F)) (rs : List F) (j : Nat)
    (hj : j < (KZG.defects vk cs zs vs πs).length)
    (hz : ∀ i (hi : i < (KZG.defects vk cs zs vs πs).length), i ≠ j →
      (KZG.defects vk cs zs vs πs)[i] = 0)
    (hne : (KZG.defects vk cs zs vs πs)[j] ≠ 0)
    (hr : ((1 : F) :: rs).getD j 0 ≠ 0) :
    KZG.batchCheck vk cs zs vs πs rs ≠ .ok true := by
  unfold KZG.batchCheck
  split
  · simp
  · intro hc
    injection hc with hc
    rw [decide_eq_true_iff, KZG.batchDefect_eq] at hc
    exact KZG.wsum_single 1 rs _ j hj hz hne hr hc

/-- non-vacuity: a two-claim batch with one false claim (randomizer 7) is rejected -/
example : KZG.batchCheck (KZG.wfVK (3 : K) 5 2 1) [64, 64] [5, 5]
    [evalPoly [1, 2, 3] 5, evalPoly [1, 2, 3] 5 + 1] [⟨81, some 30⟩, ⟨81, some 30⟩] [7, 9] = .ok false := by
  decide
example : KZG.batchCheck (KZG.wfVK (3 : K) 5 2 1) [64, 64] [5, 5]
    [evalPoly [1, 2, 3] 5, evalPoly [1, 2, 3] 5] [⟨81, some 30⟩, ⟨81, some 30⟩] [7, 9] = .ok true := by
  decide

/-- **Cancelling errors need the verifier's cooperation.** However many claims of a batch are false
and however the errors were planted (to cancel across polynomials at one point, or across query
points): if claim `j+1` is false then, the other randomizers being whatever they are, AT MOST ONE
value of the randomizer `ρ_{j+1}` makes the batch verifier accept.  (The library draws `ρ` from
`2^128` values, so a planted cancellation survives with probability ≤ `2^-128`; for the fixed
`ρ₀ = 1` see `kzg10_first_false_rejected`.) -/
theorem kzg10_batch_exceptional_randomizer (vk : KZG.VK F) (cs zs vs : List F)
    (πs : List (KZG.Proof F)) (rs : List F) (j : Nat) (hj : j < rs.length)
    (hd : (KZG.defects vk cs zs vs πs).getD (j + 1) 0 ≠ 0) (x y : F)
    (hx : KZG.batchCheck vk cs zs vs πs (rs.set j x) = .ok true)
    (hy : KZG.batchCheck vk cs zs vs πs (rs.set j y) = .ok true) : x = y := by
  unfold KZG.batchCheck at hx hy
  split at hx
  · cases hx
  · injection hx with hx
    rw [if_neg (by assumption)] at hy
    injection hy with hy
    rw [decide_eq_true_iff, KZG.batchDefect_eq] at hx hy
    exact KZG.wsum_zero_unique 1 rs _ j hj hd x y hx hy

/-- the first claim has the fixed weight one: if it alone is false the batch is rejected for every
randomizer list -/
theorem kzg10_first_false_rejected (vk : KZG.VK F) (c z v : F) (π : KZG.Proof F)
    (cs zs vs : List F) (πs : List (KZG.Proof F)) (rs : List F)
    (hd : KZG.defect vk c z v π ≠ 0) (hz : ∀ e ∈ KZG.defects vk cs zs vs πs, e = 0) :
    KZG.batchCheck vk (c :: cs) (z :: zs) (v :: vs) (π :: πs) rs ≠ .ok true := by
  unfold KZG.batchCheck
  split
  · simp
  · intro hc
    injection hc with hc
    rw [decide_eq_true_iff, KZG.batchDefect_eq] at hc
    exact KZG.wsum_first_only rs _ _ hd hz hc

/-- non-vacuity of the exceptional randomizer: errors `+1` and `−1` on two claims at one point are
accepted by the randomizer `1` and by no other -/
example : KZG.batchCheck (KZG.wfVK (3 : K) 5 2 1) [64, 64] [5, 5]
    [evalPoly [1, 2, 3] 5 + 1, evalPoly [1, 2, 3] 5 - 1] [⟨81, some 30⟩, ⟨81, some 30⟩] [1] = .ok true := by
  decide
example : ∀ ρ : K, ρ ≠ 1 → KZG.batchCheck (KZG.wfVK (3 : K) 5 2 1) [64, 64] [5, 5]
    [evalPoly [1, 2, 3] 5 + 1, evalPoly [1, 2, 3] 5 - 1] [⟨81, some 30⟩, ⟨81, some 30⟩] [ρ] = .ok false := by
  decide

end PCV.C05
