/-
  Property C05 — batched verification is as strict as verifying every query on its own.
-/
import PCV.Proofs.KZG10
import PCV.Props.Examples

namespace PCV.C05
open PCV
variable {F : Type} [Field F] [DecidableEq F]

/-- **KZG10.** For an arbitrary verifier key and arbitrary (even malformed) inputs, the batch
verifier's pairing defect is `Σ ρᵢ·Δᵢ` with `ρ₀ = 1`, `ρᵢ` the verifier's randomizers and `Δᵢ` the
defect of the individual check of claim `i`. -/
theorem kzg10_batch_defect (vk : KZG.VK F) (cs zs vs : List F) (πs : List (KZG.Proof F))
    (rs : List F) :
    KZG.batchDefect vk cs zs vs πs rs = KZG.wsum 1 rs (KZG.defects vk cs zs vs πs) :=
  KZG.batchDefect_eq vk cs zs vs πs rs

/-- individual check accepts iff its defect vanishes -/
theorem kzg10_check_iff_defect (vk : KZG.VK F) (c z v : F) (π : KZG.Proof F) :
    KZG.check vk c z v π = true ↔ KZG.defect vk c z v π = 0 :=
  KZG.check_iff_defect vk c z v π

/-- all individual checks accept ⇒ the batch accepts **for every randomizer list**
(the outcome on true batches does not depend on the verifier's randomness) -/
theorem kzg10_all_true_accepted (vk : KZG.VK F) (cs zs vs : List F) (πs : List (KZG.Proof F))
    (rs : List F) (hl : cs.length = zs.length ∧ cs.length = vs.length ∧ cs.length = πs.length)
    (h : ∀ d ∈ KZG.defects vk cs zs vs πs, d = 0) :
    KZG.batchCheck vk cs zs vs πs rs = .ok true :=
  KZG.batch_accepts_of_all vk cs zs vs πs rs hl h

/-- exactly one failing claim, non-zero randomizer at its position ⇒ the batch rejects -/
theorem kzg10_single_false_rejected (vk : KZG.VK F) (cs zs vs : List F)
    (πs : List (KZG.Proof F)) (rs : List F) (j : Nat)
    (hj : j < (KZG.defects vk cs zs vs πs).length)
    (hz : ∀ i (hi : i < (KZG.defects vk cs zs vs πs).length), i ≠ j →
      (KZG.defects vk cs zs vs πs)[i] = 0)
    (hne : (KZG.defects vk cs zs vs πs)[j] ≠ 0)
    (hr : ((1 : F) :: rs).getD j 0 ≠ 0) :
    KZG.batchCheck vk cs zs vs πs rs ≠ .ok true := by
  unfold KZG.batchCheck
  split
  · simp
  · intro hc
    injection hc with hc
    rw [decide_eq_true_iff, KZG.batchDefect_eq] at hc
    exact KZG.wsum_single 1 rs _ j hj hz hne hr hc

/-- non-vacuity: a two-claim batch with one false claim (randomizer 7) is rejected -/
example : KZG.batchCheck (KZG.wfVK (3 : K) 5 2 1) [64, 64] [5, 5]
    [evalPoly [1, 2, 3] 5, evalPoly [1, 2, 3] 5 + 1] [⟨81, some 30⟩, ⟨81, some 30⟩] [7, 9] = .ok false := by
  decide
example : KZG.batchCheck (KZG.wfVK (3 : K) 5 2 1) [64, 64] [5, 5]
    [evalPoly [1, 2, 3] 5, evalPoly [1, 2, 3] 5] [⟨81, some 30⟩, ⟨81, some 30⟩] [7, 9] = .ok true := by
  decide

end PCV.C05
