/-
  Property C17 (multilinear PST) — out-of-domain requests.  `setup` with zero variables, `trim`
  beyond the parameters, `open` of a polynomial whose number of variables differs from the key's,
  `open` / `check` with too short a point and `check` with a proof list of the wrong length abort;
  in-domain requests are answered.  Two request kinds are NOT refused by the code, and the model says
  so: `commit` never looks at the polynomial's number of variables, and `check` / `open` never look
  at surplus point coordinates (theorems `mlpc_commit_answers_any_nv`,
  `mlpc_check_ignores_surplus_point`; the harness reports them as expectation failures).
-/
import PCV.Proofs.MLPCProps
import PCV.Props.Examples

namespace PCV.C17
open PCV
set_option linter.unusedSectionVars false
variable {F : Type} [Field F] [DecidableEq F]

/-- `setup` with zero variables aborts (`assert!(num_vars > 0)`) -/
theorem mlpc_setup_zero_refused (g h : F) (t : List F) : MLPC.setup 0 g h t = .error .abort := by
  unfold MLPC.setup; rw [if_pos rfl]

/-- `setup` with `nv ≥ 1` variables answers -/
theorem mlpc_setup_ok (nv : Nat) (g h : F) (t : List F) (hnv : nv ≠ 0) (ht : t.length = nv) :
    ∃ pp, MLPC.setup nv g h t = .ok pp := ⟨_, MLPC.setup_eq nv g h t hnv ht⟩

/-- `trim` to more variables than the parameters have aborts -/
theorem mlpc_trim_refused (pp : MLPC.UParams F) (s : Nat) (hs : pp.numVars < s) :
    MLPC.trim pp s = .error .abort := MLPC.trim_refuses pp s hs

/-- `open` of a polynomial with more (or fewer) variables than the key aborts -/
theorem mlpc_open_wrong_nv_refused (ck : MLPC.CK F) (nv : Nat) (evals z : List F) (h : nv ≠ ck.nv) :
    MLPC.open ck nv evals z = .error .abort := MLPC.open_wrong_nv ck nv evals z h

/-- `open` at a point with fewer coordinates than variables aborts -/
theorem mlpc_open_short_point_refused (ck : MLPC.CK F) (nv : Nat) (evals z : List F)
    (h : z.length < nv) : MLPC.open ck nv evals z = .error .abort :=
  MLPC.open_short_point ck nv evals z h

/-- `check` at a point with fewer coordinates than the key has variables aborts -/
theorem mlpc_check_short_point_refused (vk : MLPC.VK F) (c : MLPC.Commitment F) (z : List F) (v : F)
    (πs : List F) (h : z.length < vk.nv) : MLPC.check vk c z v πs = .error .abort :=
  MLPC.check_short_point vk c z v πs h

/-- `check` with a proof list of the wrong length aborts -/
theorem mlpc_check_proof_length_refused (vk : MLPC.VK F) (c : MLPC.Commitment F) (z : List F) (v : F)
    (πs : List F) (h : πs.length ≠ vk.nv) : MLPC.check vk c z v πs = .error .abort :=
  MLPC.check_proof_length vk c z v πs h

/-- in-domain requests never abort: `1 ≤ s ≤ nv`, `2^s` evaluations, `s` point coordinates -/
theorem mlpc_in_domain_ok (nv s : Nat) (g h : F) (t evals z : List F)
    (ht : t.length = nv) (hs1 : 1 ≤ s) (hs : s ≤ nv) (he : evals.length = 2 ^ s) (hz : z.length = s) :
    ∃ pp ck vk c πs b, MLPC.setup nv g h t = .ok pp ∧ MLPC.trim pp s = .ok (ck, vk)
      ∧ MLPC.commit ck s evals = .ok c ∧ MLPC.open ck s evals z = .ok πs
      ∧ MLPC.check vk c z (MLPC.mleEval evals z) πs = .ok b := by
  obtain ⟨h1, h2, h3, h4, h5⟩ := MLPC.honest_run nv s g h t evals z ht hs1 hs he hz
  exact ⟨_, _, _, _, _, _, h1, h2, h3, h4, h5⟩

/-- **What the code does with a polynomial of the wrong size in `commit`** (not a refusal): any key
with at least one table answers, for any `nv` and any evaluation vector; the MSM reads only the first
`|powers_of_g[0]|` evaluations.  For a polynomial with more variables than the key this is the
commitment of its restriction to `x_{nv..} = 0`, tagged with the larger `nv`. -/
theorem mlpc_commit_answers_any_nv (ck : MLPC.CK F) (p0 : List F) (rest : List (List F)) (nv : Nat)
    (evals : List F) (hk : ck.powersOfG = p0 :: rest) :
    MLPC.commit ck nv evals = .ok ⟨nv, dot p0 (evals.take p0.length)⟩ := by
  unfold MLPC.commit; rw [hk]; simp only; rw [MLPC.dot_take_right]

/-- **What the code does with surplus point coordinates** (not a refusal): `check` decides as for
the first `nv` coordinates, `open` proves for them. -/
theorem mlpc_check_ignores_surplus_point (vk : MLPC.VK F) (c : MLPC.Commitment F) (z extra : List F)
    (v : F) (πs : List F) (h : vk.nv ≤ z.length) :
    MLPC.check vk c (z ++ extra) v πs = MLPC.check vk c z v πs :=
  MLPC.check_surplus_point vk c z extra v πs h

theorem mlpc_open_ignores_surplus_point (ck : MLPC.CK F) (nv : Nat) (evals z extra : List F)
    (h : nv ≤ z.length) : MLPC.open ck nv evals (z ++ extra) = MLPC.open ck nv evals z := by
  unfold MLPC.open
  split
  · rfl
  · split
    · rfl
    · exact MLPC.openLoop_surplus nv _ evals z extra h

/-- non-vacuity: each refused request kind and the two answered ones, on the 2-variable key -/
example : MLPC.setup 0 (5 : K) 11 [] = .error .abort := by decide
example : MLPC.open (MLPC.wfCK (5 : K) 11 [7, 20]) 3 [1, 2, 3, 50, 0, 0, 0, 1] [8, 13, 1] = .error .abort := by
  decide
example : MLPC.open (MLPC.wfCK (5 : K) 11 [7, 20]) 2 [1, 2, 3, 50] [8] = .error .abort := by decide
example : MLPC.check (MLPC.wfVK (5 : K) 11 [7, 20]) ⟨2, 19⟩ [8] 72 [31, 30] = .error .abort := by decide
example : MLPC.commit (MLPC.wfCK (5 : K) 11 [7, 20]) 3 [1, 2, 3, 50, 0, 0, 0, 1] = .ok ⟨3, 19⟩ := by decide
example : MLPC.check (MLPC.wfVK (5 : K) 11 [7, 20]) ⟨2, 19⟩ [8, 13, 99] 72 [31, 30] = .ok true := by decide

end PCV.C17
