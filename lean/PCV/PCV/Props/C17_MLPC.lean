/-
  Property C17 (multilinear PST) — out-of-domain requests are refused: `setup` with zero variables,
  `trim` beyond the parameters, `commit` / `open` of a polynomial whose number of variables differs
  from the key's, `open` / `check` at a point with a number of coordinates other than the number of
  variables, `check` with a proof list of the wrong length all abort; in-domain requests are answered.
  (On the tree before the fix "multilinear_pc commit/open/check refuse a polynomial or point of the
  wrong number of variables" `commit` truncated silently and surplus point coordinates were never
  read — finding D14; the harness keeps those request kinds as must-refuse cases.)
-/
import PCV.Proofs.MLPCProps
import PCV.Props.Examples

namespace PCV.C17
open PCV
set_option linter.unusedSectionVars false
variable {F : Type} [Field F] [DecidableEq F]

/-- `setup` with zero variables aborts (`assert!(num_vars > 0)`) -/
theorem mlpc_setup_zero_refused (g h : F) (t : List F) : MLPC.setup 0 g h t = .error .abort := by
  unfold MLPC.setup; rw [if_pos rfl]

/-- `setup` with `nv ≥ 1` variables answers -/
theorem mlpc_setup_ok (nv : Nat) (g h : F) (t : List F) (hnv : nv ≠ 0) (ht : t.length = nv) :
    ∃ pp, MLPC.setup nv g h t = .ok pp := ⟨_, MLPC.setup_eq nv g h t hnv ht⟩

/-- `trim` to more variables than the parameters have aborts -/
theorem mlpc_trim_refused (pp : MLPC.UParams F) (s : Nat) (hs : pp.numVars < s) :
    MLPC.trim pp s = .error .abort := MLPC.trim_refuses pp s hs

/-- `commit` of a polynomial with more (or fewer) variables than the key aborts — never a commitment -/
theorem mlpc_commit_refuses_wrong_nv (ck : MLPC.CK F) (nv : Nat) (evals : List F) (h : nv ≠ ck.nv) :
    MLPC.commit ck nv evals = .error .abort := MLPC.commit_wrong_nv ck nv evals h

/-- `open` of a polynomial with more (or fewer) variables than the key aborts -/
theorem mlpc_open_refuses_wrong_nv (ck : MLPC.CK F) (nv : Nat) (evals z : List F) (h : nv ≠ ck.nv) :
    MLPC.open ck nv evals z = .error .abort := MLPC.open_wrong_nv ck nv evals z h

/-- `open` at a point with too few or too many coordinates aborts -/
theorem mlpc_open_refuses_wrong_point_len (ck : MLPC.CK F) (nv : Nat) (evals z : List F)
    (h : z.length ≠ nv) : MLPC.open ck nv evals z = .error .abort :=
  MLPC.open_wrong_point_len ck nv evals z h

/-- `check` at a point with too few or too many coordinates aborts — never a decision -/
theorem mlpc_check_refuses_wrong_point_len (vk : MLPC.VK F) (c : MLPC.Commitment F) (z : List F)
    (v : F) (πs : List F) (h : z.length ≠ vk.nv) : MLPC.check vk c z v πs = .error .abort :=
  MLPC.check_wrong_point_len vk c z v πs h

/-- `check` with a proof list of the wrong length aborts -/
theorem mlpc_check_refuses_wrong_proof_len (vk : MLPC.VK F) (c : MLPC.Commitment F) (z : List F)
    (v : F) (πs : List F) (h : πs.length ≠ vk.nv) : MLPC.check vk c z v πs = .error .abort :=
  MLPC.check_proof_length vk c z v πs h

/-- whatever `commit` answers is tagged with the key's number of variables (no oversized polynomial
slips through as a commitment of its restriction) -/
theorem mlpc_commit_ok_nv (ck : MLPC.CK F) (nv : Nat) (evals : List F) (c : MLPC.Commitment F)
    (h : MLPC.commit ck nv evals = .ok c) : nv = ck.nv ∧ c.nv = ck.nv := by
  by_cases hn : nv = ck.nv
  · unfold MLPC.commit at h
    rw [if_neg (by simpa using hn)] at h
    split at h
    · cases h
    · cases h; exact ⟨hn, hn⟩
  · rw [MLPC.commit_wrong_nv ck nv evals hn] at h; cases h

/-- a positive verification result implies a well-shaped request: exactly `nv` point coordinates and
exactly `nv` proof elements -/
theorem mlpc_accept_shape (vk : MLPC.VK F) (c : MLPC.Commitment F) (z : List F) (v : F)
    (πs : List F) (b : Bool) (h : MLPC.check vk c z v πs = .ok b) :
    z.length = vk.nv ∧ πs.length = vk.nv := by
  constructor
  · by_contra hne
    rw [MLPC.check_wrong_point_len vk c z v πs hne] at h; cases h
  · by_contra hne
    rw [MLPC.check_proof_length vk c z v πs hne] at h; cases h

/-- in-domain requests never abort: `1 ≤ s ≤ nv`, `2^s` evaluations, `s` point coordinates -/
theorem mlpc_in_domain_ok (nv s : Nat) (g h : F) (t evals z : List F)
    (ht : t.length = nv) (hs1 : 1 ≤ s) (hs : s ≤ nv) (he : evals.length = 2 ^ s) (hz : z.length = s) :
    ∃ pp ck vk c πs b, MLPC.setup nv g h t = .ok pp ∧ MLPC.trim pp s = .ok (ck, vk)
      ∧ MLPC.commit ck s evals = .ok c ∧ MLPC.open ck s evals z = .ok πs
      ∧ MLPC.check vk c z (MLPC.mleEval evals z) πs = .ok b := by
  obtain ⟨h1, h2, h3, h4, h5⟩ := MLPC.honest_run nv s g h t evals z ht hs1 hs he hz
  exact ⟨_, _, _, _, _, _, h1, h2, h3, h4, h5⟩

/-- non-vacuity: each refused request kind on the 2-variable key of trapdoor `[7, 20]` -/
example : MLPC.setup 0 (5 : K) 11 [] = .error .abort := by decide
example : MLPC.commit (MLPC.wfCK (5 : K) 11 [7, 20]) 3 [1, 2, 3, 50, 0, 0, 0, 1] = .error .abort := by
  decide
example : MLPC.commit (MLPC.wfCK (5 : K) 11 [7, 20]) 1 [1, 2] = .error .abort := by decide
example : MLPC.open (MLPC.wfCK (5 : K) 11 [7, 20]) 3 [1, 2, 3, 50, 0, 0, 0, 1] [8, 13, 1] = .error .abort := by
  decide
example : MLPC.open (MLPC.wfCK (5 : K) 11 [7, 20]) 2 [1, 2, 3, 50] [8] = .error .abort := by decide
example : MLPC.open (MLPC.wfCK (5 : K) 11 [7, 20]) 2 [1, 2, 3, 50] [8, 13, 99] = .error .abort := by decide
example : MLPC.check (MLPC.wfVK (5 : K) 11 [7, 20]) ⟨2, 19⟩ [8] 72 [31, 30] = .error .abort := by decide
example : MLPC.check (MLPC.wfVK (5 : K) 11 [7, 20]) ⟨2, 19⟩ [8, 13, 99] 72 [31, 30] = .error .abort := by
  decide
example : MLPC.check (MLPC.wfVK (5 : K) 11 [7, 20]) ⟨2, 19⟩ [8, 13] 72 [31] = .error .abort := by decide
example : MLPC.trim (MLPC.wfParams (5 : K) 11 [7, 20]) 3 = .error .abort := by decide

end PCV.C17
