/-
  Property C17 — out-of-domain requests are refused, never answered with a wrong result,
  inner-product-argument scheme: `commit`, `open`, `check`, `batch_check` (`trim` is in C09_IPA,
  the combination policy in C06_IPA).  "Refused" = `Err(..)` or an abort (assertion / `expect` /
  index / underflow), i.e. `Except.error` in the model.
-/
import PCV.Proofs.IPAVerify
import PCV.Props.Examples

set_option linter.unusedSectionVars false

namespace PCV.C17
open PCV
variable {F : Type} [Field F] [DecidableEq F]

/-- **commit, the three refusals of the admission test and the missing RNG**, for the first
offending polynomial whatever follows it: degree above the supported degree
(`TooManyCoefficients`); a bound below the degree or above the supported degree
(`IncorrectDegreeBound`); a hiding bound without an RNG (`OptionalRng` panics). -/
theorem ipa_commit_refuses (ck : IPA.CK F) (p : IPA.LPoly F) (ps : List (IPA.LPoly F)) (rng : Bool)
    (draws : List F) :
    (pdeg p.poly > IPA.supportedDegree ck →
      IPA.commit ck (p :: ps) rng draws = .error .tooManyCoefficients) ∧
    (∀ b, p.bound = some b → pdeg p.poly ≤ IPA.supportedDegree ck →
      (b < pdeg p.poly ∨ b > IPA.supportedDegree ck) →
      IPA.commit ck (p :: ps) rng draws = .error .incorrectBound) ∧
    (IPA.checkDegreesAndBounds (IPA.supportedDegree ck) p.poly p.bound = .ok () →
      p.hb.isSome = true → rng = false → IPA.commit ck (p :: ps) rng draws = .error .abort) := by
  refine ⟨?_, ?_, ?_⟩
  · intro h
    simp only [IPA.commit, IPA.commitOne, IPA.checkDegreesAndBounds, if_pos h]
  · intro b hb hdeg hbad
    simp only [IPA.commit, IPA.commitOne, IPA.checkDegreesAndBounds, hb]
    rw [if_neg (by omega), if_pos hbad]
  · intro hadm hh hr
    subst hr
    simp only [IPA.commit, IPA.commitOne, hadm, IPA.drawRand, hh]
    simp

/-- **commit, anywhere in the list**: an answered `commit` let every polynomial pass — a polynomial
outside the key's domain at any position makes the whole call fail (no partial output). -/
theorem ipa_commit_refuses_anywhere (ck : IPA.CK F) (polys : List (IPA.LPoly F)) (rng : Bool)
    (draws : List F) (p : IPA.LPoly F) (hp : p ∈ polys) (e : Err)
    (hbad : IPA.checkDegreesAndBounds (IPA.supportedDegree ck) p.poly p.bound = .error e) :
    ∃ e', IPA.commit ck polys rng draws = .error e' := by
  cases h : IPA.commit ck polys rng draws with
  | error e' => exact ⟨e', rfl⟩
  | ok x =>
    have := IPA.commit_admission ck rng polys draws x h p hp
    rw [this] at hbad; cases hbad

/-- **commit, inside the domain** (with an RNG that has two draws per polynomial): every admissible
list is answered — no abort. -/
theorem ipa_commit_ok (ck : IPA.CK F) :
    ∀ (polys : List (IPA.LPoly F)) (draws : List F),
      (∀ p ∈ polys, IPA.checkDegreesAndBounds (IPA.supportedDegree ck) p.poly p.bound = .ok ()) →
      2 * polys.length ≤ draws.length → ∃ out, IPA.commit ck polys true draws = .ok out := by
  intro polys
  induction polys with
  | nil => intro draws _ _; exact ⟨_, rfl⟩
  | cons p ps ih =>
    intro draws hadm hlen
    have hd : ∃ st rest, IPA.drawRand p.hb.isSome p.bound.isSome true draws = .ok (st, rest) ∧
        2 * ps.length ≤ rest.length := by
      simp only [List.length_cons] at hlen
      match draws, hlen with
      | a :: b :: ds, hlen =>
        unfold IPA.drawRand
        cases p.hb.isSome <;> cases p.bound.isSome <;> simp <;> simp only [List.length_cons] at hlen <;> omega
    obtain ⟨st, rest, hdr, hrest⟩ := hd
    obtain ⟨out, hout⟩ := ih rest (fun q hq => hadm q (by simp [hq])) hrest
    obtain ⟨cs, sts, d⟩ := out
    simp only [IPA.commit, IPA.commitOne, hadm p (by simp), hdr, hout]
    exact ⟨_, rfl⟩

/-- **open refuses what commit refuses**, wherever it stands in the list: an answered `open`
let every polynomial it combined pass the admission test. -/
theorem ipa_open_refuses_admission (ck : IPA.CK F) (polys : List (IPA.LPoly F))
    (comms : List (IPA.LComm F)) (sts : List (IPA.Rand F)) (z : F) (ξs ros : List F) (rng : Bool)
    (draws : List F) (hl1 : polys.length ≤ comms.length) (hl2 : polys.length ≤ sts.length)
    (p : IPA.LPoly F) (hp : p ∈ polys) (e : Err)
    (hbad : IPA.checkDegreesAndBounds (IPA.supportedDegree ck) p.poly p.bound = .error e) :
    ∃ e', IPA.open ck polys comms z sts ξs ros rng draws = .error e' := by
  cases h : IPA.open ck polys comms z sts ξs ros rng draws with
  | error e' => exact ⟨e', rfl⟩
  | ok x =>
    exfalso
    unfold IPA.open at h
    split at h
    · cases h
    · rename_i cur ξs'
      split at h
      · cases h
      · rename_i acc ξrest hloop
        have := IPA.openLoop_admission ck polys comms sts cur ξs' _ _ hl1 hl2 hloop p hp
        rw [this] at hbad; cases hbad

/-- **open, mismatched inputs at the head of the lists**: a commitment with another label, a bound
without shifted commitment (or the reverse), a labelled commitment whose bound differs from the
polynomial's — each fires an assertion. -/
theorem ipa_open_refuses_mismatch (ck : IPA.CK F) (p : IPA.LPoly F) (ps : List (IPA.LPoly F))
    (c : IPA.LComm F) (cs : List (IPA.LComm F)) (st : IPA.Rand F) (sts : List (IPA.Rand F))
    (z cur ξ' ξ'' : F) (ξs ros : List F) (rng : Bool) (draws : List F)
    (hadm : IPA.checkDegreesAndBounds (IPA.supportedDegree ck) p.poly p.bound = .ok ())
    (hbad : p.label ≠ c.label ∨ p.bound.isSome ≠ c.comm.shifted.isSome ∨ p.bound ≠ c.bound) :
    IPA.open ck (p :: ps) (c :: cs) z (st :: sts) (cur :: ξ' :: ξ'' :: ξs) ros rng draws
      = .error .abort := by
  have hstep : ∀ acc, IPA.openStep ck p c st cur ξ' acc = .error .abort := by
    intro acc
    unfold IPA.openStep
    by_cases h1 : p.label ≠ c.label
    · rw [if_pos h1]
    · rw [if_neg h1, hadm]
      simp only
      by_cases h2 : p.bound.isSome ≠ c.comm.shifted.isSome
      · rw [if_pos h2]
      · rw [if_neg h2]
        have h3 : p.bound ≠ c.bound := by
          rcases hbad with h | h | h
          · exact absurd h h1
          · exact absurd h h2
          · exact h
        rw [if_pos h3]
  simp only [IPA.open, IPA.openLoop, hstep]

/-- **open, missing RNG**: a hiding polynomial opened without an RNG aborts
(`rng.expect("hiding commitments require randomness")`) — here for a single polynomial. -/
theorem ipa_open_refuses_no_rng (ck : IPA.CK F) (p : IPA.LPoly F) (c : IPA.LComm F) (st : IPA.Rand F)
    (z : F) (ξs ros draws : List F) (hh : p.hb.isSome = true) :
    ∃ e, IPA.open ck [p] [c] z [st] ξs ros false draws = .error e := by
  cases h : IPA.open ck [p] [c] z [st] ξs ros false draws with
  | error e => exact ⟨e, rfl⟩
  | ok x =>
    exfalso
    unfold IPA.open at h
    split at h
    · cases h
    · rename_i cur ξs'
      split at h
      · cases h
      · rename_i acc ξrest hloop
        have hhid : acc.hid = true := by
          simp only [IPA.openLoop] at hloop
          split at hloop
          · rename_i a b r
            split at hloop
            · cases hloop
            · rename_i acc1 hstep
              injection hloop with hloop; injection hloop with h1 _
              subst h1
              unfold IPA.openStep at hstep
              split at hstep
              · cases hstep
              · split at hstep
                · cases hstep
                · simp only at hstep
                  split at hstep
                  · cases hstep
                  · split at hstep
                    · cases hstep
                    · split at hstep
                      · split at hstep
                        · cases hstep
                        · injection hstep with hstep; rw [← hstep]; simp [hh]
                      · injection hstep with hstep; rw [← hstep]; simp [hh]
          · cases hloop
        simp only [IPA.hidingStep, hhid] at h
        simp at h

/-- **check, wrong round count**: a proof without exactly `log₂(supported + 1)` pairs `(L, R)` is
refused with `IncorrectInputLength` before anything else is looked at. -/
theorem ipa_check_refuses_shape (vk : IPA.VK F) (cs : List (IPA.LComm F)) (z : F) (vs : List F)
    (π : IPA.Proof F) (ξs ros : List F)
    (h : π.lVec.length ≠ π.rVec.length ∨ π.lVec.length ≠ IPA.clog2 (IPA.supportedDegree vk + 1)) :
    IPA.check vk cs z vs π ξs ros = .error .incorrectInputLength :=
  IPA.check_shape vk cs z vs π ξs ros ((IPA.badShape_iff vk π).2 h)

/-- **check, malformed statement at the head**: a bound label without shifted commitment (or the
reverse), or a bound above the supported degree (`supported − bound` underflows), aborts. -/
theorem ipa_check_refuses_statement (vk : IPA.VK F) (c : IPA.LComm F) (cs : List (IPA.LComm F)) (z v : F)
    (vs : List F) (π : IPA.Proof F) (cur ξ' ξ'' : F) (ξs ros : List F)
    (hshape : IPA.badShape vk π = false)
    (hbad : c.bound.isSome ≠ c.comm.shifted.isSome ∨
      ∃ b sc, c.bound = some b ∧ c.comm.shifted = some sc ∧ b > IPA.supportedDegree vk) :
    IPA.check vk (c :: cs) z (v :: vs) π (cur :: ξ' :: ξ'' :: ξs) ros = .error .abort := by
  have hstep : ∀ C V, IPA.accStep vk z c v cur ξ' C V = .error .abort := by
    intro C V
    rcases hbad with h | ⟨b, sc, h1, h2, h3⟩
    · exact IPA.accStep_mismatch vk z c v cur ξ' C V h
    · unfold IPA.accStep
      simp only [h1, h2, Option.isSome_some, ne_eq, not_true_eq_false, if_false]
      rw [if_pos h3]
  simp only [IPA.check, hshape, Bool.false_eq_true, if_false, IPA.succinctCheck, IPA.succinctRun,
    IPA.accLoop, hstep]

/-- **check, malformed proof**: a hiding commitment without the combined randomness (or the
reverse) fires the assertion — the proof is never accepted. -/
theorem ipa_check_refuses_hiding_mismatch (vk : IPA.VK F) (cs : List (IPA.LComm F)) (z : F)
    (vs : List F) (π : IPA.Proof F) (ξs ros : List F)
    (h : π.hidingComm.isSome ≠ π.rand.isSome) :
    IPA.check vk cs z vs π ξs ros ≠ .ok true := by
  intro hc
  obtain ⟨_, r, ξr, ror, hr, _⟩ := (IPA.check_iff vk cs z vs π ξs ros).1 hc
  unfold IPA.succinctRun at hr
  split at hr
  · cases hr
  · split at hr
    · cases hr
    · simp only [IPA.hidingAdjust, if_pos h] at hr
      cases hr

/-- **batch_check, outside the domain**: a proof list whose length is not the number of point
labels (assertion); a malformed proof anywhere in the list is never accepted and, standing first, is
refused with `IncorrectInputLength`; a queried label without commitment (`MissingPolynomial`) or
without evaluation (`MissingEvaluation`) in the first group examined. -/
theorem ipa_batch_check_refuses (vk : IPA.VK F) (comms : List (IPA.LComm F)) (qs : List (IPA.Query F))
    (evals : List ((IPA.Label × F) × F)) (πs : List (IPA.Proof F)) (ξs ros rs : List F) :
    (πs.length ≠ (Marlin.groupQueries qs).length →
      IPA.batchCheck vk comms qs evals πs ξs ros rs = .error .abort) ∧
    (∀ π ∈ πs, IPA.badShape vk π = true → IPA.batchCheck vk comms qs evals πs ξs ros rs ≠ .ok true) ∧
    (∀ π πs', πs = π :: πs' → πs.length = (Marlin.groupQueries qs).length → IPA.badShape vk π = true →
      IPA.batchCheck vk comms qs evals πs ξs ros rs = .error .incorrectInputLength) ∧
    (∀ g gs l ls π πs', Marlin.groupQueries qs = g :: gs → g.2.2 = l :: ls → πs = π :: πs' →
      πs.length = (Marlin.groupQueries qs).length → IPA.badShape vk π = false →
      (Marlin.lookupLast (fun (c : IPA.LComm F) => c.label) l comms = none →
        IPA.batchCheck vk comms qs evals πs ξs ros rs = .error .missingPolynomial) ∧
      (∀ c, Marlin.lookupLast (fun (c : IPA.LComm F) => c.label) l comms = some c →
        Marlin.lookupEval evals l g.2.1 = none →
        IPA.batchCheck vk comms qs evals πs ξs ros rs = .error .missingEvaluation)) := by
  refine ⟨?_, ?_, ?_, ?_⟩
  · intro h; unfold IPA.batchCheck; rw [if_pos h]
  · intro π hπ hb; exact IPA.batchCheck_shape vk comms qs evals πs ξs ros rs π hπ hb
  · intro π πs' he hl hb
    subst he
    exact IPA.batchCheck_shape_first vk comms qs evals π πs' ξs ros rs hl hb
  · intro g gs l ls π πs' hg hls he hl hb
    subst he
    constructor
    · intro hlook
      unfold IPA.batchCheck
      rw [if_neg (by simp [hl]), hg]
      simp only [IPA.batchSuccinct, hb, Bool.false_eq_true, if_false, hls, IPA.gatherComms, hlook]
    · intro c hlook hev
      unfold IPA.batchCheck
      rw [if_neg (by simp [hl]), hg]
      simp only [IPA.batchSuccinct, hb, Bool.false_eq_true, if_false, hls, IPA.gatherComms, hlook, hev]

/-! non-vacuity over `ZMod 101` (4-element key): both sides of every boundary -/
example : IPA.commit (⟨[3, 5, 7, 11], 13, 17, 7⟩ : IPA.CK K) [⟨[1], [1, 2, 3, 4], none, none⟩] false []
    = .ok ([⟨[1], ⟨78, none⟩, none⟩], [⟨0, none⟩], []) := by decide
example : IPA.commit (⟨[3, 5, 7, 11], 13, 17, 7⟩ : IPA.CK K) [⟨[1], [1, 2, 3, 4, 5], none, none⟩] false []
    = .error .tooManyCoefficients := by decide
example : IPA.commit (⟨[3, 5, 7, 11], 13, 17, 7⟩ : IPA.CK K) [⟨[1], [1, 2, 3], some 1, none⟩] false []
    = .error .incorrectBound := by decide
example : IPA.commit (⟨[3, 5, 7, 11], 13, 17, 7⟩ : IPA.CK K) [⟨[1], [1, 2, 3], some 4, none⟩] false []
    = .error .incorrectBound := by decide
example : IPA.commit (⟨[3, 5, 7, 11], 13, 17, 7⟩ : IPA.CK K) [⟨[1], [1, 2, 3], some 2, some 1⟩] false []
    = .error .abort := by decide
example : IPA.open (⟨[3, 5, 7, 11], 13, 17, 7⟩ : IPA.CK K) [⟨[1], [1, 2, 3], none, none⟩]
    [⟨[2], ⟨34, none⟩, none⟩] 6 [⟨0, none⟩] [2, 3, 4] [7, 8, 9, 10] false [] = .error .abort := by decide
example : IPA.open (⟨[3, 5, 7, 11], 13, 17, 7⟩ : IPA.CK K) [⟨[1], [1, 2, 3], none, some 1⟩]
    [⟨[1], ⟨34, none⟩, none⟩] 6 [⟨0, none⟩] [2, 3, 4] [7, 8, 9, 10] false [] = .error .abort := by decide
example : IPA.check (⟨[3, 5], 13, 17, 3⟩ : IPA.CK K) [⟨[1], ⟨57, none⟩, none⟩] 6 [58]
    ⟨[7, 1], [83, 1], 48, 10, none, none⟩ [2, 3, 4] [8, 9] = .error .incorrectInputLength := by decide
example : IPA.check (⟨[3, 5], 13, 17, 3⟩ : IPA.CK K) [⟨[1], ⟨57, none⟩, some 1⟩] 6 [58]
    ⟨[7], [83], 48, 10, none, none⟩ [2, 3, 4] [8, 9] = .error .abort := by decide
example : IPA.batchCheck (⟨[3, 5], 13, 17, 3⟩ : IPA.CK K) [⟨[1], ⟨57, none⟩, none⟩]
    [([1], ([9], 6)), ([1], ([10], 7))] [(([1], 6), 58), (([1], 7), 67)]
    [⟨[7], [83], 48, 10, none, none⟩] [2, 3, 4, 5, 6, 7] [8, 9, 10, 4] [5, 6] = .error .abort := by decide
example : IPA.batchCheck (⟨[3, 5], 13, 17, 3⟩ : IPA.CK K) [⟨[1], ⟨57, none⟩, none⟩]
    [([2], ([9], 6))] [(([1], 6), 58)] [⟨[7], [83], 48, 10, none, none⟩] [2, 3, 4] [8, 9] [5]
    = .error .missingPolynomial := by decide
example : IPA.batchCheck (⟨[3, 5], 13, 17, 3⟩ : IPA.CK K) [⟨[1], ⟨57, none⟩, none⟩]
    [([1], ([9], 6))] [(([1], 7), 58)] [⟨[7], [83], 48, 10, none, none⟩] [2, 3, 4] [8, 9] [5]
    = .error .missingEvaluation := by decide

end PCV.C17
