/-
  Property C09 (setup and trim produce well-formed, mutually consistent keys) — Hyrax.
  Model: `PCV.Model.HyraxSetup` (`setup`, `trim`), `PCV.Model.Hyrax` (`commit`).  The hash-to-curve
  derivation is an arbitrary function `gen` of the hashed counter; that the real key elements ARE the
  Blake2s / `from_random_bytes` / cofactor-cleared points of those counters, pairwise distinct,
  non-identity, on the curve and in the prime-order subgroup, is checked by the correspondence run
  (`C09/hyrax-setup/*`) with an independent re-derivation.
-/
import PCV.Proofs.HyraxSetup
import PCV.Props.Examples

set_option linter.unusedSectionVars false
set_option linter.unusedVariables false

namespace PCV.C09
open PCV PCV.Hyrax
variable {F : Type} [Field F]

/-- `setup` without a number of variables, or with an odd one, is refused -/
theorem hyrax_setup_refused (gen : Nat → F) :
    setup gen none = .error .invalidNumVars ∧
    ∀ n, n % 2 = 1 → setup gen (some n) = .error .invalidNumVars := by
  refine ⟨rfl, fun n hn => ?_⟩
  unfold setup; simp [hn]

/-- **What `setup` publishes**: for an even `n`, exactly `2^(n/2)` commitment-key elements — element
`i` derived from counter `i` — and `h` derived from counter `2^(n/2)`; nothing else enters (no RNG, no
degree): two setups for the same `n` agree. -/
theorem hyrax_setup_ok (gen : Nat → F) (n : Nat) (hn : n % 2 = 0) :
    ∃ pp, setup gen (some n) = .ok pp ∧ pp.comKey.length = 2 ^ (n / 2) ∧
      (∀ i, i < 2 ^ (n / 2) → pp.comKey[i]? = some (gen i)) ∧ pp.h = gen (2 ^ (n / 2)) := by
  refine ⟨⟨(List.range (2 ^ (n / 2))).map gen, gen (2 ^ (n / 2))⟩, ?_, by simp, ?_, rfl⟩
  · simp only [setup, setupCounters]
    rw [if_neg (by omega)]
  · intro i hi
    simp [hi]

/-- **Distinct generators**: when the derivation has no collision among the `2^(n/2) + 1` counters,
the key elements are pairwise distinct and distinct from `h`. -/
theorem hyrax_setup_distinct (gen : Nat → F) (n : Nat) (pp : UParams F)
    (h : setup gen (some n) = .ok pp)
    (hinj : ∀ i j, i ≤ 2 ^ (n / 2) → j ≤ 2 ^ (n / 2) → gen i = gen j → i = j) :
    pp.comKey.Nodup ∧ pp.h ∉ pp.comKey := by
  obtain ⟨_, rfl⟩ := setup_inv gen n pp h
  · simp only
    constructor
    · refine List.Nodup.map_on ?_ List.nodup_range
      intro i hi j hj hij
      simp only [List.mem_range] at hi hj
      exact hinj i j (by omega) (by omega) hij
    · intro hm
      obtain ⟨i, hi, hg⟩ := List.mem_map.1 hm
      simp only [List.mem_range] at hi
      have := hinj i (2 ^ (n / 2)) (by omega) (le_refl _) hg
      omega

/-- **`trim` returns the parameters themselves** as committer key and as verifier key — the same
generators, all of them, whatever degree / hiding bound / degree bounds are requested; it never
refuses (the trait's `trim` has no argument for the number of variables). -/
theorem hyrax_trim_faithful (pp : UParams F) (d hb : Nat) (bounds : Option (List Nat)) :
    trim pp d hb bounds = .ok (pp, pp) := rfl

/-- **Keys interoperate and report the truth**: the key `setup` makes for `n` variables commits to
every polynomial in `n` variables … -/
theorem hyrax_setup_key_commits (gen : Nat → F) (n : Nat) (pp : UParams F)
    (h : setup gen (some n) = .ok pp) (p : MLPoly F) (hp : p.nv = n)
    (he : p.evals.length = 2 ^ p.nv) (ρs : List F) (hρ : 2 ^ (n / 2) ≤ ρs.length) :
    ∃ c st, commitOne pp.comKey pp.h p ρs = .ok (c, st) := by
  obtain ⟨hev, rfl⟩ := setup_inv gen n pp h
  exact ⟨_, _, commitOne_ok _ _ p ρs (by omega) (by simp [hp]) he (by rw [hp]; exact hρ)⟩

/-- … and refuses (error or abort — never a commitment) every polynomial in another number of
variables: the requests beyond (or below) the parameters are refused at `commit`. -/
theorem hyrax_setup_key_refuses_other_nv (gen : Nat → F) (n : Nat) (pp : UParams F)
    (h : setup gen (some n) = .ok pp) (p : MLPoly F) (hp : p.nv / 2 ≠ n / 2) (ρs : List F) :
    ∃ e, commitOne pp.comKey pp.h p ρs = .error e := by
  cases hc : commitOne pp.comKey pp.h p ρs with
  | error e => exact ⟨e, rfl⟩
  | ok r =>
    exfalso
    obtain ⟨c, st⟩ := r
    obtain ⟨_, hks, _⟩ := commitOne_inv _ _ p ρs c st hc
    obtain ⟨_, rfl⟩ := setup_inv gen n pp h
    simp only [List.length_map, List.length_range] at hks
    exact hp (Nat.pow_right_injective (le_refl 2) hks).symm

/-! non-vacuity over `ZMod 101` with `gen i = 3·i + 2` -/
example : setup (fun i => ((3 * i + 2 : Nat) : K)) (some 4) = .ok ⟨[2, 5, 8, 11], 14⟩ := by decide
example : setup (fun i => ((3 * i + 2 : Nat) : K)) (some 3) = .error .invalidNumVars := by decide
example : ∀ i j, i ≤ 2 ^ (4 / 2) → j ≤ 2 ^ (4 / 2) →
    ((3 * i + 2 : Nat) : K) = ((3 * j + 2 : Nat) : K) → i = j := by
  have key : ∀ i ∈ List.range 5, ∀ j ∈ List.range 5,
      ((3 * i + 2 : Nat) : K) = ((3 * j + 2 : Nat) : K) → i = j := by decide
  intro i j hi hj
  exact key i (List.mem_range.2 (by norm_num at hi; omega)) j (List.mem_range.2 (by norm_num at hj; omega))
example : (commitOne ([2, 5] : List K) 8 ⟨2, [1, 2, 3, 4]⟩ [10, 20]).toBool = true := by decide
example : commitOne ([2, 5] : List K) 8 ⟨4, List.replicate 16 1⟩ [1, 2, 3, 4] = .error .invalidNumVars ∧
    commitOne ([2, 5, 8, 11] : List K) 14 ⟨2, [1, 2, 3, 4]⟩ [1, 2, 3, 4] = .error .abort := by decide

end PCV.C09
