/-
  Property C06 — linear-combination openings prove exactly the stated combinations: MarlinPST13.
  `MarlinPST13::open_combinations` / `check_combinations` are `Marlin::open_combinations` /
  `Marlin::check_combinations` (`poly-commit/src/marlin/mod.rs`) with the trait-default `batch_open`
  and `MarlinPST13::batch_check` underneath (`PCV/Model/PST13LC.lean`; lemmas in
  `PCV/Proofs/PST13LC.lean`).

  A PST13 combination proof carries no polynomial evaluations (`BatchLCProof.evals = None`): the
  verifier forms `Σ coeff·C_label` itself, so the "transmitted evaluation" clause of the property has
  no counterpart here; the claims a verifier can be given wrongly are the value, a coefficient and a
  constant — each moves the pairing defect by the amount stated in `pst13_lc_defect_shift`.
  General (any number of combinations / point labels): completeness `pst13_lc_complete`, the
  refusals, the policy, and the randomizer-weighted form of the batch decision; the explicit
  rejection corollaries are proved for one combination under one point label (`…_partial`).
-/
import PCV.Proofs.PST13LC
import PCV.Proofs.Combinations
import PCV.Props.Examples

set_option synthInstance.maxSize 512
set_option linter.unusedSectionVars false
set_option linter.unusedVariables false

namespace PCV.C06
open PCV PCV.MV PCV.C15Spec
variable {F : Type} [Field F] [DecidableEq F]

/-! ### a combination of honest commitments is an honest commitment -/

/-- **PST13: the prover's combination.** Triples (polynomial, state, commitment) as `commit` makes
them under the key of the trapdoor `β⃗` (`PST.HonestT`: `C = g·p(β⃗) + γ·r(β⃗)`, no bound); an
arbitrary combination — zero and negative coefficients, repeated labels, constants (which the
prover skips): the combined triple is again honest, carries the combination's label, and its
polynomial evaluates everywhere to `Σ coeff·p_label(z)`. -/
theorem pst13_lc_honest {g γ : F} {β : List F} {nv : Nat} (trips : List (PST.Trip F))
    (hh : ∀ t ∈ trips, PST.HonestT g γ β nv t) (lc : LC.LinComb F) (res : PST.Trip F)
    (hc : PST.combineLC trips lc = .ok res) :
    PST.HonestT g γ β nv res ∧ res.1.label = lc.label ∧
      ∀ z, evalMV res.1.poly z = PST.lcPolyValue trips z lc.terms :=
  PST.combineLC_honest trips hh lc res hc

/-- **The value a verifier must be given is `LinearCombination`'s own value**: with pairwise
distinct combination labels, `PST.lcValueAt` (polynomial part + constants) of the combination `lc`
is `LC.value lc` under "label ↦ evaluation of that polynomial at `z`". -/
theorem pst13_lc_value (trips : List (PST.Trip F)) (lcs : List (LC.LinComb F))
    (hnd : (lcs.map (·.label)).Nodup) (lc : LC.LinComb F) (hmem : lc ∈ lcs) (z : List F) :
    PST.lcValueAt trips lcs lc.label z = LC.value lc (fun l => PST.polyValueAt trips l z) :=
  PST.lcValueAt_unique trips lcs hnd lc hmem z

/-! ### honest combination proofs are accepted -/

/-- **PST13: completeness of combination proofs, any number of combinations, point labels and
points.**  Key well-formed for an arbitrary trapdoor; polynomials / states / commitments as `commit`
makes them; ANY list of combinations; ANY query set over combination labels (several combinations
per point label, point labels sharing a point value); evaluations holding, for every
(combination, point) that a point-label group asks for, the true value
`Σ coeff·p(z) + constants`: whenever `open_combinations` answers, `check_combinations` accepts, for
every list of verifier randomizers. -/
theorem pst13_lc_complete (g γ h : F) (β : List F) (ts : List Term) (nv s D m : Nat)
    (polys : List (PST.LPoly F)) (sts : List (PST.Rand F)) (comms : List (PST.LComm F))
    (hl1 : polys.length = sts.length) (hl2 : sts.length = comms.length)
    (hh : ∀ t ∈ polys.zip (sts.zip comms), PST.HonestT g γ β nv t)
    (lcs : List (LC.LinComb F)) (qs : List (PST.Query F)) (evals : PST.Evals F) (ξs rs : List F)
    (πs : List (PST.Proof F)) (rest : List F)
    (hβ : nv ≤ β.length) (hz : ∀ gr ∈ PST.groupQueries qs, nv ≤ gr.2.1.length)
    (hev : ∀ gr ∈ PST.groupQueries qs, ∀ l ∈ gr.2.2,
      PST.lookupEval evals l gr.2.1
        = some (PST.lcValueAt (polys.zip (sts.zip comms)) lcs l gr.2.1))
    (ho : PST.openCombinations (PST.wfCK g γ β ts nv s D m) polys sts comms lcs qs ξs
      = .ok (πs, rest)) :
    PST.checkCombinations (PST.wfVK g γ h β nv s D) comms lcs qs evals πs ξs rs = .ok true :=
  PST.lc_complete g γ h β ts nv s D m polys sts comms hl1 hl2 hh lcs qs evals ξs rs πs rest hβ hz
    hev ho

/-- **Batch completeness from the query set** (`batch_open` / `batch_check`, what combination
proofs reduce to): honest triples, any query set, true values ⇒ accepted. -/
theorem pst13_batch_complete (g γ h : F) (β : List F) (ts : List Term) (nv s D m : Nat)
    (trips : List (PST.Trip F)) (hh : ∀ t ∈ trips, PST.HonestT g γ β nv t) (evals : PST.Evals F)
    (qs : List (PST.Query F)) (ξs rs : List F) (πs : List (PST.Proof F)) (rest : List F)
    (hβ : nv ≤ β.length) (hz : ∀ gr ∈ PST.groupQueries qs, nv ≤ gr.2.1.length)
    (hev : ∀ gr ∈ PST.groupQueries qs, ∀ l ∈ gr.2.2,
      PST.lookupEval evals l gr.2.1 = some (PST.polyValueAt trips l gr.2.1))
    (ho : PST.batchOpen (PST.wfCK g γ β ts nv s D m) trips qs ξs = .ok (πs, rest)) :
    PST.batchCheckQ (PST.wfVK g γ h β nv s D) (trips.map (·.2.2)) qs evals πs ξs rs = .ok true :=
  PST.batch_complete g γ h β ts nv s D m trips hh evals qs ξs rs πs rest hβ hz hev ho

/-- **The verifier combines exactly the commitments the prover combined** (same policy decisions,
same refusals), whenever commitment and polynomial agree on label and degree bound. -/
theorem pst13_lc_same_commitments (trips : List (PST.Trip F))
    (hc : ∀ t ∈ trips, t.2.2.label = t.1.label ∧ t.2.2.bound = t.1.bound)
    (lcs : List (LC.LinComb F)) (ts : List (PST.Trip F)) (h : PST.combineAll trips lcs = .ok ts) :
    PST.combineAllComm (trips.map (·.2.2)) lcs = .ok (ts.map (·.2.2)) :=
  PST.combineAll_V trips hc lcs ts h

/-- **The constants are subtracted from the claimed values**: after the verifier's adjustment the
evaluation stored for `(l, z)` is the claimed one minus the constants of every combination
labelled `l`. -/
theorem pst13_lc_adjusted_value (lcs : List (LC.LinComb F)) (evals : PST.Evals F) (l : PST.Label)
    (z : List F) :
    PST.lookupEval (PST.adjustEvals lcs evals) l z
      = (PST.lookupEval evals l z).map (fun v => v - PST.constFor lcs l) :=
  PST.lookupEval_adjustEvals lcs evals l z

/-! ### the verifier's decision in closed form, and what a changed statement does to it -/

/-- **What `check_combinations` computes on one combination claim** `(lc, z, v)`.
(`_partial`: stated for ONE combination queried under ONE point label.  For several combinations
and point labels the pairing product is the randomizer-weighted sum of such per-point defects —
`pst13_lc_batch_defect_shift` below and `C05.pst13_batch_defect` — but the closed form of each
per-point `(C, V)` in terms of the individual coefficients / constants / values, with the challenge
of each position, is not stated in general.)  Arbitrary
(unbounded) commitments, arbitrary verifier key, any proof with one witness per key variable: the
pairing product is
`lcDefect = ((Σ coeff·C_label − (v − constants)·g)·ξ − rv·γ)·h − Σᵢ Wᵢ·(βᵢh − zᵢ·h)`
and the answer is whether it vanishes. -/
theorem pst13_lc_check_closed_partial (vk : PST.VK F) (comms : List (PST.LComm F))
    (hcb : ∀ c ∈ comms, c.bound = none ∧ c.comm.shifted = none) (lc : LC.LinComb F)
    (hk : PST.AllKnown comms lc.terms) (pl : PST.Label) (z : List F) (v : F) (π : PST.Proof F)
    (ξ : F) (ξs rs : List F) (hw : π.w.length = vk.numVars) (hbh : vk.numVars ≤ vk.betaH.length)
    (hz : vk.numVars ≤ z.length) :
    PST.checkCombinationsDefect vk comms [lc] [(lc.label, (pl, z))] [((lc.label, z), v)] [π]
        (ξ :: ξs) rs = .ok (PST.lcDefect vk comms lc z v π ξ)
      ∧ PST.checkCombinations vk comms [lc] [(lc.label, (pl, z))] [((lc.label, z), v)] [π]
        (ξ :: ξs) rs = .ok (decide (PST.lcDefect vk comms lc z v π ξ = 0)) :=
  PST.lc_single_closed vk comms hcb lc hk pl z v π ξ ξs rs hw hbh hz

/-- **Any change of the statement shifts the defect by a stated amount**: two statements about a
combination of one label, checked against the same proof, differ by
`((ΔΣcoeff·C) − g·(Δv − Δconstants))·ξ·h`. -/
theorem pst13_lc_defect_shift (vk : PST.VK F) (comms : List (PST.LComm F)) (lc lc' : LC.LinComb F)
    (z : List F) (v v' : F) (π : PST.Proof F) (ξ : F) :
    PST.lcDefect vk comms lc' z v' π ξ = PST.lcDefect vk comms lc z v π ξ
      + ((PST.lcCommValue comms lc'.terms - PST.lcCommValue comms lc.terms)
          - vk.g * ((v' - PST.lcConst lc'.terms) - (v - PST.lcConst lc.terms))) * ξ * vk.h :=
  PST.lcDefect_shift vk comms lc lc' z v v' π ξ

/-- **A changed value is rejected** (`_partial`: one combination, one query — see
`pst13_lc_check_closed_partial` for what the general case lacks).  If the statement `(lc, z, v)` is accepted with `π`, the
statement `(lc, z, v + δ)` is rejected with the same proof whenever `δ·g·ξ·h ≠ 0`. -/
theorem pst13_lc_wrong_value_rejected_partial (vk : PST.VK F) (comms : List (PST.LComm F))
    (hcb : ∀ c ∈ comms, c.bound = none ∧ c.comm.shifted = none) (lc : LC.LinComb F)
    (hk : PST.AllKnown comms lc.terms) (pl : PST.Label) (z : List F) (v δ : F) (π : PST.Proof F)
    (ξ : F) (ξs rs : List F) (hw : π.w.length = vk.numVars) (hbh : vk.numVars ≤ vk.betaH.length)
    (hz : vk.numVars ≤ z.length)
    (hacc : PST.checkCombinations vk comms [lc] [(lc.label, (pl, z))] [((lc.label, z), v)] [π]
      (ξ :: ξs) rs = .ok true)
    (hne : δ * vk.g * ξ * vk.h ≠ 0) :
    PST.checkCombinations vk comms [lc] [(lc.label, (pl, z))] [((lc.label, z), v + δ)] [π]
      (ξ :: ξs) rs = .ok false := by
  rw [(PST.lc_single_closed vk comms hcb lc hk pl z v π ξ ξs rs hw hbh hz).2] at hacc
  rw [(PST.lc_single_closed vk comms hcb lc hk pl z (v + δ) π ξ ξs rs hw hbh hz).2]
  have h0 : PST.lcDefect vk comms lc z v π ξ = 0 := by simpa using hacc
  rw [PST.lcDefect_shift vk comms lc lc z v (v + δ) π ξ, h0]
  congr 1
  rw [decide_eq_false_iff_not]
  intro hx
  apply hne
  linear_combination -hx

/-- **A changed constant is rejected** (`_partial`: one combination, one query).  The verifier's combination has the constant term
`a + δ` where the prover's had `a`: rejected whenever `δ·g·ξ·h ≠ 0`. -/
theorem pst13_lc_wrong_constant_rejected_partial (vk : PST.VK F) (comms : List (PST.LComm F))
    (hcb : ∀ c ∈ comms, c.bound = none ∧ c.comm.shifted = none) (lbl : PST.Label)
    (pre post : List (F × LC.LCTerm)) (a δ : F)
    (hk : PST.AllKnown comms (pre ++ (a, .one) :: post)) (pl : PST.Label) (z : List F) (v : F)
    (π : PST.Proof F) (ξ : F) (ξs rs : List F) (hw : π.w.length = vk.numVars)
    (hbh : vk.numVars ≤ vk.betaH.length) (hz : vk.numVars ≤ z.length)
    (hacc : PST.checkCombinations vk comms [⟨lbl, pre ++ (a, .one) :: post⟩] [(lbl, (pl, z))]
      [((lbl, z), v)] [π] (ξ :: ξs) rs = .ok true)
    (hne : δ * vk.g * ξ * vk.h ≠ 0) :
    PST.checkCombinations vk comms [⟨lbl, pre ++ (a + δ, .one) :: post⟩] [(lbl, (pl, z))]
      [((lbl, z), v)] [π] (ξ :: ξs) rs = .ok false := by
  have hk' : PST.AllKnown comms (pre ++ (a + δ, LC.LCTerm.one) :: post) := by
    intro t ht l hl
    simp only [List.mem_append, List.mem_cons] at ht
    rcases ht with ht | rfl | ht
    · exact hk t (by simp [ht]) l hl
    · cases hl
    · exact hk t (by simp [ht]) l hl
  rw [(PST.lc_single_closed vk comms hcb ⟨lbl, pre ++ (a, .one) :: post⟩ hk pl z v π ξ ξs rs hw hbh
    hz).2] at hacc
  rw [(PST.lc_single_closed vk comms hcb ⟨lbl, pre ++ (a + δ, .one) :: post⟩ hk' pl z v π ξ ξs rs hw
    hbh hz).2]
  have h0 : PST.lcDefect vk comms ⟨lbl, pre ++ (a, .one) :: post⟩ z v π ξ = 0 := by simpa using hacc
  obtain ⟨e1, e2⟩ := PST.const_shift comms pre post a δ
  rw [PST.lcDefect_shift vk comms ⟨lbl, pre ++ (a, .one) :: post⟩ ⟨lbl, pre ++ (a + δ, .one) :: post⟩
    z v v π ξ, h0]
  simp only [e1, e2]
  congr 1
  rw [decide_eq_false_iff_not]
  intro hx
  apply hne
  linear_combination hx

/-- **A changed coefficient is rejected** (`_partial`: one combination, one query).  The verifier's combination has `a + δ` where the
prover's had `a`, on the polynomial whose commitment is `c`: rejected whenever `δ·c·ξ·h ≠ 0`. -/
theorem pst13_lc_wrong_coefficient_rejected_partial (vk : PST.VK F) (comms : List (PST.LComm F))
    (hcb : ∀ c ∈ comms, c.bound = none ∧ c.comm.shifted = none) (lbl : PST.Label)
    (pre post : List (F × LC.LCTerm)) (a δ : F) (m : PST.Label) (c : PST.LComm F)
    (hm : Marlin.lookupLast (fun (c : PST.LComm F) => c.label) m comms = some c)
    (hk : PST.AllKnown comms (pre ++ (a, .poly m) :: post)) (pl : PST.Label) (z : List F) (v : F)
    (π : PST.Proof F) (ξ : F) (ξs rs : List F) (hw : π.w.length = vk.numVars)
    (hbh : vk.numVars ≤ vk.betaH.length) (hz : vk.numVars ≤ z.length)
    (hacc : PST.checkCombinations vk comms [⟨lbl, pre ++ (a, .poly m) :: post⟩] [(lbl, (pl, z))]
      [((lbl, z), v)] [π] (ξ :: ξs) rs = .ok true)
    (hne : δ * c.comm.comm * ξ * vk.h ≠ 0) :
    PST.checkCombinations vk comms [⟨lbl, pre ++ (a + δ, .poly m) :: post⟩] [(lbl, (pl, z))]
      [((lbl, z), v)] [π] (ξ :: ξs) rs = .ok false := by
  have hk' : PST.AllKnown comms (pre ++ (a + δ, LC.LCTerm.poly m) :: post) := by
    intro t ht l hl
    simp only [List.mem_append, List.mem_cons] at ht
    rcases ht with ht | rfl | ht
    · exact hk t (by simp [ht]) l hl
    · simp only [LC.LCTerm.poly.injEq] at hl
      subst hl
      simp [hm]
    · exact hk t (by simp [ht]) l hl
  rw [(PST.lc_single_closed vk comms hcb ⟨lbl, pre ++ (a, .poly m) :: post⟩ hk pl z v π ξ ξs rs hw
    hbh hz).2] at hacc
  rw [(PST.lc_single_closed vk comms hcb ⟨lbl, pre ++ (a + δ, .poly m) :: post⟩ hk' pl z v π ξ ξs rs
    hw hbh hz).2]
  have h0 : PST.lcDefect vk comms ⟨lbl, pre ++ (a, .poly m) :: post⟩ z v π ξ = 0 := by
    simpa using hacc
  obtain ⟨e1, e2⟩ := PST.coeff_shift comms pre post a δ m c hm
  rw [PST.lcDefect_shift vk comms ⟨lbl, pre ++ (a, .poly m) :: post⟩
    ⟨lbl, pre ++ (a + δ, .poly m) :: post⟩ z v v π ξ, h0]
  simp only [e1, e2]
  congr 1
  rw [decide_eq_false_iff_not]
  intro hx
  apply hne
  linear_combination hx

/-- **Any number of point labels: every per-point combined claim enters with its randomizer.**
`batch_check` on combined commitments / values moved by `(dcs, dvs)` — whatever change of
coefficients, constants or values produced the move — has its pairing product moved by
`Σₖ ρₖ·(dCₖ − g·dVₖ)·h` (`ρ₀ = 1`, then the verifier's randomizers). -/
theorem pst13_lc_batch_defect_shift (vk : PST.VK F) (cs dcs : List F) (zs : List (List F))
    (vs dvs : List F) (πs : List (PST.Proof F)) (rs : List F)
    (h1 : dcs.length = cs.length) (h2 : dvs.length = vs.length) (h3 : cs.length = vs.length)
    (h4 : zs.length = cs.length) (h5 : πs.length = cs.length)
    (hbh : vk.numVars ≤ vk.betaH.length) (hπ : ∀ π ∈ πs, π.w.length = vk.numVars)
    (hz : ∀ z ∈ zs, vk.numVars ≤ z.length) :
    PST.batchDefect vk (List.zipWith (· + ·) cs dcs) zs (List.zipWith (· + ·) vs dvs) πs rs
      = .ok (PST.wsum 1 rs (PST.defectsC vk cs zs vs πs) + PST.wsum 1 rs (PST.claimShifts vk dcs dvs))
    ∧ PST.batchDefect vk cs zs vs πs rs = .ok (PST.wsum 1 rs (PST.defectsC vk cs zs vs πs)) :=
  PST.batchDefect_shift vk cs dcs zs vs dvs πs rs h1 h2 h3 h4 h5 hbh hπ hz

/-! ### refusals -/

/-- **Unknown label, prover**: a term naming a polynomial that was not supplied ends
`open_combinations` with `MissingPolynomial`. -/
theorem pst13_lc_unknown_label_prover (trips : List (PST.Trip F)) (k : Nat) (acc : PST.LCAcc F)
    (coeff : F) (l : PST.Label)
    (hl : Marlin.lookupLast (fun (t : PST.Trip F) => t.1.label) l trips = none) :
    PST.lcStep trips k acc (coeff, .poly l) = .error .missingPolynomial :=
  PST.lcStep_unknown trips k acc coeff l hl

/-- **Unknown label, verifier**: a combination whose first unknown label comes after terms that
name supplied commitments ends `check_combinations` with `MissingPolynomial`. -/
theorem pst13_lc_unknown_label_verifier (comms : List (PST.LComm F))
    (hcb : ∀ c ∈ comms, c.bound = none ∧ c.comm.shifted = none) (lbl : PST.Label)
    (pre post : List (F × LC.LCTerm)) (hk : PST.AllKnown comms pre) (coeff : F) (l : PST.Label)
    (hl : Marlin.lookupLast (fun (c : PST.LComm F) => c.label) l comms = none)
    (vk : PST.VK F) (lcs : List (LC.LinComb F)) (qs : List (PST.Query F)) (evals : PST.Evals F)
    (πs : List (PST.Proof F)) (ξs rs : List F) :
    PST.checkCombinations vk comms (⟨lbl, pre ++ (coeff, .poly l) :: post⟩ :: lcs) qs evals πs ξs rs
      = .error .missingPolynomial := by
  unfold PST.checkCombinations
  simp only [PST.combineAllComm, PST.combineLCComm,
    PST.lcTermsV_unknown comms hcb _ pre post hk coeff l hl]

/-- **A query for a combination that was not supplied** is refused with `MissingPolynomial` by the
prover's `batch_open` and by the verifier's `combine_and_normalize`; a supplied commitment without
its evaluation with `MissingEvaluation`. -/
theorem pst13_lc_unknown_query (trips : List (PST.Trip F)) (comms : List (PST.LComm F))
    (evals : PST.Evals F) (z : List F) (l : PST.Label) (ls : List PST.Label) :
    (Marlin.lookupLast (fun (t : PST.Trip F) => t.1.label) l trips = none →
      PST.gatherTrips trips (l :: ls) = .error .missingPolynomial) ∧
    (Marlin.lookupLast (fun (c : PST.LComm F) => c.label) l comms = none →
      PST.gatherComms comms evals z (l :: ls) = .error .missingPolynomial) ∧
    (∀ c, Marlin.lookupLast (fun (c : PST.LComm F) => c.label) l comms = some c →
      (c.bound = none ∧ c.comm.shifted = none) → PST.lookupEval evals l z = none →
      PST.gatherComms comms evals z (l :: ls) = .error .missingEvaluation) :=
  ⟨PST.gatherTrips_unknown trips l ls, PST.gatherComms_unknown comms evals z l ls,
    fun c hc hb he => PST.gatherComms_missing_eval comms evals z l ls c hc hb he⟩

/-- **Degree-bound policy** (the shared `Marlin` code; `MarlinPST13::commit` itself never enforces
a bound, but a polynomial or commitment DECLARED with one is treated like this): mixed with any
other term — `EquationHasDegreeBounds`; alone with a coefficient other than one — abort; alone with
coefficient one — combined. -/
theorem pst13_lc_bound_policy (k b : Nat) (coeff : F) :
    (k ≠ 1 → PST.policy k (some b) coeff = some .equationHasDegreeBounds) ∧
    (k = 1 → coeff ≠ 1 → PST.policy k (some b) coeff = some .abort) ∧
    (k = 1 → coeff = 1 → PST.policy k (some b) coeff = none) :=
  PST.policy_bounded k b coeff

/-! ### non-vacuity over `ZMod 101`

Key of the trapdoor `(2,7)` (`g = 3, γ = 5, h = 11`); `p = 4 + 6x₁ + 9x₀x₁ + 2x₀²` committed hiding
(`27`), `q = 4 + 6x₀ + 2x₀²` declared over one variable, non-hiding (`72`); the combination
`lc = 2·p − q + 5` queried at `(10, 20)`: `2·3 − 62 + 5 = 50`. -/

def exPolys : List (PST.LPoly K) :=
  [⟨[112], [(4, []), (6, [(1, 1)]), (9, [(0, 1), (1, 1)]), (2, [(0, 2)])], 2, none, some 1⟩,
   ⟨[113], [(4, []), (6, [(0, 1)]), (2, [(0, 2)])], 1, none, none⟩]
def exStates : List (PST.Rand K) :=
  [⟨[(7, []), (4, [(1, 1)]), (8, [(1, 2)]), (9, [(0, 2)])], 2⟩, ⟨[], 0⟩]
def exComms : List (PST.LComm K) := [⟨[112], ⟨27, none⟩, none⟩, ⟨[113], ⟨72, none⟩, none⟩]
def exLC (a c : K) : LC.LinComb K := ⟨[108], [(a, .poly [112]), (-1, .poly [113]), (c, .one)]⟩
def exCK : PST.CK K := PST.wfCK (3 : K) 5 [2, 7] (specTerms 2 2) 2 2 2 3
def exVK : PST.VK K := PST.wfVK (3 : K) 5 11 [2, 7] 2 2 2

example : PST.combineLC (exPolys.zip (exStates.zip exComms)) (exLC 2 5)
    = .ok (⟨[108], [(4, []), (12, [(1, 1)]), (95, [(0, 1)]), (18, [(0, 1), (1, 1)]), (2, [(0, 2)])], 2,
              none, some 1⟩,
           ⟨[(14, []), (8, [(1, 1)]), (16, [(1, 2)]), (18, [(0, 2)])], 2⟩,
           ⟨[108], ⟨83, none⟩, none⟩) := by decide
example : PST.openCombinations exCK exPolys exStates exComms [exLC 2 5] [([108], ([122], [10, 20]))] [13]
    = .ok ([⟨[62, 31], some 85⟩], []) := by decide
/-- accepted for the true value; value / constant / coefficient changed: rejected -/
example : PST.checkCombinations exVK exComms [exLC 2 5] [([108], ([122], [10, 20]))]
    [(([108], [10, 20]), 50)] [⟨[62, 31], some 85⟩] [13] [5] = .ok true := by decide
example : PST.checkCombinations exVK exComms [exLC 2 5] [([108], ([122], [10, 20]))]
    [(([108], [10, 20]), 51)] [⟨[62, 31], some 85⟩] [13] [5] = .ok false := by decide
example : PST.checkCombinationsDefect exVK exComms [exLC 2 5] [([108], ([122], [10, 20]))]
    [(([108], [10, 20]), 51)] [⟨[62, 31], some 85⟩] [13] [5] = .ok (-(1 * 3 * 13 * 11)) := by decide
example : PST.checkCombinations exVK exComms [exLC 2 6] [([108], ([122], [10, 20]))]
    [(([108], [10, 20]), 50)] [⟨[62, 31], some 85⟩] [13] [5] = .ok false := by decide
example : PST.checkCombinations exVK exComms [exLC 3 5] [([108], ([122], [10, 20]))]
    [(([108], [10, 20]), 50)] [⟨[62, 31], some 85⟩] [13] [5] = .ok false := by decide
/-- the hypotheses of the rejection theorems on this example: `δ·g·ξ·h` and `δ·c·ξ·h` with
`δ = 1, g = 3, ξ = 13, h = 11, c = 27`; every polynomial term names a supplied commitment -/
example : (1 : K) * 3 * 13 * 11 ≠ 0 ∧ (1 : K) * 27 * 13 * 11 ≠ 0 := by decide
example : Marlin.lookupLast (fun (c : PST.LComm K) => c.label) [112] exComms
    = some ⟨[112], ⟨27, none⟩, none⟩ := by decide
/-- two combinations, two point labels sharing the point value, three challenges, one randomizer -/
example : PST.groupQueries ([([108], ([122], [10, 20])), ([109], ([122], [10, 20])),
      ([109], ([123], [10, 20]))] : List (PST.Query K))
    = [([122], ([10, 20], [[108], [109]])), ([123], ([10, 20], [[109]]))] := by decide
example : PST.openCombinations exCK exPolys exStates exComms
    [exLC 2 5, ⟨[109], [(1, .poly [113]), (0, .poly [112]), (-1, .one)]⟩]
    [([108], ([122], [10, 20])), ([109], ([122], [10, 20])), ([109], ([123], [10, 20]))] [13, 17, 19]
    = .ok ([⟨[77, 31], some 85⟩, ⟨[94, 0], none⟩], []) := by decide
example : PST.checkCombinations exVK exComms
    [exLC 2 5, ⟨[109], [(1, .poly [113]), (0, .poly [112]), (-1, .one)]⟩]
    [([108], ([122], [10, 20])), ([109], ([122], [10, 20])), ([109], ([123], [10, 20]))]
    [(([108], [10, 20]), 50), (([109], [10, 20]), 61)] [⟨[77, 31], some 85⟩, ⟨[94, 0], none⟩]
    [13, 17, 19] [5] = .ok true := by decide
example : PST.checkCombinations exVK exComms
    [exLC 2 5, ⟨[109], [(1, .poly [113]), (0, .poly [112]), (-1, .one)]⟩]
    [([108], ([122], [10, 20])), ([109], ([122], [10, 20])), ([109], ([123], [10, 20]))]
    [(([108], [10, 20]), 50), (([109], [10, 20]), 62)] [⟨[77, 31], some 85⟩, ⟨[94, 0], none⟩]
    [13, 17, 19] [5] = .ok false := by decide
/-- refusals: an unknown polynomial label (prover and verifier), a query for an unknown combination,
a withheld evaluation, a polynomial declared with a degree bound mixed with another term -/
example : PST.openCombinations exCK exPolys exStates exComms
    [⟨[108], [(2, .poly [112]), (-1, .poly [120]), (5, .one)]⟩] [([108], ([122], [10, 20]))] [13]
    = .error .missingPolynomial := by decide
example : PST.checkCombinations exVK exComms [⟨[108], [(2, .poly [112]), (-1, .poly [120]), (5, .one)]⟩]
    [([108], ([122], [10, 20]))] [(([108], [10, 20]), 50)] [⟨[62, 31], some 85⟩] [13] [5]
    = .error .missingPolynomial := by decide
example : PST.checkCombinations exVK exComms [exLC 2 5] [([109], ([122], [10, 20]))]
    [(([108], [10, 20]), 50)] [⟨[62, 31], some 85⟩] [13] [5] = .error .missingPolynomial := by decide
example : PST.checkCombinations exVK exComms [exLC 2 5] [([108], ([122], [10, 20]))]
    [] [⟨[62, 31], some 85⟩] [13] [5] = .error .missingEvaluation := by decide
example : PST.combineLC
    [((⟨[112], [(4, [])], 2, some 2, none⟩ : PST.LPoly K), ⟨[], 0⟩, ⟨[112], ⟨12, none⟩, none⟩)]
    ⟨[108], [(1, .poly [112]), (5, .one)]⟩ = .error .equationHasDegreeBounds := by decide

/-- `pst13_lc_batch_defect_shift` on two accepted per-point claims moved by `(1, 4)` and `(2, 7)` under
the randomizer `5`: the product moves from `0` to `(1 − 3·4)·11 + 5·(2 − 3·7)·11` -/
example : PST.batchDefect exVK [48, 68] [[10, 20], [10, 20]] [39, 99]
    [⟨[10, 66], some 93⟩, ⟨[31, 59], some 36⟩] [5] = .ok 0 := by decide
example : PST.batchDefect exVK [48 + 1, 68 + 2] [[10, 20], [10, 20]] [39 + 4, 99 + 7]
    [⟨[10, 66], some 93⟩, ⟨[31, 59], some 36⟩] [5]
    = .ok ((1 - 3 * 4) * 11 + 5 * ((2 - 3 * 7) * 11)) := by decide
example : PST.claimShifts exVK [1, 2] [4, 7] = [(1 - 3 * 4) * 11, (2 - 3 * 7) * 11] := by decide

end PCV.C06
