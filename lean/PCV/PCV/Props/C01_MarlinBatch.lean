/-
  Property C01 (MarlinKZG10, batched form) — `batch_open` followed by `batch_check` over an ARBITRARY
  query set: every honest batch proof of true evaluations is accepted, for every list of verifier
  randomizers.  (Single-point completeness: `C01.marlin_complete`.)
-/
import PCV.Proofs.MarlinBatch
import PCV.Proofs.MarlinPerm
import PCV.Props.C01_Marlin
set_option linter.unusedSectionVars false

namespace PCV.C01
open PCV Marlin
variable {F : Type} [Field F] [DecidableEq F]

/-- **MarlinKZG10, batched.**  Keys in the form `trim` produces (`WF`, proved for `trim` by
`trim_wf`), any list of honest (polynomial, state, commitment) triples — any number, any admissible
degree and hiding bounds, labels of commitments equal to those of their polynomials — ANY query list
(several point labels, several polynomials per label, one polynomial under several labels, labels
sharing a point value), truthful evaluations for the queried pairs: whatever `batch_open` returns is
accepted by `batch_check`, whatever randomizers the verifier draws.  `hnd` is the per-point-label
form of the side condition of `marlin_complete` (DESIGN §11.2), vacuous without hiding
(`marlin_batch_complete_nonhiding`). -/
theorem marlin_batch_complete {ck : CK F} {vk : VK F} {g γ β h : F} {D n m : Nat}
    (hwf : WF ck vk g γ β h D n m) (l : List (Trip F))
    (hH : ∀ t ∈ l, Honest g γ β D t) (hL : ∀ t ∈ l, RandLen m t)
    (hlab : ∀ t ∈ l, t.2.2.label = t.1.label)
    (qs : List (Query F)) (evals : List ((Label × F) × F))
    (hev : ∀ gr ∈ groupQueries qs, ∀ lab ∈ gr.2.2, ∀ t, lookupT lab l none = some t →
      lookupEval evals lab gr.2.1 = some (evalPoly t.1.poly gr.2.1))
    (ξs : List F) (πs : List (KZG.Proof F)) (rest : List F)
    (ho : batchOpen ck (l.map (·.1)) (l.map (·.2.1)) qs ξs = .ok (πs, rest))
    (hnd : GroupsND ck (l.map (·.1)) (l.map (·.2.1)) (groupQueries qs) ξs) (rs : List F) :
    batchCheck vk (l.map (·.2.2)) qs evals πs ξs rs = .ok true :=
  batch_complete hwf l hH hL hlab qs evals hev ξs πs rest ho hnd rs

/-- the batched theorem without hiding: no side condition at all -/
theorem marlin_batch_complete_nonhiding {ck : CK F} {vk : VK F} {g γ β h : F} {D n m : Nat}
    (hwf : WF ck vk g γ β h D n m) (l : List (Trip F))
    (hH : ∀ t ∈ l, Honest g γ β D t)
    (hnh : ∀ t ∈ l, t.2.1.rand = [] ∧ ∀ rs, t.2.1.shifted = some rs → rs = [])
    (hlab : ∀ t ∈ l, t.2.2.label = t.1.label)
    (qs : List (Query F)) (evals : List ((Label × F) × F))
    (hev : ∀ gr ∈ groupQueries qs, ∀ lab ∈ gr.2.2, ∀ t, lookupT lab l none = some t →
      lookupEval evals lab gr.2.1 = some (evalPoly t.1.poly gr.2.1))
    (ξs : List F) (πs : List (KZG.Proof F)) (rest : List F)
    (ho : batchOpen ck (l.map (·.1)) (l.map (·.2.1)) qs ξs = .ok (πs, rest)) (rs : List F) :
    batchCheck vk (l.map (·.2.2)) qs evals πs ξs rs = .ok true := by
  refine marlin_batch_complete hwf l hH
    (fun t ht => ⟨by rw [(hnh t ht).1]; exact pnorm_nil_le m,
      fun rs hrs => by rw [(hnh t ht).2 rs hrs]; exact pnorm_nil_le m⟩)
    hlab qs evals hev ξs πs rest ho ?_ rs
  apply groupsND_nonhiding
  intro st hst rs hrs
  obtain ⟨t, ht, hte⟩ := List.mem_map.1 hst
  exact (hnh t ht).2 rs (hte ▸ hrs)

/-- **Order independence (prover).** `batch_open` matches polynomials and states by label: listing the
(polynomial, state) pairs in any other order (distinct labels) gives the same proofs and leaves the same
challenges. -/
theorem marlin_batch_open_order (ck : CK F) (polys polys' : List (LPoly F)) (sts sts' : List (Rand F))
    (qs : List (Query F)) (ξs : List F)
    (hp : (polys.zip sts).Perm (polys'.zip sts'))
    (hnd : ((polys.zip sts).map fun x => x.1.label).Nodup) :
    batchOpen ck polys sts qs ξs = batchOpen ck polys' sts' qs ξs :=
  batchOpen_perm ck polys polys' sts sts' qs ξs hp hnd

/-- **Order independence (verifier).** `batch_check` matches commitments by label: any permutation of
the commitment list (distinct labels) gives the same decision — so prover and verifier need not agree
on any order. -/
theorem marlin_batch_check_order (vk : VK F) (comms comms' : List (LComm F)) (qs : List (Query F))
    (evals : List ((Label × F) × F)) (πs : List (KZG.Proof F)) (ξs rs : List F)
    (hp : comms.Perm comms') (hnd : (comms.map fun c => c.label).Nodup) :
    batchCheck vk comms qs evals πs ξs rs = batchCheck vk comms' qs evals πs ξs rs :=
  batchCheck_perm vk comms comms' qs evals πs ξs rs hp hnd

/-- **Order independence (queries).** The query set is a `BTreeSet`: the model takes it in set order
(`TraitDefault.querySet`), which is the same list for any two query lists with the same elements —
listed in any order, any number of times. -/
theorem marlin_batch_query_order (ck : CK F) (vk : VK F) (ltP : F → F → Bool)
    (hlt : QS.StrictTotal ltP) (hirr : ∀ a, ltP a a = false)
    (polys : List (LPoly F)) (sts : List (Rand F)) (comms : List (LComm F))
    (qs qs' : List (Query F)) (h : ∀ q, q ∈ qs ↔ q ∈ qs')
    (evals : List ((Label × F) × F)) (πs : List (KZG.Proof F)) (ξs rs : List F) :
    batchOpen ck polys sts (TraitDefault.querySet ltP qs) ξs
        = batchOpen ck polys sts (TraitDefault.querySet ltP qs') ξs ∧
      batchCheck vk comms (TraitDefault.querySet ltP qs) evals πs ξs rs
        = batchCheck vk comms (TraitDefault.querySet ltP qs') evals πs ξs rs := by
  rw [TraitDefault.querySet_congr ltP hlt hirr qs qs' h]
  exact ⟨rfl, rfl⟩

/-! non-vacuity over `ZMod 101` (`g = 3`, `β = 2`): two polynomials, two point labels, the second
polynomial under both -/
def exBatch : List (Trip K) :=
  [(⟨[97], [1, 2, 3], none, none⟩, ⟨[], none⟩, ⟨[97], ⟨51, none⟩, none⟩),
   (⟨[98], [4, 0, 1], none, none⟩, ⟨[], none⟩, ⟨[98], ⟨24, none⟩, none⟩)]
def exQueries : List (Query K) :=
  [([97], ([112, 48], 5)), ([98], ([112, 48], 5)), ([98], ([112, 49], 9))]
example : batchOpen exCK (exBatch.map (·.1)) (exBatch.map (·.2.1)) exQueries [11, 13, 17, 19]
    = .ok ([⟨22, none⟩, ⟨56, none⟩], [19]) := by decide
example : batchCheck exVK (exBatch.map (·.2.2)) exQueries
    [(([97], 5), evalPoly [1, 2, 3] 5), (([98], 5), evalPoly [4, 0, 1] 5), (([98], 9), evalPoly [4, 0, 1] 9)]
    [⟨22, none⟩, ⟨56, none⟩] [11, 13, 17, 19] [29] = .ok true := by decide
example : ∀ t ∈ exBatch, t.2.2.comm.comm = 3 * evalPoly t.1.poly 2 := by decide
/-- the reversed lists give the same proofs and the same decision -/
example : batchOpen exCK (exBatch.reverse.map (·.1)) (exBatch.reverse.map (·.2.1)) exQueries [11, 13, 17, 19]
    = .ok ([⟨22, none⟩, ⟨56, none⟩], [19]) := by decide
example : batchCheck exVK (exBatch.reverse.map (·.2.2)) exQueries
    [(([97], 5), evalPoly [1, 2, 3] 5), (([98], 5), evalPoly [4, 0, 1] 5), (([98], 9), evalPoly [4, 0, 1] 9)]
    [⟨22, none⟩, ⟨56, none⟩] [11, 13, 17, 19] [29] = .ok true := by decide

end PCV.C01
