/-
  Property C03 — inner-product argument, ALGEBRAIC forger, general form.  Lemmas: PCV/Proofs/IPAExtractGeneral.lean
  (on top of PCV/Proofs/IPAExtract.lean).  `C03_IPAExtract` / `C04_IPAExtract` treat one non-hiding commitment and a
  non-hiding proof over the two generator families `(G, h′)`.  Here:

  * THREE independent generator families `(G, h′, s)` — committer key, round generator `h′ = ξ₀·h`, hiding
    generator `s`.  Commitments are `⟨p, G⟩ + ρ·s`, the proof's hiding commitment is `⟨hp, G⟩ + hρ·s`, and every
    `L_i`, `R_i` is `⟨·, G⟩ + ·h′ + ·s` (`IPA.Rep3`).
  * an ARBITRARY statement: any list of commitments, with and without degree bounds, hiding or not, and a proof
    with or without the hiding block.
  * `batch_check`: several proofs combined with the verifier's randomizers.

  The order in which things are fixed (from `succinct_check`): the statement (commitments, point, values) and so
  all `pⱼ, qⱼ, ρⱼ, ρ′ⱼ, vⱼ` come first; the statement challenges `ξⱼ, ξ′ⱼ` are squeezed from the sponge; the
  hiding challenge `α` is the random oracle's answer on `(Ĉ, z, v̂, hiding_comm)`, so `hp`, `hρ` are fixed BEFORE
  `α` (but may depend on the `ξ`s); `rand` is not hashed on its own and may depend on `α`, but it is part of the
  adjusted `Ĉ′` that is hashed into `ξ₀`; round `i`'s `L_i`, `R_i` are hashed into `u_i`.

  Not covered by the statement-level theorems: commitments / hiding commitments with a component along `h` itself
  (they are taken over `(G, s)`, what `commit` and `open` produce).  The lemma `IPA.algebraic_trichotomy3` takes an
  arbitrary representation `P` of the combined commitment over `(G, h′, s)` and applies to that case with
  `P.h = (h-coefficient)/ξ₀`.
-/
import PCV.Proofs.IPAExtractGeneral
import PCV.Props.Examples

set_option linter.unusedSectionVars false

namespace PCV.C03
open PCV
variable {F : Type} [Field F] [DecidableEq F]

/-- **IPA, acceptance is one linear relation between the generator families `(G, h′, s)`.**  If the combined
commitment `Ĉ` (after the hiding adjustment) and the sum `Σ(u⁻¹L + uR)` of an accepted run are represented over
`(G, h′, s)`, the coefficient vector `rel3 = (rel_G, rel_h, rel_s)` with
`rel_G = P.G + Σ(u⁻¹L.G + uR.G) − c·coeffs(h_u)`, `rel_h = P.h + v̂ + Σ(u⁻¹L.h + uR.h) − c·h_u(z)`,
`rel_s = P.s + Σ(u⁻¹L.s + uR.s)` satisfies `⟨rel_G, G⟩ + rel_h·h′ + rel_s·s = 0`. -/
theorem ipa_accept_is_linear_relation_hiding (vk : IPA.VK F) (z : F) (π : IPA.Proof F) (r : IPA.Run F)
    (P : IPA.Rep3 F) (Ls Rs : List (IPA.Rep3 F))
    (hC : r.C = IPA.rep3Val vk.commKey (vk.h * r.ξ₀) vk.s P)
    (hlr : r.lr = IPA.rep3Val vk.commKey (vk.h * r.ξ₀) vk.s (IPA.lrRep3 Ls Rs r.us))
    (h1 : IPA.defect1 vk z π r = 0) (h2 : IPA.defect2 vk π r.us = 0) :
    IPA.rep3Val vk.commKey (vk.h * r.ξ₀) vk.s (IPA.rel3 P r.V Ls Rs r.us π.c z) = 0 ∧
      (IPA.rel3 P r.V Ls Rs r.us π.c z).G
        = padd (padd P.G (IPA.lrRep3 Ls Rs r.us).G) (pscale (-π.c) (Succinct.computeCoeffs r.us)) ∧
      (IPA.rel3 P r.V Ls Rs r.us π.c z).h
        = P.h + r.V + (IPA.lrRep3 Ls Rs r.us).h - π.c * Succinct.evaluate r.us z ∧
      (IPA.rel3 P r.V Ls Rs r.us π.c z).s = P.s + (IPA.lrRep3 Ls Rs r.us).s :=
  ⟨IPA.accept_relation3 vk z π r P Ls Rs hC hlr h1 h2, rfl, rfl, rfl⟩

/-- **IPA, the combined commitment and value of an arbitrary statement.**  If `xs` represents the commitments `cs`
position by position (plain part `⟨pⱼ, G⟩ + ρⱼ·s`, shifted part `⟨qⱼ, G⟩ + ρ′ⱼ·s`) and the verifier's combining loop
runs through, then its combined commitment is `⟨Σⱼ ξⱼ·pⱼ + ξ′ⱼ·qⱼ, G⟩ + (Σⱼ ξⱼ·ρⱼ + ξ′ⱼ·ρ′ⱼ)·s` (`accG`, `accS`; the
`ξ′`-terms only at positions with a degree bound) and its combined value is `Σⱼ ξⱼ·vⱼ + ξ′ⱼ·vⱼ·z^{s−bⱼ}`
(`valueErr`), where `ξⱼ, ξ′ⱼ` are the two challenges of position `j`. -/
theorem ipa_combined_commitment_representation (vk : IPA.VK F) (z : F) (cs : List (IPA.LComm F))
    (xs : List (IPA.CRep F)) (vs : List F) (cur : F) (ξs : List F) (C V : F) (rest : List F)
    (hcs : IPA.AllCommRep vk.commKey vk.s cs xs)
    (h : IPA.accLoop vk z cs vs cur ξs 0 0 = .ok ((C, V), rest)) :
    C = dot vk.commKey (IPA.accG cs xs vs cur ξs) + vk.s * IPA.accS cs xs vs cur ξs ∧
      V = IPA.valueErr vk z cs vs cur ξs ∧
      evalPoly (IPA.accG cs xs vs cur ξs) z - V = IPA.accClaim vk z cs xs vs cur ξs := by
  obtain ⟨e1, e2⟩ := IPA.accLoop_rep vk z cs xs vs cur ξs 0 0 C V rest hcs h
  have e2' : V = IPA.valueErr vk z cs vs cur ξs := by rw [e2]; ring
  refine ⟨by rw [e1]; ring, e2', ?_⟩
  rw [e2', IPA.accClaim_eq vk z cs xs vs cur ξs (IPA.AllCommRep.length_eq _ _ cs xs hcs)]

/-- **IPA, the combined claim error is one linear form in the statement challenges**:
`Σⱼ ξⱼ·(pⱼ(z) − vⱼ) + ξ′ⱼ·(qⱼ(z) − vⱼ·z^{s−bⱼ}) = ⟨coefficients, (ξ₁, ξ′₁, ξ₂, ξ′₂, …)⟩`, the coefficients
(`claimCoeffs`: `pⱼ(z) − vⱼ` and `qⱼ(z) − vⱼ·z^{s−bⱼ}`, `0` for the unused second challenge of an unbounded position)
being fixed by the statement and the representations before any challenge is drawn. -/
theorem ipa_claim_error_linear_in_challenges (vk : IPA.VK F) (z : F) (cs : List (IPA.LComm F))
    (xs : List (IPA.CRep F)) (vs : List F) (cur : F) (ξs : List F) (hl : 2 * cs.length ≤ ξs.length) :
    IPA.accClaim vk z cs xs vs cur ξs = dot (IPA.claimCoeffs vk z cs xs vs) (cur :: ξs) :=
  IPA.accClaim_eq_dot vk z cs xs vs cur ξs hl

/-- **IPA, algebraic forger against `check`, arbitrary statement, hiding or not.**
`xs` represents the commitments `cs` over `(G, s)`; the proof's hiding commitment (if present) is
`⟨hp, G⟩ + hρ·s`; its `L`s and `R`s are given by representations over `(G, h′, s)`.  If `check` answers
`Ok(true)` then, with `r` the verifier's run, `α = hidChal π ros` the hiding challenge (`0` without hiding block)
and `P = runRep …` the resulting representation of the combined commitment
(`P.G = Σⱼ(ξⱼ·pⱼ + ξ′ⱼ·qⱼ) + α·hp`, `P.h = 0`, `P.s = Σⱼ(ξⱼ·ρⱼ + ξ′ⱼ·ρ′ⱼ) + α·hρ − rand`):

* the prover holds a non-trivial relation `⟨rel_G, G⟩ + rel_h·h′ + rel_s·s = 0`;  or
* `Σⱼ ξⱼ·(pⱼ(z) − vⱼ) + ξ′ⱼ·(qⱼ(z) − vⱼ·z^{s−bⱼ}) + α·hp(z) = 0` — ONE linear condition on the statement
  challenges and `α`, whose coefficients (`pⱼ(z) − vⱼ`, `qⱼ(z) − vⱼ·z^{s−bⱼ}`: fixed with the statement;
  `hp(z)`: fixed before `α` is drawn) are not all zero when some claim is false;  or
* some round challenge `uᵢ` is a root of `ρᵢ·X² + Aᵢ·X + λᵢ` with `Aᵢ ≠ 0`, where `λᵢ`, `ρᵢ` are the slacks
  `⟨Lᵢ.G, (1,z,z²,…)⟩ − Lᵢ.h` of the round's elements and `Aᵢ` the error accumulated before round `i`, all fixed
  before `uᵢ` is drawn.  The `s`-components of `L_i`, `R_i` enter neither `λᵢ` nor `ρᵢ`. -/
theorem ipa_general_algebraic_forgery_trichotomy (vk : IPA.VK F) (cs : List (IPA.LComm F))
    (xs : List (IPA.CRep F)) (z : F) (vs : List F) (π : IPA.Proof F) (hp : List F) (hρ : F)
    (Ls Rs : List (IPA.Rep3 F)) (cur : F) (ξs ros : List F)
    (hcs : IPA.AllCommRep vk.commKey vk.s cs xs)
    (hh : IPA.HidRep vk.commKey vk.s π hp hρ)
    (hL : π.lVec = Ls.map (IPA.rep3Val vk.commKey (vk.h * (IPA.hidRest π ros).headD 0) vk.s))
    (hR : π.rVec = Rs.map (IPA.rep3Val vk.commKey (vk.h * (IPA.hidRest π ros).headD 0) vk.s))
    (hacc : IPA.check vk cs z vs π (cur :: ξs) ros = .ok true) :
    ∃ r ξr ror, IPA.succinctRun vk cs z vs π (cur :: ξs) ros = .ok (r, ξr, ror) ∧
      r.ξ₀ = (IPA.hidRest π ros).headD 0 ∧ r.V = IPA.valueErr vk z cs vs cur ξs ∧
      r.C = IPA.rep3Val vk.commKey (vk.h * r.ξ₀) vk.s (IPA.runRep cs xs vs π hp hρ cur ξs ros) ∧
      ((IPA.rel3 (IPA.runRep cs xs vs π hp hρ cur ξs ros) r.V Ls Rs r.us π.c z).Nontrivial ∧
          IPA.rep3Val vk.commKey (vk.h * r.ξ₀) vk.s
            (IPA.rel3 (IPA.runRep cs xs vs π hp hρ cur ξs ros) r.V Ls Rs r.us π.c z) = 0
        ∨ IPA.accClaim vk z cs xs vs cur ξs + IPA.hidChal π ros * evalPoly hp z = 0
        ∨ ∃ i, i < r.us.length ∧ i < Ls.length ∧ i < Rs.length ∧
            (IPA.accClaim vk z cs xs vs cur ξs + IPA.hidChal π ros * evalPoly hp z)
              + IPA.lrSum ((Ls.map (IPA.slack3 z)).take i) ((Rs.map (IPA.slack3 z)).take i) (r.us.take i) ≠ 0 ∧
            (Rs.map (IPA.slack3 z)).getD i 0 * r.us.getD i 0 ^ 2
              + ((IPA.accClaim vk z cs xs vs cur ξs + IPA.hidChal π ros * evalPoly hp z)
                  + IPA.lrSum ((Ls.map (IPA.slack3 z)).take i) ((Rs.map (IPA.slack3 z)).take i) (r.us.take i))
                * r.us.getD i 0
              + (Ls.map (IPA.slack3 z)).getD i 0 = 0) := by
  obtain ⟨_, r, ξr, ror, hr, d1, d2⟩ := (IPA.check_iff _ _ _ _ _ _ _).1 hacc
  obtain ⟨hC, hV, hξ₀, hlrsum, hus⟩ :=
    IPA.succinctRun_rep vk cs xs z vs π hp hρ cur ξs ros r ξr ror hcs hh hr
  have hlr : r.lr = IPA.rep3Val vk.commKey (vk.h * r.ξ₀) vk.s (IPA.lrRep3 Ls Rs r.us) := by
    rw [hlrsum, IPA.rep3Val_lrRep3, hL, hR, hξ₀]
  have hsl := IPA.slack3_runRep vk cs xs z vs π hp hρ cur ξs ros
    (IPA.AllCommRep.length_eq _ _ cs xs hcs)
  rw [← hV] at hsl
  have := IPA.algebraic_trichotomy3 vk z π r _ Ls Rs hC hlr hus d1 d2
  rw [hsl] at this
  refine ⟨r, ξr, ror, hr, hξ₀, hV, hC, ?_⟩
  rcases this with h | h | h
  · exact Or.inl h
  · right; left
    rw [← hsl]
    exact sub_eq_zero.2 h
  · exact Or.inr (Or.inr h)

/-- … and a false claim makes that linear condition non-trivial: if the plain claim at position `j` is false
(`pⱼ(z) ≠ vⱼ`), the coefficient of `ξⱼ` (entry `2j` of `claimCoeffs`) is non-zero — so the middle branch of the
trichotomy confines the vector of statement challenges (and `α`) to a hyperplane fixed before they are drawn. -/
theorem ipa_false_claim_nonzero_coefficient (vk : IPA.VK F) (z : F) (cs : List (IPA.LComm F))
    (xs : List (IPA.CRep F)) (vs : List F) (j : Nat) (h0 : j < cs.length) (h1 : j < xs.length)
    (h2 : j < vs.length) (hfalse : evalPoly xs[j].p z ≠ vs[j]) :
    (IPA.claimCoeffs vk z cs xs vs).getD (2 * j) 0 ≠ 0 := by
  rw [IPA.claimCoeffs_even vk z cs xs vs j h0 h1 h2]
  exact sub_ne_zero.2 hfalse

/-- **IPA, algebraic forger against `check`, arbitrary statement, proof WITHOUT hiding block** (the list form of
`ipa_algebraic_forgery_trichotomy` and of `C04.ipa_bounded_algebraic_forgery_trichotomy`; the commitments may
still be hiding, i.e. carry `s`-components — without the hiding block nothing cancels them and they end up in
`rel_s`).  The middle branch is `Σⱼ ξⱼ·(pⱼ(z) − vⱼ) + ξ′ⱼ·(qⱼ(z) − vⱼ·z^{s−bⱼ}) = 0`, the second summand at the
positions with a degree bound `bⱼ` only. -/
theorem ipa_general_nonhiding_algebraic_forgery_trichotomy (vk : IPA.VK F) (cs : List (IPA.LComm F))
    (xs : List (IPA.CRep F)) (z : F) (vs : List F) (π : IPA.Proof F)
    (Ls Rs : List (IPA.Rep3 F)) (cur : F) (ξs ros : List F)
    (hcs : IPA.AllCommRep vk.commKey vk.s cs xs)
    (hhc : π.hidingComm = none)
    (hL : π.lVec = Ls.map (IPA.rep3Val vk.commKey (vk.h * ros.headD 0) vk.s))
    (hR : π.rVec = Rs.map (IPA.rep3Val vk.commKey (vk.h * ros.headD 0) vk.s))
    (hacc : IPA.check vk cs z vs π (cur :: ξs) ros = .ok true) :
    ∃ r ξr ror, IPA.succinctRun vk cs z vs π (cur :: ξs) ros = .ok (r, ξr, ror) ∧
      r.ξ₀ = ros.headD 0 ∧ r.V = IPA.valueErr vk z cs vs cur ξs ∧
      ((IPA.rel3 (IPA.runRep cs xs vs π [] 0 cur ξs ros) r.V Ls Rs r.us π.c z).Nontrivial ∧
          IPA.rep3Val vk.commKey (vk.h * r.ξ₀) vk.s
            (IPA.rel3 (IPA.runRep cs xs vs π [] 0 cur ξs ros) r.V Ls Rs r.us π.c z) = 0
        ∨ IPA.accClaim vk z cs xs vs cur ξs = 0
        ∨ ∃ i, i < r.us.length ∧ i < Ls.length ∧ i < Rs.length ∧
            IPA.accClaim vk z cs xs vs cur ξs
              + IPA.lrSum ((Ls.map (IPA.slack3 z)).take i) ((Rs.map (IPA.slack3 z)).take i) (r.us.take i) ≠ 0 ∧
            (Rs.map (IPA.slack3 z)).getD i 0 * r.us.getD i 0 ^ 2
              + (IPA.accClaim vk z cs xs vs cur ξs
                  + IPA.lrSum ((Ls.map (IPA.slack3 z)).take i) ((Rs.map (IPA.slack3 z)).take i) (r.us.take i))
                * r.us.getD i 0
              + (Ls.map (IPA.slack3 z)).getD i 0 = 0) := by
  have hrest : IPA.hidRest π ros = ros := by simp [IPA.hidRest, hhc]
  have hchal : IPA.hidChal π ros = 0 := by simp [IPA.hidChal, hhc]
  obtain ⟨r, ξr, ror, hr, hξ₀, hV, _, h⟩ :=
    ipa_general_algebraic_forgery_trichotomy vk cs xs z vs π [] 0 Ls Rs cur ξs ros hcs (Or.inl hhc)
      (by rw [hrest]; exact hL) (by rw [hrest]; exact hR) hacc
  rw [hrest] at hξ₀
  rw [hchal] at h
  simp only [zero_mul, add_zero] at h
  exact ⟨r, ξr, ror, hr, hξ₀, hV, h⟩

/-- **IPA, algebraic forger against `check`: one HIDING commitment without degree bound, HIDING proof.**
The commitment is `⟨p, G⟩ + ρ·s`; the proof carries the hiding commitment `⟨hp, G⟩ + hρ·s` and `rand = rd`; its
`L`s and `R`s are `⟨·, G⟩ + ·h′ + ·s`.  The oracle outputs are `α :: ξ₀ :: u₁ :: …`.  The verifier replaces the
combined commitment `ξ·C` by `ξ·C + α·hiding_comm − rd·s`, which is represented by
`P = (ξ·p + α·hp, 0, ξ·ρ + α·hρ − rd)`.  If `check` answers `Ok(true)`:

* the prover holds a non-trivial relation `⟨rel_G, G⟩ + rel_h·h′ + rel_s·s = 0`;  or
* `ξ·(p(z) − v) + α·hp(z) = 0`;  or
* some round challenge is a root of a non-zero quadratic fixed before it was drawn.

Order of events: `p, ρ, v` (the statement) are fixed first, then `ξ` is squeezed; the prover then fixes the hiding
commitment, i.e. `hp` and `hρ`; only then `α` — the oracle's answer on `(ξ·C, z, ξ·v, hiding_comm)` — is drawn.  The
honest prover takes `hp` with `hp(z) = 0`, and then the middle branch is the truth of the claim (`ξ·p(z) = ξ·v`).  An
adversarial `hp(z) ≠ 0` does not help: for a false claim the middle branch holds for exactly ONE value of `α`
(`ipa_hiding_challenge_pinned`).  `rd` may be chosen after `α` — it only enters `rel_s`, never the middle branch;
the `s`-components of the `L_i`, `R_i` likewise. -/
theorem ipa_hiding_algebraic_forgery_trichotomy (vk : IPA.VK F) (c : IPA.LComm F) (p : List F) (ρ z v : F)
    (π : IPA.Proof F) (hp : List F) (hρ rd : F) (Ls Rs : List (IPA.Rep3 F)) (ξ ξ' ξ'' : F) (ξs : List F)
    (α : F) (ros : List F)
    (hbound : c.bound = none) (hshift : c.comm.shifted = none)
    (hcomm : c.comm.comm = dot vk.commKey p + vk.s * ρ)
    (hhc : π.hidingComm = some (dot vk.commKey hp + vk.s * hρ)) (hrand : π.rand = some rd)
    (hL : π.lVec = Ls.map (IPA.rep3Val vk.commKey (vk.h * ros.headD 0) vk.s))
    (hR : π.rVec = Rs.map (IPA.rep3Val vk.commKey (vk.h * ros.headD 0) vk.s))
    (hacc : IPA.check vk [c] z [v] π (ξ :: ξ' :: ξ'' :: ξs) (α :: ros) = .ok true) :
    ∃ r ξr ror, IPA.succinctRun vk [c] z [v] π (ξ :: ξ' :: ξ'' :: ξs) (α :: ros) = .ok (r, ξr, ror) ∧
      r.ξ₀ = ros.headD 0 ∧ r.V = ξ * v ∧
      r.C = IPA.rep3Val vk.commKey (vk.h * r.ξ₀) vk.s
              ⟨padd (pscale ξ p) (pscale α hp), 0, ξ * ρ + α * hρ - rd⟩ ∧
      ((IPA.rel3 ⟨padd (pscale ξ p) (pscale α hp), 0, ξ * ρ + α * hρ - rd⟩ r.V Ls Rs r.us π.c z).Nontrivial ∧
          IPA.rep3Val vk.commKey (vk.h * r.ξ₀) vk.s
            (IPA.rel3 ⟨padd (pscale ξ p) (pscale α hp), 0, ξ * ρ + α * hρ - rd⟩ r.V Ls Rs r.us π.c z) = 0
        ∨ ξ * (evalPoly p z - v) + α * evalPoly hp z = 0
        ∨ ∃ i, i < r.us.length ∧ i < Ls.length ∧ i < Rs.length ∧
            (ξ * (evalPoly p z - v) + α * evalPoly hp z)
              + IPA.lrSum ((Ls.map (IPA.slack3 z)).take i) ((Rs.map (IPA.slack3 z)).take i) (r.us.take i) ≠ 0 ∧
            (Rs.map (IPA.slack3 z)).getD i 0 * r.us.getD i 0 ^ 2
              + ((ξ * (evalPoly p z - v) + α * evalPoly hp z)
                  + IPA.lrSum ((Ls.map (IPA.slack3 z)).take i) ((Rs.map (IPA.slack3 z)).take i) (r.us.take i))
                * r.us.getD i 0
              + (Ls.map (IPA.slack3 z)).getD i 0 = 0) := by
  obtain ⟨_, r, ξr, ror, hr, d1, d2⟩ := (IPA.check_iff _ _ _ _ _ _ _).1 hacc
  have hcs : IPA.AllCommRep vk.commKey vk.s [c] [⟨p, ρ, [], 0⟩] :=
    ⟨⟨hcomm, Or.inl hshift⟩, trivial⟩
  have hh : IPA.HidRep vk.commKey vk.s π hp hρ := Or.inr hhc
  obtain ⟨hC, hV, hξ₀, hlrsum, hus⟩ :=
    IPA.succinctRun_rep vk [c] [⟨p, ρ, [], 0⟩] z [v] π hp hρ ξ (ξ' :: ξ'' :: ξs) (α :: ros) r ξr ror hcs hh hr
  have hchal : IPA.hidChal π (α :: ros) = α := by simp [IPA.hidChal, hhc]
  have hrest : IPA.hidRest π (α :: ros) = ros := by simp [IPA.hidRest, hhc]
  rw [hrest] at hξ₀
  have hV' : r.V = ξ * v := by
    rw [hV]
    simp [IPA.valueErr, IPA.stepErr, hbound]
  have hC' : r.C = IPA.rep3Val vk.commKey (vk.h * r.ξ₀) vk.s
      ⟨padd (pscale ξ p) (pscale α hp), 0, ξ * ρ + α * hρ - rd⟩ := by
    rw [hC]
    unfold IPA.rep3Val IPA.runRep
    simp only [IPA.accG, IPA.accS, IPA.stepG, IPA.stepS, hbound, hchal, hrand, Option.getD_some,
      IPA.dot_padd_right]
    rw [dot_nil_right]
    ring
  have hlr : r.lr = IPA.rep3Val vk.commKey (vk.h * r.ξ₀) vk.s (IPA.lrRep3 Ls Rs r.us) := by
    rw [hlrsum, IPA.rep3Val_lrRep3, hL, hR, hξ₀]
  have hsl : IPA.slack3 z ⟨padd (pscale ξ p) (pscale α hp), 0, ξ * ρ + α * hρ - rd⟩ - r.V
      = ξ * (evalPoly p z - v) + α * evalPoly hp z := by
    rw [hV']
    unfold IPA.slack3
    simp only [eval_padd, eval_pscale]
    ring
  have := IPA.algebraic_trichotomy3 vk z π r _ Ls Rs hC' hlr hus d1 d2
  rw [hsl] at this
  refine ⟨r, ξr, ror, hr, hξ₀, hV', hC', ?_⟩
  rcases this with h | h | h
  · exact Or.inl h
  · right; left
    rw [← hsl]
    exact sub_eq_zero.2 h
  · exact Or.inr (Or.inr h)

/-- … and the middle branch pins the hiding challenge: if the claim is false (`p(z) ≠ v`) and the statement
challenge is non-zero, `ξ·(p(z) − v) + α·hp(z) = 0` forces `hp(z) ≠ 0` (the prover deviated from the honest
`hp(z) = 0` BEFORE `α` was drawn) and `α = −ξ·(p(z) − v)/hp(z)`, a single value determined by what was fixed
before. -/
theorem ipa_hiding_challenge_pinned (pz v hpz ξ α : F) (hfalse : pz ≠ v) (hξ : ξ ≠ 0)
    (h : ξ * (pz - v) + α * hpz = 0) :
    hpz ≠ 0 ∧ α = -(ξ * (pz - v)) / hpz := by
  have hne : hpz ≠ 0 := by
    intro h0
    rw [h0, mul_zero, add_zero] at h
    rcases mul_eq_zero.1 h with h1 | h1
    · exact hξ h1
    · exact hfalse (sub_eq_zero.1 h1)
  refine ⟨hne, ?_⟩
  rw [eq_div_iff hne]
  linear_combination h

/-! non-vacuity over `ZMod 101`.

(A) one hiding commitment, hiding proof: key `[3, 5]`, `h = 13`, `s = 17`; `p = 4 + 9X` committed with `ρ = 21`
(`10 = ⟨p, G⟩ + 21·s`), `z = 6`, `p(6) = 58`, `ξ = 2`; the honest hiding polynomial `hp = 10 + 32X` (`hp(6) = 0`),
`hρ = 33`, `α = 7`, `rand = ξ·ρ + α·hρ = 71`, `ξ₀ = 8`, one round with `u = 9`.  The transcript produced by the model's
`open` is accepted, meets the hypotheses of `ipa_hiding_algebraic_forgery_trichotomy` with the honest
representations, has the zero relation vector and satisfies the middle branch. -/
example : IPA.open (⟨[3, 5], 13, 17, 3⟩ : IPA.CK K) [⟨[1], [4, 9], none, some 1⟩] [⟨[1], ⟨10, none⟩, none⟩] 6
    [⟨21, none⟩] [2, 3, 4] [7, 8, 9] true [31, 32, 33]
    = .ok (⟨[38], [77], 48, 60, some 44, some 71⟩, [], [], []) := by decide +kernel
example : IPA.check (⟨[3, 5], 13, 17, 3⟩ : IPA.CK K) [⟨[1], ⟨10, none⟩, none⟩] 6 [58]
    ⟨[38], [77], 48, 60, some 44, some 71⟩ [2, 3, 4] [7, 8, 9] = .ok true := by decide +kernel
example : (10 : K) = dot ([3, 5] : List K) [4, 9] + 17 * 21 := by decide
example : (some 44 : Option K) = some (dot ([3, 5] : List K) [10, 32] + 17 * 33) := by decide
example : ([38] : List K) = [(⟨[40, 0], 40, 0⟩ : IPA.Rep3 K)].map (IPA.rep3Val [3, 5] (13 * 8) 17) := by decide
example : ([77] : List K) = [(⟨[0, 78], 64, 0⟩ : IPA.Rep3 K)].map (IPA.rep3Val [3, 5] (13 * 8) 17) := by decide
example : IPA.rel3 (⟨padd (pscale 2 [4, 9]) (pscale 7 [10, 32]), 0, 2 * 21 + 7 * 33 - 71⟩ : IPA.Rep3 K) (2 * 58)
    [⟨[40, 0], 40, 0⟩] [⟨[0, 78], 64, 0⟩] [9] 60 6 = ⟨[0, 0], 0, 0⟩ := by decide +kernel
example : (2 : K) * (evalPoly [4, 9] 6 - 58) + 7 * evalPoly [10, 32] 6 = 0 := by decide

/-! (A′) the middle branch with a FALSE claim and a dishonest hiding polynomial: claimed value `59 ≠ p(6)`,
`hp = 68 + 32X` with `hp(6) = 58 ≠ 0` chosen so that `ξ·(p(6) − 59) + α·hp(6) = 0` for `α = 7`.  The honest rounds on
the combined polynomial `ξ·p + α·hp` are accepted, with the ZERO relation vector — this is the one value of `α` the
forger has to hit (`ipa_hiding_challenge_pinned`); with any other hiding challenge the same proof is rejected. -/
example : IPA.check (⟨[3, 5], 13, 17, 3⟩ : IPA.CK K) [⟨[1], ⟨10, none⟩, none⟩] 6 [59]
    ⟨[38], [22], 48, 62, some 16, some 71⟩ [2, 3, 4] [7, 8, 9] = .ok true := by decide +kernel
example : (some 16 : Option K) = some (dot ([3, 5] : List K) [68, 32] + 17 * 33) := by decide
example : ([22] : List K) = [(⟨[0, 80], 76, 0⟩ : IPA.Rep3 K)].map (IPA.rep3Val [3, 5] (13 * 8) 17) := by decide
example : IPA.rel3 (⟨padd (pscale 2 [4, 9]) (pscale 7 [68, 32]), 0, 2 * 21 + 7 * 33 - 71⟩ : IPA.Rep3 K) (2 * 59)
    [⟨[40, 0], 40, 0⟩] [⟨[0, 80], 76, 0⟩] [9] 62 6 = ⟨[0, 0], 0, 0⟩ := by decide +kernel
example : evalPoly ([4, 9] : List K) 6 ≠ 59 ∧ (2 : K) ≠ 0 ∧
    (2 : K) * (evalPoly [4, 9] 6 - 59) + 7 * evalPoly [68, 32] 6 = 0 ∧
    (7 : K) = -(2 * (evalPoly [4, 9] 6 - 59)) / evalPoly [68, 32] 6 := by decide +kernel
example : IPA.check (⟨[3, 5], 13, 17, 3⟩ : IPA.CK K) [⟨[1], ⟨10, none⟩, none⟩] 6 [59]
    ⟨[38], [22], 48, 62, some 16, some 71⟩ [2, 3, 4] [11, 8, 9] = .ok false := by decide +kernel

/-! (B) the general theorem on the accepted transcript of `C01_IPA`: key `[3, 5, 7, 11]`, two commitments — `1 + 2X +
3X²` under the degree bound 2, hiding (`ρ = 21`, `ρ′ = 22`, shifted representation `X·p`), and `4 + 9X³` plain — the
point 6, a hiding proof (`hp = 63 + 32X + 33X² + 34X³`, `hρ = 35`, `α = 7`, `rand = 50`), `ξ₀ = 8`, two rounds. -/
example : IPA.AllCommRep ([3, 5, 7, 11] : List K) 17
    [⟨[1], ⟨88, some 22⟩, some 2⟩, ⟨[2], ⟨10, none⟩, none⟩]
    [⟨[1, 2, 3], 21, [0, 1, 2, 3], 22⟩, ⟨[4, 0, 0, 9], 0, [], 0⟩] :=
  ⟨⟨by decide, Or.inr (by decide)⟩, ⟨by decide, Or.inl rfl⟩, trivial⟩
example : IPA.HidRep ([3, 5, 7, 11] : List K) 17 ⟨[89, 67], [85, 95], 96, 5, some 34, some 50⟩
    [63, 32, 33, 34] 35 := Or.inr (by decide)
example : ([89, 67] : List K)
    = [(⟨[41, 81, 0, 0], 22, 0⟩ : IPA.Rep3 K), ⟨[38, 0, 39, 0], 28, 0⟩].map
        (IPA.rep3Val [3, 5, 7, 11] (13 * 8) 17) := by decide
example : ([85, 95] : List K)
    = [(⟨[0, 0, 55, 29], 63, 0⟩ : IPA.Rep3 K), ⟨[0, 82, 0, 31], 17, 0⟩].map
        (IPA.rep3Val [3, 5, 7, 11] (13 * 8) 17) := by decide
example : IPA.check (⟨[3, 5, 7, 11], 13, 17, 7⟩ : IPA.CK K)
    [⟨[1], ⟨88, some 22⟩, some 2⟩, ⟨[2], ⟨10, none⟩, none⟩] 6 [evalPoly [1, 2, 3] 6, evalPoly [4, 0, 0, 9] 6]
    ⟨[89, 67], [85, 95], 96, 5, some 34, some 50⟩ [2, 3, 4, 5, 6] [7, 8, 9, 10, 11] = .ok true := by
  decide +kernel
-- the representation of the combined commitment, the zero relation, the true combined claim
example : IPA.runRep ([⟨[1], ⟨88, some 22⟩, some 2⟩, ⟨[2], ⟨10, none⟩, none⟩] : List (IPA.LComm K))
    [⟨[1, 2, 3], 21, [0, 1, 2, 3], 22⟩, ⟨[4, 0, 0, 9], 0, [], 0⟩] [evalPoly [1, 2, 3] 6, evalPoly [4, 0, 0, 9] 6]
    ⟨[89, 67], [85, 95], 96, 5, some 34, some 50⟩ [63, 32, 33, 34] 35 2 [3, 4, 5, 6] [7, 8, 9, 10, 11]
    = ⟨[55, 29, 41, 81], 0, 0⟩ := by decide +kernel
example : IPA.rel3 (⟨[55, 29, 41, 81], 0, 0⟩ : IPA.Rep3 K)
    (IPA.valueErr (⟨[3, 5, 7, 11], 13, 17, 7⟩ : IPA.CK K) 6
      [⟨[1], ⟨88, some 22⟩, some 2⟩, ⟨[2], ⟨10, none⟩, none⟩] [evalPoly [1, 2, 3] 6, evalPoly [4, 0, 0, 9] 6]
      2 [3, 4, 5, 6])
    [⟨[41, 81, 0, 0], 22, 0⟩, ⟨[38, 0, 39, 0], 28, 0⟩] [⟨[0, 0, 55, 29], 63, 0⟩, ⟨[0, 82, 0, 31], 17, 0⟩]
    [9, 10] 5 6 = ⟨[0, 0, 0, 0], 0, 0⟩ := by decide +kernel
example : IPA.accClaim (⟨[3, 5, 7, 11], 13, 17, 7⟩ : IPA.CK K) 6
    [⟨[1], ⟨88, some 22⟩, some 2⟩, ⟨[2], ⟨10, none⟩, none⟩]
    [⟨[1, 2, 3], 21, [0, 1, 2, 3], 22⟩, ⟨[4, 0, 0, 9], 0, [], 0⟩]
    [evalPoly [1, 2, 3] 6, evalPoly [4, 0, 0, 9] 6] 2 [3, 4, 5, 6]
      + IPA.hidChal (⟨[89, 67], [85, 95], 96, 5, some 34, some 50⟩ : IPA.Proof K) [7, 8, 9, 10, 11]
        * evalPoly [63, 32, 33, 34] 6 = 0 := by decide +kernel
-- the linear form of false claims (`v₁` off by 1, `v₂` off by 2): coefficients `−1, −z^{3−2}, −2, 0`
example : IPA.claimCoeffs (⟨[3, 5, 7, 11], 13, 17, 7⟩ : IPA.CK K) 6
    [⟨[1], ⟨88, some 22⟩, some 2⟩, ⟨[2], ⟨10, none⟩, none⟩]
    [⟨[1, 2, 3], 21, [0, 1, 2, 3], 22⟩, ⟨[4, 0, 0, 9], 0, [], 0⟩]
    [evalPoly [1, 2, 3] 6 + 1, evalPoly [4, 0, 0, 9] 6 + 2] = [-1, -6, -2, 0] := by decide +kernel

/-- **IPA, `batch_check`: acceptance of a batch is ONE linear relation between the generators `(G, h, s)`.**
`its` lists, proof by proof, what the verifier's loop computes (`BatchItems`: the point of the query group, the
proof, the run of `succinct_check`, sponge and oracle threaded through) together with representations over
`(G, h′ₖ, s)`, `h′ₖ = ξ₀ₖ·h`, of each run's combined commitment and `Σ(u⁻¹L + uR)` (`ItemRep`).  If `batch_check`
answers `Ok(true)` then every succinct check passed (`defect1ₖ = 0`) and the vector

  `Σₖ ρₖ·(Πⱼ≠ₖ cⱼ)·relₖ`    (`(batchRel 1 rs its).2`)

— `ρ₁ = 1, ρ₂, …` the verifier's randomizers, `cₖ` the proofs' final coefficients, `relₖ = itemRel` the relation
vector `rel3` of proof `k` with its `h′ₖ`-coefficient multiplied by `ξ₀ₖ` — is a relation between the generators:
`⟨·.G, G⟩ + ·.h·h + ·.s·s = 0`.  The weights `Πⱼ≠ₖ cⱼ` eliminate the `final_comm_key`s (group elements chosen by the
prover, which occur as `cₖ·Kₖ` in the succinct checks and as `Σₖ ρₖ·Kₖ` in the randomized final test) without
dividing; when all `cₖ ≠ 0` the vector is `Πₖcₖ` times `Σₖ (ρₖ/cₖ)·relₖ`.  The randomizers are drawn after all
proofs are fixed, so the vector vanishes for more than a negligible fraction of them only if every `relₖ` with
`cₖ ≠ 0` does — and then the single-proof trichotomy applies to proof `k`. -/
theorem ipa_batch_accept_is_linear_relation (vk : IPA.VK F) (comms : List (IPA.LComm F))
    (qs : List (IPA.Query F)) (evals : List ((IPA.Label × F) × F)) (πs : List (IPA.Proof F))
    (ξs ros rs : List F) (its : List (IPA.BatchItem F))
    (hits : IPA.BatchItems vk comms evals (Marlin.groupQueries qs) πs ξs ros its)
    (hrep : ∀ it ∈ its, IPA.ItemRep vk it)
    (hacc : IPA.batchCheck vk comms qs evals πs ξs ros rs = .ok true) :
    (∀ it ∈ its, IPA.defect1 vk it.z it.π it.r = 0) ∧
      IPA.rep3Val vk.commKey vk.h vk.s (IPA.batchRel 1 rs its).2 = 0 := by
  obtain ⟨hl, uss, hs, hw⟩ := IPA.batchCheck_accept vk comms qs evals πs ξs ros rs hacc
  obtain ⟨hd1, hd2⟩ := IPA.batchSuccinct_items vk comms evals _ πs ξs ros its uss hl hits hs
  refine ⟨hd1, ?_⟩
  rw [IPA.batchRel_val vk its 1 rs (fun it hit => ⟨hrep it hit, hd1 it hit⟩), ← hd2, hw]
  ring

/-- the hypothesis `BatchItems` of `ipa_batch_accept_is_linear_relation` only names what the verifier computed:
for an accepted batch such a list exists, one item per proof -/
theorem ipa_batch_items_exist (vk : IPA.VK F) (comms : List (IPA.LComm F))
    (qs : List (IPA.Query F)) (evals : List ((IPA.Label × F) × F)) (πs : List (IPA.Proof F))
    (ξs ros rs : List F)
    (hacc : IPA.batchCheck vk comms qs evals πs ξs ros rs = .ok true) :
    ∃ its, IPA.BatchItems vk comms evals (Marlin.groupQueries qs) πs ξs ros its ∧ its.length = πs.length := by
  obtain ⟨hl, uss, hs, _⟩ := IPA.batchCheck_accept vk comms qs evals πs ξs ros rs hacc
  exact IPA.batchSuccinct_items_exist vk comms evals _ πs ξs ros uss hl hs

/-! (C) the accepted batch of `C01_IPA`: key `[3, 5]`, the commitment `57 = ⟨4 + 9X, G⟩` opened at 6 and at 7, two
non-hiding proofs, randomizers `1, 5`.  The verifier's runs, the honest representations, and the zero batch
relation vector. -/
example : Marlin.groupQueries ([([1], ([9], 6)), ([1], ([10], 7))] : List (IPA.Query K))
    = [([9], 6, [[1]]), ([10], 7, [[1]])] := by decide
example : IPA.batchCheck (⟨[3, 5], 13, 17, 3⟩ : IPA.CK K) [⟨[1], ⟨57, none⟩, none⟩]
    [([1], ([9], 6)), ([1], ([10], 7))] [(([1], 6), 58), (([1], 7), 67)]
    [⟨[7], [83], 48, 10, none, none⟩, ⟨[26], [19], 23, 6, none, none⟩]
    [2, 3, 4, 5, 6, 7] [8, 9, 10, 4] [5, 6] = .ok true := by decide +kernel
example : IPA.BatchItems (⟨[3, 5], 13, 17, 3⟩ : IPA.CK K) [⟨[1], ⟨57, none⟩, none⟩]
    [(([1], 6), 58), (([1], 7), 67)] [([9], 6, [[1]]), ([10], 7, [[1]])]
    [⟨[7], [83], 48, 10, none, none⟩, ⟨[26], [19], 23, 6, none, none⟩] [2, 3, 4, 5, 6, 7] [8, 9, 10, 4]
    [⟨6, ⟨[7], [83], 48, 10, none, none⟩, ⟨13, 15, 8, [9], 52⟩, ⟨[8, 18], 0, 0⟩, [⟨[18, 0], 18, 0⟩], [⟨[0, 8], 48, 0⟩]⟩,
     ⟨7, ⟨[26], [19], 23, 6, none, none⟩, ⟨83, 32, 10, [4], 32⟩, ⟨[20, 45], 0, 0⟩, [⟨[45, 0], 45, 0⟩],
       [⟨[0, 20], 39, 0⟩]⟩] :=
  ⟨rfl, rfl, [⟨[1], ⟨57, none⟩, none⟩], [58], [5, 6, 7], [10, 4], by decide +kernel, by decide +kernel,
   rfl, rfl, [⟨[1], ⟨57, none⟩, none⟩], [67], [], [], by decide +kernel, by decide +kernel, rfl⟩
example : IPA.ItemRep (⟨[3, 5], 13, 17, 3⟩ : IPA.CK K)
    ⟨6, ⟨[7], [83], 48, 10, none, none⟩, ⟨13, 15, 8, [9], 52⟩, ⟨[8, 18], 0, 0⟩, [⟨[18, 0], 18, 0⟩], [⟨[0, 8], 48, 0⟩]⟩ :=
  ⟨by decide +kernel, by decide +kernel⟩
example : IPA.ItemRep (⟨[3, 5], 13, 17, 3⟩ : IPA.CK K)
    ⟨7, ⟨[26], [19], 23, 6, none, none⟩, ⟨83, 32, 10, [4], 32⟩, ⟨[20, 45], 0, 0⟩, [⟨[45, 0], 45, 0⟩],
      [⟨[0, 20], 39, 0⟩]⟩ :=
  ⟨by decide +kernel, by decide +kernel⟩
example : IPA.batchRel (1 : K) [5, 6]
    [⟨6, ⟨[7], [83], 48, 10, none, none⟩, ⟨13, 15, 8, [9], 52⟩, ⟨[8, 18], 0, 0⟩, [⟨[18, 0], 18, 0⟩], [⟨[0, 8], 48, 0⟩]⟩,
     ⟨7, ⟨[26], [19], 23, 6, none, none⟩, ⟨83, 32, 10, [4], 32⟩, ⟨[20, 45], 0, 0⟩, [⟨[45, 0], 45, 0⟩],
       [⟨[0, 20], 39, 0⟩]⟩] = (60, ⟨[0, 0], 0, 0⟩) := by decide +kernel

end PCV.C03
