/-
  Property C19 — succinctness: commitment and proof shapes (KZG10 / MarlinKZG10 part; Hyrax, IPA,
  multilinear PST, linear codes and the dimension inequality have their own files).
-/
import PCV.Proofs.MarlinMore
import PCV.Props.Examples
set_option linter.unusedSectionVars false

namespace PCV.C19
open PCV Marlin
variable {F : Type} [Field F] [DecidableEq F]

/-- **KZG10 / Marlin, per-point proof.** An opening proof is one group element plus an optional
field element *by construction* (`KZG.Proof`), whatever the number and degrees of the polynomials:
the only size-relevant fact left is when the optional scalar is present — exactly when the
combined blinding polynomial is non-zero. -/
theorem kzg10_proof_scalar_iff_hiding (pw : KZG.Powers F) (p : List F) (z : F) (r : List F)
    (π : KZG.Proof F) (h : KZG.open pw p z r = .ok π) :
    π.rv.isSome = !isZeroPoly r := by
  unfold KZG.open at h
  split at h
  · cases h
  · simp only [KZG.witness] at h
    unfold KZG.openWith at h
    split at h
    · cases h
    · cases hz : isZeroPoly r <;> simp only [hz] at h <;> injection h with h <;> rw [← h] <;> rfl

/-- **Marlin commitment shape**: a second group element is present iff a degree bound is declared. -/
theorem marlin_commitment_shape (ck : CK F) (p : LPoly F) (rng : Bool) (draws : List F)
    (c : Comm F) (r : Rand F) (rest : List F) (h : commitOne ck p rng draws = .ok (c, r, rest)) :
    c.shifted.isSome = p.bound.isSome := by
  unfold commitOne at h
  split at h
  · cases h
  · split at h
    · cases h
    · split at h
      · cases h
      · cases hb : p.bound with
        | none =>
          rw [hb] at h; simp only at h
          injection h with h; injection h with h1 _; rw [← h1]; rfl
        | some b =>
          rw [hb] at h; simp only at h
          split at h
          · cases h
          · split at h
            · cases h
            · injection h with h; injection h with h1 _; rw [← h1]; rfl

/-- **Batch proofs**: exactly one per-point proof per distinct point label of the query set. -/
theorem marlin_batch_proof_count (ck : CK F) (polys : List (LPoly F)) (sts : List (Rand F))
    (gs : List (Label × (F × List Label))) (ξs : List F) (πs : List (KZG.Proof F)) (rest : List F)
    (h : batchOpenGroups ck polys sts gs ξs = .ok (πs, rest)) : πs.length = gs.length := by
  induction gs generalizing ξs πs rest with
  | nil =>
    simp only [batchOpenGroups] at h
    injection h with h; injection h with h1 _; rw [← h1]; rfl
  | cons g gs ih =>
    simp only [batchOpenGroups] at h
    split at h
    · cases h
    · split at h
      · cases h
      · split at h
        · cases h
        · rename_i πs' rest' hrec
          injection h with h; injection h with h1 _
          rw [← h1]; simp [ih _ _ _ hrec]

/-- the number of point labels never exceeds the number of queries -/
theorem group_count_le (qs : List (Query F)) : (groupQueries qs).length ≤ qs.length := by
  unfold groupQueries
  suffices ∀ (acc : List (Label × (F × List Label))),
      (qs.foldl (fun acc q => groupInsert q acc) acc).length ≤ acc.length + qs.length by
    simpa using this []
  induction qs with
  | nil => intro acc; simp
  | cons q qs ih =>
    intro acc
    simp only [List.foldl_cons, List.length_cons]
    have hins : (groupInsert q acc).length ≤ acc.length + 1 := by
      induction acc with
      | nil => simp [groupInsert]
      | cons g gs ih2 =>
        simp only [groupInsert]
        split
        · simp
        · split
          · simp
          · simp only [List.length_cons]; omega
    have := ih (groupInsert q acc)
    omega

example : (groupQueries ([([1], ([9], (5 : K))), ([2], ([9], 5)), ([1], ([8], 6))])).length = 2 := by
  decide

end PCV.C19
