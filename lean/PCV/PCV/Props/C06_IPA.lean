/-
  Property C06 — linear-combination openings prove exactly the stated combinations,
  inner-product-argument scheme: `InnerProductArgPC::open_combinations` / `check_combinations`
  (IPA's own overrides; model PCV/Model/IPALC.lean, lemmas PCV/Proofs/IPALC.lean and
  PCV/Proofs/IPABatchErr.lean).  `BatchLCProof.evals` is `None` for this scheme: the verifier sees
  combination labels, coefficients, constants, commitments and claimed combination values only.
-/
import PCV.Proofs.IPALC
import PCV.Props.Examples

set_option linter.unusedSectionVars false

namespace PCV.C06
open PCV
variable {F : Type} [Field F] [DecidableEq F]

/-- **IPA: a combination of committed polynomials is a committed polynomial.** For honest
(polynomial, state, commitment) triples (any degree bounds, hiding on/off mixed), whatever
`open_combinations` makes of one combination — arbitrary coefficients incl. zero and negative,
repeated labels, constant terms (skipped), a single degree-bounded term of coefficient one (bound,
shifted commitment and shifted randomness kept) — is again an honest triple under the combination's
label, and its polynomial evaluates to the combination of the evaluations. -/
theorem ipa_lc_is_committed (ck : IPA.CK F) (polys : List (IPA.LPoly F)) (comms : List (IPA.LComm F))
    (sts : List (IPA.Rand F)) (hall : IPA.AllCommitted ck polys comms sts)
    (hnf : ∀ p ∈ polys, pnorm p.poly = p.poly) (lc : LC.LinComb F) (a : IPA.LCAcc F)
    (h : IPA.combineOneP (polys.zip (sts.zip comms)) lc = .ok a) :
    IPA.Committed ck a.lpoly a.lcomm a.state ∧ pnorm a.poly = a.poly ∧ a.label = lc.label ∧
      ∀ z, evalPoly a.poly z = IPA.lcPolyValue (polys.zip (sts.zip comms)) z lc.terms := by
  obtain ⟨⟨h1, h2⟩, h3, h4⟩ := IPA.combineOneP_good ck _ (IPA.tripsOK_of_all ck polys comms sts hall hnf) lc a h
  exact ⟨h1, h2, h3, h4⟩

/-- **IPA, completeness of combination openings.** For a key of any power-of-two length, committed
polynomials with any bounds / hiding, any list of combinations the prover answers, any query set
over the combination labels (several combinations per point, point labels sharing a value), all
sponge challenges, random-oracle outputs, RNG draws and verifier randomizers: `check_combinations`
accepts the proofs of `open_combinations` for the true values.  The true value of the combination
labelled `l` at `z` is the value of its polynomial part plus the constants of all combinations
labelled `l` (what the code subtracts); for distinct labels this is `LinearCombination`'s value
(`ipa_lc_complete_distinct`). -/
theorem ipa_lc_complete (ck : IPA.CK F) (k : Nat) (hk : ck.commKey.length = 2 ^ k)
    (polys : List (IPA.LPoly F)) (comms : List (IPA.LComm F)) (sts : List (IPA.Rand F))
    (hall : IPA.AllCommitted ck polys comms sts) (hnf : ∀ p ∈ polys, pnorm p.poly = p.poly)
    (lcs : List (LC.LinComb F)) (qs : List (IPA.Query F)) (evals : List ((IPA.Label × F) × F))
    (hev : ∀ g ∈ Marlin.groupQueries qs, ∀ l ∈ g.2.2, ∀ lc,
      Marlin.lookupLast (fun (lc : LC.LinComb F) => lc.label) l lcs = some lc →
      Marlin.lookupEval evals l g.2.1
        = some (IPA.lcPolyValue (polys.zip (sts.zip comms)) g.2.1 lc.terms + IPA.constSum lcs l))
    (ξs ros rs : List F) (rng : Bool) (draws : List F) (πs : List (IPA.Proof F)) (ξr ror dr : List F)
    (ho : IPA.openCombinations ck lcs polys comms sts qs ξs ros rng draws = .ok (πs, ξr, ror, dr)) :
    IPA.checkCombinations ck lcs comms qs evals πs ξs ros rs = .ok true :=
  IPA.lc_complete ck k hk polys comms sts hall hnf lcs qs evals hev ξs ros rs rng draws πs ξr ror dr ho

/-- **IPA, completeness for distinct combination labels**, with the value of a combination given by
`LinearCombination` itself: `Σ cᵢ·pᵢ(z) + Σ constants` under "label ↦ evaluation of the committed
polynomial with that label".  The commitments are the committer's own output. -/
theorem ipa_lc_complete_distinct (ck : IPA.CK F) (k : Nat) (hk : ck.commKey.length = 2 ^ k)
    (polys : List (IPA.LPoly F)) (hnf : ∀ p ∈ polys, pnorm p.poly = p.poly)
    (rng0 : Bool) (draws0 : List F) (comms : List (IPA.LComm F)) (sts : List (IPA.Rand F))
    (rest0 : List F) (hc : IPA.commit ck polys rng0 draws0 = .ok (comms, sts, rest0))
    (lcs : List (LC.LinComb F)) (hnd : (lcs.map (·.label)).Nodup)
    (qs : List (IPA.Query F)) (evals : List ((IPA.Label × F) × F))
    (hev : ∀ g ∈ Marlin.groupQueries qs, ∀ l ∈ g.2.2, ∀ lc,
      Marlin.lookupLast (fun (lc : LC.LinComb F) => lc.label) l lcs = some lc →
      Marlin.lookupEval evals l g.2.1
        = some (LC.value lc (IPA.evalAssign (polys.zip (sts.zip comms)) g.2.1)))
    (ξs ros rs : List F) (rng : Bool) (draws : List F) (πs : List (IPA.Proof F)) (ξr ror dr : List F)
    (ho : IPA.openCombinations ck lcs polys comms sts qs ξs ros rng draws = .ok (πs, ξr, ror, dr)) :
    IPA.checkCombinations ck lcs comms qs evals πs ξs ros rs = .ok true := by
  apply IPA.lc_complete ck k hk polys comms sts (IPA.commit_spec ck rng0 polys draws0 comms sts rest0 hc)
    hnf lcs qs evals _ ξs ros rs rng draws πs ξr ror dr ho
  intro g hg l hl lc hlc
  rw [hev g hg l hl lc hlc, IPA.lc_value_split, IPA.constSum_distinct lcs hnd l lc hlc]

/-- **IPA, the acceptance condition.** `check_combinations` is `batch_check` run on the combined
commitments (`verifierComms`: one per combination, with a shifted part only for a single bounded
term) and on the claimed values minus the constants (`adjustEvals`); the combined commitments do not
depend on the claimed values.  `batch_check`'s own condition is `C05.ipa_batch_defect`:
every point label's `defect1 = 0` and `Σ ρᵢ·defect2ᵢ = 0`. -/
theorem ipa_lc_check_is_batch_check (vk : IPA.VK F) (lcs : List (LC.LinComb F))
    (comms : List (IPA.LComm F)) (qs : List (IPA.Query F)) (evals : List ((IPA.Label × F) × F))
    (πs : List (IPA.Proof F)) (ξs ros rs : List F) :
    IPA.checkCombinations vk lcs comms qs evals πs ξs ros rs
      = match IPA.verifierComms comms lcs with
        | .error e => .error e
        | .ok lcC => IPA.batchCheck vk lcC qs (IPA.adjustEvals lcs evals) πs ξs ros rs :=
  IPA.checkCombinations_eq vk lcs comms qs evals πs ξs ros rs

/-- the values `batch_check` sees: claimed value minus the constants of every combination carrying
that label -/
theorem ipa_lc_adjusted_values (lcs : List (LC.LinComb F)) (evals : List ((IPA.Label × F) × F)) :
    IPA.adjustEvals lcs evals = evals.map fun e => (e.1, e.2 + -IPA.constSum lcs e.1.1) :=
  IPA.adjustEvals_eq_bump lcs evals

/-- **IPA, every perturbation in one form.** Take an accepted combination statement and any second
statement (other combination list, commitments, claimed values) whose combined commitments differ
by `errC` (per combination label, unshifted part) and whose adjusted values differ by `errV` (per
claim).  With the oracle outputs and randomizers held fixed the second statement is accepted iff for
every point label the amount
`Σⱼ errC(lⱼ)·ξⱼ + h·ξ₀·Σⱼ (ξⱼ + ξ′ⱼ·z^{s−dⱼ})·errV(lⱼ, z)` (`IPA.groupErr`) is zero. -/
theorem ipa_lc_perturbed (vk : IPA.VK F) (lcs lcs' : List (LC.LinComb F))
    (comms comms' : List (IPA.LComm F)) (qs : List (IPA.Query F))
    (evals evals' : List ((IPA.Label × F) × F)) (πs : List (IPA.Proof F)) (ξs ros rs : List F)
    (lcC : List (IPA.LComm F)) (errC : IPA.Label → F) (errV : IPA.Label × F → F)
    (h1 : IPA.verifierComms comms lcs = .ok lcC)
    (h2 : IPA.verifierComms comms' lcs' = .ok (IPA.bumpComms errC lcC))
    (hV : IPA.adjustEvals lcs' evals' = IPA.bump errV (IPA.adjustEvals lcs evals))
    (hacc : IPA.checkCombinations vk lcs comms qs evals πs ξs ros rs = .ok true) :
    IPA.checkCombinations vk lcs' comms' qs evals' πs ξs ros rs = .ok true ↔
      ∀ e ∈ IPA.batchErrs vk lcC (IPA.adjustEvals lcs evals) errC errV (Marlin.groupQueries qs) πs ξs ros,
        e = 0 := by
  rw [IPA.checkCombinations_perturbed vk lcs lcs' comms comms' qs evals evals' πs ξs ros rs lcC errC errV
    h1 h2 hV hacc]
  simp [IPA.allZero]

/-- the defect shift of a point label that carries one unbounded claim: `errC·ξ + h·ξ₀·ξ·errV` -/
theorem ipa_lc_group_defect_single (vk : IPA.VK F) (errC : IPA.Label → F) (errV : IPA.Label × F → F)
    (z : F) (l : IPA.Label) (c : IPA.LComm F) (v ξ₀ cur ξ' ξ'' : F) (rest : List F)
    (hb : c.bound = none) :
    IPA.groupErr vk errC errV z [l] [c] [v] ξ₀ cur (ξ' :: ξ'' :: rest)
      = errC c.label * cur + vk.h * ξ₀ * (cur * errV (l, z)) := by
  simp [IPA.groupErr, IPA.commErr, IPA.valueErr, IPA.stepErr, IPA.addVec, hb]

/-- **IPA, claimed values changed** (any set of claims, by `errV`): the combined commitments stay
and the decision becomes "every point label's `h·ξ₀·Σⱼ(ξⱼ + ξ′ⱼz^{s−dⱼ})·errV(lⱼ,z)` vanishes". -/
theorem ipa_lc_value_defect (vk : IPA.VK F) (lcs : List (LC.LinComb F)) (comms : List (IPA.LComm F))
    (qs : List (IPA.Query F)) (evals : List ((IPA.Label × F) × F)) (πs : List (IPA.Proof F))
    (ξs ros rs : List F) (lcC : List (IPA.LComm F)) (errV : IPA.Label × F → F)
    (h1 : IPA.verifierComms comms lcs = .ok lcC)
    (hacc : IPA.checkCombinations vk lcs comms qs evals πs ξs ros rs = .ok true) :
    IPA.checkCombinations vk lcs comms qs (IPA.bump errV evals) πs ξs ros rs
      = .ok (IPA.allZero (IPA.batchErrs vk lcC (IPA.adjustEvals lcs evals) (fun _ => 0) errV
          (Marlin.groupQueries qs) πs ξs ros)) :=
  IPA.lc_values_perturbed vk lcs comms qs evals πs ξs ros rs lcC errV h1 hacc

/-- **IPA, constant terms changed** on the verifier's side (any of them, in any combinations; same
polynomial terms): the combined commitments stay and every claimed value of a combination labelled
`l` moves by minus the change of the constants of the combinations labelled `l`. -/
theorem ipa_lc_constant_defect (vk : IPA.VK F) (lcs lcs' : List (LC.LinComb F))
    (comms : List (IPA.LComm F)) (qs : List (IPA.Query F)) (evals : List ((IPA.Label × F) × F))
    (πs : List (IPA.Proof F)) (ξs ros rs : List F) (lcC : List (IPA.LComm F))
    (hs : List.Forall₂ IPA.SameShape lcs lcs') (h1 : IPA.verifierComms comms lcs = .ok lcC)
    (hacc : IPA.checkCombinations vk lcs comms qs evals πs ξs ros rs = .ok true) :
    IPA.checkCombinations vk lcs' comms qs evals πs ξs ros rs
      = .ok (IPA.allZero (IPA.batchErrs vk lcC (IPA.adjustEvals lcs evals) (fun _ => 0)
          (fun k => -(IPA.constSum lcs' k.1 - IPA.constSum lcs k.1)) (Marlin.groupQueries qs) πs ξs ros)) :=
  IPA.lc_constants_perturbed vk lcs lcs' comms qs evals πs ξs ros rs lcC hs h1 hacc

/-- **IPA, a coefficient changed** by `δ` on a term naming the unbounded polynomial `m`: in the
verifier's term loop the combined commitment of that combination moves by `δ·C_m` and nothing else
does (the claimed values are not touched). -/
theorem ipa_lc_coefficient_shift (comms : List (IPA.LComm F)) (k : Nat) (m : IPA.Label)
    (cm : IPA.LComm F) (c δ : F)
    (hm : Marlin.lookupLast (fun (c : IPA.LComm F) => c.label) m comms = some cm)
    (hb : cm.bound = none) (hs : cm.comm.shifted = none) (t1 t2 : List (F × LC.LCTerm))
    (a : IPA.LCAccV F) :
    IPA.loopAccV comms k a (t1 ++ (c + δ, .poly m) :: t2)
      = match IPA.loopAccV comms k a (t1 ++ (c, .poly m) :: t2) with
        | .error x => .error x
        | .ok a' => .ok (a'.shiftComm (cm.comm.comm * δ)) :=
  IPA.loopAccV_coeff comms k m cm c δ hm hb hs t2 t1 a

/-- **IPA, a coefficient changed, end to end** — proved for a list of ONE combination (missing:
several combinations; there `ipa_lc_perturbed` applies with `errC` read off
`ipa_lc_coefficient_shift`, provided no other combination carries the same label, because
`batch_check` resolves a label to the last commitment carrying it).  The decision becomes "every
point label's `Σⱼ [lⱼ = l]·δ·C_m·ξⱼ` vanishes". -/
theorem ipa_lc_coefficient_defect_partial (vk : IPA.VK F) (l : IPA.Label)
    (t1 t2 : List (F × LC.LCTerm)) (m : IPA.Label) (cm : IPA.LComm F) (c δ : F)
    (comms : List (IPA.LComm F))
    (hm : Marlin.lookupLast (fun (c : IPA.LComm F) => c.label) m comms = some cm)
    (hb : cm.bound = none) (hs : cm.comm.shifted = none)
    (qs : List (IPA.Query F)) (evals : List ((IPA.Label × F) × F)) (πs : List (IPA.Proof F))
    (ξs ros rs : List F) (lcC : List (IPA.LComm F))
    (h1 : IPA.verifierComms comms [⟨l, t1 ++ (c, .poly m) :: t2⟩] = .ok lcC)
    (hacc : IPA.checkCombinations vk [⟨l, t1 ++ (c, .poly m) :: t2⟩] comms qs evals πs ξs ros rs = .ok true) :
    IPA.checkCombinations vk [⟨l, t1 ++ (c + δ, .poly m) :: t2⟩] comms qs evals πs ξs ros rs
      = .ok (IPA.allZero (IPA.batchErrs vk lcC (IPA.adjustEvals [⟨l, t1 ++ (c, .poly m) :: t2⟩] evals)
          (fun l' => if l' = l then cm.comm.comm * δ else 0) (fun _ => 0)
          (Marlin.groupQueries qs) πs ξs ros)) :=
  IPA.lc_coefficient_perturbed_single vk l t1 t2 m cm c δ comms hm hb hs qs evals πs ξs ros rs lcC h1 hacc

/-- **IPA, an underlying evaluation changed**: no polynomial evaluation is transmitted
(`evals: None`); a combination value computed from an evaluation of `m` that is off by `δ` is off by
`δ·Σ{cᵢ : term i names m}`, i.e. it is a changed claimed value (`ipa_lc_value_defect`). -/
theorem ipa_lc_evaluation_shift (lc : LC.LinComb F) (σ : IPA.Label → F) (m : IPA.Label) (δ : F) :
    LC.value lc (fun l => σ l + if l = m then δ else 0)
      = LC.value lc σ + δ * IPA.coeffSum m lc.terms :=
  IPA.value_shift lc σ m δ

/-- **IPA, degree-bound policy, one term**: a degree-bounded polynomial in a combination of `k ≠ 1`
terms (constants count) is refused with `EquationHasDegreeBounds`; alone it must carry coefficient
one (assertion); an unknown label is refused with `MissingPolynomial`.  The hypothesis "the
commitment found under the label has a shifted part exactly when the polynomial has a bound" is
needed since D26: the code tests it between the lookup and the policy and refuses a bounded
polynomial whose commitment lacks the shifted part with `InvalidCommitment`
(`ipa_lc_open_malformed_commitment_refused` in `C06_IPAMalformed`). -/
theorem ipa_lc_bound_policy (trips : List (IPA.Trip F)) (k : Nat) (acc : IPA.LCAcc F) (coeff : F)
    (l : IPA.Label) :
    (∀ x, Marlin.lookupLast (fun (t : IPA.Trip F) => t.1.label) l trips = some x →
      x.1.bound.isSome = x.2.2.comm.shifted.isSome → x.1.bound.isSome = true →
      (k ≠ 1 → IPA.lcStepP trips k acc (coeff, .poly l) = .error .equationHasDegreeBounds) ∧
      (k = 1 → coeff ≠ 1 → IPA.lcStepP trips k acc (coeff, .poly l) = .error .abort)) ∧
    (Marlin.lookupLast (fun (t : IPA.Trip F) => t.1.label) l trips = none →
      IPA.lcStepP trips k acc (coeff, .poly l) = .error .missingPolynomial) :=
  ⟨fun x hl hal hb => IPA.lcStepP_policy trips k acc coeff l x hl hal hb,
   fun hl => IPA.lcStepP_unknown trips k acc coeff l hl⟩

/-- **IPA, mixtures are refused by the prover** with the code's error: all labels known, single
bounded terms with coefficient one (the in-domain side conditions), and some combination mixes a
degree-bounded polynomial with other terms ⇒ `open_combinations = Err(EquationHasDegreeBounds)`,
whatever the query set and the oracles are.  `hwf` — every (polynomial, state, commitment) entry has
a shifted commitment exactly when the polynomial has a degree bound, as for the committer's own
output — is needed since D26: without it a malformed entry named before the mixture (or by the
bounded term itself) ends the call in `InvalidCommitment` instead
(`ipa_lc_open_malformed_commitment_refused`).  The verifier's statement below gets it from `hall`. -/
theorem ipa_lc_mixed_refused_prover (ck : IPA.CK F) (lcs : List (LC.LinComb F))
    (polys : List (IPA.LPoly F)) (comms : List (IPA.LComm F)) (sts : List (IPA.Rand F))
    (qs : List (IPA.Query F)) (ξs ros : List F) (rng : Bool) (draws : List F)
    (hwf : ∀ t ∈ polys.zip (sts.zip comms), t.1.bound.isSome = t.2.2.comm.shifted.isSome)
    (hdom : ∀ lc ∈ lcs, IPA.LCDomain (polys.zip (sts.zip comms)) lc)
    (hex : ∃ lc ∈ lcs, IPA.Mixes (polys.zip (sts.zip comms)) lc) :
    IPA.openCombinations ck lcs polys comms sts qs ξs ros rng draws = .error .equationHasDegreeBounds :=
  IPA.openCombinations_mixed ck lcs polys comms sts qs ξs ros rng draws hwf hdom hex

/-- **IPA, mixtures are refused by the verifier** with the same error (it reads the bounds off the
labelled commitments): never opened or checked without the bound. -/
theorem ipa_lc_mixed_refused_verifier (ck vk : IPA.CK F) (lcs : List (LC.LinComb F))
    (polys : List (IPA.LPoly F)) (comms : List (IPA.LComm F)) (sts : List (IPA.Rand F))
    (hall : IPA.AllCommitted ck polys comms sts) (hnf : ∀ p ∈ polys, pnorm p.poly = p.poly)
    (qs : List (IPA.Query F)) (evals : List ((IPA.Label × F) × F)) (πs : List (IPA.Proof F))
    (ξs ros rs : List F)
    (hdom : ∀ lc ∈ lcs, IPA.LCDomain (polys.zip (sts.zip comms)) lc)
    (hex : ∃ lc ∈ lcs, IPA.Mixes (polys.zip (sts.zip comms)) lc) :
    IPA.checkCombinations vk lcs comms qs evals πs ξs ros rs = .error .equationHasDegreeBounds :=
  IPA.checkCombinations_mixed ck vk lcs polys comms sts hall hnf qs evals πs ξs ros rs hdom hex

/-- **IPA, the verifier's combination loop is the prover's**, refusals included: for honest
commitments `check_combinations` meets exactly the error `open_combinations` meets, or else the same
combined commitments. -/
theorem ipa_lc_verifier_mirrors_prover (ck : IPA.CK F) (polys : List (IPA.LPoly F))
    (comms : List (IPA.LComm F)) (sts : List (IPA.Rand F)) (hall : IPA.AllCommitted ck polys comms sts)
    (hnf : ∀ p ∈ polys, pnorm p.poly = p.poly) (lcs : List (LC.LinComb F))
    (evals : List ((IPA.Label × F) × F)) :
    IPA.combineAllV comms lcs evals
      = match IPA.combineAllP (polys.zip (sts.zip comms)) lcs with
        | .error e => .error e
        | .ok as => .ok (as.map IPA.LCAcc.toV, IPA.adjustEvals lcs evals) :=
  IPA.combineAllV_mirror _ comms (IPA.lookupAgree_of_all ck polys comms sts hall hnf) lcs evals

/-! non-vacuity over `ZMod 101`: the 4-element key of `C01_IPA`, three committed polynomials
(`p₁` with degree bound 2 and hiding, `p₂` plain, `p₃` hiding); combination `A = 2·p₂ − p₃ + 5 + 0·p₂`
and `B = 1·p₁` (bounded, alone); `A, B` queried at 6 (one point label), `A` at 7 (another).  The
prover answers, the verifier accepts the true values `15, 20, 72`; a changed value, constant or
coefficient is rejected, a constant change together with the values it implies is accepted; mixtures
and unknown labels are refused with the stated errors. -/
namespace ExIPA
def ck : IPA.CK K := ⟨[3, 5, 7, 11], 13, 17, 7⟩
def polys : List (IPA.LPoly K) :=
  [⟨[1], [1, 2, 3], some 2, some 1⟩, ⟨[2], [4, 0, 0, 9], none, none⟩, ⟨[3], [6, 7], none, some 1⟩]
def comms : List (IPA.LComm K) :=
  [⟨[1], ⟨88, some 22⟩, some 2⟩, ⟨[2], ⟨10, none⟩, none⟩, ⟨[3], ⟨40, none⟩, none⟩]
def sts : List (IPA.Rand K) := [⟨21, some 22⟩, ⟨0, none⟩, ⟨23, none⟩]
def lcA (c₀ c₂ : K) : LC.LinComb K := ⟨[65], [(c₀, .poly [2]), (-1, .poly [3]), (c₂, .one), (0, .poly [2])]⟩
def lcs : List (LC.LinComb K) := [lcA 2 5, ⟨[66], [(1, .poly [1])]⟩]
def qs : List (IPA.Query K) := [([65], ([9], 6)), ([66], ([9], 6)), ([65], ([10], 7))]
def ξs : List K := [2, 3, 4, 5, 6, 7, 8, 9, 10, 11]
def ros : List K := [7, 8, 9, 10, 11, 12, 13, 14, 15, 16]
def draws : List K := [31, 32, 33, 34, 35, 36, 37, 38, 39, 40, 41, 42]
def evals (a b c : K) : List ((IPA.Label × K) × K) := [(([65], 6), a), (([65], 7), b), (([66], 6), c)]
def πs : List (IPA.Proof K) :=
  [⟨[85, 8], [26, 16], 96, 47, some 34, some 90⟩, ⟨[11, 13], [7, 33], 45, 82, some 11, some 77⟩]
end ExIPA

open ExIPA in
example : IPA.commit ck polys true [21, 22, 23, 24] = .ok (comms, sts, [24]) := by decide
open ExIPA in
example : IPA.openCombinations ck lcs polys comms sts qs ξs ros true draws
    = .ok (πs, [10, 11], [15, 16], [41, 42]) := by decide +kernel
open ExIPA in
example : IPA.verifierComms comms lcs
    = .ok [⟨[65], ⟨81, none⟩, none⟩, ⟨[66], ⟨88, some 22⟩, some 2⟩] := by decide
open ExIPA in
example : IPA.checkCombinations ck lcs comms qs (evals 15 72 20) πs ξs ros [5, 6] = .ok true := by
  decide +kernel
open ExIPA in
example : IPA.checkCombinations ck lcs comms qs (evals 16 72 20) πs ξs ros [5, 6] = .ok false := by
  decide +kernel
open ExIPA in
example : IPA.checkCombinations ck [lcA 2 6, ⟨[66], [(1, .poly [1])]⟩] comms qs (evals 15 72 20) πs ξs ros [5, 6]
    = .ok false := by decide +kernel
open ExIPA in
example : IPA.checkCombinations ck [lcA 2 6, ⟨[66], [(1, .poly [1])]⟩] comms qs (evals 16 73 20) πs ξs ros [5, 6]
    = .ok true := by decide +kernel
open ExIPA in
example : IPA.checkCombinations ck [lcA 3 5, ⟨[66], [(1, .poly [1])]⟩] comms qs (evals 15 72 20) πs ξs ros [5, 6]
    = .ok false := by decide +kernel
open ExIPA in
example : List.Forall₂ IPA.SameShape lcs [lcA 2 6, ⟨[66], [(1, .poly [1])]⟩] := by
  refine .cons ⟨rfl, ?_⟩ (.cons ⟨rfl, ?_⟩ .nil)
  · exact .cons ⟨rfl, by decide⟩ (.cons ⟨rfl, by decide⟩ (.cons ⟨rfl, by decide⟩ (.cons ⟨rfl, by decide⟩ .nil)))
  · exact .cons ⟨rfl, by decide⟩ .nil
open ExIPA in
example : IPA.openCombinations ck [⟨[65], [(1, .poly [1]), (5, .one)]⟩] polys comms sts qs ξs ros true draws
    = .error .equationHasDegreeBounds := by decide
open ExIPA in
example : IPA.checkCombinations ck [⟨[65], [(1, .poly [1]), (5, .one)]⟩] comms qs (evals 15 72 20) πs ξs ros [5, 6]
    = .error .equationHasDegreeBounds := by decide
open ExIPA in
example : IPA.Mixes (polys.zip (sts.zip comms)) ⟨[65], [(1, .poly [1]), (5, .one)]⟩ :=
  ⟨by decide, (1, .poly [1]), by simp, [1],
    ((⟨[1], [1, 2, 3], some 2, some 1⟩ : IPA.LPoly K), (⟨21, some 22⟩ : IPA.Rand K),
      (⟨[1], ⟨88, some 22⟩, some 2⟩ : IPA.LComm K)), rfl, by decide, by decide⟩
open ExIPA in
example : ∀ t ∈ polys.zip (sts.zip comms), t.1.bound.isSome = t.2.2.comm.shifted.isSome := by decide
open ExIPA in
example : IPA.openCombinations ck [⟨[65], [(2, .poly [1])]⟩] polys comms sts qs ξs ros true draws
    = .error .abort := by decide
open ExIPA in
example : IPA.openCombinations ck [⟨[65], [(2, .poly [77])]⟩] polys comms sts qs ξs ros true draws
    = .error .missingPolynomial := by decide

end PCV.C06
