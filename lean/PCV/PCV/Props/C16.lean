/-
  Property C16 — the public algebraic helpers satisfy their defining identities:
  `LinearCombination` arithmetic preserves meaning, `evaluate_query_set` returns the evaluations of
  the queried polynomials, and `SuccinctCheckPolynomial::evaluate` agrees with the expanded
  coefficient vector.  Only property theorems live here; lemmas are in PCV/Proofs.
-/
import PCV.Proofs.LC
import PCV.Proofs.Succinct
import PCV.Proofs.QuerySet
import PCV.Props.Examples

set_option linter.unusedSectionVars false

namespace PCV.C16
open PCV
variable {F : Type} [Field F]

/-! ### `LinearCombination` operators (`data_structures.rs`) -/

/-- `LinearCombination::empty` has value `0`. -/
theorem lc_empty (l : LC.Label) (σ : LC.Label → F) : LC.value (LC.empty l : LC.LinComb F) σ = 0 :=
  LC.value_empty l σ

/-- `LinearCombination::new(label, terms)` has the value `Σ cᵢ·σ(tᵢ)` of its terms. -/
theorem lc_new (l : LC.Label) (ts : List (F × LC.LCTerm)) (σ : LC.Label → F) :
    LC.value (LC.new l ts) σ = LC.termsValue σ ts :=
  LC.value_new l ts σ

/-- `a.push((c, t))`: `value a + c·σ(t)`, with `One ↦ 1`. -/
theorem lc_push (a : LC.LinComb F) (c : F) (t : LC.LCTerm) (σ : LC.Label → F) :
    LC.value (LC.push a (c, t)) σ = LC.value a σ + c * LC.termVal σ t :=
  LC.value_push a c t σ

/-- `a += (c, &b)`. -/
theorem lc_add_scaled (a b : LC.LinComb F) (c : F) (σ : LC.Label → F) :
    LC.value (LC.addScaled a c b) σ = LC.value a σ + c * LC.value b σ :=
  LC.value_addScaled a b c σ

/-- `a -= (c, &b)`. -/
theorem lc_sub_scaled (a b : LC.LinComb F) (c : F) (σ : LC.Label → F) :
    LC.value (LC.subScaled a c b) σ = LC.value a σ - c * LC.value b σ :=
  LC.value_subScaled a b c σ

/-- `a += &b`. -/
theorem lc_add_lc (a b : LC.LinComb F) (σ : LC.Label → F) :
    LC.value (LC.addLC a b) σ = LC.value a σ + LC.value b σ :=
  LC.value_addLC a b σ

/-- `a -= &b`. -/
theorem lc_sub_lc (a b : LC.LinComb F) (σ : LC.Label → F) :
    LC.value (LC.subLC a b) σ = LC.value a σ - LC.value b σ :=
  LC.value_subLC a b σ

/-- `a += c` (constant). -/
theorem lc_add_const (a : LC.LinComb F) (c : F) (σ : LC.Label → F) :
    LC.value (LC.addConst a c) σ = LC.value a σ + c :=
  LC.value_addConst a c σ

/-- `a -= c` (constant). -/
theorem lc_sub_const (a : LC.LinComb F) (c : F) (σ : LC.Label → F) :
    LC.value (LC.subConst a c) σ = LC.value a σ - c :=
  LC.value_subConst a c σ

/-- `a *= c`. -/
theorem lc_mul_const (a : LC.LinComb F) (c : F) (σ : LC.Label → F) :
    LC.value (LC.mulConst a c) σ = LC.value a σ * c :=
  LC.value_mulConst a c σ

/-- **Operation sequences.** For every initial combination, every sequence of public operations
(of any length) and every assignment `σ`: the value of the result is the same sequence of field
operations applied to the value of the initial combination. -/
theorem lc_op_sequence (a : LC.LinComb F) (ops : List (LC.Op F)) (σ : LC.Label → F) :
    LC.value (LC.applyOps a ops) σ = LC.specOps σ (LC.value a σ) ops :=
  LC.value_applyOps a ops σ

/-- The label of the left operand survives every operation sequence. -/
theorem lc_label_preserved (a : LC.LinComb F) (ops : List (LC.Op F)) :
    (LC.applyOps a ops).label = a.label :=
  LC.label_applyOps a ops

/-- non-vacuity: a sequence using every operator, with a repeated label (terms are not merged) and
its value under a concrete assignment -/
example :
    LC.applyOps (LC.new [97] [((3 : K), LC.LCTerm.poly [112])])
      [.addScaled 2 ⟨[98], [(5, .poly [112]), (1, .one)]⟩, .subScaled 4 ⟨[98], [(7, .poly [113])]⟩,
       .addLC ⟨[99], [(1, .poly [113])]⟩, .subLC ⟨[99], [(2, .one)]⟩, .addConst 9, .subConst 1,
       .mulConst 3, .push 6 (.poly [112])]
      = ⟨[97], [(9, .poly [112]), (30, .poly [112]), (6, .one), (17, .poly [113]), (3, .poly [113]),
          (95, .one), (27, .one), (98, .one), (6, .poly [112])]⟩ := by decide
example :
    LC.value (LC.applyOps (LC.new [97] [((3 : K), LC.LCTerm.poly [112])])
      [.addScaled 2 ⟨[98], [(5, .poly [112]), (1, .one)]⟩, .subConst 1, .mulConst 3])
      (fun l => if l = [112] then 10 else 0) = 90 := by decide

/-! ### `evaluate_query_set` (`lib.rs`) -/

section QuerySet
variable {P Pt : Type} [DecidableEq Pt]

/-- **`evaluate_query_set`.** If the call returns (no panic), then the returned map has exactly the
keys `(label, point)` of the query set, and every query `(label, (_, point))` is mapped to the
evaluation at `point` of the polynomial registered under `label` (the last one with that label in
`polys`, as `BTreeMap::from_iter` keeps it). -/
theorem evaluate_query_set_spec (ltL : QS.Label → QS.Label → Bool)
    (ltK : QS.Label × Pt → QS.Label × Pt → Bool) (evalP : P → Pt → F)
    (polys : List (QS.Label × P)) (qs : List (QS.Label × (QS.Label × Pt)))
    (m : List ((QS.Label × Pt) × F))
    (h : QS.evaluateQuerySet ltL ltK evalP polys qs = .ok m) :
    (∀ k, k ∈ QS.keys m ↔ ∃ q ∈ qs, QS.keyOf q = k) ∧
    (∀ q ∈ qs, ∃ p, QS.lastWith q.1 polys = some p ∧
      QS.lookup (QS.keyOf q) m = some (evalP p q.2.2)) := by
  obtain ⟨h1, h2, _⟩ := QS.evalLoop_spec ltK evalP _ qs [] m h
  refine ⟨fun k => ?_, fun q hq => ?_⟩
  · rw [h1 k]; simp [QS.keys]
  · obtain ⟨p, hp, hv⟩ := h2 q hq
    exact ⟨p, by rw [← QS.lookup_fromList_nil ltL]; exact hp, hv⟩

/-- **Totality / refusal.** The call returns iff every queried label names one of the polynomials;
otherwise it panics (`expect("polynomial in evaluated lc is not found")`). -/
theorem evaluate_query_set_ok_iff (ltL : QS.Label → QS.Label → Bool)
    (ltK : QS.Label × Pt → QS.Label × Pt → Bool) (evalP : P → Pt → F)
    (polys : List (QS.Label × P)) (qs : List (QS.Label × (QS.Label × Pt))) :
    ((∃ m, QS.evaluateQuerySet ltL ltK evalP polys qs = .ok m) ↔
        ∀ q ∈ qs, (QS.lastWith q.1 polys).isSome = true) ∧
    ((¬ ∃ m, QS.evaluateQuerySet ltL ltK evalP polys qs = .ok m) →
        QS.evaluateQuerySet ltL ltK evalP polys qs = .error .abort) := by
  have h := QS.evalLoop_ok_iff ltK evalP (QS.fromList ltL polys []) qs []
  simp only [QS.lookup_fromList_nil] at h
  exact h

/-- The returned association list is strictly sorted by key (it is a `BTreeMap`: no duplicate
keys), for every strict total order on the keys. -/
theorem evaluate_query_set_sorted (ltL : QS.Label → QS.Label → Bool)
    (ltK : QS.Label × Pt → QS.Label × Pt → Bool) (hlt : QS.StrictTotal ltK) (evalP : P → Pt → F)
    (polys : List (QS.Label × P)) (qs : List (QS.Label × (QS.Label × Pt)))
    (m : List ((QS.Label × Pt) × F))
    (h : QS.evaluateQuerySet ltL ltK evalP polys qs = .ok m) : QS.Sorted ltK m :=
  QS.evalLoop_sorted ltK hlt evalP _ qs [] m List.Pairwise.nil h

/-- the order used by the code (`Ord` of `(String, T)`) is a strict total order whenever the order
of the points is: the hypothesis of `evaluate_query_set_sorted` is satisfiable -/
theorem key_order_strict_total (ltP : Pt → Pt → Bool) (h : QS.StrictTotal ltP) :
    QS.StrictTotal (QS.ltKey ltP) :=
  QS.strictTotal_ltKey ltP h

/-- the order of points used in the examples (representatives in `0..100`) is strict total -/
example : QS.StrictTotal (fun a b : K => decide (a.val < b.val)) := by
  constructor
  · intro a b c h1 h2
    simp only [decide_eq_true_eq] at *
    omega
  · intro a b hne h
    simp only [decide_eq_true_eq, decide_eq_false_iff_not] at *
    have : a.val ≠ b.val := fun e => hne (ZMod.val_injective 101 e)
    omega

/-- non-vacuity: two polynomials (one label given twice: the later one wins), three queries sharing
labels and points, result sorted by `(label, point)` -/
example :
    QS.evaluateQuerySet QS.ltLabel (QS.ltKey (fun a b : K => decide (a.val < b.val))) (evalPoly (F := K))
      [([112], [1, 2]), ([113], [0, 0, 1]), ([112], [5, 1])]
      [([113], ([122], 3)), ([112], ([122], 3)), ([112], ([119], 2)), ([113], ([120], 3))]
      = .ok [(([112], 2), 7), (([112], 3), 8), (([113], 3), 9)] := by decide
/-- non-vacuity of the refusal: an unknown label aborts -/
example :
    QS.evaluateQuerySet QS.ltLabel (QS.ltKey (fun a b : K => decide (a.val < b.val))) (evalPoly (F := K))
      [([112], [1, 2])] [([112], ([122], 3)), ([114], ([122], 3))] = .error .abort := by decide

end QuerySet

/-! ### `SuccinctCheckPolynomial` (`ipa_pc/data_structures.rs`) -/

/-- `compute_coeffs` returns `2^k` coefficients for `k` challenges. -/
theorem computeCoeffs_length (us : List F) :
    (Succinct.computeCoeffs us).length = 2 ^ us.length :=
  Succinct.computeCoeffs_length us

/-- The structure of the coefficient vector: the first challenge multiplies the upper half,
the remaining challenges act on both halves alike. -/
theorem computeCoeffs_cons (u : F) (us : List F) :
    Succinct.computeCoeffs (u :: us)
      = Succinct.computeCoeffs us ++ (Succinct.computeCoeffs us).map (· * u) :=
  Succinct.computeCoeffs_cons u us

/-- **`evaluate(z)` equals Horner evaluation of `compute_coeffs()` at `z`**, for every challenge
list (any length) and every point. -/
theorem evaluate_eq_horner (us : List F) (z : F) :
    Succinct.evaluate us z = evalPoly (Succinct.computeCoeffs us) z :=
  Succinct.evaluate_eq_horner us z

/-- **Product form**: `evaluate us z = ∏ᵢ (1 + uᵢ · z^(2^(k-i)))`, `i = 1..k`: the first challenge
pairs with the highest power `z^(2^(k-1))`, the last with `z`. -/
theorem evaluate_eq_product (us : List F) (z : F) :
    Succinct.evaluate us z = Succinct.prodForm z us :=
  Succinct.evaluate_eq_prodForm us z

/-- non-vacuity: three challenges; `coeffs[j] = ∏ {uᵢ : bit (k-i) of j is set}` -/
example : Succinct.computeCoeffs [(2 : K), 3, 5] = [1, 5, 3, 15, 2, 10, 6, 30] := by decide
example : Succinct.evaluate [(2 : K), 3, 5] 7 = 14 := by decide
example : evalPoly (Succinct.computeCoeffs [(2 : K), 3, 5]) 7 = 14 := by decide
example : Succinct.computeCoeffs ([] : List K) = [1] ∧ Succinct.evaluate ([] : List K) 7 = 1 := by
  decide

end PCV.C16
