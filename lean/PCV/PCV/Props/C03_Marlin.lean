/-
  Property C03 (MarlinKZG10) — crafted proofs on the exact model, for any number of commitments with
  any degree bounds: at most one witness element is accepted per statement, a forged value needs an
  exactly compensating `random_v`, proof lists of the wrong length abort the batch verifier, and the
  reduction for algebraic forgers.
-/
import PCV.Proofs.MarlinMore
import PCV.Proofs.KZG10Extract
import PCV.Props.C01_Marlin
import PCV.Props.C03
set_option linter.unusedSectionVars false

namespace PCV.C03
open PCV Marlin
variable {F : Type} [Field F] [DecidableEq F]

/-- **Single-component replacement (witness), any statement.** The statement is accumulated without
looking at the proof, so for well-formed keys (`βH = β·h`, `h ≠ 0`) and `z ≠ β` two proofs that differ
only in the witness element and are both accepted are equal. -/
theorem marlin_witness_unique (vk : VK F) (g γ β h : F) (hvk : vk.vk = KZG.wfVK g γ β h) (hh : h ≠ 0)
    (cs : List (LComm F)) (z : F) (hz : β ≠ z) (vs ξs r₁ r₂ : List F) (w₁ w₂ : F) (rv : Option F)
    (h₁ : check vk cs z vs ⟨w₁, rv⟩ ξs = .ok (true, r₁))
    (h₂ : check vk cs z vs ⟨w₂, rv⟩ ξs = .ok (true, r₂)) : w₁ = w₂ := by
  unfold check at h₁ h₂
  split at h₁
  · cases h₁
  · rename_i C V rest ha
    rw [ha] at h₂
    simp only at h₂
    injection h₁ with h₁; injection h₁ with a1 _
    injection h₂ with h₂; injection h₂ with a2 _
    rw [hvk] at a1 a2
    exact kzg10_witness_unique g γ β h C z V rv w₁ w₂ hz hh a1 a2

/-- **Forged values with the honest witness.** From an accepted hiding transcript, values changed by
`ds` together with `random_v` changed by `drv` are accepted iff
`h·(⟨κ, ds⟩ + drv·γ) = 0` (`κ` the challenge weights of `C02.marlin_values_iff`). -/
theorem marlin_values_and_rv (vk : VK F) (cs : List (LComm F)) (z : F) (vs ds ξs : List F)
    (w rv drv : F) (rest : List F) (hlen : ds.length = vs.length)
    (hacc : check vk cs z vs ⟨w, some rv⟩ ξs = .ok (true, rest)) :
    check vk cs z (List.zipWith (· + ·) vs ds) ⟨w, some (rv + drv)⟩ ξs = .ok (true, rest)
      ↔ vk.vk.h * (dot (kappa vk cs ξs) ds + drv * vk.vk.gammaG) = 0 := by
  unfold check at hacc ⊢
  split at hacc
  · cases hacc
  · rename_i C V rest0 ha
    injection hacc with hacc; injection hacc with h1 h2
    obtain ⟨C', V', hr, he⟩ := accumulate_perturb vk cs vs ds ξs hlen C V rest0 ha
    rw [hr]
    simp only
    rw [KZG.check_iff_defect] at h1
    rw [h2]
    constructor
    · intro hx
      injection hx with hx; injection hx with hx _
      rw [KZG.check_iff_defect] at hx
      unfold KZG.defect KZG.rvVal at h1 hx
      simp only at h1 hx
      linear_combination h1 - hx + vk.vk.h * he
    · intro hx
      have : KZG.check vk.vk C' z V' ⟨w, some (rv + drv)⟩ = true := by
        rw [KZG.check_iff_defect]
        unfold KZG.defect KZG.rvVal at h1 ⊢
        simp only at h1 ⊢
        linear_combination h1 - hx + vk.vk.h * he
      rw [this]

/-- **Any algebraic forger solves the hardness problem (Marlin, unbounded commitment).**  Commitment
`g·p(β)`, witness `g·a(β)` for ANY coefficients `a`: if `v` is accepted at `z` under the challenge `ξ`
then the trapdoor is a root of `ξ·p − ξ·v − a·(X − z)`, whose value at `z` is `ξ·(p(z) − v) ≠ 0` for a
false claim.  (Degree-bounded commitments: `C04.marlin_bound_forgery_root`.) -/
theorem marlin_algebraic_forgery_reveals_trapdoor (vk : VK F) (g γ β h : F)
    (hvk : vk.vk = KZG.wfVK g γ β h) (hg : g ≠ 0) (hh : h ≠ 0)
    (l : Label) (p a : List F) (z v ξ : F) (ξs : List F) (hξ : ξ ≠ 0) (hv : v ≠ evalPoly p z)
    (hacc : check vk [⟨l, ⟨g * evalPoly p β, none⟩, none⟩] z [v] ⟨g * evalPoly a β, none⟩ (ξ :: ξs)
      = .ok (true, ξs)) :
    evalPoly (KZG.extractPoly (pscale ξ p) a z (ξ * v)) β = 0 ∧
      evalPoly (KZG.extractPoly (pscale ξ p) a z (ξ * v)) z ≠ 0 := by
  unfold check accumulate at hacc
  simp only [Option.isSome_none, ne_eq, not_true_eq_false, if_false, accumulate] at hacc
  injection hacc with hacc; injection hacc with h1 _
  rw [hvk] at h1
  have hc : KZG.check (KZG.wfVK g γ β h) (g * evalPoly (pscale ξ p) β) z (ξ * v)
      ⟨g * evalPoly a β, none⟩ = true := by
    rw [eval_pscale]
    have e1 : ξ * (g * evalPoly p β) + 0 = g * (ξ * evalPoly p β) := by ring
    have e2 : ξ * v + 0 = ξ * v := by ring
    rw [e1, e2] at h1
    exact h1
  have hv' : ξ * v ≠ evalPoly (pscale ξ p) z := by
    rw [eval_pscale]
    intro h0
    have : ξ * (v - evalPoly p z) = 0 := by linear_combination h0
    rcases mul_eq_zero.1 this with h2 | h2
    · exact hξ h2
    · exact hv (sub_eq_zero.1 h2)
  exact kzg10_algebraic_forgery_reveals_trapdoor g γ β h (pscale ξ p) a z (ξ * v) hg hh hv' hc

/-! non-vacuity on the bounded hiding example of `C01_Marlin` -/
example : check C01.exVK [⟨[112], ⟨43, some 90⟩, some 2⟩] 10 [evalPoly [1, 2, 3] 10] ⟨49, some 68⟩ [11, 13]
      = .ok (true, []) ∧
    check C01.exVK [⟨[112], ⟨43, some 90⟩, some 2⟩] 10 [evalPoly [1, 2, 3] 10] ⟨50, some 68⟩ [11, 13]
      = .ok (false, []) := by decide

end PCV.C03
