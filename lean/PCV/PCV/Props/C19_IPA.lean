/-
  Property C19 — succinctness, inner-product-argument scheme: the proof has exactly
  `log₂(supported_degree + 1)` pairs `(L, R)`, one key element, one scalar, an optional hiding
  commitment and an optional scalar — independent of the number and degree of the polynomials.
-/
import PCV.Proofs.IPAVerify
import PCV.Props.Examples

set_option linter.unusedSectionVars false

namespace PCV.C19
open PCV
variable {F : Type} [Field F] [DecidableEq F]

/-- **IPA, proof shape.** For a key of `2^k` elements (every key `trim` returns), any list of
polynomials, commitments and states and any oracle outputs: a proof returned by `open` has
`l_vec.length = r_vec.length = k = log₂(s + 1)`. -/
theorem ipa_proof_shape (ck : IPA.CK F) (k : Nat) (hk : ck.commKey.length = 2 ^ k)
    (polys : List (IPA.LPoly F)) (comms : List (IPA.LComm F)) (sts : List (IPA.Rand F))
    (z : F) (ξs ros : List F) (rng : Bool) (draws : List F) (π : IPA.Proof F) (ξr ror dr : List F)
    (ho : IPA.open ck polys comms z sts ξs ros rng draws = .ok (π, ξr, ror, dr)) :
    π.lVec.length = IPA.clog2 (IPA.supportedDegree ck + 1) ∧
    π.rVec.length = IPA.clog2 (IPA.supportedDegree ck + 1) ∧
    IPA.clog2 (IPA.supportedDegree ck + 1) = k := by
  obtain ⟨h1, h2⟩ := IPA.open_shape ck k hk polys comms sts z ξs ros rng draws π ξr ror dr ho
  rw [IPA.supported_succ ck k hk, IPA.clog2_pow]
  exact ⟨h1, h2, rfl⟩

/-- **IPA, keys have power-of-two length**: `trim` rounds the requested degree up to `2^k − 1`,
so the premise of `ipa_proof_shape` holds for every key it returns, and the supported degree it
reports is at least the requested one. -/
theorem ipa_trim_pow2 (pp : IPA.UParams F) (supported : Nat) (ck vk : IPA.CK F)
    (h : IPA.trim pp supported = .ok (ck, vk)) :
    vk = ck ∧ (∃ k, ck.commKey.length = 2 ^ k) ∧ supported ≤ IPA.supportedDegree ck := by
  obtain ⟨h1, h2, _, _, _, h3, _⟩ := IPA.trim_spec pp supported ck vk h
  exact ⟨h1, h2, h3⟩

/-- **IPA, batch proofs**: one proof per point label (otherwise `batch_check` aborts). -/
theorem ipa_batch_proof_count (vk : IPA.VK F) (comms : List (IPA.LComm F)) (qs : List (IPA.Query F))
    (evals : List ((IPA.Label × F) × F)) (πs : List (IPA.Proof F)) (ξs ros rs : List F) (b : Bool)
    (h : IPA.batchCheck vk comms qs evals πs ξs ros rs = .ok b) :
    πs.length = (Marlin.groupQueries qs).length := by
  unfold IPA.batchCheck at h
  split at h
  · cases h
  · rename_i hl; by_contra hne; exact hl hne

example : IPA.open (⟨[3, 5, 7, 11], 13, 17, 7⟩ : IPA.CK K)
      [⟨[1], [1, 2, 3], some 2, some 1⟩, ⟨[2], [4, 0, 0, 9], none, none⟩]
      [⟨[1], ⟨88, some 22⟩, some 2⟩, ⟨[2], ⟨10, none⟩, none⟩] 6
      [⟨21, some 22⟩, ⟨0, none⟩] [2, 3, 4, 5, 6] [7, 8, 9, 10, 11] true [31, 32, 33, 34, 35, 36]
    = .ok (⟨[89, 67], [85, 95], 96, 5, some 34, some 50⟩, [], [11], [36]) ∧
    IPA.clog2 (IPA.supportedDegree (⟨[3, 5, 7, 11], 13, 17, 7⟩ : IPA.CK K) + 1) = 2 := by
  constructor
  · decide +kernel
  · decide

end PCV.C19
