/-
  Property C08 — the commitment is the key-defined linear map of the polynomial: MarlinPST13.
  `MarlinPST13::commit` looks every term of the polynomial up in the monomial-indexed map
  `powers_of_g` and returns the MSM `Σ coeff · powers_of_g[term]` over the term vector as it is
  stored.  Stated for an ARBITRARY committer key (the map is whatever was published), then for the
  key of a trapdoor.
-/
import PCV.Proofs.PST13More
import PCV.Proofs.Combinations
import PCV.Props.Examples

set_option synthInstance.maxSize 512
set_option linter.unusedSectionVars false
set_option linter.unusedVariables false

namespace PCV.C08
open PCV PCV.MV PCV.C15Spec
variable {F : Type} [Field F] [DecidableEq F]

/-- **PST13: a non-hiding commitment is the key-defined sum.**  Arbitrary committer key; whatever
`commit` (no hiding bound) returns is `Σ coeff · powers_of_g[term]` over the stored term list
(`PST.keySum (PST.keyOf ck)`), with no blinding polynomial and the RNG untouched; it is returned
only within the supported degree. -/
theorem pst13_commit_key_sum (ck : PST.CK F) (p : MVPoly F) (rng : Bool) (draws : List F) (c : F)
    (r : MVPoly F) (rest : List F) (h : PST.commit ck p none rng draws = .ok (c, r, rest)) :
    c = PST.keySum (PST.keyOf ck) p ∧ r = [] ∧ rest = draws ∧ degreeMV p ≤ ck.supportedDegree :=
  PST.commit_plain_keySum ck p rng draws c r rest h

/-- **… and it is always returned** when the degree is supported and every monomial of the
polynomial is published. -/
theorem pst13_commit_answers (ck : PST.CK F) (p : MVPoly F) (rng : Bool) (draws : List F)
    (hd : degreeMV p ≤ ck.supportedDegree)
    (hk : ∀ t ∈ termsOf p, (PST.mapGet ck.powersOfG t).isSome = true) :
    PST.commit ck p none rng draws = .ok (PST.keySum (PST.keyOf ck) p, [], draws) :=
  PST.commit_plain_ok ck p rng draws hd hk

/-- **Additive and homogeneous.**  For library-built polynomials `p`, `q` (terms made by
`SparseTerm::new`) and scalars `a`, `b`, with `a·p + b·q` formed by the library's own
`+= (scalar, &poly)`: `commit(a·p + b·q) = a·commit(p) + b·commit(q)`, under any key. -/
theorem pst13_commit_additive (ck : PST.CK F) (p q : MVPoly F) (a b : F)
    (hp : polyWf p = true) (hq : polyWf q = true) (rng : Bool) (draws : List F)
    (cp cq cc : F) (rp rq rc : MVPoly F) (dp dq dc : List F)
    (h1 : PST.commit ck p none rng draws = .ok (cp, rp, dp))
    (h2 : PST.commit ck q none rng draws = .ok (cq, rq, dq))
    (h3 : PST.commit ck (addScaledMV (addScaledMV [] a p) b q) none rng draws = .ok (cc, rc, dc)) :
    cc = a * cp + b * cq := by
  rw [(PST.commit_plain_keySum ck _ rng draws cc rc dc h3).1,
    (PST.commit_plain_keySum ck _ rng draws cp rp dp h1).1,
    (PST.commit_plain_keySum ck _ rng draws cq rq dq h2).1]
  have hp' := (polyWf_iff p).1 hp
  have hq' := (polyWf_iff q).1 hq
  have hnil : ∀ t ∈ termsOf ([] : MVPoly F), Term.wf t = true := by
    intro t ht; simp [termsOf] at ht
  have hap : ∀ t ∈ termsOf (addScaledMV ([] : MVPoly F) a p), Term.wf t = true := by
    intro t ht
    rcases mem_addScaledMV_term _ _ _ t ht with ht | ht
    · exact hnil t ht
    · exact hp' t ht
  rw [PST.keySum_addScaledMV _ _ _ _ hap hq', PST.keySum_addScaledMV _ _ _ _ hnil hp']
  simp

/-- **The sum itself is additive and homogeneous** on raw term lists (no assumption on the terms):
concatenation adds, scaling scales. -/
theorem pst13_key_sum_linear (f : Term → F) (p q : MVPoly F) (a : F) :
    PST.keySum f (p ++ q) = PST.keySum f p + PST.keySum f q
      ∧ PST.keySum f (scaleMV a p) = a * PST.keySum f p :=
  ⟨PST.keySum_append f p q, PST.keySum_scaleMV f a p⟩

/-- **The zero polynomial commits to the identity** — the empty term list, and any term list whose
coefficients are all zero (within the supported degree, monomials published). -/
theorem pst13_commit_zero (ck : PST.CK F) (rng : Bool) (draws : List F) :
    PST.commit ck [] none rng draws = .ok (0, [], draws)
      ∧ ∀ p : MVPoly F, (∀ ct ∈ p, ct.1 = 0) → PST.keySum (PST.keyOf ck) p = 0 := by
  refine ⟨?_, fun p hp => PST.keySum_all_zero _ p hp⟩
  have := PST.commit_plain_ok ck [] rng draws (Nat.zero_le _) (by intro t ht; simp [termsOf] at ht)
  simpa using this

/-- **Independent of the order of the terms**: two term lists that are permutations of each other
commit to the same element. -/
theorem pst13_commit_term_order (ck : PST.CK F) (p q : MVPoly F) (hperm : p.Perm q) (rng : Bool)
    (draws : List F) (cp cq : F) (rp rq : MVPoly F) (dp dq : List F)
    (h1 : PST.commit ck p none rng draws = .ok (cp, rp, dp))
    (h2 : PST.commit ck q none rng draws = .ok (cq, rq, dq)) : cp = cq := by
  rw [(PST.commit_plain_keySum ck _ rng draws cp rp dp h1).1,
    (PST.commit_plain_keySum ck _ rng draws cq rq dq h2).1]
  exact PST.keySum_perm _ p q hperm

/-- **Independent of duplicate and zero terms**: a raw term list (repeated monomials, zero
coefficients, any order) and its normal form `from_coefficients_vec` (sorted, merged, zeros
removed) commit to the same element. -/
theorem pst13_commit_normal_form (ck : PST.CK F) (l : MVPoly F) (rng : Bool) (draws : List F)
    (c1 c2 : F) (r1 r2 : MVPoly F) (d1 d2 : List F)
    (h1 : PST.commit ck l none rng draws = .ok (c1, r1, d1))
    (h2 : PST.commit ck (fromCoeffs l) none rng draws = .ok (c2, r2, d2)) : c1 = c2 := by
  rw [(PST.commit_plain_keySum ck _ rng draws c1 r1 d1 h1).1,
    (PST.commit_plain_keySum ck _ rng draws c2 r2 d2 h2).1, PST.keySum_fromCoeffs]

/-- **Under the key of a trapdoor** `β⃗` (`powers_of_g[t] = g·t(β⃗)`): the commitment is `g·p(β⃗)`,
plus `γ·r(β⃗)` for the blinding polynomial `r` when hiding. -/
theorem pst13_commit_trapdoor (g γ : F) (β : List F) (ts : List Term) (nv s D m : Nat)
    (p : MVPoly F) (hb : Option Nat) (rng : Bool) (draws : List F) (c : F) (r : MVPoly F)
    (rest : List F)
    (h : PST.commit (PST.wfCK g γ β ts nv s D m) p hb rng draws = .ok (c, r, rest)) :
    c = g * evalMV p β + γ * evalMV r β :=
  (PST.commit_spec g γ β ts nv s D m p hb rng draws c r rest h).1

/-! ### non-vacuity over `ZMod 101` (key of the trapdoor `(2,7)`, `g = 3`) -/

def exCK : PST.CK K := PST.wfCK (3 : K) 5 [2, 7] (specTerms 2 2) 2 2 2 3
def exP : MVPoly K := [(4, []), (6, [(1, 1)]), (9, [(0, 1), (1, 1)]), (2, [(0, 2)])]
def exQ : MVPoly K := [(4, []), (6, [(0, 1)]), (2, [(0, 2)])]

/-- the published elements, and `commit(p) = 4·3 + 6·21 + 9·42 + 2·12` -/
example : exCK.powersOfG
    = [([(0, 1)], 6), ([(1, 1)], 21), ([(0, 2)], 12), ([(0, 1), (1, 1)], 42), ([(1, 2)], 46), ([], 3)] := by
  decide
example : PST.commit exCK exP none false [] = .ok (4 * 3 + 6 * 21 + 9 * 42 + 2 * 12, [], []) := by decide
example : PST.commit exCK exP none false [] = .ok (35, [], []) := by decide
example : PST.commit exCK exQ none false [] = .ok (72, [], []) := by decide
/-- `2·p − q` built by the library's operations commits to `2·35 − 72` -/
example : addScaledMV (addScaledMV [] (2 : K) exP) (-1) exQ
    = [(4, []), (12, [(1, 1)]), (95, [(0, 1)]), (18, [(0, 1), (1, 1)]), (2, [(0, 2)])] := by decide
example : PST.commit exCK (addScaledMV (addScaledMV [] (2 : K) exP) (-1) exQ) none false []
    = .ok (2 * 35 + (-1) * 72, [], []) := by decide
example : polyWf exP = true ∧ polyWf exQ = true := by decide
/-- a raw term list of `p`: shuffled, `6x₁` split into `3x₁ + 3x₁`, a zero term — same commitment
as its normal form -/
example : PST.commit exCK
    [(2, [(0, 2)]), (3, [(1, 1)]), (0, [(0, 1)]), (4, []), (3, [(1, 1)]), (9, [(0, 1), (1, 1)])]
    none false [] = .ok (35, [], []) := by decide
example : fromCoeffs ([(2, [(0, 2)]), (3, [(1, 1)]), (0, [(0, 1)]), (4, []), (3, [(1, 1)]),
    (9, [(0, 1), (1, 1)])] : MVPoly K) = exP := by decide
example : PST.commit exCK [] none false [] = .ok (0, [], []) := by decide

end PCV.C08
