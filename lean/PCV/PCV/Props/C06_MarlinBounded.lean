/-
  Property C06 (MarlinKZG10, degree bounds) — `open_combinations` followed by `check_combinations` when
  the committed polynomials may carry degree bounds.  The code allows a degree-bounded polynomial in a
  combination in exactly one way: alone, with coefficient one (the combination then keeps the bound and
  the shifted commitment); every other combination naming a bounded polynomial is refused
  (`C06.marlin_lc_bound_policy`).  `C06.marlin_lc_complete` covers lists of unbounded polynomials only;
  here every allowed mixture is covered.
-/
import PCV.Proofs.MarlinLCBounded
import PCV.Props.C06_MarlinComplete
set_option linter.unusedSectionVars false

namespace PCV.C06
open PCV Marlin
variable {F : Type} [Field F] [DecidableEq F]

/-- **Combination openings are complete, degree bounds included.**  Keys as `trim` makes them; ANY
honest triples — unbounded or degree-bounded (bounds the keys enforce: the prover's success says so),
hiding or not; ANY list of combinations with pairwise distinct labels in which every combination is
EITHER a combination of unbounded polynomials (`LCUnbounded`: arbitrary coefficients, repeated labels,
constant terms) OR the single term `1 · p` (`LCSingle`: `p` degree-bounded or not, hiding or not); ANY
query list; claimed values = polynomial part + constants.  Then whatever `open_combinations` returns is
accepted by `check_combinations`, for every list of verifier randomizers.
`hnd` is the side condition of `C01.marlin_batch_complete` (`GroupsND`, DESIGN §11.2), stated on the
combined polynomials and states that `open_combinations` hands to `batch_open`; it only concerns
bounded HIDING polynomials and is vacuous otherwise (`marlin_lc_bounded_complete_noshift`). -/
theorem marlin_lc_bounded_complete {ck : CK F} {vk : VK F} {g γ β h : F} {D n m : Nat}
    (hwf : WF ck vk g γ β h D n m) (l : List (Trip' F))
    (hH : ∀ t ∈ l, Honest g γ β D t) (hL : ∀ t ∈ l, RandLen m t)
    (hlab : ∀ t ∈ l, t.2.2.label = t.1.label)
    (lcs : List (LC.LinComb F)) (hnodup : (lcs.map (·.label)).Nodup)
    (hadm : ∀ lc ∈ lcs, LCUnbounded l lc ∨ LCSingle lc)
    (qs : List (Query F)) (evals : List ((Label × F) × F))
    (hev : ∀ gr ∈ groupQueries qs, ∀ lc ∈ lcs, lc.label ∈ gr.2.2 →
      lookupEval evals lc.label gr.2.1
        = some (lcPolyValue l gr.2.1 lc.terms + lcConstant lc))
    (ξs : List F) (πs : List (KZG.Proof F)) (rest : List F)
    (ho : openCombinations ck (l.map (·.1)) (l.map (·.2.1)) (l.map (·.2.2)) lcs qs ξs = .ok (πs, rest))
    (hnd : ∀ ts, combineAll l lcs = .ok ts →
      GroupsND ck (ts.map (·.1)) (ts.map (·.2.1)) (groupQueries qs) ξs)
    (rs : List F) :
    checkCombinations vk (l.map (·.2.2)) lcs qs evals πs ξs rs = .ok true :=
  lc_bounded_complete hwf l hH hL hlab lcs hnodup hadm qs evals hev ξs πs rest ho hnd rs

/-- **The two shapes are exactly what the code allows.**  A combination the prover combines is a
combination of unbounded polynomials or the single term `1 · p`; conversely such a combination whose
labels are all known is combined — no `EquationHasDegreeBounds`, no failed assertion. -/
theorem marlin_lc_allowed_iff (trips : List (Trip' F)) (lc : LC.LinComb F)
    (hknown : ∀ t ∈ lc.terms, ∀ lab, t.2 = .poly lab →
      (lookupLast (fun (t : Trip' F) => t.1.label) lab trips).isSome = true) :
    (∃ res, combineLC trips lc = .ok res) ↔ (LCUnbounded trips lc ∨ LCSingle lc) :=
  ⟨fun ⟨res, h⟩ => combineLC_ok_allowed trips lc res h,
   fun h => combineLC_allowed_ok trips lc h hknown⟩

/-- hence the shape hypothesis of `marlin_lc_bounded_complete` follows from the prover's success: for
ANY list of combinations over honest triples, an `open_combinations` that returns is accepted -/
theorem marlin_lc_bounded_complete_any {ck : CK F} {vk : VK F} {g γ β h : F} {D n m : Nat}
    (hwf : WF ck vk g γ β h D n m) (l : List (Trip' F))
    (hH : ∀ t ∈ l, Honest g γ β D t) (hL : ∀ t ∈ l, RandLen m t)
    (hlab : ∀ t ∈ l, t.2.2.label = t.1.label)
    (lcs : List (LC.LinComb F)) (hnodup : (lcs.map (·.label)).Nodup)
    (qs : List (Query F)) (evals : List ((Label × F) × F))
    (hev : ∀ gr ∈ groupQueries qs, ∀ lc ∈ lcs, lc.label ∈ gr.2.2 →
      lookupEval evals lc.label gr.2.1
        = some (lcPolyValue l gr.2.1 lc.terms + lcConstant lc))
    (ξs : List F) (πs : List (KZG.Proof F)) (rest : List F)
    (ho : openCombinations ck (l.map (·.1)) (l.map (·.2.1)) (l.map (·.2.2)) lcs qs ξs = .ok (πs, rest))
    (hnd : ∀ ts, combineAll l lcs = .ok ts →
      GroupsND ck (ts.map (·.1)) (ts.map (·.2.1)) (groupQueries qs) ξs)
    (rs : List F) :
    checkCombinations vk (l.map (·.2.2)) lcs qs evals πs ξs rs = .ok true :=
  lc_bounded_complete_any hwf l hH hL hlab lcs hnodup qs evals hev ξs πs rest ho hnd rs

/-- without shifted blinding — every degree-bounded polynomial committed without a hiding bound (the
unbounded ones may hide) — there is no side condition at all -/
theorem marlin_lc_bounded_complete_noshift {ck : CK F} {vk : VK F} {g γ β h : F} {D n m : Nat}
    (hwf : WF ck vk g γ β h D n m) (l : List (Trip' F))
    (hH : ∀ t ∈ l, Honest g γ β D t) (hL : ∀ t ∈ l, RandLen m t)
    (hN : ∀ t ∈ l, ∀ rs, t.2.1.shifted = some rs → rs = [])
    (hlab : ∀ t ∈ l, t.2.2.label = t.1.label)
    (lcs : List (LC.LinComb F)) (hnodup : (lcs.map (·.label)).Nodup)
    (hadm : ∀ lc ∈ lcs, LCUnbounded l lc ∨ LCSingle lc)
    (qs : List (Query F)) (evals : List ((Label × F) × F))
    (hev : ∀ gr ∈ groupQueries qs, ∀ lc ∈ lcs, lc.label ∈ gr.2.2 →
      lookupEval evals lc.label gr.2.1
        = some (lcPolyValue l gr.2.1 lc.terms + lcConstant lc))
    (ξs : List F) (πs : List (KZG.Proof F)) (rest : List F)
    (ho : openCombinations ck (l.map (·.1)) (l.map (·.2.1)) (l.map (·.2.2)) lcs qs ξs = .ok (πs, rest))
    (rs : List F) :
    checkCombinations vk (l.map (·.2.2)) lcs qs evals πs ξs rs = .ok true :=
  lc_bounded_complete hwf l hH hL hlab lcs hnodup hadm qs evals hev ξs πs rest ho
    (lc_groupsND_of_shnil ck l hN lcs qs ξs) rs

/-- **Lock-step form** (what a history of operations on one sponge needs, cf. `Props/C11_MarlinHistory`):
the verifier combines the prover's commitments, `combine_and_normalize` leaves exactly the prover's
remaining challenge stream, and every per-point KZG defect is zero. -/
theorem marlin_lc_bounded_lockstep {ck : CK F} {vk : VK F} {g γ β h : F} {D n m : Nat}
    (hwf : WF ck vk g γ β h D n m) (l : List (Trip' F))
    (hH : ∀ t ∈ l, Honest g γ β D t) (hL : ∀ t ∈ l, RandLen m t)
    (hlab : ∀ t ∈ l, t.2.2.label = t.1.label)
    (lcs : List (LC.LinComb F)) (hnodup : (lcs.map (·.label)).Nodup)
    (hadm : ∀ lc ∈ lcs, LCUnbounded l lc ∨ LCSingle lc)
    (qs : List (Query F)) (evals : List ((Label × F) × F))
    (hev : ∀ gr ∈ groupQueries qs, ∀ lc ∈ lcs, lc.label ∈ gr.2.2 →
      lookupEval evals lc.label gr.2.1
        = some (lcPolyValue l gr.2.1 lc.terms + lcConstant lc))
    (ξs : List F) (πs : List (KZG.Proof F)) (rest : List F)
    (ho : openCombinations ck (l.map (·.1)) (l.map (·.2.1)) (l.map (·.2.2)) lcs qs ξs = .ok (πs, rest))
    (hnd : ∀ ts, combineAll l lcs = .ok ts →
      GroupsND ck (ts.map (·.1)) (ts.map (·.2.1)) (groupQueries qs) ξs) :
    ∃ lcComms, combineAllComm (l.map (·.2.2)) lcs = .ok lcComms ∧
      ∃ trip, combineGroups vk lcComms (adjustEvals lcs evals) (groupQueries qs) ξs = .ok (trip, rest) ∧
        πs.length = trip.length ∧
        ∀ d ∈ KZG.defects vk.vk (trip.map (·.1)) (trip.map (·.2.1)) (trip.map (·.2.2)) πs, d = 0 :=
  lc_accept_bounded hwf l hH hL hlab lcs hnodup hadm qs evals hev ξs πs rest ho hnd

/-! non-vacuity over `ZMod 101` (keys `C01.exCK`/`C01.exVK`: `g = 3`, `γ = 5`, `β = 2`, `D = 3`, enforced
bound 2): the bounded HIDING polynomial `p = 1 + 2X + 3X²` of `C01.exPoly` with the state and commitment
`commitOne` gives it, next to the two unbounded polynomials of `C01.exBatch`; the combinations
`a = 2·p₁ − p₂` (unbounded, two terms) and `c = 1·p` (bounded, alone), `a` queried at one point, `c` at
two -/
def exBTrips : List (Trip' K) :=
  (C01.exPoly, ⟨[7, 8, 9], some [4, 5, 6]⟩, ⟨[112], ⟨43, some 90⟩, some 2⟩) :: C01.exBatch
def exBLCs : List (LC.LinComb K) :=
  [⟨[108, 97], [(2, .poly [97]), (-1, .poly [98])]⟩,
   ⟨[108, 99], [(1, .poly [112])]⟩]
def exBQueries : List (Query K) :=
  [([108, 97], ([112, 48], 5)), ([108, 99], ([112, 48], 5)), ([108, 99], ([112, 49], 9))]
def exBEvals : List ((Label × K) × K) :=
  [(([108, 97], 5), 2 * evalPoly [1, 2, 3] 5 - evalPoly [4, 0, 1] 5),
   (([108, 99], 5), evalPoly [1, 2, 3] 5),
   (([108, 99], 9), evalPoly [1, 2, 3] 9)]
/-- the shape hypothesis holds: `a` names unbounded polynomials only, `c` is a single term `1 · p` -/
example : ∀ lc ∈ exBLCs, LCUnbounded exBTrips lc ∨ LCSingle lc := by decide
/-- the combined triples: `c` keeps the bound, the shifted commitment and the shifted blinding of `p` -/
example : combineAll exBTrips exBLCs
    = .ok [(⟨[108, 97], [99, 4, 5], none, none⟩, ⟨[], none⟩, ⟨[108, 97], ⟨78, none⟩, none⟩),
           (⟨[108, 99], [1, 2, 3], some 2, some 1⟩, ⟨[7, 8, 9], some [4, 5, 6]⟩,
            ⟨[108, 99], ⟨43, some 90⟩, some 2⟩)] := by decide
example : openCombinations C01.exCK (exBTrips.map (·.1)) (exBTrips.map (·.2.1)) (exBTrips.map (·.2.2))
    exBLCs exBQueries [11, 13, 17, 19, 23, 31] = .ok ([⟨10, some 14⟩, ⟨6, some 84⟩], [31]) := by decide
example : checkCombinations C01.exVK (exBTrips.map (·.2.2)) exBLCs exBQueries exBEvals
    [⟨10, some 14⟩, ⟨6, some 84⟩] [11, 13, 17, 19, 23, 31] [29] = .ok true := by decide
/-- a wrong claimed value of the bounded combination at its second point is not accepted -/
example : checkCombinations C01.exVK (exBTrips.map (·.2.2)) exBLCs exBQueries
    (exBEvals.map fun e => if e.1 = ([108, 99], 9) then (e.1, e.2 + 1) else e)
    [⟨10, some 14⟩, ⟨6, some 84⟩] [11, 13, 17, 19, 23, 31] [29] = .ok false := by decide
/-- and the other uses of the bounded polynomial are refused on both sides: with a second term … -/
example : openCombinations C01.exCK (exBTrips.map (·.1)) (exBTrips.map (·.2.1)) (exBTrips.map (·.2.2))
    [⟨[108, 99], [(1, .poly [112]), (1, .poly [97])]⟩] exBQueries [11, 13, 17, 19, 23, 31]
    = .error .equationHasDegreeBounds := by decide
example : checkCombinations C01.exVK (exBTrips.map (·.2.2))
    [⟨[108, 99], [(1, .poly [112]), (3, .one)]⟩] exBQueries exBEvals
    [⟨10, some 14⟩, ⟨6, some 84⟩] [11, 13, 17, 19, 23, 31] [29] = .error .equationHasDegreeBounds := by decide
/-- … and alone with a coefficient other than one (the assertion) -/
example : openCombinations C01.exCK (exBTrips.map (·.1)) (exBTrips.map (·.2.1)) (exBTrips.map (·.2.2))
    [⟨[108, 99], [(2, .poly [112])]⟩] exBQueries [11, 13, 17, 19, 23, 31] = .error .abort := by decide

end PCV.C06
