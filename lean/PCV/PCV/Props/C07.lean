/-
  Property C07 — hiding commitments and proofs are blinded with fresh, sufficient randomness.
-/
import PCV.Proofs.KZG10
import PCV.Proofs.Interp
import PCV.Props.Examples

namespace PCV.C07
open PCV
variable {F : Type} [Field F] [DecidableEq F]

/-- **KZG10, structure of a hiding commitment.** With hiding bound `hb = some h` the commitment is
the non-hiding commitment plus `γ·r(β)` where the blinding polynomial `r` consists of `h + 2`
coefficients: the first `h+1` RNG draws followed by the first non-zero later draw. -/
theorem kzg10_hiding_structure (g γ β : F) (n m : Nat) (p : List F) (h : Nat) (draws : List F)
    (c : F) (r rest : List F)
    (hc : KZG.commit (KZG.wfPowers g γ β n m) p (some h) true draws = .ok (c, r, rest)) :
    c = g * evalPoly p β + γ * evalPoly r β ∧ r.length = h + 2 ∧ r.getLast? ≠ some 0 ∧
      r.take (h + 1) = draws.take (h + 1) := by
  have hs := (KZG.commit_spec g γ β n m p (some h) true draws c r rest hc).1
  refine ⟨hs, ?_⟩
  unfold KZG.commit at hc
  split at hc
  · cases hc
  · simp only [Bool.not_true, Bool.false_eq_true, if_false] at hc
    split at hc
    · cases hc
    · rename_i r' rest' hr
      split at hc
      · cases hc
      · injection hc with hc; injection hc with _ h2; injection h2 with h2 _
        subst h2
        exact KZG.randPoly_length (h + 1) draws r' rest' hr

/-- **KZG10, no RNG.** A hiding bound without an RNG is refused, never answered with an
unblinded commitment. -/
theorem kzg10_missing_rng (pw : KZG.Powers F) (p : List F) (h : Nat) (draws : List F) :
    (∃ e, KZG.commit pw p (some h) false draws = .error e) := by
  unfold KZG.commit
  split
  · exact ⟨_, rfl⟩
  · exact ⟨.missingRng, by simp⟩

/-- **KZG10, no hiding bound.** The commitment does not depend on the RNG and carries no
blinding. -/
theorem kzg10_nonhiding_deterministic (pw : KZG.Powers F) (p : List F) (rng₁ rng₂ : Bool)
    (d₁ d₂ : List F) :
    (KZG.commit pw p none rng₁ d₁).map (fun x => (x.1, x.2.1))
      = (KZG.commit pw p none rng₂ d₂).map (fun x => (x.1, x.2.1)) := by
  unfold KZG.commit
  split <;> rfl

/-- **KZG10, the proof's blinding field.** `random_v` equals the blinding polynomial's value at
the point (as a contribution to the equation; `None` when `r = 0`). -/
theorem kzg10_random_v (g γ β : F) (n m : Nat) (p r : List F) (z : F) (π : KZG.Proof F)
    (hr : (pnorm r).length ≤ m) (ho : KZG.open (KZG.wfPowers g γ β n m) p z r = .ok π) :
    KZG.rvVal π.rv = evalPoly r z := (KZG.open_spec g γ β n m p r z π hr ho).2

/-- **KZG10, injectivity in the randomness.** Two blinding polynomials give the same commitment
iff their difference vanishes at the trapdoor (`γ ≠ 0`). -/
theorem kzg10_commitments_differ (g γ β : F) (p r₁ r₂ : List F) (hγ : γ ≠ 0) :
    g * evalPoly p β + γ * evalPoly r₁ β = g * evalPoly p β + γ * evalPoly r₂ β
      ↔ evalPoly r₁ β = evalPoly r₂ β := by
  constructor
  · intro h
    have : γ * (evalPoly r₁ β - evalPoly r₂ β) = 0 := by linear_combination h
    rcases mul_eq_zero.1 this with h0 | h0
    · contradiction
    · exact sub_eq_zero.1 h0
  · intro h; rw [h]

/-- **The simulator's step of the hiding argument.** A blinding polynomial with `h+1` of its
`h+2` coefficients free already realises *every* view of `h` openings: for any committed `p`, any
target commitment `c⋆`, any `h` query points (pairwise distinct and different from the trapdoor)
and any claimed blinding values `tᵢ`, some blinding polynomial of length `h+1` gives exactly that
commitment and those `random_v` values.  Hence commitment and `h` opening proofs are jointly
independent of `p` when the blinding coefficients are uniform. -/
theorem kzg10_blinding_realises_any_view (g γ β : F) (hγ : γ ≠ 0) (p : List F) (h : Nat)
    (zs : Fin h → F) (hz : Function.Injective zs) (hβ : ∀ i, zs i ≠ β)
    (cstar : F) (ts : Fin h → F) :
    ∃ r : List F, r.length = h + 1 ∧ g * evalPoly p β + γ * evalPoly r β = cstar ∧
      ∀ i, evalPoly r (zs i) = ts i := by
  -- points: β first, then the query points; targets: (c⋆ − g·p(β))/γ, then the tᵢ
  let pts : Fin (h + 1) → F := Fin.cons β zs
  let vals : Fin (h + 1) → F := Fin.cons ((cstar - g * evalPoly p β) / γ) ts
  have hinj : Function.Injective pts := by
    intro a b
    refine Fin.cases ?_ (fun a' => ?_) a <;> refine Fin.cases ?_ (fun b' => ?_) b <;> intro hab
    · rfl
    · simp only [pts, Fin.cons_zero, Fin.cons_succ] at hab; exact absurd hab.symm (hβ b')
    · simp only [pts, Fin.cons_zero, Fin.cons_succ] at hab; exact absurd hab (hβ a')
    · simp only [pts, Fin.cons_succ] at hab; rw [hz hab]
  obtain ⟨r, hlen, hr⟩ := Interp.exists_poly_through pts vals hinj
  refine ⟨r, hlen, ?_, fun i => ?_⟩
  · have := hr 0
    simp only [pts, vals, Fin.cons_zero] at this
    rw [this]; field_simp; ring
  · have := hr i.succ
    simpa [pts, vals] using this

example : KZG.commit (KZG.wfPowers (3 : K) 5 2 3 4) [1, 2, 3] (some 1) true [7, 0, 9, 4]
    = .ok (64, [7, 0, 9], [4]) := by decide

end PCV.C07
