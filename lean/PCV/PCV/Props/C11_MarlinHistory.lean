/-
  Property C11 (MarlinKZG10) — lock-step over histories that mix `open`, `batch_open` and
  `open_combinations` on one sponge.  As in `Props/C11.lean` the transcript of the pairing schemes is
  the list of squeezed challenges; prover and verifier are in lock-step when they leave the same
  remainder after every operation.
-/
import PCV.Proofs.MarlinLCComplete
import PCV.Props.C11
import PCV.Props.C06_MarlinComplete
set_option linter.unusedSectionVars false

namespace PCV.C11
open PCV Marlin
variable {F : Type} [Field F] [DecidableEq F]

/-- one operation of a mixed history -/
inductive MOp (F : Type)
  | single (l : List (Trip F)) (z : F)
  | batch (l : List (Trip F)) (qs : List (Query F)) (evals : List ((Label × F) × F)) (rs : List F)
  | comb (l : List (Trip F)) (lcs : List (LC.LinComb F)) (qs : List (Query F))
      (evals : List ((Label × F) × F)) (rs : List F)
  deriving DecidableEq

/-- what the prover returns for one operation -/
inductive MProof (F : Type)
  | one (π : KZG.Proof F)
  | many (πs : List (KZG.Proof F))
  deriving DecidableEq

/-- `batch_check` together with the challenge stream it leaves (the model's `batchCheck` returns the
decision only; the stream is the one `combine_and_normalize` leaves) -/
def batchCheckS (vk : VK F) (comms : List (LComm F)) (qs : List (Query F))
    (evals : List ((Label × F) × F)) (πs : List (KZG.Proof F)) (ξs rs : List F) :
    Except Err (Bool × List F) :=
  match combineGroups vk comms evals (groupQueries qs) ξs with
  | .error e => .error e
  | .ok (_, rest) =>
    match batchCheck vk comms qs evals πs ξs rs with
    | .error e => .error e
    | .ok b => .ok (b, rest)

/-- `check_combinations` with the stream it leaves -/
def checkCombinationsS (vk : VK F) (comms : List (LComm F)) (lcs : List (LC.LinComb F))
    (qs : List (Query F)) (evals : List ((Label × F) × F)) (πs : List (KZG.Proof F))
    (ξs rs : List F) : Except Err (Bool × List F) :=
  match combineAllComm comms lcs with
  | .error e => .error e
  | .ok lcComms => batchCheckS vk lcComms qs (adjustEvals lcs evals) πs ξs rs

/-- `checkCombinationsS` decides what `check_combinations` decides -/
theorem checkCombinationsS_decision (vk : VK F) (comms : List (LComm F)) (lcs : List (LC.LinComb F))
    (qs : List (Query F)) (evals : List ((Label × F) × F)) (πs : List (KZG.Proof F))
    (ξs rs : List F) (b : Bool) (rest : List F)
    (h : checkCombinationsS vk comms lcs qs evals πs ξs rs = .ok (b, rest)) :
    checkCombinations vk comms lcs qs evals πs ξs rs = .ok b := by
  unfold checkCombinationsS at h
  unfold checkCombinations
  split at h
  · cases h
  · rename_i lcComms hc
    unfold batchCheckS at h
    split at h
    · cases h
    · split at h
      · cases h
      · rename_i b' hb
        injection h with h; injection h with h1 _
        rw [hc]
        simp only
        rw [hb, h1]

def proverStep (ck : CK F) : MOp F → List F → Except Err (MProof F × List F)
  | .single l z, ξs =>
    match Marlin.open ck (l.map (·.1)) z (l.map (·.2.1)) ξs with
    | .error e => .error e
    | .ok (π, r) => .ok (.one π, r)
  | .batch l qs _ _, ξs =>
    match batchOpen ck (l.map (·.1)) (l.map (·.2.1)) qs ξs with
    | .error e => .error e
    | .ok (πs, r) => .ok (.many πs, r)
  | .comb l lcs qs _ _, ξs =>
    match openCombinations ck (l.map (·.1)) (l.map (·.2.1)) (l.map (·.2.2)) lcs qs ξs with
    | .error e => .error e
    | .ok (πs, r) => .ok (.many πs, r)

def verifierStep (vk : VK F) : MOp F → MProof F → List F → Except Err (Bool × List F)
  | .single l z, .one π, ξs =>
    check vk (l.map (·.2.2)) z (l.map fun t => evalPoly t.1.poly z) π ξs
  | .batch l qs evals rs, .many πs, ξs => batchCheckS vk (l.map (·.2.2)) qs evals πs ξs rs
  | .comb l lcs qs evals rs, .many πs, ξs =>
    checkCombinationsS vk (l.map (·.2.2)) lcs qs evals πs ξs rs
  | _, _, _ => .error .abort

def proverRunM (ck : CK F) : List (MOp F) → List F → Except Err (List (MProof F) × List F)
  | [], ξs => .ok ([], ξs)
  | op :: ops, ξs =>
    match proverStep ck op ξs with
    | .error e => .error e
    | .ok (π, ξs') =>
      match proverRunM ck ops ξs' with
      | .error e => .error e
      | .ok (πs, rest) => .ok (π :: πs, rest)

def verifierRunM (vk : VK F) : List (MOp F) → List (MProof F) → List F → Except Err (Bool × List F)
  | [], _, ξs => .ok (true, ξs)
  | _ :: _, [], _ => .error .abort
  | op :: ops, π :: πs, ξs =>
    match verifierStep vk op π ξs with
    | .error e => .error e
    | .ok (b, ξs') =>
      match verifierRunM vk ops πs ξs' with
      | .error e => .error e
      | .ok (b', rest) => .ok (b && b', rest)

/-- the hypotheses under which one operation is an honest, truthful request -/
def MOpOk (ck : CK F) (g γ β : F) (D m : Nat) : MOp F → List F → Prop
  | .single l z, ξs =>
    (∀ t ∈ l, Honest g γ β D t ∧ RandLen m t) ∧
    (∀ acc r, openLoop ck z (l.map (·.1)) (l.map (·.2.1)) ξs ⟨[], [], [], [], [], false⟩ = .ok (acc, r) →
      isZeroPoly acc.r = true → evalPoly acc.sr z = 0)
  | .batch l qs evals _, ξs =>
    (∀ t ∈ l, Honest g γ β D t ∧ RandLen m t ∧ t.2.2.label = t.1.label) ∧
    (∀ gr ∈ groupQueries qs, ∀ lab ∈ gr.2.2, ∀ t, lookupT lab l none = some t →
      lookupEval evals lab gr.2.1 = some (evalPoly t.1.poly gr.2.1)) ∧
    GroupsND ck (l.map (·.1)) (l.map (·.2.1)) (groupQueries qs) ξs
  | .comb l lcs qs evals _, _ =>
    (∀ t ∈ l, (Honest g γ β D t ∧ t.1.bound = none) ∧ RandLen m t ∧ t.2.2.label = t.1.label) ∧
    (lcs.map (·.label)).Nodup ∧
    (∀ gr ∈ groupQueries qs, ∀ lc ∈ lcs, lc.label ∈ gr.2.2 →
      lookupEval evals lc.label gr.2.1 = some (lcPolyValue l gr.2.1 lc.terms + lcConstant lc))

theorem step_lockstep {ck : CK F} {vk : VK F} {g γ β h : F} {D n m : Nat}
    (hwf : WF ck vk g γ β h D n m) (op : MOp F) (ξs : List F) (hok : MOpOk ck g γ β D m op ξs)
    (π : MProof F) (rest : List F) (hp : proverStep ck op ξs = .ok (π, rest)) :
    verifierStep vk op π ξs = .ok (true, rest) := by
  cases op with
  | single l z =>
    simp only [proverStep] at hp
    split at hp
    · cases hp
    · rename_i π' r ho
      injection hp with hp; injection hp with h1 h2
      subst h1; subst h2
      obtain ⟨hh, hnd⟩ := hok
      exact open_check_complete hwf z l (fun t ht => (hh t ht).1) (fun t ht => (hh t ht).2) ξs π' r ho hnd
  | batch l qs evals rs =>
    simp only [proverStep] at hp
    split at hp
    · cases hp
    · rename_i πs r ho
      injection hp with hp; injection hp with h1 h2
      subst h1; subst h2
      obtain ⟨hh, hev, hnd⟩ := hok
      obtain ⟨trip, htrip, hlen, hdef⟩ := batchOpenGroups_accept hwf l (fun t ht => (hh t ht).1)
        (fun t ht => (hh t ht).2.1) (fun t ht => (hh t ht).2.2) evals (groupQueries qs) hev ξs πs r ho hnd
      simp only [verifierStep, batchCheckS, htrip,
        batchCheck_all_true vk (l.map (·.2.2)) qs evals πs ξs rs trip r htrip hlen hdef]
  | comb l lcs qs evals rs =>
    simp only [proverStep] at hp
    split at hp
    · cases hp
    · rename_i πs r ho
      injection hp with hp; injection hp with h1 h2
      subst h1; subst h2
      obtain ⟨hh, hnodup, hev⟩ := hok
      obtain ⟨lcComms, hcc, trip, htrip, hlen, hdef⟩ := lc_accept hwf l (fun t ht => (hh t ht).1)
        (fun t ht => (hh t ht).2.1) (fun t ht => (hh t ht).2.2) lcs hnodup qs evals hev ξs πs r ho
      simp only [verifierStep, checkCombinationsS, hcc, batchCheckS, htrip,
        batchCheck_all_true vk lcComms qs (adjustEvals lcs evals) πs ξs rs trip r htrip hlen hdef]

/-- the per-operation hypotheses along the prover's run (each at the stream state it meets) -/
def HistoryOk (ck : CK F) (g γ β : F) (D m : Nat) : List (MOp F) → List F → Prop
  | [], _ => True
  | op :: ops, ξs =>
    MOpOk ck g γ β D m op ξs ∧
    match proverStep ck op ξs with
    | .error _ => True
    | .ok (_, ξs') => HistoryOk ck g γ β D m ops ξs'

/-- **Lock-step over any mixed history.**  For every sequence of `open`, `batch_open` and
`open_combinations` operations on one challenge stream, each an honest and truthful request
(`HistoryOk`): if the prover answers them all, the verifier — running `check`, `batch_check`,
`check_combinations` in the same order on an identically initialised stream, with any randomizers of
its own — accepts every proof and ends with exactly the prover's remaining stream. -/
theorem marlin_mixed_history_lockstep {ck : CK F} {vk : VK F} {g γ β h : F} {D n m : Nat}
    (hwf : WF ck vk g γ β h D n m) (ops : List (MOp F)) (ξs : List F)
    (hok : HistoryOk ck g γ β D m ops ξs) (πs : List (MProof F)) (rest : List F)
    (hp : proverRunM ck ops ξs = .ok (πs, rest)) :
    verifierRunM vk ops πs ξs = .ok (true, rest) := by
  induction ops generalizing ξs πs rest with
  | nil =>
    simp only [proverRunM] at hp
    injection hp with hp; injection hp with h1 h2
    subst h1; subst h2; rfl
  | cons op ops ih =>
    simp only [proverRunM] at hp
    split at hp
    · cases hp
    · rename_i π ξs' ho
      split at hp
      · cases hp
      · rename_i πs' rest' hrec
        injection hp with hp; injection hp with h1 h2
        subst h1; subst h2
        obtain ⟨hok1, hok2⟩ := hok
        rw [ho] at hok2
        have hc := step_lockstep hwf op ξs hok1 π ξs' ho
        have hrest := ih ξs' hok2 πs' rest' hrec
        simp only [verifierRunM, hc, hrest, Bool.and_self]

/-- non-vacuity: a history `open ; batch_open ; open_combinations` over the example of C01/C06 runs
through on the stream `[11,13,17,19,23,29,31,37,41]` and is accepted in lock-step -/
def exHistory : List (MOp K) :=
  [.single (C01.exBatch.take 1) 5,
   .batch C01.exBatch C01.exQueries
     [(([97], 5), evalPoly [1, 2, 3] 5), (([98], 5), evalPoly [4, 0, 1] 5), (([98], 9), evalPoly [4, 0, 1] 9)] [29],
   .comb C01.exBatch C06.exLCs C06.exLCQueries C06.exLCEvals [3]]
example : ∃ πs rest, proverRunM C01.exCK exHistory [11, 13, 17, 19, 23, 29, 31, 37, 41] = .ok (πs, rest) ∧
    verifierRunM C01.exVK exHistory πs [11, 13, 17, 19, 23, 29, 31, 37, 41] = .ok (true, rest) ∧
    rest = [37, 41] := by
  refine ⟨[.one ⟨52, none⟩, .many [⟨42, none⟩, ⟨21, none⟩], .many [⟨68, none⟩, ⟨33, none⟩]], [37, 41], ?_, ?_, rfl⟩ <;> decide

end PCV.C11
