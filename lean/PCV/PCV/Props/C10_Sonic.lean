/-
  Property C10 — the SonicKZG10 verifier decides exactly the published verification relation.
-/
import PCV.Proofs.SonicExamples

namespace PCV.C10
open PCV PCV.Sonic
open PCV.Marlin (Label LPoly Query)
variable {F : Type} [Field F] [DecidableEq F]

/-- The SonicKZG10 verification relation, written from the paper (AuroraLight-style degree
enforcement on top of KZG10) with the code's challenge schedule `ξ₀, ξ₁, …` (one per commitment):
`∏_b e(Σ_{j : bⱼ = b} ξⱼ·Cⱼ, β^{-(D-b)}·H) = e((Σⱼ ξⱼvⱼ)·G − z·W + rv·γG, H) · e(W, βH)`
where unbounded commitments pair with `H`; every bound label must have its G2 element in the key.
In exponent form: -/
def SonicRelation (vk : VK F) (cs : List (LComm F)) (z : F) (vs : List F) (π : KZG.Proof F)
    (ξs : List F) : Prop :=
  boundsOk vk.shiftOf cs vs ξs = true ∧
  linC vk.shiftD cs vs ξs
    = (vk.g * linV cs vs ξs - π.w * z + KZG.rvVal π.rv * vk.gammaG) * vk.h + π.w * vk.betaH

/-- **`check` returns success exactly when the relation holds** — for every verifier key and every
transcript, honest or not (`hξ`: the sponge supplies the `1 + n` challenges). -/
theorem sonic_check_iff_relation (vk : VK F) (cs : List (LComm F)) (z : F) (vs : List F)
    (π : KZG.Proof F) (ξs rest : List F) (hξ : restOf cs vs ξs = some rest) :
    check vk cs z vs π ξs = .ok (true, rest) ↔ SonicRelation vk cs z vs π ξs := by
  rw [check_true_iff]
  unfold SonicRelation defect
  constructor
  · intro ⟨_, h2, h3⟩; exact ⟨h2, by linear_combination h3⟩
  · intro ⟨h2, h3⟩; exact ⟨hξ, h2, by linear_combination h3⟩

/-- … and never when it fails: the answer is then `false` or a refusal -/
theorem sonic_check_not_relation (vk : VK F) (cs : List (LComm F)) (z : F) (vs : List F)
    (π : KZG.Proof F) (ξs : List F) (hn : ¬ SonicRelation vk cs z vs π ξs) (r : List F) :
    check vk cs z vs π ξs ≠ .ok (true, r) := by
  intro h
  have h' := (check_true_iff _ _ _ _ _ _ _).1 h
  exact hn ((sonic_check_iff_relation vk cs z vs π ξs r h'.1).1 h)

/-- honest proofs satisfy the relation -/
theorem sonic_honest_satisfies (g γ β bi h : F) (hb : β * bi = 1) (D s shb : Nat)
    (bounds : Option (List Nat)) (ck : CK F) (vk : VK F)
    (ht : trim (wfPP g γ β bi h D) s shb bounds = .ok (ck, vk))
    (ps : List (LPoly F)) (rng : Bool) (draws : List F) (cs : List (LComm F)) (rs : List (List F))
    (drest : List F) (hc : commit ck ps rng draws = .ok (cs, rs, drest))
    (z : F) (ξs : List F) (π : KZG.Proof F) (rest : List F)
    (ho : Sonic.open ck ps z rs ξs = .ok (π, rest)) :
    SonicRelation vk cs z (ps.map fun p => evalPoly p.poly z) π ξs := by
  have := open_check_complete g γ β bi h hb D s shb bounds ck vk ht cs ps rs
    (commit_honest g γ β bi h hb D s shb bounds ck vk ht ps rng draws cs rs drest hc) z ξs π rest ho
  exact (sonic_check_iff_relation vk cs z _ π ξs rest ((check_true_iff _ _ _ _ _ _ _).1 this).1).1 this

/-- **Every component the relation mentions influences the decision**: from an accepting transcript,
changing exactly one of witness / `random_v` / point / one value / one commitment (with the stated
non-degeneracy) is no longer accepted. -/
theorem sonic_each_component_matters (vk : VK F) (cs : List (LComm F)) (z : F) (vs : List F)
    (w rv : F) (ξs rest : List F) (d : F) (hd : d ≠ 0)
    (hacc : check vk cs z vs ⟨w, some rv⟩ ξs = .ok (true, rest)) :
    (vk.betaH - z * vk.h ≠ 0 → check vk cs z vs ⟨w + d, some rv⟩ ξs ≠ .ok (true, rest)) ∧
    (vk.gammaG * vk.h ≠ 0 → check vk cs z vs ⟨w, some (rv + d)⟩ ξs ≠ .ok (true, rest)) ∧
    (w * vk.h ≠ 0 → check vk cs (z + d) vs ⟨w, some rv⟩ ξs ≠ .ok (true, rest)) ∧
    (∀ j, j < vs.length → vk.g * vk.h * valTerm d j cs ξs ≠ 0 →
      check vk cs z (addVals vs (spike j d vs.length)) ⟨w, some rv⟩ ξs ≠ .ok (true, rest)) ∧
    (∀ j, j < cs.length → commTerm vk.shiftD d j cs vs ξs ≠ 0 →
      check vk (addComms cs (spike j d cs.length)) z vs ⟨w, some rv⟩ ξs ≠ .ok (true, rest)) := by
  rw [check_true_iff] at hacc
  obtain ⟨h1, h2, h3⟩ := hacc
  refine ⟨?_, ?_, ?_, ?_, ?_⟩
  · intro hne hc
    have h3' := ((check_true_iff _ _ _ _ _ _ _).1 hc).2.2
    unfold defect at h3 h3'
    simp only [KZG.rvVal] at h3 h3'
    have : d * (vk.betaH - z * vk.h) = 0 := by linear_combination h3 - h3'
    rcases mul_eq_zero.1 this with h0 | h0
    · exact hd h0
    · exact hne h0
  · intro hne hc
    have h3' := ((check_true_iff _ _ _ _ _ _ _).1 hc).2.2
    unfold defect at h3 h3'
    simp only [KZG.rvVal] at h3 h3'
    have : d * (vk.gammaG * vk.h) = 0 := by linear_combination h3 - h3'
    rcases mul_eq_zero.1 this with h0 | h0
    · exact hd h0
    · exact hne h0
  · intro hne hc
    have h3' := ((check_true_iff _ _ _ _ _ _ _).1 hc).2.2
    unfold defect at h3 h3'
    simp only [KZG.rvVal] at h3 h3'
    have : d * (w * vk.h) = 0 := by linear_combination h3' - h3
    rcases mul_eq_zero.1 this with h0 | h0
    · exact hd h0
    · exact hne h0
  · intro j hj hne hc
    have h3' := ((check_true_iff _ _ _ _ _ _ _).1 hc).2.2
    have hp := defect_perturb vk cs z vs ⟨w, some rv⟩ ξs (List.replicate cs.length 0)
      (spike j d vs.length) 0 (by simp) (spike_length _ _ _)
    rw [addComms_zero, add_zero, linC_zero, linV_spike d j cs vs.length ξs hj, h3] at hp
    rw [hp] at h3'
    apply hne
    linear_combination -h3'
  · intro j hj hne hc
    have h3' := ((check_true_iff _ _ _ _ _ _ _).1 hc).2.2
    have hp := defect_perturb vk cs z vs ⟨w, some rv⟩ ξs (spike j d cs.length)
      (List.replicate vs.length 0) 0 (spike_length _ _ _) (by simp)
    rw [addVals_zero, add_zero, linV_zero, linC_spike _ d j cs cs.length vs ξs hj, h3] at hp
    rw [hp] at h3'
    apply hne
    linear_combination h3'

/-- non-vacuity: the concrete honest transcript is accepting, the relation's side conditions hold on
it, and the executable model verifier is the independent implementation the harness compares with -/
example : check Ex.vk Ex.comms 5 Ex.vals ⟨3, some 27⟩ Ex.xis = .ok (true, [23]) ∧
    restOf Ex.comms Ex.vals Ex.xis = some [23] ∧
    Ex.vk.betaH - 5 * Ex.vk.h ≠ 0 ∧ Ex.vk.gammaG * Ex.vk.h ≠ 0 ∧ (3 : K) * Ex.vk.h ≠ 0 ∧
    Ex.vk.g * Ex.vk.h * valTerm (1 : K) 1 Ex.comms Ex.xis ≠ 0 ∧
    commTerm Ex.vk.shiftD (1 : K) 0 Ex.comms Ex.vals Ex.xis ≠ 0 := by decide
example : check Ex.vk Ex.comms 5 Ex.vals ⟨3 + 1, some 27⟩ Ex.xis = .ok (false, [23]) ∧
    check Ex.vk Ex.comms 5 Ex.vals ⟨3, some (27 + 1)⟩ Ex.xis = .ok (false, [23]) := by decide

end PCV.C10
