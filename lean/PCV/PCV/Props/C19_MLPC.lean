/-
  Property C19 (multilinear PST) — succinctness: one G1 element per commitment, exactly one G2
  element per variable in a proof, independent of the `2^nv` evaluations.
-/
import PCV.Proofs.MLPCProps
import PCV.Props.Examples

namespace PCV.C19
open PCV
set_option linter.unusedSectionVars false
variable {F : Type} [Field F] [DecidableEq F]

/-- **Proof shape.**  Whatever key, polynomial and point: a proof returned by `open` has exactly
`nv` (G2) elements. -/
theorem mlpc_proof_length (ck : MLPC.CK F) (nv : Nat) (evals z πs : List F)
    (h : MLPC.open ck nv evals z = .ok πs) : πs.length = nv := MLPC.open_length ck nv evals z πs h

/-- on a well-formed key the proof is `[h·q̃ᵢ(t_{>i})]_{i<nv}` — `nv` elements -/
theorem mlpc_honest_proof_length (h : F) (t z evals : List F) (hz : t.length ≤ z.length) :
    (MLPC.proofSpec h t z evals).length = t.length := MLPC.proofSpec_length h t z evals hz

/-- **Only proofs of that shape are ever decided**: a decision (`true` or `false`) implies
`proofs.length = vk.nv`. -/
theorem mlpc_decided_proof_length (vk : MLPC.VK F) (c : MLPC.Commitment F) (z : List F) (v : F)
    (πs : List F) (b : Bool) (h : MLPC.check vk c z v πs = .ok b) : πs.length = vk.nv := by
  by_contra hne
  rw [MLPC.check_proof_length vk c z v πs hne] at h
  cases h

/-- **Commitment shape**: one group element and the variable count, whatever the polynomial — the
same for `2^nv` evaluations as for 2. -/
theorem mlpc_commitment_shape (ck : MLPC.CK F) (nv : Nat) (evals : List F) (c : MLPC.Commitment F)
    (h : MLPC.commit ck nv evals = .ok c) : c = ⟨nv, c.gProduct⟩ := by
  unfold MLPC.commit at h
  split at h
  · cases h
  · split at h
    · cases h
    · cases h; rfl

/-- proof size in group elements as a function of the polynomial size `N = 2^nv`: `log₂ N` -/
theorem mlpc_proof_size_log (ck : MLPC.CK F) (nv : Nat) (evals z πs : List F)
    (h : MLPC.open ck nv evals z = .ok πs) : 2 ^ πs.length = evals.length := by
  have hl := MLPC.open_length ck nv evals z πs h
  unfold MLPC.open at h
  split at h
  · cases h
  · split at h
    · cases h
    · split at h
      · cases h
      · rename_i _ _ he
        rw [hl]; exact (Decidable.not_not.1 he).symm

example : MLPC.open (MLPC.wfCK (5 : K) 11 [7, 20]) 2 [1, 2, 3, 50] [8, 13] = .ok [31, 30] := by decide

end PCV.C19
