/-
  Property C07 (SonicKZG10) — hiding commitments are blinded with fresh, sufficient randomness.
  Sonic commits a (possibly degree-bounded) polynomial with ONE KZG10 commitment under the powers
  selected by the bound; the blinding polynomial comes from the caller's RNG draws.
-/
import PCV.Proofs.SonicExamples
import PCV.Props.C07_Marlin
set_option linter.unusedSectionVars false

namespace PCV.C07
open PCV PCV.Sonic
open PCV.Marlin (LPoly)
variable {F : Type} [Field F] [DecidableEq F]

/-- what `KZG.commit` returns on success with a hiding bound: plain part + blinding under `gg` -/
theorem kzg10_commit_value (pw : KZG.Powers F) (p : List F) (h : Nat) (draws : List F)
    (c : F) (r rest : List F) (hc : KZG.commit pw p (some h) true draws = .ok (c, r, rest)) :
    c = KZG.msmSkip pw.g p + dot pw.gg r := by
  unfold KZG.commit at hc
  split at hc
  · cases hc
  · simp only [Bool.not_true, Bool.false_eq_true, if_false] at hc
    split at hc
    · cases hc
    · split at hc
      · cases hc
      · injection hc with hc; injection hc with h1 h2; injection h2 with h2 h3
        subst h2; exact h1.symm

/-- **Sonic hiding structure.** A hiding commitment (bound `h`) is the non-hiding commitment under
the powers selected by the degree bound plus the blinding term under the matching hiding generators;
the blinding polynomial is `h+2` coefficients taken from the front of the caller's draws with a
non-zero top coefficient, and the unused draws are handed on. -/
theorem sonic_hiding_structure (ck : CK F) (p : LPoly F) (h : Nat) (draws : List F)
    (c : F) (r rest : List F) (hh : p.hb = some h)
    (hc : commitOne ck p true draws = .ok (c, r, rest)) :
    ∃ pw, powersFor ck p.bound = .ok pw ∧
      c = KZG.msmSkip pw.g p.poly + dot pw.gg r ∧
      KZG.randPoly (h + 1) draws = some (r, rest) ∧
      r.length = h + 2 ∧ r.getLast? ≠ some 0 ∧ r.take (h + 1) = draws.take (h + 1) := by
  unfold commitOne at hc
  split at hc
  · cases hc
  · split at hc
    · cases hc
    · rename_i pw hpw
      split at hc
      · cases hc
      · split at hc
        · cases hc
        · rw [hh] at hc
          have h1 := kzg10_commit_draws _ _ _ _ _ _ _ hc
          obtain ⟨l1, n1, t1⟩ := KZG.randPoly_length _ _ _ _ h1
          exact ⟨pw, hpw, kzg10_commit_value _ _ _ _ _ _ _ hc, h1, l1, n1, t1⟩

/-- without an RNG a hiding commit never returns a commitment -/
theorem sonic_missing_rng (ck : CK F) (p : LPoly F) (h : Nat) (draws : List F) (hh : p.hb = some h) :
    ∀ x, commitOne ck p false draws ≠ .ok x := by
  intro x hc
  unfold commitOne at hc
  split at hc
  · cases hc
  · split at hc
    · cases hc
    · split at hc
      · cases hc
      · rw [hh] at hc
        simp at hc

/-- without a hiding bound the commitment is the plain key-defined sum, carries no blinding, and
does not touch the RNG (so it is the same with or without one) -/
theorem sonic_nonhiding_deterministic (ck : CK F) (p : LPoly F) (rng : Bool) (draws : List F)
    (c : F) (r rest : List F) (hh : p.hb = none)
    (hc : commitOne ck p rng draws = .ok (c, r, rest)) :
    ∃ pw, powersFor ck p.bound = .ok pw ∧ c = KZG.msmSkip pw.g p.poly ∧ r = [] ∧ rest = draws := by
  unfold commitOne at hc
  split at hc
  · cases hc
  · split at hc
    · cases hc
    · rename_i pw hpw
      split at hc
      · cases hc
      · rw [hh] at hc
        simp only [Option.isSome_none, Bool.false_eq_true, false_and, if_false] at hc
        unfold KZG.commit at hc
        split at hc
        · cases hc
        · simp only at hc
          injection hc with hc; injection hc with h1 h2; injection h2 with h2 h3
          exact ⟨pw, hpw, h1.symm, h2.symm, h3.symm⟩

/-- different blinding polynomials give different commitments unless they agree under the hiding
generators: for keys from `setup` (`gg = powers γ β`) two commitments to the same polynomial coincide
iff `γ·(r₁ - r₂)(β) = 0` — for `γ ≠ 0` and independent streams an event of probability ≤ (h+1)/|F| -/
theorem sonic_commitments_differ (pw : KZG.Powers F) (p r₁ r₂ : List F)
    (hne : dot pw.gg r₁ ≠ dot pw.gg r₂) :
    KZG.msmSkip pw.g p + dot pw.gg r₁ ≠ KZG.msmSkip pw.g p + dot pw.gg r₂ := by
  intro h; exact hne (add_left_cancel h)

/-! non-vacuity: the bounded hiding polynomial of the worked example -/
example : commitOne Ex.ck ⟨[112, 48], [1, 2, 3], some 3, some 1⟩ true [7, 0, 9, 4]
    = .ok (27, [7, 0, 9], [4]) := by decide
example : commitOne Ex.ck ⟨[112, 49], [4, 0, 1], none, none⟩ false [7, 0, 9, 4]
    = .ok (24, [], [7, 0, 9, 4]) := by decide

end PCV.C07
