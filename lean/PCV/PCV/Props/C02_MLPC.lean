/-
  Property C02 (multilinear PST) — evaluation binding with the honest proof: the exact acceptance
  condition of any changed statement, and rejection of a wrong value / commitment / point.
-/
import PCV.Proofs.MLPCProps
import PCV.Props.Examples

namespace PCV.C02
open PCV
set_option linter.unusedSectionVars false
variable {F : Type} [Field F] [DecidableEq F]

/-- **Multilinear PST, exact acceptance condition.**  Key of trapdoor `t` (any generators `g, h`),
honest commitment `g·f̃(t)` and honest proof `π` for `(f, z)`.  The verifier accepts the statement
(commitment `+ dc`, point `z + dz`, value `f̃(z) + dv`) iff `h·(dc − g·dv) + g·⟨dz, π⟩ = 0`. -/
theorem mlpc_check_iff (g h : F) (t z dz evals : List F) (dc dv : F) (n' : Nat)
    (hz : z.length = t.length) (hdz : dz.length = t.length) (he : evals.length = 2 ^ t.length) :
    MLPC.check (MLPC.wfVK g h t) ⟨n', g * MLPC.mleEval evals t + dc⟩ (List.zipWith (· + ·) z dz)
        (MLPC.mleEval evals z + dv) (MLPC.proofSpec h t z evals) = .ok true
      ↔ h * (dc - g * dv) + g * dot dz (MLPC.proofSpec h t z evals) = 0 :=
  MLPC.check_honest_iff g h t z dz evals dc dv n' hz hdz he

/-- `proofSpec` is what the prover returns (so the theorems above speak about `open`'s output) -/
theorem mlpc_open_is_proofSpec (g h : F) (t evals z : List F) (hz : z.length = t.length)
    (he : evals.length = 2 ^ t.length) :
    MLPC.open (MLPC.wfCK g h t) t.length evals z = .ok (MLPC.proofSpec h t z evals) :=
  MLPC.open_wf g h t evals z hz he

/-- **Wrong value.**  Any claimed value other than `f̃(z)` is rejected, given `g, h ≠ 0`. -/
theorem mlpc_wrong_value_rejected (g h : F) (t z evals : List F) (dv : F) (n' : Nat)
    (hz : z.length = t.length) (he : evals.length = 2 ^ t.length)
    (hdv : dv ≠ 0) (hg : g ≠ 0) (hh : h ≠ 0) :
    MLPC.check (MLPC.wfVK g h t) ⟨n', g * MLPC.mleEval evals t⟩ z (MLPC.mleEval evals z + dv)
        (MLPC.proofSpec h t z evals) = .ok false := by
  have hd := MLPC.honest_defect g h t z (List.replicate z.length 0) evals 0 dv n' hz
    (by simp [hz]) he
  simp only [add_zero, MLPC.zipWith_add_zero, MLPC.dot_replicate_zero, mul_zero, zero_sub] at hd
  rw [MLPC.check_ok_decide _ _ _ _ _ (by simp [MLPC.wfVK, hz]) (by simp [MLPC.wfVK])
    (by rw [MLPC.proofSpec_length h t z evals (by omega)]; rfl), hd]
  simp [hdv, hg, hh]

/-- **Wrong commitment.**  Any other commitment `C + dc`, `dc ≠ 0`, is rejected, given `h ≠ 0` —
in particular the commitment of a polynomial `q` with `q̃(t) ≠ f̃(t)`. -/
theorem mlpc_wrong_commitment_rejected (g h : F) (t z evals : List F) (dc : F) (n' : Nat)
    (hz : z.length = t.length) (he : evals.length = 2 ^ t.length) (hdc : dc ≠ 0) (hh : h ≠ 0) :
    MLPC.check (MLPC.wfVK g h t) ⟨n', g * MLPC.mleEval evals t + dc⟩ z (MLPC.mleEval evals z)
        (MLPC.proofSpec h t z evals) = .ok false := by
  have hd := MLPC.honest_defect g h t z (List.replicate z.length 0) evals dc 0 n' hz
    (by simp [hz]) he
  simp only [add_zero, MLPC.zipWith_add_zero, MLPC.dot_replicate_zero, mul_zero, sub_zero] at hd
  rw [MLPC.check_ok_decide _ _ _ _ _ (by simp [MLPC.wfVK, hz]) (by simp [MLPC.wfVK])
    (by rw [MLPC.proofSpec_length h t z evals (by omega)]; rfl), hd]
  simp [hdc, hh]

/-- **Wrong point.**  The proof for `z` is rejected at `z + dz` (same value, same commitment) unless
`g·⟨dz, π⟩ = 0`. -/
theorem mlpc_wrong_point_rejected (g h : F) (t z dz evals : List F) (n' : Nat)
    (hz : z.length = t.length) (hdz : dz.length = t.length) (he : evals.length = 2 ^ t.length)
    (hg : g ≠ 0) (hw : dot dz (MLPC.proofSpec h t z evals) ≠ 0) :
    MLPC.check (MLPC.wfVK g h t) ⟨n', g * MLPC.mleEval evals t⟩ (List.zipWith (· + ·) z dz)
        (MLPC.mleEval evals z) (MLPC.proofSpec h t z evals) = .ok false := by
  have hd := MLPC.honest_defect g h t z dz evals 0 0 n' hz hdz he
  simp only [add_zero, mul_zero, sub_zero, zero_add] at hd
  rw [MLPC.check_ok_decide _ _ _ _ _ (by simp [MLPC.wfVK, hz, hdz]) (by simp [MLPC.wfVK])
    (by rw [MLPC.proofSpec_length h t z evals (by omega)]; rfl), hd]
  simp [hg, hw]

/-- **One coordinate changed.**  Moving coordinate `i` of the point by `d` gives the defect
`g·d·πᵢ`: rejected exactly when `g ≠ 0`, `d ≠ 0` and the `i`-th quotient commitment is not the
identity (it is the identity iff `q̃ᵢ(t_{>i}) = 0`, e.g. when `f` does not depend on variable `i`,
in which case the changed statement is true). -/
theorem mlpc_one_coordinate (g h : F) (t z evals : List F) (i : Nat) (d : F) (n' : Nat)
    (hz : z.length = t.length) (he : evals.length = 2 ^ t.length) (hi : i < t.length) :
    MLPC.check (MLPC.wfVK g h t) ⟨n', g * MLPC.mleEval evals t⟩
        (List.zipWith (· + ·) z ((List.replicate t.length (0 : F)).set i d))
        (MLPC.mleEval evals z) (MLPC.proofSpec h t z evals) = .ok true
      ↔ g * (d * (MLPC.proofSpec h t z evals)[i]'(by
          rw [MLPC.proofSpec_length h t z evals (by omega)]; exact hi)) = 0 := by
  have := mlpc_check_iff g h t z ((List.replicate t.length (0 : F)).set i d) evals 0 0 n' hz
    (by simp) he
  simp only [add_zero, mul_zero, sub_zero, zero_add] at this
  rw [this, MLPC.dot_unit t.length i d _ hi]

/-- non-vacuity (`ZMod 101`, key of trapdoor `[7, 20]`, `f = [1,2,3,50]`, `z = [8,13]`): the
honest transcript with value + 1, commitment + 1, or first coordinate + 1 is rejected in the model,
and the hypotheses of the three rejection theorems hold. -/
example : MLPC.proofSpec (11 : K) [7, 20] [8, 13] [1, 2, 3, 50] = [31, 30]
    ∧ (5 : K) * MLPC.mleEval [1, 2, 3, 50] [7, 20] = 19 ∧ MLPC.mleEval ([1, 2, 3, 50] : List K) [8, 13] = 72
    ∧ (5 : K) ≠ 0 ∧ (11 : K) ≠ 0 ∧ dot ([1, 0] : List K) [31, 30] ≠ 0 := by decide
example : MLPC.check (MLPC.wfVK (5 : K) 11 [7, 20]) ⟨2, 19⟩ [8, 13] (72 + 1) [31, 30] = .ok false := by
  decide
example : MLPC.check (MLPC.wfVK (5 : K) 11 [7, 20]) ⟨2, 19 + 1⟩ [8, 13] 72 [31, 30] = .ok false := by
  decide
example : MLPC.check (MLPC.wfVK (5 : K) 11 [7, 20]) ⟨2, 19⟩ [8 + 1, 13] 72 [31, 30] = .ok false := by
  decide

end PCV.C02
