/-
  Property C03 — no crafted or malformed proof proves a false claim: MarlinPST13, the SHAPE of the
  proof.  A PST13 evaluation proof is a list of witness elements — exactly one per variable of the
  key — and an optional field element.  `check` and `batch_check` refuse
  (`IncorrectInputLength`) every proof whose witness list has another length, before any pairing;
  `batch_check` aborts on a proof list whose length differs from the number of point labels.  For
  proofs of the right shape the verifier's decision is the vanishing of an explicit defect, which a
  replaced witness element or `random_v` moves by a stated non-zero amount.

  (History: before /repo commit e3c5fb6 `batch_check` folded a surplus witness element into the
  commitment side with weight `z[num_vars]`; with a query point carrying a surplus coordinate the
  element `(ξ·δ/z[nv])·g`, computable from public data, proved the false value `v + δ`.  The harness
  keeps that forgery as a permanent negative case: `C03/pst13/*/extend-public-forge`.)
-/
import PCV.Proofs.PST13More
import PCV.Props.Examples

set_option synthInstance.maxSize 512
set_option linter.unusedSectionVars false
set_option linter.unusedVariables false

namespace PCV.C03
open PCV PCV.MV
variable {F : Type} [Field F] [DecidableEq F]

/-! ### the witness list must have one element per variable -/

/-- **`check`: wrong witness count ⇒ `IncorrectInputLength`**, unconditionally — arbitrary key,
commitments, point, values, challenges; shorter and longer lists alike. -/
theorem pst13_check_wrong_witness_count (vk : PST.VK F) (cs z vs : List F) (π : PST.Proof F)
    (ξs : List F) (h : π.w.length ≠ vk.numVars) :
    PST.check vk cs z vs π ξs = .error .incorrectInputLength :=
  PST.check_wrong_length vk cs z vs π ξs h

/-- **`check` answers only proofs with exactly `num_vars` witnesses** (that fit the key and the
point), and then the answer is whether the pairing defect of that very proof vanishes. -/
theorem pst13_check_answers_exact_shape (vk : PST.VK F) (cs z vs : List F) (π : PST.Proof F)
    (ξs : List F) (b : Bool) (h : PST.check vk cs z vs π ξs = .ok b) :
    π.w.length = vk.numVars ∧ ∃ a, PST.accumulate 0 0 cs vs ξs = .ok a
      ∧ π.w.length ≤ vk.betaH.length ∧ π.w.length ≤ z.length
      ∧ b = decide (PST.defectCombined vk a.1 a.2.1 z π = 0) :=
  PST.check_ok_inv vk cs z vs π ξs b h

/-- **`batch_check`: a proof list of the wrong length aborts** (fix c2c0afc), **a proof with a wrong
witness count anywhere in the list ⇒ `IncorrectInputLength`** (fix e3c5fb6). -/
theorem pst13_batch_wrong_shape (vk : PST.VK F) (cs : List F) (zs : List (List F)) (vs : List F)
    (πs : List (PST.Proof F)) (rs : List F) :
    (πs.length ≠ zs.length → PST.batchCheck vk cs zs vs πs rs = .error .abort) ∧
    (πs.length = zs.length → ∀ π ∈ πs, π.w.length ≠ vk.numVars →
      PST.batchCheck vk cs zs vs πs rs = .error .incorrectInputLength) := by
  constructor
  · intro h
    unfold PST.batchCheck
    rw [PST.batchDefect_wrong_count vk cs zs vs πs rs h]
  · intro hl π hπ hw
    unfold PST.batchCheck
    rw [PST.batchDefect_wrong_witness_count vk cs zs vs πs rs hl π hπ hw]

/-- **`batch_check` answers only well-shaped proof lists**: one proof per point label, each with
one witness per key variable — and then (C05) its pairing product is `Σ ρₖ·Δₖ` of the individual
defects. -/
theorem pst13_batch_answers_exact_shape (vk : PST.VK F) (cs : List F) (zs : List (List F))
    (vs : List F) (πs : List (PST.Proof F)) (rs : List F) (b : Bool)
    (h : PST.batchCheck vk cs zs vs πs rs = .ok b) :
    πs.length = zs.length ∧ ∀ π ∈ πs, π.w.length = vk.numVars :=
  PST.batchCheck_ok_inv vk cs zs vs πs rs b h

/-! ### a replaced component moves the defect -/

/-- **A replaced witness element**: `Wⱼ ↦ Wⱼ + δ` moves the defect by `−δ·(βⱼh − zⱼ·h)`. -/
theorem pst13_replaced_witness_defect (vk : PST.VK F) (C V : F) (z pre post : List F) (x δ : F)
    (rv : Option F) :
    PST.defectCombined vk C V z ⟨pre ++ (x + δ) :: post, rv⟩
      = PST.defectCombined vk C V z ⟨pre ++ x :: post, rv⟩
        - δ * (getD' vk.betaH pre.length 0 - vk.h * getD' z pre.length 0) :=
  PST.defect_witness_shift vk C V z pre post x δ rv

/-- **… and is therefore rejected**: if the claim is accepted with the proof `(…, Wⱼ, …)`, the same
claim with `Wⱼ + δ` in its place is rejected whenever `δ·(βⱼh − zⱼ·h) ≠ 0`. -/
theorem pst13_replaced_witness_rejected (vk : PST.VK F) (cs z vs : List F) (pre post : List F)
    (x δ : F) (rv : Option F) (ξs : List F)
    (hacc : PST.check vk cs z vs ⟨pre ++ x :: post, rv⟩ ξs = .ok true)
    (hne : δ * (getD' vk.betaH pre.length 0 - vk.h * getD' z pre.length 0) ≠ 0) :
    PST.check vk cs z vs ⟨pre ++ (x + δ) :: post, rv⟩ ξs = .ok false := by
  obtain ⟨a, ha, hb, hc⟩ := PST.check_same_acc vk cs z vs ⟨pre ++ x :: post, rv⟩
    ⟨pre ++ (x + δ) :: post, rv⟩ ξs true hacc (by simp)
  rw [hc, PST.defect_witness_shift]
  have h0 : PST.defectCombined vk a.1 a.2.1 z ⟨pre ++ x :: post, rv⟩ = 0 := by
    simpa using hb.symm
  rw [h0]
  congr 1
  rw [decide_eq_false_iff_not]
  intro hx
  apply hne
  linear_combination -hx

/-- **A changed or dropped `random_v`**: `rv + δ` moves the defect by `−γ·δ·h`, dropping `Some rv`
by `+γ·rv·h`. -/
theorem pst13_random_v_defect (vk : PST.VK F) (C V : F) (z w : List F) (x δ : F) :
    PST.defectCombined vk C V z ⟨w, some (x + δ)⟩
        = PST.defectCombined vk C V z ⟨w, some x⟩ - vk.gammaG * δ * vk.h
      ∧ PST.defectCombined vk C V z ⟨w, none⟩
        = PST.defectCombined vk C V z ⟨w, some x⟩ + vk.gammaG * x * vk.h :=
  PST.defect_rv_shift vk C V z w x δ

theorem pst13_changed_random_v_rejected (vk : PST.VK F) (cs z vs w : List F) (x δ : F)
    (ξs : List F) (hacc : PST.check vk cs z vs ⟨w, some x⟩ ξs = .ok true)
    (hne : vk.gammaG * δ * vk.h ≠ 0) :
    PST.check vk cs z vs ⟨w, some (x + δ)⟩ ξs = .ok false := by
  obtain ⟨a, ha, hb, hc⟩ := PST.check_same_acc vk cs z vs ⟨w, some x⟩ ⟨w, some (x + δ)⟩ ξs true
    hacc rfl
  rw [hc, (PST.defect_rv_shift vk a.1 a.2.1 z w x δ).1]
  have h0 : PST.defectCombined vk a.1 a.2.1 z ⟨w, some x⟩ = 0 := by simpa using hb.symm
  rw [h0]
  congr 1
  rw [decide_eq_false_iff_not]
  intro hx
  apply hne
  linear_combination -hx

/-! ### non-vacuity over `ZMod 101`

The accepted claim of the C01/C02 examples (two variables, commitment `27`, value `3` at `(10,20)`,
challenge `13`, proof `⟨[10, 66], some 93⟩`) with every shape of proof. -/

example : PST.check (PST.wfVK (3 : K) 5 11 [2, 7] 2 2 2) [27] [10, 20] [3] ⟨[10, 66], some 93⟩ [13]
    = .ok true := by decide
/-- truncated and extended witness lists (also at a point with a surplus coordinate): refused -/
example : PST.check (PST.wfVK (3 : K) 5 11 [2, 7] 2 2 2) [27] [10, 20] [3] ⟨[10], some 93⟩ [13]
    = .error .incorrectInputLength := by decide
example : PST.check (PST.wfVK (3 : K) 5 11 [2, 7] 2 2 2) [27] [10, 20] [3] ⟨[], some 93⟩ [13]
    = .error .incorrectInputLength := by decide
example : PST.check (PST.wfVK (3 : K) 5 11 [2, 7] 2 2 2) [27] [10, 20, 9] [3] ⟨[10, 66, 0], some 93⟩ [13]
    = .error .incorrectInputLength := by decide
/-- the point with a surplus coordinate itself is fine -/
example : PST.check (PST.wfVK (3 : K) 5 11 [2, 7] 2 2 2) [27] [10, 20, 9] [3] ⟨[10, 66], some 93⟩ [13]
    = .ok true := by decide
/-- `batch_check`: the formerly accepted forgery — value `3 + 1`, extra witness
`(ξ·δ/z₂)·g = (13·1/9)·3` — is refused; so are the empty and the truncated proof list -/
example : PST.batchCheckGroups (PST.wfVK (3 : K) 5 11 [2, 7] 2 2 2) [([27], [4])] [[10, 20, 9]]
    [⟨[10, 66, 13 * 3 * (9 : K)⁻¹], some 93⟩] [13] [] = .error .incorrectInputLength := by decide
example : PST.batchCheckGroups (PST.wfVK (3 : K) 5 11 [2, 7] 2 2 2) [([27], [3])] [[10, 20, 9]]
    [⟨[10, 66], some 93⟩] [13] [] = .ok true := by decide
example : PST.batchCheckGroups (PST.wfVK (3 : K) 5 11 [2, 7] 2 2 2) [([27], [4])] [[10, 20]] [] [13] []
    = .error .abort := by decide
/-- replaced witness element / changed / dropped `random_v`: rejected; the hypotheses of the
rejection theorems: `δ·(β₀h − z₀h) = 1·(22 − 11·10)`, `γ·δ·h = 5·1·11` -/
example : PST.check (PST.wfVK (3 : K) 5 11 [2, 7] 2 2 2) [27] [10, 20] [3] ⟨[11, 66], some 93⟩ [13]
    = .ok false := by decide
example : PST.check (PST.wfVK (3 : K) 5 11 [2, 7] 2 2 2) [27] [10, 20] [3] ⟨[10, 66], some 94⟩ [13]
    = .ok false := by decide
example : PST.check (PST.wfVK (3 : K) 5 11 [2, 7] 2 2 2) [27] [10, 20] [3] ⟨[10, 66], none⟩ [13]
    = .ok false := by decide
example : (1 : K) * (22 - 11 * 10) ≠ 0 ∧ (5 : K) * 1 * 11 ≠ 0 := by decide

end PCV.C03
