/-
  Property C03 — no crafted or malformed proof proves a false claim: MarlinPST13, the SHAPE of the
  proof.  A PST13 evaluation proof is a list of witness elements — exactly one per variable of the
  key — and an optional field element.  `check` and `batch_check` refuse
  (`IncorrectInputLength`) every proof whose witness list has another length, before any pairing;
  `batch_check` aborts on a proof list whose length differs from the number of point labels.  For
  proofs of the right shape the verifier's decision is the vanishing of an explicit defect, which a
  replaced witness element or `random_v` moves by a stated non-zero amount.

  (History: before /repo commit e3c5fb6 `batch_check` folded a surplus witness element into the
  commitment side with weight `z[num_vars]`; with a query point carrying a surplus coordinate the
  element `(ξ·δ/z[nv])·g`, computable from public data, proved the false value `v + δ`.  The harness
  keeps that forgery as a permanent negative case: `C03/pst13/*/extend-public-forge`.)
-/
import PCV.Proofs.PST13More
import PCV.Proofs.PST13Extract
import PCV.Props.Examples

set_option synthInstance.maxSize 512
set_option linter.unusedSectionVars false
set_option linter.unusedVariables false

namespace PCV.C03
open PCV PCV.MV
variable {F : Type} [Field F] [DecidableEq F]

/-! ### the witness list must have one element per variable -/

/-- **`check`: wrong witness count ⇒ `IncorrectInputLength`**, unconditionally — arbitrary key,
commitments, point, values, challenges; shorter and longer lists alike. -/
theorem pst13_check_wrong_witness_count (vk : PST.VK F) (cs z vs : List F) (π : PST.Proof F)
    (ξs : List F) (h : π.w.length ≠ vk.numVars) :
    PST.check vk cs z vs π ξs = .error .incorrectInputLength :=
  PST.check_wrong_length vk cs z vs π ξs h

/-- **`check` answers only proofs with exactly `num_vars` witnesses** (that fit the key and the
point), and then the answer is whether the pairing defect of that very proof vanishes. -/
theorem pst13_check_answers_exact_shape (vk : PST.VK F) (cs z vs : List F) (π : PST.Proof F)
    (ξs : List F) (b : Bool) (h : PST.check vk cs z vs π ξs = .ok b) :
    π.w.length = vk.numVars ∧ ∃ a, PST.accumulate 0 0 cs vs ξs = .ok a
      ∧ π.w.length ≤ vk.betaH.length ∧ π.w.length ≤ z.length
      ∧ b = decide (PST.defectCombined vk a.1 a.2.1 z π = 0) :=
  PST.check_ok_inv vk cs z vs π ξs b h

/-- **`batch_check`: a proof list of the wrong length aborts** (fix c2c0afc), **a proof with a wrong
witness count anywhere in the list ⇒ `IncorrectInputLength`** (fix e3c5fb6). -/
theorem pst13_batch_wrong_shape (vk : PST.VK F) (cs : List F) (zs : List (List F)) (vs : List F)
    (πs : List (PST.Proof F)) (rs : List F) :
    (πs.length ≠ zs.length → PST.batchCheck vk cs zs vs πs rs = .error .abort) ∧
    (πs.length = zs.length → ∀ π ∈ πs, π.w.length ≠ vk.numVars →
      PST.batchCheck vk cs zs vs πs rs = .error .incorrectInputLength) := by
  constructor
  · intro h
    unfold PST.batchCheck
    rw [PST.batchDefect_wrong_count vk cs zs vs πs rs h]
  · intro hl π hπ hw
    unfold PST.batchCheck
    rw [PST.batchDefect_wrong_witness_count vk cs zs vs πs rs hl π hπ hw]

/-- **`batch_check` answers only well-shaped proof lists**: one proof per point label, each with
one witness per key variable — and then (C05) its pairing product is `Σ ρₖ·Δₖ` of the individual
defects. -/
theorem pst13_batch_answers_exact_shape (vk : PST.VK F) (cs : List F) (zs : List (List F))
    (vs : List F) (πs : List (PST.Proof F)) (rs : List F) (b : Bool)
    (h : PST.batchCheck vk cs zs vs πs rs = .ok b) :
    πs.length = zs.length ∧ ∀ π ∈ πs, π.w.length = vk.numVars :=
  PST.batchCheck_ok_inv vk cs zs vs πs rs b h

/-! ### a replaced component moves the defect -/

/-- **A replaced witness element**: `Wⱼ ↦ Wⱼ + δ` moves the defect by `−δ·(βⱼh − zⱼ·h)`. -/
theorem pst13_replaced_witness_defect (vk : PST.VK F) (C V : F) (z pre post : List F) (x δ : F)
    (rv : Option F) :
    PST.defectCombined vk C V z ⟨pre ++ (x + δ) :: post, rv⟩
      = PST.defectCombined vk C V z ⟨pre ++ x :: post, rv⟩
        - δ * (getD' vk.betaH pre.length 0 - vk.h * getD' z pre.length 0) :=
  PST.defect_witness_shift vk C V z pre post x δ rv

/-- **… and is therefore rejected**: if the claim is accepted with the proof `(…, Wⱼ, …)`, the same
claim with `Wⱼ + δ` in its place is rejected whenever `δ·(βⱼh − zⱼ·h) ≠ 0`. -/
theorem pst13_replaced_witness_rejected (vk : PST.VK F) (cs z vs : List F) (pre post : List F)
    (x δ : F) (rv : Option F) (ξs : List F)
    (hacc : PST.check vk cs z vs ⟨pre ++ x :: post, rv⟩ ξs = .ok true)
    (hne : δ * (getD' vk.betaH pre.length 0 - vk.h * getD' z pre.length 0) ≠ 0) :
    PST.check vk cs z vs ⟨pre ++ (x + δ) :: post, rv⟩ ξs = .ok false := by
  obtain ⟨a, ha, hb, hc⟩ := PST.check_same_acc vk cs z vs ⟨pre ++ x :: post, rv⟩
    ⟨pre ++ (x + δ) :: post, rv⟩ ξs true hacc (by simp)
  rw [hc, PST.defect_witness_shift]
  have h0 : PST.defectCombined vk a.1 a.2.1 z ⟨pre ++ x :: post, rv⟩ = 0 := by
    simpa using hb.symm
  rw [h0]
  congr 1
  rw [decide_eq_false_iff_not]
  intro hx
  apply hne
  linear_combination -hx

/-- **A changed or dropped `random_v`**: `rv + δ` moves the defect by `−γ·δ·h`, dropping `Some rv`
by `+γ·rv·h`. -/
theorem pst13_random_v_defect (vk : PST.VK F) (C V : F) (z w : List F) (x δ : F) :
    PST.defectCombined vk C V z ⟨w, some (x + δ)⟩
        = PST.defectCombined vk C V z ⟨w, some x⟩ - vk.gammaG * δ * vk.h
      ∧ PST.defectCombined vk C V z ⟨w, none⟩
        = PST.defectCombined vk C V z ⟨w, some x⟩ + vk.gammaG * x * vk.h :=
  PST.defect_rv_shift vk C V z w x δ

theorem pst13_changed_random_v_rejected (vk : PST.VK F) (cs z vs w : List F) (x δ : F)
    (ξs : List F) (hacc : PST.check vk cs z vs ⟨w, some x⟩ ξs = .ok true)
    (hne : vk.gammaG * δ * vk.h ≠ 0) :
    PST.check vk cs z vs ⟨w, some (x + δ)⟩ ξs = .ok false := by
  obtain ⟨a, ha, hb, hc⟩ := PST.check_same_acc vk cs z vs ⟨w, some x⟩ ⟨w, some (x + δ)⟩ ξs true
    hacc rfl
  rw [hc, (PST.defect_rv_shift vk a.1 a.2.1 z w x δ).1]
  have h0 : PST.defectCombined vk a.1 a.2.1 z ⟨w, some x⟩ = 0 := by simpa using hb.symm
  rw [h0]
  congr 1
  rw [decide_eq_false_iff_not]
  intro hx
  apply hne
  linear_combination -hx

/-! ### non-vacuity over `ZMod 101`

The accepted claim of the C01/C02 examples (two variables, commitment `27`, value `3` at `(10,20)`,
challenge `13`, proof `⟨[10, 66], some 93⟩`) with every shape of proof. -/

example : PST.check (PST.wfVK (3 : K) 5 11 [2, 7] 2 2 2) [27] [10, 20] [3] ⟨[10, 66], some 93⟩ [13]
    = .ok true := by decide
/-- truncated and extended witness lists (also at a point with a surplus coordinate): refused -/
example : PST.check (PST.wfVK (3 : K) 5 11 [2, 7] 2 2 2) [27] [10, 20] [3] ⟨[10], some 93⟩ [13]
    = .error .incorrectInputLength := by decide
example : PST.check (PST.wfVK (3 : K) 5 11 [2, 7] 2 2 2) [27] [10, 20] [3] ⟨[], some 93⟩ [13]
    = .error .incorrectInputLength := by decide
example : PST.check (PST.wfVK (3 : K) 5 11 [2, 7] 2 2 2) [27] [10, 20, 9] [3] ⟨[10, 66, 0], some 93⟩ [13]
    = .error .incorrectInputLength := by decide
/-- the point with a surplus coordinate itself is fine -/
example : PST.check (PST.wfVK (3 : K) 5 11 [2, 7] 2 2 2) [27] [10, 20, 9] [3] ⟨[10, 66], some 93⟩ [13]
    = .ok true := by decide
/-- `batch_check`: the formerly accepted forgery — value `3 + 1`, extra witness
`(ξ·δ/z₂)·g = (13·1/9)·3` — is refused; so are the empty and the truncated proof list -/
example : PST.batchCheckGroups (PST.wfVK (3 : K) 5 11 [2, 7] 2 2 2) [([27], [4])] [[10, 20, 9]]
    [⟨[10, 66, 13 * 3 * (9 : K)⁻¹], some 93⟩] [13] [] = .error .incorrectInputLength := by decide
example : PST.batchCheckGroups (PST.wfVK (3 : K) 5 11 [2, 7] 2 2 2) [([27], [3])] [[10, 20, 9]]
    [⟨[10, 66], some 93⟩] [13] [] = .ok true := by decide
example : PST.batchCheckGroups (PST.wfVK (3 : K) 5 11 [2, 7] 2 2 2) [([27], [4])] [[10, 20]] [] [13] []
    = .error .abort := by decide
/-- replaced witness element / changed / dropped `random_v`: rejected; the hypotheses of the
rejection theorems: `δ·(β₀h − z₀h) = 1·(22 − 11·10)`, `γ·δ·h = 5·1·11` -/
example : PST.check (PST.wfVK (3 : K) 5 11 [2, 7] 2 2 2) [27] [10, 20] [3] ⟨[11, 66], some 93⟩ [13]
    = .ok false := by decide
example : PST.check (PST.wfVK (3 : K) 5 11 [2, 7] 2 2 2) [27] [10, 20] [3] ⟨[10, 66], some 94⟩ [13]
    = .ok false := by decide
example : PST.check (PST.wfVK (3 : K) 5 11 [2, 7] 2 2 2) [27] [10, 20] [3] ⟨[10, 66], none⟩ [13]
    = .ok false := by decide
example : (1 : K) * (22 - 11 * 10) ≠ 0 ∧ (5 : K) * 1 * 11 ≠ 0 := by decide

/-! ### any algebraic forger solves the hardness problem -/

/-- **Any algebraic forger hands over a polynomial with the trapdoor as a root (PST13, non-hiding).**
Let `p` and the `aᵢ` be ANY functions of the trapdoor the forger can evaluate "in the exponent" over
the published `powers_of_g` (multivariate polynomials with known coefficients): commitment
`g·p(β⃗)`, witness elements `g·aᵢ(β⃗)`.  If the verifier accepts the value `v` at `z` under a
challenge `ξ ≠ 0`, then `E(x) := ξ·(p(x) − v) − Σᵢ (xᵢ − zᵢ)·aᵢ(x)` vanishes at the trapdoor while
`E(z) = ξ·(p(z) − v)`: for a false claim `E` is a non-zero polynomial the forger knows, and the secret
trapdoor is among its roots.  (The challenge multiplies commitment and value but not the witnesses;
with `aᵢ/ξ` in place of `aᵢ` this is `p(x) − v − Σ (xᵢ − zᵢ)·aᵢ(x)`.) -/
theorem pst13_algebraic_forgery_reveals_trapdoor (g γ h : F) (β z : List F) (nv s D : Nat)
    (v ξ : F) (ξs : List F) (p : List F → F) (a : List F → List F)
    (hg : g ≠ 0) (hh : h ≠ 0) (hξ : ξ ≠ 0) (hv : v ≠ p z)
    (hacc : PST.check (PST.wfVK g γ h β nv s D) [g * p β] z [v] ⟨(a β).map (g * ·), none⟩ (ξ :: ξs)
      = .ok true) :
    (ξ * (p β - v) - PST.linSumIdx β z 0 (a β) = 0)
      ∧ (ξ * (p z - v) - PST.linSumIdx z z 0 (a z) ≠ 0) := by
  refine ⟨PST.forgery_identity g γ h β z (a β) nv s D (p β) v ξ ξs hg hh hacc, ?_⟩
  rw [PST.linSumIdx_self, sub_zero]
  intro h0
  rcases mul_eq_zero.1 h0 with h1 | h1
  · exact hξ h1
  · exact hv (sub_eq_zero.1 h1).symm

/-- the same for multivariate polynomials in coefficient form -/
theorem pst13_algebraic_forgery_mv (g γ h : F) (β z : List F) (nv s D : Nat) (v ξ : F)
    (ξs : List F) (p : MVPoly F) (as : List (MVPoly F))
    (hg : g ≠ 0) (hh : h ≠ 0) (hξ : ξ ≠ 0) (hv : v ≠ evalMV p z)
    (hacc : PST.check (PST.wfVK g γ h β nv s D) [g * evalMV p β] z [v]
      ⟨(as.map (fun q => evalMV q β)).map (g * ·), none⟩ (ξ :: ξs) = .ok true) :
    (ξ * (evalMV p β - v) - PST.linSumIdx β z 0 (as.map (fun q => evalMV q β)) = 0)
      ∧ (ξ * (evalMV p z - v) - PST.linSumIdx z z 0 (as.map (fun q => evalMV q z)) ≠ 0) :=
  pst13_algebraic_forgery_reveals_trapdoor g γ h β z nv s D v ξ ξs (fun x => evalMV p x)
    (fun x => as.map (fun q => evalMV q x)) hg hh hξ hv hacc

/-- **Algebraic forger against a hiding commitment.**  Commitment `g·p(β⃗) + γ·r(β⃗)`, witnesses
`g·aᵢ(β⃗) + γ·bᵢ(β⃗)`, any `random_v = ρ`: an accepted false value means the trapdoor is a root of
the non-zero `E_p(x) = ξ·(p(x) − v) − Σ (xᵢ − zᵢ)·aᵢ(x)` (and `γ·E_r(β⃗) = 0` for
`E_r(x) = ξ·r(x) − ρ − Σ (xᵢ − zᵢ)·bᵢ(x)`), or the forger has written the hiding generator as an explicit
multiple of the plain one, `γ = −g·E_p(β⃗)/E_r(β⃗)` — which the independent sampling of `gamma_g` in
`setup` is there to prevent. -/
theorem pst13_algebraic_forgery_hiding (g γ h : F) (β z : List F) (nv s D : Nat) (v ρ ξ : F)
    (ξs : List F) (p r : List F → F) (a b : List F → List F)
    (hl : (a β).length = (b β).length) (hg : g ≠ 0) (hh : h ≠ 0) (hξ : ξ ≠ 0) (hv : v ≠ p z)
    (hacc : PST.check (PST.wfVK g γ h β nv s D) [g * p β + γ * r β] z [v]
      ⟨List.zipWith (fun x y => g * x + γ * y) (a β) (b β), some ρ⟩ (ξ :: ξs) = .ok true) :
    (ξ * (p z - v) - PST.linSumIdx z z 0 (a z) ≠ 0) ∧
    ((ξ * (p β - v) - PST.linSumIdx β z 0 (a β) = 0
        ∧ γ * (ξ * r β - ρ - PST.linSumIdx β z 0 (b β)) = 0) ∨
     (ξ * r β - ρ - PST.linSumIdx β z 0 (b β) ≠ 0 ∧
      γ = -(g * (ξ * (p β - v) - PST.linSumIdx β z 0 (a β)))
            / (ξ * r β - ρ - PST.linSumIdx β z 0 (b β)))) := by
  have hid := PST.forgery_identity_hiding g γ h β z (a β) (b β) nv s D (p β) (r β) v ρ ξ ξs hl hh hacc
  refine ⟨?_, ?_⟩
  · rw [PST.linSumIdx_self, sub_zero]
    intro h0
    rcases mul_eq_zero.1 h0 with h1 | h1
    · exact hξ h1
    · exact hv (sub_eq_zero.1 h1).symm
  · by_cases hr : ξ * r β - ρ - PST.linSumIdx β z 0 (b β) = 0
    · left
      rw [hr, mul_zero, add_zero] at hid
      rcases mul_eq_zero.1 hid with h1 | h1
      · exact absurd h1 hg
      · exact ⟨h1, by rw [hr, mul_zero]⟩
    · right
      refine ⟨hr, ?_⟩
      rw [eq_div_iff hr]
      linear_combination hid

/-- non-vacuity: on the key `g = 3, γ = 5, h = 11, β⃗ = (2, 7)` the forger functions `p(x) = x₀ + x₁`,
witnesses `g·1, g·70` get the false value `v = p(z) + 3` accepted at `z = (10, 20)` under `ξ = 13`:
`13·(9 − 33) = 1·(2 − 10) + 70·(7 − 20)` -/
example : PST.check (PST.wfVK (3 : K) 5 11 [2, 7] 2 2 2) [3 * (2 + 7)] [10, 20] [10 + 20 + 3]
      ⟨[1, 70].map ((3 : K) * ·), none⟩ [13] = .ok true
    ∧ (13 : K) * ((2 + 7) - (10 + 20 + 3)) - PST.linSumIdx [2, 7] [10, 20] 0 [1, 70] = 0
    ∧ (13 : K) * ((10 + 20) - (10 + 20 + 3)) - PST.linSumIdx ([10, 20] : List K) [10, 20] 0 [1, 70] ≠ 0 := by
  decide

end PCV.C03
