/-
  Property C02 — evaluation binding with the honest proof, SonicKZG10: the exact acceptance condition
  of any changed statement, and the wrong-value / wrong-point / wrong-commitment corollaries.
-/
import PCV.Proofs.SonicExamples

namespace PCV.C02
open PCV PCV.Sonic
open PCV.Marlin (Label LPoly Query)
variable {F : Type} [Field F] [DecidableEq F]

section
variable (g γ β bi h : F) (hb : β * bi = 1) (D s shb : Nat) (bounds : Option (List Nat))
  (ck : CK F) (vk : VK F) (ht : trim (wfPP g γ β bi h D) s shb bounds = .ok (ck, vk))
  (ps : List (LPoly F)) (rng : Bool) (draws : List F) (cs : List (LComm F)) (rs : List (List F))
  (drest : List F) (hc : commit ck ps rng draws = .ok (cs, rs, drest))
  (z : F) (ξs : List F) (π : KZG.Proof F) (rest : List F)
  (ho : Sonic.open ck ps z rs ξs = .ok (π, rest))
include hb ht hc ho

/-- **SonicKZG10, exact acceptance condition.**  With honest commitments `cs` and the honest proof
`π` for `(ps, z)`: the statement with commitments changed by `dcs`, point by `dz` and values by `dvs`
is accepted iff `Σⱼ ξⱼ·dcⱼ·σ(bⱼ) − g·h·Σⱼ ξⱼ·dvⱼ + W·dz·h = 0`
(`σ(b)` the G2 partner of the bound `b`: `h` or `β^{-(D-d)}·h`; `W` the witness scalar). -/
theorem sonic_check_iff (dcs dvs : List F) (dz : F) (hcl : dcs.length = cs.length)
    (hvl : dvs.length = ps.length) :
    check vk (addComms cs dcs) (z + dz) (addVals (ps.map fun p => evalPoly p.poly z) dvs) π ξs
        = .ok (true, rest) ↔
      linC vk.shiftD (withComms cs dcs) (ps.map fun p => evalPoly p.poly z) ξs
        - g * linV cs dvs ξs * h + π.w * dz * h = 0 :=
  honest_check_iff g γ β bi h hb D s shb bounds ck vk ht cs ps rs
    (commit_honest g γ β bi h hb D s shb bounds ck vk ht ps rng draws cs rs drest hc) z ξs π rest ho
    dcs dvs dz hcl hvl

/-- **Wrong values.**  Any change `dvs` of the claimed values whose challenge-weighted sum
`Σ ξⱼ·dvⱼ` is non-zero is rejected (given `g, h ≠ 0`): never `ok true`. -/
theorem sonic_wrong_value_rejected (dvs : List F) (hvl : dvs.length = ps.length)
    (hne : linV cs dvs ξs ≠ 0) (hg : g ≠ 0) (hh : h ≠ 0) (r : List F) :
    check vk cs z (addVals (ps.map fun p => evalPoly p.poly z) dvs) π ξs ≠ .ok (true, r) := by
  intro hacc
  have hh' := commit_honest g γ β bi h hb D s shb bounds ck vk ht ps rng draws cs rs drest hc
  have hr : r = rest := by
    have h1 := (check_true_iff _ _ _ _ _ _ _).1 hacc
    have h2 := (check_true_iff _ _ _ _ _ _ _).1
      (open_check_complete g γ β bi h hb D s shb bounds ck vk ht cs ps rs hh' z ξs π rest ho)
    have e := (shape_addVals vk.shiftOf vk.shiftD cs (ps.map fun p => evalPoly p.poly z) dvs ξs
      (by simpa using hvl)).2.1
    rw [e, h2.1] at h1
    exact (Option.some.inj h1.1).symm
  subst hr
  have := (honest_value_iff g γ β bi h hb D s shb bounds ck vk ht cs ps rs hh' z ξs π r ho dvs hvl).1 hacc
  rcases mul_eq_zero.1 this with h0 | h0
  · rcases mul_eq_zero.1 h0 with h1 | h1
    · exact hg h1
    · exact hne h1
  · exact hh h0

/-- **Wrong value at one position.**  `vⱼ + δ` with `δ ≠ 0` and a non-zero challenge `ξⱼ`. -/
theorem sonic_wrong_value_at_rejected (j : Nat) (δ : F) (hj : j < ps.length)
    (hne : valTerm δ j cs ξs ≠ 0) (hg : g ≠ 0) (hh : h ≠ 0) (r : List F) :
    check vk cs z (addVals (ps.map fun p => evalPoly p.poly z) (spike j δ ps.length)) π ξs
      ≠ .ok (true, r) := by
  apply sonic_wrong_value_rejected g γ β bi h hb D s shb bounds ck vk ht ps rng draws cs rs drest hc
    z ξs π rest ho (spike j δ ps.length) (spike_length _ _ _) _ hg hh
  rw [linV_spike δ j cs ps.length ξs hj]; exact hne

/-- **Wrong point.**  The proof for `z` is accepted at `z + dz` (same values, same commitments) iff
`W·dz·h = 0`; so it is rejected unless `dz = 0` or the witness commitment is the identity. -/
theorem sonic_wrong_point_iff (dz : F) :
    check vk cs (z + dz) (ps.map fun p => evalPoly p.poly z) π ξs = .ok (true, rest) ↔
      π.w * dz * h = 0 :=
  honest_point_iff g γ β bi h hb D s shb bounds ck vk ht cs ps rs
    (commit_honest g γ β bi h hb D s shb bounds ck vk ht ps rng draws cs rs drest hc) z ξs π rest ho dz

theorem sonic_wrong_point_rejected (dz : F) (hdz : dz ≠ 0) (hw : π.w ≠ 0) (hh : h ≠ 0) :
    check vk cs (z + dz) (ps.map fun p => evalPoly p.poly z) π ξs ≠ .ok (true, rest) := by
  intro hacc
  have := (sonic_wrong_point_iff g γ β bi h hb D s shb bounds ck vk ht ps rng draws cs rs drest hc
    z ξs π rest ho dz).1 hacc
  rcases mul_eq_zero.1 this with h0 | h0
  · rcases mul_eq_zero.1 h0 with h1 | h1
    · exact hw h1
    · exact hdz h1
  · exact hh h0

/-- **Wrong commitments.**  Commitments changed by `dcs` (e.g. a commitment to `q ≠ p`:
`dc = β^{D-d}·g·(q−p)(β) + …`) are accepted iff `Σ ξⱼ·dcⱼ·σ(bⱼ) = 0`. -/
theorem sonic_wrong_commitment_iff (dcs : List F) (hcl : dcs.length = cs.length) :
    check vk (addComms cs dcs) z (ps.map fun p => evalPoly p.poly z) π ξs = .ok (true, rest) ↔
      linC vk.shiftD (withComms cs dcs) (ps.map fun p => evalPoly p.poly z) ξs = 0 :=
  honest_comm_iff g γ β bi h hb D s shb bounds ck vk ht cs ps rs
    (commit_honest g γ β bi h hb D s shb bounds ck vk ht ps rng draws cs rs drest hc) z ξs π rest ho
    dcs hcl

/-- **Wrong commitment at one position**: `Cⱼ + δ` is rejected whenever `ξⱼ·δ·σ(bⱼ) ≠ 0`. -/
theorem sonic_wrong_commitment_at_rejected (j : Nat) (δ : F) (hj : j < cs.length)
    (hne : commTerm vk.shiftD δ j cs (ps.map fun p => evalPoly p.poly z) ξs ≠ 0) :
    check vk (addComms cs (spike j δ cs.length)) z (ps.map fun p => evalPoly p.poly z) π ξs
      ≠ .ok (true, rest) := by
  intro hacc
  have := (sonic_wrong_commitment_iff g γ β bi h hb D s shb bounds ck vk ht ps rng draws cs rs drest hc
    z ξs π rest ho (spike j δ cs.length) (spike_length _ _ _)).1 hacc
  rw [linC_spike _ δ j cs cs.length _ ξs hj] at this
  exact hne this

end

/-- non-vacuity: on the concrete transcript of C01's example, value + 1 at position 1, point + 1 and
commitment + 1 at position 2 are each rejected by the model verifier, and the theorems' side
conditions hold there -/
example : check Ex.vk Ex.comms 5 (addVals Ex.vals (spike 1 1 3)) Ex.proof Ex.xis = .ok (false, [23]) := by
  decide
example : valTerm (1 : K) 1 Ex.comms Ex.xis ≠ 0 ∧ (3 : K) ≠ 0 ∧ (7 : K) ≠ 0 ∧ Ex.proof.w ≠ 0 := by decide
example : check Ex.vk Ex.comms (5 + 1) Ex.vals Ex.proof Ex.xis = .ok (false, [23]) := by decide
example : check Ex.vk (addComms Ex.comms (spike 2 1 3)) 5 Ex.vals Ex.proof Ex.xis = .ok (false, [23]) := by
  decide
example : commTerm Ex.vk.shiftD (1 : K) 2 Ex.comms Ex.vals Ex.xis ≠ 0 := by decide

end PCV.C02
