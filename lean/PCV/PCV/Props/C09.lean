/-
  Property C09 — setup and trim produce well-formed, mutually consistent keys (MarlinKZG10 part).
-/
import PCV.Proofs.MarlinMore
import PCV.Props.C01_Marlin
set_option linter.unusedSectionVars false

namespace PCV.C09
open PCV Marlin
variable {F : Type} [Field F] [DecidableEq F]

/-- **MarlinKZG10 trim.** From parameters made by `setup` out of one trapdoor (`wfParams`):
the committer key holds exactly the first `s+1` powers and `hb+2` γ-powers, the shifted window is
`β^(D−B)…β^D` for the largest bound `B`, the verifier key carries `g·β^(D−d)` for exactly the
sorted, deduplicated bounds, and the degree reports are truthful. -/
theorem marlin_trim_faithful (g γ β h : F) (D s hb : Nat) (bounds : Option (List Nat))
    (ck : CK F) (vk : VK F) (ht : trim (wfParams g γ β h D) s hb bounds = .ok (ck, vk)) :
    WF ck vk g γ β h D (s + 1) (hb + 2) ∧ s ≤ D ∧ hb ≤ D ∧
      ck.bounds = bounds.map sortDedup ∧ vk.supported = s ∧ vk.maxDegree = D :=
  trim_wf g γ β h D s hb bounds ck vk ht

/-- the enforced bound list is sorted, duplicate-free and has the same members as the request -/
theorem marlin_bounds_sorted (l : List Nat) :
    (sortDedup l).Pairwise (· < ·) ∧ ∀ d, d ∈ sortDedup l ↔ d ∈ l :=
  ⟨sorted_sortDedup l, fun d => mem_sortDedup d l⟩

/-- **interoperability**: the verifier key's core does not depend on the trim request -/
theorem marlin_vk_core_independent (g γ β h : F) (D s₁ hb₁ s₂ hb₂ : Nat)
    (b₁ b₂ : Option (List Nat)) (ck₁ ck₂ : CK F) (vk₁ vk₂ : VK F)
    (h₁ : trim (wfParams g γ β h D) s₁ hb₁ b₁ = .ok (ck₁, vk₁))
    (h₂ : trim (wfParams g γ β h D) s₂ hb₂ b₂ = .ok (ck₂, vk₂)) : vk₁.vk = vk₂.vk := by
  rw [(trim_wf g γ β h D s₁ hb₁ b₁ ck₁ vk₁ h₁).1.vkeq, (trim_wf g γ β h D s₂ hb₂ b₂ ck₂ vk₂ h₂).1.vkeq]

/-- **out-of-range trim requests are refused** -/
theorem marlin_trim_refuses (pp : UParams F) (s hb : Nat) (bounds : Option (List Nat))
    (h : s > pp.powers.length - 1) : ∃ e, trim pp s hb bounds = .error e := by
  unfold trim
  split
  · exact ⟨_, rfl⟩
  · exact ⟨_, rfl⟩
  · rw [if_pos h]; exact ⟨_, rfl⟩

example : trim (wfParams (3 : K) 5 2 7 3) 3 1 (some [2, 2]) = .ok (C01.exCK, C01.exVK) := by decide
example : trim (wfParams (3 : K) 5 2 7 3) 4 1 none = .error .trimTooLarge := by decide

end PCV.C09
