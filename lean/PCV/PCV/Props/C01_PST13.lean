/-
  Property C01 — completeness, MarlinPST13 (multivariate).  The theorems are those of
  `PCV/Props/C15.lean` (where the PST13 model is developed), restated here so that the C01 check
  lists and audits them.
-/
import PCV.Props.C15

set_option synthInstance.maxSize 512

namespace PCV.C01
open PCV PCV.MV PCV.C15Spec
variable {F : Type} [Field F] [DecidableEq F]

/-- **PST13, one polynomial.** Key well-formed for any trapdoor `β⃗`; any polynomial over the key's
`nv` variables (arbitrary mixed monomials), any hiding bound, RNG stream, point and challenge: if
`commit` returns `(c, r)` and `open` returns `π`, `check` accepts the true value. -/
theorem pst13_complete (g γ h : F) (β : List F) (ts : List Term) (nv s D m : Nat) (p : MVPoly F)
    (hb : Option Nat) (rng : Bool) (draws : List F) (c : F) (r : MVPoly F) (rest : List F)
    (z : List F) (ξ : F) (ξs : List F) (π : PST.Proof F)
    (hp : polyWf p = true) (hpv : polyVarsBelow nv p = true)
    (hβ : nv ≤ β.length) (hz : nv ≤ z.length)
    (hc : PST.commit (PST.wfCK g γ β ts nv s D m) p hb rng draws = .ok (c, r, rest))
    (ho : PST.open (PST.wfCK g γ β ts nv s D m) nv nv [p] z [r] (ξ :: ξs) = .ok π) :
    PST.check (PST.wfVK g γ h β nv s D) [c] z [evalMV p z] π (ξ :: ξs) = .ok true :=
  C15.pst13_complete g γ h β ts nv s D m p hb rng draws c r rest z ξ ξs π hp hpv hβ hz hc ho

/-- **PST13, polynomial declared over fewer variables than the key** (`nvp ≤ nv`; the zero
polynomial declared over `0` variables included), with or without hiding: accepted, and the proof
carries one witness per key variable (so `batch_check` can index it). -/
theorem pst13_complete_fewer_vars (g γ h : F) (β : List F) (ts : List Term) (nv s D m nvp nvr : Nat)
    (p : MVPoly F)
    (hb : Option Nat) (rng : Bool) (draws : List F) (c : F) (r : MVPoly F) (rest : List F)
    (z : List F) (ξ : F) (ξs : List F) (π : PST.Proof F)
    (hnvp : nvp ≤ nv) (hnvr : nvr ≤ nv)
    (hp : polyWf p = true) (hpv : polyVarsBelow nvp p = true) (hrv : polyVarsBelow nvr r = true)
    (hβ : nv ≤ β.length) (hz : nv ≤ z.length)
    (hc : PST.commit (PST.wfCK g γ β ts nv s D m) p hb rng draws = .ok (c, r, rest))
    (ho : PST.open (PST.wfCK g γ β ts nv s D m) nvp nvr [p] z [r] (ξ :: ξs) = .ok π) :
    PST.check (PST.wfVK g γ h β nv s D) [c] z [evalMV p z] π (ξ :: ξs) = .ok true
      ∧ π.w.length = nv :=
  C15.pst13_complete_fewer_vars g γ h β ts nv s D m nvp nvr p hb rng draws c r rest z ξ ξs π
    hnvp hnvr hp hpv hrv hβ hz hc ho

/-- **PST13, challenge-combined list** of polynomials opened together at one point. -/
theorem pst13_complete_list (g γ h : F) (β : List F) (ts : List Term) (nv s D m nvp nvr : Nat)
    (ps rs : List (MVPoly F)) (z ξs : List F) (π : PST.Proof F)
    (hnvp : nvp ≤ nv) (hnvr : nvr ≤ nv)
    (hlen : ps.length = rs.length)
    (hps : ∀ p ∈ ps, polyWf p = true ∧ polyVarsBelow nvp p = true)
    (hrs : ∀ r ∈ rs, polyWf r = true ∧ polyVarsBelow nvr r = true ∧
      ∀ t ∈ termsOf r, PST.isUni t = true)
    (hβ : nv ≤ β.length) (hz : nv ≤ z.length)
    (ho : PST.open (PST.wfCK g γ β ts nv s D m) nvp nvr ps z rs ξs = .ok π) :
    PST.check (PST.wfVK g γ h β nv s D) (PST.comms g γ β ps rs) z
      (ps.map (fun p => evalMV p z)) π ξs = .ok true :=
  C15.pst13_complete_list g γ h β ts nv s D m nvp nvr ps rs z ξs π hnvp hnvr hlen hps hrs hβ hz ho

/-- **PST13: the honest prover is never refused** (`commit`) on a polynomial within the supported
degree, for a key covering the monomials of that degree. -/
theorem pst13_commit_total (g γ : F) (β : List F) (ts : List Term) (nv s D : Nat)
    (hcov : ∀ t, PST.Covered nv s t → t ∈ ts) (p : MVPoly F)
    (hp : polyWf p = true) (hpv : polyVarsBelow nv p = true) (hd : degreeMV p ≤ s)
    (hb : Option Nat) (draws : List F)
    (hhb : ∀ b, hb = some b → 1 ≤ b ∧ b ≤ s ∧ 1 + nv * (b + 1) ≤ draws.length) :
    ∃ out, PST.commit (PST.wfCK g γ β ts nv s D (s + 1)) p hb true draws = .ok out :=
  C15.pst13_commit_total g γ β ts nv s D hcov p hp hpv hd hb draws hhb

/-- **PST13: the honest prover is never refused** (`open`). -/
theorem pst13_open_total (g γ : F) (β : List F) (ts : List Term) (nv s D m : Nat)
    (hcov : ∀ t, PST.Covered nv s t → t ∈ ts)
    (nvp nvr : Nat) (hnvr : nvr ≤ nv) (ps rs : List (MVPoly F)) (z ξs : List F)
    (hps : ∀ p ∈ ps, polyWf p = true ∧ polyVarsBelow nv p = true ∧ degreeMV p ≤ s)
    (hrs : ∀ r ∈ rs, ∀ t ∈ termsOf r, PST.UniCovered nv m t)
    (hξ : ps.length ≤ ξs.length) (hz : nv ≤ z.length) :
    ∃ π, PST.open (PST.wfCK g γ β ts nv s D m) nvp nvr ps z rs ξs = .ok π :=
  C15.pst13_open_total g γ β ts nv s D m hcov nvp nvr hnvr ps rs z ξs hps hrs hξ hz

/-- non-vacuity (over `ZMod 101`): a hiding commitment to a mixed-monomial polynomial, its opening
and the accepted check; the same for a polynomial declared over one variable of the two -/
example : PST.commit (PST.wfCK (3 : K) 5 [2, 7] (specTerms 2 2) 2 2 2 3)
    [(4, []), (6, [(1, 1)]), (9, [(0, 1), (1, 1)]), (2, [(0, 2)])] (some 1) true [7, 0, 9, 4, 8, 11]
    = .ok (27, [(7, []), (4, [(1, 1)]), (8, [(1, 2)]), (9, [(0, 2)])], [11]) := by decide
example : PST.open (PST.wfCK (3 : K) 5 [2, 7] (specTerms 2 2) 2 2 2 3) 2 2
    [[(4, []), (6, [(1, 1)]), (9, [(0, 1), (1, 1)]), (2, [(0, 2)])]] [10, 20]
    [[(7, []), (4, [(1, 1)]), (8, [(1, 2)]), (9, [(0, 2)])]] [13] = .ok ⟨[10, 66], some 93⟩ := by
  decide
example : PST.check (PST.wfVK (3 : K) 5 11 [2, 7] 2 2 2) [27] [10, 20] [3] ⟨[10, 66], some 93⟩ [13]
    = .ok true := by decide
example : PST.open (PST.wfCK (3 : K) 5 [2, 7] (specTerms 2 2) 2 2 2 3) 1 2
    [[(4, []), (6, [(0, 1)]), (2, [(0, 2)])]] [10, 20]
    [[(7, []), (4, [(1, 1)]), (5, [(0, 1)]), (8, [(1, 2)]), (9, [(0, 2)])]] [13]
    = .ok ⟨[31, 59], some 36⟩ := by decide

end PCV.C01
