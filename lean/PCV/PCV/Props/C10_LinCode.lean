/-
  Property C10 (verifiers decide exactly the published relation) — linear-code PCS.
-/
import PCV.Proofs.LinCodeProto
import PCV.Proofs.LinCodeToy

namespace PCV.C10
open PCV PCV.LinCode PCV.Merkle
variable {F : Type} [Field F] [DecidableEq F] {D : Type} [DecidableEq D]
set_option linter.unusedSectionVars false

/-- **The published relation of one opening** (Ligero / Brakedown with the code's transcript):
`v` (and the well-formedness vector, when required) has `n_cols` entries and its encoding `E(v)` has
exactly the `n_ext_cols` entries the commitment announces; the point has the number of coordinates
the announced shape asks for — the vectors `(a, b) = tensor(point)` have `n_cols` and `n_rows` entries
(fix D23); every opened column comes
with a Merkle path at the transcript's position that recomputes the committed root from the column's
hash; every opened column is consistent with the encoding of `v` under `b` — and with the encoding of
the well-formedness vector under the squeezed coefficients `r` — at the transcript's position
(`PreRelation`); and the claimed value is `⟨v, a⟩` for `(a, b) = tensor(point)`. -/
def LinCodeRelation (pp : Params F D) (point : Point F) (c : Comm D) (value : F) (π : Proof F D)
    (o : Oracle F) : Prop :=
  ∃ a, PreRelation pp point c π o a ∧ dot π.opening.v a = value

/-- the relation of a whole `check` call: every zipped (commitment, value) position has a proof
(and transcript outputs) satisfying the relation -/
def LinCodeRelationAll (pp : Params F D) (point : Point F) (cs : List (Comm D)) (vals : List F)
    (πs : List (Proof F D)) (os : List (Oracle F)) : Prop :=
  ∀ (i : Nat) c val, cs[i]? = some c → vals[i]? = some val →
    ∃ π o, πs[i]? = some π ∧ os[i]? = some o ∧ LinCodeRelation pp point c val π o

/-- **`check` (one polynomial) `= Ok(true)` ⇔ relation.** -/
theorem lincode_check_one_iff_relation (pp : Params F D) (point : Point F) (c : Comm D) (value : F)
    (π : Proof F D) (o : Oracle F) :
    checkOne pp point c value π o = .ok true ↔ LinCodeRelation pp point c value π o :=
  checkOne_ok_true_iff pp point c value π o

/-- **`check = Ok(true)` ⇔ relation**, for any lists of commitments, values, proofs. -/
theorem lincode_check_iff_relation (pp : Params F D) (point : Point F) (cs : List (Comm D))
    (vals : List F) (πs : List (Proof F D)) (os : List (Oracle F)) :
    checkAll pp point cs vals πs os = .ok true ↔ LinCodeRelationAll pp point cs vals πs os := by
  rw [checkAll_ok_true_iff]
  unfold LinCodeRelationAll
  constructor
  · intro h i c val hc hv
    obtain ⟨π, o, h1, h2, h3⟩ := h i c val hc hv
    exact ⟨π, o, h1, h2, (lincode_check_one_iff_relation pp point c val π o).1 h3⟩
  · intro h i c val hc hv
    obtain ⟨π, o, h1, h2, h3⟩ := h i c val hc hv
    exact ⟨π, o, h1, h2, (lincode_check_one_iff_relation pp point c val π o).2 h3⟩

/-- outside the relation the verifier answers `Ok(false)` or refuses — and `Ok(false)` exactly when
only the value test fails -/
theorem lincode_check_one_false_iff (pp : Params F D) (point : Point F) (c : Comm D) (value : F)
    (π : Proof F D) (o : Oracle F) :
    checkOne pp point c value π o = .ok false ↔
      ∃ a, PreRelation pp point c π o a ∧ dot π.opening.v a ≠ value := by
  unfold checkOne
  cases hp : checkPre pp point c π o with
  | error e =>
    simp only
    constructor
    · intro h; cases h
    · rintro ⟨a, ha, _⟩
      rw [(checkPre_ok_iff _ _ _ _ _ _).2 ha] at hp; cases hp
  | ok a =>
    simp only
    constructor
    · intro h
      refine ⟨a, (checkPre_ok_iff _ _ _ _ _ _).1 hp, ?_⟩
      simpa using h
    · rintro ⟨a', ha', hv⟩
      rw [(checkPre_ok_iff _ _ _ _ _ _).2 ha'] at hp
      cases hp
      simp [hv]

/-- `¬ relation ⇔ Ok(false) ∨ refusal` -/
theorem lincode_not_relation_iff (pp : Params F D) (point : Point F) (cs : List (Comm D))
    (vals : List F) (πs : List (Proof F D)) (os : List (Oracle F)) :
    ¬ LinCodeRelationAll pp point cs vals πs os ↔
      checkAll pp point cs vals πs os = .ok false ∨ ∃ e, checkAll pp point cs vals πs os = .error e := by
  rw [← lincode_check_iff_relation]
  cases checkAll pp point cs vals πs os with
  | error e => simp
  | ok b => cases b <;> simp

/-- honest proofs satisfy the relation (C01), at a point with the right number of coordinates (`ha`,
`hb`; since fix D23 the lengths of the `tensor` vectors are part of the relation) -/
theorem lincode_honest_in_relation (pp : Params F D) (point : Point F) (coeffs : List F)
    (E : List F → List F) (k : Nat) (h : Encodes pp coeffs E k) (a b : List F) (o : Oracle F)
    (ht : tensor point (coeffMat pp.dims coeffs).m (coeffMat pp.dims coeffs).n = .ok (a, b))
    (ha : a.length = (coeffMat pp.dims coeffs).m) (hb : b.length = (coeffMat pp.dims coeffs).n)
    (hi : ∀ i ∈ o.indices, i < k) :
    LinCodeRelation pp point
      ⟨(coeffMat pp.dims coeffs).n, (coeffMat pp.dims coeffs).m, k,
        merkleRoot pp.hs (leavesOf pp (extOf pp coeffs E k))⟩
      (dot (vecMat b (coeffMat pp.dims coeffs).rows (coeffMat pp.dims coeffs).m) a)
      (honestProof pp coeffs E k b o) o :=
  ⟨a, honest_preRelation pp point coeffs E k h a b o ht ha hb hi, rfl⟩

/-- every opened column influences the decision: replacing one by a column with a different
`b`-combination leaves the relation -/
theorem lincode_column_matters (pp : Params F D) (point : Point F) (c : Comm D) (value : F)
    (π : Proof F D) (o : Oracle F) (h : LinCodeRelation pp point c value π o) (j q : Nat)
    (hq : o.indices[j]? = some q) (col' : List F) (a b : List F)
    (ht : tensor point c.nCols c.nRows = .ok (a, b)) (col : List F)
    (hc : π.opening.columns[j]? = some col) (hne : dot b col' ≠ dot b col) :
    ¬ LinCodeRelation pp point c value
      { π with opening := { π.opening with columns := π.opening.columns.set j col' } } o := by
  obtain ⟨a1, ⟨_, _, _, w, b1, hw, _, ht1, _, _, hcols, _⟩, _⟩ := h
  rintro ⟨a2, ⟨_, _, _, w2, b2, hw2, _, ht2, _, _, hcols2, _⟩, _⟩
  simp only at hw2 ht2 hcols2
  rw [ht] at ht1 ht2; cases ht1; cases ht2
  rw [hw] at hw2; cases hw2
  obtain ⟨c1, x1, hc1, hx1, hd1⟩ := hcols j q hq
  obtain ⟨c2, x2, hc2, hx2, hd2⟩ := hcols2 j q hq
  rw [hc] at hc1; cases hc1
  have hj : j < π.opening.columns.length := by
    rcases Nat.lt_or_ge j π.opening.columns.length with h | h
    · exact h
    · rw [List.getElem?_eq_none_iff.2 h] at hc; cases hc
  rw [List.getElem?_set_self hj] at hc2
  cases hc2
  rw [hx1] at hx2; cases hx2
  exact hne (hd2.trans hd1.symm)

/-- **the announced codeword length influences the decision**: a transcript in the relation leaves
it when the commitment's `n_ext_cols` is changed (whatever positions the changed transcript yields),
because `E(v)` has one length only -/
theorem lincode_metadata_matters (pp : Params F D) (point : Point F) (c : Comm D) (value : F)
    (π : Proof F D) (o o' : Oracle F) (h : LinCodeRelation pp point c value π o) (k' : Nat)
    (hne : k' ≠ c.nExtCols) (value' : F) :
    ¬ LinCodeRelation pp point { c with nExtCols := k' } value' π o' := by
  obtain ⟨a1, ⟨_, _, _, w, b1, hw, hl, _⟩, _⟩ := h
  rintro ⟨a2, ⟨_, _, _, w2, b2, hw2, hl2, _⟩, _⟩
  rw [hw] at hw2; cases hw2
  exact hne (hl2.symm.trans hl)

/-- … hence `check` does not accept it -/
theorem lincode_metadata_tamper_not_accepted (pp : Params F D) (point : Point F) (c : Comm D)
    (value : F) (π : Proof F D) (o o' : Oracle F)
    (h : checkOne pp point c value π o = .ok true) (k' : Nat) (hne : k' ≠ c.nExtCols) (value' : F) :
    checkOne pp point { c with nExtCols := k' } value' π o' ≠ .ok true := fun h' =>
  lincode_metadata_matters pp point c value π o o'
    ((lincode_check_one_iff_relation pp point c value π o).1 h) k' hne value'
    ((lincode_check_one_iff_relation pp point _ value' π o').1 h')

/-! non-vacuity: the relation holds for the toy honest proof, the decision is `Ok(true)` -/
example : LinCodeRelation (toyPP true) (.uni 5)
    ⟨2, 2, 4, merkleRoot toyHashes (leavesOf (toyPP true) (extOf (toyPP true) [1, 2, 3] toyE 4))⟩
    (dot (vecMat (tensorUni (5 : K) 2 2).2 (coeffMat (toyPP true).dims [1, 2, 3]).rows 2)
      (tensorUni (5 : K) 2 2).1)
    (honestProof (toyPP true) [1, 2, 3] toyE 4 (tensorUni (5 : K) 2 2).2 ⟨[7, 9], [2, 0, 3]⟩)
    ⟨[7, 9], [2, 0, 3]⟩ :=
  lincode_honest_in_relation (toyPP true) (.uni 5) [1, 2, 3] toyE 4 (toy_encodes _ _ (by decide)) _ _ _ rfl
    (by decide) (by decide) (by decide)
example : toyRun true (.uni 5) [1, 2, 3] ⟨[7, 9], [2, 0, 3]⟩ (evalPoly [1, 2, 3] 5) = .ok true := by
  decide
example : toyRun true (.uni 5) [1, 2, 3] ⟨[7, 9], [2, 0, 3]⟩ 0 = .ok false := by decide
/-- the toy honest transcript with the announced codeword length changed from 4 to 2 is refused -/
example : (2 : Nat) ≠ 4 ∧ (match commit (toyPP true) [1, 2, 3] with
    | .ok (c, st) =>
      match openOne (toyPP true) (.uni 5) c st ⟨[7, 9], [1, 0]⟩ with
      | .ok π => checkOne (toyPP true) (.uni 5) { c with nExtCols := 2 } (evalPoly [1, 2, 3] 5) π
          ⟨[7, 9], [1, 0]⟩
      | .error e => .error e
    | .error e => .error e) = .error .invalidCommitment := by decide

end PCV.C10
