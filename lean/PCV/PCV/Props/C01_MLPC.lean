/-
  Property C01 (multilinear PST, `multilinear_pc`) — completeness: for every number of variables,
  every evaluation vector, every point, every trapdoor and generators, the honest proof of the true
  evaluation is accepted.  Lemmas are in PCV/Proofs/MLPC*.lean.
-/
import PCV.Proofs.MLPCProps
import PCV.Props.Examples

namespace PCV.C01
open PCV
set_option linter.unusedSectionVars false
variable {F : Type} [Field F] [DecidableEq F]

/-- **Multilinear PST, completeness.**  Parameters made by `setup` for `nv ≥ 1` variables from any
generators `g, h` and any trapdoor `t ∈ F^nv`, trimmed to any `1 ≤ s ≤ nv`; any multilinear
polynomial in `s` variables (its `2^s` hypercube evaluations) and any point `z ∈ F^s`: whatever
`commit` and `open` return, `check` accepts the value `f̃(z)` (ark-poly's `evaluate`). -/
theorem mlpc_complete (nv s : Nat) (g h : F) (t evals z : List F)
    (ht : t.length = nv) (hs1 : 1 ≤ s) (hs : s ≤ nv) (he : evals.length = 2 ^ s) (hz : z.length = s)
    (pp : MLPC.UParams F) (ck : MLPC.CK F) (vk : MLPC.VK F) (c : MLPC.Commitment F) (πs : List F)
    (hsetup : MLPC.setup nv g h t = .ok pp) (htrim : MLPC.trim pp s = .ok (ck, vk))
    (hc : MLPC.commit ck s evals = .ok c) (ho : MLPC.open ck s evals z = .ok πs) :
    MLPC.check vk c z (MLPC.mleEval evals z) πs = .ok true := by
  obtain ⟨h1, h2, h3, h4, h5⟩ := MLPC.honest_run nv s g h t evals z ht hs1 hs he hz
  rw [h1] at hsetup; cases hsetup
  rw [h2] at htrim; cases htrim
  rw [h3] at hc; cases hc
  rw [h4] at ho; cases ho
  exact h5

/-- **Multilinear PST, the honest run never refuses.**  Under the same quantifiers `setup`, `trim`,
`commit` and `open` all answer (no abort). -/
theorem mlpc_honest_total (nv s : Nat) (g h : F) (t evals z : List F)
    (ht : t.length = nv) (hs1 : 1 ≤ s) (hs : s ≤ nv) (he : evals.length = 2 ^ s) (hz : z.length = s) :
    ∃ pp ck vk c πs, MLPC.setup nv g h t = .ok pp ∧ MLPC.trim pp s = .ok (ck, vk)
      ∧ MLPC.commit ck s evals = .ok c ∧ MLPC.open ck s evals z = .ok πs := by
  obtain ⟨h1, h2, h3, h4, _⟩ := MLPC.honest_run nv s g h t evals z ht hs1 hs he hz
  exact ⟨_, _, _, _, _, h1, h2, h3, h4⟩

/-- **The mathematical core.**  `⟨evals, eqTable t⟩ = f̃(t)` and
`f̃(t) − f̃(z) = Σᵢ (tᵢ − zᵢ)·q̃ᵢ(t_{>i})` for the quotients of the code's `r/q` recursion. -/
theorem mlpc_quotient_identity (t z evals : List F) (hz : z.length = t.length)
    (he : evals.length = 2 ^ t.length) :
    dot evals (MLPC.eqTable t) = MLPC.mleEval evals t
    ∧ MLPC.mleEval evals t - MLPC.mleEval evals z
        = MLPC.quotSum t z (MLPC.quotients z evals) :=
  ⟨MLPC.dot_eqTable' t evals he, MLPC.quot_identity t z evals hz he⟩

/-- non-vacuity: a 3-variable key trimmed to 2 variables over `ZMod 101`; the whole run evaluated -/
example : MLPC.setup 3 (5 : K) 11 [3, 7, 20] = .ok (MLPC.wfParams 5 11 [3, 7, 20]) := by decide
example : MLPC.trim (MLPC.wfParams (5 : K) 11 [3, 7, 20]) 2
    = .ok (MLPC.wfCK 5 11 [7, 20], MLPC.wfVK 5 11 [7, 20]) := by decide
example : MLPC.commit (MLPC.wfCK (5 : K) 11 [7, 20]) 2 [1, 2, 3, 50] = .ok ⟨2, 19⟩ := by decide
example : MLPC.open (MLPC.wfCK (5 : K) 11 [7, 20]) 2 [1, 2, 3, 50] [8, 13] = .ok [31, 30] := by decide
example : MLPC.mleEval ([1, 2, 3, 50] : List K) [8, 13] = 72 := by decide
example : MLPC.check (MLPC.wfVK (5 : K) 11 [7, 20]) ⟨2, 19⟩ [8, 13] 72 [31, 30] = .ok true := by
  decide

end PCV.C01
