/-
  Property C07 (Hyrax) — commitments and proofs are blinded with fresh randomness from the caller's
  RNG.  Hyrax is always hiding: every ROW commitment carries its own blinding scalar under the
  dedicated generator `h`, and every opening proof is a Σ-protocol transcript masked by a fresh
  nonce vector `d` and fresh scalars `r_eval, r_d, r_b` — drawn separately for every polynomial of
  one `open` call.
-/
import PCV.Proofs.Hyrax
import PCV.Props.C01_Hyrax

set_option linter.unusedSectionVars false

namespace PCV.C07
open PCV PCV.Hyrax
variable {F : Type} [Field F] [DecidableEq F]

/-- **Row blinding.** A commitment to a `2^n`-table has `dim = 2^{n/2}` row commitments; row `i` is
`⟨key, rowᵢ⟩ + h·ρᵢ` where `ρ₀ … ρ_{dim−1}` are the first `dim` draws of the caller's RNG, kept as the
commitment state. -/
theorem hyrax_commit_blinding (ks : List F) (hh : F) (p : MLPoly F) (draws c : List F) (st : State F)
    (h : commitOne ks hh p draws = .ok (c, st)) :
    let dim := 2 ^ (p.nv / 2)
    st.randomness = draws.take dim ∧ st.randomness.length = dim ∧ c.length = dim ∧
    c = List.zipWith (fun row ρ => dot ks row + hh * ρ) (rowsOf p.evals dim dim) st.randomness := by
  obtain ⟨_, _, _, h4, h5, h6⟩ := commitOne_inv ks hh p draws c st h
  subst h6
  intro dim
  have hd : min dim draws.length = dim := Nat.min_eq_left h4
  refine ⟨rfl, ?_, ?_, ?_⟩
  · show (draws.take dim).length = dim
    rw [List.length_take]; exact hd
  · rw [h5, rowCommits_length]
    show min ((rowsOf p.evals dim dim).length) ((draws.take dim).length) = dim
    rw [List.length_take, hd]; simp [rowsOf]
  · rw [h5]; rfl

/-- **Fresh draws per polynomial (commit).** The second and later polynomials of one `commit` call
are blinded by the draws that FOLLOW those of the earlier ones — no scalar is used twice. -/
theorem hyrax_commit_fresh_per_polynomial (ks : List F) (hh : F) (p : MLPoly F) (ps : List (MLPoly F))
    (draws : List F) (coms : List (List F)) (sts : List (State F)) (rest : List F)
    (h : commit ks hh (p :: ps) draws = .ok (coms, sts, rest)) :
    ∃ c st cs' sts', commitOne ks hh p draws = .ok (c, st) ∧
      commit ks hh ps (draws.drop (2 ^ (p.nv / 2))) = .ok (cs', sts', rest) ∧
      coms = c :: cs' ∧ sts = st :: sts' :=
  commit_cons_inv ks hh p ps draws coms sts rest h

/-- **Proof blinding.** The proof for one polynomial is the Σ-protocol transcript
`com_eval = eval·K₀ + r_eval·h`, `com_d = ⟨key,d⟩ + r_d·h`, `com_b = ⟨R,d⟩·K₀ + r_b·h`,
`z = d + c·(L·T)`, `z_d = c·⟨L,ρ⟩ + r_d`, `z_b = c·r_eval + r_b`, with `r_eval, d, r_d, r_b` the next
`dim+3` draws of the caller's RNG. -/
theorem hyrax_proof_blinding (ks : List F) (hh : F) (L R ρ evals : List F) (dim : Nat)
    (draws : List F) (ch : F) (π : Proof F)
    (h : openOne ks hh L R ⟨ρ, ⟨dim, dim, rowsOf evals dim dim⟩⟩ (drawREval draws) (drawD dim draws)
      (drawRD dim draws) (drawRB dim draws) ch = .ok π) :
    ∃ k0, key0 ks = some k0 ∧
      π.comEval = k0 * dot (ltOf L evals dim) R + hh * drawREval draws ∧
      π.comD = dot ks (drawD dim draws) + hh * drawRD dim draws ∧
      π.comB = k0 * dot R (drawD dim draws) + hh * drawRB dim draws ∧
      π.z = vectorSum (drawD dim draws) (scalarByVector ch (ltOf L evals dim)) ∧
      π.zD = ch * dot L ρ + drawRD dim draws ∧
      π.zB = ch * drawREval draws + drawRB dim draws := by
  obtain ⟨_, _, k0, hk, hπ⟩ := openOne_inv ks hh L R ρ evals dim _ _ _ _ ch π h
  subst hπ
  exact ⟨k0, hk, rfl, rfl, rfl, rfl, rfl, rfl⟩

omit [DecidableEq F] in
/-- **Fresh nonces per polynomial (open).** Inside one `open` call the `k`-th polynomial's transcript
uses draws `k·(dim+3) … (k+1)·(dim+3) − 1`: the nonce vector and blinders are never shared between two
proofs (sharing them would reveal `c₁·(L·T₁) − c₂·(L·T₂)` from `z₁ − z₂`). -/
theorem hyrax_open_fresh_per_polynomial (ks : List F) (hh : F) (L R : List F) (n dim : Nat)
    (it : OpenItem F) (its : List (OpenItem F)) (draws cs : List F) (πs : List (Proof F))
    (h : openLoop ks hh L R n dim (it :: its) draws cs = .ok πs) :
    ∃ c cs' π πs', cs = c :: cs' ∧ dim + 3 ≤ draws.length ∧
      openOne ks hh L R it.st (drawREval draws) (drawD dim draws) (drawRD dim draws)
        (drawRB dim draws) c = .ok π ∧
      openLoop ks hh L R n dim its (draws.drop (dim + 3)) cs' = .ok πs' ∧ πs = π :: πs' := by
  obtain ⟨c, cs', π, πs', h1, _, _, h4, h5, h6, h7⟩ := openLoop_cons_inv ks hh L R n dim it its draws cs πs h
  exact ⟨c, cs', π, πs', h1, h4, h5, h6, h7⟩

omit [DecidableEq F] in
/-- **The response vector is perfectly masked.** For every secret vector `lt = L·T`, challenge `c`
and every candidate response `z` of the right length there is exactly one nonce vector `d` that
produces it — so a uniformly random `d` makes `z` uniformly random whatever the secret is. -/
theorem hyrax_response_masked (lt z : List F) (c : F) (hl : z.length = lt.length) :
    ∃ d, d.length = lt.length ∧ vectorSum d (scalarByVector c lt) = z ∧
      ∀ d', d'.length = lt.length → vectorSum d' (scalarByVector c lt) = z → d' = d := by
  induction lt generalizing z with
  | nil =>
    cases z with
    | nil =>
      refine ⟨[], rfl, by simp [vectorSum], ?_⟩
      intro d' hd' _; exact List.eq_nil_of_length_eq_zero hd'
    | cons a as => simp at hl
  | cons t ts ih =>
    cases z with
    | nil => simp at hl
    | cons a as =>
      simp only [List.length_cons, Nat.add_right_cancel_iff] at hl
      obtain ⟨d, hd1, hd2, hd3⟩ := ih as hl
      refine ⟨(a - t * c) :: d, by simp [hd1], ?_, ?_⟩
      · simp only [vectorSum, scalarByVector, List.map_cons, List.zipWith_cons_cons] at hd2 ⊢
        rw [hd2]; congr 1; ring
      · intro d' hd' he
        cases d' with
        | nil => simp at hd'
        | cons x xs =>
          simp only [List.length_cons, Nat.add_right_cancel_iff] at hd'
          simp only [vectorSum, scalarByVector, List.map_cons, List.zipWith_cons_cons,
            List.cons.injEq] at he
          have := hd3 xs hd' (by simpa [vectorSum, scalarByVector] using he.2)
          rw [this]; congr 1
          rw [← he.1]; ring

/-! non-vacuity: the worked example of C01_Hyrax — two polynomials, draws `10,20 | 2,4` at commit and
`1,2,3,4,5 | 6,7,8,9,10` at open -/
example : commit ([3, 5] : List K) 7 C01.hyraxExPolys [10, 20, 2, 4]
    = .ok (C01.hyraxExComs, C01.hyraxExStates, []) := by decide
example : (C01.hyraxExProofs.map (·.comD)) ≠ [] ∧
    (C01.hyraxExProofs.map (·.comD)).Nodup := by decide

end PCV.C07
