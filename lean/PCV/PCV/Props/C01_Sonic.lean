/-
  Property C01 — completeness, SonicKZG10 (`sonic_pc`): honest proofs of true evaluation claims are
  always accepted, single point and batched (trait-default `batch_open`, Sonic `batch_check`).
  Only property theorems live here; lemmas are in PCV/Proofs/Sonic*.lean.
-/
import PCV.Proofs.SonicExamples

namespace PCV.C01
open PCV PCV.Sonic
open PCV.Marlin (Label LPoly Query groupQueries lookupLast lookupEval)
variable {F : Type} [Field F] [DecidableEq F]

/-- **SonicKZG10, one polynomial.**  For parameters made by `setup` from any trapdoor `β`
(`bi = β⁻¹`) and generators `g, γ, h`, any `trim` arguments the library accepts, one polynomial with
any admissible degree bound and hiding bound, any RNG stream, point and challenges: if `commit`
returns `(c, r)` and `open` returns `π`, `check` accepts the true value `p(z)`. -/
theorem sonic_complete_single (g γ β bi h : F) (hb : β * bi = 1) (D s shb : Nat)
    (bounds : Option (List Nat)) (ck : CK F) (vk : VK F)
    (ht : trim (wfPP g γ β bi h D) s shb bounds = .ok (ck, vk))
    (p : LPoly F) (rng : Bool) (draws : List F) (cs : List (LComm F)) (rs : List (List F))
    (drest : List F) (hc : commit ck [p] rng draws = .ok (cs, rs, drest))
    (z : F) (ξs : List F) (π : KZG.Proof F) (rest : List F)
    (ho : Sonic.open ck [p] z rs ξs = .ok (π, rest)) :
    check vk cs z [evalPoly p.poly z] π ξs = .ok (true, rest) :=
  open_check_complete g γ β bi h hb D s shb bounds ck vk ht cs [p] rs
    (commit_honest g γ β bi h hb D s shb bounds ck vk ht [p] rng draws cs rs drest hc) z ξs π rest ho

/-- **SonicKZG10, any list of polynomials** (any mix of degree bounds — each bounded polynomial has
ONE commitment under the shifted powers — and hiding bounds): `trim → commit → open → check` accepts
the true values, and the verifier is left with the same unused challenges as the prover. -/
theorem sonic_complete (g γ β bi h : F) (hb : β * bi = 1) (D s shb : Nat)
    (bounds : Option (List Nat)) (ck : CK F) (vk : VK F)
    (ht : trim (wfPP g γ β bi h D) s shb bounds = .ok (ck, vk))
    (ps : List (LPoly F)) (rng : Bool) (draws : List F) (cs : List (LComm F)) (rs : List (List F))
    (drest : List F) (hc : commit ck ps rng draws = .ok (cs, rs, drest))
    (z : F) (ξs : List F) (π : KZG.Proof F) (rest : List F)
    (ho : Sonic.open ck ps z rs ξs = .ok (π, rest)) :
    check vk cs z (ps.map fun p => evalPoly p.poly z) π ξs = .ok (true, rest) :=
  open_check_complete g γ β bi h hb D s shb bounds ck vk ht cs ps rs
    (commit_honest g γ β bi h hb D s shb bounds ck vk ht ps rng draws cs rs drest hc) z ξs π rest ho

/-- **The prover never refuses what the committer accepted**: `open` answers (no error, no abort)
whenever the sponge supplies its `1 + n` challenges. -/
theorem sonic_open_total (g γ β bi h : F) (hb : β * bi = 1) (D s shb : Nat)
    (bounds : Option (List Nat)) (ck : CK F) (vk : VK F)
    (ht : trim (wfPP g γ β bi h D) s shb bounds = .ok (ck, vk))
    (ps : List (LPoly F)) (rng : Bool) (draws : List F) (cs : List (LComm F)) (rs : List (List F))
    (drest : List F) (hc : commit ck ps rng draws = .ok (cs, rs, drest))
    (z : F) (ξs : List F) (hξ : ps.length < ξs.length) :
    ∃ π rest, Sonic.open ck ps z rs ξs = .ok (π, rest) :=
  open_ok_of_honest g γ β bi h hb D s shb bounds ck vk ht cs ps rs
    (commit_honest g γ β bi h hb D s shb bounds ck vk ht ps rng draws cs rs drest hc) z ξs hξ

/-- **Batched form.**  Proofs made by the trait-default `batch_open` for any query set (several
polynomials per point label, several labels sharing a point) are accepted by Sonic's `batch_check`
together with the true evaluations, for **every** list `vrs` of verifier randomizers. -/
theorem sonic_batch_complete (g γ β bi h : F) (hb : β * bi = 1) (D s shb : Nat)
    (bounds : Option (List Nat)) (ck : CK F) (vk : VK F)
    (ht : trim (wfPP g γ β bi h D) s shb bounds = .ok (ck, vk))
    (ps : List (LPoly F)) (rng : Bool) (draws : List F) (cs : List (LComm F)) (rs : List (List F))
    (drest : List F) (hc : commit ck ps rng draws = .ok (cs, rs, drest))
    (qs : List (Query F)) (evals : List ((Label × F) × F))
    (hev : ∀ gr ∈ groupQueries qs, ∀ l ∈ gr.2.2, ∀ x,
      lookupLast (fun (x : LPoly F × List F) => x.1.label) l (ps.zip rs) = some x →
      lookupEval evals l gr.2.1 = some (evalPoly x.1.poly gr.2.1))
    (ξs : List F) (πs : List (KZG.Proof F)) (rest : List F)
    (ho : batchOpen ck ps rs qs ξs = .ok (πs, rest)) (vrs : List F) :
    batchCheck vk cs qs evals πs ξs vrs = .ok true :=
  batch_complete g γ β bi h hb D s shb bounds ck vk ht ps rng draws cs rs drest hc qs evals hev
    ξs πs rest ho vrs

/-- non-vacuity: a concrete transcript over `ZMod 101` (bounded + hiding, unbounded, bounded)
satisfies every hypothesis, and the model verifier accepts it -/
example : (2 : K) * 51 = 1 ∧ trim Ex.pp 3 1 (some [3, 2, 3]) = .ok (Ex.ck, Ex.vk) ∧
    commit Ex.ck Ex.polys true [7, 0, 9, 4] = .ok (Ex.comms, Ex.rands, [4]) ∧
    Sonic.open Ex.ck Ex.polys 5 Ex.rands Ex.xis = .ok (Ex.proof, [23]) :=
  ⟨Ex.inv, Ex.trim_eq, Ex.commit_eq, Ex.open_eq⟩
example : check Ex.vk Ex.comms 5 (Ex.polys.map fun p => evalPoly p.poly 5) Ex.proof Ex.xis
    = .ok (true, [23]) := by decide
/-- non-vacuity of the batched form: two point labels, the second polynomial at both -/
example : batchOpen Ex.ck Ex.polys Ex.rands
      [([112, 48], ([97], 5)), ([112, 49], ([97], 5)), ([112, 49], ([98], 9)), ([112, 50], ([98], 9))]
      [11, 13, 17, 19, 23, 29, 31]
    = .ok ([⟨53, some 27⟩, ⟨90, none⟩], [31]) := by decide
example : batchCheck Ex.vk Ex.comms
      [([112, 48], ([97], 5)), ([112, 49], ([97], 5)), ([112, 49], ([98], 9)), ([112, 50], ([98], 9))]
      [(([112, 48], 5), evalPoly [1, 2, 3] 5), (([112, 49], 5), evalPoly [4, 0, 1] 5),
       (([112, 49], 9), evalPoly [4, 0, 1] 9), (([112, 50], 9), evalPoly [6, 1] 9)]
      [⟨53, some 27⟩, ⟨90, none⟩] [11, 13, 17, 19, 23, 29, 31] [44] = .ok true := by decide

end PCV.C01
