/-
  Property C03 — no crafted or malformed proof proves a false claim (attack catalogue on the exact
  model; arbitrary adversaries are the scheme's hardness assumption, DESIGN §3 — the *partial* part).
-/
import PCV.Proofs.KZG10
import PCV.Proofs.KZG10Extract
import PCV.Props.Examples

namespace PCV.C03
open PCV
variable {F : Type} [Field F] [DecidableEq F]

/-- **KZG10, single-component replacement (witness).** For a fixed statement and `random_v`,
the defect is affine in the witness element with coefficient `−(β − z)·h`: if `β ≠ z` and `h ≠ 0`
at most one witness value is accepted. -/
theorem kzg10_witness_unique (g γ β h c z v : F) (rv : Option F) (w₁ w₂ : F)
    (hz : β ≠ z) (hh : h ≠ 0)
    (h₁ : KZG.check (KZG.wfVK g γ β h) c z v ⟨w₁, rv⟩ = true)
    (h₂ : KZG.check (KZG.wfVK g γ β h) c z v ⟨w₂, rv⟩ = true) : w₁ = w₂ := by
  rw [KZG.check_iff_defect] at h₁ h₂
  unfold KZG.defect KZG.wfVK at h₁ h₂
  simp only at h₁ h₂
  have : (w₁ - w₂) * ((β - z) * h) = 0 := by linear_combination h₂ - h₁
  rcases mul_eq_zero.1 this with h0 | h0
  · exact sub_eq_zero.1 h0
  · rcases mul_eq_zero.1 h0 with h1 | h1
    · exact absurd (sub_eq_zero.1 h1) hz
    · exact absurd h1 hh

/-- **KZG10, forged value with the honest witness.** With the honest proof, a false value is
accepted only if `random_v` is changed to compensate exactly: `dv·g + drv·γ = 0`. -/
theorem kzg10_value_and_rv (g γ β h c z v w rv dv drv : F) (hh : h ≠ 0)
    (h₁ : KZG.check (KZG.wfVK g γ β h) c z v ⟨w, some rv⟩ = true) :
    KZG.check (KZG.wfVK g γ β h) c z (v + dv) ⟨w, some (rv + drv)⟩ = true ↔ dv * g + drv * γ = 0 := by
  rw [KZG.check_iff_defect] at h₁ ⊢
  unfold KZG.defect KZG.wfVK KZG.rvVal at h₁ ⊢
  simp only at h₁ ⊢
  constructor
  · intro h2
    have : (dv * g + drv * γ) * h = 0 := by linear_combination h₁ - h2
    rcases mul_eq_zero.1 this with h0 | h0
    · exact h0
    · exact absurd h0 hh
  · intro h2
    linear_combination h₁ - h * h2

/-- **KZG10, prover run on another polynomial.** The honest prover run on `q` (same blinding)
against the commitment of `p`, claiming `q(z)`, is accepted iff `g·h·(p(β) − q(β)) = 0`:
for `g, h ≠ 0` only when `q` agrees with `p` at the trapdoor. -/
theorem kzg10_other_poly (g γ β h : F) (n m : Nat) (p q r : List F) (z : F) (π : KZG.Proof F)
    (hr : (pnorm r).length ≤ m)
    (ho : KZG.open (KZG.wfPowers g γ β n m) q z r = .ok π) :
    KZG.check (KZG.wfVK g γ β h) (g * evalPoly p β + γ * evalPoly r β) z (evalPoly q z) π = true
      ↔ h * (g * (evalPoly p β - evalPoly q β)) = 0 := by
  rw [KZG.check_iff_defect]
  have := KZG.honest_defect g γ β h n m q r z π hr ho (g * (evalPoly p β - evalPoly q β)) 0 0
  simp only [add_zero, mul_zero, zero_mul, sub_zero] at this
  have e : g * evalPoly p β + γ * evalPoly r β
      = g * evalPoly q β + γ * evalPoly r β + g * (evalPoly p β - evalPoly q β) := by ring
  rw [e, this]

/-- **KZG10 batch, shape.** `KZG10::batch_check` refuses commitment / point / value / proof
slices of different lengths (missing, surplus or empty proof lists). -/
theorem kzg10_batch_shape_refused (vk : KZG.VK F) (cs zs vs : List F) (πs : List (KZG.Proof F))
    (rs : List F)
    (hl : ¬ (cs.length = zs.length ∧ cs.length = vs.length ∧ cs.length = πs.length)) :
    KZG.batchCheck vk cs zs vs πs rs = .error .incorrectInputLength :=
  KZG.batchCheck_shape vk cs zs vs πs rs hl

example : KZG.check (KZG.wfVK (3 : K) 5 2 1) 64 5 (evalPoly [1, 2, 3] 5) ⟨81, some 30⟩ = true ∧
    (2 : K) ≠ 5 ∧ (1 : K) ≠ 0 := by decide

/-- **KZG10, any algebraic forger solves the hardness problem (non-hiding).**  A forger that builds
its witness from the published key, `W = Σ aᵢ·(βⁱg)` — any coefficients, any number of them — and
gets a value `v ≠ p(z)` accepted against the honest commitment of `p` has in its hands the
polynomial `p − v − a·(X − z)`: known coefficients, not the zero polynomial (value `p(z) − v` at
`z`), and the secret trapdoor is one of its roots.  This is the reduction the scheme's evaluation
binding rests on, stated for every `p`, `a`, `z`, `v` and every key. -/
theorem kzg10_algebraic_forgery_reveals_trapdoor (g γ β h : F) (p a : List F) (z v : F)
    (hg : g ≠ 0) (hh : h ≠ 0) (hv : v ≠ evalPoly p z)
    (hacc : KZG.check (KZG.wfVK g γ β h) (g * evalPoly p β) z v ⟨g * evalPoly a β, none⟩ = true) :
    evalPoly (KZG.extractPoly p a z v) β = 0 ∧ evalPoly (KZG.extractPoly p a z v) z ≠ 0 := by
  obtain ⟨h1, h2⟩ := KZG.forgery_gives_root g γ β h p a z v hg hh hacc
  exact ⟨h1, by rw [h2]; exact fun h0 => hv (sub_eq_zero.1 h0).symm⟩

/-- the same counted over trapdoors: for fixed `p`, `z`, false `v` and forger coefficients `a`, all
but at most `max(|p|, |a|+1) − 1` trapdoors reject the forgery -/
theorem kzg10_algebraic_forgery_exceptional_set (p a : List F) (z v : F) (hv : v ≠ evalPoly p z) :
    ∃ S : Finset F, S.card ≤ max (max p.length 1) (a.length + 1) - 1 ∧
      ∀ (g γ β h : F), g ≠ 0 → h ≠ 0 → β ∉ S →
        KZG.check (KZG.wfVK g γ β h) (g * evalPoly p β) z v ⟨g * evalPoly a β, none⟩ = false :=
  KZG.forgery_exceptional_set p a z v hv

/-- **KZG10, algebraic forger against a hiding commitment.**  With `W = Σ aᵢ·(βⁱg) + Σ bᵢ·(βⁱγg)` and
any `random_v`: an accepted false value means the trapdoor is a root of the non-zero polynomial
`p − v − a·(X − z)`, or the forger has written the hiding generator as an explicit multiple of the
plain one (`γ = −g·Q_g(β)/Q_γ(β)`), which the setup's independent sampling of `γ` is there to prevent. -/
theorem kzg10_algebraic_forgery_hiding (g γ β h : F) (p r a b : List F) (z v rv : F)
    (hg : g ≠ 0) (hh : h ≠ 0) (hv : v ≠ evalPoly p z)
    (hacc : KZG.check (KZG.wfVK g γ β h) (g * evalPoly p β + γ * evalPoly r β) z v
      ⟨g * evalPoly a β + γ * evalPoly b β, some rv⟩ = true) :
    evalPoly (KZG.extractPoly p a z v) z ≠ 0 ∧
    ((evalPoly (KZG.extractPoly p a z v) β = 0 ∧ γ * evalPoly (KZG.extractPoly r b z rv) β = 0) ∨
     (evalPoly (KZG.extractPoly r b z rv) β ≠ 0 ∧
      γ = -(g * evalPoly (KZG.extractPoly p a z v) β) / evalPoly (KZG.extractPoly r b z rv) β)) := by
  obtain ⟨_, h2, h3⟩ := KZG.forgery_hiding_dichotomy g γ β h p r a b z v rv hg hh hacc
  exact ⟨by rw [h2]; exact fun h0 => hv (sub_eq_zero.1 h0).symm, h3⟩

/-- non-vacuity: over `ZMod 101` with trapdoor `β = 2`, `p = 1 + 2X + 3X²`, `z = 5`: the forger
coefficients `a = [57]` get the false value `p(5) + 1` accepted exactly because `β = 2` is a root of
the extraction polynomial, which is not zero at `z` -/
example : KZG.check (KZG.wfVK (3 : K) 5 2 1) (3 * evalPoly [1, 2, 3] 2) 5 (evalPoly [1, 2, 3] 5 + 1)
      ⟨3 * evalPoly [57] 2, none⟩ = true ∧
    evalPoly (KZG.extractPoly ([1, 2, 3] : List K) [57] 5 (evalPoly [1, 2, 3] 5 + 1)) 2 = 0 ∧
    evalPoly (KZG.extractPoly ([1, 2, 3] : List K) [57] 5 (evalPoly [1, 2, 3] 5 + 1)) 5 ≠ 0 := by decide

end PCV.C03
