/-
  Property C03 (no crafted or malformed proof proves a false claim) — Hyrax, the attack catalogue on
  the exact model.  Arbitrary adversaries are the discrete-log / Pedersen-binding assumption
  (DESIGN §3): in exponent form the one forgery that works, `hyrax_value_and_r_eval`, needs the
  discrete log of `com_key[0]` with respect to `h`.
-/
import PCV.Proofs.Hyrax
import PCV.Props.Examples

namespace PCV.C03
open PCV
variable {F : Type} [Field F] [DecidableEq F]

/-! ### (iv) shapes -/

/-- **Hyrax, wrong number of proofs or values.** `check` refuses (`IncorrectInputLength`) unless
there is exactly one value and one proof per commitment — missing, surplus and empty proof
vectors included (the D2 repair). -/
theorem hyrax_wrong_number_refused (ks : List F) (hh : F) (coms : List (List F)) (point vs : List F)
    (πs : List (Hyrax.Proof F)) (cs : List F) (hn : point.length % 2 = 0)
    (h : coms.length ≠ πs.length ∨ vs.length ≠ πs.length) :
    Hyrax.check ks hh coms point vs πs cs = .error .incorrectInputLength :=
  Hyrax.check_lengths ks hh coms point vs πs cs hn h

/-- **Hyrax, odd number of variables** is refused. -/
theorem hyrax_odd_point_refused (ks : List F) (hh : F) (coms : List (List F)) (point vs : List F)
    (πs : List (Hyrax.Proof F)) (cs : List F) (hn : point.length % 2 = 1) :
    Hyrax.check ks hh coms point vs πs cs = .error .invalidNumVars :=
  Hyrax.check_odd ks hh coms point vs πs cs hn

/-- **Hyrax, shapes of an accepted transcript.** If `check` accepts, every commitment has exactly
`2^(n/2)` row commitments and every `z` has exactly as many entries as the key (so a stretched or
shortened `z`, or a commitment with a missing / surplus row, is never accepted), and a challenge
was squeezed for every proof. -/
theorem hyrax_accept_shapes (ks : List F) (hh : F) (coms : List (List F)) (point vs : List F)
    (πs : List (Hyrax.Proof F)) (cs : List F)
    (h : Hyrax.check ks hh coms point vs πs cs = .ok true) :
    (∀ c ∈ coms, c.length = 2 ^ (point.length / 2)) ∧ (∀ π ∈ πs, π.z.length = ks.length) ∧
      coms.length = πs.length ∧ vs.length = πs.length := by
  have a := (Hyrax.check_iff ks hh coms point vs πs cs).1 h
  have a' := (Hyrax.checkLoop_iff ks hh _ _ _ coms vs πs cs a.2.1 a.2.2.1).2 ⟨a.2.2.2.1, a.2.2.2.2⟩
  obtain ⟨s1, s2, _⟩ := Hyrax.checkLoop_shapes ks hh _ _ _ πs coms vs cs a.2.1 a.2.2.1 a'
  exact ⟨s1, s2, a.2.1, a.2.2.1⟩

/-- **Hyrax, `row_coms` of the wrong length (single polynomial), exact outcome:** once the
evaluation commitment test passes, the verifier refuses with `IncorrectCommitmentSize`. -/
theorem hyrax_row_coms_length_refused (ks : List F) (hh k0 : F) (T point : List F) (v : F)
    (π : Hyrax.Proof F) (cs : List F) (hn : point.length % 2 = 0) (hk : Hyrax.key0 ks = some k0)
    (he : Hyrax.defectEval k0 hh v π = 0) (hT : T.length ≠ 2 ^ (point.length / 2)) :
    Hyrax.check ks hh [T] point [v] [π] cs = .error .invalidCommitment := by
  unfold Hyrax.check
  simp only [List.length_cons, List.length_nil]
  rw [if_neg (by omega), if_neg (by simp)]
  unfold Hyrax.checkLoop Hyrax.preCheck
  simp [hk, he, hT]

/-- **Hyrax, `z` of the wrong length (single polynomial), exact outcome:** if the first two tests
pass (a stretched `z` leaves `⟨R,z⟩` unchanged, so they can), `pedersen_commit` aborts. -/
theorem hyrax_z_length_refused (ks : List F) (hh k0 : F) (T point : List F) (v : F)
    (π : Hyrax.Proof F) (c : F) (cs : List F) (hn : point.length % 2 = 0)
    (hk : Hyrax.key0 ks = some k0) (he : Hyrax.defectEval k0 hh v π = 0)
    (hT : T.length = 2 ^ (point.length / 2))
    (h14 : Hyrax.defect14 k0 hh (Hyrax.tensorR point) π c = 0) (hz : ks.length ≠ π.z.length) :
    Hyrax.check ks hh [T] point [v] [π] (c :: cs) = .error .abort := by
  unfold Hyrax.check
  simp only [List.length_cons, List.length_nil]
  rw [if_neg (by omega), if_neg (by simp)]
  unfold Hyrax.checkLoop Hyrax.preCheck Hyrax.postCheck
  simp [hk, he, hT, h14, hz]

/-! ### (iii) single-component replacement: components that are not hashed into the challenge -/

/-- the three defects of a single-polynomial check that accepts -/
theorem hyrax_single_accept (ks : List F) (hh : F) (T point : List F) (v : F) (π : Hyrax.Proof F)
    (c : F) (h : Hyrax.check ks hh [T] point [v] [π] [c] = .ok true) :
    ∃ k0, Hyrax.key0 ks = some k0 ∧ Hyrax.defectEval k0 hh v π = 0 ∧
      Hyrax.defect14 k0 hh (Hyrax.tensorR point) π c = 0 ∧
      Hyrax.defect13 ks hh (Hyrax.tensorL point) T π c = 0 := by
  have a := (Hyrax.check_iff ks hh [T] point [v] [π] [c]).1 h
  obtain ⟨k0, hk, _, _, e1, e2, e3⟩ := a.2.2.2.2 (T, v, π, c) (by simp)
  exact ⟨k0, hk, e1, e2, e3⟩

/-- **`z_d`.** The defect of equation (13) is affine in `z_d` with coefficient `h`: for a fixed
statement, challenge and remaining proof, at most one `z_d` is accepted (`h ≠ 0`). -/
theorem hyrax_zD_unique (ks : List F) (hh : F) (T point : List F) (v c ce cd cb : F) (z : List F)
    (zb re x₁ x₂ : F) (hh0 : hh ≠ 0)
    (h₁ : Hyrax.check ks hh [T] point [v] [⟨ce, cd, cb, z, x₁, zb, re⟩] [c] = .ok true)
    (h₂ : Hyrax.check ks hh [T] point [v] [⟨ce, cd, cb, z, x₂, zb, re⟩] [c] = .ok true) : x₁ = x₂ := by
  obtain ⟨_, _, _, _, a⟩ := hyrax_single_accept ks hh T point v _ c h₁
  obtain ⟨_, _, _, _, b⟩ := hyrax_single_accept ks hh T point v _ c h₂
  unfold Hyrax.defect13 at a b
  simp only at a b
  have : hh * (x₁ - x₂) = 0 := by linear_combination a - b
  rcases mul_eq_zero.1 this with h | h
  · exact absurd h hh0
  · exact sub_eq_zero.1 h

/-- **`z_b`.** Equation (14) is affine in `z_b` with coefficient `h`. -/
theorem hyrax_zB_unique (ks : List F) (hh : F) (T point : List F) (v c ce cd cb : F) (z : List F)
    (zd re x₁ x₂ : F) (hh0 : hh ≠ 0)
    (h₁ : Hyrax.check ks hh [T] point [v] [⟨ce, cd, cb, z, zd, x₁, re⟩] [c] = .ok true)
    (h₂ : Hyrax.check ks hh [T] point [v] [⟨ce, cd, cb, z, zd, x₂, re⟩] [c] = .ok true) : x₁ = x₂ := by
  obtain ⟨k1, hk1, _, a, _⟩ := hyrax_single_accept ks hh T point v _ c h₁
  obtain ⟨k2, hk2, _, b, _⟩ := hyrax_single_accept ks hh T point v _ c h₂
  rw [hk1] at hk2; cases hk2
  unfold Hyrax.defect14 at a b
  simp only at a b
  have : hh * (x₁ - x₂) = 0 := by linear_combination a - b
  rcases mul_eq_zero.1 this with h | h
  · exact absurd h hh0
  · exact sub_eq_zero.1 h

/-- **`r_eval`.** The evaluation-commitment equation is affine in `r_eval` with coefficient `−h`. -/
theorem hyrax_rEval_unique (ks : List F) (hh : F) (T point : List F) (v c ce cd cb : F) (z : List F)
    (zd zb x₁ x₂ : F) (hh0 : hh ≠ 0)
    (h₁ : Hyrax.check ks hh [T] point [v] [⟨ce, cd, cb, z, zd, zb, x₁⟩] [c] = .ok true)
    (h₂ : Hyrax.check ks hh [T] point [v] [⟨ce, cd, cb, z, zd, zb, x₂⟩] [c] = .ok true) : x₁ = x₂ := by
  obtain ⟨k1, hk1, a, _, _⟩ := hyrax_single_accept ks hh T point v _ c h₁
  obtain ⟨k2, hk2, b, _, _⟩ := hyrax_single_accept ks hh T point v _ c h₂
  rw [hk1] at hk2; cases hk2
  unfold Hyrax.defectEval at a b
  simp only at a b
  have : hh * (x₁ - x₂) = 0 := by linear_combination b - a
  rcases mul_eq_zero.1 this with h | h
  · exact absurd h hh0
  · exact sub_eq_zero.1 h

/-- **One entry of `z`.** Equation (13) is affine in `z[j]` with coefficient `com_key[j]`: if that
generator is not the identity, at most one value of `z[j]` is accepted. -/
theorem hyrax_z_entry_unique (ks : List F) (hh : F) (T point : List F) (v c ce cd cb : F)
    (z : List F) (zd zb re : F) (j : Nat) (x₁ x₂ : F) (hj : j < z.length)
    (hkj : getD' ks j 0 ≠ 0)
    (h₁ : Hyrax.check ks hh [T] point [v] [⟨ce, cd, cb, z.set j x₁, zd, zb, re⟩] [c] = .ok true)
    (h₂ : Hyrax.check ks hh [T] point [v] [⟨ce, cd, cb, z.set j x₂, zd, zb, re⟩] [c] = .ok true) :
    x₁ = x₂ := by
  obtain ⟨_, _, _, _, a⟩ := hyrax_single_accept ks hh T point v _ c h₁
  obtain ⟨_, _, _, _, b⟩ := hyrax_single_accept ks hh T point v _ c h₂
  unfold Hyrax.defect13 at a b
  simp only at a b
  have hs := Hyrax.dot_set_sub ks z j x₁ x₂ hj
  have : getD' ks j 0 * (x₁ - x₂) = 0 := by linear_combination a - b - hs
  rcases mul_eq_zero.1 this with h | h
  · exact absurd h hkj
  · exact sub_eq_zero.1 h

/-- **Forged value with a compensating `r_eval`.** From an accepted transcript, the statement with
value `v + dv` and the proof with `r_eval + dr` (nothing else changed; neither is hashed) is accepted
iff `dv·com_key[0] + dr·h = 0` — i.e. exactly when the forger knows the discrete log of
`com_key[0]` with respect to `h`; for `dr = 0` never (`hyrax_wrong_value_rejected`). -/
theorem hyrax_value_and_r_eval (ks : List F) (hh k0 : F) (T point : List F) (v c ce cd cb : F)
    (z : List F) (zd zb re dv dr : F) (hk : Hyrax.key0 ks = some k0)
    (h₁ : Hyrax.check ks hh [T] point [v] [⟨ce, cd, cb, z, zd, zb, re⟩] [c] = .ok true) :
    Hyrax.check ks hh [T] point [v + dv] [⟨ce, cd, cb, z, zd, zb, re + dr⟩] [c] = .ok true
      ↔ dv * k0 + dr * hh = 0 := by
  have a := (Hyrax.check_iff ks hh [T] point [v] [⟨ce, cd, cb, z, zd, zb, re⟩] [c]).1 h₁
  obtain ⟨k1, hk1, s1, s2, e1, e2, e3⟩ :=
    a.2.2.2.2 (T, v, (⟨ce, cd, cb, z, zd, zb, re⟩ : Hyrax.Proof F), c) (by simp)
  rw [hk] at hk1; cases hk1
  rw [Hyrax.check_iff]
  simp only [List.length_cons, List.length_nil, List.zip_cons_cons, List.zip_nil_right,
    List.forall_mem_cons, List.not_mem_nil]
  unfold Hyrax.ItemOK
  simp only [hk, Option.some.injEq, exists_eq_left']
  unfold Hyrax.defectEval at e1 ⊢
  unfold Hyrax.defect14 at e2 ⊢
  unfold Hyrax.defect13 at e3 ⊢
  simp only at e1 e2 e3 s1 s2 ⊢
  constructor
  · rintro ⟨_, _, _, _, ⟨_, _, f1, _, _⟩, _⟩
    linear_combination e1 - f1
  · intro g
    refine ⟨a.1, trivial, trivial, by omega, ⟨s1, s2, ?_, e2, e3⟩, by simp⟩
    linear_combination e1 - g

/-! ### (i)/(ii) proofs made for something else -/

/-- **Honest prover run on another polynomial / replayed against another commitment.** The honest
proof for `(q, st_q)` at `point`, presented against other row commitments `T'` (say those of `p`)
for the value `q̃(point)`, is accepted iff `⟨T',L⟩·c' = ⟨T_q,L⟩·ch` (given `com_eval·(c'−ch) = 0`,
e.g. equal challenges) — for honest `T' = commit(p)` a non-zero linear form in the key scalars
unless `Lᵀ·M_p = Lᵀ·M_q` and the blindings agree. A proof for another point: `C02.hyrax_wrong_point_iff`. -/
theorem hyrax_other_commitment_iff (ks : List F) (hh k0 : F) (q : Hyrax.MLPoly F) (ρs Tq : List F)
    (st : Hyrax.State F) (point : List F) (rEval : F) (d : List F) (rD rB ch : F)
    (π : Hyrax.Proof F) (hn : point.length % 2 = 0) (hk : Hyrax.key0 ks = some k0)
    (hc : Hyrax.commitOne ks hh q ρs = .ok (Tq, st))
    (ho : Hyrax.openOne ks hh (Hyrax.tensorL point) (Hyrax.tensorR point) st rEval d rD rB ch = .ok π)
    (T' : List F) (hT : T'.length = 2 ^ (point.length / 2)) (c' : F) (hcc : π.comEval * (c' - ch) = 0) :
    Hyrax.check ks hh [T'] point [Hyrax.mleEval q.evals point] [π] [c'] = .ok true
      ↔ dot T' (Hyrax.tensorL point) * c' = dot Tq (Hyrax.tensorL point) * ch := by
  obtain ⟨⟨k1, hk1, _, hz, e1, e2, e3⟩, _, _, _⟩ :=
    Hyrax.honest_item_ok ks hh q ρs Tq st point rEval d rD rB ch π hn hc ho
  rw [hk] at hk1; cases hk1
  rw [Hyrax.check_iff]
  simp only [List.length_cons, List.length_nil, List.zip_cons_cons, List.zip_nil_right,
    List.forall_mem_cons, List.not_mem_nil]
  unfold Hyrax.ItemOK
  simp only [hk, Option.some.injEq, exists_eq_left']
  unfold Hyrax.defect14 Hyrax.innerProduct at e2 ⊢
  unfold Hyrax.defect13 at e3 ⊢
  constructor
  · rintro ⟨_, _, _, _, ⟨_, _, _, _, f3⟩, _⟩
    linear_combination e3 - f3
  · intro g
    refine ⟨hn, trivial, trivial, by omega, ⟨hT, hz, e1, ?_, ?_⟩, by simp⟩
    · linear_combination e2 - hcc
    · linear_combination e3 - g

/-! non-vacuity over `ZMod 101` (the honest transcript of `C02_Hyrax`) -/

example : Hyrax.check ([3, 5] : List K) 7 [[88, 65]] [6, 17] [Hyrax.mleEval [1, 2, 3, 4] [6, 17]]
    [⟨29, 49, 92, [79, 1], 67, 16, 1⟩] [11] = .ok true ∧ (7 : K) ≠ 0 ∧ getD' ([3, 5] : List K) 1 0 ≠ 0 := by
  decide
/-- the compensated forgery: `dv = 1`, `dr = −3/7 = 14 (mod 101)` -/
example : Hyrax.check ([3, 5] : List K) 7 [[88, 65]] [6, 17] [Hyrax.mleEval [1, 2, 3, 4] [6, 17] + 1]
    [⟨29, 49, 92, [79, 1], 67, 16, 1 + 14⟩] [11] = .ok true ∧ (1 : K) * 3 + 14 * 7 = 0 := by decide
example : Hyrax.check ([3, 5] : List K) 7 [[88, 65]] [6, 17] [41] [] [11] = .error .incorrectInputLength ∧
    Hyrax.check ([3, 5] : List K) 7 [[88]] [6, 17] [41] [⟨29, 49, 92, [79, 1], 67, 16, 1⟩] [11]
      = .error .invalidCommitment ∧
    Hyrax.check ([3, 5] : List K) 7 [[88, 65]] [6, 17] [41] [⟨29, 49, 92, [79, 1, 0], 67, 16, 1⟩] [11]
      = .error .abort := by decide

end PCV.C03
