/-
  Property C01 (completeness) — Hyrax.  Model: `PCV.Model.Hyrax` (exponent form, arbitrary Pedersen
  key scalars `ks`, `hh`; RNG draws and sponge challenges are explicit inputs).
  Only property theorems live here; lemmas are in PCV/Proofs/Hyrax*.lean.
-/
import PCV.Proofs.Hyrax
import PCV.Props.Examples

namespace PCV.C01
open PCV
variable {F : Type} [Field F] [DecidableEq F]

omit [DecidableEq F] in
/-- **Hyrax, the algebraic core.** For EVERY even number of variables `n`, every table of `2^n`
hypercube evaluations and every point: the value ark-poly's `DenseMultilinearExtension::evaluate`
computes (little-endian variable order) equals `Lᵀ·M·R`, where `M` is the matrix
`flat_to_matrix_column_major` builds, `Lᵀ·M` is `Matrix::row_mul`, and `L`, `R` are the
`tensor_prime` vectors of the two halves of the reversed point, exactly as `open` computes them. -/
theorem hyrax_eval_is_LMR (evals point : List F) (rows : List (List F)) (lt : List F)
    (hn : point.length % 2 = 0) (he : evals.length = 2 ^ point.length)
    (hm : Hyrax.flatToMatrixColumnMajor evals (2 ^ (point.length / 2)) (2 ^ (point.length / 2))
            = .ok rows)
    (hl : Hyrax.Matrix.rowMul ⟨2 ^ (point.length / 2), 2 ^ (point.length / 2), rows⟩
            (Hyrax.tensorL point) = .ok lt) :
    Hyrax.mleEval evals point = Hyrax.innerProduct lt (Hyrax.tensorR point) := by
  have hlen : evals.length = 2 ^ (point.length / 2) * 2 ^ (point.length / 2) := by
    rw [he, ← pow_add]; congr 1; omega
  rw [Hyrax.flatToMatrix_ok _ _ _ hlen] at hm
  injection hm with hm
  subst hm
  rw [Hyrax.rowMul_rowsOf _ _ _ _ (Hyrax.tensorL_length point hn)] at hl
  injection hl with hl
  subst hl
  exact Hyrax.mleEval_eq_LMR evals point hn he

/-- **Hyrax completeness.** For every Pedersen key `ks, hh` (arbitrary scalars, so in particular
the hash-derived generators), every list of polynomials, every point, all blinding draws of
`commit`, all draws of `open` and every list of sponge challenges: if `commit` returns
`(coms, sts)` and `open`, run with these states (whatever the labels), returns `πs`, then `check`
accepts the evaluations `f̃ᵢ(point)` — the values ark-poly computes. (An even number of variables,
`2^n` evaluations and `nv = n` are enforced by `commit` / `open` themselves: the hypotheses `hc`,
`ho` carry them.) -/
theorem hyrax_complete (ks : List F) (hh : F) (polys : List (Hyrax.MLPoly F)) (point : List F)
    (ρdraws odraws cs : List F) (coms : List (List F)) (sts : List (Hyrax.State F)) (rest : List F)
    (items : List (Hyrax.OpenItem F)) (πs : List (Hyrax.Proof F))
    (hc : Hyrax.commit ks hh polys ρdraws = .ok (coms, sts, rest))
    (hst : items.map (·.st) = sts)
    (ho : Hyrax.open ks hh items point odraws cs = .ok πs) :
    Hyrax.check ks hh coms point (polys.map fun p => Hyrax.mleEval p.evals point) πs cs
      = .ok true := by
  unfold Hyrax.open at ho
  simp only at ho
  by_cases hn : point.length % 2 = 1
  · rw [if_pos hn] at ho; cases ho
  · rw [if_neg hn] at ho
    obtain ⟨h1, h2, h3, _, _⟩ := Hyrax.loops_complete ks hh point (by omega) polys ρdraws odraws cs
      coms sts rest items πs hc hst ho
    unfold Hyrax.check
    simp only
    rw [if_neg hn, if_neg (by simp [h2, h3])]
    exact h1

omit [DecidableEq F] in
/-- **Hyrax, the honest run never refuses.** With a key of `2^(n/2)` generators, polynomials in
`n` (even) variables and enough draws / challenges, `commit` and `open` succeed — so the
hypotheses of `hyrax_complete` are satisfiable for every such input. -/
theorem hyrax_honest_total (ks : List F) (hh : F) (point : List F) (hn : point.length % 2 = 0)
    (hks : ks.length = 2 ^ (point.length / 2)) (polys : List (Hyrax.MLPoly F))
    (ρdraws odraws cs : List F)
    (hp : ∀ p ∈ polys, p.nv = point.length ∧ p.evals.length = 2 ^ p.nv)
    (h1 : polys.length * 2 ^ (point.length / 2) ≤ ρdraws.length)
    (h2 : polys.length * (2 ^ (point.length / 2) + 3) ≤ odraws.length)
    (h3 : polys.length ≤ cs.length) :
    ∃ coms sts rest πs, Hyrax.commit ks hh polys ρdraws = .ok (coms, sts, rest) ∧
      (Hyrax.honestItems polys sts).map (·.st) = sts ∧
      Hyrax.open ks hh (Hyrax.honestItems polys sts) point odraws cs = .ok πs := by
  obtain ⟨coms, sts, rest, πs, a, b, c⟩ :=
    Hyrax.honest_loops_total ks hh point hn hks polys ρdraws odraws cs hp h1 h2 h3
  refine ⟨coms, sts, rest, πs, a, Hyrax.honestItems_st polys sts b, ?_⟩
  unfold Hyrax.open
  simp only
  rw [if_neg (by omega)]
  exact c

/-! non-vacuity over `ZMod 101`: two polynomials in 2 variables, key `[3,5]`, `h = 7` -/

def hyraxExPolys : List (Hyrax.MLPoly K) := [⟨2, [1, 2, 3, 4]⟩, ⟨2, [0, 0, 9, 0]⟩]
def hyraxExComs : List (List K) := [[88, 65], [59, 28]]
def hyraxExStates : List (Hyrax.State K) :=
  [⟨[10, 20], ⟨2, 2, [[1, 3], [2, 4]]⟩⟩, ⟨[2, 4], ⟨2, 2, [[0, 9], [0, 0]]⟩⟩]
def hyraxExProofs : List (Hyrax.Proof K) :=
  (match Hyrax.open ([3, 5] : List K) 7 (Hyrax.honestItems hyraxExPolys hyraxExStates) [6, 17]
      [1, 2, 3, 4, 5, 6, 7, 8, 9, 10] [11, 13] with
   | .ok πs => πs
   | .error _ => [])

example : Hyrax.commit ([3, 5] : List K) 7 hyraxExPolys [10, 20, 2, 4] = .ok (hyraxExComs, hyraxExStates, []) := by
  decide
example : Hyrax.open ([3, 5] : List K) 7 (Hyrax.honestItems hyraxExPolys hyraxExStates) [6, 17]
    [1, 2, 3, 4, 5, 6, 7, 8, 9, 10] [11, 13] = .ok hyraxExProofs ∧ hyraxExProofs.length = 2 := by decide
example : Hyrax.check ([3, 5] : List K) 7 hyraxExComs [6, 17]
    (hyraxExPolys.map fun p => Hyrax.mleEval p.evals [6, 17]) hyraxExProofs [11, 13] = .ok true := by decide
example : Hyrax.mleEval ([1, 2, 3, 4] : List K) [1, 17] = 36 := by decide

end PCV.C01
