/-
  Property C03 — no crafted or malformed proof proves a false claim, inner-product-argument scheme
  (attack catalogue on the exact model: shape mutations, replacement of the proof components that
  are not hashed into a later challenge; `l_vec`, `r_vec`, `hiding_comm` are hashed, for them the
  acceptance condition is `ipa_check_iff` of C02 with the re-derived challenges as oracle inputs).
-/
import PCV.Proofs.IPAVerify
import PCV.Props.Examples

set_option linter.unusedSectionVars false

namespace PCV.C03
open PCV
variable {F : Type} [Field F] [DecidableEq F]

/-- **IPA, shape (`check`).** For a key of `2^k` elements, a proof whose `l_vec` and `r_vec`
differ in length, or which does not have exactly `k = log₂(s+1)` rounds (removed or added rounds,
e.g. a proof made with a smaller or larger key), is refused with `IncorrectInputLength` — before
anything else is looked at. -/
theorem ipa_check_shape_refused (vk : IPA.VK F) (k : Nat) (hk : vk.commKey.length = 2 ^ k)
    (cs : List (IPA.LComm F)) (z : F) (vs : List F) (π : IPA.Proof F) (ξs ros : List F)
    (h : π.lVec.length ≠ π.rVec.length ∨ π.lVec.length ≠ k) :
    IPA.check vk cs z vs π ξs ros = .error .incorrectInputLength := by
  apply IPA.check_shape
  rw [IPA.badShape_iff, IPA.supported_succ vk k hk, IPA.clog2_pow]
  exact h

/-- **IPA, shape (`batch_check`).** A batch containing such a proof at *any* position is never
accepted (the repaired `batch_check` enforces the same round count as `check`). -/
theorem ipa_batch_shape_refused (vk : IPA.VK F) (k : Nat) (hk : vk.commKey.length = 2 ^ k)
    (comms : List (IPA.LComm F)) (qs : List (IPA.Query F)) (evals : List ((IPA.Label × F) × F))
    (πs : List (IPA.Proof F)) (ξs ros rs : List F) (π : IPA.Proof F) (hπ : π ∈ πs)
    (h : π.lVec.length ≠ π.rVec.length ∨ π.lVec.length ≠ k) :
    IPA.batchCheck vk comms qs evals πs ξs ros rs ≠ .ok true := by
  apply IPA.batchCheck_shape vk comms qs evals πs ξs ros rs π hπ
  rw [IPA.badShape_iff, IPA.supported_succ vk k hk, IPA.clog2_pow]
  exact h

/-- **IPA, shape (`batch_check`), first proof.** If the malformed proof is the first of the batch
the answer is the same `IncorrectInputLength` as in `check`. -/
theorem ipa_batch_shape_refused_first (vk : IPA.VK F) (k : Nat) (hk : vk.commKey.length = 2 ^ k)
    (comms : List (IPA.LComm F)) (qs : List (IPA.Query F)) (evals : List ((IPA.Label × F) × F))
    (π : IPA.Proof F) (πs : List (IPA.Proof F)) (ξs ros rs : List F)
    (hl : (π :: πs).length = (Marlin.groupQueries qs).length)
    (h : π.lVec.length ≠ π.rVec.length ∨ π.lVec.length ≠ k) :
    IPA.batchCheck vk comms qs evals (π :: πs) ξs ros rs = .error .incorrectInputLength := by
  apply IPA.batchCheck_shape_first vk comms qs evals π πs ξs ros rs hl
  rw [IPA.badShape_iff, IPA.supported_succ vk k hk, IPA.clog2_pow]
  exact h

/-- **IPA, proof-list length.** `batch_check` aborts unless there is exactly one proof per point
label (missing, surplus or empty proof lists). -/
theorem ipa_batch_count_refused (vk : IPA.VK F) (comms : List (IPA.LComm F))
    (qs : List (IPA.Query F)) (evals : List ((IPA.Label × F) × F)) (πs : List (IPA.Proof F))
    (ξs ros rs : List F) (h : πs.length ≠ (Marlin.groupQueries qs).length) :
    IPA.batchCheck vk comms qs evals πs ξs ros rs = .error .abort := by
  unfold IPA.batchCheck; rw [if_pos h]

/-- **IPA, `c` replaced: the defect is affine in `c`.** `c` is not hashed into any challenge, so
for a fixed statement and fixed other components `defect1 = A − c·(K + h′·h_u(z))`. -/
theorem ipa_c_defect_affine (vk : IPA.VK F) (z : F) (π : IPA.Proof F) (r : IPA.Run F) (K c : F) :
    IPA.defect1 vk z ⟨π.lVec, π.rVec, K, c, π.hidingComm, π.rand⟩ r
      = (r.C + vk.h * r.ξ₀ * r.V + r.lr) - c * (K + vk.h * r.ξ₀ * Succinct.evaluate r.us z) :=
  IPA.defect1_c vk z π r K c

/-- **IPA, `c` replaced.** At most one value of `c` is accepted (given `K + h′·h_u(z) ≠ 0`): a
proof differing from an accepted one only in `c` is rejected. -/
theorem ipa_c_unique (vk : IPA.VK F) (cs : List (IPA.LComm F)) (z : F) (vs : List F)
    (π : IPA.Proof F) (ξs ros : List F) (c' : F) (r : IPA.Run F) (ξr ror : List F)
    (hr : IPA.succinctRun vk cs z vs π ξs ros = .ok (r, ξr, ror))
    (hnd : π.finalCommKey + vk.h * r.ξ₀ * Succinct.evaluate r.us z ≠ 0)
    (h₁ : IPA.check vk cs z vs π ξs ros = .ok true)
    (h₂ : IPA.check vk cs z vs ⟨π.lVec, π.rVec, π.finalCommKey, c', π.hidingComm, π.rand⟩ ξs ros
      = .ok true) : c' = π.c := by
  obtain ⟨_, r1, _, _, hr1, d1, _⟩ := (IPA.check_iff _ _ _ _ _ _ _).1 h₁
  obtain ⟨_, r2, _, _, hr2, d2, _⟩ := (IPA.check_iff _ _ _ _ _ _ _).1 h₂
  rw [IPA.succinctRun_irrel, hr] at hr2
  rw [hr] at hr1
  injection hr1 with hr1; injection hr1 with hr1 _
  injection hr2 with hr2; injection hr2 with hr2 _
  subst hr1; subst hr2
  rw [IPA.defect1_c] at d2
  have d1' := IPA.defect1_c vk z π r π.finalCommKey π.c
  have e : (⟨π.lVec, π.rVec, π.finalCommKey, π.c, π.hidingComm, π.rand⟩ : IPA.Proof F) = π := rfl
  rw [e, d1] at d1'
  have : (c' - π.c) * (π.finalCommKey + vk.h * r.ξ₀ * Succinct.evaluate r.us z) = 0 := by
    linear_combination -d1' - d2
  rcases mul_eq_zero.1 this with h0 | h0
  · exact sub_eq_zero.1 h0
  · exact absurd h0 hnd

/-- **IPA, `final_comm_key` replaced.** The final-key test pins it to `⟨coeffs(h_u), G⟩`: a proof
differing from an accepted one only in `final_comm_key` is rejected — unconditionally. -/
theorem ipa_final_key_unique (vk : IPA.VK F) (cs : List (IPA.LComm F)) (z : F) (vs : List F)
    (π : IPA.Proof F) (ξs ros : List F) (K' : F)
    (h₁ : IPA.check vk cs z vs π ξs ros = .ok true)
    (h₂ : IPA.check vk cs z vs ⟨π.lVec, π.rVec, K', π.c, π.hidingComm, π.rand⟩ ξs ros = .ok true) :
    K' = π.finalCommKey := by
  obtain ⟨_, r1, _, _, hr1, _, e1⟩ := (IPA.check_iff _ _ _ _ _ _ _).1 h₁
  obtain ⟨_, r2, _, _, hr2, _, e2⟩ := (IPA.check_iff _ _ _ _ _ _ _).1 h₂
  rw [IPA.succinctRun_irrel, hr1] at hr2
  injection hr2 with hr2; injection hr2 with hr2 _
  subst hr2
  unfold IPA.defect2 at e1 e2
  simp only at e2
  linear_combination e1 - e2

/-- **IPA, the accepted `final_comm_key` and `c` are the honest ones** (exact form): on an
accepted transcript `K = ⟨coeffs(h_u), G⟩` and `c·(K + h′·h_u(z)) = Ĉ + h′·v̂ + Σ(u⁻¹L + uR)`. -/
theorem ipa_accepted_components (vk : IPA.VK F) (cs : List (IPA.LComm F)) (z : F) (vs : List F)
    (π : IPA.Proof F) (ξs ros : List F) (h : IPA.check vk cs z vs π ξs ros = .ok true) :
    ∃ r ξr ror, IPA.succinctRun vk cs z vs π ξs ros = .ok (r, ξr, ror) ∧
      π.finalCommKey = dot vk.commKey (Succinct.computeCoeffs r.us) ∧
      π.c * (π.finalCommKey + vk.h * r.ξ₀ * Succinct.evaluate r.us z)
        = r.C + vk.h * r.ξ₀ * r.V + r.lr := by
  obtain ⟨_, r, ξr, ror, hr, d1, d2⟩ := (IPA.check_iff _ _ _ _ _ _ _).1 h
  refine ⟨r, ξr, ror, hr, ?_, ?_⟩
  · unfold IPA.defect2 at d2; linear_combination -d2
  · unfold IPA.defect1 at d1; linear_combination -d1

/-! non-vacuity over `ZMod 101`.  The D7 witness in the model: a proof made with the key trimmed
to 2 elements (one round) for a polynomial of degree 1, presented to the 4-element key (two rounds
expected; the commitment is the same because only `G₀, G₁` are used): `check` and `batch_check`
both refuse. -/
example : IPA.check (⟨[3, 5], 13, 17, 3⟩ : IPA.CK K) [⟨[1], ⟨57, none⟩, none⟩] 6 [58]
    ⟨[7], [83], 48, 10, none, none⟩ [2, 3, 4] [8, 9] = .ok true := by decide +kernel
example : IPA.check (⟨[3, 5, 7, 11], 13, 17, 3⟩ : IPA.CK K) [⟨[1], ⟨57, none⟩, none⟩] 6 [58]
    ⟨[7], [83], 48, 10, none, none⟩ [2, 3, 4] [8, 9] = .error .incorrectInputLength := by decide
example : IPA.batchCheck (⟨[3, 5, 7, 11], 13, 17, 3⟩ : IPA.CK K) [⟨[1], ⟨57, none⟩, none⟩]
    [([1], ([9], 6))] [(([1], 6), 58)] [⟨[7], [83], 48, 10, none, none⟩] [2, 3, 4] [8, 9] [5]
    = .error .incorrectInputLength := by decide
example : IPA.batchCheck (⟨[3, 5], 13, 17, 3⟩ : IPA.CK K) [⟨[1], ⟨57, none⟩, none⟩]
    [([1], ([9], 6))] [(([1], 6), 58)] [⟨[7], [83], 48, 10, none, none⟩] [2, 3, 4] [8, 9] [5]
    = .ok true := by decide +kernel
-- `c` and `final_comm_key` replaced
example : IPA.check (⟨[3, 5], 13, 17, 3⟩ : IPA.CK K) [⟨[1], ⟨57, none⟩, none⟩] 6 [58]
    ⟨[7], [83], 48, 11, none, none⟩ [2, 3, 4] [8, 9] = .ok false := by decide +kernel
example : IPA.check (⟨[3, 5], 13, 17, 3⟩ : IPA.CK K) [⟨[1], ⟨57, none⟩, none⟩] 6 [58]
    ⟨[7], [83], 49, 10, none, none⟩ [2, 3, 4] [8, 9] = .ok false := by decide +kernel
example : (48 : K) + 13 * 8 * Succinct.evaluate [9] 6 ≠ 0 := by decide

end PCV.C03
