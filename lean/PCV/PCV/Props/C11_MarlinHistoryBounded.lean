/-
  Property C11 (MarlinKZG10, degree bounds) — lock-step over histories that mix `open`, `batch_open` and
  `open_combinations` on one sponge, where the combinations may name degree-bounded polynomials in the
  one way the code allows (alone, with coefficient one).  `C11.marlin_mixed_history_lockstep` asks every
  polynomial under an `open_combinations` to be unbounded; here the per-operation condition of that case
  is the one of `C06.marlin_lc_bounded_lockstep`.  Operations, runs and the induction are those of
  `Props/C11_MarlinHistory`; only the `comb` step differs.
-/
import PCV.Props.C11_MarlinHistory
import PCV.Props.C06_MarlinBounded
set_option linter.unusedSectionVars false

namespace PCV.C11
open PCV Marlin
variable {F : Type} [Field F] [DecidableEq F]

/-- the hypotheses under which one operation is an honest, truthful request — degree bounds allowed
under `open_combinations`: every combination is a combination of unbounded polynomials (`LCUnbounded`)
or the single term `1 · p` (`LCSingle`, `p` bounded or not); the last conjunct is the side condition of
`batch_open` (`GroupsND`) on the combined polynomials and states, at the stream the operation meets (it
only concerns bounded HIDING polynomials).  `open` and `batch_open` are as in `MOpOk`. -/
def MOpOkB (ck : CK F) (g γ β : F) (D m : Nat) : MOp F → List F → Prop
  | .single l z, ξs => MOpOk ck g γ β D m (.single l z) ξs
  | .batch l qs evals rs, ξs => MOpOk ck g γ β D m (.batch l qs evals rs) ξs
  | .comb l lcs qs evals _, ξs =>
    (∀ t ∈ l, Honest g γ β D t ∧ RandLen m t ∧ t.2.2.label = t.1.label) ∧
    (lcs.map (·.label)).Nodup ∧
    (∀ lc ∈ lcs, LCUnbounded l lc ∨ LCSingle lc) ∧
    (∀ gr ∈ groupQueries qs, ∀ lc ∈ lcs, lc.label ∈ gr.2.2 →
      lookupEval evals lc.label gr.2.1 = some (lcPolyValue l gr.2.1 lc.terms + lcConstant lc)) ∧
    (∀ ts, combineAll l lcs = .ok ts →
      GroupsND ck (ts.map (·.1)) (ts.map (·.2.1)) (groupQueries qs) ξs)

/-- the condition is weaker than `MOpOk`: an operation over unbounded polynomials only satisfies it -/
theorem mOpOk_imp_mOpOkB (ck : CK F) (g γ β : F) (D m : Nat) (op : MOp F) (ξs : List F)
    (hok : MOpOk ck g γ β D m op ξs) : MOpOkB ck g γ β D m op ξs := by
  cases op with
  | single l z => exact hok
  | batch l qs evals rs => exact hok
  | comb l lcs qs evals rs =>
    obtain ⟨hh, hnodup, hev⟩ := hok
    have hsh : ∀ t ∈ l, t.2.1.shifted = none := by
      intro t ht
      obtain ⟨⟨⟨_, _, hbs, _, _⟩, hb⟩, _, _⟩ := hh t ht
      rw [hb] at hbs
      cases hx : t.2.1.shifted with
      | none => rfl
      | some _ => rw [hx] at hbs; simp at hbs
    refine ⟨fun t ht => ⟨(hh t ht).1.1, (hh t ht).2.1, (hh t ht).2.2⟩, hnodup, ?_, hev, ?_⟩
    · intro lc _
      left
      intro term _
      unfold termBound
      split
      · rfl
      · rename_i lab _
        split
        · rfl
        · rename_i x hx
          exact (hh x (lookupLast_mem _ lab l x hx).1).1.2
    · exact lc_groupsND_of_shnil ck l
        (fun t ht rs hrs => by rw [hsh t ht] at hrs; cases hrs) lcs qs ξs

/-- one operation, degree bounds allowed under `open_combinations`: the verifier's step accepts and
leaves the prover's remaining stream -/
theorem step_lockstep_bounded {ck : CK F} {vk : VK F} {g γ β h : F} {D n m : Nat}
    (hwf : WF ck vk g γ β h D n m) (op : MOp F) (ξs : List F) (hok : MOpOkB ck g γ β D m op ξs)
    (π : MProof F) (rest : List F) (hp : proverStep ck op ξs = .ok (π, rest)) :
    verifierStep vk op π ξs = .ok (true, rest) := by
  cases op with
  | single l z => exact step_lockstep hwf (.single l z) ξs hok π rest hp
  | batch l qs evals rs => exact step_lockstep hwf (.batch l qs evals rs) ξs hok π rest hp
  | comb l lcs qs evals rs =>
    simp only [proverStep] at hp
    split at hp
    · cases hp
    · rename_i πs r ho
      injection hp with hp; injection hp with h1 h2
      subst h1; subst h2
      obtain ⟨hh, hnodup, hadm, hev, hnd⟩ := hok
      obtain ⟨lcComms, hcc, trip, htrip, hlen, hdef⟩ := C06.marlin_lc_bounded_lockstep hwf l
        (fun t ht => (hh t ht).1) (fun t ht => (hh t ht).2.1) (fun t ht => (hh t ht).2.2)
        lcs hnodup hadm qs evals hev ξs πs r ho hnd
      simp only [verifierStep, checkCombinationsS, hcc, batchCheckS, htrip,
        batchCheck_all_true vk lcComms qs (adjustEvals lcs evals) πs ξs rs trip r htrip hlen hdef]

/-- the per-operation hypotheses `MOpOkB` along the prover's run (each at the stream state it meets) -/
def HistoryOkB (ck : CK F) (g γ β : F) (D m : Nat) : List (MOp F) → List F → Prop
  | [], _ => True
  | op :: ops, ξs =>
    MOpOkB ck g γ β D m op ξs ∧
    match proverStep ck op ξs with
    | .error _ => True
    | .ok (_, ξs') => HistoryOkB ck g γ β D m ops ξs'

/-- a history that satisfies `HistoryOk` satisfies `HistoryOkB` -/
theorem historyOk_imp_historyOkB (ck : CK F) (g γ β : F) (D m : Nat) (ops : List (MOp F)) (ξs : List F)
    (hok : HistoryOk ck g γ β D m ops ξs) : HistoryOkB ck g γ β D m ops ξs := by
  induction ops generalizing ξs with
  | nil => trivial
  | cons op ops ih =>
    obtain ⟨hok1, hok2⟩ := hok
    refine ⟨mOpOk_imp_mOpOkB ck g γ β D m op ξs hok1, ?_⟩
    split
    · trivial
    · rename_i π ξs' ho
      rw [ho] at hok2
      exact ih ξs' hok2

/-- **Lock-step over any mixed history, degree bounds included.**  For every sequence of `open`,
`batch_open` and `open_combinations` operations on one challenge stream, each an honest and truthful
request (`HistoryOkB`: the polynomials under `open_combinations` may carry degree bounds, a combination
naming one being the single term `1 · p`): if the prover answers them all, the verifier — running
`check`, `batch_check`, `check_combinations` in the same order on an identically initialised stream,
with any randomizers of its own — accepts every proof and ends with exactly the prover's remaining
stream. -/
theorem marlin_mixed_history_lockstep_bounded {ck : CK F} {vk : VK F} {g γ β h : F} {D n m : Nat}
    (hwf : WF ck vk g γ β h D n m) (ops : List (MOp F)) (ξs : List F)
    (hok : HistoryOkB ck g γ β D m ops ξs) (πs : List (MProof F)) (rest : List F)
    (hp : proverRunM ck ops ξs = .ok (πs, rest)) :
    verifierRunM vk ops πs ξs = .ok (true, rest) := by
  induction ops generalizing ξs πs rest with
  | nil =>
    simp only [proverRunM] at hp
    injection hp with hp; injection hp with h1 h2
    subst h1; subst h2; rfl
  | cons op ops ih =>
    simp only [proverRunM] at hp
    split at hp
    · cases hp
    · rename_i π ξs' ho
      split at hp
      · cases hp
      · rename_i πs' rest' hrec
        injection hp with hp; injection hp with h1 h2
        subst h1; subst h2
        obtain ⟨hok1, hok2⟩ := hok
        rw [ho] at hok2
        have hc := step_lockstep_bounded hwf op ξs hok1 π ξs' ho
        have hrest := ih ξs' hok2 πs' rest' hrec
        simp only [verifierRunM, hc, hrest, Bool.and_self]

/-! non-vacuity over `ZMod 101` (keys `C01.exCK`/`C01.exVK`: `g = 3`, `γ = 5`, `β = 2`, `D = 3`, blinding
length `m = 3`): the history `open ; open_combinations ; batch_open` in which the `open_combinations` is
the one of `C06.exBTrips`/`C06.exBLCs` — the combination `c = 1 · p` names the degree-bounded HIDING
polynomial `p`, next to a two-term combination of unbounded polynomials -/
def exHistoryB : List (MOp K) :=
  [.single (C01.exBatch.take 1) 5,
   .comb C06.exBTrips C06.exBLCs C06.exBQueries C06.exBEvals [29],
   .batch C01.exBatch C01.exQueries
     [(([97], 5), evalPoly [1, 2, 3] 5), (([98], 5), evalPoly [4, 0, 1] 5), (([98], 9), evalPoly [4, 0, 1] 9)] [3]]

/-- the old condition does not cover this history (`p` is bounded) … -/
example : ¬ HistoryOk C01.exCK (3 : K) 5 2 3 3 exHistoryB [7, 11, 13, 17, 19, 23, 31, 37, 41, 43, 47] := by
  intro h
  have hs1 : proverStep C01.exCK (.single (C01.exBatch.take 1) 5) [7, 11, 13, 17, 19, 23, 31, 37, 41, 43, 47]
      = .ok (.one ⟨79, none⟩, [11, 13, 17, 19, 23, 31, 37, 41, 43, 47]) := by decide
  simp only [exHistoryB, HistoryOk, hs1] at h
  have := (h.2.1.1 _ (List.mem_cons_self)).1.2
  exact absurd this (by decide)

/-- … the new one holds: every hypothesis of `marlin_mixed_history_lockstep_bounded` is satisfiable on a
history with a bounded single-term combination -/
theorem exHistoryB_ok :
    HistoryOkB C01.exCK (3 : K) 5 2 3 3 exHistoryB [7, 11, 13, 17, 19, 23, 31, 37, 41, 43, 47] := by
  have nd : ∀ (f : Except Err (OpenAcc K × List K)) (z : K),
      (∀ x ∈ f.toOption, isZeroPoly x.1.r = true → evalPoly x.1.sr z = 0) →
      ∀ acc r, f = .ok (acc, r) → isZeroPoly acc.r = true → evalPoly acc.sr z = 0 := by
    intro f z h acc r hf
    subst hf
    exact h (acc, r) rfl
  have hon : ∀ t ∈ C06.exBTrips, Honest (3 : K) 5 2 3 t ∧ RandLen 3 t ∧ t.2.2.label = t.1.label := by
    have : ∀ t ∈ C06.exBTrips, (t.2.2.bound = t.1.bound ∧
        t.2.2.comm.comm = 3 * evalPoly t.1.poly 2 + 5 * evalPoly t.2.1.rand 2 ∧
        (t.1.bound.isSome = t.2.1.shifted.isSome) ∧ (t.1.bound.isSome = t.2.2.comm.shifted.isSome) ∧
        ∀ d ∈ t.1.bound, ∀ rs ∈ t.2.1.shifted, ∀ s ∈ t.2.2.comm.shifted,
          s = 3 * fpow 2 (3 - d) * evalPoly t.1.poly 2 + 5 * evalPoly rs 2) ∧
        ((pnorm t.2.1.rand).length ≤ 3 ∧ ∀ rs ∈ t.2.1.shifted, (pnorm rs).length ≤ 3) ∧
        t.2.2.label = t.1.label := by decide
    intro t ht
    obtain ⟨⟨a, b, c, d, e⟩, ⟨f1, f2⟩, l⟩ := this t ht
    exact ⟨⟨a, b, c, d, fun d rs s h1 h2 h3 => e d h1 rs h2 s h3⟩, ⟨f1, fun rs h => f2 rs h⟩, l⟩
  have honB : ∀ t ∈ C01.exBatch, Honest (3 : K) 5 2 3 t ∧ RandLen 3 t ∧ t.2.2.label = t.1.label :=
    fun t ht => hon t (List.mem_cons_of_mem _ ht)
  have hs1 : proverStep C01.exCK (.single (C01.exBatch.take 1) 5) [7, 11, 13, 17, 19, 23, 31, 37, 41, 43, 47]
      = .ok (.one ⟨79, none⟩, [11, 13, 17, 19, 23, 31, 37, 41, 43, 47]) := by decide
  have hs2 : proverStep C01.exCK (.comb C06.exBTrips C06.exBLCs C06.exBQueries C06.exBEvals [29])
      [11, 13, 17, 19, 23, 31, 37, 41, 43, 47]
      = .ok (.many [⟨10, some 14⟩, ⟨6, some 84⟩], [31, 37, 41, 43, 47]) := by decide
  have hs3 : proverStep C01.exCK (.batch C01.exBatch C01.exQueries
      [(([97], 5), evalPoly [1, 2, 3] 5), (([98], 5), evalPoly [4, 0, 1] 5), (([98], 9), evalPoly [4, 0, 1] 9)] [3])
      [31, 37, 41, 43, 47] = .ok (.many [⟨88, none⟩, ⟨40, none⟩], [43, 47]) := by decide
  simp only [exHistoryB, HistoryOkB, hs1, hs2, hs3, and_true]
  refine ⟨⟨?_, nd _ _ (by decide)⟩, ⟨hon, by decide, by decide, by decide, ?_⟩, ⟨honB, by decide, ?_⟩⟩
  · intro t ht
    exact ⟨(honB t (List.mem_of_mem_take ht)).1, (honB t (List.mem_of_mem_take ht)).2.1⟩
  · intro ts hts
    have hc : combineAll C06.exBTrips C06.exBLCs
      = .ok [(⟨[108, 97], [99, 4, 5], none, none⟩, ⟨[], none⟩, ⟨[108, 97], ⟨78, none⟩, none⟩),
             (⟨[108, 99], [1, 2, 3], some 2, some 1⟩, ⟨[7, 8, 9], some [4, 5, 6]⟩,
              ⟨[108, 99], ⟨43, some 90⟩, some 2⟩)] := by decide
    rw [hc] at hts; injection hts with hts; subst hts
    rw [show groupQueries C06.exBQueries
      = [([112, 48], 5, [[108, 97], [108, 99]]), ([112, 49], 9, [[108, 99]])] from by decide]
    simp only [GroupsND, List.map_cons, List.map_nil]
    rw [show gatherPolys
        [(⟨[108, 97], [99, 4, 5], none, none⟩ : LPoly K), ⟨[108, 99], [1, 2, 3], some 2, some 1⟩]
        [⟨[], none⟩, ⟨[7, 8, 9], some [4, 5, 6]⟩] [[108, 97], [108, 99]]
        = .ok ([⟨[108, 97], [99, 4, 5], none, none⟩, ⟨[108, 99], [1, 2, 3], some 2, some 1⟩],
               [⟨[], none⟩, ⟨[7, 8, 9], some [4, 5, 6]⟩]) from by decide]
    simp only
    rw [show Marlin.open C01.exCK
        [(⟨[108, 97], [99, 4, 5], none, none⟩ : LPoly K), ⟨[108, 99], [1, 2, 3], some 2, some 1⟩] 5
        [⟨[], none⟩, ⟨[7, 8, 9], some [4, 5, 6]⟩] [11, 13, 17, 19, 23, 31, 37, 41, 43, 47]
        = .ok (⟨10, some 14⟩, [19, 23, 31, 37, 41, 43, 47]) from by decide]
    simp only
    rw [show gatherPolys
        [(⟨[108, 97], [99, 4, 5], none, none⟩ : LPoly K), ⟨[108, 99], [1, 2, 3], some 2, some 1⟩]
        [⟨[], none⟩, ⟨[7, 8, 9], some [4, 5, 6]⟩] [[108, 99]]
        = .ok ([⟨[108, 99], [1, 2, 3], some 2, some 1⟩], [⟨[7, 8, 9], some [4, 5, 6]⟩]) from by decide]
    simp only
    refine ⟨nd _ _ (by decide), nd _ _ (by decide), ?_⟩
    split <;> trivial
  · exact groupsND_nonhiding _ _ _ (by decide) _ _

/-- the theorem applied: the keys are the ones `trim` makes (`C01.exCK`/`C01.exVK`, `WF` by `trim_wf`) -/
example (πs : List (MProof K)) (rest : List K)
    (hp : proverRunM C01.exCK exHistoryB [7, 11, 13, 17, 19, 23, 31, 37, 41, 43, 47] = .ok (πs, rest)) :
    verifierRunM C01.exVK exHistoryB πs [7, 11, 13, 17, 19, 23, 31, 37, 41, 43, 47] = .ok (true, rest) :=
  marlin_mixed_history_lockstep_bounded
    (trim_wf (3 : K) 5 2 7 3 3 1 (some [2]) C01.exCK C01.exVK (by decide)).1
    exHistoryB _ exHistoryB_ok πs rest hp

/-- and the history runs through: the prover answers, the verifier accepts every proof (the second one
opens the bounded combination) and both are left with `[43, 47]` -/
example : ∃ πs rest, proverRunM C01.exCK exHistoryB [7, 11, 13, 17, 19, 23, 31, 37, 41, 43, 47] = .ok (πs, rest) ∧
    verifierRunM C01.exVK exHistoryB πs [7, 11, 13, 17, 19, 23, 31, 37, 41, 43, 47] = .ok (true, rest) ∧
    rest = [43, 47] := by
  refine ⟨[.one ⟨79, none⟩, .many [⟨10, some 14⟩, ⟨6, some 84⟩], .many [⟨88, none⟩, ⟨40, none⟩]], [43, 47],
    ?_, ?_, rfl⟩ <;> decide

end PCV.C11
