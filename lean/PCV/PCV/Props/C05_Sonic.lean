/-
  Property C05 — batched verification = conjunction of individual checks, SonicKZG10 `batch_check`
  (per point label: accumulators scaled by the verifier's 128-bit randomizers, one pairing product).
-/
import PCV.Proofs.SonicExamples

namespace PCV.C05
open PCV PCV.Sonic
open PCV.Marlin (Label LPoly Query groupQueries)
variable {F : Type} [Field F] [DecidableEq F]

/-- **Batch defect = Σ ρₖ·Δₖ.**  For an arbitrary verifier key and arbitrary (even malformed)
statements and proofs: whatever the accumulation loop of `batch_check` returns, its pairing product
is `Σₖ ρₖ·Δₖ` with `ρ₀ = 1`, `ρₖ` the verifier's randomizers and `Δₖ` the defect of the individual
`check` of point label `k` on the challenges it sees in the batch. -/
theorem sonic_batch_defect (vk : VK F) (its : List (Item F)) (πs : List (KZG.Proof F))
    (ξs rs : List F) (acc : CMap F × F × F)
    (h : batchLoop vk its πs 1 rs ξs ([], 0, 0) = .ok acc) :
    elemsDefect vk (pairSumD vk.shiftOf acc.1) acc.2.1 acc.2.2
      = KZG.wsum 1 rs (groupDefects vk its πs ξs) := by
  have := (batchLoop_spec vk its πs 1 rs ξs _ acc h).1
  simpa [accVal, elemsDefect, pairSumD] using this

/-- **`batch_check` decides exactly `Σ ρₖ·Δₖ = 0`**: it aborts only if the sponge runs dry, refuses
(`UnsupportedDegreeBound`) iff some bound label has no G2 element, and otherwise answers
`Σ ρₖ·Δₖ = 0`. -/
theorem sonic_batch_iff (vk : VK F) (its : List (Item F)) (πs : List (KZG.Proof F)) (ξs rs : List F) :
    batchCheckItems vk its πs ξs rs =
      if enough its πs ξs then
        if groupsOk vk its πs ξs then .ok (decide (KZG.wsum 1 rs (groupDefects vk its πs ξs) = 0))
        else .error .unsupportedBound
      else .error .abort :=
  batchCheckItems_eq vk its πs ξs rs

/-- the individual check accepts iff its defect vanishes (and its labels are supported) -/
theorem sonic_check_iff_defect (vk : VK F) (cs : List (LComm F)) (z : F) (vs : List F)
    (π : KZG.Proof F) (ξs rest : List F) :
    check vk cs z vs π ξs = .ok (true, rest) ↔
      restOf cs vs ξs = some rest ∧ boundsOk vk.shiftOf cs vs ξs = true ∧ defect vk cs z vs π ξs = 0 :=
  check_true_iff vk cs z vs π ξs rest

/-- **All individual checks accept ⇒ the batch accepts for every randomizer list** (the outcome on
true batches does not depend on the verifier's randomness). -/
theorem sonic_all_true_accepted (vk : VK F) (its : List (Item F)) (πs : List (KZG.Proof F))
    (ξs rs : List F) (h : AllAccept vk its πs ξs) : batchCheckItems vk its πs ξs rs = .ok true :=
  batch_all_true vk its πs ξs rs h

/-- **Exactly one failing point label, non-zero randomizer at its position ⇒ not accepted.** -/
theorem sonic_single_false_rejected (vk : VK F) (its : List (Item F)) (πs : List (KZG.Proof F))
    (ξs rs : List F) (j : Nat)
    (hj : j < (groupDefects vk its πs ξs).length)
    (hz : ∀ i (hi : i < (groupDefects vk its πs ξs).length), i ≠ j → (groupDefects vk its πs ξs)[i] = 0)
    (hne : (groupDefects vk its πs ξs)[j] ≠ 0)
    (hr : ((1 : F) :: rs).getD j 0 ≠ 0) :
    batchCheckItems vk its πs ξs rs ≠ .ok true :=
  batch_single_false vk its πs ξs rs j hj hz hne hr

/-- the public entry point: grouping by point label, shape test, lookups, then the above -/
theorem sonic_batch_check_eq (vk : VK F) (comms : List (LComm F)) (qs : List (Query F))
    (evals : List ((Label × F) × F)) (πs : List (KZG.Proof F)) (ξs rs : List F)
    (hl : πs.length = (groupQueries qs).length) (its : List (Item F))
    (hg : gatherGroups comms evals (groupQueries qs) = .ok its) :
    batchCheck vk comms qs evals πs ξs rs = batchCheckItems vk its πs ξs rs :=
  batchCheck_gathered vk comms qs evals πs ξs rs hl its hg

/-- a proof list that is missing, surplus or empty (length ≠ number of point labels) is refused -/
theorem sonic_batch_shape_refused (vk : VK F) (comms : List (LComm F)) (qs : List (Query F))
    (evals : List ((Label × F) × F)) (πs : List (KZG.Proof F)) (ξs rs : List F)
    (hl : πs.length ≠ (groupQueries qs).length) :
    batchCheck vk comms qs evals πs ξs rs = .error .abort :=
  batchCheck_shape vk comms qs evals πs ξs rs hl

/-- non-vacuity: the two-label batch of C01's example is accepted for two different randomizers;
with one false value (second label) it is rejected; with one proof missing it is refused -/
example : batchCheck Ex.vk Ex.comms
      [([112, 48], ([97], 5)), ([112, 49], ([97], 5)), ([112, 49], ([98], 9)), ([112, 50], ([98], 9))]
      [(([112, 48], 5), evalPoly [1, 2, 3] 5), (([112, 49], 5), evalPoly [4, 0, 1] 5),
       (([112, 49], 9), evalPoly [4, 0, 1] 9), (([112, 50], 9), evalPoly [6, 1] 9)]
      [⟨53, some 27⟩, ⟨90, none⟩] [11, 13, 17, 19, 23, 29, 31] [7] = .ok true := by decide
example : batchCheck Ex.vk Ex.comms
      [([112, 48], ([97], 5)), ([112, 49], ([97], 5)), ([112, 49], ([98], 9)), ([112, 50], ([98], 9))]
      [(([112, 48], 5), evalPoly [1, 2, 3] 5), (([112, 49], 5), evalPoly [4, 0, 1] 5),
       (([112, 49], 9), evalPoly [4, 0, 1] 9 + 1), (([112, 50], 9), evalPoly [6, 1] 9)]
      [⟨53, some 27⟩, ⟨90, none⟩] [11, 13, 17, 19, 23, 29, 31] [7] = .ok false := by decide
example : batchCheck Ex.vk Ex.comms
      [([112, 48], ([97], 5)), ([112, 49], ([97], 5)), ([112, 49], ([98], 9)), ([112, 50], ([98], 9))]
      [(([112, 48], 5), evalPoly [1, 2, 3] 5), (([112, 49], 5), evalPoly [4, 0, 1] 5),
       (([112, 49], 9), evalPoly [4, 0, 1] 9), (([112, 50], 9), evalPoly [6, 1] 9)]
      [⟨53, some 27⟩] [11, 13, 17, 19, 23, 29, 31] [7] = .error .abort := by decide

end PCV.C05
