/-
  Property C10 (verifiers decide exactly the published relation) — Hyrax.
  The relation is written from the paper (Wahby et al., "Doubly-efficient zkSNARKs without trusted
  setup", Figure 6, proof-of-dot-product, equations (13) and (14)) with the code's Fiat–Shamir
  challenge, plus the evaluation-commitment equation of the "evaluation is revealed" variant.
-/
import PCV.Proofs.Hyrax
import PCV.Props.Examples

namespace PCV.C10
open PCV
variable {F : Type} [Field F] [DecidableEq F]

/-- The Hyrax opening relation for ONE committed polynomial, in exponent form
(`G = com_key`, `G₀ = com_key[0]`, `H = h`, `T` = row commitments, `L`,`R` = `eq`-tensors of the two
halves of the point, `c` = challenge):
* shape: `T` has `2^{n/2}` entries, `z` has as many entries as the key,
* `com_eval = v·G₀ + r_eval·H`                       (the claimed value is the committed one),
* `⟨R,z⟩·G₀ + z_b·H = c·com_eval + com_b`              (equation (14)),
* `⟨z,G⟩ + z_d·H = c·⟨L,T⟩ + com_d`                    (equation (13), `⟨L,T⟩` = commitment to `Lᵀ·M`). -/
def HyraxItemRelation (ks : List F) (hh : F) (L R : List F) (dim : Nat) (T : List F) (v : F)
    (π : Hyrax.Proof F) (c : F) : Prop :=
  ∃ g0, Hyrax.key0 ks = some g0 ∧ T.length = dim ∧ π.z.length = ks.length ∧
    π.comEval = v * g0 + π.rEval * hh ∧
    dot R π.z * g0 + π.zB * hh = c * π.comEval + π.comB ∧
    dot π.z ks + π.zD * hh = c * dot L T + π.comD

/-- The relation for a list of commitments opened at one point: an even number of variables, one
value and one proof per commitment, one squeezed challenge per proof, and the item relation for
every (commitment, value, proof, challenge). -/
def HyraxRelation (ks : List F) (hh : F) (coms : List (List F)) (point vs : List F)
    (πs : List (Hyrax.Proof F)) (cs : List F) : Prop :=
  point.length % 2 = 0 ∧ coms.length = πs.length ∧ vs.length = πs.length ∧ πs.length ≤ cs.length ∧
    ∀ x ∈ List.zip coms (List.zip vs (List.zip πs cs)),
      HyraxItemRelation ks hh (Hyrax.tensorL point) (Hyrax.tensorR point) (2 ^ (point.length / 2))
        x.1 x.2.1 x.2.2.1 x.2.2.2

omit [DecidableEq F] in
theorem hyrax_item_iff (ks : List F) (hh : F) (L R : List F) (dim : Nat) (T : List F) (v : F)
    (π : Hyrax.Proof F) (c : F) :
    Hyrax.ItemOK ks hh L R dim T v π c ↔ HyraxItemRelation ks hh L R dim T v π c := by
  unfold Hyrax.ItemOK HyraxItemRelation Hyrax.defectEval Hyrax.defect14 Hyrax.defect13
    Hyrax.innerProduct
  constructor
  · rintro ⟨k0, hk, h1, h2, e1, e2, e3⟩
    refine ⟨k0, hk, h1, h2.symm, ?_, ?_, ?_⟩
    · linear_combination e1
    · linear_combination e2
    · rw [dot_comm π.z ks, dot_comm L T]; linear_combination e3
  · rintro ⟨k0, hk, h1, h2, e1, e2, e3⟩
    refine ⟨k0, hk, h1, h2.symm, ?_, ?_, ?_⟩
    · linear_combination e1
    · linear_combination e2
    · rw [dot_comm π.z ks, dot_comm L T] at e3; linear_combination e3

/-- **Hyrax.** `check` returns `Ok(true)` exactly when the relation holds — for every key, every
statement and every proof list, honest or not, well-shaped or not. -/
theorem hyrax_check_iff_relation (ks : List F) (hh : F) (coms : List (List F)) (point vs : List F)
    (πs : List (Hyrax.Proof F)) (cs : List F) :
    Hyrax.check ks hh coms point vs πs cs = .ok true ↔ HyraxRelation ks hh coms point vs πs cs := by
  rw [Hyrax.check_iff]
  unfold HyraxRelation
  simp only [hyrax_item_iff]

/-- `Ok(false)`, an error or an abort exactly when the relation fails -/
theorem hyrax_reject_iff_not_relation (ks : List F) (hh : F) (coms : List (List F))
    (point vs : List F) (πs : List (Hyrax.Proof F)) (cs : List F) :
    Hyrax.check ks hh coms point vs πs cs ≠ .ok true ↔ ¬ HyraxRelation ks hh coms point vs πs cs :=
  not_congr (hyrax_check_iff_relation ks hh coms point vs πs cs)

/-- honest transcripts satisfy the relation -/
theorem hyrax_honest_satisfies (ks : List F) (hh : F) (polys : List (Hyrax.MLPoly F))
    (point : List F) (ρdraws odraws cs : List F) (coms : List (List F))
    (sts : List (Hyrax.State F)) (rest : List F) (items : List (Hyrax.OpenItem F))
    (πs : List (Hyrax.Proof F))
    (hc : Hyrax.commit ks hh polys ρdraws = .ok (coms, sts, rest))
    (hst : items.map (·.st) = sts)
    (ho : Hyrax.open ks hh items point odraws cs = .ok πs) :
    HyraxRelation ks hh coms point (polys.map fun p => Hyrax.mleEval p.evals point) πs cs := by
  rw [← hyrax_check_iff_relation]
  unfold Hyrax.open at ho
  simp only at ho
  by_cases hn : point.length % 2 = 1
  · rw [if_pos hn] at ho; cases ho
  · rw [if_neg hn] at ho
    obtain ⟨h1, h2, h3, _, _⟩ := Hyrax.loops_complete ks hh point (by omega) polys ρdraws odraws cs
      coms sts rest items πs hc hst ho
    unfold Hyrax.check
    simp only
    rw [if_neg hn, if_neg (by simp [h2, h3])]
    exact h1

/-- **Every component the relation mentions influences the decision.** From an accepted
single-polynomial transcript, changing exactly one of: the value (`G₀ ≠ 0`), `com_eval`, `com_d`,
`com_b`, `z_d`, `z_b`, `r_eval` (`H ≠ 0`) by `δ ≠ 0` — with the same challenge — makes `check`
not accept.  (For the Fiat–Shamir-hashed `com_*` the challenge changes as well; the statement for
an arbitrary new challenge is `hyrax_check_iff_relation` itself.) -/
theorem hyrax_each_component_matters (ks : List F) (hh g0 : F) (T point : List F) (v c ce cd cb : F)
    (z : List F) (zd zb re δ : F) (hk : Hyrax.key0 ks = some g0) (hδ : δ ≠ 0)
    (hacc : Hyrax.check ks hh [T] point [v] [⟨ce, cd, cb, z, zd, zb, re⟩] [c] = .ok true) :
    (g0 ≠ 0 → Hyrax.check ks hh [T] point [v + δ] [⟨ce, cd, cb, z, zd, zb, re⟩] [c] ≠ .ok true) ∧
    Hyrax.check ks hh [T] point [v] [⟨ce + δ, cd, cb, z, zd, zb, re⟩] [c] ≠ .ok true ∧
    Hyrax.check ks hh [T] point [v] [⟨ce, cd + δ, cb, z, zd, zb, re⟩] [c] ≠ .ok true ∧
    Hyrax.check ks hh [T] point [v] [⟨ce, cd, cb + δ, z, zd, zb, re⟩] [c] ≠ .ok true ∧
    (hh ≠ 0 → Hyrax.check ks hh [T] point [v] [⟨ce, cd, cb, z, zd + δ, zb, re⟩] [c] ≠ .ok true) ∧
    (hh ≠ 0 → Hyrax.check ks hh [T] point [v] [⟨ce, cd, cb, z, zd, zb + δ, re⟩] [c] ≠ .ok true) ∧
    (hh ≠ 0 → Hyrax.check ks hh [T] point [v] [⟨ce, cd, cb, z, zd, zb, re + δ⟩] [c] ≠ .ok true) := by
  have key : ∀ (v' : F) (π' : Hyrax.Proof F),
      Hyrax.check ks hh [T] point [v'] [π'] [c] = .ok true →
      π'.comEval = v' * g0 + π'.rEval * hh ∧
      dot (Hyrax.tensorR point) π'.z * g0 + π'.zB * hh = c * π'.comEval + π'.comB ∧
      dot π'.z ks + π'.zD * hh = c * dot (Hyrax.tensorL point) T + π'.comD := by
    intro v' π' h
    obtain ⟨_, _, _, _, hx⟩ := (hyrax_check_iff_relation ks hh [T] point [v'] [π'] [c]).1 h
    obtain ⟨g, hg, _, _, e1, e2, e3⟩ := hx (T, v', π', c) (by simp)
    rw [hk] at hg; cases hg
    exact ⟨e1, e2, e3⟩
  obtain ⟨a1, a2, a3⟩ := key _ _ hacc
  simp only at a1 a2 a3
  have nz : ∀ x : F, x ≠ 0 → δ * x ≠ 0 := fun x hx => mul_ne_zero hδ hx
  refine ⟨?_, ?_, ?_, ?_, ?_, ?_, ?_⟩
  · intro hg h
    obtain ⟨b1, _, _⟩ := key _ _ h
    exact nz g0 hg (by simp only at b1; linear_combination a1 - b1)
  · intro h
    obtain ⟨b1, _, _⟩ := key _ _ h
    exact hδ (by simp only at b1; linear_combination b1 - a1)
  · intro h
    obtain ⟨_, _, b3⟩ := key _ _ h
    exact hδ (by simp only at b3; linear_combination a3 - b3)
  · intro h
    obtain ⟨_, b2, _⟩ := key _ _ h
    exact hδ (by simp only at b2; linear_combination a2 - b2)
  · intro hh0 h
    obtain ⟨_, _, b3⟩ := key _ _ h
    exact nz hh hh0 (by simp only at b3; linear_combination b3 - a3)
  · intro hh0 h
    obtain ⟨_, b2, _⟩ := key _ _ h
    exact nz hh hh0 (by simp only at b2; linear_combination b2 - a2)
  · intro hh0 h
    obtain ⟨b1, _, _⟩ := key _ _ h
    exact nz hh hh0 (by simp only at b1; linear_combination a1 - b1)

/-! non-vacuity over `ZMod 101` (the honest transcript of `C02_Hyrax`) -/
example : Hyrax.check ([3, 5] : List K) 7 [[88, 65]] [6, 17] [Hyrax.mleEval [1, 2, 3, 4] [6, 17]]
    [⟨29, 49, 92, [79, 1], 67, 16, 1⟩] [11] = .ok true ∧ Hyrax.key0 ([3, 5] : List K) = some 3 ∧
    (3 : K) ≠ 0 ∧ (7 : K) ≠ 0 := by decide
/-- a transcript outside the relation in each of the three equations -/
example : Hyrax.check ([3, 5] : List K) 7 [[88, 65]] [6, 17] [41] [⟨30, 49, 92, [79, 1], 67, 16, 1⟩] [11]
      = .ok false ∧
    Hyrax.check ([3, 5] : List K) 7 [[88, 65]] [6, 17] [41] [⟨29, 49, 93, [79, 1], 67, 16, 1⟩] [11]
      = .ok false ∧
    Hyrax.check ([3, 5] : List K) 7 [[88, 65]] [6, 17] [41] [⟨29, 50, 92, [79, 1], 67, 16, 1⟩] [11]
      = .ok false := by decide

end PCV.C10
