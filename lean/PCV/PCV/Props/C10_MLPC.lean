/-
  Property C10 (multilinear PST) — `check` decides exactly the published verification relation.
-/
import PCV.Proofs.MLPCProps
import PCV.Props.Examples

namespace PCV.C10
open PCV
set_option linter.unusedSectionVars false
variable {F : Type} [Field F] [DecidableEq F]

/-- The verification relation of the multilinear PST scheme (XZZPD19 / Libra, App. A), in exponent
form: the transcript is well-shaped (exactly `nv` point coordinates, `nv` mask elements, exactly `nv` proof
elements) and `e(C − v·g, h) = ∏_{i<nv} e(g^{tᵢ} − zᵢ·g, πᵢ)`. -/
def MLPCRelation (vk : MLPC.VK F) (c : MLPC.Commitment F) (z : List F) (v : F) (πs : List F) : Prop :=
  z.length = vk.nv ∧ vk.nv ≤ vk.gMaskRandom.length ∧ πs.length = vk.nv
  ∧ (c.gProduct - v * vk.g) * vk.h
      = MLPC.relSum vk.g (vk.gMaskRandom.take vk.nv) (z.take vk.nv) πs

/-- **`check` accepts exactly when the relation holds** — for every key and every transcript,
honest or not. -/
theorem mlpc_check_iff_relation (vk : MLPC.VK F) (c : MLPC.Commitment F) (z : List F) (v : F)
    (πs : List F) : MLPC.check vk c z v πs = .ok true ↔ MLPCRelation vk c z v πs := by
  unfold MLPCRelation
  by_cases h1 : z.length = vk.nv
  · by_cases h2 : vk.nv ≤ vk.gMaskRandom.length
    · by_cases h3 : πs.length = vk.nv
      · rw [MLPC.check_iff_defect vk c z v πs h1 h2 h3, MLPC.defect_eq_rel, sub_eq_zero]
        exact ⟨fun h => ⟨h1, h2, h3, h⟩, fun h => h.2.2.2⟩
      · rw [MLPC.check_proof_length vk c z v πs h3]
        exact ⟨fun h => (by cases h), fun h => absurd h.2.2.1 h3⟩
    · have : MLPC.check vk c z v πs = .error .abort := by
        unfold MLPC.check; rw [if_neg (by omega), if_pos (by omega)]
      rw [this]
      exact ⟨fun h => (by cases h), fun h => absurd h.2.1 h2⟩
  · rw [MLPC.check_wrong_point_len vk c z v πs h1]
    exact ⟨fun h => (by cases h), fun h => absurd h.1 h1⟩

/-- when the relation fails the verifier answers `false` or aborts — never `true` -/
theorem mlpc_not_relation (vk : MLPC.VK F) (c : MLPC.Commitment F) (z : List F) (v : F)
    (πs : List F) (h : ¬ MLPCRelation vk c z v πs) :
    MLPC.check vk c z v πs = .ok false ∨ MLPC.check vk c z v πs = .error .abort := by
  have hn := mt (mlpc_check_iff_relation vk c z v πs).1 h
  unfold MLPC.check at hn ⊢
  split
  · exact Or.inr rfl
  · split
    · exact Or.inr rfl
    · split
      · exact Or.inr rfl
      · rename_i h1 h2 h3
        rw [if_neg h1, if_neg h2, if_neg h3] at hn
        left
        congr 1
        cases hd : decide (MLPC.defect vk c z v πs = 0) with
        | false => rfl
        | true => rw [hd] at hn; exact absurd rfl hn

/-- honest transcripts satisfy the relation -/
theorem mlpc_honest_satisfies (g h : F) (t z evals : List F) (n' : Nat)
    (hz : z.length = t.length) (he : evals.length = 2 ^ t.length) :
    MLPCRelation (MLPC.wfVK g h t) ⟨n', g * MLPC.mleEval evals t⟩ z (MLPC.mleEval evals z)
      (MLPC.proofSpec h t z evals) :=
  (mlpc_check_iff_relation _ _ _ _ _).1 (MLPC.check_honest g h t z evals n' hz he)

/-- **Every component the relation mentions influences the decision**: from an accepting
transcript, changing exactly the commitment (`h ≠ 0`), the value (`g, h ≠ 0`) or one proof element
(`g_mask[i] − zᵢ·g ≠ 0`) by `d ≠ 0` flips the decision. -/
theorem mlpc_each_component_matters (vk : MLPC.VK F) (c : MLPC.Commitment F) (z : List F) (v : F)
    (πs : List F) (d : F) (hd : d ≠ 0) (hh : vk.h ≠ 0)
    (hacc : MLPC.check vk c z v πs = .ok true) :
    MLPC.check vk ⟨c.nv, c.gProduct + d⟩ z v πs = .ok false
    ∧ (vk.g ≠ 0 → MLPC.check vk c z (v + d) πs = .ok false)
    ∧ (∀ i (hi : i < (MLPC.pairingLefts vk z).length) (hp : i < πs.length),
        (MLPC.pairingLefts vk z)[i] ≠ 0 → MLPC.check vk c z v (πs.set i (πs[i] + d)) = .ok false) := by
  obtain ⟨h1, h2, h3, _⟩ := (mlpc_check_iff_relation vk c z v πs).1 hacc
  rw [MLPC.check_iff_defect vk c z v πs h1 h2 h3] at hacc
  refine ⟨?_, ?_, ?_⟩
  · rw [MLPC.check_ok_decide _ _ _ _ _ h1 h2 h3]
    have : MLPC.defect vk ⟨c.nv, c.gProduct + d⟩ z v πs = d * vk.h := by
      unfold MLPC.defect at hacc ⊢; linear_combination hacc
    rw [this]; simp [hd, hh]
  · intro hg
    rw [MLPC.check_ok_decide _ _ _ _ _ h1 h2 h3]
    have : MLPC.defect vk c z (v + d) πs = -(vk.g * d * vk.h) := by
      unfold MLPC.defect at hacc ⊢; linear_combination hacc
    rw [this]; simp [hd, hh, hg]
  · intro i hi hp hne
    rw [MLPC.check_ok_decide _ _ _ _ _ h1 h2 (by simp [h3]), MLPC.defect_set _ _ _ _ _ i _ hi hp, hacc]
    simp [hd, hne]

example : MLPC.check (MLPC.wfVK (5 : K) 11 [7, 20]) ⟨2, 19⟩ [8, 13] 72 [31, 30] = .ok true
    ∧ (MLPC.wfVK (5 : K) 11 [7, 20]).h ≠ 0 ∧ (MLPC.wfVK (5 : K) 11 [7, 20]).g ≠ 0
    ∧ MLPC.pairingLefts (MLPC.wfVK (5 : K) 11 [7, 20]) [8, 13] = [96, 35] := by decide
example : ¬ MLPCRelation (MLPC.wfVK (5 : K) 11 [7, 20]) ⟨2, 19⟩ [8, 13] 73 [31, 30] := by
  rw [← mlpc_check_iff_relation]; decide

end PCV.C10
