/-
  Property C13 — linear-code proofs carry the column openings their security level needs.
  Only property theorems live here; lemmas are in PCV/Proofs/{CalcT,RS,BrakedownEnc}.lean.

  Partial (by nature of the code, DESIGN §5 C13): `calculate_t` is IEEE-754 code which Lean does not
  model; the theorems below are about `tSpec`, the exact quantity it has to return, and
  "`calculate_t = tSpec`" is established by the correspondence run of this property (grid of
  (field, λ, d, n) points, plus exact big-integer evaluation of the bound at `t` and `t − 1`).
-/
import PCV.Proofs.CalcT
import PCV.Proofs.RS
import PCV.Proofs.BrakedownEnc
import PCV.Props.Examples

namespace PCV.C13
open PCV PCV.LinCode
variable {F : Type} [Field F]

/-! ### the number of opened columns -/

/-- The ℕ-inequality evaluated by the model is exactly the scheme's soundness bound
`2·(1 − d/2)^t + n/q ≤ 2^(−λ)` for the relative distance `d = d0/d1`. -/
theorem bound_is_soundness_bound (lam d0 d1 n q t : Nat) (hd : d0 ≤ 2 * d1) (hd1 : 0 < d1)
    (hq : 0 < q) :
    boundHolds lam d0 d1 n q t = true ↔
      (2 : ℚ) * (1 - ((d0 : ℚ) / d1) / 2) ^ t + (n : ℚ) / q ≤ 1 / 2 ^ lam :=
  boundHolds_iff_rat lam d0 d1 n q t hd hd1 hq

/-- More openings never hurt: the bound is monotone in `t`. -/
theorem bound_mono (lam d0 d1 n q : Nat) {t t' : Nat} (hle : t ≤ t')
    (h : boundHolds lam d0 d1 n q t = true) : boundHolds lam d0 d1 n q t' = true :=
  bound_mono_le lam d0 d1 n q hle h

/-- **`tSpec` is the smallest count for which the bound holds, capped at the codeword length.** -/
theorem tSpec_least (lam d0 d1 n q r : Nat) (hd0 : 0 < d0) (hd : d0 < 2 * d1) (hq : 0 < q) :
    tSpec lam d0 d1 n q = some r ↔
      ∃ t, r = min t n ∧ boundHolds lam d0 d1 n q t = true ∧
        ∀ k, k < t → boundHolds lam d0 d1 n q k = false :=
  tSpec_eq_some_iff lam d0 d1 n q r hd0 hd hq

/-- `tSpec` refuses exactly when no number of openings reaches the security level … -/
theorem tSpec_none_iff (lam d0 d1 n q : Nat) (hd0 : 0 < d0) (hd : d0 < 2 * d1) (hq : 0 < q) :
    tSpec lam d0 d1 n q = none ↔ ∀ t, boundHolds lam d0 d1 n q t = false :=
  tSpec_eq_none_iff lam d0 d1 n q hd0 hd hq

/-- … which happens exactly when the field is too small for the codeword length and security
parameter: `n/q ≥ 2^(−λ)`. -/
theorem tSpec_exists_iff (lam d0 d1 n q : Nat) (hd0 : 0 < d0) (hd : d0 < 2 * d1) (hq : 0 < q) :
    (tSpec lam d0 d1 n q).isSome = true ↔ n * 2 ^ lam < q :=
  tSpec_isSome_iff lam d0 d1 n q hd0 hd hq

/-- the reported count never exceeds the codeword length -/
theorem tSpec_capped (lam d0 d1 n q r : Nat) (h : tSpec lam d0 d1 n q = some r) : r ≤ n :=
  tSpec_le lam d0 d1 n q r h

/-- The search cap of the executable specification loses nothing: if the bound holds anywhere it
holds at `tCap`. -/
theorem search_cap_justified (lam d0 d1 n q t : Nat) (hd0 : 0 < d0) (hd : d0 < 2 * d1) (hq : 0 < q)
    (h : boundHolds lam d0 d1 n q t = true) : boundHolds lam d0 d1 n q (tCap lam d1 q) = true :=
  bound_at_cap lam d0 d1 n q t hd0 hd hq h

/-- The driver's certified fast evaluation is the specification, whatever hint it is given. -/
theorem fast_evaluation_exact (lam d0 d1 n q hint : Nat) :
    tSpecFast lam d0 d1 n q hint = tSpec lam d0 d1 n q :=
  tSpecFast_eq lam d0 d1 n q hint

/-- The model of `calculate_t` returns `t` iff the distance is usable and `t = tSpec`; -/
theorem calcT_ok (lam d0 d1 n q hint t : Nat) :
    calcT lam d0 d1 n q hint = .ok t ↔
      distanceUsable d0 d1 = true ∧ tSpec lam d0 d1 n q = some t :=
  calcT_ok_iff lam d0 d1 n q hint t

/-- and **unusable parameter combinations are reported as errors** (`InvalidParameters`). -/
theorem calcT_unusable (lam d0 d1 n q hint : Nat) :
    (∃ e, calcT lam d0 d1 n q hint = .error e) ↔
      distanceUsable d0 d1 = false ∨ tSpec lam d0 d1 n q = none :=
  calcT_error_iff lam d0 d1 n q hint

theorem calcT_error_is_invalidParameters (lam d0 d1 n q hint : Nat) (e : Err)
    (h : calcT lam d0 d1 n q hint = .error e) : e = .invalidParameters :=
  calcT_error_kind lam d0 d1 n q hint e h

/-! ### the positions -/

/-- every position derived from the transcript is inside the codeword -/
theorem indices_in_range (n : Nat) (hn : 0 < n) (squeezes : List (List Nat)) :
    ∀ i ∈ getIndices n squeezes, i < n :=
  getIndices_lt n hn squeezes

/-- **An opening authenticates exactly `t = tSpec` columns, at positions `< n_ext_cols` that are the
squeezed byte strings folded big-endian and reduced mod `n_ext_cols`.** -/
theorem opening_positions (lam d0 d1 nExt q hint : Nat) (sq : List (List Nat))
    (idx : List Nat) (rest : List (List Nat))
    (h : openedPositions lam d0 d1 nExt q hint sq = .ok (idx, rest)) :
    ∃ t, distanceUsable d0 d1 = true ∧ tSpec lam d0 d1 nExt q = some t ∧
      idx = getIndices nExt (sq.take t) ∧ rest = sq.drop t ∧
      (t ≤ sq.length → idx.length = t) ∧ (0 < nExt → ∀ i ∈ idx, i < nExt) :=
  openedPositions_ok lam d0 d1 nExt q hint sq idx rest h

/-! ### the row encoding -/

/-- **Ligero (Reed–Solomon)**: `E(a·x + b·y) = a·E(x) + b·E(y)` for messages of equal length. -/
theorem rs_encode_linear (ω : F) (len : Nat) (a b : F) (x y : List F) (h : x.length = y.length) :
    rsEncode ω len (lc a x b y) = lc a (rsEncode ω len x) b (rsEncode ω len y) :=
  rs_linear ω len a b x y h

/-- the Reed–Solomon codeword has the declared length and entry `j` is the message polynomial at `ωʲ` -/
theorem rs_encode_length (ω : F) (len : Nat) (msg : List F) : (rsEncode ω len msg).length = len :=
  rs_length ω len msg

theorem rs_encode_entry (ω : F) (len : Nat) (msg : List F) (j : Nat) (h : j < len) :
    (rsEncode ω len msg)[j]? = some (evalPoly msg (ω ^ j)) :=
  rs_entry ω len msg j h

/-- **Brakedown**: the three-pass encoder is linear on the messages it accepts, -/
theorem brakedown_encode_linear (pp : BParams F) (a b : F) (x y cx cy : List F)
    (hx : encode pp x = .ok cx) (hy : encode pp y = .ok cy) :
    encode pp (lc a x b y) = .ok (lc a cx b cy) :=
  encode_linear pp a b x y cx cy hx hy

/-- every codeword has the declared length `m_ext`, -/
theorem brakedown_encode_length (pp : BParams F) (x cx : List F) (hx : encode pp x = .ok cx) :
    cx.length = pp.mExt :=
  encode_length pp x cx hx

/-- and a message of the wrong length is refused with `EncodingError`. -/
theorem brakedown_encode_refuses (pp : BParams F) (x : List F) (h : x.length ≠ pp.m) :
    encode pp x = .error .encodingError :=
  encode_wrong_length pp x h

/-! ### non-vacuity -/

-- λ = 2, d = 1/2, n = 20, q = 101: thirteen openings are needed, twelve do not suffice
example : boundHolds 2 1 2 20 101 13 = true ∧ boundHolds 2 1 2 20 101 12 = false := by decide
example : tSpec 2 1 2 20 101 = some 13 := by decide +kernel
-- the cap `min t n` is active for a short codeword, and a field that is too small is refused
example : tSpec 2 1 2 5 101 = some 5 := by decide +kernel
example : tSpec 5 1 2 20 101 = none := by decide +kernel
example : calcT 2 1 2 20 101 0 = .ok 13 := by decide +kernel
example : calcT 2 0 2 20 101 0 = .error .invalidParameters := by decide +kernel
example : calcT 2 4 2 20 101 0 = .error .invalidParameters := by decide +kernel
-- positions: two bytes per index for n = 1000
example : getNumBytes 1000 = 2 ∧ getIndices 1000 [[1, 2], [255, 255], [0, 0]] = [258, 535, 0] := by
  decide +kernel
example : openedPositions 2 1 2 20 101 0 (List.replicate 15 [7]) =
    .ok (List.replicate 13 7, List.replicate 2 [7]) := by decide +kernel
-- Reed–Solomon over `ZMod 101` with `ω = 10` of order 4
example : rsEncode (10 : K) 4 [1, 2] = [3, 21, 100, 82] := by decide
example : rsEncode (10 : K) 4 (lc 5 [1, 2] 7 [3, 4]) =
    lc 5 (rsEncode (10 : K) 4 [1, 2]) 7 (rsEncode (10 : K) 4 [3, 4]) := by decide
-- a one-level Brakedown code (`toyParams`): `m = 2`, `A : 2×1`, base code of length 2, `B : 2×1`
example : shapeOk (toyParams K) = true := by decide
example : encode (toyParams K) [1, 2] = .ok [1, 2, 11, 11, 33] := by decide
example : encode (toyParams K) [1, 2, 3] = .error .encodingError := by decide
example : encode (toyParams K) (lc 5 [1, 2] 7 [3, 4]) = .ok (lc 5 [1, 2, 11, 11, 33] 7 [3, 4, 25, 25, 75]) := by
  decide

end PCV.C13
