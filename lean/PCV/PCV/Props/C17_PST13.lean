/-
  Property C17 — out-of-domain requests are refused, never answered with a wrong result:
  MarlinPST13.  The domain of a key `(num_vars, supported_degree)`: polynomials over at most
  `num_vars` variables of total degree `≤ supported_degree`; hiding bounds
  `1 ≤ hb ≤ supported_degree` with an RNG; points with at least the coordinates the polynomial
  reads (and at least `num_vars` for the verifier); proofs with exactly `num_vars` witnesses; labels
  that name supplied polynomials / commitments / evaluations; `setup` with at least one variable and
  degree at least one; `trim` within the maximum degree.  Everything outside ends in an error or an
  abort (`Err.abort` = panic), by the model functions the harness compares with the code.
  (`PolynomialDegreeTooLarge` is represented by `tooManyCoefficients`: the shared error type has no
  such constructor; outcome classes are what is compared.)
-/
import PCV.Proofs.PST13More
import PCV.Proofs.Combinations
import PCV.Props.Examples

set_option synthInstance.maxSize 512
set_option linter.unusedSectionVars false
set_option linter.unusedVariables false

namespace PCV.C17
open PCV PCV.MV PCV.C15Spec
variable {F : Type} [Field F] [DecidableEq F]

/-- **Degree above the supported degree**: `commit` and `open` refuse
(`PolynomialDegreeTooLarge`) — any hiding bound, RNG, point, other polynomials. -/
theorem pst13_degree_too_large_refused (ck : PST.CK F) (p : MVPoly F)
    (h : degreeMV p > ck.supportedDegree) :
    (∀ hb rng draws, PST.commit ck p hb rng draws = .error .tooManyCoefficients) ∧
    (∀ nvp nvr ps z r rs ξs,
      PST.open ck nvp nvr (p :: ps) z (r :: rs) ξs = .error .tooManyCoefficients) :=
  ⟨fun hb rng draws => PST.commit_degree_refused ck p hb rng draws h,
   fun nvp nvr ps z r rs ξs => PST.open_degree_refused ck nvp nvr p ps z r rs ξs h⟩

/-- **Wrong number of variables, polynomial side**: a polynomial with a monomial the key does not
publish makes `commit` abort (`powers_of_g.get(term).unwrap()`); under the key of a trapdoor over
`nv` variables that is every monomial using a variable `≥ nv`. -/
theorem pst13_extra_variable_refused (g γ : F) (β : List F) (ts : List Term) (nv s D m : Nat)
    (hts : ∀ u ∈ ts, Term.varsBelow nv u = true) (p : MVPoly F) (hb : Option Nat) (rng : Bool)
    (draws : List F) (hd : degreeMV p ≤ s) (t : Term) (ht : t ∈ termsOf p) (q : Nat × Nat)
    (hq : q ∈ t) (hv : nv ≤ q.1) :
    PST.commit (PST.wfCK g γ β ts nv s D m) p hb rng draws = .error .abort :=
  PST.commit_unpublished_monomial _ p hb rng draws hd t ht
    (PST.wfCK_unpublished g γ β ts nv s D m hts t q hq hv)

/-- **Wrong number of variables, point side**: `open` aborts when `divide_at_point` would index the
point out of range; `check` answers only at points with at least `num_vars` coordinates. -/
theorem pst13_short_point_refused (ck : PST.CK F) (vk : PST.VK F) :
    (∀ nvp nvr p r z, PST.divideOk nvp p z = false →
      PST.openCombined ck nvp nvr p r z = .error .abort) ∧
    (∀ cs z vs π ξs b, PST.check vk cs z vs π ξs = .ok b → vk.numVars ≤ z.length) := by
  refine ⟨fun nvp nvr p r z h => PST.openCombined_index_refused ck nvp nvr p r z h, ?_⟩
  intro cs z vs π ξs b h
  obtain ⟨h1, _, _, _, h2, _⟩ := PST.check_ok_inv vk cs z vs π ξs b h
  omega

/-- **Hiding bound zero or beyond the key, missing RNG**: never a commitment. -/
theorem pst13_bad_hiding_refused (ck : PST.CK F) (p : MVPoly F) (hb : Nat) (draws : List F)
    (out : F × MVPoly F × List F) :
    (∀ rng, (hb = 0 ∨ ck.supportedDegree < hb) → PST.commit ck p (some hb) rng draws ≠ .ok out) ∧
    PST.commit ck p (some hb) false draws ≠ .ok out :=
  ⟨fun rng hbad => PST.commit_hiding_refused ck p hb rng draws hbad out,
   PST.commit_missing_rng ck p hb draws out⟩

/-- **Zero variables / zero degree at `setup`, a supported degree above the maximum at `trim`.** -/
theorem pst13_bad_parameters_refused (D nv : Nat) (betas : List F) (g γ h : F)
    (pp : PST.UParams F) (s : Nat) :
    (nv < 1 → PST.setup D nv betas g γ h = .error .invalidNumVars) ∧
    (1 ≤ nv → D < 1 → PST.setup D nv betas g γ h = .error .degreeIsZero) ∧
    (s > pp.maxDegree → PST.trim pp s = .error .trimTooLarge) :=
  ⟨(PST.setup_refuses D nv betas g γ h).1, (PST.setup_refuses D nv betas g γ h).2,
    PST.trim_refuses pp s⟩

/-- **Unknown polynomial / missing evaluation** in `batch_open` / `batch_check` (and therefore in
`open_combinations` / `check_combinations`): `MissingPolynomial` / `MissingEvaluation`. -/
theorem pst13_unknown_label_refused (trips : List (PST.Trip F)) (comms : List (PST.LComm F))
    (evals : PST.Evals F) (z : List F) (l : PST.Label) (ls : List PST.Label) :
    (Marlin.lookupLast (fun (t : PST.Trip F) => t.1.label) l trips = none →
      PST.gatherTrips trips (l :: ls) = .error .missingPolynomial) ∧
    (Marlin.lookupLast (fun (c : PST.LComm F) => c.label) l comms = none →
      PST.gatherComms comms evals z (l :: ls) = .error .missingPolynomial) ∧
    (∀ c, Marlin.lookupLast (fun (c : PST.LComm F) => c.label) l comms = some c →
      (c.bound = none ∧ c.comm.shifted = none) → PST.lookupEval evals l z = none →
      PST.gatherComms comms evals z (l :: ls) = .error .missingEvaluation) :=
  ⟨PST.gatherTrips_unknown trips l ls, PST.gatherComms_unknown comms evals z l ls,
    fun c hc hb he => PST.gatherComms_missing_eval comms evals z l ls c hc hb he⟩

/-- **A proof of the wrong shape** is refused by both verifiers (C03): wrong witness count —
`IncorrectInputLength`; wrong number of proofs in a batch — abort. -/
theorem pst13_wrong_shape_refused (vk : PST.VK F) :
    (∀ cs z vs π ξs, π.w.length ≠ vk.numVars →
      PST.check vk cs z vs π ξs = .error .incorrectInputLength) ∧
    (∀ cs zs vs πs rs, πs.length ≠ zs.length →
      PST.batchDefect vk cs zs vs πs rs = .error .abort) ∧
    (∀ cs zs vs πs rs, πs.length = zs.length → ∀ π ∈ πs, π.w.length ≠ vk.numVars →
      PST.batchDefect vk cs zs vs πs rs = .error .incorrectInputLength) :=
  ⟨fun cs z vs π ξs h => PST.check_wrong_length vk cs z vs π ξs h,
   fun cs zs vs πs rs h => PST.batchDefect_wrong_count vk cs zs vs πs rs h,
   fun cs zs vs πs rs hl π hπ hw => PST.batchDefect_wrong_witness_count vk cs zs vs πs rs hl π hπ hw⟩

/-- **In-domain requests are answered** (restating C15/C01): a covering key commits every
polynomial of degree `≤ s` over `nv` variables, with any hiding bound `1 ≤ hb ≤ s`, and opens it at
every point with `nv` coordinates. -/
theorem pst13_in_domain_answered (g γ : F) (β : List F) (ts : List Term) (nv s D : Nat)
    (hcov : ∀ t, PST.Covered nv s t → t ∈ ts) (p : MVPoly F)
    (hp : polyWf p = true) (hpv : polyVarsBelow nv p = true) (hd : degreeMV p ≤ s)
    (hb : Option Nat) (draws : List F)
    (hhb : ∀ b, hb = some b → 1 ≤ b ∧ b ≤ s ∧ 1 + nv * (b + 1) ≤ draws.length) :
    ∃ out, PST.commit (PST.wfCK g γ β ts nv s D (s + 1)) p hb true draws = .ok out :=
  PST.commit_ok g γ β ts nv s D hcov p hp hpv hd hb draws hhb

/-! ### non-vacuity over `ZMod 101` (key of the trapdoor `(2,7)`, two variables, degree 2) -/

def exCK : PST.CK K := PST.wfCK (3 : K) 5 [2, 7] (specTerms 2 2) 2 2 2 3
def exP : MVPoly K := [(4, []), (6, [(1, 1)]), (9, [(0, 1), (1, 1)]), (2, [(0, 2)])]

example : PST.commit exCK [(2, [(0, 3)])] none false [] = .error .tooManyCoefficients := by decide
example : PST.open exCK 2 0 [[(2, [(0, 3)])]] [10, 20] [[]] [13] = .error .tooManyCoefficients := by
  decide
/-- a monomial in a third variable; its hypothesis: the published monomials use variables `< 2` -/
example : PST.commit exCK [(2, [(2, 1)])] none false [] = .error .abort := by decide
example : ∀ u ∈ specTerms 2 2, Term.varsBelow 2 u = true := by decide
/-- a point with one coordinate: `open` aborts when `x₁` occurs, and answers when it does not -/
example : PST.open exCK 2 0 [exP] [10] [[]] [13] = .error .abort := by decide
example : PST.divideOk 2 (addScaledMV [] (13 : K) exP) [10] = false := by decide
example : PST.open exCK 2 0 [[(4, []), (6, [(0, 1)])]] [10] [[]] [13] = .ok ⟨[32, 0], none⟩ := by decide
example : PST.check (PST.wfVK (3 : K) 5 11 [2, 7] 2 2 2) [27] [10] [3] ⟨[10, 66], some 93⟩ [13]
    = .error .abort := by decide
/-- hiding bound zero, too large, missing RNG -/
example : PST.commit exCK exP (some 0) true [1, 2, 3, 4, 5, 6, 7] = .error .hidingBoundZero := by decide
example : PST.commit exCK exP (some 3) true [1, 2, 3, 4, 5, 6, 7, 8, 9, 10]
    = .error .hidingBoundTooLarge := by decide
example : PST.commit exCK exP (some 1) false [1, 2, 3, 4, 5, 6, 7] = .error .abort := by decide
example : PST.setup 2 0 ([] : List K) 3 5 11 = .error .invalidNumVars := by decide
example : PST.setup 0 2 ([2, 7] : List K) 3 5 11 = .error .degreeIsZero := by decide

end PCV.C17
