/-
  Property C02 (MarlinKZG10) — a changed statement with an honest proof is rejected.
-/
import PCV.Proofs.MarlinMore
import PCV.Proofs.MarlinStatement
import PCV.Props.C01_Marlin

namespace PCV.C02
open PCV Marlin
variable {F : Type} [Field F] [DecidableEq F]

/-- **MarlinKZG10, claimed values.** From any accepted transcript (in particular every honest one,
C01), perturbing the claimed values by the vector `ds` is accepted iff `h·⟨κ, ds⟩ = 0`, where
`κⱼ = ξⱼ·g + ξ′ⱼ·shift(dⱼ)` is the explicit weight of position `j`. -/
theorem marlin_values_iff (vk : VK F) (cs : List (LComm F)) (z : F) (vs ds ξs : List F)
    (π : KZG.Proof F) (rest : List F) (hlen : ds.length = vs.length)
    (hacc : check vk cs z vs π ξs = .ok (true, rest)) :
    check vk cs z (List.zipWith (· + ·) vs ds) π ξs = .ok (true, rest)
      ↔ vk.vk.h * dot (kappa vk cs ξs) ds = 0 :=
  check_perturbed_iff vk cs z vs ds ξs π rest hlen hacc

/-- one wrong value at position `j` (unbounded polynomial, single-element list shown; the general
position is `marlin_values_iff` with a unit vector): rejected when `δ, ξ, g, h ≠ 0` -/
theorem marlin_wrong_value_rejected (vk : VK F) (l : Label) (c z v δ ξ : F) (ξs : List F)
    (π : KZG.Proof F) (hδ : δ ≠ 0) (hξ : ξ ≠ 0) (hg : vk.vk.g ≠ 0) (hh : vk.vk.h ≠ 0)
    (hacc : check vk [⟨l, ⟨c, none⟩, none⟩] z [v] π (ξ :: ξs) = .ok (true, ξs)) :
    check vk [⟨l, ⟨c, none⟩, none⟩] z [v + δ] π (ξ :: ξs) ≠ .ok (true, ξs) := by
  intro hx
  have := (check_perturbed_iff vk [⟨l, ⟨c, none⟩, none⟩] z [v] [δ] (ξ :: ξs) π ξs rfl hacc).1
    (by simpa using hx)
  simp only [kappa, dot_cons, dot_nil_left, add_zero, mul_eq_zero] at this
  rcases this with h1 | (h1 | h1) | h1 <;> contradiction

example : check C01.exVK [⟨[112], ⟨43, some 90⟩, some 2⟩] 10 [evalPoly [1, 2, 3] 10 + 1]
    ⟨49, some 68⟩ [11, 13] = .ok (false, []) := by decide

/-- **MarlinKZG10, replaced commitments.** From any accepted transcript, adding `(δcⱼ, δsⱼ)` to the
plain / shifted part of commitment `j` (any positions at once) is accepted iff
`h·Σ(ξⱼ·δcⱼ + ξ′ⱼ·δsⱼ) = 0` — a commitment to a different polynomial in place of the original
(`δc = g·(q−p)(β) ≠ 0`), a swapped or foreign shifted part, … are rejected unless the challenge-weighted
sum vanishes. -/
theorem marlin_commitments_iff (vk : VK F) (cs : List (LComm F)) (ds : List (F × F)) (z : F)
    (vs ξs : List F) (π : KZG.Proof F) (rest : List F)
    (hlen : ds.length = cs.length) (hv : vs.length = cs.length)
    (hacc : check vk cs z vs π ξs = .ok (true, rest)) :
    check vk (addComms cs ds) z vs π ξs = .ok (true, rest)
      ↔ vk.vk.h * commWeight cs ds ξs = 0 :=
  check_addComms_iff vk cs ds z vs ξs π rest hlen hv hacc

/-- one replaced (unbounded) commitment: rejected when `δ, ξ, h ≠ 0` -/
theorem marlin_wrong_commitment_rejected (vk : VK F) (l : Label) (c z v δ ξ : F) (ξs : List F)
    (π : KZG.Proof F) (hδ : δ ≠ 0) (hξ : ξ ≠ 0) (hh : vk.vk.h ≠ 0)
    (hacc : check vk [⟨l, ⟨c, none⟩, none⟩] z [v] π (ξ :: ξs) = .ok (true, ξs)) :
    check vk [⟨l, ⟨c + δ, none⟩, none⟩] z [v] π (ξ :: ξs) ≠ .ok (true, ξs) := by
  intro hx
  have := (check_addComms_iff vk [⟨l, ⟨c, none⟩, none⟩] [(δ, 0)] z [v] (ξ :: ξs) π ξs rfl rfl hacc).1
    (by simpa [addComms] using hx)
  simp only [commWeight, add_zero, mul_eq_zero] at this
  rcases this with h1 | h1 | h1 <;> contradiction

/-- **MarlinKZG10, another point.** A transcript accepted at `z` is accepted at `z' ≠ z` (same
commitments, values and proof) iff `h·W·(z'−z) = 0`, i.e. (for `h ≠ 0`) iff the witness element is the
identity — for an honest proof, iff the combined witness polynomial `(p − p(z))/(X − z)` has the
trapdoor as a root (at most `deg p − 1` of `|F|` trapdoors, or `p` is constant, for which every point
gives the same true value). -/
theorem marlin_wrong_point_iff (vk : VK F) (cs : List (LComm F)) (z z' : F) (vs ξs : List F)
    (π : KZG.Proof F) (rest : List F)
    (hacc : check vk cs z vs π ξs = .ok (true, rest)) :
    check vk cs z' vs π ξs = .ok (true, rest) ↔ vk.vk.h * π.w * (z' - z) = 0 :=
  check_other_point_iff vk cs z z' vs ξs π rest hacc

theorem marlin_wrong_point_rejected (vk : VK F) (cs : List (LComm F)) (z z' : F) (vs ξs : List F)
    (π : KZG.Proof F) (rest : List F) (hz : z' ≠ z) (hh : vk.vk.h ≠ 0) (hw : π.w ≠ 0)
    (hacc : check vk cs z vs π ξs = .ok (true, rest)) :
    check vk cs z' vs π ξs ≠ .ok (true, rest) := by
  intro hx
  have := (check_other_point_iff vk cs z z' vs ξs π rest hacc).1 hx
  simp only [mul_eq_zero, sub_eq_zero] at this
  rcases this with (h1 | h1) | h1 <;> contradiction

example : check C01.exVK [⟨[112], ⟨43 + 1, some 90⟩, some 2⟩] 10 [evalPoly [1, 2, 3] 10]
    ⟨49, some 68⟩ [11, 13] = .ok (false, []) := by decide
example : check C01.exVK [⟨[112], ⟨43, some 90⟩, some 2⟩] 11 [evalPoly [1, 2, 3] 10]
    ⟨49, some 68⟩ [11, 13] = .ok (false, []) := by decide

end PCV.C02
