/-
  Property C02 (MarlinKZG10) — a changed statement with an honest proof is rejected.
-/
import PCV.Proofs.MarlinMore
import PCV.Proofs.MarlinStatement
import PCV.Proofs.MarlinBatchShift
import PCV.Props.C01_MarlinBatch
import PCV.Props.C01_Marlin

namespace PCV.C02
open PCV Marlin
variable {F : Type} [Field F] [DecidableEq F]

/-- **MarlinKZG10, claimed values.** From any accepted transcript (in particular every honest one,
C01), perturbing the claimed values by the vector `ds` is accepted iff `h·⟨κ, ds⟩ = 0`, where
`κⱼ = ξⱼ·g + ξ′ⱼ·shift(dⱼ)` is the explicit weight of position `j`. -/
theorem marlin_values_iff (vk : VK F) (cs : List (LComm F)) (z : F) (vs ds ξs : List F)
    (π : KZG.Proof F) (rest : List F) (hlen : ds.length = vs.length)
    (hacc : check vk cs z vs π ξs = .ok (true, rest)) :
    check vk cs z (List.zipWith (· + ·) vs ds) π ξs = .ok (true, rest)
      ↔ vk.vk.h * dot (kappa vk cs ξs) ds = 0 :=
  check_perturbed_iff vk cs z vs ds ξs π rest hlen hacc

/-- one wrong value at position `j` (unbounded polynomial, single-element list shown; the general
position is `marlin_values_iff` with a unit vector): rejected when `δ, ξ, g, h ≠ 0` -/
theorem marlin_wrong_value_rejected (vk : VK F) (l : Label) (c z v δ ξ : F) (ξs : List F)
    (π : KZG.Proof F) (hδ : δ ≠ 0) (hξ : ξ ≠ 0) (hg : vk.vk.g ≠ 0) (hh : vk.vk.h ≠ 0)
    (hacc : check vk [⟨l, ⟨c, none⟩, none⟩] z [v] π (ξ :: ξs) = .ok (true, ξs)) :
    check vk [⟨l, ⟨c, none⟩, none⟩] z [v + δ] π (ξ :: ξs) ≠ .ok (true, ξs) := by
  intro hx
  have := (check_perturbed_iff vk [⟨l, ⟨c, none⟩, none⟩] z [v] [δ] (ξ :: ξs) π ξs rfl hacc).1
    (by simpa using hx)
  simp only [kappa, dot_cons, dot_nil_left, add_zero, mul_eq_zero] at this
  rcases this with h1 | (h1 | h1) | h1 <;> contradiction

example : check C01.exVK [⟨[112], ⟨43, some 90⟩, some 2⟩] 10 [evalPoly [1, 2, 3] 10 + 1]
    ⟨49, some 68⟩ [11, 13] = .ok (false, []) := by decide

/-- **MarlinKZG10, replaced commitments.** From any accepted transcript, adding `(δcⱼ, δsⱼ)` to the
plain / shifted part of commitment `j` (any positions at once) is accepted iff
`h·Σ(ξⱼ·δcⱼ + ξ′ⱼ·δsⱼ) = 0` — a commitment to a different polynomial in place of the original
(`δc = g·(q−p)(β) ≠ 0`), a swapped or foreign shifted part, … are rejected unless the challenge-weighted
sum vanishes. -/
theorem marlin_commitments_iff (vk : VK F) (cs : List (LComm F)) (ds : List (F × F)) (z : F)
    (vs ξs : List F) (π : KZG.Proof F) (rest : List F)
    (hlen : ds.length = cs.length) (hv : vs.length = cs.length)
    (hacc : check vk cs z vs π ξs = .ok (true, rest)) :
    check vk (addComms cs ds) z vs π ξs = .ok (true, rest)
      ↔ vk.vk.h * commWeight cs ds ξs = 0 :=
  check_addComms_iff vk cs ds z vs ξs π rest hlen hv hacc

/-- one replaced (unbounded) commitment: rejected when `δ, ξ, h ≠ 0` -/
theorem marlin_wrong_commitment_rejected (vk : VK F) (l : Label) (c z v δ ξ : F) (ξs : List F)
    (π : KZG.Proof F) (hδ : δ ≠ 0) (hξ : ξ ≠ 0) (hh : vk.vk.h ≠ 0)
    (hacc : check vk [⟨l, ⟨c, none⟩, none⟩] z [v] π (ξ :: ξs) = .ok (true, ξs)) :
    check vk [⟨l, ⟨c + δ, none⟩, none⟩] z [v] π (ξ :: ξs) ≠ .ok (true, ξs) := by
  intro hx
  have := (check_addComms_iff vk [⟨l, ⟨c, none⟩, none⟩] [(δ, 0)] z [v] (ξ :: ξs) π ξs rfl rfl hacc).1
    (by simpa [addComms] using hx)
  simp only [commWeight, add_zero, mul_eq_zero] at this
  rcases this with h1 | h1 | h1 <;> contradiction

/-- **MarlinKZG10, another point.** A transcript accepted at `z` is accepted at `z' ≠ z` (same
commitments, values and proof) iff `h·W·(z'−z) = 0`, i.e. (for `h ≠ 0`) iff the witness element is the
identity — for an honest proof, iff the combined witness polynomial `(p − p(z))/(X − z)` has the
trapdoor as a root (at most `deg p − 1` of `|F|` trapdoors, or `p` is constant, for which every point
gives the same true value). -/
theorem marlin_wrong_point_iff (vk : VK F) (cs : List (LComm F)) (z z' : F) (vs ξs : List F)
    (π : KZG.Proof F) (rest : List F)
    (hacc : check vk cs z vs π ξs = .ok (true, rest)) :
    check vk cs z' vs π ξs = .ok (true, rest) ↔ vk.vk.h * π.w * (z' - z) = 0 :=
  check_other_point_iff vk cs z z' vs ξs π rest hacc

theorem marlin_wrong_point_rejected (vk : VK F) (cs : List (LComm F)) (z z' : F) (vs ξs : List F)
    (π : KZG.Proof F) (rest : List F) (hz : z' ≠ z) (hh : vk.vk.h ≠ 0) (hw : π.w ≠ 0)
    (hacc : check vk cs z vs π ξs = .ok (true, rest)) :
    check vk cs z' vs π ξs ≠ .ok (true, rest) := by
  intro hx
  have := (check_other_point_iff vk cs z z' vs ξs π rest hacc).1 hx
  simp only [mul_eq_zero, sub_eq_zero] at this
  rcases this with (h1 | h1) | h1 <;> contradiction

/-- **MarlinKZG10, every position of a batched opening.**  Shift the claimed values of an accepted batch
by ANY function `δ` of the key (polynomial label, point) — one wrong value, several, errors planted to
cancel across polynomials of one point label or across point labels: the batch is accepted iff
`h · Σₖ ρₖ · ⟨κₖ, dsₖ⟩ = 0`, where `k` runs over the point labels, `ρₖ` is the verifier's randomizer
(`ρ₀ = 1`), `κₖ` the challenge weights of that label's members and `dsₖ` their shifts. -/
theorem marlin_batch_values_iff (vk : VK F) (comms : List (LComm F)) (qs : List (Query F))
    (evals : List ((Label × F) × F)) (δ : Label × F → F) (πs : List (KZG.Proof F)) (ξs rs : List F)
    (trip : List (F × F × F)) (rest : List F)
    (hc : combineGroups vk comms evals (groupQueries qs) ξs = .ok (trip, rest))
    (hlen : πs.length = trip.length)
    (hacc : batchCheck vk comms qs evals πs ξs rs = .ok true) :
    batchCheck vk comms qs (shiftEvals δ evals) πs ξs rs = .ok true ↔
      vk.vk.h * KZG.wsum 1 rs (groupShifts vk comms evals δ (groupQueries qs) ξs) = 0 :=
  batchCheck_shift_iff vk comms qs evals δ πs ξs rs trip rest hc hlen hacc

/-- non-vacuity on the batch of `C01.exBatch`: `+1` on the claim of `[98]` at the second point label -/
example : groupShifts C01.exVK (C01.exBatch.map (·.2.2))
      [(([97], 5), evalPoly [1, 2, 3] 5), (([98], 5), evalPoly [4, 0, 1] 5), (([98], 9), evalPoly [4, 0, 1] 9)]
      (fun k => if k = ([98], 9) then 1 else 0) (groupQueries C01.exQueries) [11, 13, 17, 19]
    = [0, 51] ∧
    batchCheck C01.exVK (C01.exBatch.map (·.2.2)) C01.exQueries
      (shiftEvals (fun k => if k = ([98], 9) then 1 else 0)
        [(([97], 5), evalPoly [1, 2, 3] 5), (([98], 5), evalPoly [4, 0, 1] 5), (([98], 9), evalPoly [4, 0, 1] 9)])
      [⟨22, none⟩, ⟨56, none⟩] [11, 13, 17, 19] [29] = .ok false := by decide

example : check C01.exVK [⟨[112], ⟨43 + 1, some 90⟩, some 2⟩] 10 [evalPoly [1, 2, 3] 10]
    ⟨49, some 68⟩ [11, 13] = .ok (false, []) := by decide
example : check C01.exVK [⟨[112], ⟨43, some 90⟩, some 2⟩] 11 [evalPoly [1, 2, 3] 10]
    ⟨49, some 68⟩ [11, 13] = .ok (false, []) := by decide

end PCV.C02
