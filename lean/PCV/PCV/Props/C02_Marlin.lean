/-
  Property C02 (MarlinKZG10) — a changed statement with an honest proof is rejected.
-/
import PCV.Proofs.MarlinMore
import PCV.Props.C01_Marlin

namespace PCV.C02
open PCV Marlin
variable {F : Type} [Field F] [DecidableEq F]

/-- **MarlinKZG10, claimed values.** From any accepted transcript (in particular every honest one,
C01), perturbing the claimed values by the vector `ds` is accepted iff `h·⟨κ, ds⟩ = 0`, where
`κⱼ = ξⱼ·g + ξ′ⱼ·shift(dⱼ)` is the explicit weight of position `j`. -/
theorem marlin_values_iff (vk : VK F) (cs : List (LComm F)) (z : F) (vs ds ξs : List F)
    (π : KZG.Proof F) (rest : List F) (hlen : ds.length = vs.length)
    (hacc : check vk cs z vs π ξs = .ok (true, rest)) :
    check vk cs z (List.zipWith (· + ·) vs ds) π ξs = .ok (true, rest)
      ↔ vk.vk.h * dot (kappa vk cs ξs) ds = 0 :=
  check_perturbed_iff vk cs z vs ds ξs π rest hlen hacc

/-- one wrong value at position `j` (unbounded polynomial, single-element list shown; the general
position is `marlin_values_iff` with a unit vector): rejected when `δ, ξ, g, h ≠ 0` -/
theorem marlin_wrong_value_rejected (vk : VK F) (l : Label) (c z v δ ξ : F) (ξs : List F)
    (π : KZG.Proof F) (hδ : δ ≠ 0) (hξ : ξ ≠ 0) (hg : vk.vk.g ≠ 0) (hh : vk.vk.h ≠ 0)
    (hacc : check vk [⟨l, ⟨c, none⟩, none⟩] z [v] π (ξ :: ξs) = .ok (true, ξs)) :
    check vk [⟨l, ⟨c, none⟩, none⟩] z [v + δ] π (ξ :: ξs) ≠ .ok (true, ξs) := by
  intro hx
  have := (check_perturbed_iff vk [⟨l, ⟨c, none⟩, none⟩] z [v] [δ] (ξ :: ξs) π ξs rfl hacc).1
    (by simpa using hx)
  simp only [kappa, dot_cons, dot_nil_left, add_zero, mul_eq_zero] at this
  rcases this with h1 | (h1 | h1) | h1 <;> contradiction

example : check C01.exVK [⟨[112], ⟨43, some 90⟩, some 2⟩] 10 [evalPoly [1, 2, 3] 10 + 1]
    ⟨49, some 68⟩ [11, 13] = .ok (false, []) := by decide

end PCV.C02
