/-
  Property C17 (out-of-domain requests are refused, never answered with a wrong result) — the
  linear-code schemes.  Model: `PCV.Model.LinCode` (`commit`, `openOne`, `checkOne`, `checkAll`),
  `PCV.Model.LinCodeTranscript` (the `calculate_t(..)?` of `open` / `check`),
  `PCV.Model.LinCodeSetup` (`setup` / `trim`: `C09.lincode_setup_refuses`, `C09.lincode_trim_faithful`).
  Every refusal branch: an encoder that refuses a row, a polynomial larger (D21) or of another size
  (D25) than a fixed shape was made for, fewer than two leaves, a point too short for
  the matrix or with the wrong number of coordinates (D23), a state of the wrong shape, invalid parameters, `v` / well-formedness vector of the wrong
  length or missing, a missing proof, missing columns or paths, a wrong leaf position, a failing
  Merkle path, an encoding of the wrong length, a failing column test — and conversely: an ANSWER
  (`Ok(true)` or `Ok(false)`) is given only inside the published pre-value relation.  In-domain
  requests never abort: `lincode_in_domain_answered` (on a sponge, with and without the
  well-formedness check).
-/
import PCV.Proofs.LinCodeTranscript
import PCV.Proofs.LinCodeToy
import PCV.Proofs.Dimensions

set_option linter.unusedSectionVars false
set_option linter.unusedVariables false

namespace PCV.C17
open PCV PCV.LinCode PCV.Merkle
variable {F : Type} [Field F] [DecidableEq F] {D : Type} [DecidableEq D]

/-! ### `commit` -/

/-- a row the encoder refuses (Brakedown: a message of the wrong length): `commit` aborts -/
theorem lincode_commit_encoder_refusal_aborts (pp : Params F D) (coeffs : List F)
    (h : ∃ r ∈ (coeffMat pp.dims coeffs).rows, ∃ e, pp.enc r = .error e) :
    ∃ e, commit pp coeffs = .error e := by
  cases hc : commit pp coeffs with
  | error e => exact ⟨e, rfl⟩
  | ok r =>
    exfalso
    unfold commit computeMatrices at hc
    by_cases hf : fitsDims pp.dims coeffs = false
    · rw [if_pos hf] at hc; cases hc
    rw [if_neg hf] at hc
    unfold computeMatricesCore at hc
    simp only at hc
    obtain ⟨row, hrow, e, he⟩ := h
    have : ∀ rows : List (List F), row ∈ rows → ∃ e', encodeRows pp.enc rows = .error e' := by
      intro rows
      induction rows with
      | nil => intro h; cases h
      | cons r0 rs ih =>
        intro hm
        simp only [encodeRows]
        cases hr0 : pp.enc r0 with
        | error e0 => exact ⟨_, rfl⟩
        | ok w =>
          simp only
          rcases List.mem_cons.1 hm with rfl | hm
          · rw [he] at hr0; cases hr0
          · obtain ⟨e', he'⟩ := ih hm
            rw [he']; exact ⟨_, rfl⟩
    obtain ⟨e', he'⟩ := this _ hrow
    rw [he'] at hc
    cases hc

/-- **A polynomial larger than the matrix of the parameters is refused** (fix D21): when the coefficient vector
has more entries than `n_rows · n_cols` — possible only for a code of fixed shape, i.e. Brakedown keys made
for fewer variables — `commit` aborts instead of committing to a truncation. -/
theorem lincode_commit_oversize_refused (pp : Params F D) (coeffs : List F)
    (h : (pp.dims (coeffsOrZero coeffs).length).1 * (pp.dims (coeffsOrZero coeffs).length).2
      < (coeffsOrZero coeffs).length) :
    commit pp coeffs = .error .abort := by
  unfold commit
  rw [computeMatrices_oversize pp coeffs (by
    unfold fitsDims
    exact decide_eq_false (by omega))]

/-- **A polynomial of another size than the parameters were made for is refused** (fix D25): when
the number of columns `m` of `compute_dimensions(len) = (n, m)` is not `⌈len / n⌉` — possible only for
a code of fixed shape, i.e. Brakedown parameters used for a polynomial with fewer (or more)
coefficients than they were made for; `BrakedownPCParams::compute_dimensions` asserts the equality —
`commit` aborts instead of zero-padding the polynomial into a different one. -/
theorem lincode_commit_wrong_size_refused (pp : Params F D) (coeffs : List F)
    (h : ceilDiv (coeffsOrZero coeffs).length (pp.dims (coeffsOrZero coeffs).length).1
      ≠ (pp.dims (coeffsOrZero coeffs).length).2) :
    commit pp coeffs = .error .abort := by
  unfold commit
  rw [computeMatrices_oversize pp coeffs (by
    unfold fitsDims
    exact decide_eq_false (fun hh => h hh.2))]

/-- … and a shape law with `n > 0` rows and `m = ⌈len / n⌉` columns (Ligero's `compute_dimensions`) never
meets either refusal: the size test of `compute_matrices` (D21) and the width test (D25) both hold for
every coefficient vector -/
theorem lincode_fits_of_ceil_div (dims : Nat → Nat × Nat) (coeffs : List F)
    (h : ∀ len, 0 < (dims len).1 ∧ (dims len).2 = ceilDiv len (dims len).1) :
    fitsDims dims coeffs = true :=
  fitsDims_of_ceilDiv dims coeffs h

/-- in particular Ligero's `compute_dimensions` (`computeDimensions`, with any `calculate_t`) fits
every polynomial: the fixes D21 / D25 change nothing for the Ligero schemes -/
theorem lincode_ligero_dims_fit (t : Nat → Nat) (coeffs : List F) :
    fitsDims (fun len => computeDimensions len (t len)) coeffs = true :=
  fitsDims_of_ceilDiv _ coeffs (fun len => ⟨dimN_pos len (t len), rfl⟩)

/-- what the size test of `commit` is: at most `n·m` coefficients and `m = ⌈len / n⌉` columns -/
theorem lincode_fits_iff (dims : Nat → Nat × Nat) (coeffs : List F) :
    fitsDims dims coeffs = true ↔
      (coeffsOrZero coeffs).length
          ≤ (dims (coeffsOrZero coeffs).length).1 * (dims (coeffsOrZero coeffs).length).2 ∧
        ceilDiv (coeffsOrZero coeffs).length (dims (coeffsOrZero coeffs).length).1
          = (dims (coeffsOrZero coeffs).length).2 :=
  fitsDims_iff dims coeffs

/-- **Whatever `commit` answers**: the commitment announces the matrix shape of
`compute_dimensions`, the codeword length of the encoded rows, and the tree has at least two leaves -/
theorem lincode_commit_answer_shape (pp : Params F D) (coeffs : List F) (c : Comm D) (st : State F D)
    (h : commit pp coeffs = .ok (c, st)) :
    c.nRows = (coeffMat pp.dims coeffs).n ∧ c.nCols = (coeffMat pp.dims coeffs).m ∧
      c.nExtCols = st.extMat.m ∧ st.mat = coeffMat pp.dims coeffs ∧ depth st.leaves ≠ 0 := by
  unfold commit at h
  cases hm : computeMatrices pp coeffs with
  | error e => rw [hm] at h; cases h
  | ok r =>
    obtain ⟨mat, ext⟩ := r
    rw [hm] at h
    simp only at h
    split at h
    · cases h
    · rename_i hd
      simp only [Except.ok.injEq, Prod.mk.injEq] at h
      obtain ⟨rfl, rfl⟩ := h
      replace hm := (computeMatrices_ok pp coeffs _ hm).2
      unfold computeMatricesCore at hm
      simp only at hm
      split at hm
      · cases hm
      · split at hm
        · cases hm
        · simp only [Except.ok.injEq, Prod.mk.injEq] at hm
          obtain ⟨rfl, rfl⟩ := hm
          exact ⟨rfl, rfl, rfl, rfl, hd⟩

/-! ### `open` -/

/-- a multilinear point with fewer coordinates than `log₂ n_cols`: `open` aborts (the slice of
`tensor` is out of range) -/
theorem lincode_open_short_point_refused (pp : Params F D) (pt : List F) (c : Comm D)
    (st : State F D) (o : Oracle F) (h : pt.length < ceilLog2 c.nCols) :
    openOne pp (.ml pt) c st o = .error .abort := by
  unfold openOne
  split
  · rfl
  · simp only [tensor, tensorML]
    rw [if_neg (by omega)]

/-- a state whose matrix does not have one row per entry of `b` (a state of another polynomial
shape): `open` refuses -/
theorem lincode_open_wrong_state_refused (pp : Params F D) (point : Point F) (c : Comm D)
    (st : State F D) (o : Oracle F) (a b : List F) (ht : tensor point c.nCols c.nRows = .ok (a, b))
    (hb : b.length ≠ st.mat.n) : ∃ e, openOne pp point c st o = .error e := by
  cases ho : openOne pp point c st o with
  | error e => exact ⟨e, rfl⟩
  | ok π =>
    exfalso
    obtain ⟨_, ab, hten, _, hv, _, _⟩ := openOne_parts pp point c st o π ho
    rw [ht] at hten
    cases hten
    exact hb (rowMul_ok _ _ _ hv).1

/-- a transcript position outside the encoded matrix: `open` aborts (index out of bounds) -/
theorem lincode_open_position_out_of_range_refused (pp : Params F D) (point : Point F) (c : Comm D)
    (st : State F D) (o : Oracle F) (q : Nat) (hq : q ∈ o.indices) (hr : st.extMat.m ≤ q) :
    ∃ e, openOne pp point c st o = .error e := by
  cases ho : openOne pp point c st o with
  | error e => exact ⟨e, rfl⟩
  | ok π =>
    exfalso
    unfold openOne at ho
    split at ho
    · cases ho
    split at ho
    · cases ho
    split at ho
    · cases ho
    split at ho
    · cases ho
    split at ho
    · cases ho
    rename_i cp hcp
    have : ∀ idx : List Nat, q ∈ idx → ∀ cp, openColumns pp.hs st.extMat st.leaves idx ≠ .ok cp := by
      intro idx
      induction idx with
      | nil => intro h; cases h
      | cons i is ih =>
        intro hm cp hcp
        simp only [openColumns] at hcp
        split at hcp
        · rename_i hi
          cases hrec : openColumns pp.hs st.extMat st.leaves is with
          | error e => rw [hrec] at hcp; cases hcp
          | ok cp' =>
            rcases List.mem_cons.1 hm with rfl | hm
            · omega
            · exact ih hm cp' hrec
        · cases hcp
    exact this _ hq cp hcp

/-- invalid parameters (`calculate_t` refuses: distance unusable or field too small): `open` and
`check` refuse with that error before touching the proof -/
theorem lincode_invalid_parameters_refused (ro : TRO F D) (tp : TParams F D) (point : Point F)
    (c : Comm D) (value : F) (π : Proof F D) (s : TLog F D) (e : Err) (h : tp.tOf c.nExtCols = .error e) :
    checkOneT ro tp point c value π s = .error e := by
  unfold checkOneT
  rw [h]

theorem lincode_open_invalid_parameters_refused (ro : TRO F D) (tp : TParams F D) (point : Point F)
    (c : Comm D) (st : State F D) (s : TLog F D) (e : Err) (h : tp.tOf st.extMat.m = .error e) :
    ∃ e', openOneT ro tp point c st s = .error e' := by
  cases ho : openOneT ro tp point c st s with
  | error e' => exact ⟨e', rfl⟩
  | ok r =>
    obtain ⟨t, _, _, ht, _⟩ := openOneT_spec ro tp point c st s r.1 r.2 ho
    rw [h] at ht; cases ht

/-! ### `check` -/

/-- `v` of the wrong length (finding D6: the `f(X²)` forgery): `InvalidCommitment` -/
theorem lincode_check_wrong_v_length_refused (pp : Params F D) (point : Point F) (c : Comm D)
    (value : F) (π : Proof F D) (o : Oracle F) (h : π.opening.v.length ≠ c.nCols) :
    checkOne pp point c value π o = .error .invalidCommitment := by
  unfold checkOne checkPre
  rw [if_pos h]

/-- **A point with the wrong number of coordinates is refused** (fix D23), whatever the proof, the
claimed value and the transcript: when `tensor` answers with an `a` that does not have `n_cols`
entries or a `b` that does not have `n_rows` entries (the inner products of `check` would silently
truncate the longer operand), `check` never answers `Ok(_)`.  (Which error it is depends on what
fails first: the tests on `v`, the well-formedness vector, the Merkle paths and `E(v)` come before
`tensor` in the code; see `lincode_check_wrong_point_length_invalid_commitment`.) -/
theorem lincode_check_wrong_point_length_refused (pp : Params F D) (point : Point F) (c : Comm D)
    (value : F) (π : Proof F D) (o : Oracle F) (a b : List F)
    (ht : tensor point c.nCols c.nRows = .ok (a, b))
    (hl : a.length ≠ c.nCols ∨ b.length ≠ c.nRows) :
    ∃ e, checkOne pp point c value π o = .error e :=
  checkOne_error_of_not_pre pp point c value π o
    (not_preRelation_of_wrong_lengths pp point c π o a b ht hl)

/-- … and the error is `InvalidCommitment` for every proof that passes the tests `check` makes before
it calls `tensor`: `v` has `n_cols` entries, the well-formedness vector (when required) is present
with `n_cols` entries, every opened column has a Merkle path at the transcript's position that
recomputes the root, and `E(v)` has the announced `n_ext_cols` entries — in particular for the honest
proof made at a point of the right length and checked at one of another length. -/
theorem lincode_check_wrong_point_length_invalid_commitment (pp : Params F D) (point : Point F)
    (c : Comm D) (value : F) (π : Proof F D) (o : Oracle F) (a b w : List F)
    (ht : tensor point c.nCols c.nRows = .ok (a, b))
    (hl : a.length ≠ c.nCols ∨ b.length ≠ c.nRows)
    (hv : π.opening.v.length = c.nCols)
    (hwf : pp.checkWf = true → ∃ w, π.wf = some w ∧ w.length = c.nCols)
    (hp : ∀ (j : Nat) col q, π.opening.columns[j]? = some col → o.indices[j]? = some q →
      ∃ p, π.opening.paths[j]? = some p ∧ p.leafIndex = q ∧
        recomputeRoot pp.hs (pp.colHash col) p = c.root)
    (hen : pp.enc π.opening.v = .ok w) (hlen : w.length = c.nExtCols) :
    checkOne pp point c value π o = .error .invalidCommitment := by
  unfold checkOne
  rw [checkPre_wrong_lengths pp point c π o a b w ht hl hv hwf hp hen hlen]

/-- the well-formedness vector missing, or of the wrong length, while the parameters require it:
`InvalidCommitment` -/
theorem lincode_check_bad_wf_refused (pp : Params F D) (point : Point F) (c : Comm D)
    (value : F) (π : Proof F D) (o : Oracle F) (hv : π.opening.v.length = c.nCols)
    (hc : pp.checkWf = true) (h : π.wf = none ∨ ∃ w, π.wf = some w ∧ w.length ≠ c.nCols) :
    checkOne pp point c value π o = .error .invalidCommitment := by
  unfold checkOne checkPre
  rw [if_neg (by simpa using hv)]
  unfold readWf
  rcases h with h | ⟨w, h, hl⟩
  · simp [hc, h]
  · simp [hc, h, hl]

/-- **An answer is given only inside the pre-value relation**: whenever `check` answers `Ok(true)`
or `Ok(false)` for one polynomial, lengths, Merkle paths at the transcript's positions and the
column tests all hold (`PreRelation`); every other request — missing columns or paths, a wrong leaf
position, a path that does not verify, an encoding of another length, a failing column test — ends in
an error or abort. -/
theorem lincode_check_answer_in_relation (pp : Params F D) (point : Point F) (c : Comm D)
    (value : F) (π : Proof F D) (o : Oracle F) (b : Bool)
    (h : checkOne pp point c value π o = .ok b) : ∃ a, PreRelation pp point c π o a := by
  unfold checkOne at h
  cases hp : checkPre pp point c π o with
  | error e => rw [hp] at h; cases h
  | ok a => exact ⟨a, (checkPre_ok_iff _ _ _ _ _ _).1 hp⟩

theorem lincode_check_outside_relation_refused (pp : Params F D) (point : Point F) (c : Comm D)
    (value : F) (π : Proof F D) (o : Oracle F) (h : ∀ a, ¬ PreRelation pp point c π o a) :
    ∃ e, checkOne pp point c value π o = .error e :=
  checkOne_error_of_not_pre pp point c value π o h

/-- a proof list shorter than the list of (commitment, value) pairs is never accepted (the index
`proof_array[i]` panics unless an earlier polynomial already ended the run) -/
theorem lincode_check_missing_proof_not_accepted (pp : Params F D) (point : Point F)
    (cs : List (Comm D)) (vals : List F) (πs : List (Proof F D)) (os : List (Oracle F))
    (h : πs.length < min cs.length vals.length) : checkAll pp point cs vals πs os ≠ .ok true := by
  intro hacc
  have := (checkAll_ok_true_iff pp point cs vals πs os).1 hacc πs.length
    (cs[πs.length]'(by omega)) (vals[πs.length]'(by omega))
    (List.getElem?_eq_getElem (by omega)) (List.getElem?_eq_getElem (by omega))
  obtain ⟨π, _, hπ, _⟩ := this
  rw [List.getElem?_eq_none (le_refl _)] at hπ
  cases hπ

/-! ### in-domain requests never abort -/

/-- **In-domain requests are answered**, on a sponge: a polynomial in the domain of the scheme
(linear row encoder on its rows, codeword length `≥ 2`), a point whose `tensor` fits the matrix
(`ha`, `hb`: the right number of coordinates; any other point is refused, D23),
parameters for which `calculate_t` answers — `open` answers and `check` answers `Ok(true)`; with
and without the well-formedness check, for every oracle and every prior history.  (`commit`:
`C11.lincode_commit_is`.) -/
theorem lincode_in_domain_answered (ro : TRO F D) (tp : TParams F D) (point : Point F)
    (coeffs : List F) (E : List F → List F) (k : Nat) (h : Encodes tp.pp coeffs E k) (a b : List F)
    (t : Nat)
    (ht : tensor point (coeffMat tp.pp.dims coeffs).m (coeffMat tp.pp.dims coeffs).n = .ok (a, b))
    (ha : a.length = (coeffMat tp.pp.dims coeffs).m)
    (hb : b.length = (coeffMat tp.pp.dims coeffs).n) (htk : tp.tOf k = .ok t) (s : TLog F D) :
    ∃ π s', openOneT ro tp point (commitC tp.pp coeffs E k) (commitSt tp.pp coeffs E k) s = .ok (π, s') ∧
      checkOneT ro tp point (commitC tp.pp coeffs E k) (claimed tp.pp point coeffs) π s
        = .ok (true, s') :=
  in_domain_answered ro tp point coeffs E k h a b t ht ha hb htk s

/-! non-vacuity on the toy instance (`2 × 2` matrices, repetition code, `ZMod 101`) -/
example : Encodes (toyPP false) [1, 2, 3] toyE 4 ∧
    tensor (Point.uni (5 : K)) 2 2 = .ok (tensorUni 5 2 2) ∧ (tensorUni (5 : K) 2 2).1.length = 2 ∧
    (tensorUni (5 : K) 2 2).2.length = 2 :=
  ⟨toy_encodes false _ (by decide), rfl, by decide, by decide⟩
/-- D21 / D25 on the toy code with the shape frozen at `2 × 2` (`toyFixedPP`, the Brakedown situation:
made for three or four coefficients): five coefficients do not fit (`2·2 < 5`), two would be
zero-padded (`⌈2/2⌉ = 1 ≠ 2`), the zero polynomial `[0]` likewise — all refused; three and four are
committed.  Under the shape law of `toyPP` (`m = ⌈len / 2⌉`, Ligero's) every size is committed. -/
example : (2 : Nat) * 2 < ([1, 2, 3, 4, 5] : List K).length ∧ ceilDiv ([1, 2] : List K).length 2 ≠ 2 ∧
    commit (toyFixedPP true) [1, 2, 3, 4, 5] = .error .abort ∧
    commit (toyFixedPP true) [1, 2] = .error .abort ∧
    commit (toyFixedPP true) [] = .error .abort ∧
    commit (toyFixedPP true) [1, 2, 3] = commit (toyPP true) [1, 2, 3] ∧
    (commit (toyFixedPP true) [4, 0, 0, 5]).toBool = true ∧
    (commit (toyPP true) [1, 2]).toBool = true ∧ (commit (toyPP true) [1, 2, 3, 4, 5]).toBool = true ∧
    fitsDims (toyPP true).dims ([1, 2, 3, 4, 5] : List K) = true := by decide
/-- the hypothesis of `lincode_fits_of_ceil_div` on the toy shape law and on Ligero's -/
example : (∀ len, 0 < ((toyPP true).dims len).1 ∧ ((toyPP true).dims len).2 = ceilDiv len ((toyPP true).dims len).1) ∧
    computeDimensions 65536 300 = (32, 2048) ∧ ceilDiv 65536 32 = 2048 :=
  ⟨fun _ => ⟨Nat.succ_pos 1, rfl⟩, by decide +kernel, by decide⟩
/-- D23 on the toy instance: the honest proof for `[1, 2, 3]` made at the univariate point `5` (a `2 × 2`
matrix) and checked at the multilinear point `(3, 8, 2)`: `tensor` answers with `|a| = 2`, `|b| = 4 ≠ 2`
and `check` refuses with `InvalidCommitment` (before the fix: the inner products with `b` were
truncated to two entries); `open` at that point aborts in `row_mul` -/
example : (match commit (toyPP true) [1, 2, 3] with
    | .ok (c, st) =>
      decide (c.nCols = 2 ∧ c.nRows = 2 ∧
        (tensor (Point.ml ([3, 8, 2] : List K)) c.nCols c.nRows).map (fun ab => (ab.1.length, ab.2.length))
          = .ok (2, 4) ∧
        openOne (toyPP true) (.ml [3, 8, 2]) c st ⟨[7, 9], [2, 0, 3]⟩ = .error .abort) &&
      (match openOne (toyPP true) (.uni 5) c st ⟨[7, 9], [2, 0, 3]⟩ with
       | .ok π =>
         decide (checkOne (toyPP true) (.ml [3, 8, 2]) c 0 π ⟨[7, 9], [2, 0, 3]⟩ = .error .invalidCommitment)
       | .error _ => false)
    | .error _ => false) = true := by decide
example : (match commit (toyPP true) [1, 2, 3] with
    | .ok (c, st) =>
      decide (openOne (toyPP true) (.ml [3]) { c with nCols := 4 } st ⟨[7, 9], [1]⟩ = .error .abort ∧
        (match openOne (toyPP true) (.uni 5) c st ⟨[7, 9], [2, 0, 3]⟩ with
         | .ok π =>
           decide (checkOne (toyPP true) (.uni 5) c 0 { π with opening := { π.opening with v := [1] } } ⟨[7, 9], [2, 0, 3]⟩
               = .error .invalidCommitment ∧
             checkOne (toyPP true) (.uni 5) c 0 { π with wf := none } ⟨[7, 9], [2, 0, 3]⟩
               = .error .invalidCommitment ∧
             checkAll (toyPP true) (.uni 5) [c, c] [0, 0] [π] [⟨[7, 9], [2, 0, 3]⟩, ⟨[7, 9], [2, 0, 3]⟩]
               = .ok false)
         | .error _ => false) = true ∧
        openOne (toyPP true) (.uni 5) c st ⟨[7, 9], [4]⟩ = .error .abort)
    | .error _ => false) = true := by decide
/-- the hypotheses of `lincode_check_wrong_point_length_invalid_commitment` hold for that honest proof
(they are the first conjuncts of the relation it satisfies at the point it was made for) -/
example : checkOne (toyPP true) (.ml [3, 8, 2]) (commitC (toyPP true) [1, 2, 3] toyE 4) 0
    (honestProof (toyPP true) [1, 2, 3] toyE 4 (tensorUni (5 : K) 2 2).2 ⟨[7, 9], [2, 0, 3]⟩)
    ⟨[7, 9], [2, 0, 3]⟩ = .error .invalidCommitment := by
  obtain ⟨hv, hwf, hp, w, _, hen, hlen, _⟩ := honest_preRelation (toyPP true) (.uni 5) [1, 2, 3] toyE 4
    (toy_encodes true _ (by decide)) _ _ ⟨[7, 9], [2, 0, 3]⟩ rfl (by decide) (by decide) (by decide)
  exact lincode_check_wrong_point_length_invalid_commitment _ _ _ _ _ _
    (tensorVec [3]) (tensorVec [8, 2]) w (by decide) (by decide) hv hwf hp hen hlen

end PCV.C17
