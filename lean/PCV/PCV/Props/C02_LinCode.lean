/-
  Property C02 (evaluation binding, honest proof) — linear-code PCS.  The value test of
  `LinearCodePCS::check` is the direct comparison `⟨v, a⟩ = value`, so a wrong value is answered
  `Ok(false)` unconditionally; a wrong point is accepted exactly when the two `b` vectors agree on
  every opened column.
-/
import PCV.Proofs.LinCodeProto
import PCV.Proofs.LinCodeToy

namespace PCV.C02
open PCV PCV.LinCode PCV.Merkle
variable {F : Type} [Field F] [DecidableEq F] {D : Type} [DecidableEq D]
set_option linter.unusedSectionVars false

/-- **Wrong value ⇒ `Ok(false)`.**  If `check` accepts `value` for a proof (honest or not), it
answers `Ok(false)` for every other value with the same proof, commitment, point and transcript. -/
theorem lincode_wrong_value_rejected (pp : Params F D) (point : Point F) (c : Comm D)
    (value value' : F) (π : Proof F D) (o : Oracle F)
    (h : checkOne pp point c value π o = .ok true) (hne : value' ≠ value) :
    checkOne pp point c value' π o = .ok false := by
  rw [checkOne_value pp point c value value' π o h]
  simp [hne]

/-- the same for the honest proof of `lincode_complete_one`: `p(z) + δ`, `δ ≠ 0`, is answered
`Ok(false)` (`ha`, `hb`: the point has the right number of coordinates, as in
`lincode_complete_one` — since fix D23 `check` refuses otherwise, it does not answer `Ok(false)`) -/
theorem lincode_honest_wrong_value_rejected (pp : Params F D) (point : Point F) (coeffs : List F)
    (E : List F → List F) (k : Nat) (h : Encodes pp coeffs E k) (a b : List F) (o : Oracle F)
    (ht : tensor point (coeffMat pp.dims coeffs).m (coeffMat pp.dims coeffs).n = .ok (a, b))
    (ha : a.length = (coeffMat pp.dims coeffs).m) (hb : b.length = (coeffMat pp.dims coeffs).n)
    (hi : ∀ i ∈ o.indices, i < k) (δ : F) (hδ : δ ≠ 0) :
    checkOne pp point
      ⟨(coeffMat pp.dims coeffs).n, (coeffMat pp.dims coeffs).m, k,
        merkleRoot pp.hs (leavesOf pp (extOf pp coeffs E k))⟩
      (dot (vecMat b (coeffMat pp.dims coeffs).rows (coeffMat pp.dims coeffs).m) a + δ)
      (honestProof pp coeffs E k b o) o = .ok false :=
  lincode_wrong_value_rejected pp point _ _ _ _ o
    (checkOne_honest pp point coeffs E k h a b o ht ha hb hi) (by simpa using hδ)

/-- **Wrong value at any position of a list**: if the whole `check` accepts, changing the value of
one checked polynomial makes it answer `Ok(false)` (earlier polynomials still pass, the loop returns
at the changed one). -/
theorem lincode_wrong_value_rejected_all (pp : Params F D) (point : Point F) (cs : List (Comm D))
    (vals : List F) (πs : List (Proof F D)) (os : List (Oracle F))
    (h : checkAll pp point cs vals πs os = .ok true) (i : Nat) (hi : i < cs.length)
    (hi' : i < vals.length) (x : F) (hx : x ≠ vals[i]) :
    checkAll pp point cs (vals.set i x) πs os = .ok false := by
  induction cs generalizing vals πs os i with
  | nil => simp at hi
  | cons c cs ih =>
    match vals, hi' with
    | val :: vals, hi' =>
      match πs, os, h with
      | [], _, h => simp [checkAll] at h
      | π :: πs, [], h => simp [checkAll] at h
      | π :: πs, o :: os, h =>
        simp only [checkAll] at h
        cases h1 : checkOne pp point c val π o with
        | error e => rw [h1] at h; cases h
        | ok bb =>
          cases bb with
          | false => rw [h1] at h; cases h
          | true =>
            rw [h1] at h
            simp only at h
            cases i with
            | zero =>
              simp only [List.set_cons_zero, checkAll]
              rw [lincode_wrong_value_rejected pp point c val x π o h1 (by simpa using hx)]
            | succ i =>
              simp only [List.set_cons_succ, checkAll, h1]
              exact ih vals πs os h i (by simpa using hi) (by simpa using hi')
                (by simpa using hx)

/-- **Wrong point, exact condition.**  The honest proof for the row combination `b` (made at a point
with `tensor = (a, b)`) is checked at a point with `tensor = (a', b')` under the same transcript
positions: `check` continues with `true` iff `a'`, `b'` have the lengths of the matrix (fix D23: the
other point has the right number of coordinates), `b'` and `b` agree on every opened column of the
encoded matrix — `(b' − b)·M_ext[:, q] = 0` for all opened `q` — and the claimed value is `⟨v, a'⟩`. -/
theorem lincode_wrong_point_iff (pp : Params F D) (point' : Point F) (coeffs : List F)
    (E : List F → List F) (k : Nat) (h : Encodes pp coeffs E k) (a' b b' : List F) (o : Oracle F)
    (value' : F)
    (ht : tensor point' (coeffMat pp.dims coeffs).m (coeffMat pp.dims coeffs).n = .ok (a', b'))
    (hi : ∀ i ∈ o.indices, i < k) :
    checkOne pp point'
      ⟨(coeffMat pp.dims coeffs).n, (coeffMat pp.dims coeffs).m, k,
        merkleRoot pp.hs (leavesOf pp (extOf pp coeffs E k))⟩
      value' (honestProof pp coeffs E k b o) o = .ok true ↔
    a'.length = (coeffMat pp.dims coeffs).m ∧ b'.length = (coeffMat pp.dims coeffs).n ∧
      (∀ q ∈ o.indices, dot b' (colOf (extOf pp coeffs E k).rows q)
        = dot b (colOf (extOf pp coeffs E k).rows q)) ∧
      dot (vecMat b (coeffMat pp.dims coeffs).rows (coeffMat pp.dims coeffs).m) a' = value' := by
  rw [checkOne_ok_true_iff]
  constructor
  · rintro ⟨a'', hpre, hv⟩
    obtain ⟨rfl, hla, hlb, hbb⟩ :=
      (honest_preRelation_other_iff pp point' coeffs E k h a' b b' a'' o ht hi).1 hpre
    exact ⟨hla, hlb, hbb, hv⟩
  · rintro ⟨hla, hlb, hbb, hv⟩
    exact ⟨a', (honest_preRelation_other_iff pp point' coeffs E k h a' b b' a' o ht hi).2
      ⟨rfl, hla, hlb, hbb⟩, hv⟩

/-- **Wrong point changes the transcript.**  When the positions the verifier derives differ from
those the proof was made for at some opened column, `check` refuses (the path's leaf position is
not the transcript's). -/
theorem lincode_other_positions_refused (pp : Params F D) (point' : Point F) (coeffs : List F)
    (E : List F → List F) (k : Nat) (b : List F) (o o' : Oracle F) (value' : F) (c : Comm D)
    (j q q' : Nat) (hq : o.indices[j]? = some q) (hq' : o'.indices[j]? = some q') (hne : q ≠ q') :
    ∃ e, checkOne pp point' c value' (honestProof pp coeffs E k b o) o' = .error e := by
  apply checkOne_error_of_not_pre
  rintro a ⟨_, _, hpaths, _⟩
  obtain ⟨p, hp, hl, _⟩ := hpaths j (colOf (extOf pp coeffs E k).rows q) q'
    (by simp [honestProof, hq]) hq'
  simp only [honestProof, List.getElem?_map, hq, Option.map_some, Option.some.injEq] at hp
  subst hp
  exact hne hl

/-- **Commitment of another polynomial.**  An honest proof checked against a commitment with a
different Merkle root (and at least one opened column) is refused: the recomputed root is the root of
the tree the proof was made from. -/
theorem lincode_other_commitment_refused (pp : Params F D) (point : Point F) (coeffs : List F)
    (E : List F → List F) (k : Nat) (h : Encodes pp coeffs E k) (b : List F) (o : Oracle F)
    (value : F) (c' : Comm D) (hroot : c'.root ≠ merkleRoot pp.hs (leavesOf pp (extOf pp coeffs E k)))
    (hi : ∀ i ∈ o.indices, i < k) (q : Nat) (hq : o.indices[0]? = some q) :
    ∃ e, checkOne pp point c' value (honestProof pp coeffs E k b o) o = .error e := by
  apply checkOne_error_of_not_pre
  rintro a ⟨_, _, hpaths, _⟩
  obtain ⟨p, hp, _, hr⟩ := hpaths 0 (colOf (extOf pp coeffs E k).rows q) q
    (by simp [honestProof, hq]) hq
  simp only [honestProof, List.getElem?_map, hq, Option.map_some, Option.some.injEq] at hp
  subst hp
  have hd : 1 ≤ depth (leavesOf pp (extOf pp coeffs E k)) := by
    have := depth_pos_of_two (l := leavesOf pp (extOf pp coeffs E k))
      (by rw [leavesOf_length]; exact h.two)
    omega
  have hqk := hi q (List.mem_of_getElem? hq)
  have := (verifyPath_iff _ _ _ _).1
    (merkle_verify_path pp.hs _ q _ hd (leavesOf_get pp (extOf pp coeffs E k) q hqk))
  rw [this] at hr
  exact hroot hr.symm

/-! non-vacuity on the toy instance: the honest value is accepted, a shifted value is `Ok(false)`;
another point with the same positions fails a column test -/
example : toyRun true (.uni 5) [1, 2, 3] ⟨[7, 9], [2, 0, 3]⟩ (evalPoly [1, 2, 3] 5) = .ok true := by
  decide
example : toyRun true (.uni 5) [1, 2, 3] ⟨[7, 9], [2, 0, 3]⟩ (evalPoly [1, 2, 3] 5 + 1)
    = .ok false := by decide
example : (match commit (toyPP true) [1, 2, 3] with
    | .ok (c, st) =>
      match openOne (toyPP true) (.uni 5) c st ⟨[7, 9], [2, 0, 3]⟩ with
      | .ok π => checkOne (toyPP true) (.uni 6) c (evalPoly [1, 2, 3] 6) π ⟨[7, 9], [2, 0, 3]⟩
      | .error e => .error e
    | .error e => .error e) = .error .invalidCommitment := by decide
example : (1 : K) ≠ 0 ∧ ((2 : Nat) ≠ 0) := by decide

end PCV.C02
