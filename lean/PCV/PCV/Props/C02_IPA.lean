/-
  Property C02 — evaluation binding with an honest proof, inner-product-argument scheme.
  The random-oracle outputs (`ξ₀`, the round challenges, the hiding challenge) and the sponge
  challenges are explicit inputs of the model; the theorems below hold for every value of them,
  in particular for the ones re-derived from the changed statement.
-/
import PCV.Proofs.IPAVerify
import PCV.Props.Examples

set_option linter.unusedSectionVars false

namespace PCV.C02
open PCV
variable {F : Type} [Field F] [DecidableEq F]

/-- **IPA, exact acceptance condition.** `check` answers `Ok(true)` iff the proof has one
`(L, R)` pair per halving round, `succinct_check` runs through (no assertion fires, no challenge is
zero) and both defects vanish:
`defect1 = Ĉ + v̂·h′ + Σ(u⁻¹L + uR) − (c·K + c·h_u(z)·h′)` and `defect2 = ⟨coeffs(h_u), G⟩ − K`. -/
theorem ipa_check_iff (vk : IPA.VK F) (cs : List (IPA.LComm F)) (z : F) (vs : List F)
    (π : IPA.Proof F) (ξs ros : List F) :
    IPA.check vk cs z vs π ξs ros = .ok true ↔
      IPA.badShape vk π = false ∧
      ∃ r ξr ror, IPA.succinctRun vk cs z vs π ξs ros = .ok (r, ξr, ror) ∧
        IPA.defect1 vk z π r = 0 ∧ IPA.defect2 vk π r.us = 0 :=
  IPA.check_iff vk cs z vs π ξs ros

/-- **IPA, value errors.** With the oracle outputs held fixed, changing the claimed values by the
error vector `ds` changes `defect1` by exactly `h′·Σⱼ (ξⱼ + ξ′ⱼ·z^{s−dⱼ})·δⱼ` (`h′ = ξ₀·h`) and nothing
else: the decision becomes `defect1 + h′·valueErr = 0 ∧ defect2 = 0`. -/
theorem ipa_value_error (vk : IPA.VK F) (cs : List (IPA.LComm F)) (z : F) (vs ds : List F)
    (π : IPA.Proof F) (cur : F) (ξs ros : List F) (r : IPA.Run F) (ξr ror : List F)
    (hb : IPA.badShape vk π = false) (hl : ds.length = vs.length)
    (hr : IPA.succinctRun vk cs z vs π (cur :: ξs) ros = .ok (r, ξr, ror)) :
    IPA.check vk cs z (IPA.addVec vs ds) π (cur :: ξs) ros
      = .ok (decide (IPA.defect1 vk z π r + vk.h * r.ξ₀ * IPA.valueErr vk z cs ds cur ξs = 0)
             && decide (IPA.defect2 vk π r.us = 0)) := by
  rw [IPA.check_of_run vk cs z _ π _ ros _ ξr ror hb
    (IPA.succinctRun_value vk cs z vs ds π cur ξs ros r ξr ror hr hl), IPA.defect1_value]

/-- **IPA, wrong values are rejected.** From an accepted transcript, any change of the claimed
values whose combined error `ξ₀·h·Σ(ξⱼ + ξ′ⱼz^{s−dⱼ})δⱼ` is non-zero is answered `Ok(false)`. -/
theorem ipa_wrong_values_rejected (vk : IPA.VK F) (cs : List (IPA.LComm F)) (z : F)
    (vs ds : List F) (π : IPA.Proof F) (cur : F) (ξs ros : List F) (r : IPA.Run F) (ξr ror : List F)
    (hacc : IPA.check vk cs z vs π (cur :: ξs) ros = .ok true)
    (hr : IPA.succinctRun vk cs z vs π (cur :: ξs) ros = .ok (r, ξr, ror))
    (hl : ds.length = vs.length)
    (hne : vk.h * r.ξ₀ * IPA.valueErr vk z cs ds cur ξs ≠ 0) :
    IPA.check vk cs z (IPA.addVec vs ds) π (cur :: ξs) ros = .ok false := by
  obtain ⟨hb, r', ξr', ror', hr', h1, h2⟩ := (IPA.check_iff vk cs z vs π _ ros).1 hacc
  rw [hr] at hr'
  injection hr' with hr'; injection hr' with hr' _
  subst hr'
  rw [ipa_value_error vk cs z vs ds π cur ξs ros r ξr ror hb hl hr, h1, zero_add]
  simp [hne]

/-- **IPA, one polynomial, wrong value.** For a single commitment without degree bound the
combined value error of `v + δ` is `ξ·δ·h′` with `h′ = ξ₀·h`: rejected whenever `δ`, the sponge
challenge `ξ`, the round seed `ξ₀` and the generator `h` are non-zero. -/
theorem ipa_wrong_value_rejected (vk : IPA.VK F) (c : IPA.LComm F) (z v δ : F) (π : IPA.Proof F)
    (ξ ξ' ξ'' : F) (ξs ros : List F) (r : IPA.Run F) (ξr ror : List F)
    (hbound : c.bound = none)
    (hacc : IPA.check vk [c] z [v] π (ξ :: ξ' :: ξ'' :: ξs) ros = .ok true)
    (hr : IPA.succinctRun vk [c] z [v] π (ξ :: ξ' :: ξ'' :: ξs) ros = .ok (r, ξr, ror))
    (hδ : δ ≠ 0) (hξ : ξ ≠ 0) (hξ₀ : r.ξ₀ ≠ 0) (hh : vk.h ≠ 0) :
    IPA.check vk [c] z [v + δ] π (ξ :: ξ' :: ξ'' :: ξs) ros = .ok false := by
  have := ipa_wrong_values_rejected vk [c] z [v] [δ] π ξ (ξ' :: ξ'' :: ξs) ros r ξr ror hacc hr rfl
    (by
      simp only [IPA.valueErr, IPA.stepErr, hbound, add_zero]
      exact mul_ne_zero (mul_ne_zero hh hξ₀) (mul_ne_zero hξ hδ))
  simpa [IPA.addVec] using this

/-- **IPA, one polynomial with degree bound `d`, wrong value.** The weight of the value is
`ξ + ξ′·z^{s−d}`. -/
theorem ipa_wrong_value_rejected_bounded (vk : IPA.VK F) (c : IPA.LComm F) (d : Nat) (z v δ : F)
    (π : IPA.Proof F) (ξ ξ' ξ'' : F) (ξs ros : List F) (r : IPA.Run F) (ξr ror : List F)
    (hbound : c.bound = some d)
    (hacc : IPA.check vk [c] z [v] π (ξ :: ξ' :: ξ'' :: ξs) ros = .ok true)
    (hr : IPA.succinctRun vk [c] z [v] π (ξ :: ξ' :: ξ'' :: ξs) ros = .ok (r, ξr, ror))
    (hδ : δ ≠ 0) (hκ : ξ + ξ' * fpow z (IPA.supportedDegree vk - d) ≠ 0) (hξ₀ : r.ξ₀ ≠ 0)
    (hh : vk.h ≠ 0) :
    IPA.check vk [c] z [v + δ] π (ξ :: ξ' :: ξ'' :: ξs) ros = .ok false := by
  have := ipa_wrong_values_rejected vk [c] z [v] [δ] π ξ (ξ' :: ξ'' :: ξs) ros r ξr ror hacc hr rfl
    (by
      simp only [IPA.valueErr, IPA.stepErr, hbound, add_zero]
      have e : ξ * δ + ξ' * δ * fpow z (IPA.supportedDegree vk - d)
          = (ξ + ξ' * fpow z (IPA.supportedDegree vk - d)) * δ := by ring
      rw [e]
      exact mul_ne_zero (mul_ne_zero hh hξ₀) (mul_ne_zero hκ hδ))
  simpa [IPA.addVec] using this

/-- **IPA, wrong commitment.** Replacing the commitment of a single unbounded polynomial by
`C + dc` changes `defect1` by `ξ·dc` (oracle outputs held fixed): rejected when `ξ, dc ≠ 0`. -/
theorem ipa_wrong_commitment_rejected (vk : IPA.VK F) (c : IPA.LComm F) (z v dc : F)
    (π : IPA.Proof F) (ξ ξ' ξ'' : F) (ξs ros : List F)
    (hbound : c.bound = none) (hsh : c.comm.shifted = none)
    (hacc : IPA.check vk [c] z [v] π (ξ :: ξ' :: ξ'' :: ξs) ros = .ok true)
    (hdc : dc ≠ 0) (hξ : ξ ≠ 0) :
    IPA.check vk [⟨c.label, ⟨c.comm.comm + dc, none⟩, none⟩] z [v] π (ξ :: ξ' :: ξ'' :: ξs) ros
      = .ok false := by
  obtain ⟨hb, r, ξr, ror, hr, h1, h2⟩ := (IPA.check_iff vk [c] z [v] π _ ros).1 hacc
  have hA : IPA.accLoop vk z [c] [v] ξ (ξ' :: ξ'' :: ξs) 0 0
      = .ok ((0 + c.comm.comm * ξ, 0 + ξ * v), ξs) := by
    rw [IPA.accLoop_single]; simp [IPA.accStep, hbound, hsh]
  have hB : IPA.accLoop vk z [⟨c.label, ⟨c.comm.comm + dc, none⟩, none⟩] [v] ξ (ξ' :: ξ'' :: ξs) 0 0
      = .ok ((0 + c.comm.comm * ξ + dc * ξ, 0 + ξ * v + 0), ξs) := by
    rw [IPA.accLoop_single]; simp [IPA.accStep]; ring
  have hr' := IPA.succinctRun_congr vk [c] _ z [v] [v] π ξ _ ros _ _ (dc * ξ) 0 ξs hA hB r ξr ror hr
  rw [IPA.check_of_run vk _ z _ π _ ros _ ξr ror hb hr', IPA.defect1_shift, h1]
  have : dc * ξ ≠ 0 := mul_ne_zero hdc hξ
  simp [this]

/-! non-vacuity over `ZMod 101` (2-element key, `p = 4 + 9X`, point 6): the honest transcript is
accepted, its run has `ξ₀ = 8 ≠ 0`, and the claim `p(6) + 1` is rejected in the model -/
example : IPA.check (⟨[3, 5], 13, 17, 3⟩ : IPA.CK K) [⟨[1], ⟨57, none⟩, none⟩] 6 [58]
    ⟨[7], [83], 48, 10, none, none⟩ [2, 3, 4] [8, 9] = .ok true := by decide +kernel
example : IPA.succinctRun (⟨[3, 5], 13, 17, 3⟩ : IPA.CK K) [⟨[1], ⟨57, none⟩, none⟩] 6 [58]
    ⟨[7], [83], 48, 10, none, none⟩ [2, 3, 4] [8, 9] = .ok (⟨13, 15, 8, [9], 52⟩, [], []) := by
  decide +kernel
example : IPA.check (⟨[3, 5], 13, 17, 3⟩ : IPA.CK K) [⟨[1], ⟨57, none⟩, none⟩] 6 [58 + 1]
    ⟨[7], [83], 48, 10, none, none⟩ [2, 3, 4] [8, 9] = .ok false := by decide +kernel
example : IPA.check (⟨[3, 5], 13, 17, 3⟩ : IPA.CK K) [⟨[1], ⟨57 + 1, none⟩, none⟩] 6 [58]
    ⟨[7], [83], 48, 10, none, none⟩ [2, 3, 4] [8, 9] = .ok false := by decide +kernel

end PCV.C02
