/-
  Property C19, dimension part — Ligero / Brakedown proofs are within a small constant factor of
  the best coefficient-matrix shape.  (Imported by Props/C19.lean.)

  `computeDimensions N t` is the exact-integer model of `compute_dimensions` /
  `BrakedownPCParams::default`; its f64 `sqrt().ceil()` is tied to the code by the correspondence
  runs of C13/C19.  `proofCost N t c n′ = t·n′ + c·⌈N/n′⌉` is the dominant part of the proof size
  (`t` opened columns of `n′` entries, `c` row combinations of `⌈N/n′⌉` entries; `c = 2` with the
  well-formedness vector, `c = 1` without).  Not included (covered by the size correspondence of
  C19): the Merkle-path term `t·⌈log₂ n_ext⌉` digests and the rate factor between `⌈N/n′⌉` and the
  codeword length, which do not depend on the shape beyond a logarithm.
-/
import PCV.Proofs.Dimensions

namespace PCV.C19
open PCV PCV.LinCode

/-- the `n × m` matrix has room for all `N` coefficients, -/
theorem dims_cover (N t : Nat) : N ≤ (computeDimensions N t).1 * (computeDimensions N t).2 :=
  LinCode.dims_cover N t

/-- and no column is superfluous: `m = ⌈N/n⌉`, i.e. `(m − 1)·n < N`. -/
theorem dims_tight (N t : Nat) (hN : 0 < N) :
    ((computeDimensions N t).2 - 1) * (computeDimensions N t).1 < N :=
  LinCode.dims_tight N t hN

/-- the number of rows is a power of two at least the balanced value `√(2N/t)` … -/
theorem dims_rows_ge (N t : Nat) (ht : 0 < t) :
    2 * N ≤ t * ((computeDimensions N t).1 * (computeDimensions N t).1) :=
  dimN_sq_ge N t ht

/-- … and less than twice it. -/
theorem dims_rows_lt (N t h : Nat) (ht : 0 < t) (hn : (computeDimensions N t).1 = 2 * h)
    (hh : 0 < h) : t * (h * h) < 2 * N :=
  dimN_half_sq_lt N t h ht hn hh

/-- **Dominant-term inequality**, with well-formedness check: the chosen shape costs at most four
times what any other row count `n′ ≥ 1` would (so in particular `≤ 4·min` over powers of two). -/
theorem cost_within_factor_four (N t n' : Nat) (hN : 0 < N) (ht : 0 < t) (hn' : 0 < n') :
    proofCost N t 2 (computeDimensions N t).1 ≤ 4 * proofCost N t 2 n' :=
  cost_le_four_mul_c2 N t n' hN ht hn'

/-- the same without the well-formedness vector -/
theorem cost_within_factor_four_no_wf (N t n' : Nat) (hN : 0 < N) (ht : 0 < t) (hn' : 0 < n') :
    proofCost N t 1 (computeDimensions N t).1 ≤ 4 * proofCost N t 1 n' :=
  cost_le_four_mul_c1 N t n' hN ht hn'

/-! non-vacuity: `N = 2^16` coefficients, `t = 300` openings -/
example : computeDimensions 65536 300 = (32, 2048) := by decide +kernel
example : proofCost 65536 300 2 32 = 13696 ∧ proofCost 65536 300 2 16 = 12992 := by decide +kernel
example : computeDimensions 1 1 = (2, 1) := by decide +kernel

end PCV.C19
