/-
  Property C11 — prover/verifier transcripts stay in lock-step; proofs are bound to them
  (MarlinKZG10 / KZG10 part).  In the pairing schemes the provers and verifiers only *squeeze*
  challenges, so the transcript is the list of challenges: lock-step = both sides consume the same
  prefix of the oracle list and leave the same remainder, after every operation of a history.
-/
import PCV.Proofs.MarlinMore
import PCV.Props.C01_Marlin
set_option linter.unusedSectionVars false

namespace PCV.C11
open PCV Marlin
variable {F : Type} [Field F] [DecidableEq F]

/-- one `open` operation of a history: the polynomials (with states and commitments) and the point -/
structure Op (F : Type) where
  l : List (Trip F)
  z : F

/-- the prover performs the operations in order on one oracle stream -/
def proverRun (ck : CK F) : List (Op F) → List F → Except Err (List (KZG.Proof F) × List F)
  | [], ξs => .ok ([], ξs)
  | op :: ops, ξs =>
    match Marlin.open ck (op.l.map (·.1)) op.z (op.l.map (·.2.1)) ξs with
    | .error e => .error e
    | .ok (π, ξs') =>
      match proverRun ck ops ξs' with
      | .error e => .error e
      | .ok (πs, rest) => .ok (π :: πs, rest)

/-- the verifier performs the corresponding checks in the same order on an identical stream;
returns the conjunction of the decisions and the remaining stream -/
def verifierRun (vk : VK F) : List (Op F) → List (KZG.Proof F) → List F → Except Err (Bool × List F)
  | [], _, ξs => .ok (true, ξs)
  | _ :: _, [], _ => .error .abort
  | op :: ops, π :: πs, ξs =>
    match check vk (op.l.map (·.2.2)) op.z (op.l.map fun t => evalPoly t.1.poly op.z) π ξs with
    | .error e => .error e
    | .ok (b, ξs') =>
      match verifierRun vk ops πs ξs' with
      | .error e => .error e
      | .ok (b', rest) => .ok (b && b', rest)

/-- non-degeneracy of one operation for every challenge stream (see `C01.marlin_complete`) -/
def NonDegenerate (ck : CK F) (op : Op F) : Prop :=
  ∀ ξs acc r, openLoop ck op.z (op.l.map (·.1)) (op.l.map (·.2.1)) ξs ⟨[], [], [], [], [], false⟩
      = .ok (acc, r) → isZeroPoly acc.r = true → evalPoly acc.sr op.z = 0

/-- **Lock-step over any history.** For every sequence of `open` operations on one stream: if the
prover answers them all, the verifier — running the corresponding checks in the same order on an
identically initialised stream — accepts every proof and ends with exactly the prover's remaining
stream. -/
theorem marlin_history_lockstep {ck : CK F} {vk : VK F} {g γ β h : F} {D n m : Nat}
    (hwf : WF ck vk g γ β h D n m) (ops : List (Op F))
    (hh : ∀ op ∈ ops, ∀ t ∈ op.l, Honest g γ β D t ∧ RandLen m t)
    (hnd : ∀ op ∈ ops, NonDegenerate ck op)
    (ξs : List F) (πs : List (KZG.Proof F)) (rest : List F)
    (hp : proverRun ck ops ξs = .ok (πs, rest)) :
    verifierRun vk ops πs ξs = .ok (true, rest) := by
  induction ops generalizing ξs πs rest with
  | nil =>
    simp only [proverRun] at hp
    injection hp with hp; injection hp with h1 h2
    subst h1; subst h2; rfl
  | cons op ops ih =>
    simp only [proverRun] at hp
    split at hp
    · cases hp
    · rename_i π ξs' ho
      split at hp
      · cases hp
      · rename_i πs' rest' hrec
        injection hp with hp; injection hp with h1 h2
        subst h1; subst h2
        have hc := open_check_complete hwf op.z op.l
          (fun t ht => (hh op (by simp) t ht).1) (fun t ht => (hh op (by simp) t ht).2)
          ξs π ξs' ho (fun acc r hl => hnd op (by simp) ξs acc r hl)
        have hrest := ih (fun op' hop' => hh op' (by simp [hop'])) (fun op' hop' => hnd op' (by simp [hop']))
          ξs' πs' rest' hrec
        simp only [verifierRun, hc, hrest, Bool.and_self]

/-- **A proof is bound to its challenge.** A KZG/Marlin opening of the single polynomial `p`
computed under the challenge `ξ` and verified under `ξ′` (a sponge in a different state) is
accepted iff `h·g·(ξ′ − ξ)·(p(β) − p(z)) = 0`: for a non-constant `p` only on the ≤ deg p roots of
`p(X) − p(z)` as a polynomial in the trapdoor. -/
theorem displaced_proof_iff (g γ β h : F) (n m : Nat) (p : List F) (z ξ ξ' : F) (π : KZG.Proof F)
    (ho : KZG.open (KZG.wfPowers g γ β n m) (pscale ξ p) z [] = .ok π) :
    KZG.check (KZG.wfVK g γ β h) (ξ' * (g * evalPoly p β)) z (ξ' * evalPoly p z) π = true
      ↔ h * (g * (ξ' - ξ) * (evalPoly p β - evalPoly p z)) = 0 := by
  rw [KZG.check_iff_defect]
  have := KZG.honest_defect g γ β h n m (pscale ξ p) [] z π (by simp [pnorm]) ho
    ((ξ' - ξ) * (g * evalPoly p β)) 0 ((ξ' - ξ) * evalPoly p z)
  simp only [eval_pscale, evalPoly_nil, mul_zero, add_zero] at this
  have e1 : ξ' * (g * evalPoly p β) = g * (ξ * evalPoly p β) + (ξ' - ξ) * (g * evalPoly p β) := by ring
  have e2 : ξ' * evalPoly p z = ξ * evalPoly p z + (ξ' - ξ) * evalPoly p z := by ring
  rw [e1, e2, this]
  constructor <;> intro hx <;> linear_combination hx

theorem displaced_proof_rejected (g γ β h : F) (n m : Nat) (p : List F) (z ξ ξ' : F)
    (π : KZG.Proof F) (ho : KZG.open (KZG.wfPowers g γ β n m) (pscale ξ p) z [] = .ok π)
    (hg : g ≠ 0) (hh : h ≠ 0) (hξ : ξ' ≠ ξ) (hp : evalPoly p β ≠ evalPoly p z) :
    KZG.check (KZG.wfVK g γ β h) (ξ' * (g * evalPoly p β)) z (ξ' * evalPoly p z) π = false := by
  rw [Bool.eq_false_iff]
  intro hc
  have := (displaced_proof_iff g γ β h n m p z ξ ξ' π ho).1 hc
  simp only [mul_eq_zero, sub_eq_zero] at this
  rcases this with h1 | (h1 | h1) | h1
  · exact hh h1
  · exact hg h1
  · exact hξ h1
  · exact hp h1

/-- non-vacuity: the example transcript of C01 as a one-operation history -/
example : proverRun C01.exCK [⟨[(C01.exPoly, ⟨[7, 8, 9], some [4, 5, 6]⟩, ⟨[112], ⟨43, some 90⟩, some 2⟩)], 10⟩]
    [11, 13, 17] = .ok ([⟨49, some 68⟩], [17]) := by decide
example : verifierRun C01.exVK
    [⟨[(C01.exPoly, ⟨[7, 8, 9], some [4, 5, 6]⟩, ⟨[112], ⟨43, some 90⟩, some 2⟩)], 10⟩]
    [⟨49, some 68⟩] [11, 13, 17] = .ok (true, [17]) := by decide

end PCV.C11
