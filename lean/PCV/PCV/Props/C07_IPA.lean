/-
  Property C07 (inner-product argument) — hiding commitments and proofs are blinded with fresh
  randomness from the caller's RNG.  IPA commitments are Pedersen vector commitments: ONE uniformly
  random scalar under the dedicated generator `S` blinds a commitment perfectly (the `h+2`-coefficient
  count of the property text is the KZG-family form; for IPA the hiding bound only switches blinding
  on).  The opening proof of a hiding commitment is blinded by a fresh random polynomial vanishing at
  the point and a fresh scalar.
-/
import PCV.Proofs.IPA
import PCV.Props.Examples

set_option linter.unusedSectionVars false

namespace PCV.C07
open PCV
variable {F : Type} [Field F] [DecidableEq F]

/-- **IPA hiding commitment.** With a hiding bound, the plain commitment is blinded by the FIRST
draw of the caller's RNG under `S`, and a degree-bounded polynomial's shifted commitment by the
SECOND, independent draw; the unused draws are handed on. -/
theorem ipa_hiding_structure (ck : IPA.CK F) (p : IPA.LPoly F) (draws : List F)
    (c : IPA.Comm F) (st : IPA.Rand F) (rest : List F) (hh : p.hb.isSome = true)
    (hc : IPA.commitOne ck p true draws = .ok (c, st, rest)) :
    c.comm = dot ck.commKey p.poly + ck.s * st.rand ∧
    (p.bound = none → draws = st.rand :: rest ∧ st.shifted = none ∧ c.shifted = none) ∧
    (∀ d, p.bound = some d → ∃ ρs, draws = st.rand :: ρs :: rest ∧ st.shifted = some ρs ∧
      c.shifted = some (dot (ck.commKey.drop (IPA.supportedDegree ck - d)) p.poly + ck.s * ρs)) := by
  obtain ⟨_, _, _, h4, h5, _, _⟩ := IPA.commitOne_spec ck p true draws c st rest hc
  refine ⟨h4, ?_, ?_⟩
  all_goals
    unfold IPA.commitOne at hc
    split at hc
    · cases hc
    · split at hc
      · cases hc
      · rename_i st' d' hd
        injection hc with hc; injection hc with e1 e2; injection e2 with e2 e3
        subst e2; subst e3
        unfold IPA.drawRand at hd
        rw [hh] at hd
        simp only [Bool.not_true, Bool.false_eq_true, if_false] at hd
        cases draws with
        | nil => simp at hd
        | cons ρ ds =>
          simp only at hd
          first
          | (intro hb
             rw [hb] at hd
             simp only [Option.isSome_none, Bool.not_false, if_true] at hd
             injection hd with hd; injection hd with a b
             subst a; subst b
             refine ⟨rfl, rfl, ?_⟩
             rw [← e1, hb]; rfl)
          | (intro d hb
             rw [hb] at hd
             simp only [Option.isSome_some, Bool.not_true, Bool.false_eq_true, if_false] at hd
             cases ds with
             | nil => simp at hd
             | cons ρs ds' =>
               simp only at hd
               injection hd with hd; injection hd with a b
               subst a; subst b
               refine ⟨ρs, rfl, rfl, ?_⟩
               simp only at h5
               rw [h5, hb]
               simp only [Option.map_some, IPA.optVal]
               rw [IPA.dot_drop_pshift])

/-- without an RNG a hiding commit never returns a commitment (the library's `OptionalRng` panics) -/
theorem ipa_missing_rng (ck : IPA.CK F) (p : IPA.LPoly F) (draws : List F) (hh : p.hb.isSome = true) :
    ∀ x, IPA.commitOne ck p false draws ≠ .ok x := by
  intro x hc
  unfold IPA.commitOne at hc
  split at hc
  · cases hc
  · split at hc
    · cases hc
    · rename_i st' d' hd
      unfold IPA.drawRand at hd
      rw [hh] at hd
      simp at hd

/-- without a hiding bound: no blinding, no draws consumed, the same result with or without an RNG -/
theorem ipa_nonhiding_deterministic (ck : IPA.CK F) (p : IPA.LPoly F) (rng₁ rng₂ : Bool)
    (d₁ d₂ : List F) (hh : p.hb = none) :
    (IPA.commitOne ck p rng₁ d₁).map (fun x => (x.1, x.2.1)) =
      (IPA.commitOne ck p rng₂ d₂).map (fun x => (x.1, x.2.1)) ∧
    ∀ c st rest, IPA.commitOne ck p rng₁ d₁ = .ok (c, st, rest) →
      st = ⟨0, none⟩ ∧ rest = d₁ ∧ c.comm = dot ck.commKey p.poly := by
  have hs : p.hb.isSome = false := by rw [hh]; rfl
  constructor
  · unfold IPA.commitOne IPA.drawRand
    rw [hs]
    split <;> simp [Except.map]
  · intro c st rest hc
    obtain ⟨_, _, _, h4, _, _, _⟩ := IPA.commitOne_spec ck p rng₁ d₁ c st rest hc
    unfold IPA.commitOne at hc
    split at hc
    · cases hc
    · unfold IPA.drawRand at hc
      rw [hs] at hc
      simp only [Bool.not_false, if_true] at hc
      injection hc with hc; injection hc with e1 e2; injection e2 with e2 e3
      subst e2
      refine ⟨rfl, e3.symm, ?_⟩
      rw [h4]; simp

/-- **IPA hiding proof.** When some opened polynomial is hiding, the prover draws a fresh polynomial of
`s+1` coefficients (non-zero top) from the caller's RNG followed by one more fresh scalar `ω`; the
polynomial is shifted to vanish at the point, committed under the full key with `ω` as blinder
(`hiding_comm`), and the proof's `rand` is the combined commitment randomness plus `α·ω`. -/
theorem ipa_proof_blinding (ck : IPA.CK F) (z : F) (acc acc' : IPA.OpenAcc F) (draws ros : List F)
    (hcomm : Option F) (ros' draws' : List F) (hh : acc.hid = true)
    (hs : IPA.hidingStep ck z acc true draws ros = .ok (acc', hcomm, ros', draws')) :
    ∃ hp ω α, KZG.randPoly (IPA.supportedDegree ck) draws = some (hp, ω :: draws') ∧
      hp.length = IPA.supportedDegree ck + 1 ∧ hp.getLast? ≠ some 0 ∧
      ros = α :: ros' ∧
      evalPoly (IPA.subConst hp (evalPoly hp z)) z = 0 ∧
      hcomm = some (dot ck.commKey (IPA.subConst hp (evalPoly hp z)) + ck.s * ω) ∧
      acc'.r = acc.r + α * ω ∧
      acc'.p = padd acc.p (pscale α (IPA.subConst hp (evalPoly hp z))) := by
  unfold IPA.hidingStep at hs
  rw [hh] at hs
  simp only [Bool.not_true, Bool.false_eq_true, if_false] at hs
  split at hs
  · cases hs
  · rename_i hp rest hr
    cases rest with
    | nil => simp at hs
    | cons ω rest' =>
      simp only at hs
      cases ros with
      | nil => simp at hs
      | cons α ros'' =>
        simp only at hs
        injection hs with hs; injection hs with e1 e2; injection e2 with e2 e3; injection e3 with e3 e4
        subst e1; subst e3; subst e4
        obtain ⟨l1, n1, _⟩ := KZG.randPoly_length _ _ _ _ hr
        refine ⟨hp, ω, α, hr, l1, n1, rfl, ?_, ?_, rfl, rfl⟩
        · cases hp with
          | nil => simp [IPA.subConst]
          | cons c cs => simp only [IPA.subConst, evalPoly_cons]; ring
        · rw [← e2]; unfold IPA.cmCommit; ring_nf

/-- a hiding open without an RNG aborts instead of returning an unblinded proof -/
theorem ipa_proof_missing_rng (ck : IPA.CK F) (z : F) (acc : IPA.OpenAcc F) (draws ros : List F)
    (hh : acc.hid = true) : IPA.hidingStep ck z acc false draws ros = .error .abort := by
  unfold IPA.hidingStep; rw [hh]; simp

/-- a non-hiding open draws nothing and publishes no hiding commitment -/
theorem ipa_proof_nonhiding (ck : IPA.CK F) (z : F) (acc : IPA.OpenAcc F) (rng : Bool)
    (draws ros : List F) (hh : acc.hid = false) :
    IPA.hidingStep ck z acc rng draws ros = .ok (acc, none, ros, draws) := by
  unfold IPA.hidingStep; rw [hh]; simp

/-! non-vacuity -/
example : IPA.commitOne (⟨[3, 5, 7, 11], 13, 17, 7⟩ : IPA.CK K) ⟨[1], [4, 9, 2], some 2, some 1⟩ true [6, 8, 9]
    = .ok (⟨72, some 39⟩, ⟨6, some 8⟩, [9]) := by decide
example : IPA.hidingStep (⟨[3, 5], 13, 17, 3⟩ : IPA.CK K) 4 ⟨[1, 2], 5, 6, true⟩ true [7, 8, 9, 10] [11, 12]
    = .ok (⟨[53, 90], 95, 4, true⟩, some 97, [12], [10]) := by decide

end PCV.C07
